/-
Regenerated-code equality theorems for package internal/gem (pointer level): module `GemOps` —
Sub, SetCharAt, Repeat, RepeatStr, IndexFunc (see GenEq/Gem.lean).
-/
import RosedVerif.Model.GenEq.Gem
set_option linter.unusedVariables false
set_option linter.unusedSectionVars false
set_option linter.unusedSimpArgs false
namespace RosedVerif.GenCodeEq
open RosedVerif RosedVerif.H RosedVerif.HGo

theorem rebase_getD {β : Type} (l : List β) (f : β → β) (k : Nat) (hk : k < l.length) (d : β) :
    ((l.take k).map f ++ l.drop k).getD k d = l[k] := by
  have h1 : ((l.take k).map f).length = k := by simp; omega
  rw [List.getD_eq_getElem?_getD, List.getElem?_append_right (by omega), h1]
  simp [List.getElem?_eq_getElem hk]

theorem rebase_step {β : Type} (l : List β) (f : β → β) (k : Nat) (hk : k < l.length) :
    ((l.take k).map f ++ l.drop k).set k (f l[k]) = (l.take (k + 1)).map f ++ l.drop (k + 1) := by
  have h1 : ((l.take k).map f).length = k := by simp; omega
  have h2 : l.take (k + 1) = l.take k ++ [l[k]] := by
    rw [List.take_add_one, List.getElem?_eq_getElem hk]; rfl
  rw [List.set_append_right _ _ (by omega), h1, Nat.sub_self, List.drop_eq_getElem_cons hk, List.set_cons_zero, h2,
    List.map_append, List.append_assoc]
  rfl
/-- the rebase loop of `Sub`: `(*clone.gc)[i] -= runesStart` for every `i` -/
theorem rebase_loop (c : Nat) (a : Nat) (l : List Nat) (hl : ∀ x ∈ l, a ≤ x) (body : Int → Int → Unit → HM Unit)
    (hb : ∀ (k : Nat) (x : Int) (h : Heap) (cur : List Nat), k < cur.length → c < h.cells.length → h.get c = some cur →
      a ≤ cur.getD k 0 → body k x () h = (h.set c (some (cur.set k (cur.getD k 0 - a))), .ok (), []))
    (h : Heap) (hc : c < h.cells.length) (hg : h.get c = some l) :
    forRangeM (l.map Int.ofNat) body () h = (h.set c (some (l.map (· - a))), .ok (), []) := by
  obtain ⟨h', s', e1, p1⟩ := forRangeM_heap body
    (fun k _ h' => h' = h.set c (some ((l.take k).map (· - a) ++ l.drop k))) (l.map Int.ofNat)
    (by
      intro k x s h' hk hp
      have hlt : k < l.length := by
        have := (List.getElem?_eq_some_iff.mp hk).1; simpa using this
      subst hp
      have hcur := rebase_getD l (· - a) k hlt 0
      have hlen : k < ((l.take k).map (· - a) ++ l.drop k).length := by simp; omega
      refine ⟨_, (), hb k x _ _ hlen (by simpa [Heap.size_set] using hc) (get_set_self _ _ _ hc)
        (by rw [hcur]; exact hl _ (List.getElem_mem hlt)), ?_⟩
      rw [hcur, set_set, rebase_step l (· - a) k hlt])
    () h (by simp [set_get_self h c _ hc hg])
  rw [e1, p1]
  simp
theorem slice_ok {β : Type} (l : List β) (a b : Nat) (hab : a ≤ b) (hb : b ≤ l.length) :
    slice l (a : Int) (b : Int) = .ok (sliceRunes l a b) := by
  unfold slice sliceRunes
  rw [if_pos (by omega)]
  simp [pure_eq_ok]

theorem oslice_ok (e : List Nat) (a b : Nat) (hab : a ≤ b) (hb : b ≤ e.length) :
    oslice (some (e.map Int.ofNat)) (a : Int) (b : Int) = .ok (some (((e.drop a).take (b - a)).map Int.ofNat)) := by
  simp only [oslice]
  have hb' : b ≤ (e.map Int.ofNat).length := by rw [List.length_map]; exact hb
  rw [slice_ok _ a b hab hb']
  simp [sliceRunes, map_ok, List.map_take, List.map_drop]

theorem toCell_take_drop_map (e : List Nat) (n m : Nat) :
    toCell (some (List.take n (List.drop m (List.map Int.ofNat e)))) = .ok (some (List.take n (List.drop m e))) := by
  have := toCell_some_map (List.take n (List.drop m e))
  simpa [List.map_take, List.map_drop] using this

theorem cOff_le_getD {e : List Nat} {n : Nat} (hp : Part e n) {rs : List Int} (hn : n = rs.length) (a i : Nat) (hai : a ≤ i) (hi : i < e.length) :
    cOff e a ≤ e.getD i 0 := by
  subst hn
  have := hp.cOff_mono (a := a) (b := i + 1) (by omega) (by omega)
  simpa [cOff] using this

theorem cOff_succ (e : List Nat) (k : Nat) : cOff e (k + 1) = e.getD k 0 := by simp [cOff]

/-- `Sub` after `Len()`: `$e` are the cached ends (`$hp : Part $e ($rs).length`), `$n` is the clone's cell -/
local macro "sub_tail" rs:term:max e:term:max start:ident end_:ident n:term:max hp:term:max "[" ts:Lean.Parser.Tactic.simpLemma,* "]" : tactic => `(tactic| (
  obtain ⟨b0, b1, b2⟩ := RosedVerif.rangeToIndexes_bounds (($e).length : Int) $start $end_ (by omega)
  obtain ⟨st, en, hst⟩ : ∃ st en, RosedVerif.rangeToIndexes (($e).length : Int) $start $end_ = (st, en) := ⟨_, _, rfl⟩
  rw [hst] at b0 b1 b2
  simp only at b0 b1 b2
  by_cases hse : st = en
  · gem_run [$ts,*, H.len, H.initialized, H.ensure, hse, hst, HGo.rangeToIndexes]
  · gem_run [$ts,*, H.len, H.initialized, hse, hst, HGo.rangeToIndexes, H.clone, H.ensure]
    obtain ⟨a', hst'⟩ : ∃ k : Nat, st = k := ⟨st.toNat, by omega⟩
    obtain ⟨b', hen'⟩ : ∃ k : Nat, en = k := ⟨en.toNat, by omega⟩
    subst hst' hen'
    have hab : a' < b' := by omega
    have hbl : b' ≤ ($e).length := by omega
    have hB : Go.idx (($e).map Int.ofNat) ((b' : Int) - 1) = .ok ((cOff $e b' : Nat) : Int) := by
      have := idx_map_ok $e ((b' : Int) - 1) (by omega) (by omega)
      have h2 : ((b' : Int) - 1).toNat = b' - 1 := by omega
      have h3 : cOff $e b' = ($e).getD (b' - 1) 0 := by simp [cOff]; omega
      rw [this, h2, h3]
    have hA : 0 < (a' : Int) → Go.idx (($e).map Int.ofNat) ((a' : Int) - 1) = .ok ((cOff $e a' : Nat) : Int) := by
      intro hpos
      have := idx_map_ok $e ((a' : Int) - 1) (by omega) (by omega)
      have h2 : ((a' : Int) - 1).toNat = a' - 1 := by omega
      have h3 : cOff $e a' = ($e).getD (a' - 1) 0 := by simp [cOff]; omega
      rw [this, h2, h3]
    have hA0 : ¬ 0 < (a' : Int) → cOff $e a' = 0 := by
      intro hn
      have : a' = 0 := by omega
      simp [cOff, this]
    have hAB : cOff $e a' ≤ cOff $e b' := ($hp).cOff_mono (by omega) hbl
    have hBn : cOff $e b' ≤ ($rs).length := ($hp).cOff_le hbl
    have hsl := slice_ok $rs (cOff $e a') (cOff $e b') hAB hBn
    have hos := oslice_ok $e a' b' (by omega) hbl
    have hrhsA : (if 0 < a' then $e[a' - 1]?.getD 0 else 0) = cOff $e a' := by
      unfold cOff; split <;> simp_all <;> omega
    have hrhsB : $e[b' - 1]?.getD 0 = cOff $e b' := by
      simp [cOff]; omega
    have hsub : (b' : Int) - (a' : Int) = ((b' - a' : Nat) : Int) := by omega
    have hmap : List.take (b' - a') (List.drop a' (List.map (fun x => x - cOff $e a') $e)) =
        ((($e).drop a').take (b' - a')).map (· - cOff $e a') := by
      simp [List.map_take, List.map_drop]
    by_cases hpos : 0 < (a' : Int)
    · have hposn : 0 < a' := by omega
      gem_run [$ts,*, hpos, hposn, hA hpos, hB, hsl, hos, hrhsA, hrhsB, hsub, hmap, toCell_take_drop_map]
      have hApos : 0 < cOff $e a' := by
        have h3 : cOff $e a' = ($e).getD (a' - 1) 0 := by simp [cOff]; omega
        rw [h3]; exact (($hp).pos _ (getD_mem_p $e (a' - 1) (by omega))).1
      have hrhsA' : $e[a' - 1]?.getD 0 = cOff $e a' := by simp [cOff]; omega
      have hl : List.take (b' - a') (List.drop a' (List.map Int.ofNat $e)) =
          (List.take (b' - a') (List.drop a' $e)).map Int.ofNat := by simp [List.map_take, List.map_drop]
      have hge : ∀ x ∈ List.take (b' - a') (List.drop a' $e), cOff $e a' ≤ x := by
        intro x hx
        obtain ⟨i, hi, hxe⟩ := List.mem_iff_getElem.mp hx
        subst hxe
        simp only [List.length_take, List.length_drop] at hi
        rw [List.getElem_take, List.getElem_drop]
        have := cOff_le_getD $hp rfl a' (a' + i) (by omega) (by omega)
        simpa [List.getD_eq_getElem?_getD, List.getElem?_eq_getElem (show a' + i < ($e).length by omega)] using this
      rw [hl, if_pos hApos, rebase_loop $n (cOff $e a') _ hge _ ?hb _ (by simp [Heap.set]) (by simp [Heap.get, Heap.set, List.getD_eq_getElem?_getD])]
      case hb =>
        intro k x h' cur hk hc' hg' hak
        have h1 := idx_map_ok cur (k : Int) (by omega) (by omega)
        have h2 := fun v => sliceSet_ok (cur.map Int.ofNat) (k : Int) v (by omega) (by simp; omega)
        have h3 : ∀ y : Nat, cOff $e a' ≤ y → toCell (some ((cur.map Int.ofNat).set k ((y : Int) - (cOff $e a' : Int)))) =
            .ok (some (cur.set k (y - cOff $e a'))) := by
          intro y hy
          have := toCell_some_map (cur.set k (y - cOff $e a'))
          rw [List.map_set] at this
          rw [← this]; congr 4; simp only [Int.ofNat_eq_natCast]; omega
        simp only [Int.toNat_natCast] at h1 h2
        have hak' : cOff $e a' ≤ cur[k]?.getD 0 := by simpa [List.getD_eq_getElem?_getD] using hak
        gem_run [hg', h1, h2, osliceSet, h3 _ hak']
      simp only [hrhsA']
      rw [hmap]
      gem_run [$ts,*]
    · have hposn : ¬ 0 < a' := by omega
      have hz := hA0 hpos
      rw [hz] at hsl hrhsA hmap
      have hsl0 : slice $rs 0 ((cOff $e b' : Nat) : Int) = .ok (sliceRunes $rs 0 (cOff $e b')) := by simpa using hsl
      have hmap0 : List.take (b' - a') (List.drop a' (List.map (fun x => x - 0) $e)) = List.take (b' - a') (List.drop a' $e) := by simp
      gem_run [$ts,*, hpos, hposn, hB, hsl0, hos, hrhsA, hrhsB, hsub, hmap0, toCell_take_drop_map]))

theorem get_append_two (cells : List (Option (List Nat))) (x y) :
    (Heap.mk (cells ++ [x, y])).get (cells.length + 1) = y := by
  simp [Heap.get, List.getD_eq_getElem?_getD, List.getElem?_append_right]

theorem set_append_two (cells : List (Option (List Nat))) (x y z) :
    (Heap.mk (cells ++ [x, y])).set (cells.length + 1) z = Heap.mk (cells ++ [x, z]) := by
  simp [Heap.set, List.set_append_right]

theorem get_append_len (cells : List (Option (List Nat))) (v) (n : Nat) (hn : n = cells.length) :
    (Heap.mk (cells ++ [v])).get n = v := by subst hn; exact get_append_self _ _

theorem set_append_len (cells : List (Option (List Nat))) (v v') (n : Nat) (hn : n = cells.length) :
    (Heap.mk (cells ++ [v])).set n v' = Heap.mk (cells ++ [v']) := by subst hn; exact set_append_self _ _ _

theorem r2i_zero (s e : Int) : RosedVerif.rangeToIndexes 0 s e = (0, 0) := by
  unfold RosedVerif.rangeToIndexes
  simp only
  repeat' split
  all_goals first | rfl | (apply Prod.ext <;> simp only <;> omega)

theorem gemSub_regenerated (hx : Gen.GemCode.gemSub_extracted = true) (s : GStr) (start end_ : Int) (h : Heap)
    (hv : GemOK h s) : Gen.GemCode.gemSub s start end_ h = okM (H.sub s start end_) id h := by
  first
    | exact absurd hx (by decide)
    | (unfold Gen.GemCode.gemSub
       simp only [gemInitialized_regenerated (by decide), gemSplit_regenerated (by decide), gemClone_regenerated (by decide)]
       unfold H.sub
       rcases s with ⟨rs, _ | c⟩
       · have hlen := gemLen_regenerated (by decide) ⟨rs, some h.cells.length⟩ ⟨h.cells ++ [none]⟩ (by intro c hc; cases hc; simp)
         rcases rs with _ | ⟨r0, rs0⟩
         · gem_run [hlen, H.len, H.initialized, H.ensure, HGo.rangeToIndexes, r2i_zero]
         · sub_tail (r0 :: rs0) (splitRunes (r0 :: rs0)) start end_ (h.cells.length + 1) (part_splitRunes (r0 :: rs0)) [hlen, get_append_two, set_append_two]
       · have hc := hv.1 c rfl
         have hlen := gemLen_regenerated (by decide) ⟨rs, some c⟩ h hv.1
         cases hg : h.get c with
         | none =>
           rcases rs with _ | ⟨r0, rs0⟩
           · gem_run [hlen, hg, H.len, H.initialized, H.ensure, HGo.rangeToIndexes, r2i_zero]
           · sub_tail (r0 :: rs0) (splitRunes (r0 :: rs0)) start end_ (h.cells.length) (part_splitRunes (r0 :: rs0)) [hlen, hg, get_set_self _ _ _ hc, Heap.get_set, hc, Heap.size_set, get_append_len, set_append_len]
         | some e =>
           have hp : Part e rs.length := hv.2 c e rfl hg
           sub_tail rs e start end_ (h.cells.length) hp [hlen, hg, get_append_lt _ _ _ hc])

theorem slice_take {β : Type} (l : List β) (a : Nat) (ha : a ≤ l.length) : slice l 0 (a : Int) = .ok (l.take a) := by
  have := slice_ok l 0 a (by omega) ha
  simpa [sliceRunes] using this

theorem slice_drop {β : Type} (l : List β) (b : Nat) (hb : b ≤ l.length) : slice l (b : Int) (l.length : Int) = .ok (l.drop b) := by
  have := slice_ok l b l.length hb (Nat.le_refl _)
  rw [this]; simp [sliceRunes, List.take_of_length_le]

/-- `SetCharAt` after the clone's cache has been filled: `$e` are the cached ends (`$hp : Part $e ($rs).length`) -/
local macro "setCharAt_tail" rs:term:max e:term:max idx:ident hp:term:max "[" ts:Lean.Parser.Tactic.simpLemma,* "]" : tactic => `(tactic| (
  rcases Int.lt_or_le $idx 0 with hneg | hnn
  · have hB := idx_error (($e).map Int.ofNat) $idx (.inl hneg)
    have h0 : ¬ 0 < $idx := by omega
    gem_run [$ts,*, hB, h0, hneg]
  · rcases Int.lt_or_le $idx ($e).length with hlt | hge
    · obtain ⟨k, hidx⟩ : ∃ k : Nat, $idx = k := ⟨($idx).toNat, by omega⟩
      subst hidx
      have hk : k < ($e).length := by omega
      have hB : Go.idx (($e).map Int.ofNat) (k : Int) = .ok ((cOff $e (k + 1) : Nat) : Int) := by
        have := idx_map_ok $e (k : Int) (by omega) (by omega)
        simpa [cOff] using this
      have hA : 0 < (k : Int) → Go.idx (($e).map Int.ofNat) ((k : Int) - 1) = .ok ((cOff $e k : Nat) : Int) := by
        intro hpos
        have := idx_map_ok $e ((k : Int) - 1) (by omega) (by omega)
        have h2 : ((k : Int) - 1).toNat = k - 1 := by omega
        have h3 : cOff $e k = ($e).getD (k - 1) 0 := by simp [cOff]; omega
        rw [this, h2, h3]
      have hab : cOff $e k ≤ cOff $e (k + 1) := ($hp).cOff_mono (by omega) (by omega)
      have hbn : cOff $e (k + 1) ≤ ($rs).length := ($hp).cOff_le (by omega)
      have hspan := span_eq $e k
      have hs1 := slice_take $rs (cOff $e k) (by omega)
      have hs2 := slice_drop $rs (cOff $e (k + 1)) hbn
      have hnv1 : ¬ (k : Int) < 0 := by omega
      have hnv2 : ¬ ($e).length ≤ k := by omega
      by_cases hpos : 0 < (k : Int)
      · have hposn : 0 < k := by omega
        gem_run [$ts,*, hB, hA hpos, hpos, hposn, hspan, hs1, hs2, hnv1, hnv2]
      · have hposn : ¬ 0 < k := by omega
        have hz : cOff $e k = 0 := by
          have : k = 0 := by omega
          simp [cOff, this]
        rw [hz] at hs1 hspan
        have hs1' : slice $rs 0 0 = .ok (($rs).take 0) := by simpa using hs1
        gem_run [$ts,*, hB, hpos, hposn, hspan, hs1', hs2, hnv1, hnv2]
    · have hB := idx_error (($e).map Int.ofNat) $idx (.inr (by simpa using hge))
      have hA : 0 < $idx → (($e).length : Int) ≤ $idx - 1 → Go.idx (($e).map Int.ofNat) ($idx - 1) = .error .index :=
        fun _ h2 => idx_error _ _ (.inr (by simpa using h2))
      have hA' : 0 < $idx → $idx - 1 < (($e).length : Int) → Go.idx (($e).map Int.ofNat) ($idx - 1) = .ok ((($e).getD ($idx - 1).toNat 0 : Nat) : Int) :=
        fun h1 h2 => idx_map_ok $e ($idx - 1) (by omega) h2
      have hc : ¬ $idx < 0 := by omega
      by_cases hpos : 0 < $idx
      · rcases Int.lt_or_le ($idx - 1) ($e).length with h2 | h2
        · gem_run [$ts,*, hB, hA' hpos h2, hpos, hge, hc]
        · gem_run [$ts,*, hB, hA hpos h2, hpos, hge, hc]
      · gem_run [$ts,*, hB, hpos, hge, hc]))

theorem gemSetCharAt_regenerated (hx : Gen.GemCode.gemSetCharAt_extracted = true) (s : GStr) (idx : Int) (r : List Int)
    (h : Heap) (hv : GemOK h s) : Gen.GemCode.gemSetCharAt s idx r h = H.setCharAt s idx r h := by
  first
    | exact absurd hx (by decide)
    | (unfold Gen.GemCode.gemSetCharAt
       simp only [gemInitialized_regenerated (by decide), gemSplit_regenerated (by decide), gemClone_regenerated (by decide)]
       unfold H.setCharAt
       rcases r with _ | ⟨r0, r1⟩
       · gem_run
       · have hr : ¬ ((r1.length : Int) + 1 = 0) := by omega
         rcases s with ⟨rs, _ | c⟩
         · setCharAt_tail rs (splitRunes rs) idx (part_splitRunes rs) [hr, H.initialized, H.clone, H.ensure, get_append_two, set_append_two]
         · have hc := hv.1 c rfl
           cases hg : h.get c with
           | none => setCharAt_tail rs (splitRunes rs) idx (part_splitRunes rs) [hr, H.initialized, H.clone, H.ensure, hg]
           | some e =>
             have hp : Part e rs.length := hv.2 c e rfl hg
             setCharAt_tail rs e idx hp [hr, H.initialized, H.clone, H.ensure, hg])
/-- the loop of `Repeat`: `k` more rounds of `acc = acc.Add(s)`.  The counter is abstract: `μ c` is the number of
rounds still to do when the counter is `c` (`count - i` for `for i := 0; i < count; i++`, `remaining` itself for
`for remaining > 0 { …; remaining-- }`), `ν` the step of the counter; its final value is not observed. -/
theorem gem_repeat_loop (s : GStr) (μ ν : Int → Int) (hμ : ∀ c, 0 < μ c → μ (ν c) = μ c - 1)
    (cond : GStr × Int → HM Bool) (body : GStr × Int → HM (GStr × Int))
    (hc : ∀ st h, cond st h = (h, .ok (decide (0 < μ st.2)), []))
    (hb : ∀ st h, body st h = ((add st.1 s h).1, .ok ((add st.1 s h).2.1, ν st.2), (add st.1 s h).2.2)) :
    ∀ (k : Nat) (acc : GStr) (c : Int) (h : Heap), (μ c).toNat = k →
      ∃ c', whileM (k + 1) cond body (acc, c) h =
        ((repeatN s k acc h).1, .ok ((repeatN s k acc h).2.1, c'), (repeatN s k acc h).2.2) := by
  intro k
  induction k with
  | zero =>
    intro acc c h hk
    have : ¬ (0 < μ c) := by omega
    refine ⟨c, ?_⟩
    rw [whileM_succ, run_bind_ok (hc _ _), prep_nil]
    simp [this, run_pure, repeatN]
  | succ k ih =>
    intro acc c h hk
    have hpos : 0 < μ c := by omega
    obtain ⟨c', hc'⟩ := ih (add acc s h).2.1 (ν c) (add acc s h).1 (by rw [hμ c hpos]; omega)
    refine ⟨c', ?_⟩
    rw [whileM_succ, run_bind_ok (hc _ _), prep_nil]
    simp only [hpos, decide_true, if_true]
    rw [run_bind_ok (hb _ _), hc']
    simp only [repeatN, prep_mk]

/-- the loop followed by code that reads the accumulated string only -/
theorem gem_repeat_bind {γ : Type} (s : GStr) (μ ν : Int → Int) (hμ : ∀ c, 0 < μ c → μ (ν c) = μ c - 1)
    (cond : GStr × Int → HM Bool) (body : GStr × Int → HM (GStr × Int)) (K : GStr × Int → HM γ) (K' : GStr → HM γ)
    (k : Nat) (acc : GStr) (c : Int) (h : Heap) (hk : (μ c).toNat = k)
    (hc : ∀ st h, cond st h = (h, .ok (decide (0 < μ st.2)), []))
    (hb : ∀ st h, body st h = ((add st.1 s h).1, .ok ((add st.1 s h).2.1, ν st.2), (add st.1 s h).2.2))
    (hK : ∀ a c', K (a, c') = K' a) :
    (whileM (k + 1) cond body (acc, c) >>= K) h = (okM (repeatN s k acc) id >>= K') h := by
  obtain ⟨c', hc'⟩ := gem_repeat_loop s μ ν hμ cond body hc hb k acc c h hk
  rw [run_bind_ok hc', run_okM_bind, hK]
  rfl

theorem gemRepeat_regenerated (hx : Gen.GemCode.gemRepeat_extracted = true) (s : GStr) (count : Int) :
    Gen.GemCode.gemRepeat s count = okM (H.repeat s count) id := by
  first
    | exact absurd hx (by decide)
    | (funext h
       unfold Gen.GemCode.gemRepeat
       simp only [gemAdd_regenerated (by decide)]
       unfold H.repeat
       -- the counter: up from 0, down from `count`, or up from 1 — whichever the source uses now
       first
         | refine (gem_repeat_bind s (fun i => count - i) (· + 1) (by intro c _; omega) _ _ _ (fun a => pure a) _ _ _ h
             (by omega) ?hc ?hb ?hK).trans ?_
         | refine (gem_repeat_bind s (fun i => i) (· - 1) (by intro c _; omega) _ _ _ (fun a => pure a) _ _ _ h
             (by omega) ?hc ?hb ?hK).trans ?_
         | refine (gem_repeat_bind s (fun i => count + 1 - i) (· + 1) (by intro c _; omega) _ _ _ (fun a => pure a) _ _ _ h
             (by omega) ?hc ?hb ?hK).trans ?_
       case hc => intro st h'; first | (gem_run; done) | (gem_run <;> omega)
       case hb => intro st h'; first | (gem_run; done) | (gem_run <;> omega)
       case hK => intro a c'; rfl
       gem_run)

/-- `RepeatStr(s, n)` is `Repeat(New(s), n)`: layer H has no separate function, the right-hand side is the composition
of `H.new` and `H.repeat` (heap threaded, events concatenated) -/
theorem gemRepeatStr_regenerated (hx : Gen.GemCode.gemRepeatStr_extracted = true) (rs : List Int) (count : Int) (h : Heap) :
    Gen.GemCode.gemRepeatStr rs count h =
      ((H.repeat (H.new rs h).2.1 count (H.new rs h).1).1, .ok (H.repeat (H.new rs h).2.1 count (H.new rs h).1).2.1,
        (H.new rs h).2.2 ++ (H.repeat (H.new rs h).2.1 count (H.new rs h).1).2.2) := by
  first
    | exact absurd hx (by decide)
    | (unfold Gen.GemCode.gemRepeatStr
       simp only [gemNew_regenerated (by decide), gemRepeat_regenerated (by decide)]
       gem_run)
theorem whileCtlM_succ {σ ρ : Type} (n : Nat) (cond : σ → HM Bool) (body : σ → HM (σ × Go.Ctl ρ)) (s : σ) :
    whileCtlM n.succ cond body s = (cond s >>= fun b =>
      if b then (body s >>= fun r => match r.2 with
        | .next => whileCtlM n cond body r.1
        | .brk => pure (r.1, none)
        | .ret v => pure (r.1, some v)) else pure (s, none)) := rfl

/-- the first evaluation of the loop condition may write (fill the cache); afterwards the heap is stable -/
theorem whileCtlM_first {σ ρ : Type} (n : Nat) (cond : σ → HM Bool) (body : σ → HM (σ × Go.Ctl ρ)) (s : σ)
    (h1 h2 : Heap) (b : Bool) (w : List Wr)
    (e1 : cond s h1 = (h2, .ok b, w)) (e2 : cond s h2 = (h2, .ok b, [])) :
    whileCtlM (n + 1) cond body s h1 = prep w (whileCtlM (n + 1) cond body s h2) := by
  rw [whileCtlM_succ, run_bind_ok e1, run_bind_ok e2, prep_nil]

/-- a search loop `for i := i0; i < len; i++ { if p(i) { return i } }` on a heap that neither condition nor body change -/
theorem search_loop {β : Type} (cls : List β) (f : β → Bool) (cond : Int → HM Bool) (body : Int → HM (Int × Go.Ctl Int)) (h : Heap)
    (hc : ∀ i : Nat, cond (i : Int) h = (h, .ok (decide ((i : Int) < (cls.length : Int))), []))
    (hb : ∀ (i : Nat) (hi : i < cls.length), body (i : Int) h =
      (h, .ok (if f cls[i] then ((i : Int), Go.Ctl.ret (i : Int)) else ((i : Int) + 1, Go.Ctl.next)), [])) :
    ∀ (k i fuel : Nat), i + k = cls.length → k + 1 ≤ fuel →
      whileCtlM fuel cond body (i : Int) h =
        (h, .ok ((((cls.drop i).findIdx? f).map (fun j => ((i + j : Nat) : Int))).getD (cls.length : Int),
          ((cls.drop i).findIdx? f).map (fun j => ((i + j : Nat) : Int))), []) := by
  intro k
  induction k with
  | zero =>
    intro i fuel hik hf
    obtain ⟨m, rfl⟩ : ∃ m, fuel = m + 1 := ⟨fuel - 1, by omega⟩
    have : ¬ ((i : Int) < (cls.length : Int)) := by omega
    rw [whileCtlM_succ, run_bind_ok (hc i), prep_nil]
    have hd : cls.drop i = [] := List.drop_eq_nil_of_le (by omega)
    simp [this, run_pure, hd]
    omega
  | succ k ih =>
    intro i fuel hik hf
    obtain ⟨m, rfl⟩ : ∃ m, fuel = m + 1 := ⟨fuel - 1, by omega⟩
    have hi : i < cls.length := by omega
    have : (i : Int) < (cls.length : Int) := by omega
    rw [whileCtlM_succ, run_bind_ok (hc i), prep_nil]
    simp only [this, decide_true, if_true]
    rw [run_bind_ok (hb i hi), prep_nil, List.drop_eq_getElem_cons hi, List.findIdx?_cons]
    cases hf' : f cls[i] with
    | true => simp [run_pure]
    | false =>
      have e := ih (i + 1) m (by omega) (by omega)
      simp only [Bool.false_eq_true, if_false]
      have : ((i : Int) + 1) = ((i + 1 : Nat) : Int) := by omega
      rw [this, e]
      cases (cls.drop (i + 1)).findIdx? f <;> simp <;> omega

theorem search_loop0 {β : Type} (cls : List β) (f : β → Bool) (cond : Int → HM Bool) (body : Int → HM (Int × Go.Ctl Int)) (h : Heap)
    (hc : ∀ i : Nat, cond (i : Int) h = (h, .ok (decide ((i : Int) < (cls.length : Int))), []))
    (hb : ∀ (i : Nat) (hi : i < cls.length), body (i : Int) h =
      (h, .ok (if f cls[i] then ((i : Int), Go.Ctl.ret (i : Int)) else ((i : Int) + 1, Go.Ctl.next)), []))
    (fuel : Nat) (hf : cls.length + 1 ≤ fuel) :
    whileCtlM fuel cond body 0 h =
      (h, .ok ((((cls.findIdx? f).map (fun j => ((j : Nat) : Int))).getD (cls.length : Int)),
        (cls.findIdx? f).map (fun j => ((j : Nat) : Int))), []) := by
  have := search_loop cls f cond body h hc hb cls.length 0 fuel (by simp) hf
  simpa using this

theorem gem_clustersFrom_getElem (s : List Int) : ∀ (e : List Nat) (prev i : Nat) (hi : i < (clustersFrom s prev e).length),
    (clustersFrom s prev e)[i] = sliceRunes s (if i = 0 then prev else e.getD (i - 1) 0) (e.getD i 0) := by
  intro e
  induction e with
  | nil => intro prev i hi; simp [clustersFrom] at hi
  | cons x xs ih =>
    intro prev i hi
    cases i with
    | zero => simp [clustersFrom]
    | succ j =>
      simp only [clustersFrom, List.getElem_cons_succ]
      rw [ih x j (by simpa [clustersFrom] using hi)]
      cases j <;> simp

theorem len_filled (rs : List Int) (c : Nat) (h : Heap) (e : List Nat) (hg : h.get c = some e) :
    H.len ⟨rs, some c⟩ h = (h, e.length, []) := by
  simp [H.len, H.initialized, cellOf, hg]

theorem charAt_filled (rs : List Int) (c : Nat) (h : Heap) (e : List Nat) (hg : h.get c = some e) (i : Nat) (hi : i < e.length) :
    H.charAt ⟨rs, some c⟩ (i : Int) h = (h, .ok (sliceRunes rs (cOff e i) (cOff e (i + 1))), []) := by
  have h1 : ¬ ((i : Int) < 0 ∨ (i : Int) ≥ (e.length : Int)) := by omega
  simp only [H.charAt, H.initialized, H.ensure, cellOf, Option.getD_some, hg, h1, if_false, span_eq, Int.toNat_natCast]
  rfl

/-- `Len()` of an initialized value: afterwards the heap is stable under `Len()`, and the cache is filled unless the
value is empty -/
theorem len_stable (rs : List Int) (c : Nat) (h1 : Heap) (hc : c < h1.cells.length)
    (hp : ∀ e, h1.get c = some e → Part e rs.length) :
    ∃ h2 w2 e, H.len ⟨rs, some c⟩ h1 = (h2, e.length, w2) ∧ H.len ⟨rs, some c⟩ h2 = (h2, e.length, []) ∧
      (e = [] ∨ h2.get c = some e) ∧ Part e rs.length ∧ c < h2.cells.length ∧
      (e ≠ [] → H.ensure ⟨rs, some c⟩ h2 = (h2, e, [])) := by
  cases hg : h1.get c with
  | some e =>
    refine ⟨h1, [], e, len_filled rs c h1 e hg, len_filled rs c h1 e hg, .inr hg, hp e hg, hc, fun _ => ?_⟩
    simp [H.ensure, cellOf, hg]
  | none =>
    rcases rs with _ | ⟨r0, rs0⟩
    · refine ⟨h1, [], [], ?_, ?_, .inl rfl, ?_, hc, fun h => absurd rfl h⟩
      · simp [H.len, H.initialized, cellOf, hg]
      · simp [H.len, H.initialized, cellOf, hg]
      · exact ⟨by simp, by simp, by simp⟩
    · have hg2 : (h1.set c (some (splitRunes (r0 :: rs0)))).get c = some (splitRunes (r0 :: rs0)) := get_set_self _ _ _ hc
      refine ⟨h1.set c (some (splitRunes (r0 :: rs0))), [.fill c], splitRunes (r0 :: rs0), ?_, len_filled _ c _ _ hg2, .inr hg2,
        part_splitRunes _, by simpa [Heap.size_set] using hc, fun _ => ?_⟩
      · simp [H.len, H.initialized, H.ensure, cellOf, hg]
      · simp [H.ensure, cellOf, hg2]

/-- `IndexFunc` on an initialized receiver -/
theorem gemIndexFunc_init (hx : Gen.GemCode.gemIndexFunc_extracted = true) (rs : List Int) (c : Nat) (f : List Int → Bool)
    (h : Heap) (hv : GemOK h ⟨rs, some c⟩) :
    Gen.GemCode.gemIndexFunc ⟨rs, some c⟩ f h = okM (H.indexFunc f ⟨rs, some c⟩) id h := by
  first
    | exact absurd hx (by decide)
    | (obtain ⟨h2, w2, e, hl1, hl2, hfill, hp, hc2, hen⟩ := len_stable rs c h (hv.1 c rfl) (fun e he => hv.2 c e rfl he)
       have hv2 : GemOK h2 ⟨rs, some c⟩ := ⟨fun c' hc' => by cases hc'; exact hc2, fun c' e' hc' he' => by
         cases hc'
         rcases hfill with h0 | hg2
         · subst h0
           have h3 := len_filled rs c h2 e' he'
           rw [hl2] at h3
           have : e'.length = 0 := by simpa using (congrArg (fun x => x.2.1) h3).symm
           have : e' = [] := by simpa using this
           subst this; exact hp
         · rw [hg2] at he'; cases he'; exact hp⟩
       have hlen1 := gemLen_regenerated (by decide) ⟨rs, some c⟩ h hv.1
       have hlen2 := gemLen_regenerated (by decide) ⟨rs, some c⟩ h2 hv2.1
       have hcl : (clustersFrom rs 0 e).length = e.length := clustersFrom_length' rs 0 e
       have hloop := fun cond body hc hb => search_loop0 (clustersFrom rs 0 e) f cond body h2 hc hb (rs.length + 1)
         (by have := hp.length_le; omega)
       unfold Gen.GemCode.gemIndexFunc
       simp only [gemInitialized_regenerated (by decide)]
       unfold H.indexFunc
       gem_run [H.initialized]
       rw [whileCtlM_first _ _ _ _ h h2 (decide ((0 : Int) < (e.length : Int))) w2 ?e1 ?e2, hloop]
       case e1 => gem_run [hlen1, hl1]
       case e2 => gem_run [hlen2, hl2]
       · rw [hl1]
         by_cases h0 : e = []
         · subst h0; simp [clustersFrom, findIdxInt, run_pure, prep_mk, prep]
         · have h0' : ¬ ((e.length : Int) = 0) := by
             have : e.length ≠ 0 := by simpa using h0
             omega
           simp only [hen h0]
           simp only [h0', if_false, findIdxInt]
           cases List.findIdx? f (clustersFrom rs 0 e) <;> simp [run_pure, prep_mk, prep, h0]
       · intro i
         gem_run [hlen2, hl2, hcl]
       · intro i hi
         have hi' : i < e.length := by rw [← hcl]; exact hi
         have hg2 : h2.get c = some e := by
           rcases hfill with h0 | hg2
           · subst h0; simp at hi'
           · exact hg2
         have hch := gemCharAt_regenerated (by decide) ⟨rs, some c⟩ (i : Int) h2 hv2
         have hcf := charAt_filled rs c h2 e hg2 i hi'
         have hge := gem_clustersFrom_getElem rs e 0 i hi
         have hco : (if i = 0 then 0 else e.getD (i - 1) 0) = cOff e i := by simp [cOff]
         rw [hco, ← cOff_succ] at hge
         rw [hge]
         gem_run [hch, hcf]
         gem_close)

theorem gemIndexFunc_regenerated (hx : Gen.GemCode.gemIndexFunc_extracted = true) (s : GStr) (f : List Int → Bool) (h : Heap)
    (hv : GemOK h s) : Gen.GemCode.gemIndexFunc s f h = okM (H.indexFunc f s) id h := by
  first
    | exact absurd hx (by decide)
    | (rcases s with ⟨rs, _ | c⟩
       · have hi := gemIndexFunc_init hx rs h.cells.length f ⟨h.cells ++ [none]⟩
           ⟨fun c hc => by cases hc; simp, fun c e hc he => by cases hc; simp [get_append_self] at he⟩
         unfold Gen.GemCode.gemIndexFunc at hi ⊢
         simp only [gemInitialized_regenerated (by decide)] at hi ⊢
         unfold H.indexFunc at hi ⊢
         simp only [run_okM_bind, H.initialized, Heap.alloc, prep_nil, okM_run] at hi ⊢
         rw [hi]
         simp only [prep, beq_iff_eq, List.nil_append, id]
         split <;> simp
       · exact gemIndexFunc_init hx rs c f h hv)

end RosedVerif.GenCodeEq
