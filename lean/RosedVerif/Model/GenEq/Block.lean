/-
Regenerated-code equality theorems (see Model/GenCodeEq.lean for the overview): module `Block`.
-/
import RosedVerif.Model.GenEq.Core
set_option linter.unusedVariables false
set_option linter.unusedSectionVars false
set_option linter.unusedSimpArgs false
namespace RosedVerif.GenCodeEq
open RosedVerif

variable {α : Type} [DecidableEq α] (cx : Ctx α)

theorem blockLen_regenerated (h : Gen.Code.blockLen_extracted = true) (b : Block α) :
    Gen.Code.blockLen cx b = pure (b.lines.length : Int) := by
  first
    | exact absurd h (by decide)
    | (unfold Gen.Code.blockLen
       go_norm)

theorem blockLine_regenerated (h : Gen.Code.blockLine_extracted = true) (b : Block α) (pos : Int) :
    Gen.Code.blockLine cx b pos = b.line pos := by
  first
    | exact absurd h (by decide)
    | (unfold Gen.Code.blockLine Block.line Go.idx
       go_norm
       go_close)

theorem blockCharCount_regenerated (h : Gen.Code.blockCharCount_extracted = true) (b : Block α) (pos : Int) :
    Gen.Code.blockCharCount cx b pos = (do let l ← b.line pos; pure (gLen cx l : Int)) := by
  first
    | exact absurd h (by decide)
    | (unfold Gen.Code.blockCharCount
       rw [blockLine_regenerated cx (by decide)]
       go_norm)

theorem blockSet_regenerated (h : Gen.Code.blockSet_extracted = true) (b : Block α) (pos : Int) (content : List α) :
    Gen.Code.blockSet cx b pos content = b.set pos content := by
  first
    | exact absurd h (by decide)
    | (unfold Gen.Code.blockSet Block.set Go.sliceSet
       go_norm
       go_close)

theorem blockAppend_regenerated (h : Gen.Code.blockAppend_extracted = true) (b : Block α) (content : List α) :
    Gen.Code.blockAppend cx b content = pure (b.append content) := by
  first
    | exact absurd h (by decide)
    | (unfold Gen.Code.blockAppend Block.append
       go_norm
       go_close)

theorem blockJoin_regenerated (h : Gen.Code.blockJoin_extracted = true) (b : Block α) :
    Gen.Code.blockJoin cx b = pure b.join := by
  first
    | exact absurd h (by decide)
    | (unfold Gen.Code.blockJoin Block.join
       rw [blockLen_regenerated cx (by decide)]
       go_norm
       go_close)

/-! ### T1: tb.New, Block.Apply -/

/-- `forRange_fold_inv` (Core) whose body may also use that the element variable is `data[k]` -/
theorem forRange_fold_elem {β σ : Type} (P : σ → Prop) (data : List β) (step : σ → Nat → σ) (body : Int → β → σ → R σ)
    (hP : ∀ (k : Nat) (s : σ), k < data.length → P s → P (step s k))
    (hbody : ∀ (k : Nat) (x : β) (s : σ) (hk : k < data.length), x = data[k] → P s → body (k : Int) x s = pure (step s k)) :
    ∀ (xs pre : List β) (s : σ), data = pre ++ xs → P s →
      Go.forRangeAux body (pre.length : Int) xs s = pure ((List.range' pre.length xs.length).foldl step s) := by
  intro xs
  induction xs with
  | nil => intro pre s _ _; rfl
  | cons x xs ih =>
    intro pre s hc hs
    have hk : pre.length < data.length := by rw [hc]; simp
    have hx : x = data[pre.length] := by subst hc; simp
    rw [Go.forRangeAux, hbody pre.length x s hk hx hs, pure_bind]
    have := ih (pre ++ [x]) (step s pre.length) (by simp [hc]) (hP _ _ hk hs)
    simp only [List.length_append, List.length_cons, List.length_nil, Nat.zero_add, Int.natCast_add, Int.cast_ofNat_Int] at this
    rw [this]
    simp [List.range'_succ]

/-- the copy loop of `tb.New`: `for i := range lines { bl.Lines[i] = lines[i] }` into a block with as many lines -/
theorem forRange_copy_block (ls : List (List α)) (body : Int → List α → Block α → R (Block α))
    (hbody : ∀ (k : Nat) (x : List α) (b : Block α) (hk : k < ls.length), x = ls[k] → b.lines.length = ls.length →
      body (k : Int) x b = pure { b with lines := b.lines.set k ls[k] })
    (b0 : Block α) (h0 : b0.lines.length = ls.length) :
    Go.forRangeM ls body b0 = pure { b0 with lines := ls } := by
  have h := forRange_fold_elem (fun b : Block α => b.lines.length = ls.length) ls
    (fun b k => { b with lines := b.lines.set k (ls.getD k []) }) body (by intro k s _ hs; simpa using hs)
    (by intro k x s hk hx hs
        rw [hbody k x s hk hx hs]
        simp [List.getD_eq_getElem?_getD, hk]) ls [] b0 rfl h0
  simp only [List.length_nil, Int.natCast_zero, ← List.range_eq_range'] at h
  rw [Go.forRangeM, h]
  congr 1
  have hf : ∀ (n : Nat) (b : Block α), (List.range n).foldl (fun (b : Block α) k => { b with lines := b.lines.set k (ls.getD k []) }) b =
      { b with lines := (List.range n).foldl (fun c j => c.set j (ls.getD j [])) b.lines } := by
    intro n
    induction n with
    | zero => intro b; rfl
    | succ n ih => intro b; simp only [List.range_succ, List.foldl_append, List.foldl_cons, List.foldl_nil, ih]
  rw [hf]
  have hm := foldl_set_range_eq_map (fun j _ => ls.getD j ([] : List α)) [] b0.lines
  rw [h0] at hm
  rw [hm, map_range_getD]

theorem makeSlice_nat {β : Type} (n : Nat) (z : β) : Go.makeSlice (n : Int) z = pure (List.replicate n z) := by
  unfold Go.makeSlice
  rw [if_neg (by omega)]
  simp

theorem blockNew_regenerated (h : Gen.Code.blockNew_extracted = true) (text sep : List α) :
    Gen.Code.blockNew cx text sep = pure (Block.new text sep) := by
  first
    | exact absurd h (by decide)
    | (unfold Gen.Code.blockNew Block.new
       go_norm
       split
       · rfl
       · rename_i hs
         have hne := splitOn_ne_nil text sep (Or.inl hs)
         generalize splitOn text sep = L at *
         -- the copy loop, whatever the list and the flag are
         have hcopy : ∀ (ls : List (List α)) (body : Int → List α → Block α → R (Block α)) (tr : Bool),
             (∀ (k : Nat) (x : List α) (b : Block α) (hk : k < ls.length), x = ls[k] → b.lines.length = ls.length →
               body (k : Int) x b = pure { b with lines := b.lines.set k ls[k] }) →
             (Go.makeSlice (ls.length : Int) ([] : List α) >>= fun t5 =>
               Go.forRangeM ls body { lines := t5, sep := sep, trailing := tr }) =
               pure ({ lines := ls, sep := sep, trailing := tr } : Block α) := by
           intro ls body tr hb
           rw [makeSlice_nat, pure_bind, forRange_copy_block ls body hb _ (by simp)]
         have hl : (L.getLast? == some []) = decide (L.getLast hne = []) := by
           rw [List.getLast?_eq_some_getLast hne]
           by_cases hx : L.getLast hne = [] <;> simp [hx]
         -- everything before the loop is free of panics once `lines` is known to be non-empty
         simp only [idx_last L hne, sliceTo_dropLast L hne, pure_bind, bind_assoc, ite_pure, hl]
         rw [hcopy]
         · go_close
         · intro k x b hk hx hlen
           subst hx
           simp only [idx_nat _ k hk, pure_bind, bind_assoc, Go.sliceSet]
           rw [if_pos ⟨Int.natCast_nonneg k, by rw [Int.toNat_natCast, hlen]; exact hk⟩]
           simp only [pure_bind, Int.toNat_natCast])

/-- the loop of `Block.Apply`: `for idx, line := range xs { applied = append(applied, f(idx, line)...) }` -/
theorem forRange_append_mapM {β γ : Type} (g : Int → β → R (List γ)) (d : β) : ∀ (xs pre : List β) (acc : List γ),
    Go.forRangeAux (fun i x acc => g i x >>= fun t => pure (acc ++ t)) (pre.length : Int) xs acc =
      (List.range' pre.length xs.length).mapM (fun (i : Nat) => g (i : Int) ((pre ++ xs).getD i d)) >>= fun outs =>
        pure (acc ++ outs.flatten) := by
  intro xs
  induction xs with
  | nil => intro pre acc; simp [Go.forRangeAux]
  | cons x xs ih =>
    intro pre acc
    simp only [Go.forRangeAux, List.length_cons, List.range'_succ, List.mapM_cons, bind_assoc, pure_bind]
    have h1 : (pre ++ x :: xs).getD pre.length d = x := by simp [List.getD_eq_getElem?_getD]
    rw [h1]
    refine bind_congr (m := R) fun y => ?_
    have := ih (pre ++ [x]) (acc ++ y)
    simp only [List.length_append, List.length_cons, List.length_nil, Nat.zero_add, Int.natCast_add, Int.cast_ofNat_Int,
      List.append_assoc, List.cons_append, List.nil_append] at this
    rw [this]
    simp [List.append_assoc]

theorem forRangeAux_congr {β σ : Type} (body body' : Int → β → σ → R σ) (hb : ∀ i x s, body i x s = body' i x s)
    (k : Int) (xs : List β) (s : σ) : Go.forRangeAux body k xs s = Go.forRangeAux body' k xs s := by
  have : body = body' := by funext i x s; exact hb i x s
  rw [this]

/-- Go's callback takes an `int` index, may panic, and may return any number of lines -/
theorem blockApply_regenerated (h : Gen.Code.blockApply_extracted = true) (b : Block α)
    (f : Int → List α → R (List (List α))) :
    Gen.Code.blockApply cx b f = (do
      let outs ← (List.range b.lines.length).mapM (fun (i : Nat) => f (i : Int) (b.lines.getD i []))
      pure { b with lines := outs.flatten }) := by
  first
    | exact absurd h (by decide)
    | (unfold Gen.Code.blockApply
       go_norm
       have key := forRange_append_mapM f ([] : List α) b.lines [] []
       simp only [List.length_nil, List.nil_append, Int.natCast_zero, ← List.range_eq_range'] at key
       simp only [Go.forRangeM]
       rw [forRangeAux_congr _ (fun i x acc => f i x >>= fun t => pure (acc ++ t))
         (by intro i x acc
             refine bind_congr (m := R) fun t => ?_
             go_close), key]
       simp only [bind_assoc, pure_bind])
end RosedVerif.GenCodeEq
