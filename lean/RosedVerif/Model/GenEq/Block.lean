/-
Regenerated-code equality theorems (see Model/GenCodeEq.lean for the overview): module `Block`.
-/
import RosedVerif.Model.GenEq.Core
set_option linter.unusedVariables false
set_option linter.unusedSectionVars false
set_option linter.unusedSimpArgs false
namespace RosedVerif.GenCodeEq
open RosedVerif

variable {α : Type} [DecidableEq α] (cx : Ctx α)

theorem blockLen_regenerated (h : Gen.Code.blockLen_extracted = true) (b : Block α) :
    Gen.Code.blockLen cx b = pure (b.lines.length : Int) := by
  first
    | exact absurd h (by decide)
    | (unfold Gen.Code.blockLen
       go_norm)

theorem blockLine_regenerated (h : Gen.Code.blockLine_extracted = true) (b : Block α) (pos : Int) :
    Gen.Code.blockLine cx b pos = b.line pos := by
  first
    | exact absurd h (by decide)
    | (unfold Gen.Code.blockLine Block.line Go.idx
       go_norm
       go_close)

theorem blockCharCount_regenerated (h : Gen.Code.blockCharCount_extracted = true) (b : Block α) (pos : Int) :
    Gen.Code.blockCharCount cx b pos = (do let l ← b.line pos; pure (gLen cx l : Int)) := by
  first
    | exact absurd h (by decide)
    | (unfold Gen.Code.blockCharCount
       rw [blockLine_regenerated cx (by decide)]
       go_norm)

theorem blockSet_regenerated (h : Gen.Code.blockSet_extracted = true) (b : Block α) (pos : Int) (content : List α) :
    Gen.Code.blockSet cx b pos content = b.set pos content := by
  first
    | exact absurd h (by decide)
    | (unfold Gen.Code.blockSet Block.set Go.sliceSet
       go_norm
       go_close)

theorem blockAppend_regenerated (h : Gen.Code.blockAppend_extracted = true) (b : Block α) (content : List α) :
    Gen.Code.blockAppend cx b content = pure (b.append content) := by
  first
    | exact absurd h (by decide)
    | (unfold Gen.Code.blockAppend Block.append
       go_norm
       go_close)

theorem blockJoin_regenerated (h : Gen.Code.blockJoin_extracted = true) (b : Block α) :
    Gen.Code.blockJoin cx b = pure b.join := by
  first
    | exact absurd h (by decide)
    | (unfold Gen.Code.blockJoin Block.join
       rw [blockLen_regenerated cx (by decide)]
       go_norm
       go_close)

end RosedVerif.GenCodeEq
