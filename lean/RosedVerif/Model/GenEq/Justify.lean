/-
Regenerated-code equality theorems (see Model/GenCodeEq.lean for the overview): module `Justify`.
-/
import RosedVerif.Model.GenEq.Core
import RosedVerif.Model.GenEq.Collapse
set_option linter.unusedVariables false
set_option linter.unusedSectionVars false
set_option linter.unusedSimpArgs false
namespace RosedVerif.GenCodeEq
open RosedVerif

variable {α : Type} [DecidableEq α] (cx : Ctx α)

/-- Go's `fullList`: the words interleaved with one string of `1 + extra[g]` spaces per gap -/
def jlFull : List (List α) → List Nat → List (List α)
  | [], _ => []
  | [w], _ => [w]
  | w :: w' :: ws, e :: es => w :: List.replicate (1 + e) cx.sp :: jlFull (w' :: ws) es
  | w :: w' :: ws, [] => w :: [cx.sp] :: jlFull (w' :: ws) []

theorem jlFull_flatten : ∀ (ws : List (List α)) (ex : List Nat), (jlFull cx ws ex).flatten = interleave cx ws ex := by
  intro ws
  induction ws with
  | nil => intro ex; simp [jlFull, interleave]
  | cons w ws ih =>
    intro ex
    cases ws with
    | nil => simp [jlFull, interleave]
    | cons w' ws' =>
      cases ex with
      | nil => simp [jlFull, interleave, ih]
      | cons e es => simp [jlFull, interleave, ih]

theorem jlFull_length : ∀ (ws : List (List α)) (ex : List Nat), ws ≠ [] → (jlFull cx ws ex).length = 2 * ws.length - 1 := by
  intro ws
  induction ws with
  | nil => intro ex h; exact absurd rfl h
  | cons w ws ih =>
    intro ex _
    cases ws with
    | nil => simp [jlFull]
    | cons w' ws' =>
      cases ex with
      | nil => simp [jlFull, ih [] (by simp)]; omega
      | cons e es => simp [jlFull, ih es (by simp)]; omega

/-- the gap string at position `2g+1` and its update -/
theorem jlFull_gap : ∀ (ws : List (List α)) (ex : List Nat) (g : Nat), g + 1 < ws.length → ex.length + 1 = ws.length →
    (jlFull cx ws ex)[2 * g + 1]? = some (List.replicate (1 + ex.getD g 0) cx.sp) ∧
    (jlFull cx ws ex).set (2 * g + 1) (List.replicate (1 + ex.getD g 0) cx.sp ++ [cx.sp]) =
      jlFull cx ws (ex.modify g (· + 1)) := by
  intro ws
  induction ws with
  | nil => intro ex g h; simp at h
  | cons w ws ih =>
    intro ex g hg hl
    cases ws with
    | nil => simp at hg
    | cons w' ws' =>
      cases ex with
      | nil => simp at hl
      | cons e es =>
        cases g with
        | zero =>
          simp [jlFull, List.replicate_succ']
          rw [show 1 + (e + 1) = (1 + e) + 1 by omega, List.replicate_succ']
        | succ k =>
          have := ih es k (by simpa using hg) (by simpa using hl)
          simp only [jlFull]
          have e1 : 2 * (k + 1) + 1 = (2 * k + 1) + 1 + 1 := by omega
          rw [e1]
          simp only [List.getElem?_cons_succ, List.set_cons_succ, List.getD_cons_succ, List.modify_succ_cons, jlFull]
          exact ⟨this.1, by rw [this.2]⟩

theorem jl_step (ws : List (List α)) (ex : List Nat) (hl : ex.length + 1 = ws.length) (g : Int) :
    (Go.idx (jlFull cx ws ex) (g * 2 + 1) >>= fun t => Go.sliceSet (jlFull cx ws ex) (g * 2 + 1) (t ++ [cx.sp])) =
      if g < 0 ∨ g ≥ ((ws.length : Int) - 1) then throw .index
      else pure (jlFull cx ws (ex.modify g.toNat (· + 1))) := by
  have hne : ws ≠ [] := by intro h; simp [h] at hl
  have hlen := jlFull_length cx ws ex hne
  by_cases hr : g < 0 ∨ g ≥ ((ws.length : Int) - 1)
  · rw [if_pos hr]
    unfold Go.idx
    rw [dif_neg (by omega)]
    rfl
  · rw [if_neg hr]
    have hk : g = ((g.toNat : Nat) : Int) := by omega
    have hk2 : (g * 2 + 1).toNat = 2 * g.toNat + 1 := by omega
    have hg := jlFull_gap cx ws ex g.toNat (by omega) hl
    unfold Go.idx Go.sliceSet
    rw [dif_pos (by omega)]
    simp only [pure_bind]
    rw [if_pos (by omega)]
    have h1 : (jlFull cx ws ex)[(g * 2 + 1).toNat]'(by omega) = List.replicate (1 + ex.getD g.toNat 0) cx.sp := by
      have := hg.1
      rw [← hk2, List.getElem?_eq_getElem (by omega)] at this
      exact Option.some.inj this
    rw [h1, hk2, hg.2]

/-- the distribution loop of JustifyLine over the model's primitives (state: fullList, fromRight, spaceIdx, i) -/
def jlCond (spacesToAdd : Int) (s : List (List α) × Bool × Int × Int) : R Bool := pure (decide (s.2.2.2 < spacesToAdd))

def jlBody (numGaps odd : Int) (s : List (List α) × Bool × Int × Int) : R (List (List α) × Bool × Int × Int) :=
  let g : Int := if s.2.1 then (numGaps - odd) - s.2.2.1 else s.2.2.1
  (Go.idx s.1 (g * 2 + 1) >>= fun t => Go.sliceSet s.1 (g * 2 + 1) (t ++ [cx.sp])) >>= fun fl =>
    pure (fl, !s.2.1, (if s.2.2.1 + 1 ≥ numGaps then 0 else s.2.2.1 + 1), s.2.2.2 + 1)

theorem distribute_eq_while (ws : List (List α)) (odd spacesToAdd : Int) :
    ∀ (fuel n : Nat) (ex : List Nat) (fromRight : Bool) (spaceIdx i : Int),
    ex.length + 1 = ws.length → i + n = spacesToAdd → n + 1 ≤ fuel →
    (jlFull cx ws ·) <$> distribute ((ws.length : Int) - 1) odd n spaceIdx fromRight ex =
      (fun s => s.1) <$> Go.whileM fuel (jlCond spacesToAdd) (jlBody cx ((ws.length : Int) - 1) odd)
        (jlFull cx ws ex, fromRight, spaceIdx, i) := by
  intro fuel
  induction fuel with
  | zero => intro n ex fr si i _ _ h; omega
  | succ f ih =>
    intro n ex fr si i hl hi hf
    unfold Go.whileM
    simp only [jlCond, pure_bind]
    cases n with
    | zero =>
      have : ¬ (i < spacesToAdd) := by omega
      simp [this, distribute]
    | succ m =>
      have : (i < spacesToAdd) := by omega
      simp only [this, decide_true, if_true, jlBody, jl_step cx ws _ hl, distribute]
      generalize (if fr = true then (ws.length : Int) - 1 - odd - si else si) = g
      split
      · rfl
      · simp only [pure_bind]
        exact ih m _ (!fr) _ (i + 1) (by simp [hl]) (by omega) (by omega)

theorem jl_build (N : Int) : ∀ (xs : List (List α)) (k : Int) (acc : List (List α)), k + xs.length = N →
    Go.forRangeAux (fun (i : Int) (w : List α) (acc : List (List α)) =>
        (pure (if i + 1 < N then acc ++ [w] ++ [[cx.sp]] else acc ++ [w]) : R _)) k xs acc =
      pure (acc ++ jlFull cx xs (List.replicate (xs.length - 1) 0)) := by
  intro xs
  induction xs with
  | nil => intro k acc _; simp [Go.forRangeAux, jlFull]
  | cons w ws ih =>
    intro k acc hk
    cases ws with
    | nil =>
      have : ¬ (k + 1 < N) := by simp at hk; omega
      simp [Go.forRangeAux, jlFull, this]
    | cons w' r =>
      have : (k + 1 < N) := by simp at hk; omega
      rw [Go.forRangeAux, pure_bind, if_pos this, ih (k + 1) _ (by simp at hk ⊢; omega)]
      simp [jlFull, List.replicate_succ]

theorem intercalate_nil {β : Type} (l : List (List β)) : List.intercalate [] l = l.flatten := by
  induction l with
  | nil => rfl
  | cons a t ih =>
    cases t with
    | nil => simp [List.intercalate]
    | cons b r =>
      simp only [List.intercalate, List.intersperse_cons_cons, List.flatten_cons, List.nil_append] at ih ⊢
      rw [ih]

/-- the loop that builds `fullList`, for ANY body that appends the word and, before every word but the last, one space -/
theorem jl_build' (xs : List (List α)) (body : Int → List α → List (List α) → R (List (List α)))
    (hbody : ∀ (k : Nat) (w : List α) (acc : List (List α)), k < xs.length →
      body (k : Int) w acc = pure (if (k : Int) + 1 < (xs.length : Int) then acc ++ [w] ++ [[cx.sp]] else acc ++ [w])) :
    Go.forRangeM xs body [] = pure (jlFull cx xs (List.replicate (xs.length - 1) 0)) := by
  rw [forRangeM_congr xs body (fun k w acc => pure (if k + 1 < (xs.length : Int) then acc ++ [w] ++ [[cx.sp]] else acc ++ [w])) [] hbody]
  have := jl_build cx (xs.length : Int) xs 0 [] (by omega)
  simpa [Go.forRangeM] using this

/-- the part of JustifyLine after the two guards, for ANY loop condition / body that agree with the semantic ones
(`jlCond`, `jlBody`); `odd` is the model's parity term -/
theorem jl_tail (t : List α) (width odd : Int) (hg : 2 ≤ (splitOn t [cx.sp]).length) (hw : (gLen cx t : Int) < width)
    (cond : List (List α) × Bool × Int × Int → R Bool)
    (body : List (List α) × Bool × Int × Int → R (List (List α) × Bool × Int × Int))
    (k : List (List α) × Bool × Int × Int → R (List α))
    (hc : ∀ s, cond s = jlCond (width - (gLen cx t : Int)) s)
    (hb : ∀ s, body s = jlBody cx (((splitOn t [cx.sp]).length : Int) - 1) odd s)
    (hk : ∀ s, k s = pure s.1.flatten) :
    Go.whileM ((width - (gLen cx t : Int)).toNat + 1) cond body
        (jlFull cx (splitOn t [cx.sp]) (List.replicate ((splitOn t [cx.sp]).length - 1) 0), false, 0, 0) >>= k =
      distribute (((splitOn t [cx.sp]).length : Int) - 1) odd (width - (gLen cx t : Int)).toNat 0 false
          (List.replicate (((splitOn t [cx.sp]).length : Int) - 1).toNat 0) >>= fun extra =>
        pure (interleave cx (splitOn t [cx.sp]) extra) := by
  have hrep : (((splitOn t [cx.sp]).length : Int) - 1).toNat = (splitOn t [cx.sp]).length - 1 := by omega
  have hR : ∀ m : R (List Nat), (m >>= fun extra => (pure (interleave cx (splitOn t [cx.sp]) extra) : R _)) =
      ((jlFull cx (splitOn t [cx.sp]) ·) <$> m) >>= fun fl => pure fl.flatten := by
    intro m; simp only [map_eq_pure_bind, bind_assoc, pure_bind, jlFull_flatten]
  rw [hR, hrep, distribute_eq_while cx (splitOn t [cx.sp]) _ (width - (gLen cx t : Int))
    ((width - (gLen cx t : Int)).toNat + 1) _ _ false 0 0 (by simp; omega) (by omega) (by omega)]
  simp only [map_eq_pure_bind, bind_assoc, pure_bind]
  exact whileM_bind_congr rfl rfl hc hb hk

theorem justifyLine_regenerated (h : Gen.Code.justifyLine_extracted = true) (text : List α) (width : Int) :
    Gen.Code.justifyLine cx text width = justifyLine cx text width := by
  first
    | exact absurd h (by decide)
    | (unfold Gen.Code.justifyLine justifyLine
       simp only [collapseSpace_regenerated cx (by decide)]
       go_norm
       refine bind_congr (m := R) fun t => ?_
       -- the two guards, decided on both sides whatever their polarity / nesting
       by_cases hw : (gLen cx t : Int) ≥ width
       · have hw' : ¬ (gLen cx t : Int) < width := by omega
         go_guards [hw, hw']
       have hw' : (gLen cx t : Int) < width := by omega
       by_cases hg : ((splitOn t [cx.sp]).length : Int) - 1 < 1
       · have hg' : ¬ ((splitOn t [cx.sp]).length : Int) - 1 ≥ 1 := by omega
         go_guards [hw, hw', hg, hg']
       have hg' : ((splitOn t [cx.sp]).length : Int) - 1 ≥ 1 := by omega
       go_guards [hw, hw', hg, hg']
       -- parity of the number of gaps: both sides' `oddSubtractor` become a literal
       have htm : (((splitOn t [cx.sp]).length : Int) - 1).tmod 2 = (((splitOn t [cx.sp]).length : Int) - 1) % 2 :=
         Int.tmod_eq_emod_of_nonneg (by omega)
       rcases Int.emod_two_eq (((splitOn t [cx.sp]).length : Int) - 1) with hpar | hpar <;>
       ( simp only [htm, hpar, Int.reduceEq, Int.reduceBEq, Int.reduceNeg, Bool.false_eq_true, beq_self_eq_true, ↓reduceIte,
           pure_bind]
         rw [jl_build' cx (splitOn t [cx.sp])]
         · simp only [pure_bind]
           refine jl_tail cx t width _ (by omega) hw' _ _ _ ?_ ?_ ?_
           · intro s; (try simp only [jlCond]) <;> go_close'
           · intro s; (try simp only [jlBody, bind_assoc, pure_bind, ite_pure_bind]) <;> go_close'
           · intro s; simp [joinWith, intercalate_nil]
         · intro k w acc hk
           go_close'))

end RosedVerif.GenCodeEq
