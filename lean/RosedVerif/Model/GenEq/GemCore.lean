/-
Regenerated-code equality theorems for package internal/gem (pointer level, layer H): module `GemCore` —
the heap monad of the generated code (`HGo.HM`, Heap/GoHeapPrims.lean) evaluated on a heap, one `run_*`
lemma per primitive, and the closing tactic.  Not trusted: everything here is proved.
-/
import RosedVerif.Gen.GemCode
import RosedVerif.Model.InstAFacts
set_option linter.unusedVariables false
set_option linter.unusedSectionVars false
set_option linter.unusedSimpArgs false
namespace RosedVerif.GenCodeEq
open RosedVerif RosedVerif.H RosedVerif.HGo

/-- the hand-model computation `m` as a panic-free computation of the generated code's monad: same heap,
same events, result `g` of the hand model's result -/
def okM {α β : Type} (m : M α) (g : α → β) : HM β := fun h => ((m h).1, .ok (g (m h).2.1), (m h).2.2)

theorem okM_run {α β : Type} (m : M α) (g : α → β) (h : Heap) :
    okM m g h = ((m h).1, .ok (g (m h).2.1), (m h).2.2) := rfl

/-! ### running the monad -/

theorem run_pure {α : Type} (a : α) (h : Heap) : (pure a : HM α) h = (h, .ok a, []) := rfl

/-- the events `w` written before, then the outcome `r` of the rest -/
def prep {β : Type} (w : List Wr) (r : Heap × R β × List Wr) : Heap × R β × List Wr := (r.1, r.2.1, w ++ r.2.2)

theorem prep_mk {β : Type} (w w' : List Wr) (h : Heap) (r : R β) : prep w (h, r, w') = (h, r, w ++ w') := rfl
theorem prep_nil {β : Type} (r : Heap × R β × List Wr) : prep [] r = r := by simp [prep]
theorem prep_prep {β : Type} (w w' : List Wr) (r : Heap × R β × List Wr) : prep w (prep w' r) = prep (w ++ w') r := by
  simp [prep]
theorem prep_ite {β : Type} (w : List Wr) (c : Prop) [Decidable c] (a b : Heap × R β × List Wr) :
    prep w (if c then a else b) = if c then prep w a else prep w b := by split <;> rfl

theorem run_bind {α β : Type} (m : HM α) (f : α → HM β) (h : Heap) :
    (m >>= f) h = (match m h with
      | (h1, .ok a, w1) => prep w1 (f a h1)
      | (h1, .error e, w1) => (h1, .error e, w1)) := rfl

/-- `run_bind` when the first computation is known -/
theorem run_bind_ok {α β : Type} {m : HM α} {f : α → HM β} {h h1 : Heap} {a : α} {w1 : List Wr}
    (hm : m h = (h1, .ok a, w1)) : (m >>= f) h = prep w1 (f a h1) := by
  rw [run_bind, hm]

theorem run_bind_error {α β : Type} {m : HM α} {f : α → HM β} {h h1 : Heap} {e : Err} {w1 : List Wr}
    (hm : m h = (h1, .error e, w1)) : (m >>= f) h = (h1, .error e, w1) := by
  rw [run_bind, hm]

theorem run_okM_bind {α β γ : Type} (m : M α) (g : α → β) (f : β → HM γ) (h : Heap) :
    (okM m g >>= f) h = prep (m h).2.2 (f (g (m h).2.1) (m h).1) := rfl

theorem pure_eq_ok {α : Type} (a : α) : (pure a : R α) = Except.ok a := rfl
theorem throw_eq_error {α : Type} (e : Err) : (throw e : R α) = Except.error e := rfl

theorem map_ok {α β : Type} (f : α → β) (a : α) : f <$> (Except.ok a : R α) = Except.ok (f a) := rfl
theorem map_error {α β : Type} (f : α → β) (e : Err) : f <$> (Except.error e : R α) = Except.error e := rfl

theorem run_liftR {α : Type} (r : R α) (h : Heap) : liftR r h = (h, r, []) := rfl
theorem run_panic {α : Type} (e : Err) (h : Heap) : (HGo.panic e : HM α) h = (h, .error e, []) := rfl

theorem run_ite {α : Type} (c : Prop) [Decidable c] (a b : HM α) (h : Heap) :
    (if c then a else b) h = if c then a h else b h := by split <;> rfl

theorem run_newCell (h : Heap) :
    newCell h = (⟨h.cells ++ [none]⟩, .ok (some h.cells.length), [.alloc h.cells.length]) := rfl

theorem run_load (c : Nat) (h : Heap) : load (some c) h = (h, .ok (ofCell (h.get c)), []) := rfl
theorem run_load_none (h : Heap) : load none h = (h, .error .explicit, []) := rfl

/-! ### cells hold naturals -/

theorem all_nonneg_map (l : List Nat) : (l.map Int.ofNat).all (fun x => decide (0 ≤ x)) = true := by
  induction l <;> simp_all

theorem map_toNat_ofNat (l : List Nat) : (l.map Int.ofNat).map Int.toNat = l := by
  induction l <;> simp_all

theorem toCell_ofCell (v : Option (List Nat)) : toCell (ofCell v) = .ok v := by
  cases v with
  | none => rfl
  | some l =>
    have h1 := all_nonneg_map l
    have h2 := map_toNat_ofNat l
    simp only [toCell, ofCell, Option.map_some, h1, h2, if_true]
    rfl

theorem toCell_some_map (l : List Nat) : toCell (some (l.map Int.ofNat)) = .ok (some l) := toCell_ofCell (some l)

theorem toCell_none : toCell none = .ok none := rfl

theorem toCell_replicate (k : Nat) : toCell (some (List.replicate k (0 : Int))) = .ok (some (List.replicate k 0)) := by
  have := toCell_some_map (List.replicate k 0)
  simpa using this

theorem run_store' (c : Nat) (v : Option (List Int)) (h : Heap) :
    store (some c) v h = (match toCell v with
      | .ok v' => (h.set c v', .ok (), [if v'.isSome then .fill c else .clear c])
      | .error e => (h, .error e, [])) := rfl

theorem run_update' (c : Nat) (v : Option (List Int)) (h : Heap) :
    update (some c) v h = (match toCell v with
      | .ok v' => (h.set c v', .ok (), [])
      | .error e => (h, .error e, [])) := rfl

theorem run_newCellOf' (v : Option (List Int)) (h : Heap) :
    newCellOf v h = (match toCell v with
      | .ok v' => (⟨h.cells ++ [v']⟩, .ok (some h.cells.length), [.alloc h.cells.length])
      | .error e => (h, .error e, [])) := rfl

theorem ocopy_some {β : Type} (l : List β) (src : Option (List β)) : ocopy (some l) src = some (Go.copySlice l (olist src)) := rfl
theorem ocopy_none {β : Type} (src : Option (List β)) : ocopy none src = none := rfl


theorem run_store (c : Nat) (v : Option (List Nat)) (h : Heap) :
    store (some c) (ofCell v) h = (h.set c v, .ok (), [if v.isSome then .fill c else .clear c]) := by
  simp [store, toCell_ofCell]

theorem run_store_none (c : Nat) (h : Heap) :
    store (some c) none h = (h.set c none, .ok (), [.clear c]) := by
  simp [store, toCell_none]

theorem run_update (c : Nat) (v : Option (List Nat)) (h : Heap) :
    update (some c) (ofCell v) h = (h.set c v, .ok (), []) := by
  simp [update, toCell_ofCell]

theorem run_newCellOf (v : Option (List Nat)) (h : Heap) :
    newCellOf (ofCell v) h = (⟨h.cells ++ [v]⟩, .ok (some h.cells.length), [.alloc h.cells.length]) := by
  simp [newCellOf, toCell_ofCell, Heap.alloc]

@[simp] theorem ofCell_none : ofCell none = none := rfl
@[simp] theorem ofCell_some (l : List Nat) : ofCell (some l) = some (l.map Int.ofNat) := rfl
@[simp] theorem ofCell_eq_none (v : Option (List Nat)) : ofCell v = none ↔ v = none := by cases v <;> simp [ofCell]

theorem set_get_self (h : Heap) (c : Nat) (v) (hc : c < h.cells.length) (hg : h.get c = v) : h.set c v = h := by
  cases h with | mk cells =>
  simp only [Heap.get, Heap.set] at *
  congr 1
  rw [← hg]
  simp [List.getD_eq_getElem?_getD, List.getElem?_eq_getElem hc]

theorem set_set (h : Heap) (c : Nat) (v w) : (h.set c v).set c w = h.set c w := by
  simp [Heap.set, List.set_set]

/-! ### lists -/

theorem makeSlice_len {β γ : Type} (l : List γ) (z : β) : Go.makeSlice (l.length : Int) z = pure (List.replicate l.length z) := by
  have : ¬ ((l.length : Int) < 0) := by omega
  simp [Go.makeSlice, this]

theorem makeSlice_nonneg {β : Type} (n : Int) (z : β) (hn : 0 ≤ n) : Go.makeSlice n z = .ok (List.replicate n.toNat z) := by
  have : ¬ (n < 0) := by omega
  simp [Go.makeSlice, this, pure_eq_ok]

theorem copySlice_replicate {β : Type} (l : List β) (z : β) : Go.copySlice (List.replicate l.length z) l = l := by
  simp [Go.copySlice]

theorem take_length_map {β γ : Type} (l : List γ) (f : γ → β) : (l.map f).take l.length = l.map f := by
  rw [List.take_of_length_le (by simp)]

theorem copySlice_replicate_map {β γ : Type} (l : List γ) (f : γ → β) (z : β) :
    Go.copySlice (List.replicate l.length z) (l.map f) = l.map f := by
  have := copySlice_replicate (l.map f) z
  simpa using this

theorem replicate_zero_eq_map (k : Nat) : List.replicate k (0 : Int) = (List.replicate k (0 : Nat)).map Int.ofNat := by
  simp

/-! ### heap -/

theorem get_lt {h : Heap} {c : Nat} {e : List Nat} (hg : h.get c = some e) : c < h.cells.length := by
  apply Decidable.byContradiction; intro hn
  rw [Heap.get_of_le h c (by omega)] at hg; cases hg

theorem get_append_lt (cells : List (Option (List Nat))) (v) (c : Nat) (hc : c < cells.length) :
    (Heap.mk (cells ++ [v])).get c = (Heap.mk cells).get c := by
  simp [Heap.get, List.getD_eq_getElem?_getD, List.getElem?_append_left hc]

theorem get_append_self (cells : List (Option (List Nat))) (v) :
    (Heap.mk (cells ++ [v])).get cells.length = v := by
  simp [Heap.get, List.getD_eq_getElem?_getD]

theorem set_append_self (cells : List (Option (List Nat))) (v v') :
    (Heap.mk (cells ++ [v])).set cells.length v' = Heap.mk (cells ++ [v']) := by
  simp [Heap.set]

theorem get_set_self (h : Heap) (c : Nat) (v) (hc : c < h.cells.length) : (h.set c v).get c = v := by
  simp [Heap.get_set, hc]

theorem idx_error {β : Type} (l : List β) (i : Int) (hi : i < 0 ∨ (l.length : Int) ≤ i) : Go.idx l i = .error .index := by
  unfold Go.idx
  rw [dif_neg (by omega)]; rfl

theorem idx_map_ok (e : List Nat) (i : Int) (h0 : 0 ≤ i) (h1 : i < e.length) :
    Go.idx (e.map Int.ofNat) i = .ok ((e.getD i.toNat 0 : Nat) : Int) := by
  have h2 : i.toNat < e.length := by omega
  unfold Go.idx
  rw [dif_pos (by simp; omega)]
  simp [pure_eq_ok, List.getD_eq_getElem?_getD, List.getElem?_eq_getElem h2]

theorem idx_getD (l : List Int) (i : Int) (h0 : 0 ≤ i) (h1 : i < l.length) :
    Go.idx l i = .ok (l.getD i.toNat 0) := by
  have h2 : i.toNat < l.length := by omega
  unfold Go.idx
  rw [dif_pos (by omega)]
  simp [pure_eq_ok, List.getD_eq_getElem?_getD, List.getElem?_eq_getElem h2]

theorem sliceSet_ok {β : Type} (l : List β) (i : Int) (v : β) (h0 : 0 ≤ i) (h1 : i < l.length) :
    Go.sliceSet l i v = .ok (l.set i.toNat v) := by
  unfold Go.sliceSet
  rw [if_pos (by omega)]; rfl

theorem span_eq (e : List Nat) (k : Nat) : clusterSpan e k = (cOff e k, cOff e (k + 1)) := by
  rw [← clusterSpan_fst]; simp [clusterSpan, cOff]

/-! ### range loops -/

theorem idx_of_getElem? {β : Type} {l : List β} {k : Nat} {x : β} (hk : l[k]? = some x) : Go.idx l (k : Int) = .ok x := by
  obtain ⟨hlt, rfl⟩ := List.getElem?_eq_some_iff.mp hk
  unfold Go.idx
  rw [dif_pos (by omega)]
  simp [pure_eq_ok]

/-- a range loop as a fold over index and element -/
def rangeFold {β σ : Type} (step : Nat → β → σ → σ) : Nat → List β → σ → σ
  | _, [], s => s
  | k, x :: xs, s => rangeFold step (k + 1) xs (step k x s)

/-- a range loop whose body neither touches the heap nor panics on the elements of `data` -/
theorem forRangeAux_pure {β σ : Type} (body : Int → β → σ → HM σ) (step : Nat → β → σ → σ) (data : List β)
    (hb : ∀ (k : Nat) (x : β) (s : σ) (h : Heap), data[k]? = some x → body k x s h = (h, .ok (step k x s), [])) :
    ∀ (xs pre : List β) (s : σ) (h : Heap), data = pre ++ xs →
      forRangeAux body (pre.length : Int) xs s h = (h, .ok (rangeFold step pre.length xs s), []) := by
  intro xs
  induction xs with
  | nil => intro pre s h _; rfl
  | cons x xs ih =>
    intro pre s h hd
    have hk : data[pre.length]? = some x := by rw [hd]; simp
    have := ih (pre ++ [x]) (step pre.length x s) h (by simp [hd])
    simp only [List.length_append, List.length_cons, List.length_nil, Nat.zero_add, Int.natCast_add, Int.cast_ofNat_Int] at this
    unfold forRangeAux
    rw [run_bind_ok (hb pre.length x s h hk), prep_nil]
    exact this

theorem forRangeM_pure {β σ : Type} (body : Int → β → σ → HM σ) (step : Nat → β → σ → σ) (data : List β)
    (hb : ∀ (k : Nat) (x : β) (s : σ) (h : Heap), data[k]? = some x → body k x s h = (h, .ok (step k x s), []))
    (s : σ) (h : Heap) : forRangeM data body s h = (h, .ok (rangeFold step 0 data s), []) :=
  forRangeAux_pure body step data hb data [] s h rfl

/-- a range loop whose body neither touches the heap nor panics, under an invariant `P index state` -/
theorem forRangeAux_inv {β σ : Type} (body : Int → β → σ → HM σ) (step : Nat → β → σ → σ) (P : Nat → σ → Prop)
    (data : List β) (h : Heap)
    (hb : ∀ (k : Nat) (x : β) (s : σ), data[k]? = some x → P k s →
      body k x s h = (h, .ok (step k x s), []) ∧ P (k + 1) (step k x s)) :
    ∀ (xs pre : List β) (s : σ), data = pre ++ xs → P pre.length s →
      forRangeAux body (pre.length : Int) xs s h = (h, .ok (rangeFold step pre.length xs s), []) := by
  intro xs
  induction xs with
  | nil => intro pre s _ _; rfl
  | cons x xs ih =>
    intro pre s hd hp
    have hk : data[pre.length]? = some x := by rw [hd]; simp
    obtain ⟨h1, h2⟩ := hb pre.length x s hk hp
    have := ih (pre ++ [x]) (step pre.length x s) (by simp [hd]) (by simpa using h2)
    simp only [List.length_append, List.length_cons, List.length_nil, Nat.zero_add, Int.natCast_add, Int.cast_ofNat_Int] at this
    unfold forRangeAux
    rw [run_bind_ok h1, prep_nil]
    exact this

theorem forRangeM_inv {β σ : Type} (body : Int → β → σ → HM σ) (step : Nat → β → σ → σ) (P : Nat → σ → Prop)
    (data : List β) (h : Heap)
    (hb : ∀ (k : Nat) (x : β) (s : σ), data[k]? = some x → P k s →
      body k x s h = (h, .ok (step k x s), []) ∧ P (k + 1) (step k x s))
    (s : σ) (hs : P 0 s) : forRangeM data body s h = (h, .ok (rangeFold step 0 data s), []) :=
  forRangeAux_inv body step P data h hb data [] s rfl hs

/-- a range loop whose body changes the heap without events or panics, under an invariant `P index state heap` -/
theorem forRangeAux_heap {β σ : Type} (body : Int → β → σ → HM σ) (P : Nat → σ → Heap → Prop) (data : List β)
    (hb : ∀ (k : Nat) (x : β) (s : σ) (h : Heap), data[k]? = some x → P k s h →
      ∃ h' s', body k x s h = (h', .ok s', []) ∧ P (k + 1) s' h') :
    ∀ (xs pre : List β) (s : σ) (h : Heap), data = pre ++ xs → P pre.length s h →
      ∃ h' s', forRangeAux body (pre.length : Int) xs s h = (h', .ok s', []) ∧ P data.length s' h' := by
  intro xs
  induction xs with
  | nil => intro pre s h hd hp; exact ⟨h, s, rfl, by simpa [hd] using hp⟩
  | cons x xs ih =>
    intro pre s h hd hp
    have hk : data[pre.length]? = some x := by rw [hd]; simp
    obtain ⟨h1, s1, e1, p1⟩ := hb pre.length x s h hk hp
    have := ih (pre ++ [x]) s1 h1 (by simp [hd]) (by simpa using p1)
    simp only [List.length_append, List.length_cons, List.length_nil, Nat.zero_add, Int.natCast_add, Int.cast_ofNat_Int] at this
    obtain ⟨h2, s2, e2, p2⟩ := this
    refine ⟨h2, s2, ?_, p2⟩
    unfold forRangeAux
    rw [run_bind_ok e1, prep_nil]
    exact e2

theorem forRangeM_heap {β σ : Type} (body : Int → β → σ → HM σ) (P : Nat → σ → Heap → Prop) (data : List β)
    (hb : ∀ (k : Nat) (x : β) (s : σ) (h : Heap), data[k]? = some x → P k s h →
      ∃ h' s', body k x s h = (h', .ok s', []) ∧ P (k + 1) s' h')
    (s : σ) (h : Heap) (hs : P 0 s h) :
    ∃ h' s', forRangeM data body s h = (h', .ok s', []) ∧ P data.length s' h' :=
  forRangeAux_heap body P data hb data [] s h rfl hs

/-! ### `for` loops -/

theorem whileM_zero {σ : Type} (cond : σ → HM Bool) (body : σ → HM σ) (s : σ) :
    whileM 0 cond body s = HGo.panic .fuel := rfl

theorem whileM_succ {σ : Type} (n : Nat) (cond : σ → HM Bool) (body : σ → HM σ) (s : σ) :
    whileM (n + 1) cond body s = (cond s >>= fun b => if b then (body s >>= fun s' => whileM n cond body s') else pure s) := rfl

/-- a `for` loop as a pure iteration: `none` = out of fuel -/
def iter {σ : Type} (c : σ → Bool) (f : σ → σ) : Nat → σ → Option σ
  | 0, _ => none
  | n + 1, s => if c s then iter c f n (f s) else some s

/-- a loop whose condition and body neither touch the heap nor panic, under an invariant `P` of the state -/
theorem whileM_pure {σ : Type} (cond : σ → HM Bool) (body : σ → HM σ) (c : σ → Bool) (f : σ → σ) (P : σ → Prop)
    (h : Heap)
    (hc : ∀ s, P s → cond s h = (h, .ok (c s), []))
    (hb : ∀ s, P s → c s = true → body s h = (h, .ok (f s), []))
    (hP : ∀ s, P s → c s = true → P (f s)) :
    ∀ (fuel : Nat) (s : σ), P s →
      whileM fuel cond body s h = (match iter c f fuel s with
        | some s' => (h, .ok s', [])
        | none => (h, .error .fuel, [])) := by
  intro fuel
  induction fuel with
  | zero => intro s _; rfl
  | succ n ih =>
    intro s hs
    rw [whileM_succ, run_bind_ok (hc s hs), prep_nil]
    cases hcs : c s with
    | false => simp [iter, hcs, run_pure]
    | true =>
      simp only [if_true, iter, hcs]
      rw [run_bind_ok (hb s hs hcs), prep_nil]
      exact ih (f s) (hP s hs hcs)

/-- evaluate the generated code on a heap: monad, primitives, heap operations -/
macro "gem_run" : tactic => `(tactic|
  simp [run_okM_bind, run_bind, prep_mk, prep_nil, prep_prep, run_pure, run_liftR, run_panic, run_ite, run_newCell, run_load, run_load_none, okM_run, Heap.alloc, makeSlice_len, makeSlice_nonneg, copySlice_replicate, Go.sliceLen, olen, olist, oidx,
    toCell_some_map, toCell_none, toCell_replicate, toCell_ofCell, run_store', run_update', run_newCellOf', ocopy_some, ocopy_none, copySlice_replicate_map, take_length_map, Go.copySlice, map_ok, map_error, pure_eq_ok, throw_eq_error, get_append_self, set_append_self, cellOf, omake, -bind_pure_comp])

/-- `gem_run` with additional facts -/
macro "gem_run" "[" ts:Lean.Parser.Tactic.simpLemma,* "]" : tactic => `(tactic|
  simp [$ts,*, run_okM_bind, run_bind, prep_mk, prep_nil, prep_prep, run_pure, run_liftR, run_panic, run_ite, run_newCell, run_load, run_load_none, okM_run, Heap.alloc, makeSlice_len, makeSlice_nonneg, copySlice_replicate, Go.sliceLen, olen, olist, oidx,
    toCell_some_map, toCell_none, toCell_replicate, toCell_ofCell, run_store', run_update', run_newCellOf', ocopy_some, ocopy_none, copySlice_replicate_map, take_length_map, Go.copySlice, map_ok, map_error, pure_eq_ok, throw_eq_error, get_append_self, set_append_self, cellOf, omake, -bind_pure_comp])

/-- `gem_run` at hypotheses -/
macro "gem_run_at" "[" ts:Lean.Parser.Tactic.simpLemma,* "]" loc:Lean.Parser.Tactic.location : tactic => `(tactic|
  simp [$ts,*, run_okM_bind, run_bind, prep_mk, prep_nil, prep_prep, run_pure, run_liftR, run_panic, run_ite, run_newCell, run_load, run_load_none, okM_run, Heap.alloc, makeSlice_len, makeSlice_nonneg, copySlice_replicate, Go.sliceLen, olen, olist, oidx,
    toCell_some_map, toCell_none, toCell_replicate, toCell_ofCell, run_store', run_update', run_newCellOf', ocopy_some, ocopy_none, copySlice_replicate_map, take_length_map, Go.copySlice, map_ok, map_error, pure_eq_ok, throw_eq_error, get_append_self, set_append_self, cellOf, omake, -bind_pure_comp] $loc)

/-- split every `if`/`match`, then close each case -/
macro "gem_close" : tactic => `(tactic|
  ((repeat' split) <;> (first | rfl | (simp_all; done) | grind)))

end RosedVerif.GenCodeEq
