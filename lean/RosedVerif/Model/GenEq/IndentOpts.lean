/-
Regenerated-code equality theorems (see Model/GenCodeEq.lean for the overview): module `IndentOpts`.
-/
import RosedVerif.Model.GenEq.Core
import RosedVerif.Model.GenEq.Options
import RosedVerif.Model.GenEq.Commit
import RosedVerif.Model.GenEq.Apply
import RosedVerif.Model.GenEq.Paras
import RosedVerif.Model.GenEq.InstA
set_option linter.unusedVariables false
set_option linter.unusedSectionVars false
set_option linter.unusedSimpArgs false
namespace RosedVerif.GenCodeEq
open RosedVerif

variable {α : Type} [DecidableEq α] (cx : Ctx α)

theorem editorIndentOpts_regenerated (h : Gen.Code.editorIndentOpts_extracted = true)
    (hd : DefaultsOk cx) (hpos : ∀ a, 0 < cx.blen a) (ed : Editor α) (level : Int)
    (o : Options α) : Gen.Code.editorIndentOpts cx ed level o = ed.indentOpts cx level o := by
  first
    | exact absurd h (by decide)
    | (unfold Gen.Code.editorIndentOpts Editor.indentOpts
       simp only [optionsWithDefaults_regenerated cx (by decide), editorApplyOpts_regenerated cx (by decide),
         editorApplyParagraphsOpts_regenerated cx (by decide) hd hpos, edit_regenerated cx (by decide),
         editorWithOptions_regenerated cx (by decide), editorString_regenerated cx (by decide), pure_bind]
       go_norm
       -- both guards are decided by cases (either polarity, early return or nesting)
       by_cases hl : level < 1
       · have hl' : ¬ 1 ≤ level := by omega
         go_guards [hl, hl']
       · have hl' : 1 ≤ level := by omega
         go_guards [hl, hl']
         refine bind_congr (m := R) fun indent => ?_
         cases hp : (o.withDefaults cx).preservePara <;>
           simp only [hp, Bool.not_true, Bool.not_false, Bool.false_eq_true, if_true, if_false, ↓reduceIte, bind_pure,
             Go.edApplyParagraphsOpts, Editor.applyOpts, Go.edit, Editor.withOpts] <;>
           rfl)

theorem editorIndent_regenerated (h : Gen.Code.editorIndent_extracted = true)
    (hd : DefaultsOk cx) (hpos : ∀ a, 0 < cx.blen a) (ed : Editor α) (level : Int) :
    Gen.Code.editorIndent cx ed level = ed.indentOpts cx level ed.opts := by
  first
    | exact absurd h (by decide)
    | (unfold Gen.Code.editorIndent
       simp only [editorIndentOpts_regenerated cx (by decide) hd hpos, bind_pure])

theorem editorIndentOpts_cxA (h : Gen.Code.editorIndentOpts_extracted = true) (ed : Editor Int) (level : Int) (o : Options Int) :
    Gen.Code.editorIndentOpts cxA ed level o = ed.indentOpts cxA level o :=
  editorIndentOpts_regenerated cxA h defaultsOk_cxA cxA_WF.2 ed level o

end RosedVerif.GenCodeEq
