/-
Regenerated-code equality theorem for `gem.Split` (internal/gem/gem.go): module `GemSplit`.
The loop that asks `shouldBreakAfter` for every rune and collects the exclusive cluster ends, as translated by
harness/goheap.go on this run, equals `splitRunes` — the function theorem C01 is about.  Kept in a module of its
own so that C01 depends on this theorem only, not on the theorems about the cache cells of gem.String.
-/
import RosedVerif.Model.GenEq.GemCore
set_option linter.unusedVariables false
set_option linter.unusedSectionVars false
set_option linter.unusedSimpArgs false
namespace RosedVerif.GenCodeEq
open RosedVerif RosedVerif.H RosedVerif.HGo

/-- the loop of `gem.Split`, restated -/
def splitStep (r : List Int) (k : Nat) (x : Int) (done : Option (List Int)) : Option (List Int) :=
  if shouldBreakAfter x r k then some (done.getD [] ++ [(k : Int) + 1]) else done

theorem splitStep_fold (r : List Int) : ∀ (xs pre : List Int) (acc : List Int), r = pre ++ xs →
    rangeFold (splitStep r) pre.length xs (some acc) =
      some (acc ++ (splitAux clsPreds (pre.map classOf).reverse pre.length (xs.map classOf)).map Int.ofNat) := by
  intro xs
  induction xs with
  | nil => intro pre acc _; simp [rangeFold, splitAux]
  | cons x xs ih =>
    intro pre acc hr
    have h1 : (r.take pre.length) = pre := by rw [hr]; simp
    have h2 : (r.drop (pre.length + 1)) = xs := by rw [hr]; simp
    have ih' := ih (pre ++ [x]) (if shouldBreakAfter x r pre.length then acc ++ [(pre.length : Int) + 1] else acc) (by simp [hr])
    simp only [rangeFold, splitStep, List.map_cons, splitAux]
    have hb : shouldBreakAfter x r pre.length = brk clsPreds (pre.map classOf).reverse (classOf x) (xs.map classOf).head? := by
      unfold shouldBreakAfter
      simp [h1, h2, List.head?_map]
    rw [← hb]
    cases hs : shouldBreakAfter x r (pre.length : Int) with
    | true =>
      simp only [hs, if_true] at ih' ⊢
      simpa using ih'
    | false =>
      simp only [hs] at ih' ⊢
      simpa using ih'

theorem gemSplit_regenerated (hx : Gen.GemCode.gemSplit_extracted = true) (r : List Int) :
    Gen.GemCode.gemSplit r = (pure (some ((splitRunes r).map Int.ofNat)) : HM (Option (List Int))) := by
  first
    | exact absurd hx (by decide)
    | (funext h
       unfold Gen.GemCode.gemSplit
       have hloop := fun body hb => forRangeM_pure (σ := Option (List Int)) body (splitStep r) r hb (some []) h
       gem_run
       rw [hloop]
       · have := splitStep_fold r r [] [] rfl
         simp at this
         simp [this, splitRunes, split, splitG]
       · intro k x s h hk
         gem_run [idx_of_getElem? hk, splitStep]
         gem_close)

end RosedVerif.GenCodeEq
