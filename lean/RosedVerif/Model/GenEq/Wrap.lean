/-
Regenerated-code equality theorems (see Model/GenCodeEq.lean for the overview): module `Wrap`.
-/
import RosedVerif.Model.GenEq.Core
import RosedVerif.Model.GenEq.Block
import RosedVerif.Model.GenEq.Collapse
set_option linter.unusedVariables false
set_option linter.unusedSectionVars false
set_option linter.unusedSimpArgs false
namespace RosedVerif.GenCodeEq
open RosedVerif

variable {α : Type} [DecidableEq α] (cx : Ctx α)

/-- the loop of appendWordToWrappedLine over the model's primitives (state: curLine, lines, curWord) -/
def awCond (s : List α × Block α × List α) : R Bool := pure (decide ((gLen cx s.2.2 : Int) > 0))

def awBody (width : Int) (s : List α × Block α × List α) : R (List α × Block α × List α) :=
  let lineLen : Int := gLen cx s.1
  let added : Int := (gLen cx s.2.2 : Int) + (if lineLen ≠ 0 then 1 else 0)
  if lineLen + added = width then
    pure ([], s.2.1.append ((if lineLen ≠ 0 then s.1 ++ [cx.sp] else s.1) ++ s.2.2), [])
  else if lineLen + added > width then
    if lineLen = 0 then
      pure ([], s.2.1.append (s.1 ++ gSub cx s.2.2 0 (width - 1) ++ [cx.hy]), gSub cx s.2.2 (width - 1) (gLen cx s.2.2))
    else pure ([], s.2.1.append s.1, s.2.2)
  else pure ((if lineLen ≠ 0 then s.1 ++ [cx.sp] else s.1) ++ s.2.2, s.2.1, [])

theorem appendWord_eq_while (width : Int) (hw : ¬ width < 2) : ∀ (fuel : Nat) (curLine : List α) (b : Block α) (curWord : List α),
    (fun r => (r.2, ({ b with lines := r.1 } : Block α))) <$> appendWord cx width fuel b.lines curWord curLine =
      (fun s => (s.1, s.2.1)) <$> Go.whileM fuel (awCond cx) (awBody cx width) (curLine, b, curWord) := by
  intro fuel
  induction fuel with
  | zero => intro curLine b curWord; rfl
  | succ n ih =>
    intro curLine b curWord
    unfold Go.whileM appendWord
    simp only [awCond, awBody, hw, if_false, pure_bind]
    by_cases hlen : gLen cx curWord > 0
    · have h1 : ((gLen cx curWord : Int) > 0) := by omega
      simp only [hlen, h1, if_true, decide_true]
      simp only [beq_iff_eq, bne_iff_ne, ne_eq]
      repeat' split
      all_goals first
        | (simp only [pure_bind]; exact ih _ (b.append _) _)
        | (simp only [pure_bind]; exact ih _ b _)
    · have h1 : ¬ ((gLen cx curWord : Int) > 0) := by omega
      simp [hlen]

theorem appendWord_width_lt (width : Int) (hw : width < 2) (fuel : Nat) (l : List (List α)) (w c : List α) :
    appendWord cx width (fuel + 1) l w c = throw .explicit := by
  unfold appendWord; simp [hw]

/-- Go returns `curLine` and updates `*lines`; the hand model returns `(lines, curLine)` over the list of lines -/
theorem appendWordToWrappedLine_regenerated (h : Gen.Code.appendWordToWrappedLine_extracted = true)
    (b : Block α) (curWord curLine : List α) (width : Int) :
    Gen.Code.appendWordToWrappedLine cx b curWord curLine width =
      (fun r => (r.2, ({ b with lines := r.1 } : Block α))) <$>
        appendWord cx width (2 * curWord.length + 2) b.lines curWord curLine := by
  first
    | exact absurd h (by decide)
    | (unfold Gen.Code.appendWordToWrappedLine
       simp only [blockAppend_regenerated cx (by decide)]
       by_cases hw : width < 2
       · rw [show 2 * curWord.length + 2 = (2 * curWord.length + 1) + 1 from rfl, appendWord_width_lt cx width hw]
         simp [hw]; rfl
       · rw [appendWord_eq_while cx width hw]
         simp only [hw, if_false, map_eq_pure_bind, pure_bind]
         refine whileM_bind_congr rfl rfl ?_ ?_ ?_
         · intro s; rfl
         · intro s
           simp only [awBody, pure_bind, bind_assoc]
           go_norm
           go_close
         · intro s; rfl)

theorem clustersFrom_length (s : List α) : ∀ (e : List Nat) (prev : Nat), (clustersFrom s prev e).length = e.length := by
  intro e; induction e with
  | nil => intro _; rfl
  | cons x xs ih => intro prev; simp [clustersFrom, ih]

theorem gLen_eq_clusters (s : List α) : gLen cx s = (clusters cx s).length := by
  simp [gLen, clusters, clustersFrom_length]

theorem clustersFrom_getElem (s : List α) : ∀ (e : List Nat) (prev i : Nat) (hi : i < (clustersFrom s prev e).length),
    (clustersFrom s prev e)[i] = sliceRunes s (if i > 0 then e.getD (i - 1) 0 else prev) (e.getD i 0) := by
  intro e; induction e with
  | nil => intro prev i hi; simp [clustersFrom] at hi
  | cons x xs ih =>
    intro prev i hi
    cases i with
    | zero => simp [clustersFrom]
    | succ j =>
      simp only [clustersFrom, List.getElem_cons_succ]
      rw [ih]
      cases j with
      | zero => simp
      | succ k => simp

/-- `CharAt(i)` is the i-th cluster (any segmentation) -/
theorem gCharAt_clusters (s : List α) (i : Nat) (hi : i < (clusters cx s).length) :
    gCharAt cx s i = pure (clusters cx s)[i] := by
  have hl : (cx.ends s).length = (clusters cx s).length := (gLen_eq_clusters cx s)
  unfold gCharAt
  simp only
  rw [if_neg (by omega)]
  simp only [clusters, clustersFrom_getElem, clusterSpan, Int.toNat_natCast]

/-- the loop of Wrap over the model's primitives (state: curLine, lines, curWord, i) -/
def wCond (text : List α) (s : List α × Block α × List α × Int) : R Bool :=
  pure (decide (s.2.2.2 < (gLen cx text : Int)))

def wBody (text : List α) (width : Int) (s : List α × Block α × List α × Int) : R (List α × Block α × List α × Int) := do
  let ch ← gCharAt cx text s.2.2.2
  match ch with
  | [] => throw .index
  | c :: _ =>
    if c = cx.sp then
      appendWord cx width (2 * s.2.2.1.length + 2) s.2.1.lines s.2.2.1 s.1 >>= fun r =>
        pure (r.2, ({ s.2.1 with lines := r.1 } : Block α), [], s.2.2.2 + 1)
    else pure (s.1, s.2.1, s.2.2.1 ++ ch, s.2.2.2 + 1)

theorem wrapLoop_eq_while (text : List α) (width : Int) : ∀ (fuel i : Nat) (curLine : List α) (b : Block α) (curWord : List α),
    i ≤ (clusters cx text).length → (clusters cx text).length + 1 ≤ fuel + i →
    (fun r => (r.2.2, ({ b with lines := r.1 } : Block α), r.2.1)) <$>
        wrapLoop cx width ((clusters cx text).drop i) b.lines curWord curLine =
      (fun s => (s.1, s.2.1, s.2.2.1)) <$> Go.whileM fuel (wCond cx text) (wBody cx text width) (curLine, b, curWord, (i : Int)) := by
  intro fuel
  induction fuel with
  | zero => intro i curLine b curWord h1 h2; omega
  | succ n ih =>
    intro i curLine b curWord h1 h2
    unfold Go.whileM
    simp only [wCond, pure_bind, gLen_eq_clusters]
    by_cases hlt : i < (clusters cx text).length
    · have h3 : ((i : Int) < ((clusters cx text).length : Int)) := by omega
      simp only [h3, decide_true, if_true, wBody, gCharAt_clusters cx text i hlt, pure_bind]
      rw [List.drop_eq_getElem_cons hlt]
      unfold wrapLoop
      cases hc : (clusters cx text)[i] with
      | nil => rfl
      | cons c rest =>
        simp only []
        split
        · simp only [bind_assoc, pure_bind, map_bind]
          refine bind_congr (m := R) fun r => ?_
          exact ih (i + 1) r.2 ({ b with lines := r.1 }) [] (by omega) (by omega)
        · simp only [pure_bind]
          exact ih (i + 1) curLine b (curWord ++ c :: rest) (by omega) (by omega)
    · have h3 : ¬ ((i : Int) < ((clusters cx text).length : Int)) := by omega
      have h4 : (clusters cx text).drop i = [] := List.drop_eq_nil_of_le (by omega)
      simp [h3, h4, wrapLoop]

theorem wrapLoop_bind {γ : Type} (text : List α) (width : Int) (b : Block α) (curWord curLine : List α)
    (K : List (List α) × List α × List α → R γ) :
    wrapLoop cx width (clusters cx text) b.lines curWord curLine >>= K =
      Go.whileM ((clusters cx text).length + 1) (wCond cx text) (wBody cx text width) (curLine, b, curWord, 0) >>=
        fun s => K (s.2.1.lines, s.2.2.1, s.1) := by
  have key := wrapLoop_eq_while cx text width ((clusters cx text).length + 1) 0 curLine b curWord (by omega) (by omega)
  have e : wrapLoop cx width (clusters cx text) b.lines curWord curLine >>= K =
      ((fun r => (r.2.2, ({ b with lines := r.1 } : Block α), r.2.1)) <$>
        wrapLoop cx width ((clusters cx text).drop 0) b.lines curWord curLine) >>=
          fun (s : List α × Block α × List α) => K (s.2.1.lines, s.2.2, s.1) := by
    simp only [map_eq_pure_bind, bind_assoc, pure_bind, List.drop_zero]
  rw [e, key]
  simp only [map_eq_pure_bind, bind_assoc, pure_bind, Int.natCast_zero]

/-- Go's Wrap returns a Block (separator `lineSep`, no trailing mode); the hand model returns its lines -/
theorem wrap_regenerated (h : Gen.Code.wrap_extracted = true) (text : List α) (width : Int) (lineSep : List α) :
    Gen.Code.wrap cx text width lineSep =
      (fun ls => ({ lines := ls, sep := lineSep, trailing := false } : Block α)) <$> wrapLines cx text width lineSep := by
  first
    | exact absurd h (by decide)
    | (unfold Gen.Code.wrap wrapLines
       simp only [blockAppend_regenerated cx (by decide), collapseSpace_regenerated cx (by decide),
         appendWordToWrappedLine_regenerated cx (by decide)]
       go_norm
       simp only [ite_pure, pure_bind, map_bind]
       generalize (if width < 2 then 2 else width) = w
       refine bind_congr (m := R) fun t1 => ?_
       split
       · rfl
       · rw [wrapLoop_bind cx t1 w ({ lines := [], sep := lineSep, trailing := false })]
         simp only [map_bind]
         refine whileM_bind_congr_inv (fun s => s.2.1.sep = lineSep ∧ s.2.1.trailing = false) ?_ ?_ ?_ ?_ _ _ ⟨rfl, rfl⟩
         · intro s _; rfl
         · intro s _
           simp only [wBody, idx_zero]
           refine bind_congr (m := R) fun ch => ?_
           cases ch with
           | nil => rfl
           | cons c rest =>
             simp only [pure_bind]
             split <;> simp only [map_eq_pure_bind, bind_assoc, pure_bind]
         · intro s hs
           obtain ⟨cl, b, cw, i⟩ := s
           obtain ⟨bl, bs, bt⟩ := b
           obtain ⟨rfl, rfl⟩ := hs
           simp only [map_eq_pure_bind, bind_assoc, pure_bind, Block.append]
           split
           · simp only [bind_assoc, pure_bind]
             refine bind_congr (m := R) fun r => ?_
             go_close
           · go_close
         · intro s y hs hy
           obtain ⟨cl, b, cw, i⟩ := s
           simp only [wBody] at hy
           cases hch : gCharAt cx t1 i with
           | error e => rw [hch] at hy; cases hy
           | ok ch =>
             rw [hch] at hy
             cases ch with
             | nil => cases hy
             | cons c rest =>
               replace hy : (if c = cx.sp then
                   appendWord cx w (2 * cw.length + 2) b.lines cw cl >>= fun r =>
                     pure (r.2, ({ b with lines := r.1 } : Block α), ([] : List α), i + 1)
                   else pure (cl, b, cw ++ c :: rest, i + 1)) = pure y := hy
               split at hy
               · cases happ : appendWord cx w (2 * cw.length + 2) b.lines cw cl with
                 | error e => rw [happ] at hy; cases hy
                 | ok r => rw [happ] at hy; cases hy; exact hs
               · cases hy; exact hs)

end RosedVerif.GenCodeEq
