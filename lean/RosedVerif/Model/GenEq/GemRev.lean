/-
Regenerated-code equality theorems for package internal/gem (pointer level): module `GemRev` —
Reverse and LastIndexFunc (see GenEq/Gem.lean).  `String.Reverse` writes runes and cached ends IN PLACE in a
nested loop; layer H reverses the cluster list functionally.  The heap and the result are equal; the event
list of the generated code is the hand model's WITHOUT its last event: `H.reverse` records a final
`.fill (clone's cell)`, but the source never assigns `*reversed.gc` (it only writes elements of the cloned
slice, which leave no event — see the header of Heap/GoHeapPrims.lean).
-/
import RosedVerif.Model.GenEq.GemInv
set_option linter.unusedVariables false
set_option linter.unusedSectionVars false
set_option linter.unusedSimpArgs false
namespace RosedVerif.GenCodeEq
open RosedVerif RosedVerif.H RosedVerif.HGo


/-- a `for` loop whose body changes the heap without events or panics: invariant `P state heap`, measure `μ` -/
theorem whileM_heap {σ : Type} (cond : σ → HM Bool) (body : σ → HM σ) (c : σ → Bool) (P : σ → Heap → Prop) (μ : σ → Nat)
    (hc : ∀ s h, P s h → cond s h = (h, .ok (c s), []))
    (hb : ∀ s h, P s h → c s = true → ∃ s' h', body s h = (h', .ok s', []) ∧ P s' h' ∧ μ s' < μ s) :
    ∀ (fuel : Nat) (s : σ) (h : Heap), P s h → μ s < fuel →
      ∃ s' h', whileM fuel cond body s h = (h', .ok s', []) ∧ P s' h' ∧ c s' = false := by
  intro fuel
  induction fuel with
  | zero => intro s h _ hf; omega
  | succ n ih =>
    intro s h hp hf
    rw [whileM_succ, run_bind_ok (hc s h hp), prep_nil]
    cases hcs : c s with
    | false => exact ⟨s, h, by simp [run_pure], hp, hcs⟩
    | true =>
      obtain ⟨s1, h1, e1, p1, m1⟩ := hb s h hp hcs
      obtain ⟨s2, h2, e2, p2, c2⟩ := ih s1 h1 p1 (by omega)
      refine ⟨s2, h2, ?_, p2, c2⟩
      simp only [if_true]
      rw [run_bind_ok e1, prep_nil]
      exact e2


/-- the inner loop of `Reverse`, restated: rune `rc + j` of the result := rune `j` of the cluster -/
def blitStep (cl : List Int) (rc : Int) (s : GStr × Int) : GStr × Int :=
  (⟨s.1.runes.set (rc + s.2).toNat (cl.getD s.2.toNat 0), s.1.cell⟩, s.2 + 1)

theorem set_middle {β : Type} (a b c : List β) (x y : β) : (a ++ x :: c).set a.length y = a ++ y :: c := by
  simp [List.set_append_right]

theorem blit_iter (cl : List Int) (rc : Nat) (cell : Option Nat) :
    ∀ (k j : Nat) (r : List Int) (fuel : Nat), j + k = cl.length → rc + cl.length ≤ r.length → k + 1 ≤ fuel →
      iter (fun s : GStr × Int => decide (s.2 < (cl.length : Int))) (blitStep cl rc) fuel (⟨r, cell⟩, (j : Int)) =
        some (⟨r.take (rc + j) ++ cl.drop j ++ r.drop (rc + cl.length), cell⟩, (cl.length : Int)) := by
  intro k
  induction k with
  | zero =>
    intro j r fuel hjk hr hf
    obtain ⟨m, rfl⟩ : ∃ m, fuel = m + 1 := ⟨fuel - 1, by omega⟩
    have : j = cl.length := by omega
    subst this
    simp [iter]
  | succ k ih =>
    intro j r fuel hjk hr hf
    obtain ⟨m, rfl⟩ : ∃ m, fuel = m + 1 := ⟨fuel - 1, by omega⟩
    have hlt : (j : Int) < cl.length := by omega
    have hj : j < cl.length := by omega
    have h1 : ((rc : Int) + (j : Int)).toNat = rc + j := by omega
    have hget : cl.getD j 0 = cl[j] := by simp [List.getD_eq_getElem?_getD, List.getElem?_eq_getElem hj]
    simp only [iter, hlt, decide_true, if_true, blitStep, Int.toNat_natCast, h1, hget]
    have := ih (j + 1) (r.set (rc + j) cl[j]) m (by omega) (by simpa using hr) (by omega)
    simp only [Int.natCast_add, Int.cast_ofNat_Int] at this
    rw [this]
    congr 2
    have hrj : rc + j < r.length := by omega
    rw [← Nat.add_assoc, take_succ_set _ _ _ hrj, List.drop_set_of_lt (by omega), List.drop_eq_getElem_cons hj]
    simp


/-- one step of the fold in `H.reverse`: append the running end, advance the running length -/
def revStep (acc : List Nat × Nat) (x : List Int) : List Nat × Nat := (acc.1 ++ [acc.2 + x.length], acc.2 + x.length)

/-- (ends, rune count) after the first `k` clusters of `L` -/
def revF (L : List (List Int)) (k : Nat) : List Nat × Nat := (L.take k).foldl revStep ([], 0)

theorem revStep_foldl_snd : ∀ (L : List (List Int)) (acc : List Nat × Nat),
    (L.foldl revStep acc).2 = acc.2 + L.flatten.length := by
  intro L
  induction L with
  | nil => intro acc; simp
  | cons x xs ih => intro acc; simp [List.foldl_cons, ih, revStep]; omega

theorem revStep_foldl_len : ∀ (L : List (List Int)) (acc : List Nat × Nat),
    (L.foldl revStep acc).1.length = acc.1.length + L.length := by
  intro L
  induction L with
  | nil => intro acc; simp
  | cons x xs ih => intro acc; simp [List.foldl_cons, ih, revStep]; omega

theorem revF_snd (L : List (List Int)) (k : Nat) : (revF L k).2 = ((L.take k).flatten).length := by
  simp [revF, revStep_foldl_snd]

theorem revF_len (L : List (List Int)) (k : Nat) (hk : k ≤ L.length) : (revF L k).1.length = k := by
  simp [revF, revStep_foldl_len]; omega

theorem revF_succ (L : List (List Int)) (k : Nat) (hk : k < L.length) : revF L (k + 1) = revStep (revF L k) L[k] := by
  have h1 : L.take (k + 1) = L.take k ++ [L[k]] := by
    rw [List.take_add_one, List.getElem?_eq_getElem hk]; rfl
  unfold revF
  rw [h1, List.foldl_append]; rfl

theorem take_flatten_len_le (L : List (List Int)) (k : Nat) : ((L.take k).flatten).length ≤ L.flatten.length := by
  have h1 : L.flatten = (L.take k).flatten ++ (L.drop k).flatten := by
    rw [← List.flatten_append, List.take_append_drop]
  rw [h1, List.length_append]; omega

theorem flatten_reverse_len (L : List (List Int)) : L.reverse.flatten.length = L.flatten.length := by
  induction L with
  | nil => rfl
  | cons x xs ih => simp [ih]; omega
/-- state of the outer loop of `Reverse` after `k` clusters (`L` = the clusters in reverse order, `n` = the clone's cell,
`m` = number of clusters): the clone, `runeCur`, `i` -/
def revS (rs : List Int) (L : List (List Int)) (n m k : Nat) : GStr × Int × Int :=
  (⟨(L.take k).flatten ++ rs.drop (revF L k).2, some n⟩, ((revF L k).2 : Int), (m : Int) - 1 - k)

/-- heap of the outer loop of `Reverse` after `k` clusters: the clone's cell holds `k` new ends, then the old ones -/
def revH (cells : List (Option (List Nat))) (L : List (List Int)) (e : List Nat) (k : Nat) : Heap :=
  ⟨cells ++ [some ((revF L k).1 ++ e.drop k)]⟩

theorem rev_outer (rs : List Int) (L : List (List Int)) (e : List Nat) (cells : List (Option (List Nat))) (n m : Nat)
    (cond : GStr × Int × Int → HM Bool) (body : GStr × Int × Int → HM (GStr × Int × Int))
    (hc : ∀ k, k ≤ m → cond (revS rs L n m k) (revH cells L e k) =
      (revH cells L e k, .ok (decide ((m : Int) - 1 - k ≥ 0)), []))
    (hb : ∀ k, k < m → body (revS rs L n m k) (revH cells L e k) = (revH cells L e (k + 1), .ok (revS rs L n m (k + 1)), []))
    (fuel : Nat) (hf : m + 1 ≤ fuel) (s0 : GStr × Int × Int) (h0 : Heap) (hs0 : s0 = revS rs L n m 0) (hh0 : h0 = revH cells L e 0) :
    whileM fuel cond body s0 h0 = (revH cells L e m, .ok (revS rs L n m m), []) := by
  subst hs0 hh0
  obtain ⟨s', h', e1, ⟨k, hk, rfl, rfl⟩, hcf⟩ := whileM_heap cond body (fun s => decide (s.2.2 ≥ 0))
    (fun s h => ∃ k, k ≤ m ∧ s = revS rs L n m k ∧ h = revH cells L e k) (fun s => (s.2.2 + 1).toNat)
    (by
      rintro s h ⟨k, hk, rfl, rfl⟩
      rw [hc k hk]; rfl)
    (by
      rintro s h ⟨k, hk, rfl, rfl⟩ hcs
      have hlt : k < m := by
        simp [revS] at hcs; omega
      refine ⟨_, _, hb k hlt, ⟨k + 1, by omega, rfl, rfl⟩, ?_⟩
      simp [revS]; omega)
    fuel (revS rs L n m 0) (revH cells L e 0) ⟨0, by omega, rfl, rfl⟩ (by simp [revS]; omega)
  have : k = m := by
    simp [revS] at hcf; omega
  subst this
  exact e1

theorem rev_runes_step (A R CL : List Int) (hR : CL.length ≤ R.length) :
    (A ++ R).take (A.length + 0) ++ CL.drop 0 ++ (A ++ R).drop (A.length + CL.length) = (A ++ CL) ++ R.drop CL.length := by
  simp [List.take_append, List.drop_append]

theorem rev_ends_step (E T : List Nat) (x y : Nat) : (E ++ x :: T).set E.length y = (E ++ [y]) ++ T := by
  simp [List.set_append_right]
theorem blit_iter0 (cl : List Int) (rc : Nat) (cell : Option Nat) (r : List Int) (fuel : Nat)
    (hr : rc + cl.length ≤ r.length) (hf : cl.length + 1 ≤ fuel) :
    iter (fun s : GStr × Int => decide (s.2 < (cl.length : Int))) (blitStep cl rc) fuel (⟨r, cell⟩, 0) =
      some (⟨r.take rc ++ cl ++ r.drop (rc + cl.length), cell⟩, (cl.length : Int)) := by
  have := blit_iter cl rc cell cl.length 0 r fuel (by omega) hr hf
  simpa using this

theorem toCell_set_add (X : List Nat) (k a b : Nat) :
    toCell (some ((X.map Int.ofNat).set k ((a : Int) + (b : Int)))) = .ok (some (X.set k (a + b))) := by
  have := toCell_some_map (X.set k (a + b))
  rw [List.map_set] at this
  rw [← this]; congr 4

theorem gemReverse_filled (hx : Gen.GemCode.gemReverse_extracted = true) (rs : List Int) (c : Nat) (e : List Nat) (h : Heap)
    (hg : h.get c = some e) (hp : Part e rs.length) :
    Gen.GemCode.gemReverse ⟨rs, some c⟩ h =
      ((H.reverse ⟨rs, some c⟩ h).1, .ok (H.reverse ⟨rs, some c⟩ h).2.1, (H.reverse ⟨rs, some c⟩ h).2.2.dropLast) := by
  first
    | exact absurd hx (by decide)
    | (have hc : c < h.cells.length := get_lt hg
       have hcl : (clustersFrom rs 0 e).length = e.length := clustersFrom_length' rs 0 e
       have hfl : (clustersFrom rs 0 e).flatten = rs := clustersFrom_flatten hp
       unfold Gen.GemCode.gemReverse
       simp only [gemInitialized_regenerated (by decide), gemSplit_regenerated (by decide), gemClone_regenerated (by decide)]
       have hlf := len_filled rs c ⟨h.cells ++ [some e]⟩ e (by rw [get_append_lt _ _ _ hc]; exact hg)
       have hlen := gemLen_regenerated (by decide) ⟨rs, some c⟩ ⟨h.cells ++ [some e]⟩ (by intro c' hc'; cases hc'; simp; omega)
       gem_run [hg, H.initialized, H.clone, get_append_lt _ _ _ hc, hlen, hlf]
       rw [rev_outer rs (clustersFrom rs 0 e).reverse e h.cells h.cells.length e.length _ _ ?hc ?hb (rs.length + 1)
         (by have := hp.length_le; omega) _ _ (by simp [revS, revF]) (by simp [revH, revF])]
       case hc =>
         intro k hk
         simp only [revS, revH]
         gem_run
       case hb =>
         intro k hk
         have hkL : k < (clustersFrom rs 0 e).reverse.length := by simp [hcl]; exact hk
         have hgk : (revH h.cells (clustersFrom rs 0 e).reverse e k).get c = some e := by
           simp only [revH]; rw [get_append_lt _ _ _ hc]; exact hg
         have hvk : GemOK (revH h.cells (clustersFrom rs 0 e).reverse e k) ⟨rs, some c⟩ :=
           ⟨fun c' hc' => by cases hc'; simp [revH]; omega, fun c' e' hc' he' => by
             cases hc'; rw [hgk] at he'; cases he'; exact hp⟩
         have hlenk := gemLen_regenerated (by decide) ⟨rs, some c⟩ _ hvk.1
         rw [okM_run, len_filled rs c _ e hgk] at hlenk
         have hii : e.length - 1 - k < e.length := by omega
         have hchk := gemCharAt_regenerated (by decide) ⟨rs, some c⟩ ((e.length - 1 - k : Nat) : Int) _ hvk
         rw [charAt_filled rs c _ e hgk _ hii] at hchk
         have hcle : (clustersFrom rs 0 e).reverse[k] = sliceRunes rs (cOff e (e.length - 1 - k)) (cOff e (e.length - 1 - k + 1)) := by
           rw [List.getElem_reverse]
           have := gem_clustersFrom_getElem rs e 0 (e.length - 1 - k) (by rw [hcl]; exact hii)
           have hco : (if e.length - 1 - k = 0 then 0 else e.getD (e.length - 1 - k - 1) 0) = cOff e (e.length - 1 - k) := by simp [cOff]
           rw [hco, ← cOff_succ] at this
           simp only [hcl]
           exact this
         rw [← hcle] at hchk
         have hidx : ((e.length : Int) - 1 - (k : Int)) = ((e.length - 1 - k : Nat) : Int) := by omega
         simp only [revH] at hchk hlenk
         -- names for the pieces of the state
         have hsucc := revF_succ (clustersFrom rs 0 e).reverse k hkL
         have hlenE := revF_len (clustersFrom rs 0 e).reverse k (Nat.le_of_lt hkL)
         have hsndA := revF_snd (clustersFrom rs 0 e).reverse k
         have hsndA1 := revF_snd (clustersFrom rs 0 e).reverse (k + 1)
         have htake1 : ((clustersFrom rs 0 e).reverse.take (k + 1)) = (clustersFrom rs 0 e).reverse.take k ++ [(clustersFrom rs 0 e).reverse[k]] := by
           rw [List.take_add_one, List.getElem?_eq_getElem hkL]; rfl
         have hbound : (revF (clustersFrom rs 0 e).reverse (k + 1)).2 ≤ rs.length := by
           rw [hsndA1]
           have := take_flatten_len_le (clustersFrom rs 0 e).reverse (k + 1)
           rw [flatten_reverse_len, hfl] at this; exact this
         simp only [revS, revH, hidx, htake1, List.flatten_append, List.flatten_cons, List.flatten_nil, List.append_nil]
         generalize hCL : (clustersFrom rs 0 e).reverse[k] = CL at *
         generalize hA : ((clustersFrom rs 0 e).reverse.take k).flatten = A at *
         generalize hF : revF (clustersFrom rs 0 e).reverse k = F at *
         generalize hF1 : revF (clustersFrom rs 0 e).reverse (k + 1) = F1 at *
         obtain ⟨E, rc⟩ := F
         simp only at hlenE hsndA
         subst hsucc
         simp only [revStep] at hsndA1 hbound hlenk hchk ⊢
         subst hsndA
         have hRlen : (A ++ List.drop A.length rs).length = rs.length := by simp; omega
         have hP : ∀ s : GStr × Int, (0 ≤ s.2 ∧ s.1.runes.length = rs.length) → decide (s.2 < (CL.length : Int)) = true →
             (0 ≤ (blitStep CL A.length s).2 ∧ (blitStep CL A.length s).1.runes.length = rs.length) := by
           intro s hs _; simp [blitStep, hs.2]; omega
         have hinner := fun H cond body hc hb s hs => whileM_pure cond body
           (fun s : GStr × Int => decide (s.2 < (CL.length : Int))) (blitStep CL A.length)
           (fun s => 0 ≤ s.2 ∧ s.1.runes.length = rs.length) H hc hb hP (rs.length + 1) s hs
         have hit := blit_iter0 CL A.length (some h.cells.length) (A ++ List.drop A.length rs) (rs.length + 1)
           (by rw [hRlen]; exact hbound) (by omega)
         have hrunes := rev_runes_step A (List.drop A.length rs) CL (by simp; omega)
         simp only [Nat.add_zero, List.drop_zero] at hrunes
         rw [hrunes] at hit
         have hkk : ((e.length : Int) - 1 - ((e.length - 1 - k : Nat) : Int)) = (k : Int) := by omega
         have hset := fun v => sliceSet_ok ((E ++ List.drop k e).map Int.ofNat) (k : Int) v (by omega) (by simp [hlenE]; omega)
         have hends : (E ++ List.drop k e).set k (A.length + CL.length) = E ++ [A.length + CL.length] ++ List.drop (k + 1) e := by
           have hd : List.drop k e = e[k] :: List.drop (k + 1) e := List.drop_eq_getElem_cons hk
           have := rev_ends_step E (List.drop (k + 1) e) e[k] (A.length + CL.length)
           rw [hlenE] at this
           rw [hd]; exact this
         gem_run [hchk, hlenk]
         rw [hinner]
         · simp only [hit]
           gem_run [hlenk, hkk, osliceSet, hset, toCell_set_add, hends]
           have hnorm : List.map Int.ofNat E ++ List.drop k (List.map Int.ofNat e) = (E ++ List.drop k e).map Int.ofNat := by
             simp [List.map_drop]
           rw [hnorm, hset, map_ok]
           simp only [Int.toNat_natCast, toCell_set_add, hends, prep_mk, Heap.set, List.append_nil]
           have hi2 : ((e.length - 1 - k : Nat) : Int) - 1 = (e.length : Int) - 1 - ((k : Int) + 1) := by omega
           simp [hi2, List.set_append_right]
         · intro s hs
           gem_run
         · intro s hs hcs
           have hlt' : s.2 < (CL.length : Int) := by simpa using hcs
           have h1 := idx_getD CL s.2 hs.1 hlt'
           have h2 := fun v => sliceSet_ok s.1.runes ((A.length : Int) + s.2) v (by omega) (by rw [hs.2]; omega)
           gem_run [h1, h2, blitStep]
         · exact ⟨by omega, hRlen⟩
       have hen : H.ensure ⟨rs, some c⟩ h = (h, e, []) := by simp [H.ensure, cellOf, hg]
       have hm : (clustersFrom rs 0 e).reverse.length = e.length := by simp [hcl]
       simp only [H.reverse, H.initialized, hen, H.clone, Heap.alloc, cellOf, Option.getD_some, hg, revS, revH, revF,
         List.take_of_length_le (Nat.le_of_eq hm), List.drop_length, List.append_nil]
       have hsnd : (List.foldl revStep ([], 0) (clustersFrom rs 0 e).reverse).2 = rs.length := by
         rw [revStep_foldl_snd, flatten_reverse_len, hfl]; simp
       have hstep : (fun (acc : List Nat × Nat) (x : List Int) => (acc.fst ++ [acc.snd + x.length], acc.snd + x.length)) = revStep := rfl
       rw [hsnd, hstep]
       simp [prep_mk, set_append_self])

/-- `Reverse`: heap and result of `H.reverse`; the events are `H.reverse`'s without its last one (the `.fill` of the clone's
cell, which has no counterpart in the source: `Reverse` only writes ELEMENTS of the cloned slice) -/
theorem gemReverse_regenerated (hx : Gen.GemCode.gemReverse_extracted = true) (s : GStr) (h : Heap) (hv : GemOK h s) :
    Gen.GemCode.gemReverse s h =
      ((H.reverse s h).1, .ok (H.reverse s h).2.1, (H.reverse s h).2.2.dropLast) := by
  first
    | exact absurd hx (by decide)
    | (rcases s with ⟨rs, _ | c⟩
       · have hf := gemReverse_filled hx rs h.cells.length (splitRunes rs) ⟨h.cells ++ [some (splitRunes rs)]⟩
           (get_append_self _ _) (part_splitRunes rs)
         unfold Gen.GemCode.gemReverse at hf ⊢
         simp only [gemInitialized_regenerated (by decide), gemSplit_regenerated (by decide)] at hf ⊢
         gem_run_at [H.initialized] at hf ⊢
         rw [hf]
         simp [prep, H.reverse, H.initialized, H.ensure, H.clone, Heap.alloc, cellOf, get_append_self, set_append_self, Heap.get_set,
           get_append_two, set_append_two]
       · have hc := hv.1 c rfl
         cases hg : h.get c with
         | some e => exact gemReverse_filled hx rs c e h hg (hv.2 c e rfl hg)
         | none =>
           have hf := gemReverse_filled hx rs c (splitRunes rs) (h.set c (some (splitRunes rs))) (get_set_self _ _ _ hc)
             (part_splitRunes rs)
           unfold Gen.GemCode.gemReverse at hf ⊢
           simp only [gemInitialized_regenerated (by decide), gemSplit_regenerated (by decide)] at hf ⊢
           gem_run_at [H.initialized, hg, get_set_self _ _ _ hc] at hf ⊢
           rw [hf]
           simp [prep, H.reverse, H.initialized, H.ensure, H.clone, Heap.alloc, cellOf, hg, get_set_self _ _ _ hc, Heap.get_set, hc])
/-- invariant of the fold in `H.reverse`: the ends so far are increasing, positive, and the last one is the running length -/
def RevOK (acc : List Nat × Nat) : Prop :=
  acc.1.Pairwise (· < ·) ∧ (∀ j ∈ acc.1, 0 < j ∧ j ≤ acc.2) ∧ (acc.1.getLast? = some acc.2 ∨ (acc.1 = [] ∧ acc.2 = 0))

theorem revOK_step (acc : List Nat × Nat) (x : List Int) (hx : x ≠ []) (ok : RevOK acc) : RevOK (revStep acc x) := by
  obtain ⟨h1, h2, h3⟩ := ok
  have hpos : 0 < x.length := List.length_pos_iff.mpr hx
  refine ⟨?_, ?_, ?_⟩
  · simp only [revStep, List.pairwise_append, List.pairwise_cons, List.not_mem_nil, false_imp_iff, implies_true,
      List.Pairwise.nil, and_true, List.mem_singleton, forall_eq]
    exact ⟨h1, trivial, fun j hj => by have := (h2 j hj).2; omega⟩
  · intro j hj
    simp only [revStep, List.mem_append, List.mem_singleton] at hj ⊢
    rcases hj with hj | rfl
    · have := h2 j hj; omega
    · omega
  · left; simp [revStep]

theorem revOK_foldl : ∀ (L : List (List Int)) (acc : List Nat × Nat), (∀ x ∈ L, x ≠ []) → RevOK acc →
    RevOK (L.foldl revStep acc) := by
  intro L
  induction L with
  | nil => intro acc _ ok; exact ok
  | cons x xs ih =>
    intro acc hne ok
    exact ih _ (fun y hy => hne y (List.mem_cons_of_mem _ hy)) (revOK_step acc x (hne x List.mem_cons_self) ok)

theorem revF_part (L : List (List Int)) (hne : ∀ x ∈ L, x ≠ []) :
    Part (L.foldl revStep ([], 0)).1 L.flatten.length := by
  have ok := revOK_foldl L ([], 0) hne ⟨List.Pairwise.nil, by simp, .inr ⟨rfl, rfl⟩⟩
  have hs := revStep_foldl_snd L ([], 0)
  simp only [Nat.zero_add] at hs
  obtain ⟨h1, h2, h3⟩ := ok
  rw [hs] at h2 h3
  refine ⟨h1, h2, fun hn => ?_⟩
  rcases h3 with h3 | ⟨_, h0⟩
  · exact h3
  · exact absurd h0 hn

theorem reverse_events (s : GStr) (h : Heap) : ∃ w x, (H.reverse s h).2.2 = w ++ [x] := by
  unfold H.reverse; exact ⟨_, _, rfl⟩

/-- the result of `Reverse` satisfies the hypothesis again: its cell holds the ends of the reversed clusters -/
theorem reverse_gemOK (s : GStr) (h : Heap) (hv : GemOK h s) : GemOK (H.reverse s h).1 (H.reverse s h).2.1 := by
  have key : ∀ (rs : List Int) (c : Nat) (e : List Nat) (h : Heap), h.get c = some e → Part e rs.length →
      GemOK (H.reverse ⟨rs, some c⟩ h).1 (H.reverse ⟨rs, some c⟩ h).2.1 := by
    intro rs c e h hg hp
    have hen : H.ensure ⟨rs, some c⟩ h = (h, e, []) := by simp [H.ensure, cellOf, hg]
    have hne := clustersFrom_nonempty hp
    have hpart := revF_part (clustersFrom rs 0 e).reverse (fun x hx => hne x (List.mem_reverse.mp hx))
    have hstep : (fun (acc : List Nat × Nat) (x : List Int) => (acc.fst ++ [acc.snd + x.length], acc.snd + x.length)) = revStep := rfl
    simp only [H.reverse, H.initialized, hen, H.clone, Heap.alloc, cellOf, Option.getD_some, hg, hstep]
    refine ⟨fun c' hc' => ?_, fun c' e' hc' he' => ?_⟩
    · cases hc'; simp [Heap.set]
    · cases hc'
      rw [set_append_self, get_append_self] at he'
      cases he'
      exact hpart
  rcases s with ⟨rs, _ | c⟩
  · have := key rs h.cells.length (splitRunes rs) ⟨h.cells ++ [some (splitRunes rs)]⟩ (get_append_self _ _) (part_splitRunes rs)
    have e1 : H.reverse ⟨rs, none⟩ h = ((H.reverse ⟨rs, some h.cells.length⟩ ⟨h.cells ++ [some (splitRunes rs)]⟩).1,
        (H.reverse ⟨rs, some h.cells.length⟩ ⟨h.cells ++ [some (splitRunes rs)]⟩).2.1,
        [.alloc h.cells.length, .fill h.cells.length] ++ (H.reverse ⟨rs, some h.cells.length⟩ ⟨h.cells ++ [some (splitRunes rs)]⟩).2.2) := by
      simp [H.reverse, H.initialized, H.ensure, H.clone, Heap.alloc, cellOf, get_append_self, set_append_self]
    rw [e1]; exact this
  · have hc := hv.1 c rfl
    cases hg : h.get c with
    | some e => exact key rs c e h hg (hv.2 c e rfl hg)
    | none =>
      have := key rs c (splitRunes rs) (h.set c (some (splitRunes rs))) (get_set_self _ _ _ hc) (part_splitRunes rs)
      have e1 : H.reverse ⟨rs, some c⟩ h = ((H.reverse ⟨rs, some c⟩ (h.set c (some (splitRunes rs)))).1,
          (H.reverse ⟨rs, some c⟩ (h.set c (some (splitRunes rs)))).2.1,
          [.fill c] ++ (H.reverse ⟨rs, some c⟩ (h.set c (some (splitRunes rs)))).2.2) := by
        simp [H.reverse, H.initialized, H.ensure, H.clone, Heap.alloc, cellOf, hg, get_set_self _ _ _ hc]
      rw [e1]; exact this

theorem eraseIdx_mid {β : Type} (w r : List β) (x : β) : (w ++ x :: r).eraseIdx w.length = w ++ r := by
  induction w with
  | nil => rfl
  | cons a t ih => simp [List.eraseIdx_cons_succ, ih]

/-- `LastIndexFunc`: heap and result of `H.lastIndexFunc`; the events are the hand model's without the one at the position of
`H.reverse`'s final `.fill` (see `gemReverse_regenerated`) -/
theorem gemLastIndexFunc_regenerated (hx : Gen.GemCode.gemLastIndexFunc_extracted = true) (s : GStr) (f : List Int → Bool)
    (h : Heap) (hv : GemOK h s) :
    Gen.GemCode.gemLastIndexFunc s f h =
      ((H.lastIndexFunc f s h).1, .ok (H.lastIndexFunc f s h).2.1,
        (H.lastIndexFunc f s h).2.2.eraseIdx ((H.reverse s h).2.2.length - 1)) := by
  first
    | exact absurd hx (by decide)
    | (have hrev := gemReverse_regenerated (by decide) s h hv
       have hok := reverse_gemOK s h hv
       have hidx := gemIndexFunc_regenerated (by decide) (H.reverse s h).2.1 f (H.reverse s h).1 hok
       obtain ⟨T1, -⟩ := reverse_spec s h
       have T2 := tr_indexFunc f (H.reverse s h).2.1 (H.reverse s h).1
       have hal : CellAlloc (H.indexFunc f (H.reverse s h).2.1 (H.reverse s h).1).1 s := by
         intro c hc
         have := hv.1 c hc
         have := T1.mono
         have := T2.mono
         omega
       have hlen := gemLen_regenerated (by decide) s _ hal
       obtain ⟨w, x, hw⟩ := reverse_events s h
       unfold Gen.GemCode.gemLastIndexFunc
       rw [run_bind_ok hrev]
       unfold H.lastIndexFunc
       gem_run [hidx, hlen, hw]
       split <;> simp [prep, eraseIdx_mid])

theorem gemReverse_inv (hx : Gen.GemCode.gemReverse_extracted = true) {h : Heap} {pool : List GStr} {v : GStr} (hi : Inv h pool)
    (hv : v ∈ zero :: pool) : Gen.GemCode.gemReverse v h =
      ((H.reverse v h).1, .ok (H.reverse v h).2.1, (H.reverse v h).2.2.dropLast) :=
  gemReverse_regenerated hx v h (gemOK_of_cellOK (hi.ok' hv))

theorem gemLastIndexFunc_inv (hx : Gen.GemCode.gemLastIndexFunc_extracted = true) {h : Heap} {pool : List GStr} {v : GStr}
    (f : List Int → Bool) (hi : Inv h pool) (hv : v ∈ zero :: pool) : Gen.GemCode.gemLastIndexFunc v f h =
      ((H.lastIndexFunc f v h).1, .ok (H.lastIndexFunc f v h).2.1,
        (H.lastIndexFunc f v h).2.2.eraseIdx ((H.reverse v h).2.2.length - 1)) :=
  gemLastIndexFunc_regenerated hx v f h (gemOK_of_cellOK (hi.ok' hv))

end RosedVerif.GenCodeEq
