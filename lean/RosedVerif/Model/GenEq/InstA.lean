/-
Regenerated-code equality theorems (see Model/GenCodeEq.lean for the overview): module `InstA` — facts about the real instance `cxA` used by the `_cxA` corollaries.
-/
import RosedVerif.Model.GenEq.Core
import RosedVerif.Model.InstAFacts
set_option linter.unusedVariables false
set_option linter.unusedSectionVars false
set_option linter.unusedSimpArgs false
namespace RosedVerif.GenCodeEq
open RosedVerif

variable {α : Type} [DecidableEq α] (cx : Ctx α)

theorem defaultsOk_cxA : DefaultsOk cxA := by
  refine ⟨?_, ?_, ?_⟩ <;> decide

/-- the translator maps `" "`, `"-"`, `"\n"`, `"A"`, `"+|-"` to these `Ctx` fields -/
theorem literal_map_cxA :
    cxA.sp = 0x20 ∧ cxA.hy = 0x2D ∧ cxA.nl = 0x0A ∧ cxA.phA = 0x41 ∧ cxA.dCharset = [0x2B, 0x7C, 0x2D] ∧
    cxA.dLineSep = [0x0A] ∧ cxA.dParaSep = [0x0A, 0x0A] ∧ cxA.dIndent = [0x09] := by decide

end RosedVerif.GenCodeEq
