/-
Regenerated-code equality theorems (see Model/GenCodeEq.lean for the overview): module `AlignOpts`.
-/
import RosedVerif.Model.GenEq.Core
import RosedVerif.Model.GenEq.Options
import RosedVerif.Model.GenEq.Block
import RosedVerif.Model.GenEq.ApplyLines
import RosedVerif.Model.GenEq.Align
import RosedVerif.Model.GenEq.Apply
import RosedVerif.Model.GenEq.Paras
import RosedVerif.Model.GenEq.InstA
set_option linter.unusedVariables false
set_option linter.unusedSectionVars false
set_option linter.unusedSimpArgs false
namespace RosedVerif.GenCodeEq
open RosedVerif

variable {α : Type} [DecidableEq α] (cx : Ctx α)

theorem editorAlignOpts_regenerated (h : Gen.Code.editorAlignOpts_extracted = true)
    (hd : DefaultsOk cx) (hpos : ∀ a, 0 < cx.blen a) (ed : Editor α) (align width : Int)
    (o : Options α) : Gen.Code.editorAlignOpts cx ed align width o = ed.alignOpts cx align width o := by
  first
    | exact absurd h (by decide)
    | (unfold Gen.Code.editorAlignOpts Editor.alignOpts
       simp only [optionsWithDefaults_regenerated cx (by decide),
         alignLineLeft_regenerated cx (by decide), alignLineRight_regenerated cx (by decide),
         alignLineCenter_regenerated cx (by decide), countLeadingWhitespace_regenerated cx (by decide),
         countTrailingWhitespace_regenerated cx (by decide),
         blockJoin_regenerated cx (by decide), blockNew_regenerated cx (by decide), blockLen_regenerated cx (by decide),
         blockLine_regenerated cx (by decide), blockSet_regenerated cx (by decide),
         blockApply_regenerated cx (by decide),
         editorApplyGParagraphsOpts_regenerated cx (by decide) hd hpos, editorApplyOpts_regenerated cx (by decide)]
       go_norm
       generalize o.withDefaults cx = od
       simp only [beq_iff_eq, bne_iff_ne, ne_eq]
       refine ite_congr_left (by grind) (fun hN => ?_)
       · have hA : align = Gen.alignLeft ∨ align = Gen.alignRight ∨ align = Gen.alignCenter := by grind
         have hLR : Gen.alignLeft ≠ Gen.alignRight := by decide
         have hLC : Gen.alignLeft ≠ Gen.alignCenter := by decide
         have hRC : Gen.alignRight ≠ Gen.alignCenter := by decide
         cases hpp : od.preservePara
         all_goals
           (simp only [hpp, Bool.false_eq_true, Bool.true_eq_false, if_true, if_false, ↓reduceIte]
            first
              | -- line mode
                (simp only [Editor.applyOpts]
                 congr 1
                 funext i l
                 go_close)
              | -- paragraph mode: one case per alignment
                (congr 1
                 funext i para pre suf
                 rcases hA with hA | hA | hA
                 all_goals
                   (simp only [hA, hLR, hLR.symm, hLC, hLC.symm, hRC, hRC.symm, if_true, if_false, alignParaLeft, alignParaRight,
                      alignParaCenter, Block.mapLinesM, mapM_pure_R, flatten_map_singleton_fun, bind_assoc, pure_bind]
                    generalize Block.new _ od.lineSep = bl
                    split
                    · simp_all
                    · simp only [List.isEmpty_iff, bind_assoc, pure_bind]
                      rw [if_neg (show ¬ bl.lines = [] by assumption)]
                      try simp only [bind_assoc, bind_dup, ite_pure, pure_bind]
                      go_deep))))

theorem editorAlign_regenerated (h : Gen.Code.editorAlign_extracted = true)
    (hd : DefaultsOk cx) (hpos : ∀ a, 0 < cx.blen a) (ed : Editor α) (align width : Int) :
    Gen.Code.editorAlign cx ed align width = ed.alignOpts cx align width ed.opts := by
  first
    | exact absurd h (by decide)
    | (unfold Gen.Code.editorAlign
       simp only [editorAlignOpts_regenerated cx (by decide) hd hpos, bind_pure])

theorem editorAlignOpts_cxA (h : Gen.Code.editorAlignOpts_extracted = true) (ed : Editor Int) (align width : Int)
    (o : Options Int) : Gen.Code.editorAlignOpts cxA ed align width o = ed.alignOpts cxA align width o :=
  editorAlignOpts_regenerated cxA h defaultsOk_cxA cxA_WF.2 ed align width o

theorem editorAlign_cxA (h : Gen.Code.editorAlign_extracted = true) (ed : Editor Int) (align width : Int) :
    Gen.Code.editorAlign cxA ed align width = ed.alignOpts cxA align width ed.opts :=
  editorAlign_regenerated cxA h defaultsOk_cxA cxA_WF.2 ed align width

end RosedVerif.GenCodeEq
