/-
Regenerated-code equality theorems (see Model/GenCodeEq.lean for the overview): module `Combine`.
-/
import RosedVerif.Model.GenEq.Core
import RosedVerif.Model.GenEq.Block
set_option linter.unusedVariables false
set_option linter.unusedSectionVars false
set_option linter.unusedSimpArgs false
namespace RosedVerif.GenCodeEq
open RosedVerif

variable {α : Type} [DecidableEq α] (cx : Ctx α)

theorem block_line_nat (b : Block α) (k : Nat) (hk : k < b.lines.length) :
    b.line (k : Int) = pure (b.lines.getD k []) := by
  unfold Block.line
  rw [if_neg (by omega)]
  simp

/-- first loop (state: leftColMaxWidth, i) -/
def cc1Cond (left : Block α) (s : Int × Int) : R Bool := pure (decide (s.2 < (left.lines.length : Int)))

def cc1Body (left : Block α) (s : Int × Int) : R (Int × Int) :=
  left.line s.2 >>= fun l => pure ((if (gLen cx l : Int) > s.1 then (gLen cx l : Int) else s.1), s.2 + 1)

theorem cc1_while (left : Block α) : ∀ (fuel k : Nat) (m : Int), k ≤ left.lines.length → left.lines.length + 1 ≤ fuel + k →
    Go.whileM fuel (cc1Cond left) (cc1Body cx left) (m, (k : Int)) =
      pure ((left.lines.drop k).foldl (fun m l => if (gLen cx l : Int) > m then (gLen cx l : Int) else m) m,
        (left.lines.length : Int)) := by
  intro fuel
  induction fuel with
  | zero => intro k m h1 h2; omega
  | succ n ih =>
    intro k m h1 h2
    unfold Go.whileM
    simp only [cc1Cond, pure_bind]
    by_cases hlt : k < left.lines.length
    · have h3 : ((k : Int) < (left.lines.length : Int)) := by omega
      simp only [h3, decide_true, if_true, cc1Body, block_line_nat left k hlt, pure_bind]
      rw [show ((k : Int) + 1) = ((k + 1 : Nat) : Int) by omega, ih (k + 1) _ (by omega) (by omega)]
      rw [List.drop_eq_getElem_cons hlt, List.foldl_cons]
      simp [List.getD_eq_getElem?_getD, hlt]
    · have h3 : ¬ ((k : Int) < (left.lines.length : Int)) := by omega
      have h4 : k = left.lines.length := by omega
      simp [h4]

/-- one combined row, as in the hand model -/
def ccRow (left right : List (List α)) (total : Int) (i : Nat) : R (List α) := do
  let l := left.getD i []
  let lc : Int := if i < left.length then gLen cx l else 0
  let r := right.getD i []
  let spacer ← repeatStr [cx.sp] (total - lc)
  pure (l ++ spacer ++ r)

/-- second loop (state: combined, i) -/
def cc2Cond (n : Int) (s : Block α × Int) : R Bool := pure (decide (s.2 < n))

def cc2Body (left right : Block α) (total : Int) (s : Block α × Int) : R (Block α × Int) := do
  let lp ← (if s.2 < (left.lines.length : Int) then
      left.line s.2 >>= fun l => left.line s.2 >>= fun l' => pure (l, (gLen cx l' : Int))
    else pure (([] : List α), (0 : Int)))
  let r ← (if s.2 < (right.lines.length : Int) then right.line s.2 else pure [])
  let spacer ← repeatStr [cx.sp] (total - lp.2)
  pure (s.1.append (lp.1 ++ spacer ++ r), s.2 + 1)

theorem cc2Body_nat (left right : Block α) (total : Int) (b : Block α) (k : Nat) :
    cc2Body cx left right total (b, (k : Int)) =
      ccRow cx left.lines right.lines total k >>= fun row => pure (b.append row, ((k + 1 : Nat) : Int)) := by
  unfold cc2Body ccRow
  by_cases hl : k < left.lines.length <;> by_cases hr : k < right.lines.length
  all_goals
    have hl' : ((k : Int) < (left.lines.length : Int)) ↔ k < left.lines.length := by omega
    have hr' : ((k : Int) < (right.lines.length : Int)) ↔ k < right.lines.length := by omega
    simp [hl, hr, hl', hr', block_line_nat]

theorem cc2_while (left right : Block α) (total : Int) (n : Nat) : ∀ (fuel k : Nat) (b : Block α), k ≤ n → n + 1 ≤ fuel + k →
    Go.whileM fuel (cc2Cond (n : Int)) (cc2Body cx left right total) (b, (k : Int)) =
      (List.range' k (n - k)).mapM (ccRow cx left.lines right.lines total) >>= fun rows =>
        pure (({ b with lines := b.lines ++ rows } : Block α), (n : Int)) := by
  intro fuel
  induction fuel with
  | zero => intro k b h1 h2; omega
  | succ f ih =>
    intro k b h1 h2
    unfold Go.whileM
    simp only [cc2Cond, pure_bind]
    by_cases hlt : k < n
    · have h3 : ((k : Int) < (n : Int)) := by omega
      simp only [h3, decide_true, if_true, cc2Body_nat, bind_assoc, pure_bind]
      rw [show n - k = (n - (k + 1)) + 1 by omega, List.range'_succ, List.mapM_cons]
      simp only [bind_assoc, pure_bind]
      refine bind_congr (m := R) fun row => ?_
      rw [ih (k + 1) _ (by omega) (by omega)]
      refine bind_congr (m := R) fun rows => ?_
      simp [Block.append]
    · have h3 : ¬ ((k : Int) < (n : Int)) := by omega
      have h4 : k = n := by omega
      subst h4
      simp [h3]

theorem combineColumnBlocks_regenerated (h : Gen.Code.combineColumnBlocks_extracted = true)
    (left right : Block α) (m : Int) :
    Gen.Code.combineColumnBlocks cx left right m =
      (fun ls => ({ lines := ls, sep := [], trailing := false } : Block α)) <$>
        combineColumns cx left.lines right.lines m := by
  first
    | exact absurd h (by decide)
    | (unfold Gen.Code.combineColumnBlocks combineColumns
       simp only [blockLen_regenerated cx (by decide), blockLine_regenerated cx (by decide),
         blockCharCount_regenerated cx (by decide), blockAppend_regenerated cx (by decide)]
       go_norm
       by_cases hE : left.lines = [] ∧ right.lines = []
       · simp [hE]
       · have hmax : (if (left.lines.length : Int) < (right.lines.length : Int) then (right.lines.length : Int)
             else (left.lines.length : Int)) = ((max left.lines.length right.lines.length : Nat) : Int) := by
           split <;> omega
         have ht3 : (if left.lines = [] then (pure (decide (right.lines = [])) : R Bool) else pure false) = pure false := by
           split
           · rename_i hl; simp only [hl, true_and] at hE; simp [hE]
           · rfl
         simp only [ht3, hE, if_false, ite_pure, pure_bind, hmax, Int.toNat_natCast, Bool.false_eq_true]
         refine Eq.trans (whileM_bind_congr (cond' := cc1Cond left) (body' := cc1Body cx left) rfl rfl ?_ ?_ (fun _ => rfl)) ?_
         · intro s; rfl
         · intro s; simp only [cc1Body, ite_pure, pure_bind]
         · have k1 := cc1_while cx left (left.lines.length + 1) 0 0 (by omega) (by omega)
           simp only [Int.natCast_zero, List.drop_zero] at k1
           rw [k1]
           simp only [pure_bind]
           refine Eq.trans (whileM_bind_congr (cond' := cc2Cond ((max left.lines.length right.lines.length : Nat) : Int))
             (body' := cc2Body cx left right
               (left.lines.foldl (fun m l => if (gLen cx l : Int) > m then (gLen cx l : Int) else m) 0 + m))
             rfl rfl ?_ ?_ (fun _ => rfl)) ?_
           · intro s; rfl
           · intro s; simp only [cc2Body, bind_assoc, pure_bind, bind_pure]
           · have k2 := cc2_while cx left right
               (left.lines.foldl (fun m l => if (gLen cx l : Int) > m then (gLen cx l : Int) else m) 0 + m)
               (max left.lines.length right.lines.length) (max left.lines.length right.lines.length + 1) 0
               ({ lines := [], sep := [], trailing := false }) (by omega) (by omega)
             simp only [Int.natCast_zero] at k2
             rw [k2]
             simp only [bind_assoc, pure_bind, List.nil_append, Nat.sub_zero, List.range_eq_range', map_eq_pure_bind]
             rfl)

end RosedVerif.GenCodeEq
