/-
Regenerated-code equality theorems (see Model/GenCodeEq.lean for the overview): module `InsertTable`.
-/
import RosedVerif.Model.GenEq.Core
import RosedVerif.Model.GenEq.Options
import RosedVerif.Model.GenEq.Block
import RosedVerif.Model.GenEq.Table
import RosedVerif.Model.GenEq.Edit
import RosedVerif.Model.InstAFacts
set_option linter.unusedVariables false
set_option linter.unusedSectionVars false
set_option linter.unusedSimpArgs false
namespace RosedVerif.GenCodeEq
open RosedVerif

variable {α : Type} [DecidableEq α] (cx : Ctx α)

/-- `len(table) > 0` counts bytes: needs every atom to have a positive byte length -/
theorem editorInsertTableOpts_regenerated (h : Gen.Code.editorInsertTableOpts_extracted = true)
    (hwf : cx.WF) (ed : Editor α) (pos : Int) (data : List (List (List α))) (width : Int) (o : Options α) :
    Gen.Code.editorInsertTableOpts cx ed pos data width o = ed.insertTableOpts cx pos data width o := by
  first
    | exact absurd h (by decide)
    | (unfold Gen.Code.editorInsertTableOpts Editor.insertTableOpts
       simp only [optionsWithDefaults_regenerated cx (by decide), makeTable_regenerated cx (by decide),
         blockJoin_regenerated cx (by decide), editorInsert_regenerated cx (by decide) hwf, pure_bind]
       go_norm
       have hmk : Go.makeSlice ((data.length : Nat) : Int) ([] : List (List α)) = pure (List.replicate data.length []) := by
         unfold Go.makeSlice; rw [if_neg (by omega)]; simp
       simp only [hmk, pure_bind]
       rw [forRangeM_fold_inv (fun (c : List (List (List α))) => c.length = data.length) data
         (fun (c : List (List (List α))) (k : Nat) => c.set k ((fun (k : Nat) (_ : List (List α)) => data.getD k []) k (c.getD k [])))
         _ (fun k s _ hs => by simpa using hs) ?hb _ (by simp)]
       case hb =>
         intro k x c hk hc
         have hget : data.getD k [] = data[k] := by simp [List.getD_eq_getElem?_getD, hk]
         have hss : ∀ v, Go.sliceSet c (k : Int) v = pure (c.set k v) := by
           intro v; unfold Go.sliceSet; rw [if_pos (by omega)]; simp
         simp only [idx_nat data k hk, pure_bind, hss, hget]
       have hrep := foldl_set_range_eq_map (fun (k : Nat) (_ : List (List α)) => data.getD k []) [] (List.replicate data.length [])
       simp only [List.length_replicate] at hrep
       rw [hrep, map_range_getD]
       simp only [pure_bind, bind_pure]
       have hbl : ∀ t : List α, ((byteLen cx t : Nat) : Int) > 0 ↔ ¬ t = [] := by
         intro t
         constructor
         · intro h1 h2; subst h2; simp at h1
         · intro h1
           have := length_le_byteLen hwf.2 t
           have : 0 < t.length := List.length_pos_iff.mpr h1
           omega
       simp only [hbl, List.isEmpty_iff]
       split <;> split <;> simp_all)

theorem editorInsertTable_regenerated (h : Gen.Code.editorInsertTable_extracted = true)
    (hwf : cx.WF) (ed : Editor α) (pos : Int) (data : List (List (List α))) (width : Int) :
    Gen.Code.editorInsertTable cx ed pos data width = ed.insertTableOpts cx pos data width ed.opts := by
  first
    | exact absurd h (by decide)
    | (unfold Gen.Code.editorInsertTable
       simp only [editorInsertTableOpts_regenerated cx (by decide) hwf, bind_pure])

theorem editorInsertTableOpts_cxA (h : Gen.Code.editorInsertTableOpts_extracted = true) (ed : Editor Int) (pos : Int)
    (data : List (List (List Int))) (width : Int) (o : Options Int) :
    Gen.Code.editorInsertTableOpts cxA ed pos data width o = ed.insertTableOpts cxA pos data width o :=
  editorInsertTableOpts_regenerated cxA h cxA_WF ed pos data width o

end RosedVerif.GenCodeEq
