/-
Regenerated-code equality theorems (see Model/GenCodeEq.lean for the overview): module `Paras`.
-/
import RosedVerif.Model.GenEq.Core
import RosedVerif.Model.GenEq.Options
import RosedVerif.Model.GenEq.InstA
set_option linter.unusedVariables false
set_option linter.unusedSectionVars false
set_option linter.unusedSimpArgs false
namespace RosedVerif.GenCodeEq
open RosedVerif

variable {α : Type} [DecidableEq α] (cx : Ctx α)

theorem idx_append_cons {β : Type} (p : List β) (x : β) (r : List β) :
    Go.idx (p ++ x :: r) (p.length : Int) = pure x := by
  unfold Go.idx
  rw [dif_pos (by simp)]
  simp

theorem idx_append_cons_succ {β : Type} (p : List β) (x y : β) (r : List β) :
    Go.idx (p ++ x :: y :: r) ((p.length : Int) + 1) = pure y := by
  have := idx_append_cons (p ++ [x]) y r
  simpa using this

theorem sliceSet_append_cons_succ {β : Type} (p : List β) (x y v : β) (r : List β) :
    Go.sliceSet (p ++ x :: y :: r) ((p.length : Int) + 1) v = pure (p ++ x :: v :: r) := by
  unfold Go.sliceSet
  have h : ((p.length : Int) + 1).toNat = p.length + 1 := by omega
  rw [if_pos (by simp; omega), h]
  simp [List.set_append]

theorem byteSlice_drop_prefix (hpos : ∀ a, 0 < cx.blen a) (p s : List α) (h : p.isPrefixOf s = true) :
    byteSlice cx s (byteLen cx p) (byteLen cx s) = pure (s.drop p.length) := by
  obtain ⟨t, rfl⟩ := List.isPrefixOf_iff_prefix.mp h
  have := byteSlice_take_drop (cx := cx) hpos (p ++ t) p.length (p ++ t).length (by simp) (Nat.le_refl _)
  rw [List.take_length] at this
  simp at this
  simp only [List.drop_left']
  exact this

/-- the paragraph loop over the model's primitives (state: paragraphs, transformed) -/
def gpBody (op : Int → List α → List α → List α → R (List (List α))) (lineSep prevSuffix nextPrefix : List α) (ambig : Bool)
    (i : Int) (_x : List α) (s : List (List α) × List (List α)) : R (List (List α) × List (List α)) :=
  Go.idx s.1 i >>= fun para =>
  (if i ≠ (s.1.length : Int) - 1 then
      (if ambig = true then
        Go.idx s.1 (i + 1) >>= fun nxt =>
          if lineSep.isPrefixOf nxt = true then
            Go.idx s.1 (i + 1) >>= fun nxt2 =>
            byteSlice cx nxt2 (byteLen cx lineSep) (byteLen cx nxt2) >>= fun nxt' =>
              Go.sliceSet s.1 (i + 1) nxt' >>= fun ps => pure (prevSuffix, ps, para ++ lineSep)
          else pure (prevSuffix, s.1, para)
      else pure (prevSuffix, s.1, para))
    else pure (([] : List α), s.1, para)) >>= fun r =>
  op i r.2.2 (if i ≠ 0 then nextPrefix else []) r.1 >>= fun out => pure (r.2.1, s.2 ++ out)

theorem paraLoop_eq_range (hpos : ∀ a, 0 < cx.blen a) (op : Int → List α → List α → List α → R (List (List α)))
    (lineSep prevSuffix nextPrefix : List α) (ambig : Bool) :
    ∀ (rest : List (List α)) (cur : List α) (done acc xs : List (List α)), xs.length = rest.length + 1 →
      (acc ++ ·) <$> paraLoop (fun i => op (i : Int)) lineSep prevSuffix nextPrefix ambig done.length cur rest =
        (·.2) <$> Go.forRangeAux (gpBody cx op lineSep prevSuffix nextPrefix ambig) (done.length : Int) xs
          (done ++ cur :: rest, acc) := by
  intro rest
  induction rest with
  | nil =>
    intro cur done acc xs hx
    match xs, hx with
    | [x], _ =>
      simp only [Go.forRangeAux, gpBody, idx_append_cons, pure_bind, paraLoop]
      have h1 : ¬ ((done.length : Int) ≠ (((done ++ [cur]).length : Nat) : Int) - 1) := by simp
      simp only [h1, if_false, pure_bind, bind_assoc, map_bind]
      have h2 : ((done.length != 0) = true) ↔ ((done.length : Int) ≠ 0) := by simp
      simp only [h2]
      refine bind_congr (m := R) fun out => ?_
      rfl
  | cons nxt rest' ih =>
    intro cur done acc xs hx
    match xs, hx with
    | x :: xs', hx' =>
      simp only [Go.forRangeAux, gpBody, idx_append_cons, idx_append_cons_succ, sliceSet_append_cons_succ, pure_bind, paraLoop]
      have h1 : ((done.length : Int) ≠ (((done ++ cur :: nxt :: rest').length : Nat) : Int) - 1) := by
        simp; omega
      have h2 : ((done.length != 0) = true) ↔ ((done.length : Int) ≠ 0) := by simp
      simp only [h2]
      rw [if_pos h1]
      have key : ∀ (nx : List α) (out : List (List α)),
          (paraLoop (fun i => op (i : Int)) lineSep prevSuffix nextPrefix ambig (done.length + 1) nx rest'
            >>= fun more => (fun x => acc ++ x) <$> (pure (out ++ more) : R _)) =
          (·.2) <$> Go.forRangeAux (gpBody cx op lineSep prevSuffix nextPrefix ambig) ((done.length : Int) + 1) xs'
            (done ++ cur :: nx :: rest', acc ++ out) := by
        intro nx out
        have := ih nx (done ++ [cur]) (acc ++ out) xs' (by simpa using hx')
        simp only [List.length_append, List.length_cons, List.length_nil, Nat.zero_add, Int.natCast_add, Int.cast_ofNat_Int,
          List.append_assoc, List.cons_append, List.nil_append] at this
        rw [← this]
        simp only [map_eq_pure_bind, bind_assoc, pure_bind, List.append_assoc]
      cases ambig
      · simp only [Bool.false_and, Bool.false_eq_true, if_false, pure_bind, bind_assoc, map_bind]
        refine bind_congr (m := R) fun out => ?_
        exact key nxt out
      · by_cases hp : lineSep.isPrefixOf nxt = true
        · simp only [Bool.true_and, hp, if_true, byteSlice_drop_prefix cx hpos lineSep nxt hp, pure_bind, bind_assoc, map_bind]
          refine bind_congr (m := R) fun out => ?_
          exact key _ out
        · simp only [Bool.true_and, hp, if_false, if_true, pure_bind, bind_assoc, map_bind, Bool.false_eq_true]
          refine bind_congr (m := R) fun out => ?_
          exact key nxt out

/-- Needs: the built-in default separators are non-empty (`parts[0]`, `paragraphs` never empty) and every
atom has a positive UTF-8 length (the byte slice `paragraphs[idx+1][len(lineSep):]` is the rune-level `drop`). -/
theorem editorApplyGParagraphsOpts_regenerated (h : Gen.Code.editorApplyGParagraphsOpts_extracted = true)
    (hd : DefaultsOk cx) (hpos : ∀ a, 0 < cx.blen a) (ed : Editor α)
    (op : Int → List α → List α → List α → R (List (List α))) (o : Options α) :
    Gen.Code.editorApplyGParagraphsOpts cx ed op o = ed.applyParasM cx (fun i => op (i : Int)) o := by
  first
    | exact absurd h (by decide)
    | (unfold Gen.Code.editorApplyGParagraphsOpts Editor.applyParasM
       simp only [optionsWithDefaults_regenerated cx (by decide)]
       go_norm
       have hls : (o.withDefaults cx).lineSep ≠ [] := by
         rw [(withDefaults_fields cx o).1]; split
         · exact hd.1
         · simp_all
       have hps : (o.withDefaults cx).paraSep ≠ [] := by
         rw [(withDefaults_fields cx o).2.2.1]; split
         · exact hd.2.2
         · simp_all
       generalize o.withDefaults cx = od at *
       have hparts := splitOn_ne_nil' od.paraSep od.lineSep hls
       have hparas := splitOn_ne_nil' ed.text od.paraSep hps
       have h0 : Go.idx (splitOn od.paraSep od.lineSep) 0 = pure ((splitOn od.paraSep od.lineSep).headD []) := by
         cases hsp : splitOn od.paraSep od.lineSep with
         | nil => exact absurd hsp hparts
         | cons a t => simp [Go.idx]
       have hl : Go.idx (splitOn od.paraSep od.lineSep) (((splitOn od.paraSep od.lineSep).length : Int) - 1) =
           pure ((splitOn od.paraSep od.lineSep).getLastD []) := by
         rw [idx_last _ hparts, List.getLastD_eq_getLast?, List.getLast?_eq_some_getLast hparts]
         rfl
       simp only [h0, hl, pure_bind, bind_pure, ite_pure, Go.forRangeM]
       cases hsp : splitOn ed.text od.paraSep with
       | nil => exact absurd hsp hparas
       | cons p ps =>
         simp only []
         have key := paraLoop_eq_range cx hpos op od.lineSep ((splitOn od.paraSep od.lineSep).headD [])
           (if (splitOn od.paraSep od.lineSep).length > 1 then (splitOn od.paraSep od.lineSep).getLastD [] else [])
           (od.paraSep ++ od.lineSep == od.lineSep ++ od.paraSep) ps p [] [] (p :: ps) rfl
         simp only [List.length_nil, Int.natCast_zero, List.nil_append] at key
         have e1 : ∀ (m : R (List (List α))) (k : List (List α) → R (Editor α)),
             m >>= k = ((fun x => x) <$> m) >>= k := by
           intro m k; simp
         rw [e1 (paraLoop _ _ _ _ _ _ _ _), key]
         simp only [map_eq_pure_bind, bind_assoc, pure_bind]
         congr 1
         refine congrArg (fun b => Go.forRangeAux b (0 : Int) (p :: ps) (p :: ps, ([] : List (List α)))) ?_
         funext i x s
         have hc : (((splitOn od.paraSep od.lineSep).length : Int) > 1) ↔ ((splitOn od.paraSep od.lineSep).length > 1) := by omega
         have hfin : ∀ (a : List (List α)) (t11 : List (List α)),
             (pure (a, if t11 ≠ [] then s.2 ++ t11 else s.2) : R _) = pure (a, s.2 ++ t11) := by
           intro a t11; split <;> simp_all
         simp only [gpBody, hc, beq_iff_eq, hfin]
         refine bind_congr (m := R) fun para => ?_
         by_cases h1 : i ≠ (s.1.length : Int) - 1
         · simp only [h1, if_true, ne_eq, not_false_eq_true, bind_assoc, pure_bind]
           by_cases h2 : od.paraSep ++ od.lineSep = od.lineSep ++ od.paraSep
           · simp only [h2, if_true, bind_assoc, pure_bind, decide_true]
             refine bind_congr (m := R) fun nxt => ?_
             by_cases h3 : od.lineSep.isPrefixOf nxt = true
             · simp only [h3, if_true, bind_assoc, pure_bind]
             · simp only [h3, if_false, bind_assoc, pure_bind, Bool.false_eq_true]
           · simp only [h2, if_false, bind_assoc, pure_bind, decide_false, Bool.false_eq_true]
         · simp only [h1, if_false, bind_assoc, pure_bind])

theorem editorApplyParagraphsOpts_regenerated (h : Gen.Code.editorApplyParagraphsOpts_extracted = true)
    (hd : DefaultsOk cx) (hpos : ∀ a, 0 < cx.blen a) (ed : Editor α)
    (op : Int → List α → List α → List α → R (List (List α))) (o : Options α) :
    Gen.Code.editorApplyParagraphsOpts cx ed op o = ed.applyParasM cx (fun i => op (i : Int)) o := by
  first
    | exact absurd h (by decide)
    | (unfold Gen.Code.editorApplyParagraphsOpts
       simp only [editorApplyGParagraphsOpts_regenerated cx (by decide) hd hpos, bind_pure])

theorem editorApplyParagraphs_regenerated (h : Gen.Code.editorApplyParagraphs_extracted = true)
    (hd : DefaultsOk cx) (hpos : ∀ a, 0 < cx.blen a) (ed : Editor α)
    (op : Int → List α → List α → List α → R (List (List α))) :
    Gen.Code.editorApplyParagraphs cx ed op = ed.applyParasM cx (fun i => op (i : Int)) ed.opts := by
  first
    | exact absurd h (by decide)
    | (unfold Gen.Code.editorApplyParagraphs
       simp only [editorApplyParagraphsOpts_regenerated cx (by decide) hd hpos, bind_pure])

theorem editorApplyGParagraphsOpts_cxA (h : Gen.Code.editorApplyGParagraphsOpts_extracted = true) (ed : Editor Int)
    (op : Int → List Int → List Int → List Int → R (List (List Int))) (o : Options Int) :
    Gen.Code.editorApplyGParagraphsOpts cxA ed op o = ed.applyParasM cxA (fun i => op (i : Int)) o :=
  editorApplyGParagraphsOpts_regenerated cxA h defaultsOk_cxA cxA_WF.2 ed op o

end RosedVerif.GenCodeEq
