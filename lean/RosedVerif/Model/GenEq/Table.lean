/-
Regenerated-code equality theorems (see Model/GenCodeEq.lean for the overview): module `Table`.
-/
import RosedVerif.Model.GenEq.Core
import RosedVerif.Model.GenEq.Block
import RosedVerif.Model.GenEq.Align
set_option linter.unusedVariables false
set_option linter.unusedSectionVars false
set_option linter.unusedSimpArgs false
namespace RosedVerif.GenCodeEq
open RosedVerif

variable {α : Type} [DecidableEq α] (cx : Ctx α)

theorem parseTableCharSet_regenerated (h : Gen.Code.parseTableCharSet_extracted = true) (charSet : List α) :
    Gen.Code.parseTableCharSet cx charSet = pure (parseTableCharSet cx charSet) := by
  first
    | exact absurd h (by decide)
    | (unfold Gen.Code.parseTableCharSet parseTableCharSet
       go_norm
       go_close)

/-- `for j := j0; j < w; j++ { bar = bar.Add(h) }` -/
theorem repeat_loop (h : List α) (w : Int) : ∀ (fuel n : Nat) (bar : List α) (j : Int),
    n = (w - j).toNat → n + 1 ≤ fuel →
    Go.whileM fuel (fun (s : List α × Int) => (pure (decide (s.2 < w)) : R Bool))
        (fun (s : List α × Int) => (pure (s.1 ++ h, s.2 + 1) : R _)) (bar, j) =
      pure (bar ++ (List.replicate n h).flatten, j + n) := by
  intro fuel
  induction fuel with
  | zero => intro n bar j _ hf; omega
  | succ f ih =>
    intro n bar j hn hf
    unfold Go.whileM
    simp only [pure_bind]
    cases n with
    | zero =>
      have : ¬ (j < w) := by omega
      simp [this]
    | succ m =>
      have : j < w := by omega
      simp only [this, decide_true, if_true]
      have e : j + ((m + 1 : Nat) : Int) = (j + 1) + (m : Int) := by omega
      rw [ih m _ _ (by omega) (by omega), e]
      simp [List.replicate_succ, List.append_assoc]

theorem gRepeat_eq (h : List α) (w : Int) : gRepeat h w = (List.replicate w.toNat h).flatten := rfl

theorem foldl_const_append (h : List α) : ∀ (l : List Nat) (s : List α),
    l.foldl (fun bar _ => bar ++ h) s = s ++ (List.replicate l.length h).flatten := by
  intro l
  induction l with
  | nil => intro s; simp
  | cons x xs ih => intro s; simp [ih, List.replicate_succ, List.append_assoc]

theorem foldl_block_lines (f : List (List α) → Nat → List (List α)) : ∀ (l : List Nat) (blk : Block α),
    l.foldl (fun b k => ({ b with lines := f b.lines k } : Block α)) blk = { blk with lines := l.foldl f blk.lines } := by
  intro l
  induction l with
  | nil => intro blk; rfl
  | cons x xs ih => intro blk; simp only [List.foldl_cons]; rw [ih]

/-- one cell of a table row, as in the hand model's `tableRow` -/
def btCell (row : List (List α)) (colWidths : List Int) (isHeader border : Bool) (chars : TableChars α) (col : Nat) : List α :=
  let cellData := row.getD col []
  let w := colWidths.getD col 0
  if isHeader then
    let hc := cellData.map cx.upper
    if border then alignCenter cx hc w ++ chars.vert else alignLeft cx hc w
  else
    if border then [cx.sp] ++ alignLeft cx cellData (w - 1) ++ chars.vert
    else alignLeft cx cellData w

theorem tableRow_eq (row : List (List α)) (colWidths : List Int) (isHeader border : Bool) (chars : TableChars α) :
    tableRow cx row colWidths isHeader border chars =
      (List.range colWidths.length).foldl (fun line col => line ++ btCell cx row colWidths isHeader border chars col)
        (if border then chars.vert else []) := rfl

/-- one step of the row loop, as in the hand model's `buildTable` -/
def btStep (data : List (List (List α))) (colWidths : List Int) (width : Int) (header border : Bool) (chars : TableChars α)
    (acc : List (List α)) (rowIdx : Nat) : List (List α) :=
  let horzBar : List α :=
    if border then colWidths.foldl (fun bar w => bar ++ gRepeat chars.horz w ++ chars.corner) chars.corner else []
  let breakBar : List α := if header ∧ !border then gRepeat chars.horz width else []
  let row := data.getD rowIdx []
  let isHeader := rowIdx == 0 && header
  let acc := acc ++ [tableRow cx row colWidths isHeader border chars]
  if isHeader then
    if border then (if data.length > 1 then acc ++ [horzBar] else acc)
    else acc ++ [breakBar]
  else acc

theorem buildTable_eq (data : List (List (List α))) (colWidths : List Int) (width : Int) (header border : Bool)
    (chars : TableChars α) :
    buildTable cx data colWidths width header border chars =
      (let horzBar : List α :=
        if border then colWidths.foldl (fun bar w => bar ++ gRepeat chars.horz w ++ chars.corner) chars.corner else []
       let body := (List.range data.length).foldl (btStep cx data colWidths width header border chars)
         (if border then [horzBar] else [])
       if border then body ++ [horzBar] else body) := rfl

theorem buildTable_regenerated (h : Gen.Code.buildTable_extracted = true) (data : List (List (List α)))
    (colWidths : List Int) (width : Int) (lineSep : List α) (header border : Bool) (chars : TableChars α) :
    Gen.Code.buildTable cx data colWidths width lineSep header border chars =
      pure ({ lines := buildTable cx data colWidths width header border chars, sep := lineSep, trailing := false } : Block α) := by
  first
    | exact absurd h (by decide)
    | (unfold Gen.Code.buildTable
       simp only [blockAppend_regenerated cx (by decide), alignLineLeft_regenerated cx (by decide),
         alignLineCenter_regenerated cx (by decide), blockNew_regenerated cx (by decide)]
       go_norm
       -- the horizontal bar
       have hHorz : ∀ (bar0 : List α),
           Go.forRangeM colWidths (fun (v_i : Int) (_x : Int) (v_horzBar : List α) =>
             Go.whileM ((colWidths.getD v_i.toNat 0).toNat + 1)
               (fun (s : List α × Int) => Go.idx colWidths v_i >>= fun t1 => pure (decide (s.2 < t1)))
               (fun (s : List α × Int) => pure (s.1 ++ chars.horz, s.2 + 1)) (v_horzBar, 0) >>= fun t2 =>
                 (pure (t2.1 ++ chars.corner) : R _)) bar0 =
           pure (colWidths.foldl (fun bar w => bar ++ gRepeat chars.horz w ++ chars.corner) bar0) := by
         intro bar0
         rw [forRangeM_fold colWidths (fun bar k => bar ++ gRepeat chars.horz (colWidths.getD k 0) ++ chars.corner)]
         · have := foldl_range_getD (fun (bar : List α) (w : Int) => bar ++ gRepeat chars.horz w ++ chars.corner) 0 colWidths [] bar0
           simp only [List.length_nil, List.nil_append] at this
           rw [List.range_eq_range', this]
         · intro k x s hk
           have hget : colWidths.getD k 0 = colWidths[k] := by simp [List.getD_eq_getElem?_getD, hk]
           simp only [Int.toNat_natCast, hget, idx_nat colWidths k hk, pure_bind]
           rw [while_count2_zero colWidths[k] (fun bar _ => bar ++ chars.horz) _ _ (fun s k => rfl) (fun s k _ => rfl) _ _ (Nat.le_refl _)]
           rw [foldl_const_append]
           simp [gRepeat_eq, List.append_assoc]
       have hBreak : Go.whileM (width.toNat + 1) (fun (s : List α × Int) => (pure (decide (s.2 < width)) : R Bool))
             (fun (s : List α × Int) => (pure (s.1 ++ chars.horz, s.2 + 1) : R _)) ([], 0) =
           pure (gRepeat chars.horz width, (width.toNat : Int)) := by
         rw [while_count2_zero width (fun bar _ => bar ++ chars.horz) _ _ (fun s k => rfl) (fun s k _ => rfl) _ _ (Nat.le_refl _)]
         rw [foldl_const_append]
         simp [gRepeat_eq]
       simp only [hHorz, hBreak, pure_bind, ite_pure]
       -- the rows
       rw [forRangeM_fold data (fun (b : Block α) (k : Nat) =>
         ({ b with lines := btStep cx data colWidths width header border chars b.lines k } : Block α))]
       · rw [foldl_block_lines]
         simp only [pure_bind]
         rw [buildTable_eq]
         cases border <;> simp [Block.new, Block.append]
       · intro k x blk hk
         have hgetr : data.getD k [] = data[k] := by simp [List.getD_eq_getElem?_getD, hk]
         rw [while_count3_zero (colWidths.length : Int)
           (fun (p : List α × List α) (col : Nat) =>
             (btCell cx data[k] colWidths (k == 0 && header) border chars col,
              p.2 ++ btCell cx data[k] colWidths (k == 0 && header) border chars col))
           _ _ (fun a b c => rfl) ?hb _ _ _ (by simp)]
         case hb =>
           intro a b col hcol
           have hcol' : col < colWidths.length := by omega
           have hgetc : colWidths.getD col 0 = colWidths[col] := by simp [List.getD_eq_getElem?_getD, hcol']
           have hrow : (if (col : Int) < ((data[k]).length : Int) then Go.idx data[k] (col : Int) else pure []) =
               (pure ((data[k]).getD col []) : R (List α)) := by
             by_cases hc2 : col < (data[k]).length
             · rw [if_pos (by omega), idx_nat _ _ hc2]; simp [List.getD_eq_getElem?_getD, hc2]
             · rw [if_neg (by omega)]; simp [List.getD_eq_getElem?_getD, hc2]
           simp only [idx_nat data k hk, idx_nat colWidths col hcol', pure_bind, bind_pure, hrow, ite_pure]
           -- header cell or body cell: decided by cases, so that swapped arms / De Morgan re-prove
           have hkI : ((k : Int) = 0) ↔ (k = 0) := by omega
           simp only [btCell, hgetc]
           by_cases hkz : k = 0 <;> cases header <;> cases border <;> simp [hkz, hkI]
         simp only [pure_bind, Int.toNat_natCast]
         rw [foldl_pair_snd (btCell cx data[k] colWidths (k == 0 && header) border chars)
           (fun b c => b ++ btCell cx data[k] colWidths (k == 0 && header) border chars c)]
         have hk0 : ((k : Int) = 0 ∧ header = true) ↔ ((k == 0 && header) = true) := by simp
         have hdl : ((data.length : Int) > 1) ↔ (data.length > 1) := by omega
         simp only [btStep, tableRow_eq, hgetr, hk0, hdl, Block.append, Block.new]
         cases border <;> cases header <;> by_cases hkz : k = 0 <;> simp [hkz]
         all_goals (split <;> rfl))

theorem foldl_max_cast {β : Type} : ∀ (l : List (List β)) (m : Nat),
    l.foldl (fun (m : Int) r => if (r.length : Int) > m then (r.length : Int) else m) (m : Int) =
      ((l.foldl (fun m r => max m r.length) m : Nat) : Int) := by
  intro l
  induction l with
  | nil => intro m; rfl
  | cons x xs ih =>
    intro m
    simp only [List.foldl_cons]
    by_cases h : (x.length : Int) > (m : Int)
    · rw [if_pos h, ih x.length]
      congr 2
      omega
    · rw [if_neg h]
      have : max m x.length = m := by omega
      rw [this]
      exact ih m

/-- the pieces of the hand model's `makeTable`, named -/
def mtContentW (data : List (List (List α))) (n : Nat) : List Int :=
  (List.range n).map fun col =>
    data.foldl (fun m row => let k : Int := gLen cx (row.getD col []); if k ≥ m then k else m) 0

def mtPadded (border : Bool) (n : Nat) (contentW : List Int) : List Int :=
  (List.range n).map fun i => contentW.getD i 0 + (if border then 2 else if i + 1 < n then 2 else 0)

def mtMinW (border : Bool) (horzLen : Int) (padded : List Int) : Int :=
  padded.foldl (fun s w => s + w + (if border then horzLen else 0)) (if border then horzLen else 0)

def mtColWidths (border : Bool) (n : Nat) (padded : List Int) (spaceToAdd : Int) : List Int :=
  let numToSpace : Int := if !border ∧ n > 1 then (n : Int) - 1 else n
  let per := spaceToAdd / numToSpace
  let rem := spaceToAdd % numToSpace
  (List.range n).map fun i =>
    let w := padded.getD i 0
    if (i : Int) < numToSpace then w + per + (if (i : Int) < rem then 1 else 0) else w

theorem makeTable_eq (data : List (List (List α))) (width : Int) (header border : Bool) (charSet : List α) :
    makeTableCore cx data width header border charSet =
      if data.isEmpty then []
      else
        let n := data.foldl (fun m r => max m r.length) 0
        if n == 0 then []
        else
          let chars := parseTableCharSet cx charSet
          let padded := mtPadded border n (mtContentW cx data n)
          let mw := mtMinW border (gLen cx chars.horz) padded
          if width - mw > 0 then buildTable cx data (mtColWidths border n padded (width - mw)) width header border chars
          else buildTable cx data padded mw header border chars := rfl

theorem makeTable_regenerated (h : Gen.Code.makeTable_extracted = true) (data : List (List (List α))) (width : Int)
    (lineSep : List α) (header border : Bool) (charSet : List α) :
    Gen.Code.makeTable cx data width lineSep header border charSet =
      pure ({ lines := makeTable cx data width header border charSet, sep := lineSep, trailing := false } : Block α) := by
  first
    | exact absurd h (by decide)
    | (unfold Gen.Code.makeTable makeTable
       simp only [ite_pure_bind]
       generalize (if width < 0 then (0 : Int) else width) = width
       rw [makeTable_eq]
       simp only [parseTableCharSet_regenerated cx (by decide), buildTable_regenerated cx (by decide),
         blockNew_regenerated cx (by decide)]
       go_norm
       by_cases hd : data = []
       · simp [hd, Block.new]
       · simp only [hd, if_false]
         -- colCount
         rw [forRangeM_fold data (fun (cc : Int) (k : Nat) =>
           if (((data.getD k []).length : Nat) : Int) > cc then (((data.getD k []).length : Nat) : Int) else cc)]
         · have hcc := foldl_range_getD (fun (m : Int) (r : List (List α)) => if (r.length : Int) > m then (r.length : Int) else m)
             [] data [] 0
           have hmc := foldl_max_cast data 0
           simp only [List.length_nil, List.nil_append] at hcc
           simp only [Int.natCast_zero] at hmc
           rw [List.range_eq_range', hcc, hmc]
           simp only [pure_bind]
           generalize hn : data.foldl (fun m r => max m r.length) 0 = n
           by_cases hn0 : n = 0
           · simp [hn0, Block.new]
           · have hn0' : ¬ ((n : Int) = 0) := by omega
             simp only [hn0', if_false, beq_iff_eq, hn0]
             have hmk : ∀ m : Nat, Go.makeSlice (m : Int) (0 : Int) = pure (List.replicate m (0 : Int)) := by
               intro m; unfold Go.makeSlice; rw [if_neg (by omega)]; simp
             simp only [hmk, pure_bind]
             -- content widths
             rw [while_count2_inv_zero (fun (c : List Int) => c.length = n) (n : Int)
               (fun (c : List Int) (col : Nat) => c.set col
                 (data.foldl (fun m row => let k : Int := gLen cx (row.getD col []); if k ≥ m then k else m) 0))
               _ _ (fun s k _ hs => by simpa using hs) (fun s k => rfl) ?hb _ _ (by simp) (by simp)]
             case hb =>
               intro c col hcol hc
               have hcol' : col < c.length := by omega
               simp only []
               have hss : Go.sliceSet c (col : Int) (0 : Int) = pure (c.set col 0) := by
                 unfold Go.sliceSet; rw [if_pos (by omega)]; simp
               rw [hss, pure_bind]
               rw [forRangeM_fold_inv (fun (c' : List Int) => c'.length = n) data
                 (fun (c' : List Int) (row : Nat) => c'.set col
                   ((fun (m : Int) (r : List (List α)) => let k : Int := gLen cx (r.getD col []); if k ≥ m then k else m)
                     (c'.getD col 0) (data.getD row [])))
                 _ (fun k s _ hs => by simpa using hs) ?hb2 _ (by simpa using hc)]
               case hb2 =>
                 intro row x c' hrow hc'
                 have hget : data.getD row [] = data[row] := by simp [List.getD_eq_getElem?_getD, hrow]
                 have hcol2 : col < c'.length := by omega
                 have hrowv : (if (col : Int) < ((data[row]).length : Int) then Go.idx data[row] (col : Int) else pure []) =
                     (pure ((data[row]).getD col []) : R (List α)) := by
                   by_cases hc2 : col < (data[row]).length
                   · rw [if_pos (by omega), idx_nat _ _ hc2]; simp [List.getD_eq_getElem?_getD, hc2]
                   · rw [if_neg (by omega)]; simp [List.getD_eq_getElem?_getD, hc2]
                 have hss2 : ∀ v : Int, Go.sliceSet c' (col : Int) v = pure (c'.set col v) := by
                   intro v; unfold Go.sliceSet; rw [if_pos (by omega)]; simp
                 have hgc : c'.getD col 0 = c'[col] := by simp [List.getD_eq_getElem?_getD, hcol2]
                 simp only [idx_nat data row hrow, idx_nat c' col hcol2, pure_bind, bind_pure, hrowv, hss2, hget, hgc]
                 split
                 · rfl
                 · simp
               simp only [pure_bind]
               rw [foldl_set_fixed (fun (m : Int) (row : Nat) =>
                   (fun (m : Int) (r : List (List α)) => let k : Int := gLen cx (r.getD col []); if k ≥ m then k else m) m
                     (data.getD row [])) 0 col _ _ (by simpa using hcol'), getD_set_self _ _ _ _ hcol', List.set_set]
               have hfr := foldl_range_getD
                 (fun (m : Int) (r : List (List α)) => let k : Int := gLen cx (r.getD col []); if k ≥ m then k else m)
                 [] data [] 0
               simp only [List.length_nil, List.nil_append] at hfr
               rw [List.range_eq_range', hfr]
             simp only [pure_bind, Int.toNat_natCast]
             have hcw : (List.range n).foldl (fun (c : List Int) (col : Nat) => c.set col
                 (data.foldl (fun m row => let k : Int := gLen cx (row.getD col []); if k ≥ m then k else m) 0))
                 (List.replicate n 0) = mtContentW cx data n := by
               have := foldl_set_range_eq_map (fun (j : Nat) (_ : Int) =>
                 data.foldl (fun m row => let k : Int := gLen cx (row.getD j []); if k ≥ m then k else m) 0) 0 (List.replicate n 0)
               simp only [List.length_replicate] at this
               exact this
             rw [hcw]
             have hcwl : (mtContentW cx data n).length = n := by simp [mtContentW]
             generalize mtContentW cx data n = cw at hcwl ⊢
             have hcopy : ∀ l : List Int, Go.copySlice (List.replicate l.length (0 : Int)) l = l := by
               intro l; simp [Go.copySlice]
             generalize hhl : ((gLen cx (parseTableCharSet cx charSet).horz : Nat) : Int) = hl
             simp only [hcopy, ite_pure, pure_bind]
             -- padding and minimal width
             rw [forRangeM_fold_inv (fun (p : List Int × Int) => p.1.length = n) cw
               (fun (p : List Int × Int) (i : Nat) =>
                 (p.1.set i ((fun (i : Nat) (w : Int) => w + (if border then 2 else if i + 1 < n then 2 else 0)) i (p.1.getD i 0)),
                  (fun (m v : Int) => m + v + (if border then hl else 0)) p.2
                    ((fun (i : Nat) (w : Int) => w + (if border then 2 else if i + 1 < n then 2 else 0)) i (p.1.getD i 0))))
               _ (fun k s _ hs => by simpa using hs) ?hb _ (by simpa using hcwl)]
             case hb =>
               intro i x p hi hp
               have hi' : i < p.1.length := by omega
               have hss : ∀ v : Int, Go.sliceSet p.1 (i : Int) v = pure (p.1.set i v) := by
                 intro v; unfold Go.sliceSet; rw [if_pos (by omega)]; simp
               have hgi : p.1.getD i 0 = (p.1)[i] := by simp [List.getD_eq_getElem?_getD, hi']
               have hi2 : ∀ v : Int, Go.idx (p.1.set i v) (i : Int) = pure v := by
                 intro v; rw [idx_nat _ _ (by simpa using hi')]; simp
               have hc1 : ((i : Int) + 1 < (cw.length : Int)) ↔ (i + 1 < n) := by omega
               simp only [idx_nat p.1 i hi', pure_bind, hss, hi2, hgi, ite_pure, hc1]
               cases border <;> simp
             rw [foldl_pair_set (fun (i : Nat) (w : Int) => w + (if border then 2 else if i + 1 < n then 2 else 0))
               (fun (m v : Int) => m + v + (if border then hl else 0)) 0 cw (if border then hl else 0) cw.length (Nat.le_refl _),
               foldl_set_range_eq_map (fun (i : Nat) (w : Int) => w + (if border then 2 else if i + 1 < n then 2 else 0))]
             have hpad : (List.range cw.length).map (fun j =>
                 (fun (i : Nat) (w : Int) => w + (if border then 2 else if i + 1 < n then 2 else 0)) j (cw.getD j 0)) =
                 mtPadded border n cw := by rw [hcwl]; rfl
             have hmw : (List.range cw.length).foldl (fun (m : Int) (i : Nat) =>
                 (fun (m v : Int) => m + v + (if border then hl else 0)) m
                   ((fun (i : Nat) (w : Int) => w + (if border then 2 else if i + 1 < n then 2 else 0)) i (cw.getD i 0)))
                 (if border then hl else 0) = mtMinW border hl (mtPadded border n cw) := by
               rw [hcwl]; simp only [mtMinW, mtPadded, List.foldl_map]
             rw [hpad, hmw]
             simp only [pure_bind]
             have hpl : (mtPadded border n cw).length = n := by simp [mtPadded]
             generalize mtPadded border n cw = padded at hpl ⊢
             generalize mtMinW border hl padded = mw
             have hcopy2 : Go.copySlice (List.replicate n (0 : Int)) padded = padded := by
               rw [← hpl]; exact hcopy padded
             simp only [hcopy2]
             -- the guard in both polarities (`spaceToAdd > 0` / `spaceToAdd <= 0` with swapped arms)
             by_cases hsp : width - mw > 0
             · have hspn : ¬ width - mw ≤ 0 := by omega
               simp only [hsp, hspn, if_true, if_false]
               generalize hsp' : width - mw = sp at hsp hspn ⊢
               generalize hnts : (if border = false ∧ (n : Int) > 1 then (n : Int) - 1 else (n : Int)) = nts
               have hnts1 : 1 ≤ nts ∧ nts ≤ (n : Int) := by
                 rw [← hnts]; split <;> omega
               have hdiv : Go.intDiv sp nts = pure (Int.tdiv sp nts) := by
                 unfold Go.intDiv; rw [if_neg (by omega)]
               have hmod : Go.intMod sp nts = pure (Int.tmod sp nts) := by
                 unfold Go.intMod; rw [if_neg (by omega)]
               have hst : Go.sliceTo padded nts = pure (padded.take nts.toNat) := by
                 unfold Go.sliceTo; rw [if_pos (by omega)]
               simp only [hdiv, hmod, hst, pure_bind, bind_assoc]
               rw [forRangeM_fold_inv (fun (c : List Int) => c.length = n) (padded.take nts.toNat)
                 (fun (c : List Int) (i : Nat) => c.set i
                   ((fun (i : Nat) (w : Int) => w + Int.tdiv sp nts + (if (i : Int) < Int.tmod sp nts then 1 else 0)) i (c.getD i 0)))
                 _ (fun k s _ hs => by simpa using hs) ?hb _ hpl]
               case hb =>
                 intro i x c hi hc
                 have hi' : i < c.length := by
                   rw [List.length_take] at hi; omega
                 have hss : ∀ (l : List Int) (v : Int), l.length = n → Go.sliceSet l (i : Int) v = pure (l.set i v) := by
                   intro l v hlen; unfold Go.sliceSet; rw [if_pos (by omega)]; simp
                 have hgi : c.getD i 0 = c[i] := by simp [List.getD_eq_getElem?_getD, hi']
                 have hi2 : ∀ v : Int, Go.idx (c.set i v) (i : Int) = pure v := by
                   intro v; rw [idx_nat _ _ (by simpa using hi')]; simp
                 simp only [idx_nat c i hi', pure_bind, hss c _ hc, hi2, hgi]
                 split
                 · rw [hss _ _ (by simpa using hc)]
                   simp [List.set_set]
                 · simp
               simp only [pure_bind]
               have hfin : (List.range (padded.take nts.toNat).length).foldl
                   (fun (c : List Int) (i : Nat) => c.set i
                     ((fun (i : Nat) (w : Int) => w + Int.tdiv sp nts + (if (i : Int) < Int.tmod sp nts then 1 else 0)) i (c.getD i 0)))
                   padded = mtColWidths border n padded sp := by
                 have hlt : (padded.take nts.toNat).length = nts.toNat := by rw [List.length_take]; omega
                 rw [hlt]
                 have hh := foldl_set_range
                   (fun (i : Nat) (w : Int) => w + Int.tdiv sp nts + (if (i : Int) < Int.tmod sp nts then 1 else 0)) 0 padded nts.toNat
                 have hnts' : (if (!border) = true ∧ n > 1 then (n : Int) - 1 else (n : Int)) = nts := by
                   rw [← hnts]
                   have hc1 : (n > 1) ↔ ((n : Int) > 1) := by omega
                   cases border <;> simp [hc1]
                 apply List.ext_getElem
                 · rw [hh.1]; simp [mtColWidths, hpl]
                 · intro i h1 h2
                   have hi : i < n := by rw [hh.1, hpl] at h1; exact h1
                   have h3 := hh.2 i
                   rw [List.getD_eq_getElem?_getD, List.getElem?_eq_getElem h1, Option.getD_some] at h3
                   rw [h3]
                   simp only [mtColWidths, hnts', List.getElem_map, List.getElem_range,
                     Int.tdiv_eq_ediv_of_nonneg (Int.le_of_lt hsp), Int.tmod_eq_emod_of_nonneg (Int.le_of_lt hsp)]
                   have hc : (i < nts.toNat ∧ i < padded.length) ↔ ((i : Int) < nts) := by omega
                   simp only [hc]
               rw [hfin]
             · have hspn : width - mw ≤ 0 := by omega
               simp only [hsp, hspn, if_true, if_false, pure_bind]
         · intro k x s hk
           have hget : data.getD k [] = data[k] := by simp [List.getD_eq_getElem?_getD, hk]
           simp only [idx_nat data k hk, pure_bind, hget, ite_pure])

end RosedVerif.GenCodeEq
