/-
Regenerated-code equality theorems (see Model/GenCodeEq.lean for the overview): module `Edit`.
-/
import RosedVerif.Model.GenEq.Core
import RosedVerif.Model.GenEq.Chars
import RosedVerif.Model.InstAFacts
set_option linter.unusedVariables false
set_option linter.unusedSectionVars false
set_option linter.unusedSimpArgs false
namespace RosedVerif.GenCodeEq
open RosedVerif

variable {α : Type} [DecidableEq α] (cx : Ctx α)

theorem editorInsert_regenerated (h : Gen.Code.editorInsert_extracted = true) (hwf : cx.WF) (ed : Editor α) (pos : Int) (t : List α) :
    Gen.Code.editorInsert cx ed pos t = ed.insert cx pos t := by
  first
    | exact absurd h (by decide)
    | (unfold Gen.Code.editorInsert Editor.insert
       simp only [editorCharsTo_regenerated cx (by decide) hwf, editorCharsFrom_regenerated cx (by decide) hwf]
       go_norm
       all_goals simp)

theorem editorDelete_regenerated (h : Gen.Code.editorDelete_extracted = true) (hwf : cx.WF) (ed : Editor α) (s e : Int) :
    Gen.Code.editorDelete cx ed s e = ed.delete cx s e := by
  first
    | exact absurd h (by decide)
    | (unfold Gen.Code.editorDelete Editor.delete
       simp only [editorCharsTo_regenerated cx (by decide) hwf, editorCharsFrom_regenerated cx (by decide) hwf,
         editorCharCount_regenerated cx (by decide)]
       go_norm
       go_close)

/-- The translator emits Go's `int` addition as unbounded `Int` addition; the hand model wraps
`charPos + inboundText.Len()` at 64 bits (`wrap64`).  The two agree when the sum does not overflow. -/
theorem editorOvertype_regenerated (h : Gen.Code.editorOvertype_extracted = true) (hwf : cx.WF) (ed : Editor α) (pos : Int) (t : List α)
    (hno : ∀ p : Int, 0 ≤ p → p ≤ ed.charCount cx → wrap64 (p + gLen cx t) = p + gLen cx t) :
    Gen.Code.editorOvertype cx ed pos t = ed.overtype cx pos t := by
  first
    | exact absurd h (by decide)
    | (unfold Gen.Code.editorOvertype Editor.overtype
       simp only [editorCharsTo_regenerated cx (by decide) hwf, editorCharsFrom_regenerated cx (by decide) hwf,
         editorCharCount_regenerated cx (by decide)]
       go_norm
       have hb : ∀ q : Int, 0 ≤ (rangeToIndexes (ed.charCount cx : Int) q q).1 ∧
           (rangeToIndexes (ed.charCount cx : Int) q q).1 ≤ (ed.charCount cx : Int) := by
         intro q; unfold rangeToIndexes; grind
       split <;> simp_all)

theorem editorInsert_cxA (h : Gen.Code.editorInsert_extracted = true) (ed : Editor Int) (pos : Int) (t : List Int) :
    Gen.Code.editorInsert cxA ed pos t = ed.insert cxA pos t := editorInsert_regenerated cxA h cxA_WF ed pos t

theorem editorDelete_cxA (h : Gen.Code.editorDelete_extracted = true) (ed : Editor Int) (s e : Int) :
    Gen.Code.editorDelete cxA ed s e = ed.delete cxA s e := editorDelete_regenerated cxA h cxA_WF ed s e

end RosedVerif.GenCodeEq
