/-
Regenerated-code equality theorems (see Model/GenCodeEq.lean for the overview): module `ColumnsCore` — congruence lemmas, the
arithmetic closing tactic and fold lemmas shared by `TwoCol` and `DefTable` (no theorem about generated code here).
-/
import RosedVerif.Model.GenEq.Core
set_option linter.unusedVariables false
set_option linter.unusedSectionVars false
set_option linter.unusedSimpArgs false
namespace RosedVerif.GenCodeEq
open RosedVerif

variable {α : Type} [DecidableEq α] (cx : Ctx α)

theorem ite_congr3 {γ : Type} {c c' : Prop} [Decidable c] [Decidable c'] {a a' b b' : γ}
    (hc : c ↔ c') (ha : a = a') (hb : b = b') : (if c then a else b) = (if c' then a' else b') := by
  subst ha hb
  by_cases h : c
  · rw [if_pos h, if_pos (hc.mp h)]
  · rw [if_neg h, if_neg (fun h' => h (hc.mpr h'))]

theorem bind_congr2 {β γ : Type} {m m' : R β} {k k' : β → R γ} (hm : m = m') (hk : ∀ x, k x = k' x) :
    m >>= k = m' >>= k' := by
  subst hm
  exact bind_congr (m := R) hk

/-- loop-free arithmetic side goal: split every `if`, prune the contradictory cases, close -/
macro "num_close" : tactic => `(tactic|
  ((repeat' (split <;> try omega)) <;> (first | rfl | omega | (simp_all; done) | grind)))

/-- a range loop that does not use the index is a monadic left fold -/
theorem forRangeAux_foldlM {β σ : Type} (g : σ → β → R σ) : ∀ (xs : List β) (i : Int) (s : σ),
    Go.forRangeAux (fun _ x s => g s x) i xs s = xs.foldlM g s := by
  intro xs
  induction xs with
  | nil => intro i s; rfl
  | cons x xs ih =>
    intro i s
    simp only [Go.forRangeAux, List.foldlM_cons]
    refine bind_congr (m := R) fun y => ?_
    exact ih _ _

theorem forRangeM_foldlM {β σ : Type} (g : σ → β → R σ) (xs : List β) (s : σ) :
    Go.forRangeM xs (fun _ x s => g s x) s = xs.foldlM g s := forRangeAux_foldlM g xs 0 s

theorem foldlM_pure {β σ : Type} (f : σ → β → σ) : ∀ (xs : List β) (s : σ),
    xs.foldlM (fun s x => (pure (f s x) : R σ)) s = pure (xs.foldl f s) := by
  intro xs
  induction xs with
  | nil => intro s; rfl
  | cons x xs ih => intro s; simp only [List.foldlM_cons, pure_bind, List.foldl_cons, ih]

/-- a fold over a state that is an image of the model's state -/
theorem foldlM_state_congr {β σ τ γ : Type} (ι : τ → σ) (g : σ → β → R σ) (g' : τ → β → R τ)
    (hg : ∀ t x, g (ι t) x = g' t x >>= fun t' => pure (ι t')) : ∀ (xs : List β) (t0 : τ) (k : σ → R γ),
    xs.foldlM g (ι t0) >>= k = xs.foldlM g' t0 >>= fun t => k (ι t) := by
  intro xs
  induction xs with
  | nil => intro t0 k; simp
  | cons x xs ih =>
    intro t0 k
    simp only [List.foldlM_cons, bind_assoc, hg, pure_bind]
    refine bind_congr (m := R) fun t' => ?_
    exact ih t' k

end RosedVerif.GenCodeEq
