/-
Regenerated-code equality theorems (see Model/GenCodeEq.lean for the overview): module `Options`.
-/
import RosedVerif.Model.GenEq.Core
set_option linter.unusedVariables false
set_option linter.unusedSectionVars false
set_option linter.unusedSimpArgs false
namespace RosedVerif.GenCodeEq
open RosedVerif

variable {α : Type} [DecidableEq α] (cx : Ctx α)

theorem optionsWithDefaults_regenerated (h : Gen.Code.optionsWithDefaults_extracted = true) (o : Options α) :
    Gen.Code.optionsWithDefaults cx o = pure (o.withDefaults cx) := by
  first
    | exact absurd h (by decide)
    | (unfold Gen.Code.optionsWithDefaults Options.withDefaults
       go_norm
       go_close)

theorem edit_regenerated (h : Gen.Code.edit_extracted = true) (t : List α) :
    Gen.Code.edit cx t = pure (Editor.root t {}) := by
  first
    | exact absurd h (by decide)
    | rfl

theorem editorIsSubEditor_regenerated (h : Gen.Code.editorIsSubEditor_extracted = true) (ed : Editor α) :
    Gen.Code.editorIsSubEditor cx ed = pure ed.isSub := by
  first
    | exact absurd h (by decide)
    | (unfold Gen.Code.editorIsSubEditor
       cases ed <;> rfl)

theorem editorWithOptions_regenerated (h : Gen.Code.editorWithOptions_extracted = true) (ed : Editor α) (o : Options α) :
    Gen.Code.editorWithOptions cx ed o = pure (ed.withOpts o) := by
  first
    | exact absurd h (by decide)
    | rfl

end RosedVerif.GenCodeEq
