/-
Regenerated-code equality theorems (see Model/GenCodeEq.lean for the overview): module `Collapse`.
-/
import RosedVerif.Model.GenEq.Core
import RosedVerif.Model.GenEq.Options
set_option linter.unusedVariables false
set_option linter.unusedSectionVars false
set_option linter.unusedSimpArgs false
namespace RosedVerif.GenCodeEq
open RosedVerif

variable {α : Type} [DecidableEq α] (cx : Ctx α)

/-- the loop of CollapseSpace over the model's primitives (state: text, i) -/
def csCond (s : List α × Int) : R Bool := pure (decide (s.2 < (gLen cx s.1 : Int)))

def csBody (s : List α × Int) : R (List α × Int) := do
  let ch ← gCharAt cx s.1 s.2
  match ch with
  | [] => throw .index
  | c :: _ =>
    (if cx.isSpace c then gSetCharAt cx s.1 s.2 [cx.sp] else pure s.1) >>= fun t' => pure (t', s.2 + 1)

theorem setSpacesLoop_eq_while : ∀ (fuel : Nat) (t : List α) (i : Nat),
    setSpacesLoop cx fuel t i = Prod.fst <$> Go.whileM fuel (csCond cx) (csBody cx) (t, (i : Int)) := by
  intro fuel
  induction fuel with
  | zero => intro t i; rfl
  | succ n ih =>
    intro t i
    unfold Go.whileM setSpacesLoop
    simp only [csCond, csBody]
    by_cases hlt : i < gLen cx t
    · have : ((i : Int) < (gLen cx t : Int)) := by omega
      simp only [this, hlt, decide_true, pure_bind, if_true, bind_assoc, map_bind]
      refine bind_congr (m := R) fun ch => ?_
      cases ch with
      | nil => rfl
      | cons c rest =>
        by_cases hsp : cx.isSpace c = true <;>
          simp only [hsp, if_true, if_false, bind_assoc, pure_bind, ih, Bool.false_eq_true, Int.natCast_add,
            Int.cast_ofNat_Int] <;> rfl
    · have : ¬ ((i : Int) < (gLen cx t : Int)) := by omega
      simp [this, hlt]

theorem collapseSpace_regenerated (h : Gen.Code.collapseSpace_extracted = true) (text lineSep : List α) :
    Gen.Code.collapseSpace cx text lineSep = collapseSpace cx text lineSep := by
  first
    | exact absurd h (by decide)
    | (unfold Gen.Code.collapseSpace collapseSpace
       simp only [setSpacesLoop_eq_while, map_eq_pure_bind, bind_assoc, pure_bind, Int.cast_ofNat_Int]
       split
       all_goals
         (simp only [pure_bind]
          refine whileM_bind_congr ?_ ?_ ?_ ?_ ?_
          · simp_all [Go.gsIsEmpty, Go.stringsReplaceAll]
          · simp_all [Go.gsIsEmpty, Go.stringsReplaceAll]
          · intro s; simp [csCond, Go.gsLen]
          · intro s
            simp only [csBody, Go.gsCharAt, Go.gsSetCharAt, Go.unicodeIsSpace, idx_zero]
            refine bind_congr (m := R) fun ch => ?_
            cases ch with
            | nil => rfl
            | cons c rest => by_cases hsp : cx.isSpace c = true <;> simp [hsp]
          · intro s; simp [Go.collapseSpaceRuns]))

theorem editorCollapseSpaceOpts_regenerated (h : Gen.Code.editorCollapseSpaceOpts_extracted = true) (ed : Editor α)
    (o : Options α) : Gen.Code.editorCollapseSpaceOpts cx ed o = ed.collapseSpaceOpts cx o := by
  first
    | exact absurd h (by decide)
    | (unfold Gen.Code.editorCollapseSpaceOpts Editor.collapseSpaceOpts
       simp only [optionsWithDefaults_regenerated cx (by decide), collapseSpace_regenerated cx (by decide)]
       go_norm
       all_goals simp)

theorem editorCollapseSpace_regenerated (h : Gen.Code.editorCollapseSpace_extracted = true) (ed : Editor α) :
    Gen.Code.editorCollapseSpace cx ed = ed.collapseSpaceOpts cx ed.opts := by
  first
    | exact absurd h (by decide)
    | (unfold Gen.Code.editorCollapseSpace
       simp only [editorCollapseSpaceOpts_regenerated cx (by decide), bind_pure])

end RosedVerif.GenCodeEq
