/-
Regenerated-code equality theorems for package internal/gem (pointer level): module `Gem`.
For every function of internal/gem/string.go, gem.go that harness/goheap.go translates into
Gen/GemCode.lean: the generated definition, run on any heap, yields the heap, the result AND the write
events of the hand-written layer-H function (Heap/Model.lean) the theorems of C19/C20 are about.
-/
import RosedVerif.Model.GenEq.GemCore
import RosedVerif.Model.GenEq.GemSplit
set_option linter.unusedVariables false
set_option linter.unusedSectionVars false
set_option linter.unusedSimpArgs false
namespace RosedVerif.GenCodeEq
open RosedVerif RosedVerif.H RosedVerif.HGo

theorem gemInitialized_regenerated (hx : Gen.GemCode.gemInitialized_extracted = true) (s : GStr) :
    Gen.GemCode.gemInitialized s = okM (H.initialized s) id := by
  first
    | exact absurd hx (by decide)
    | (funext h
       unfold Gen.GemCode.gemInitialized okM H.initialized
       cases hc : s.cell <;> gem_run)

theorem gemNew_regenerated (hx : Gen.GemCode.gemNew_extracted = true) (rs : List Int) :
    Gen.GemCode.gemNew rs = okM (H.new rs) id := by
  first
    | exact absurd hx (by decide)
    | (funext h
       unfold Gen.GemCode.gemNew okM H.new
       gem_run)

theorem gemClone_regenerated (hx : Gen.GemCode.gemClone_extracted = true) (s : GStr) :
    Gen.GemCode.gemClone s = okM (H.clone s) id := by
  first
    | exact absurd hx (by decide)
    | (funext h
       unfold Gen.GemCode.gemClone
       simp only [gemInitialized_regenerated (by decide)]
       unfold H.clone H.initialized
       rcases s with ⟨rs, _ | c⟩
       · gem_run
       · cases hg : h.get c with
         | none => gem_run [hg]
         | some e => gem_run [hg, get_append_lt _ _ _ (get_lt hg)])

theorem gemRunes_regenerated (hx : Gen.GemCode.gemRunes_extracted = true) (s : GStr) :
    Gen.GemCode.gemRunes s = okM (H.runes s) id := by
  first
    | exact absurd hx (by decide)
    | (funext h
       unfold Gen.GemCode.gemRunes
       simp only [gemInitialized_regenerated (by decide)]
       unfold H.runes
       gem_run)

/-- `String()`: the runes of the initialized copy (layer H has no separate function for it) -/
theorem gemString_regenerated (hx : Gen.GemCode.gemString_extracted = true) (s : GStr) :
    Gen.GemCode.gemString s = okM (H.runes s) id := by
  first
    | exact absurd hx (by decide)
    | (funext h
       unfold Gen.GemCode.gemString
       simp only [gemInitialized_regenerated (by decide)]
       unfold H.runes
       gem_run)

/-- `IsEmpty()`: emptiness of the runes of the initialized copy -/
theorem gemIsEmpty_regenerated (hx : Gen.GemCode.gemIsEmpty_extracted = true) (s : GStr) :
    Gen.GemCode.gemIsEmpty s = okM (H.runes s) List.isEmpty := by
  first
    | exact absurd hx (by decide)
    | (funext h
       unfold Gen.GemCode.gemIsEmpty
       simp only [gemInitialized_regenerated (by decide)]
       unfold H.runes
       gem_run
       cases (initialized s h).2.1.runes <;> simp)

theorem clone_cell (s : GStr) (h : Heap) : (clone s h).2.1.cell = some (initialized s h).1.cells.length := by
  unfold clone; rfl

theorem initialized_cell (s : GStr) (h : Heap) : ∃ c, (initialized s h).2.1.cell = some c := by
  unfold initialized; cases hc : s.cell <;> simp [Heap.alloc, hc]

theorem gemAdd_regenerated (hx : Gen.GemCode.gemAdd_extracted = true) (s t : GStr) :
    Gen.GemCode.gemAdd s t = okM (H.add s t) id := by
  first
    | exact absurd hx (by decide)
    | (funext h
       unfold Gen.GemCode.gemAdd
       simp only [gemInitialized_regenerated (by decide), gemClone_regenerated (by decide), gemRunes_regenerated (by decide)]
       unfold H.add
       gem_run [clone_cell])

/-- the value's cell, if it has one, is allocated in the heap (Go: every non-nil pointer is valid) -/
def CellAlloc (h : Heap) (s : GStr) : Prop := ∀ c, s.cell = some c → c < h.cells.length

theorem gemLen_regenerated (hx : Gen.GemCode.gemLen_extracted = true) (s : GStr) (h : Heap) (hv : CellAlloc h s) :
    Gen.GemCode.gemLen s h = okM (H.len s) Int.ofNat h := by
  first
    | exact absurd hx (by decide)
    | (unfold Gen.GemCode.gemLen
       simp only [gemInitialized_regenerated (by decide), gemSplit_regenerated (by decide)]
       unfold H.len H.initialized H.ensure
       rcases s with ⟨rs, _ | c⟩
       · cases rs <;> gem_run
       · have hc := hv c rfl
         cases hg : h.get c with
         | none => cases rs <;> gem_run [hg, get_set_self _ _ _ hc]
         | some e => gem_run [hg])

/-- the copy loop of `CharAt`, restated: element `i` of the cluster := rune `start + i` -/
def copyStep (r : List Int) (start : Int) (s : List Int × Int) : List Int × Int :=
  (s.1.set s.2.toNat (r.getD (start + s.2).toNat 0), s.2 + 1)

theorem take_succ_set {β : Type} (l : List β) (i : Nat) (x : β) (hi : i < l.length) :
    (l.set i x).take (i + 1) = l.take i ++ [x] := by
  rw [List.take_add_one]
  simp [List.take_set_of_le, hi]

theorem copy_iter (r : List Int) (start n : Nat) (hr : start + n ≤ r.length) :
    ∀ (k i : Nat) (cl : List Int) (fuel : Nat), i + k = n → cl.length = n → k + 1 ≤ fuel →
      iter (fun s : List Int × Int => decide (s.2 < (n : Int))) (copyStep r start) fuel (cl, (i : Int)) =
        some (cl.take i ++ (r.drop (start + i)).take k, (n : Int)) := by
  intro k
  induction k with
  | zero =>
    intro i cl fuel hik hcl hf
    obtain ⟨m, rfl⟩ : ∃ m, fuel = m + 1 := ⟨fuel - 1, by omega⟩
    have : i = n := by omega
    subst this
    simp [iter, ← hcl]
  | succ k ih =>
    intro i cl fuel hik hcl hf
    obtain ⟨m, rfl⟩ : ∃ m, fuel = m + 1 := ⟨fuel - 1, by omega⟩
    have hlt : (i : Int) < n := by omega
    have hget : r.getD (start + i) 0 = r[start + i]'(by omega) := by
      simp [List.getD_eq_getElem?_getD, List.getElem?_eq_getElem (show start + i < r.length by omega)]
    have h1 : ((start : Int) + (i : Int)).toNat = start + i := by omega
    simp only [iter, hlt, decide_true, if_true, copyStep, Int.toNat_natCast, h1]
    have := ih (i + 1) (cl.set i (r.getD (start + i) 0)) m (by omega) (by simp [hcl]) (by omega)
    simp only [Int.natCast_add, Int.cast_ofNat_Int] at this
    rw [this, take_succ_set _ _ _ (by omega), hget]
    have hd : r.drop (start + i) = r[start + i]'(by omega) :: r.drop (start + (i + 1)) := by
      rw [← Nat.add_assoc]; exact (List.drop_eq_getElem_cons _).symm ▸ rfl
    simp [hd, List.take_succ_cons]

/-- the value's cell, if it has one, is allocated and, if filled, holds a partition of the runes -/
def GemOK (h : Heap) (s : GStr) : Prop :=
  CellAlloc h s ∧ ∀ c e, s.cell = some c → h.get c = some e → Part e s.runes.length

/-- the part of `CharAt` after the cache has been filled: `$e` are the cached ends, `$hp : Part $e ($rs).length` -/
local macro "charAt_tail" rs:ident e:term:max idx:ident hp:term:max "[" ts:Lean.Parser.Tactic.simpLemma,* "]" : tactic => `(tactic| (
  rcases Int.lt_or_le $idx 0 with hneg | hnn
  · have hB := idx_error (($e).map Int.ofNat) $idx (.inl hneg)
    have h0 : ¬ 0 < $idx := by omega
    gem_run [$ts,*, hB, h0, hneg]
  · rcases Int.lt_or_le $idx ($e).length with hlt | hge
    · -- a valid index
      have hB := idx_map_ok $e $idx hnn hlt
      have hA : 0 < $idx → Go.idx (($e).map Int.ofNat) ($idx - 1) = .ok ((($e).getD ($idx - 1).toNat 0 : Nat) : Int) :=
        fun hpos => idx_map_ok $e ($idx - 1) (by omega) (by omega)
      obtain ⟨k, hidx⟩ : ∃ k : Nat, $idx = k := ⟨($idx).toNat, by omega⟩
      subst hidx
      have hk : k < ($e).length := by omega
      have hab : cOff $e k ≤ cOff $e (k + 1) := ($hp).cOff_mono (by omega) (by omega)
      have hbn : cOff $e (k + 1) ≤ ($rs).length := ($hp).cOff_le (by omega)
      have hspan := span_eq $e k
      have hb : ($e).getD k 0 = cOff $e (k + 1) := by simp [cOff]
      have ha : 0 < (k : Int) → ($e).getD ((k : Int) - 1).toNat 0 = cOff $e k := by
        intro hpos
        have : ((k : Int) - 1).toNat = k - 1 := by omega
        have hk0 : k ≠ 0 := by omega
        simp [cOff, this, hk0]
      have ha0 : ¬ 0 < (k : Int) → cOff $e k = 0 := by
        intro hpos
        have hk0 : k = 0 := by omega
        simp [cOff, hk0]
      have hmk : Go.makeSlice (((cOff $e (k + 1) : Nat) : Int) - ((cOff $e k : Nat) : Int)) (0 : Int) =
          .ok (List.replicate (cOff $e (k + 1) - cOff $e k) 0) := by
        rw [makeSlice_nonneg _ _ (by omega)]; congr 2; omega
      have hP : ∀ s : List Int × Int, (0 ≤ s.2 ∧ s.1.length = cOff $e (k + 1) - cOff $e k) →
          decide (s.2 < ((cOff $e (k + 1) - cOff $e k : Nat) : Int)) = true →
          (0 ≤ (copyStep $rs (cOff $e k) s).2 ∧ (copyStep $rs (cOff $e k) s).1.length = cOff $e (k + 1) - cOff $e k) := by
        intro s hs _; simp [copyStep, hs.2]; omega
      have hloop := fun h' cond body hc hb => whileM_pure cond body
        (fun s : List Int × Int => decide (s.2 < ((cOff $e (k + 1) - cOff $e k : Nat) : Int))) (copyStep $rs (cOff $e k))
        (fun s => 0 ≤ s.2 ∧ s.1.length = cOff $e (k + 1) - cOff $e k) h' hc hb hP (($rs).length + 1)
        (List.replicate (cOff $e (k + 1) - cOff $e k) 0, 0) ⟨by omega, by simp⟩
      have hit := copy_iter $rs (cOff $e k) (cOff $e (k + 1) - cOff $e k) (by omega) (cOff $e (k + 1) - cOff $e k) 0
        (List.replicate (cOff $e (k + 1) - cOff $e k) 0) (($rs).length + 1) (by omega) (by simp) (by omega)
      simp only [Int.toNat_natCast] at hB
      rw [hb] at hB
      have hnv1 : ¬ (k : Int) < 0 := by omega
      have hnv2 : ¬ ($e).length ≤ k := by omega
      have hcond : ∀ s : List Int × Int, (s.2 < ((cOff $e (k + 1) : Nat) : Int) - ((cOff $e k : Nat) : Int)) ↔
          s.2 < ((cOff $e (k + 1) - cOff $e k : Nat) : Int) := by intro s; omega
      by_cases hpos : 0 < (k : Int)
      · have hA' := hA hpos
        rw [ha hpos] at hA'
        have hposn : 0 < k := by omega
        gem_run [$ts,*, hB, hA', hpos, hposn, hmk, hspan]
        rw [hloop]
        · simp at hit
          simp [hit, sliceRunes, prep_mk, hnv1, hnv2]
        · intro s hs
          gem_run [$ts,*, hcond s]
        · intro s hs hcs
          have hlt' : s.2 < ((cOff $e (k + 1) - cOff $e k : Nat) : Int) := by simpa using hcs
          have h1 := idx_getD $rs (((cOff $e k : Nat) : Int) + s.2) (by omega) (by omega)
          have h2 := fun v => sliceSet_ok s.1 s.2 v hs.1 (by omega)
          gem_run [$ts,*, h1, h2, copyStep]
      · have hk0 : k = 0 := by omega
        have hposn : ¬ 0 < k := by omega
        rw [ha0 hpos] at hloop hit hmk hP hcond
        simp only [Nat.sub_zero, Int.sub_zero, Int.natCast_zero] at hloop hit hmk hP hcond
        gem_run [$ts,*, hB, hpos, hposn, hmk, hspan, ha0 hpos]
        rw [hloop]
        · simp at hit
          simp [hit, sliceRunes, prep_mk, hnv1, hnv2]
        · intro s hs
          gem_run [$ts,*, hcond s]
        · intro s hs hcs
          have hlt' : s.2 < ((cOff $e (k + 1) : Nat) : Int) := by simpa using hcs
          have h1 := idx_getD $rs s.2 (by omega) (by omega)
          have h2 := fun v => sliceSet_ok s.1 s.2 v hs.1 (by omega)
          gem_run [$ts,*, h1, h2, copyStep]
    · have hB := idx_error (($e).map Int.ofNat) $idx (.inr (by simpa using hge))
      have hA : 0 < $idx → (($e).length : Int) ≤ $idx - 1 → Go.idx (($e).map Int.ofNat) ($idx - 1) = .error .index :=
        fun _ h2 => idx_error _ _ (.inr (by simpa using h2))
      have hA' : 0 < $idx → $idx - 1 < (($e).length : Int) → Go.idx (($e).map Int.ofNat) ($idx - 1) = .ok ((($e).getD ($idx - 1).toNat 0 : Nat) : Int) :=
        fun h1 h2 => idx_map_ok $e ($idx - 1) (by omega) h2
      have hc : ¬ $idx < 0 := by omega
      by_cases hpos : 0 < $idx
      · rcases Int.lt_or_le ($idx - 1) ($e).length with h2 | h2
        · gem_run [$ts,*, hB, hA' hpos h2, hpos, hge, hc]
        · gem_run [$ts,*, hB, hA hpos h2, hpos, hge, hc]
      · gem_run [$ts,*, hB, hpos, hge, hc]))

theorem gemCharAt_regenerated (hx : Gen.GemCode.gemCharAt_extracted = true) (s : GStr) (idx : Int) (h : Heap)
    (hv : GemOK h s) : Gen.GemCode.gemCharAt s idx h = H.charAt s idx h := by
  first
    | exact absurd hx (by decide)
    | (unfold Gen.GemCode.gemCharAt
       simp only [gemInitialized_regenerated (by decide), gemSplit_regenerated (by decide)]
       unfold H.charAt H.initialized H.ensure
       rcases s with ⟨rs, _ | c⟩
       · charAt_tail rs (splitRunes rs) idx (part_splitRunes rs) [prep_nil]
       · have hc := hv.1 c rfl
         cases hg : h.get c with
         | none => charAt_tail rs (splitRunes rs) idx (part_splitRunes rs) [hg, get_set_self _ _ _ hc]
         | some e => charAt_tail rs e idx (hv.2 c e rfl hg) [hg])


/-- `GraphemeIndexes()` of a String whose cached ends are `e`: for every cluster the pair `[start, end)` -/
def gemSpans (prev : Nat) : List Nat → List (Option (List Int))
  | [] => []
  | x :: xs => some [(prev : Int), (x : Int)] :: gemSpans x xs

/-- the loop of `GraphemeIndexes`, restated -/
def spanStep (k : Nat) (x : Int) (s : List (Option (List Int)) × Int) : List (Option (List Int)) × Int :=
  (s.1.set k (some [s.2, x]), x)

theorem spanStep_fold : ∀ (xs : List Nat) (done : List (Option (List Int))) (prev : Nat),
    (rangeFold spanStep done.length (xs.map Int.ofNat) (done ++ List.replicate xs.length none, (prev : Int))).1 =
      done ++ gemSpans prev xs := by
  intro xs
  induction xs with
  | nil => intro done prev; simp [rangeFold, gemSpans]
  | cons x xs ih =>
    intro done prev
    have := ih (done ++ [some [(prev : Int), (x : Int)]]) x
    simp only [List.length_append, List.length_cons, List.length_nil, Nat.zero_add, List.append_assoc, List.cons_append, List.nil_append] at this
    simp only [List.map_cons, rangeFold, spanStep, List.length_cons, List.replicate_succ, gemSpans]
    rw [List.set_append_right _ _ (Nat.le_refl _)]
    simp only [Nat.sub_self, List.set_cons_zero]
    simp only [Int.ofNat_eq_natCast]
    rw [this]

theorem gemGraphemeIndexes_regenerated (hx : Gen.GemCode.gemGraphemeIndexes_extracted = true) (s : GStr) (h : Heap)
    (hv : CellAlloc h s) : Gen.GemCode.gemGraphemeIndexes s h = okM (H.graphemeIndexes s) (gemSpans 0) h := by
  first
    | exact absurd hx (by decide)
    | (unfold Gen.GemCode.gemGraphemeIndexes
       simp only [gemInitialized_regenerated (by decide), gemSplit_regenerated (by decide)]
       unfold H.graphemeIndexes H.initialized H.ensure
       have hloop : ∀ (e : List Nat) (h' : Heap) body,
           (∀ (k : Nat) (x : Int) (s : List (Option (List Int)) × Int), (e.map Int.ofNat)[k]? = some x → s.1.length = e.length →
             body (k : Int) x s h' = (h', .ok (spanStep k x s), [])) →
           forRangeM (e.map Int.ofNat) body (List.replicate e.length none, 0) h' =
             (h', .ok (gemSpans 0 e, (rangeFold spanStep 0 (e.map Int.ofNat) (List.replicate e.length none, 0)).2), []) := by
         intro e h' body hb
         rw [forRangeM_inv body spanStep (fun _ s => s.1.length = e.length) (e.map Int.ofNat) h'
           (fun k x s hk hs => ⟨hb k x s hk hs, by simp [spanStep, hs]⟩) _ (by simp)]
         have := spanStep_fold e [] 0
         simp at this
         rw [← this]
       have hbody : ∀ (e : List Nat) (k : Nat) (x : Int) (s : List (Option (List Int)) × Int),
           (e.map Int.ofNat)[k]? = some x → s.1.length = e.length →
           Go.idx (e.map Int.ofNat) k = .ok x ∧ k < s.1.length := by
         intro e k x s hk hs
         have hlt : k < e.length := by
           have := (List.getElem?_eq_some_iff.mp hk).1; simpa using this
         exact ⟨idx_of_getElem? hk, by omega⟩
       rcases s with ⟨rs, _ | c⟩
       · gem_run
         rw [hloop]
         all_goals first
           | (intro k x s hk hs
              obtain ⟨h1, h2⟩ := hbody _ k x s hk hs
              gem_run [h1, h2, spanStep, osliceSet, Go.sliceSet])
           | simp [prep_mk]
       · have hc := hv c rfl
         cases hg : h.get c with
         | none =>
           gem_run [hg, get_set_self _ _ _ hc]
           rw [hloop]
           all_goals first
             | (intro k x s hk hs
                obtain ⟨h1, h2⟩ := hbody _ k x s hk hs
                gem_run [h1, h2, spanStep, osliceSet, Go.sliceSet])
             | simp [prep_mk]
         | some e =>
           gem_run [hg]
           rw [hloop]
           all_goals first
             | (intro k x s hk hs
                obtain ⟨h1, h2⟩ := hbody _ k x s hk hs
                gem_run [h1, h2, spanStep, osliceSet, Go.sliceSet])
             | simp [prep_mk])

end RosedVerif.GenCodeEq
