/-
Regenerated-code equality theorems for package internal/gem (pointer level): module `Gem`.
For every function of internal/gem/string.go, gem.go that harness/goheap.go translates into
Gen/GemCode.lean: the generated definition, run on any heap, yields the heap, the result AND the write
events of the hand-written layer-H function (Heap/Model.lean) the theorems of C19/C20 are about.
-/
import RosedVerif.Model.GenEq.GemCore
set_option linter.unusedVariables false
set_option linter.unusedSectionVars false
set_option linter.unusedSimpArgs false
namespace RosedVerif.GenCodeEq
open RosedVerif RosedVerif.H RosedVerif.HGo

theorem gemInitialized_regenerated (hx : Gen.GemCode.gemInitialized_extracted = true) (s : GStr) :
    Gen.GemCode.gemInitialized s = okM (H.initialized s) id := by
  first
    | exact absurd hx (by decide)
    | (funext h
       unfold Gen.GemCode.gemInitialized okM H.initialized
       cases hc : s.cell <;> gem_run)

theorem gemNew_regenerated (hx : Gen.GemCode.gemNew_extracted = true) (rs : List Int) :
    Gen.GemCode.gemNew rs = okM (H.new rs) id := by
  first
    | exact absurd hx (by decide)
    | (funext h
       unfold Gen.GemCode.gemNew okM H.new
       gem_run)

theorem gemClone_regenerated (hx : Gen.GemCode.gemClone_extracted = true) (s : GStr) :
    Gen.GemCode.gemClone s = okM (H.clone s) id := by
  first
    | exact absurd hx (by decide)
    | (funext h
       unfold Gen.GemCode.gemClone
       simp only [gemInitialized_regenerated (by decide)]
       unfold H.clone H.initialized
       rcases s with ⟨rs, _ | c⟩
       · gem_run
       · cases hg : h.get c with
         | none => gem_run [hg]
         | some e => gem_run [hg, get_append_lt _ _ _ (get_lt hg)])

theorem gemRunes_regenerated (hx : Gen.GemCode.gemRunes_extracted = true) (s : GStr) :
    Gen.GemCode.gemRunes s = okM (H.runes s) id := by
  first
    | exact absurd hx (by decide)
    | (funext h
       unfold Gen.GemCode.gemRunes
       simp only [gemInitialized_regenerated (by decide)]
       unfold H.runes
       gem_run)

/-- `String()`: the runes of the initialized copy (layer H has no separate function for it) -/
theorem gemString_regenerated (hx : Gen.GemCode.gemString_extracted = true) (s : GStr) :
    Gen.GemCode.gemString s = okM (H.runes s) id := by
  first
    | exact absurd hx (by decide)
    | (funext h
       unfold Gen.GemCode.gemString
       simp only [gemInitialized_regenerated (by decide)]
       unfold H.runes
       gem_run)

/-- `IsEmpty()`: emptiness of the runes of the initialized copy -/
theorem gemIsEmpty_regenerated (hx : Gen.GemCode.gemIsEmpty_extracted = true) (s : GStr) :
    Gen.GemCode.gemIsEmpty s = okM (H.runes s) List.isEmpty := by
  first
    | exact absurd hx (by decide)
    | (funext h
       unfold Gen.GemCode.gemIsEmpty
       simp only [gemInitialized_regenerated (by decide)]
       unfold H.runes
       gem_run
       cases (initialized s h).2.1.runes <;> simp)

theorem clone_cell (s : GStr) (h : Heap) : (clone s h).2.1.cell = some (initialized s h).1.cells.length := by
  unfold clone; rfl

theorem initialized_cell (s : GStr) (h : Heap) : ∃ c, (initialized s h).2.1.cell = some c := by
  unfold initialized; cases hc : s.cell <;> simp [Heap.alloc, hc]

theorem gemAdd_regenerated (hx : Gen.GemCode.gemAdd_extracted = true) (s t : GStr) :
    Gen.GemCode.gemAdd s t = okM (H.add s t) id := by
  first
    | exact absurd hx (by decide)
    | (funext h
       unfold Gen.GemCode.gemAdd
       simp only [gemInitialized_regenerated (by decide), gemClone_regenerated (by decide), gemRunes_regenerated (by decide)]
       unfold H.add
       gem_run [clone_cell])

end RosedVerif.GenCodeEq
