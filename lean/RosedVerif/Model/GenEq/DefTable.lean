/-
Regenerated-code equality theorems (see Model/GenCodeEq.lean for the overview): module `DefTable` —
Editor.InsertDefinitionsTableOpts, Editor.InsertDefinitionsTable.
-/
import RosedVerif.Model.GenEq.Core
import RosedVerif.Model.GenEq.ColumnsCore
import RosedVerif.Model.GenEq.Options
import RosedVerif.Model.GenEq.Block
import RosedVerif.Model.GenEq.BlockOps
import RosedVerif.Model.GenEq.Wrap
import RosedVerif.Model.GenEq.Combine
import RosedVerif.Model.GenEq.Edit
import RosedVerif.Model.InstAFacts
set_option linter.unusedVariables false
set_option linter.unusedSectionVars false
set_option linter.unusedSimpArgs false
namespace RosedVerif.GenCodeEq
open RosedVerif

variable {α : Type} [DecidableEq α] (cx : Ctx α)

/-- the loop body of the hand model's `insertDefTableOpts`, in bind form -/
def defStep (o : Options α) (longest rightWidth : Int) (full : List (List α)) (item : List α × List α) :
    R (List (List α)) :=
  (if (gLen cx item.1 : Int) < longest then repeatStr [cx.sp] (longest - (gLen cx item.1 : Int)) else pure []) >>= fun pad =>
  wrapLines cx item.2 (rightWidth - 2) o.lineSep >>= fun rc =>
  combineColumns cx [[cx.sp, cx.sp] ++ item.1 ++ pad]
    ((List.range (if rc.isEmpty then [[]] else rc).length).map fun i =>
      (if i == 0 then [cx.hy, cx.sp] else [cx.sp, cx.sp]) ++ (if rc.isEmpty then [[]] else rc).getD i []) 2 >>= fun combined =>
  match full.isEmpty, combined with
  | false, c0 :: crest =>
    pure (full.set (full.length - 1) (full.getD (full.length - 1) [] ++ o.paraSep ++ c0) ++ crest)
  | _, _ => pure (full ++ combined)

theorem insertDefTableOpts_eq (ed : Editor α) (pos : Int) (defs : List (List α × List α)) (width : Int) (o : Options α) :
    ed.insertDefTableOptsCore cx pos defs width o =
      (defs.foldlM (defStep cx (o.withDefaults cx)
          (defs.foldl (fun m d => if (gLen cx d.1 : Int) > m then (gLen cx d.1 : Int) else m) (-1))
          (width - (defs.foldl (fun m d => if (gLen cx d.1 : Int) > m then (gLen cx d.1 : Int) else m) (-1) + 2) - 2)) [] >>=
        fun full =>
         if !full.isEmpty then
           ed.insert cx pos (Block.mk full (o.withDefaults cx).lineSep (!(o.withDefaults cx).noTrailing)).join
         else pure ed) := by
  unfold Editor.insertDefTableOptsCore
  simp only []
  congr 2
  funext full item
  unfold defStep
  split
  · rfl
  · simp only [pure_bind]; rfl

theorem repeatStr_two (s : List α) : repeatStr s 2 = pure (s ++ s) := by
  simp [repeatStr, List.replicate]

theorem flatten_map_singleton_list {β γ : Type} (F : β → List γ) (G : β → γ) (l : List β) (h : ∀ i, F i = [G i]) :
    (l.map F).flatten = l.map G := by
  induction l with
  | nil => rfl
  | cons x xs ih => simp [h, ih]

theorem flatten_map_range {γ : Type} (F : Nat → List γ) (G : Nat → γ) (n n' : Nat) (h : ∀ i, F i = [G i]) (hn : n = n') :
    ((List.range n).map F).flatten = (List.range n').map G := by
  subst hn
  exact flatten_map_singleton_list F G _ h

theorem block_line_last (ls sep : List _) (tr : Bool) (hb : ls ≠ []) :
    (Block.mk (α := α) ls sep tr).line ((ls.length : Int) - 1) = pure (ls.getD (ls.length - 1) []) := by
  have : 0 < ls.length := List.length_pos_iff.mpr hb
  unfold Block.line
  rw [if_neg (by simp only []; omega)]
  congr 2
  omega

theorem block_set_last (ls sep : List _) (tr : Bool) (v : List α) (hb : ls ≠ []) :
    (Block.mk (α := α) ls sep tr).set ((ls.length : Int) - 1) v = pure ⟨ls.set (ls.length - 1) v, sep, tr⟩ := by
  have : 0 < ls.length := List.length_pos_iff.mpr hb
  unfold Block.set
  rw [if_neg (by simp only []; omega)]
  congr 3
  omega

theorem block_line_zero (ls sep : List _) (tr : Bool) (hb : ls ≠ []) :
    (Block.mk (α := α) ls sep tr).line 0 = pure (ls.getD 0 []) := by
  have : 0 < ls.length := List.length_pos_iff.mpr hb
  unfold Block.line
  rw [if_neg (by simp only []; omega)]
  rfl

/-- needs `cx.WF` for `Editor.Insert` (as `editorInsert_regenerated`) -/
theorem editorInsertDefinitionsTableOpts_regenerated (h : Gen.Code.editorInsertDefinitionsTableOpts_extracted = true)
    (hwf : cx.WF) (ed : Editor α) (pos : Int) (defs : List (List α × List α)) (width : Int) (o : Options α) :
    Gen.Code.editorInsertDefinitionsTableOpts cx ed pos defs width o = ed.insertDefTableOpts cx pos defs width o := by
  first
    | exact absurd h (by decide)
    | (unfold Editor.insertDefTableOpts
       rw [insertDefTableOpts_eq]
       unfold Gen.Code.editorInsertDefinitionsTableOpts
       simp only [optionsWithDefaults_regenerated cx (by decide), wrap_regenerated cx (by decide),
         blockLen_regenerated cx (by decide), blockLine_regenerated cx (by decide), blockSet_regenerated cx (by decide),
         blockAppend_regenerated cx (by decide), blockApply_regenerated cx (by decide), blockRemove_regenerated cx (by decide),
         blockAppendBlock_regenerated cx (by decide), combineColumnBlocks_regenerated cx (by decide),
         blockJoin_regenerated cx (by decide), editorInsert_regenerated cx (by decide) hwf]
       go_norm
       simp only [ite_pure, pure_bind, map_eq_pure_bind, bind_assoc, bind_pure, repeatStr_two, List.mapM_pure]
       generalize (if width < 0 then (0 : Int) else width) = width
       -- the longest term
       have hL : ∀ f : Int → List α × List α → Int,
           (∀ m d, f m d = if (gLen cx d.1 : Int) > m then (gLen cx d.1 : Int) else m) →
           List.foldl f (-1) defs = List.foldl (fun m d => if (gLen cx d.1 : Int) > m then (gLen cx d.1 : Int) else m) (-1) defs :=
         fun f hf => by rw [show f = _ from funext fun m => funext fun d => hf m d]
       simp only [forRangeM_foldlM, foldlM_pure, pure_bind]
       rw [hL]
       rotate_left
       · intro m d; num_close
       generalize List.foldl (fun m d => if (gLen cx d.1 : Int) > m then (gLen cx d.1 : Int) else m) (-1) defs = L
       generalize Options.withDefaults cx o = od
       refine Eq.trans (foldlM_state_congr (fun ls => ({ lines := ls, sep := od.lineSep, trailing := !od.noTrailing } : Block α))
         _ (defStep cx od L (width - (L + 2) - 2)) ?step defs [] _) ?fin
       case fin =>
         refine bind_congr (m := R) fun full => ?_
         go_close
       case step =>
         intro full item
         unfold defStep
         simp only [bind_assoc, pure_bind, apply_ite Block.lines, Block.append, List.nil_append, List.cons_append,
           List.append_assoc]
         refine bind_congr2 ?_ fun pad => ?_
         · num_close
         · refine bind_congr2 ?_ fun rc => ?_
           · (congr 1) <;> omega
           · refine bind_congr2 ?_ fun c => ?_
             · congr 1
               apply flatten_map_range
               · intro i; num_close
               · num_close
             · have hfe : full = [] ∨ (full ≠ [] ∧ full.isEmpty = false) := by cases full <;> simp
               rcases c with _ | ⟨c0, crest⟩ <;> rcases hfe with hf | ⟨hf, hfe⟩ <;>
                 simp [*, block_line_last, block_set_last, block_line_zero, List.isEmpty_iff]
               all_goals (split <;> simp_all))

theorem editorInsertDefinitionsTable_regenerated (h : Gen.Code.editorInsertDefinitionsTable_extracted = true)
    (hwf : cx.WF) (ed : Editor α) (pos : Int) (defs : List (List α × List α)) (width : Int) :
    Gen.Code.editorInsertDefinitionsTable cx ed pos defs width = ed.insertDefTableOpts cx pos defs width ed.opts := by
  first
    | exact absurd h (by decide)
    | (unfold Gen.Code.editorInsertDefinitionsTable
       simp only [editorInsertDefinitionsTableOpts_regenerated cx (by decide) hwf, bind_pure])

theorem editorInsertDefinitionsTableOpts_cxA (h : Gen.Code.editorInsertDefinitionsTableOpts_extracted = true)
    (ed : Editor Int) (pos : Int) (defs : List (List Int × List Int)) (width : Int) (o : Options Int) :
    Gen.Code.editorInsertDefinitionsTableOpts cxA ed pos defs width o = ed.insertDefTableOpts cxA pos defs width o :=
  editorInsertDefinitionsTableOpts_regenerated cxA h cxA_WF ed pos defs width o

theorem editorInsertDefinitionsTable_cxA (h : Gen.Code.editorInsertDefinitionsTable_extracted = true)
    (ed : Editor Int) (pos : Int) (defs : List (List Int × List Int)) (width : Int) :
    Gen.Code.editorInsertDefinitionsTable cxA ed pos defs width = ed.insertDefTableOpts cxA pos defs width ed.opts :=
  editorInsertDefinitionsTable_regenerated cxA h cxA_WF ed pos defs width

end RosedVerif.GenCodeEq
