/-
Regenerated-code equality theorems (see Model/GenCodeEq.lean for the overview): module `Align`.
-/
import RosedVerif.Model.GenEq.Core
set_option linter.unusedVariables false
set_option linter.unusedSectionVars false
set_option linter.unusedSimpArgs false
namespace RosedVerif.GenCodeEq
open RosedVerif

variable {α : Type} [DecidableEq α] (cx : Ctx α)

theorem countLeadingWhitespace_regenerated (h : Gen.Code.countLeadingWhitespace_extracted = true) (text : List α) :
    Gen.Code.countLeadingWhitespace cx text = pure (countLeadingWs cx text) := by
  first
    | exact absurd h (by decide)
    | (unfold Gen.Code.countLeadingWhitespace countLeadingWs
       go_norm
       split <;> simp_all)

theorem countTrailingWhitespace_regenerated (h : Gen.Code.countTrailingWhitespace_extracted = true) (text : List α) :
    Gen.Code.countTrailingWhitespace cx text = pure (countTrailingWs cx text) := by
  first
    | exact absurd h (by decide)
    | (unfold Gen.Code.countTrailingWhitespace countTrailingWs
       go_norm)

theorem alignLineLeft_regenerated (h : Gen.Code.alignLineLeft_extracted = true) (text : List α) (width : Int) :
    Gen.Code.alignLineLeft cx text width = pure (alignLeft cx text width) := by
  first
    | exact absurd h (by decide)
    | (unfold Gen.Code.alignLineLeft alignLeft alignLeftCore
       rw [countLeadingWhitespace_regenerated cx (by decide)]
       go_norm
       repeat' split
       all_goals (first | rfl | (simp_all; done) | grind))

theorem alignLineRight_regenerated (h : Gen.Code.alignLineRight_extracted = true) (text : List α) (width : Int) :
    Gen.Code.alignLineRight cx text width = pure (alignRight cx text width) := by
  first
    | exact absurd h (by decide)
    | (unfold Gen.Code.alignLineRight alignRight alignRightCore
       rw [countTrailingWhitespace_regenerated cx (by decide)]
       go_norm
       go_close)

theorem alignLineCenter_regenerated (h : Gen.Code.alignLineCenter_extracted = true) (text : List α) (width : Int) :
    Gen.Code.alignLineCenter cx text width = pure (alignCenter cx text width) := by
  first
    | exact absurd h (by decide)
    | (unfold Gen.Code.alignLineCenter alignCenter alignCenterCore
       rw [countLeadingWhitespace_regenerated cx (by decide), countTrailingWhitespace_regenerated cx (by decide)]
       go_norm
       go_close)

end RosedVerif.GenCodeEq
