/-
Regenerated-code equality theorems (see Model/GenCodeEq.lean for the overview): module `BlockOps` —
tb.Block.AppendBlock, tb.Block.Remove.
-/
import RosedVerif.Model.GenEq.Core
import RosedVerif.Model.GenEq.Block
import RosedVerif.Model.GenEq.Combine
set_option linter.unusedVariables false
set_option linter.unusedSectionVars false
set_option linter.unusedSimpArgs false
namespace RosedVerif.GenCodeEq
open RosedVerif

variable {α : Type} [DecidableEq α] (cx : Ctx α)

theorem foldl_block_append (l : List (List α)) : ∀ (b : Block α),
    l.foldl (fun (s : Block α) x => s.append x) b = { b with lines := b.lines ++ l } := by
  induction l with
  | nil => intro b; simp
  | cons x xs ih => intro b; rw [List.foldl_cons, ih]; simp [Block.append, List.append_assoc]

theorem blockAppendBlock_regenerated (h : Gen.Code.blockAppendBlock_extracted = true) (tb b : Block α) :
    Gen.Code.blockAppendBlock cx tb b = pure { tb with lines := tb.lines ++ b.lines } := by
  first
    | exact absurd h (by decide)
    | (unfold Gen.Code.blockAppendBlock
       simp only [blockLen_regenerated cx (by decide), blockLine_regenerated cx (by decide),
         blockAppend_regenerated cx (by decide)]
       go_norm
       rw [while_count2_zero ((b.lines.length : Nat) : Int) (fun (s : Block α) k => s.append (b.lines.getD k []))
         _ _ (fun s k => rfl)
         (fun s k hk => by simp only [block_line_nat b k (by omega), pure_bind])
         _ _ (by omega)]
       have := foldl_range_getD (fun (s : Block α) x => s.append x) ([] : List α) b.lines [] tb
       simp only [List.length_nil, List.nil_append, ← List.range_eq_range'] at this
       simp only [Int.toNat_natCast, this, foldl_block_append, pure_bind])

theorem blockRemove_regenerated (h : Gen.Code.blockRemove_extracted = true) (b : Block α) (pos : Int) :
    Gen.Code.blockRemove cx b pos =
      pure (if 0 ≤ pos ∧ pos.toNat < b.lines.length then { b with lines := b.lines.eraseIdx pos.toNat } else b) := by
  first
    | exact absurd h (by decide)
    | (unfold Gen.Code.blockRemove Go.sliceTo Go.sliceFrom
       go_norm
       -- the guard is decided on both sides in every polarity (`pos >= 0 && len > pos`, `pos < 0 || len <= pos`, nested)
       by_cases hp : 0 ≤ pos ∧ pos.toNat < b.lines.length
       · have e1 : (pos + 1).toNat = pos.toNat + 1 := by omega
         have g1 : 0 ≤ pos := by omega
         have g2 : pos < (b.lines.length : Int) := by omega
         have g3 : ¬ pos < 0 := by omega
         have g4 : ¬ (b.lines.length : Int) ≤ pos := by omega
         have c2 : pos.toNat ≤ b.lines.length := by omega
         have c3 : 0 ≤ pos + 1 ∧ (pos + 1).toNat ≤ b.lines.length := by omega
         have c4 : pos.toNat + 1 ≤ b.lines.length := by omega
         go_guards [hp, g1, g2, g3, g4, c2, c3, c4, and_self, e1, List.eraseIdx_eq_take_drop_succ]
       · rcases (by omega : pos < 0 ∨ (0 ≤ pos ∧ (b.lines.length : Int) ≤ pos)) with g1 | ⟨g1, g2⟩
         · have g3 : ¬ 0 ≤ pos := by omega
           go_guards [hp, g1, g3]
         · have g3 : ¬ pos < 0 := by omega
           have g4 : ¬ pos < (b.lines.length : Int) := by omega
           have g5 : ¬ pos.toNat < b.lines.length := by omega
           go_guards [hp, g1, g2, g3, g4, g5])

end RosedVerif.GenCodeEq
