/-
Regenerated-code equality theorems (see Model/GenCodeEq.lean for the overview): module `ApplyLines` — lemmas shared by
`AlignOpts` and `JustifyOpts`: a `Block.Apply` whose callback maps every line to exactly one line.
-/
import RosedVerif.Model.GenEq.Core
set_option linter.unusedVariables false
set_option linter.unusedSectionVars false
set_option linter.unusedSimpArgs false
namespace RosedVerif.GenCodeEq
open RosedVerif

variable {α : Type} [DecidableEq α] (cx : Ctx α)

/-- close `m = m'` for two monadic programs with the same skeleton: go under equal leading computations
(`bind_congr`), re-associate, case-split every `if`/`match` on either side as soon as its condition is closed, and
finish the leaves with `rfl` / `omega` (contradictory branch conditions) / `simp_all` / `grind` -/
syntax "go_deep" : tactic
macro_rules
  | `(tactic| go_deep) => `(tactic|
      first
        | rfl
        | omega
        | (refine bind_congr (m := R) fun _ => ?_; go_deep)
        | (simp only [bind_assoc, pure_bind]; go_deep)
        | (split <;> go_deep)
        | (simp_all; done)
        | grind [List.isEmpty_iff])

theorem flatten_map_singleton {β : Type} (ys : List β) : (ys.map fun y => [y]).flatten = ys := by
  induction ys with
  | nil => rfl
  | cons y ys ih => simp [ih]

/-- a monadic map whose function returns one-element lists (a `Block.Apply` callback that maps every line to one
line), followed by a continuation: the map of the elements -/
theorem mapM_singletons_bind_congr {β γ : Type} (l : List Nat) (F : Nat → R (List β)) (G : Nat → R β)
    (k : List (List β) → R γ) (k' : List β → R γ)
    (hFG : ∀ i, i ∈ l → F i = G i >>= fun y => pure [y]) (hk : ∀ ys, k (ys.map fun y => [y]) = k' ys) :
    l.mapM F >>= k = l.mapM G >>= k' := by
  have hm : ∀ (l : List Nat), (∀ i, i ∈ l → F i = G i >>= fun y => pure [y]) →
      l.mapM F = l.mapM G >>= fun ys => pure (ys.map fun y => [y]) := by
    intro l
    induction l with
    | nil => intro _; simp
    | cons a l ih =>
      intro hl
      simp only [List.mapM_cons, hl a (by simp), ih (fun i hi => hl i (by simp [hi])), bind_assoc, pure_bind, List.map_cons]
  rw [hm l hFG]
  simp only [bind_assoc, pure_bind, hk]

theorem ite_congr_left {γ : Type} {c1 c2 : Prop} [Decidable c1] [Decidable c2] {a x y : γ} (hc : c1 ↔ c2)
    (hxy : ¬ c1 → x = y) : (if c1 then a else x) = (if c2 then a else y) := by
  by_cases h1 : c1
  · rw [if_pos h1, if_pos (hc.mp h1)]
  · rw [if_neg h1, if_neg (fun h2 => h1 (hc.mpr h2)), hxy h1]

/-- Go evaluates `bl.Line(0)` twice where the model binds it once: the monad is deterministic -/
theorem bind_dup {β γ : Type} (m : R β) (k : β → β → R γ) : (m >>= fun a => m >>= fun b => k a b) = m >>= fun a => k a a := by
  cases m <;> rfl

theorem mapM_pure_R {β : Type} (f : Nat → β) (l : List Nat) :
    l.mapM (fun i => (pure (f i) : R β)) = pure (l.map f) := by
  induction l with
  | nil => rfl
  | cons a l ih => simp [List.mapM_cons, ih]

theorem flatten_map_singleton_fun {β : Type} (f : Nat → β) (l : List Nat) : (l.map fun i => [f i]).flatten = l.map f := by
  induction l with
  | nil => rfl
  | cons a l ih => simp [ih]

end RosedVerif.GenCodeEq
