/-
Regenerated-code equality theorems (see Model/GenCodeEq.lean for the overview): module `Core` — shared by all GenEq modules: the normalisation/closing tactics and the generic loop lemmas.
-/
import RosedVerif.Gen.Code
import RosedVerif.Model.PosLemmas
import RosedVerif.Model.OptionsLemmas
import RosedVerif.Model.StringsLemmas
import RosedVerif.Model.LinesLemmas
set_option linter.unusedVariables false
set_option linter.unusedSectionVars false
set_option linter.unusedSimpArgs false
namespace RosedVerif.GenCodeEq
open RosedVerif

variable {α : Type} [DecidableEq α] (cx : Ctx α)

theorem natCast_le_zero {β : Type} (l : List β) : ((l.length : Int) ≤ 0) ↔ l = [] := by
  cases l <;> simp <;> omega

theorem natCast_lt_one {β : Type} (l : List β) : ((l.length : Int) < 1) ↔ l = [] := by
  cases l <;> simp <;> omega

theorem zero_lt_natCast {β : Type} (l : List β) : (0 < (l.length : Int)) ↔ l ≠ [] := by
  cases l <;> simp <;> omega

theorem natCast_eq_zero {β : Type} (l : List β) : ((l.length : Int) = 0) ↔ l = [] := by
  cases l <;> simp <;> omega

theorem one_le_natCast {β : Type} (l : List β) : (1 ≤ (l.length : Int)) ↔ l ≠ [] := by
  cases l <;> simp <;> omega

/-- normalisation of the primitive layer and of the `Except` monad -/
macro "go_norm" : tactic => `(tactic|
  try simp only [natCast_le_zero, natCast_lt_one, zero_lt_natCast, natCast_eq_zero, one_le_natCast, ge_iff_le, gt_iff_lt, List.isEmpty_iff,Go.gsLen, Go.gsSub, Go.gsAdd, Go.gsIsEmpty, Go.gsIndexFunc, Go.gsLastIndexFunc, Go.gsEqual,
    Go.gemRepeatStr, Go.stringsSplit, Go.stringsJoin, Go.stringsReplaceAll, Go.stringsHasSuffix,
    Go.stringsHasPrefix, Go.stringsCount, Go.stringsToUpper, Go.unicodeIsSpace, Go.isSpaceHead,
    Go.collapseSpaceRuns, Go.sliceLen, Go.strLen, Go.strSplice, Go.strSlice, Go.gsCharAt, Go.gsSetCharAt,
    Go.stringsRepeat, Go.edCache,
    pure_bind, bind_assoc, Bool.not_not, Bool.not_eq_true', decide_eq_true_eq,
    Bool.decide_eq_true, Bool.not_eq_true])

/-- split every `if`/`match`, then close each case -/
macro "go_close" : tactic => `(tactic|
  ((repeat' split) <;> (first | rfl | (simp_all; done) | grind [List.isEmpty_iff])))

theorem ite_pure {γ : Type} (c : Prop) [Decidable c] (a b : γ) :
    (if c then (pure a : R γ) else pure b) = pure (if c then a else b) := by split <;> rfl

theorem ite_pure_bind {γ δ : Type} (c : Prop) [Decidable c] (a b : γ) (f : γ → R δ) :
    ((if c then (pure a : R γ) else pure b) >>= f) = f (if c then a else b) := by split <;> rfl

theorem idx_nat {β : Type} (l : List β) (k : Nat) (hk : k < l.length) : Go.idx l (k : Int) = pure l[k] := by
  unfold Go.idx
  rw [dif_pos (by omega)]
  simp

theorem idx_last {β : Type} (l : List β) (hl : l ≠ []) : Go.idx l ((l.length : Int) - 1) = pure (l.getLast hl) := by
  have : 0 < l.length := List.length_pos_iff.mpr hl
  unfold Go.idx
  have h2 : ((l.length : Int) - 1).toNat = l.length - 1 := by omega
  rw [dif_pos (by omega)]
  simp [h2, List.getLast_eq_getElem]

theorem sliceTo_dropLast {β : Type} (l : List β) (hl : l ≠ []) : Go.sliceTo l ((l.length : Int) - 1) = pure l.dropLast := by
  have : 0 < l.length := List.length_pos_iff.mpr hl
  unfold Go.sliceTo
  have h2 : ((l.length : Int) - 1).toNat = l.length - 1 := by omega
  rw [if_pos (by omega), h2, List.dropLast_eq_take]

/-- congruence for a loop followed by a continuation: pointwise equal condition, body, continuation -/
theorem whileM_bind_congr {σ γ : Type} {fuel fuel' : Nat} {cond cond' : σ → R Bool} {body body' : σ → R σ}
    {k k' : σ → R γ} {s s' : σ} (hf : fuel = fuel') (hs : s = s')
    (hc : ∀ x, cond x = cond' x) (hb : ∀ x, body x = body' x) (hk : ∀ x, k x = k' x) :
    Go.whileM fuel cond body s >>= k = Go.whileM fuel' cond' body' s' >>= k' := by
  have h1 : cond = cond' := funext hc
  have h2 : body = body' := funext hb
  have h3 : k = k' := funext hk
  subst hf hs h1 h2 h3
  rfl

theorem idx_zero {β : Type} (l : List β) : Go.idx l 0 = (match l with | [] => throw .index | c :: _ => pure c) := by
  cases l <;> simp [Go.idx]

/-- loop congruence under an invariant of the state -/
theorem whileM_bind_congr_inv {σ γ : Type} (P : σ → Prop) {cond cond' : σ → R Bool} {body body' : σ → R σ}
    {k k' : σ → R γ}
    (hc : ∀ x, P x → cond x = cond' x) (hb : ∀ x, P x → body x = body' x) (hk : ∀ x, P x → k x = k' x)
    (hP : ∀ x y, P x → body' x = pure y → P y) :
    ∀ (fuel : Nat) (s : σ), P s → Go.whileM fuel cond body s >>= k = Go.whileM fuel cond' body' s >>= k' := by
  intro fuel
  induction fuel with
  | zero => intro s _; rfl
  | succ n ih =>
    intro s hs
    unfold Go.whileM
    rw [hc s hs, hb s hs]
    simp only [bind_assoc]
    refine bind_congr (m := R) fun c => ?_
    cases c with
    | false => simpa using hk s hs
    | true =>
      simp only [if_true, bind_assoc]
      cases hy : body' s with
      | error e => rfl
      | ok y => exact ih y (hP s y hs hy)

/-- a range loop whose body is a pure step depending on the index only -/
theorem forRange_fold {β σ : Type} (data : List β) (step : σ → Nat → σ) (body : Int → β → σ → R σ)
    (hbody : ∀ (k : Nat) (x : β) (s : σ), k < data.length → body (k : Int) x s = pure (step s k)) :
    ∀ (xs pre : List β) (s : σ), data = pre ++ xs →
      Go.forRangeAux body (pre.length : Int) xs s = pure ((List.range' pre.length xs.length).foldl step s) := by
  intro xs
  induction xs with
  | nil => intro pre s _; rfl
  | cons x xs ih =>
    intro pre s hc
    have hk : pre.length < data.length := by rw [hc]; simp
    rw [Go.forRangeAux, hbody pre.length x s hk, pure_bind]
    have := ih (pre ++ [x]) (step s pre.length) (by simp [hc])
    simp only [List.length_append, List.length_cons, List.length_nil, Nat.zero_add, Int.natCast_add, Int.cast_ofNat_Int] at this
    rw [this]
    simp [List.range'_succ]

theorem forRangeM_fold {β σ : Type} (data : List β) (step : σ → Nat → σ) (body : Int → β → σ → R σ)
    (hbody : ∀ (k : Nat) (x : β) (s : σ), k < data.length → body (k : Int) x s = pure (step s k)) (s : σ) :
    Go.forRangeM data body s = pure ((List.range data.length).foldl step s) := by
  have := forRange_fold data step body hbody data [] s rfl
  simpa [Go.forRangeM, List.range_eq_range'] using this

/-- a counting loop `for k := k0; k < N; k++ { s = step s k }` (state: s, k) -/
theorem while_count2 {σ : Type} (N : Int) (step : σ → Nat → σ) (cond : σ × Int → R Bool) (body : σ × Int → R (σ × Int))
    (hc : ∀ (s : σ) (k : Nat), cond (s, (k : Int)) = pure (decide ((k : Int) < N)))
    (hb : ∀ (s : σ) (k : Nat), (k : Int) < N → body (s, (k : Int)) = pure (step s k, (k : Int) + 1)) :
    ∀ (fuel k : Nat) (s : σ), (k : Int) ≤ max N 0 → N.toNat + 1 ≤ fuel + k →
      Go.whileM fuel cond body (s, (k : Int)) =
        pure ((List.range' k (N.toNat - k)).foldl step s, ((max N.toNat k : Nat) : Int)) := by
  intro fuel
  induction fuel with
  | zero => intro k s h1 h2; omega
  | succ f ih =>
    intro k s h1 h2
    unfold Go.whileM
    rw [hc]
    simp only [pure_bind]
    by_cases hlt : (k : Int) < N
    · simp only [hlt, decide_true, if_true, hb s k hlt, pure_bind]
      have := ih (k + 1) (step s k) (by omega) (by omega)
      simp only [Int.natCast_add, Int.cast_ofNat_Int] at this
      rw [this]
      have e : N.toNat - k = (N.toNat - (k + 1)) + 1 := by omega
      rw [e, List.range'_succ, List.foldl_cons]
      congr 2
      omega
    · have e : N.toNat - k = 0 := by omega
      simp only [hlt, decide_false, Bool.false_eq_true, if_false, e, List.range'_zero, List.foldl_nil]
      congr 2
      omega

/-- the same with a two-component state (state: a, b, k) -/
theorem while_count3 {A B : Type} (N : Int) (step : A × B → Nat → A × B) (cond : A × B × Int → R Bool)
    (body : A × B × Int → R (A × B × Int))
    (hc : ∀ (a : A) (b : B) (k : Nat), cond (a, b, (k : Int)) = pure (decide ((k : Int) < N)))
    (hb : ∀ (a : A) (b : B) (k : Nat), (k : Int) < N →
      body (a, b, (k : Int)) = pure ((step (a, b) k).1, (step (a, b) k).2, (k : Int) + 1)) :
    ∀ (fuel k : Nat) (a : A) (b : B), (k : Int) ≤ max N 0 → N.toNat + 1 ≤ fuel + k →
      Go.whileM fuel cond body (a, b, (k : Int)) =
        pure (((List.range' k (N.toNat - k)).foldl step (a, b)).1, ((List.range' k (N.toNat - k)).foldl step (a, b)).2,
          ((max N.toNat k : Nat) : Int)) := by
  intro fuel
  induction fuel with
  | zero => intro k a b h1 h2; omega
  | succ f ih =>
    intro k a b h1 h2
    unfold Go.whileM
    rw [hc]
    simp only [pure_bind]
    by_cases hlt : (k : Int) < N
    · simp only [hlt, decide_true, if_true, hb a b k hlt, pure_bind]
      have := ih (k + 1) (step (a, b) k).1 (step (a, b) k).2 (by omega) (by omega)
      simp only [Int.natCast_add, Int.cast_ofNat_Int] at this
      rw [this]
      have e : N.toNat - k = (N.toNat - (k + 1)) + 1 := by omega
      rw [e, List.range'_succ, List.foldl_cons]
      have e2 : max N.toNat (k + 1) = max N.toNat k := by omega
      rw [e2]
    · have e : N.toNat - k = 0 := by omega
      have e2 : max N.toNat k = k := by omega
      simp only [hlt, decide_false, Bool.false_eq_true, if_false, e, List.range'_zero, List.foldl_nil, e2]

theorem foldl_range_getD {β σ : Type} (f : σ → β → σ) (d : β) : ∀ (l : List β) (pre : List β) (s : σ),
    (List.range' pre.length l.length).foldl (fun s k => f s ((pre ++ l).getD k d)) s = l.foldl f s := by
  intro l
  induction l with
  | nil => intro pre s; rfl
  | cons x xs ih =>
    intro pre s
    simp only [List.length_cons, List.range'_succ, List.foldl_cons]
    have h1 : (pre ++ x :: xs).getD pre.length d = x := by simp [List.getD_eq_getElem?_getD]
    rw [h1]
    have := ih (pre ++ [x]) (f s x)
    simp only [List.length_append, List.length_cons, List.length_nil, Nat.zero_add, List.append_assoc, List.cons_append,
      List.nil_append] at this
    exact this

theorem while_count2_zero {σ : Type} (N : Int) (step : σ → Nat → σ) (cond : σ × Int → R Bool) (body : σ × Int → R (σ × Int))
    (hc : ∀ (s : σ) (k : Nat), cond (s, (k : Int)) = pure (decide ((k : Int) < N)))
    (hb : ∀ (s : σ) (k : Nat), (k : Int) < N → body (s, (k : Int)) = pure (step s k, (k : Int) + 1))
    (fuel : Nat) (s : σ) (hf : N.toNat + 1 ≤ fuel) :
    Go.whileM fuel cond body (s, 0) = pure ((List.range N.toNat).foldl step s, (N.toNat : Int)) := by
  have := while_count2 N step cond body hc hb fuel 0 s (by omega) (by omega)
  simpa [List.range_eq_range'] using this

theorem while_count3_zero {A B : Type} (N : Int) (step : A × B → Nat → A × B) (cond : A × B × Int → R Bool)
    (body : A × B × Int → R (A × B × Int))
    (hc : ∀ (a : A) (b : B) (k : Nat), cond (a, b, (k : Int)) = pure (decide ((k : Int) < N)))
    (hb : ∀ (a : A) (b : B) (k : Nat), (k : Int) < N →
      body (a, b, (k : Int)) = pure ((step (a, b) k).1, (step (a, b) k).2, (k : Int) + 1))
    (fuel : Nat) (a : A) (b : B) (hf : N.toNat + 1 ≤ fuel) :
    Go.whileM fuel cond body (a, b, 0) =
      pure (((List.range N.toNat).foldl step (a, b)).1, ((List.range N.toNat).foldl step (a, b)).2, (N.toNat : Int)) := by
  have := while_count3 N step cond body hc hb fuel 0 a b (by omega) (by omega)
  simpa [List.range_eq_range'] using this

theorem foldl_pair_snd {A B C : Type} (g : C → A) (f : B → C → B) : ∀ (l : List C) (a : A) (b : B),
    (l.foldl (fun (p : A × B) c => (g c, f p.2 c)) (a, b)).2 = l.foldl f b := by
  intro l
  induction l with
  | nil => intro a b; rfl
  | cons x xs ih => intro a b; simp only [List.foldl_cons]; exact ih _ _

/-- `forRange_fold` under an invariant of the state -/
theorem forRange_fold_inv {β σ : Type} (P : σ → Prop) (data : List β) (step : σ → Nat → σ) (body : Int → β → σ → R σ)
    (hP : ∀ (k : Nat) (s : σ), k < data.length → P s → P (step s k))
    (hbody : ∀ (k : Nat) (x : β) (s : σ), k < data.length → P s → body (k : Int) x s = pure (step s k)) :
    ∀ (xs pre : List β) (s : σ), data = pre ++ xs → P s →
      Go.forRangeAux body (pre.length : Int) xs s = pure ((List.range' pre.length xs.length).foldl step s) := by
  intro xs
  induction xs with
  | nil => intro pre s _ _; rfl
  | cons x xs ih =>
    intro pre s hc hs
    have hk : pre.length < data.length := by rw [hc]; simp
    rw [Go.forRangeAux, hbody pre.length x s hk hs, pure_bind]
    have := ih (pre ++ [x]) (step s pre.length) (by simp [hc]) (hP _ _ hk hs)
    simp only [List.length_append, List.length_cons, List.length_nil, Nat.zero_add, Int.natCast_add, Int.cast_ofNat_Int] at this
    rw [this]
    simp [List.range'_succ]

theorem forRangeM_fold_inv {β σ : Type} (P : σ → Prop) (data : List β) (step : σ → Nat → σ) (body : Int → β → σ → R σ)
    (hP : ∀ (k : Nat) (s : σ), k < data.length → P s → P (step s k))
    (hbody : ∀ (k : Nat) (x : β) (s : σ), k < data.length → P s → body (k : Int) x s = pure (step s k)) (s : σ) (hs : P s) :
    Go.forRangeM data body s = pure ((List.range data.length).foldl step s) := by
  have := forRange_fold_inv P data step body hP hbody data [] s rfl hs
  simpa [Go.forRangeM, List.range_eq_range'] using this

/-- `while_count2` under an invariant of the state -/
theorem while_count2_inv {σ : Type} (P : σ → Prop) (N : Int) (step : σ → Nat → σ) (cond : σ × Int → R Bool)
    (body : σ × Int → R (σ × Int))
    (hP : ∀ (s : σ) (k : Nat), (k : Int) < N → P s → P (step s k))
    (hc : ∀ (s : σ) (k : Nat), cond (s, (k : Int)) = pure (decide ((k : Int) < N)))
    (hb : ∀ (s : σ) (k : Nat), (k : Int) < N → P s → body (s, (k : Int)) = pure (step s k, (k : Int) + 1)) :
    ∀ (fuel k : Nat) (s : σ), P s → (k : Int) ≤ max N 0 → N.toNat + 1 ≤ fuel + k →
      Go.whileM fuel cond body (s, (k : Int)) =
        pure ((List.range' k (N.toNat - k)).foldl step s, ((max N.toNat k : Nat) : Int)) := by
  intro fuel
  induction fuel with
  | zero => intro k s _ h1 h2; omega
  | succ f ih =>
    intro k s hs h1 h2
    unfold Go.whileM
    rw [hc]
    simp only [pure_bind]
    by_cases hlt : (k : Int) < N
    · simp only [hlt, decide_true, if_true, hb s k hlt hs, pure_bind]
      have := ih (k + 1) (step s k) (hP s k hlt hs) (by omega) (by omega)
      simp only [Int.natCast_add, Int.cast_ofNat_Int] at this
      rw [this]
      have e : N.toNat - k = (N.toNat - (k + 1)) + 1 := by omega
      rw [e, List.range'_succ, List.foldl_cons]
      congr 2
      omega
    · have e : N.toNat - k = 0 := by omega
      simp only [hlt, decide_false, Bool.false_eq_true, if_false, e, List.range'_zero, List.foldl_nil]
      congr 2
      omega

theorem while_count2_inv_zero {σ : Type} (P : σ → Prop) (N : Int) (step : σ → Nat → σ) (cond : σ × Int → R Bool)
    (body : σ × Int → R (σ × Int))
    (hP : ∀ (s : σ) (k : Nat), (k : Int) < N → P s → P (step s k))
    (hc : ∀ (s : σ) (k : Nat), cond (s, (k : Int)) = pure (decide ((k : Int) < N)))
    (hb : ∀ (s : σ) (k : Nat), (k : Int) < N → P s → body (s, (k : Int)) = pure (step s k, (k : Int) + 1))
    (fuel : Nat) (s : σ) (hs : P s) (hf : N.toNat + 1 ≤ fuel) :
    Go.whileM fuel cond body (s, 0) = pure ((List.range N.toNat).foldl step s, (N.toNat : Int)) := by
  have := while_count2_inv P N step cond body hP hc hb fuel 0 s hs (by omega) (by omega)
  simpa [List.range_eq_range'] using this

/-- a fold that updates position `j` at step `j` -/
theorem foldl_set_range {β : Type} (g : Nat → β → β) (d : β) (c0 : List β) : ∀ (k : Nat),
    ((List.range k).foldl (fun c j => c.set j (g j (c.getD j d))) c0).length = c0.length ∧
    ∀ (i : Nat), ((List.range k).foldl (fun c j => c.set j (g j (c.getD j d))) c0).getD i d =
      if i < k ∧ i < c0.length then g i (c0.getD i d) else c0.getD i d := by
  intro k
  induction k with
  | zero => simp
  | succ k ih =>
    rw [List.range_succ, List.foldl_append]
    simp only [List.foldl_cons, List.foldl_nil, List.length_set]
    generalize (List.range k).foldl (fun c j => c.set j (g j (c.getD j d))) c0 = F at ih ⊢
    refine ⟨ih.1, ?_⟩
    intro i
    rw [List.getD_eq_getElem?_getD, List.getElem?_set]
    by_cases hik : k = i
    · subst hik
      rw [if_pos rfl]
      by_cases hl : k < c0.length
      · rw [if_pos (by rw [ih.1]; exact hl), Option.getD_some, ih.2 k]
        have h1 : ¬ (k < k ∧ k < c0.length) := by omega
        have h2 : (k < k + 1 ∧ k < c0.length) := by omega
        rw [if_neg h1, if_pos h2]
      · rw [if_neg (by rw [ih.1]; exact hl), Option.getD_none]
        have h2 : ¬ (k < k + 1 ∧ k < c0.length) := by omega
        rw [if_neg h2, List.getD_eq_getElem?_getD, List.getElem?_eq_none (by omega)]
        rfl
    · rw [if_neg hik, ← List.getD_eq_getElem?_getD, ih.2 i]
      by_cases hi : i < k
      · have h1 : i < k + 1 := by omega
        simp only [hi, h1]
      · have h1 : ¬ i < k + 1 := by omega
        simp only [hi, h1]

theorem getD_set_self {β : Type} (c : List β) (i : Nat) (v d : β) (h : i < c.length) : (c.set i v).getD i d = v := by
  simp [List.getD_eq_getElem?_getD, h]

/-- a fold that keeps updating one fixed position -/
theorem foldl_set_fixed {β γ : Type} (f : β → γ → β) (d : β) (col : Nat) : ∀ (l : List γ) (c : List β), col < c.length →
    l.foldl (fun c' r => c'.set col (f (c'.getD col d) r)) c = c.set col (l.foldl f (c.getD col d)) := by
  intro l
  induction l with
  | nil => intro c h; simp [List.getD_eq_getElem?_getD, h]
  | cons x xs ih =>
    intro c h
    simp only [List.foldl_cons]
    rw [ih _ (by simpa using h), getD_set_self _ _ _ _ h, List.set_set]

theorem foldl_set_range_eq_map {β : Type} (g : Nat → β → β) (d : β) (c0 : List β) :
    (List.range c0.length).foldl (fun c j => c.set j (g j (c.getD j d))) c0 =
      (List.range c0.length).map (fun j => g j (c0.getD j d)) := by
  have hh := foldl_set_range g d c0 c0.length
  apply List.ext_getElem
  · rw [hh.1]; simp
  · intro i h1 h2
    have h3 : i < c0.length := by rw [hh.1] at h1; exact h1
    have := hh.2 i
    rw [List.getD_eq_getElem?_getD, List.getElem?_eq_getElem h1, Option.getD_some] at this
    rw [this]
    simp [h3]

/-- the padding loop: position `i` is updated at step `i` and the new value is accumulated -/
theorem foldl_pair_set {β γ : Type} (g : Nat → β → β) (hacc : γ → β → γ) (d : β) (c0 : List β) (m0 : γ) : ∀ (k : Nat), k ≤ c0.length →
    (List.range k).foldl (fun (p : List β × γ) i => (p.1.set i (g i (p.1.getD i d)), hacc p.2 (g i (p.1.getD i d)))) (c0, m0) =
      ((List.range k).foldl (fun c j => c.set j (g j (c.getD j d))) c0,
       (List.range k).foldl (fun m i => hacc m (g i (c0.getD i d))) m0) := by
  intro k
  induction k with
  | zero => intro _; rfl
  | succ k ih =>
    intro hk
    rw [List.range_succ, List.foldl_append, List.foldl_append, List.foldl_append, ih (by omega)]
    simp only [List.foldl_cons, List.foldl_nil]
    have := (foldl_set_range g d c0 k).2 k
    have h1 : ¬ (k < k ∧ k < c0.length) := by omega
    rw [if_neg h1] at this
    rw [this]

/-! ### shape-independent closing steps (T5)

The lemmas and tactics below let a proof state the *semantic* loop body / condition once (over the model's
primitives) and tie the generated one to it by congruence + case analysis + linear arithmetic, so that a
behaviour-preserving rewrite of the Go source (swapped arms with a negated guard, De Morgan, an arithmetically
equal index expression, a hoisted temporary) re-proves unchanged. -/

/-- congruence of `>>=` in both arguments -/
theorem bind_congr_both {γ δ : Type} {x x' : R γ} {f f' : γ → R δ} (hx : x = x') (hf : ∀ a, f a = f' a) :
    x >>= f = x' >>= f' := by
  subst hx
  exact bind_congr hf

/-- a range loop only sees its body at the indexes of the slice -/
theorem forRangeAux_congr_idx {β σ : Type} (body body' : Int → β → σ → R σ) : ∀ (xs : List β) (k : Nat) (s : σ),
    (∀ (j : Nat) (x : β) (s : σ), k ≤ j → j < k + xs.length → body (j : Int) x s = body' (j : Int) x s) →
    Go.forRangeAux body (k : Int) xs s = Go.forRangeAux body' (k : Int) xs s := by
  intro xs
  induction xs with
  | nil => intro k s _; rfl
  | cons x xs ih =>
    intro k s h
    rw [Go.forRangeAux, Go.forRangeAux, h k x s (Nat.le_refl _) (by simp)]
    refine bind_congr (m := R) fun r => ?_
    have := ih (k + 1) r (fun j y s' h1 h2 => h j y s' (by omega) (by simp; omega))
    simpa using this

theorem forRangeM_congr {β σ : Type} (data : List β) (body body' : Int → β → σ → R σ) (s : σ)
    (h : ∀ (k : Nat) (x : β) (s : σ), k < data.length → body (k : Int) x s = body' (k : Int) x s) :
    Go.forRangeM data body s = Go.forRangeM data body' s := by
  have := forRangeAux_congr_idx body body' data 0 s (fun j x s' _ h2 => h j x s' (by simpa using h2))
  simpa [Go.forRangeM] using this

theorem forRangeCtlAux_congr {β σ ρ : Type} (body body' : Int → β → σ → R (σ × Go.Ctl ρ)) :
    ∀ (xs : List β) (k : Nat) (s : σ),
    (∀ (j : Nat) (x : β) (s : σ), k ≤ j → j < k + xs.length → body (j : Int) x s = body' (j : Int) x s) →
    Go.forRangeCtlAux body (k : Int) xs s = Go.forRangeCtlAux body' (k : Int) xs s := by
  intro xs
  induction xs with
  | nil => intro k s _; rfl
  | cons x xs ih =>
    intro k s h
    rw [Go.forRangeCtlAux, Go.forRangeCtlAux, h k x s (Nat.le_refl _) (by simp)]
    refine bind_congr (m := R) fun r => ?_
    have := ih (k + 1) r.1 (fun j y s' h1 h2 => h j y s' (by omega) (by simp; omega))
    split <;> first | rfl | simpa using this

/-! #### simulation of a `break`/`return` loop by another one over a different state

`φ` maps the state of the first loop to the state of the second one while the loops run; when a loop is left (by
`break`, `return`, or at the end of the range) only the observations `ψ` / `ψ'` have to agree.  This ties a generated
loop to a canonical one when the state tuple is permuted, or a counter is kept with an offset (incremented at the top
or at the bottom of the body), and the code after the loop reads only part of the state. -/

/-- one iteration: same outcome; states related by `φ` on `next`, observations equal on `break`/`return` -/
def ctlRel {σ σ' τ ρ : Type} (φ : σ → σ') (ψ : σ → τ) (ψ' : σ' → τ) : R (σ × Go.Ctl ρ) → R (σ' × Go.Ctl ρ) → Prop
  | .ok (r, .next), .ok (r', .next) => r' = φ r
  | .ok (r, .brk), .ok (r', .brk) => ψ' r' = ψ r
  | .ok (r, .ret v), .ok (r', .ret v') => v = v' ∧ ψ' r' = ψ r
  | .error e, .error e' => e = e'
  | _, _ => False

/-- the whole loop: same returned value, equal observations of the final state -/
def finRel {σ σ' τ ρ : Type} (ψ : σ → τ) (ψ' : σ' → τ) : R (σ × Option ρ) → R (σ' × Option ρ) → Prop
  | .ok (r, o), .ok (r', o') => o = o' ∧ ψ' r' = ψ r
  | .error e, .error e' => e = e'
  | _, _ => False

section
variable {σ σ' τ ρ : Type} (φ : σ → σ') (ψ : σ → τ) (ψ' : σ' → τ)
@[simp] theorem ctlRel_next (r : σ) (r' : σ') :
    ctlRel (ρ := ρ) φ ψ ψ' (pure (r, .next)) (pure (r', .next)) ↔ r' = φ r := Iff.rfl
@[simp] theorem ctlRel_brk (r : σ) (r' : σ') :
    ctlRel (ρ := ρ) φ ψ ψ' (pure (r, .brk)) (pure (r', .brk)) ↔ ψ' r' = ψ r := Iff.rfl
@[simp] theorem ctlRel_ret (r : σ) (r' : σ') (v v' : ρ) :
    ctlRel φ ψ ψ' (pure (r, .ret v)) (pure (r', .ret v')) ↔ (v = v' ∧ ψ' r' = ψ r) := Iff.rfl
@[simp] theorem ctlRel_throw (e e' : Err) :
    ctlRel (ρ := ρ) φ ψ ψ' (throw e) (throw e') ↔ e = e' := Iff.rfl
end

theorem forRangeCtlAux_sim {β σ σ' τ ρ : Type} (φ : σ → σ') (ψ : σ → τ) (ψ' : σ' → τ)
    (body : Int → β → σ → R (σ × Go.Ctl ρ)) (body' : Int → β → σ' → R (σ' × Go.Ctl ρ))
    (hψ : ∀ s, ψ' (φ s) = ψ s) :
    ∀ (xs : List β) (k : Nat) (s : σ),
    (∀ (j : Nat) (x : β) (s : σ), k ≤ j → j < k + xs.length → ctlRel φ ψ ψ' (body (j : Int) x s) (body' (j : Int) x (φ s))) →
    finRel ψ ψ' (Go.forRangeCtlAux body (k : Int) xs s) (Go.forRangeCtlAux body' (k : Int) xs (φ s)) := by
  intro xs
  induction xs with
  | nil => intro k s _; exact ⟨rfl, hψ s⟩
  | cons x xs ih =>
    intro k s h
    have h0 := h k x s (Nat.le_refl _) (by simp)
    have ih' := fun r => ih (k + 1) r (fun j y s' h1 h2 => h j y s' (by omega) (by simp; omega))
    simp only [Go.forRangeCtlAux]
    cases hb : body (k : Int) x s with
    | error e =>
      cases hb' : body' (k : Int) x (φ s) with
      | error e' => rw [hb, hb'] at h0; exact h0
      | ok r' => rw [hb, hb'] at h0; exact h0.elim
    | ok r =>
      cases hb' : body' (k : Int) x (φ s) with
      | error e' => rw [hb, hb'] at h0; obtain ⟨r1, c⟩ := r; cases c <;> exact h0.elim
      | ok r' =>
        rw [hb, hb'] at h0
        obtain ⟨r1, c⟩ := r
        obtain ⟨r1', c'⟩ := r'
        cases c <;> cases c' <;> try exact h0.elim
        · -- next
          have e : r1' = φ r1 := h0
          subst e
          have := ih' r1
          simp only [Int.natCast_add, Int.cast_ofNat_Int] at this
          exact this
        · exact ⟨rfl, h0⟩
        · exact ⟨congrArg some h0.1, h0.2⟩

theorem forRangeCtlM_sim {β σ σ' τ ρ : Type} (φ : σ → σ') (ψ : σ → τ) (ψ' : σ' → τ)
    (body : Int → β → σ → R (σ × Go.Ctl ρ)) (body' : Int → β → σ' → R (σ' × Go.Ctl ρ))
    (hψ : ∀ s, ψ' (φ s) = ψ s) (xs : List β) (s : σ)
    (h : ∀ (j : Nat) (x : β) (s : σ), j < xs.length → ctlRel φ ψ ψ' (body (j : Int) x s) (body' (j : Int) x (φ s))) :
    finRel ψ ψ' (Go.forRangeCtlM xs body s) (Go.forRangeCtlM xs body' (φ s)) := by
  have := forRangeCtlAux_sim φ ψ ψ' body body' hψ xs 0 s (fun j x s' _ h2 => h j x s' (by simpa using h2))
  simpa [Go.forRangeCtlM] using this

/-- use of a simulation: the code after the loops may depend on the observations only -/
theorem finRel_bind {σ σ' τ ρ γ : Type} (ψ : σ → τ) (ψ' : σ' → τ) {m : R (σ × Option ρ)} {m' : R (σ' × Option ρ)}
    {K : σ × Option ρ → R γ} {K' : σ' × Option ρ → R γ} (hm : finRel ψ ψ' m m')
    (hK : ∀ (r : σ) (r' : σ') (o : Option ρ), ψ' r' = ψ r → K (r, o) = K' (r', o)) :
    m >>= K = m' >>= K' := by
  cases m with
  | error e => cases m' with
    | error e' => have : e = e' := hm; subst this; rfl
    | ok r' => exact hm.elim
  | ok r => cases m' with
    | error e' => exact hm.elim
    | ok r' =>
      obtain ⟨r1, o⟩ := r
      obtain ⟨r1', o'⟩ := r'
      obtain ⟨ho, hr⟩ : o = o' ∧ ψ' r1' = ψ r1 := hm
      subst ho
      exact hK r1 r1' o hr

/-- equality of two loop-free monadic terms that differ in arithmetic sub-terms only: congruence down to the
integer (or list) arguments, each closed by `rfl` / `omega` -/
macro "go_cong" : tactic => `(tactic|
  repeat' (first
    | (with_reducible rfl)
    | omega
    | (-- an integer equation that `omega` does not prove is left alone (taking it apart never helps)
       fail_if_success (refine (?_ : @Eq Int _ _))
       fail_if_success (refine (?_ : @Eq Nat _ _))
       first
         | (refine bind_congr_both ?_ (fun _ => ?_))
         | (refine congrArg (pure : _ → R _) ?_)
         | (refine Prod.ext ?_ ?_)
         | (funext _)
         | (with_reducible congr 1))))

/-- split every `if`/`match` on both sides; contradictory cases by arithmetic, the others by congruence -/
macro "go_close'" : tactic => `(tactic|
  ((repeat' split) <;>
    (first
      | (with_reducible rfl)
      | omega
      | (simp_all only [Bool.false_eq_true, Bool.true_eq_false, Bool.not_eq_true, Bool.not_eq_false, not_true_eq_false,
          not_false_eq_true]; done)
      | (go_cong; done)
      | (simp_all; done)
      | grind [List.isEmpty_iff])))

/-- decide the guards of both sides from hypotheses given in both polarities (`h : a ≤ b`, `h' : ¬ b < a`), so that a
negated or De-Morganed guard is decided as well -/
macro "go_guards" "[" hs:Lean.Parser.Tactic.simpLemma,* "]" : tactic => `(tactic|
  simp only [$hs,*, ↓reduceIte, not_true_eq_false, not_false_eq_true, true_and, and_true, false_and, and_false,
    true_or, or_true, false_or, or_false, ge_iff_le, gt_iff_lt, ne_eq, Decidable.not_not, Bool.not_eq_true, Bool.not_eq_true',
    Bool.not_eq_false, Bool.not_eq_false', Bool.not_true, Bool.not_false, Bool.true_eq_false, Bool.false_eq_true,
    decide_true, decide_false, if_true, if_false, pure_bind])

theorem map_range_getD {β : Type} (l : List β) (d : β) : (List.range l.length).map (fun j => l.getD j d) = l := by
  apply List.ext_getElem
  · simp
  · intro i h1 h2
    have : i < l.length := by simpa using h1
    simp [List.getD_eq_getElem?_getD, this]

end RosedVerif.GenCodeEq
