/-
The TRUSTED semantic mapping  Go primitive ↦ model primitive  used by the typed Go → Lean translator
(harness/gofn.go, output: Gen/Code.lean).  One definition per Go primitive the translator may emit;
every definition is the model primitive it stands for (a one-liner).  Core only.

Conventions: `gem.String`, `string`, `[]rune` are all `List α`; `int` is unbounded `Int`; a Go panic is
an `Except.error`.  `gem.New`, `String()`, `string(..)`, `gem.Strings`, `gem.Slice`, `*p` (pointer to a
struct value) are identities and leave no trace in the generated code.
-/
import RosedVerif.Model.Ops
namespace RosedVerif.Go

section
variable {α : Type} [DecidableEq α] (cx : Ctx α) {β σ : Type}

/-! ### gem.String -/
/-- `s.Len()` -/
@[reducible] def gsLen (s : List α) : Int := gLen cx s
/-- `s.Sub(a, b)` -/
@[reducible] def gsSub (s : List α) (a b : Int) : List α := gSub cx s a b
/-- `a.Add(b)` -/
@[reducible] def gsAdd (a b : List α) : List α := a ++ b
/-- `s.CharAt(i)` -/
@[reducible] def gsCharAt (s : List α) (i : Int) : R (List α) := gCharAt cx s i
/-- `s.SetCharAt(i, r)` -/
@[reducible] def gsSetCharAt (s : List α) (i : Int) (r : List α) : R (List α) := gSetCharAt cx s i r
/-- `s.IsEmpty()` -/
@[reducible] def gsIsEmpty (s : List α) : Bool := s.isEmpty
/-- `s.IndexFunc(f)` -/
@[reducible] def gsIndexFunc (s : List α) (f : List α → Bool) : Int := gIndexFunc cx f s
/-- `s.LastIndexFunc(f)` -/
@[reducible] def gsLastIndexFunc (s : List α) (f : List α → Bool) : Int := gLastIndexFunc cx f s
/-- `s.Equal(t)` for `t` a string or a gem.String -/
@[reducible] def gsEqual (s t : List α) : Bool := decide (s = t)
/-- `gem.RepeatStr(s, n)` / `gem.Repeat(s, n)` -/
@[reducible] def gemRepeatStr (s : List α) (n : Int) : List α := gRepeat s n

/-- `s.GraphemeIndexes()`: for every cluster the pair `[start, end)` of rune offsets -/
def gsGraphemeIndexes (s : List α) : List (List Int) :=
  (List.range (cx.ends s).length).map fun i =>
    [((clusterSpan (cx.ends s) i).1 : Int), ((clusterSpan (cx.ends s) i).2 : Int)]

/-! ### strings, unicode, regexp, fmt -/
/-- `strings.Repeat(s, n)` (panics on a negative count) -/
@[reducible] def stringsRepeat (s : List α) (n : Int) : R (List α) := repeatStr s n
/-- `strings.Split(s, sep)` -/
@[reducible] def stringsSplit (s sep : List α) : List (List α) := splitOn s sep
/-- `strings.Join(parts, sep)` -/
@[reducible] def stringsJoin (parts : List (List α)) (sep : List α) : List α := joinWith sep parts
/-- `strings.ReplaceAll(s, old, new)` -/
@[reducible] def stringsReplaceAll (s old new : List α) : List α := replaceAll s old new
/-- `strings.HasSuffix(s, suffix)` -/
@[reducible] def stringsHasSuffix (s suffix : List α) : Bool := suffix.isSuffixOf s
/-- `strings.HasPrefix(s, prefix)` -/
@[reducible] def stringsHasPrefix (s pre : List α) : Bool := pre.isPrefixOf s
/-- `strings.Count(s, sep)` for a non-empty `sep` -/
@[reducible] def stringsCount (s sep : List α) : Int := ((splitOn s sep).length : Int) - 1
/-- `strings.Index(s, sep)`: the byte offset of the leftmost occurrence, or -1 -/
def stringsIndex (s sep : List α) : Int :=
  match indexOf sep s with
  | none => -1
  | some i => ((byteLen cx (s.take i) : Nat) : Int)
/-- `strings.ToUpper(s)` -/
@[reducible] def stringsToUpper (s : List α) : List α := s.map cx.upper
/-- `unicode.IsSpace(r)` -/
@[reducible] def unicodeIsSpace (r : α) : Bool := cx.isSpace r
/-- `strings.ContainsRune(s, r)` -/
@[reducible] def stringsContainsRune (s : List α) (r : α) : Bool := decide (r ∈ s)
/-- `string(r)` for a rune `r` (a valid code point): the one-rune string -/
@[reducible] def stringOfRune (r : α) : List α := [r]
/-- `r++` / `r + 1` on a rune (32-bit wrap-around not modelled) -/
@[reducible] def runeSucc (r : α) : α := cx.phNext r
/-- `unicode.IsSpace(gc[0])` inside a (pure) closure over a grapheme cluster: clusters are never
empty (Gem/Theory), the model maps `[]` to "is a space" -/
@[reducible] def isSpaceHead (gc : List α) : Bool := !notSpaceHead cx gc
/-- `spaceCollapser.ReplaceAllString(s, " ")` with `spaceCollapser = regexp.MustCompile(" +")` -/
@[reducible] def collapseSpaceRuns (s : List α) : List α := collapseRuns cx s

/-! ### slices and strings as byte sequences -/
/-- `len(xs)` for a slice -/
@[reducible] def sliceLen (xs : List β) : Int := xs.length
/-- `len(s)` for a string: bytes -/
@[reducible] def strLen (s : List α) : Int := byteLen cx s
/-- `xs[i]` -/
def idx (xs : List β) (i : Int) : R β :=
  if h : 0 ≤ i ∧ i.toNat < xs.length then pure xs[i.toNat] else throw .index
/-- `xs[i] = v` -/
def sliceSet (xs : List β) (i : Int) (v : β) : R (List β) :=
  if 0 ≤ i ∧ i.toNat < xs.length then pure (xs.set i.toNat v) else throw .index
/-- `xs[:n]` for a slice (bounds: its length; the capacity is not modelled) -/
def sliceTo (xs : List β) (n : Int) : R (List β) :=
  if 0 ≤ n ∧ n.toNat ≤ xs.length then pure (xs.take n.toNat) else throw .slice
/-- `xs[n:]` for a slice -/
def sliceFrom (xs : List β) (n : Int) : R (List β) :=
  if 0 ≤ n ∧ n.toNat ≤ xs.length then pure (xs.drop n.toNat) else throw .slice
/-- `make([]T, n)` (panics on a negative length) -/
def makeSlice (n : Int) (zero : β) : R (List β) := if n < 0 then throw .explicit else pure (List.replicate n.toNat zero)
/-- `copy(dst, src)`: the new value of `dst` -/
@[reducible] def copySlice (dst src : List β) : List β := src.take dst.length ++ dst.drop src.length
/-- `s[:a] + t + s[b:]` on strings with byte offsets -/
@[reducible] def strSplice (s : List α) (a b : Int) (t : List α) : R (List α) := spliceBytes cx s a b t
/-- `s[a:b]` on a string with byte offsets -/
@[reducible] def strSlice (s : List α) (a b : Int) : R (List α) := byteSlice cx s a b
/-- `for byteIdx := range s`: the byte offset of every rune of the string -/
def strByteOffsets (s : List α) : List Int := (List.range s.length).map fun k => ((byteOff cx s k : Nat) : Int)
/-- `a / b` on ints with a divisor that is not a non-zero constant -/
def intDiv (a b : Int) : R Int := if b = 0 then throw .explicit else pure (Int.tdiv a b)
/-- `a % b` likewise -/
def intMod (a b : Int) : R Int := if b = 0 then throw .explicit else pure (Int.tmod a b)

/-! ### float64 (T2)
A finite `float64` is the hand model's `Pct` = ± num / 2^exp (NaN and ±Inf are not represented).  Constants are
emitted as exact `Pct.mk` values; the only operations are the comparisons and `int(float64(n) * p)`. -/
/-- the value of `p` times `2^p.exp`, signed -/
@[reducible] def f64Num (p : Pct) : Int := if p.neg then -(p.num : Int) else (p.num : Int)
/-- `a < b` on floats (cross-multiplied by the positive denominators) -/
def f64Lt (a b : Pct) : Prop := f64Num a * 2 ^ b.exp < f64Num b * 2 ^ a.exp
/-- `a <= b` on floats -/
def f64Le (a b : Pct) : Prop := f64Num a * 2 ^ b.exp ≤ f64Num b * 2 ^ a.exp
/-- `a == b` on floats (`-0.0 == 0.0`) -/
def f64Eq (a b : Pct) : Prop := f64Num a * 2 ^ b.exp = f64Num b * 2 ^ a.exp
instance (a b : Pct) : Decidable (f64Lt a b) := inferInstanceAs (Decidable (_ < _))
instance (a b : Pct) : Decidable (f64Le a b) := inferInstanceAs (Decidable (_ ≤ _))
instance (a b : Pct) : Decidable (f64Eq a b) := inferInstanceAs (Decidable (_ = _))
/-- `int(float64(n) * p)`: the model's product-round-truncate on the magnitudes, sign of the product (Go
truncates toward zero; rounding is symmetric).  As in the hand model, `float64(n)` is taken to be exact
(true for |n| ≤ 2^53) and the result to fit an `int`. -/
def f64MulTrunc (n : Int) (p : Pct) : Int :=
  if (decide (n < 0)) != p.neg then -(mulRoundTrunc n.natAbs p.num p.exp : Int) else (mulRoundTrunc n.natAbs p.num p.exp : Int)

/-! ### Editor -/
/-- `ed.ref.parent` (nil dereference on a root editor) -/
def edRefParent : Editor α → R (Editor α) | .root _ _ => throw .explicit | .sub _ _ p _ _ => pure p
/-- `ed.ref.start` -/
def edRefStart : Editor α → R Int | .root _ _ => throw .explicit | .sub _ _ _ a _ => pure a
/-- `ed.ref.end` -/
def edRefEnd : Editor α → R Int | .root _ _ => throw .explicit | .sub _ _ _ _ b => pure b
/-- `e.ref = &parentRef{parent: &p, start: a, end: b}`: `e` becomes a sub-editor of (a snapshot of) `p` -/
@[reducible] def edWithRef (e p : Editor α) (a b : Int) : Editor α := .sub e.text e.opts p a b
/-- `ed.cache`: the model's Editor has no cache field; every Editor the model can represent has a nil
cache (no function of the library stores a non-nil cache in an Editor it returns or passes on, and the
translator refuses a function in which an Editor with an assigned cache escapes) -/
@[reducible] def edCache (_ed : Editor α) : Option (List α) := none
/-- `*p` for a `*gem.String` (nil dereference panics) -/
def deref : Option β → R β | none => throw .explicit | some x => pure x

/-- `rosed.Edit(s)` -/
@[reducible] def edit (s : List α) : Editor α := .root s {}
/-- `ed.ApplyOpts(op, opts)` with a callback given as a (monadic) closure; the index is an `int` -/
@[reducible] def edApplyOpts (ed : Editor α) (op : Int → List α → R (List (List α))) (o : Options α) : R (Editor α) :=
  ed.applyOptsM cx (fun i l => op i l) o
/-- `ed.applyGParagraphsOpts(op, opts)` / `ed.ApplyParagraphsOpts(op, opts)` likewise -/
@[reducible] def edApplyParagraphsOpts (ed : Editor α) (op : Int → List α → List α → List α → R (List (List α)))
    (o : Options α) : R (Editor α) :=
  ed.applyParasM cx (fun i p a b => op i p a b) o

/-! ### loops -/
/-- `for cond { body }` over the tuple of variables the loop assigns; `fuel` bounds the number of
evaluations of `cond` (running out of fuel is `Err.fuel`, as in the hand model's loops) -/
def whileM (fuel : Nat) (cond : σ → R Bool) (body : σ → R σ) (s : σ) : R σ :=
  match fuel with
  | 0 => throw .fuel
  | n + 1 => do if (← cond s) then whileM n cond body (← body s) else pure s

/-- outcome of one iteration of a loop that contains `break` or `return` -/
inductive Ctl (ρ : Type) where
  | next
  | brk
  | ret (v : ρ)

/-- `whileM` for a loop with `break`/`return`: the final state and the returned value, if any -/
def whileCtlM {ρ : Type} (fuel : Nat) (cond : σ → R Bool) (body : σ → R (σ × Ctl ρ)) (s : σ) : R (σ × Option ρ) :=
  match fuel with
  | 0 => throw .fuel
  | n + 1 => do
    if (← cond s) then do
      let r ← body s
      match r.2 with
      | .next => whileCtlM n cond body r.1
      | .brk => pure (r.1, none)
      | .ret v => pure (r.1, some v)
    else pure (s, none)

def forRangeCtlAux {ρ : Type} (body : Int → β → σ → R (σ × Ctl ρ)) : Int → List β → σ → R (σ × Option ρ)
  | _, [], s => pure (s, none)
  | i, x :: xs, s => do
    let r ← body i x s
    match r.2 with
    | .next => forRangeCtlAux body (i + 1) xs r.1
    | .brk => pure (r.1, none)
    | .ret v => pure (r.1, some v)

/-- `forRangeM` for a loop with `break`/`return` -/
def forRangeCtlM {ρ : Type} (xs : List β) (body : Int → β → σ → R (σ × Ctl ρ)) (s : σ) : R (σ × Option ρ) :=
  forRangeCtlAux body 0 xs s

def forRangeAux (body : Int → β → σ → R σ) : Int → List β → σ → R σ
  | _, [], s => pure s
  | i, x :: xs, s => do forRangeAux body (i + 1) xs (← body i x s)

/-- `for i, x := range xs { body }` (the slice is evaluated once; the translator refuses a body that
writes to the elements of `xs`) -/
def forRangeM (xs : List β) (body : Int → β → σ → R σ) (s : σ) : R σ := forRangeAux body 0 xs s

end
end RosedVerif.Go
