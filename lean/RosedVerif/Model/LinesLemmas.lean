/-
Lines: `LineCount`, `Apply` and the `Lines` selectors of the MODEL equal their SPECIFICATION
(`Spec.bareLines`, `Spec.linePieces`, `Spec.apply`, `Spec.selectLines`).  Core Lean only.
-/
import RosedVerif.Model.Ops
import RosedVerif.Spec.Pos
import RosedVerif.Model.StringsLemmas
import RosedVerif.Model.OptionsLemmas
namespace RosedVerif

variable {α : Type} [DecidableEq α] (cx : Ctx α)

/-! ## 0. the defaulted line separator is non-empty -/

omit [DecidableEq α] in
theorem withDefaults_lineSep_ne_nil (hd : cx.dLineSep ≠ []) (o : Options α) :
    (o.withDefaults cx).lineSep ≠ [] := by
  rw [(withDefaults_fields cx o).1]
  split
  · exact hd
  · rename_i h
    intro h0
    apply h
    rw [h0]
    rfl

omit [DecidableEq α] in
theorem withDefaults_noTrailing (o : Options α) :
    (o.withDefaults cx).noTrailing = o.noTrailing :=
  (withDefaults_fields cx o).2.2.2.1

/-! ## 1. lines / LineCount -/

/-- `Editor.linesSep` (the model) is `Spec.bareLines` for ANY separator, including the corner
cases `splitOn [] [] = []` and `splitOn [] sep = [[]]`. -/
theorem linesSep_eq_bareLines (ed : Editor α) (sep : List α) :
    ed.linesSep sep = Spec.bareLines ed.text sep ed.opts.noTrailing := by
  unfold Editor.linesSep Spec.bareLines
  generalize splitOn ed.text sep = ls
  generalize ed.opts.noTrailing = nt
  by_cases hne : ls = []
  · subst hne; simp
  · have hl : ls.getLast? = some (ls.getLast hne) := List.getLast?_eq_some_getLast hne
    have hd : ls.getLastD [] = ls.getLast hne := by
      rw [List.getLastD_eq_getLast?, hl]; rfl
    simp only [hl, hd]
    generalize ls.getLast hne = x
    cases nt <;> cases x <;> simp [hne]

/-- **1.** `Editor.lines` is the specification's list of bare lines (no hypothesis needed). -/
theorem lines_eq_bareLines (ed : Editor α) :
    ed.lines cx =
      Spec.bareLines ed.text (ed.opts.withDefaults cx).lineSep ed.opts.noTrailing :=
  linesSep_eq_bareLines ed _

/-- **1, corollary.** `LineCount` is the number of line pieces of the specification. -/
theorem lineCount_eq_linePieces_length (hd : cx.dLineSep ≠ []) (ed : Editor α) :
    ed.lineCount cx =
      (Spec.linePieces ed.text (ed.opts.withDefaults cx).lineSep ed.opts.noTrailing).length := by
  unfold Editor.lineCount
  rw [lines_eq_bareLines,
    Spec.linePieces_length' _ _ _ (withDefaults_lineSep_ne_nil cx hd ed.opts)]

/-- the empty text: no line under the default policy, one empty line with `noTrailing` -/
theorem lines_nil (hd : cx.dLineSep ≠ []) (ed : Editor α) (ht : ed.text = []) :
    ed.lines cx = if ed.opts.noTrailing then [[]] else [] := by
  rw [lines_eq_bareLines, ht]
  unfold Spec.bareLines
  rw [splitOn_nil _ (withDefaults_lineSep_ne_nil cx hd ed.opts)]
  cases ed.opts.noTrailing <;> rfl

/-! ## 2. Apply -/

theorem mapM_pure_R {β γ : Type} (g : β → γ) (l : List β) :
    (l.mapM fun i => (pure (g i) : R γ)) = pure (l.map g) := by
  induction l with
  | nil => rfl
  | cons a t ih => simp only [List.mapM_cons, ih, pure_bind, List.map_cons]

/-- **2.** `ApplyOpts` never fails and computes `Spec.apply` (no hypothesis needed). -/
theorem applyOpts_eq_spec (ed : Editor α) (f : Nat → List α → List (List α)) (o : Options α) :
    ed.applyOpts cx f o = .ok (ed.withText
      (Spec.apply ed.text (o.withDefaults cx).lineSep (o.withDefaults cx).noTrailing f)) := by
  unfold Editor.applyOpts Editor.applyOptsM Spec.apply
  simp only [mapM_pure_R, pure_bind, linesSep_eq_bareLines, Editor.withOpts_text,
    Editor.withOpts_opts]
  generalize (o.withDefaults cx) = od
  by_cases hne : splitOn ed.text od.lineSep = []
  · have hb : Spec.bareLines ed.text od.lineSep od.noTrailing = [] := by
      unfold Spec.bareLines; rw [hne]; simp
    rw [hb, hne]
    simp only [List.length_nil, Nat.lt_irrefl, and_false, if_false, List.range_zero, List.map_nil,
      List.flatten_nil, List.nil_append]
    split <;> rfl
  · have hiff := Spec.bareLines_length_lt_iff ed.text od.lineSep od.noTrailing
    by_cases hc : (Spec.bareLines ed.text od.lineSep od.noTrailing).length <
        (splitOn ed.text od.lineSep).length
    · obtain ⟨hnt, hl, -⟩ := hiff.1 hc
      rw [if_pos ⟨by rw [hnt]; rfl, hc⟩, if_pos (by rw [hnt, hl]; rfl)]
      rfl
    · by_cases hnt : od.noTrailing = true
      · rw [if_neg (fun h => hc h.2), if_neg (by rw [hnt]; simp)]
        rfl
      · have hl : (splitOn ed.text od.lineSep).getLastD [] ≠ [] :=
          fun hl => hc (hiff.2 ⟨by simpa using hnt, hl, hne⟩)
        rw [if_neg (fun h => hc h.2),
          if_neg (by rw [Bool.and_eq_true, List.isEmpty_iff]; exact fun h => hl h.2)]
        rfl

/-- **2, corollary.** the identity callback leaves the text alone, for EVERY (defaulted, hence
non-empty) separator — also a self-overlapping one. -/
theorem applyOpts_id (hd : cx.dLineSep ≠ []) (ed : Editor α) (o : Options α) :
    ed.applyOpts cx (fun _ l => [l]) o = .ok ed := by
  rw [applyOpts_eq_spec, Spec.apply_id _ _ _ (withDefaults_lineSep_ne_nil cx hd o),
    Editor.withText_self]

theorem applyOpts_id_text (hd : cx.dLineSep ≠ []) (ed : Editor α) (o : Options α) :
    ∃ ed', ed.applyOpts cx (fun _ l => [l]) o = .ok ed' ∧ ed'.text = ed.text :=
  ⟨ed, applyOpts_id cx hd ed o, rfl⟩

/-- special case kept for compatibility (the `Unbordered` hypothesis is no longer needed) -/
theorem applyOpts_id_of_unbordered (hd : cx.dLineSep ≠ []) (ed : Editor α) (o : Options α)
    (_hu : Unbordered (o.withDefaults cx).lineSep) :
    ed.applyOpts cx (fun _ l => [l]) o = .ok ed :=
  applyOpts_id cx hd ed o

theorem applyOpts_id_text_of_unbordered (hd : cx.dLineSep ≠ []) (ed : Editor α) (o : Options α)
    (_hu : Unbordered (o.withDefaults cx).lineSep) :
    ∃ ed', ed.applyOpts cx (fun _ l => [l]) o = .ok ed' ∧ ed'.text = ed.text :=
  applyOpts_id_text cx hd ed o

/-! ## 3. the scanning loop -/


theorem splitOnAux_skip (sep s : List α) (skip : Nat) (cur : List α) :
    splitOnAux sep s skip cur = splitOnAux sep (s.drop skip) 0 cur := by
  induction s generalizing skip with
  | nil => simp [splitOnAux]
  | cons c t ih =>
    cases skip with
    | zero => rfl
    | succ k => rw [splitOnAux, List.drop_succ_cons]; exact ih k

theorem indexOf_nil_of_ne_nil (sep : List α) (h : sep ≠ []) : indexOf sep [] = none := by
  cases sep with
  | nil => exact absurd rfl h
  | cons a u => rfl

theorem indexOf_cons (sep : List α) (c : α) (t : List α) :
    indexOf sep (c :: t) =
      if sep.isPrefixOf (c :: t) then some 0 else (indexOf sep t).map (· + 1) := rfl

theorem splitOnAux_of_indexOf_none (sep : List α) (t cur : List α)
    (hi : indexOf sep t = none) : splitOnAux sep t 0 cur = [cur.reverse ++ t] := by
  induction t generalizing cur with
  | nil => simp [splitOnAux]
  | cons c t ih =>
    rw [indexOf_cons] at hi
    split at hi
    · exact absurd hi (by simp)
    · rename_i hp
      rw [Option.map_eq_none_iff] at hi
      rw [splitOnAux, if_neg hp, ih _ hi]
      simp

theorem splitOnAux_of_indexOf_some (sep : List α) (hsep : sep ≠ []) (t cur : List α) (i : Nat)
    (hi : indexOf sep t = some i) :
    splitOnAux sep t 0 cur =
      (cur.reverse ++ t.take i) :: splitOnAux sep (t.drop (i + sep.length)) 0 [] := by
  induction t generalizing cur i with
  | nil => rw [indexOf_nil_of_ne_nil sep hsep] at hi; exact absurd hi (by simp)
  | cons c t ih =>
    rw [indexOf_cons] at hi
    have hlen : 0 < sep.length := List.length_pos_iff.mpr hsep
    split at hi
    · rename_i hp
      have h0 : i = 0 := by simpa using hi.symm
      subst h0
      rw [splitOnAux, if_pos hp, splitOnAux_skip]
      have : 0 + sep.length = (sep.length - 1) + 1 := by omega
      rw [this, List.drop_succ_cons]
      simp
    · rename_i hp
      rw [Option.map_eq_some_iff] at hi
      obtain ⟨j, hj, rfl⟩ := hi
      rw [splitOnAux, if_neg hp, ih _ _ hj]
      have : j + 1 + sep.length = (j + sep.length) + 1 := by omega
      rw [this, List.drop_succ_cons, List.take_succ_cons]
      simp

/-- `indexOf` finds an occurrence: the text is `take i ++ sep ++ drop (i + |sep|)` -/
theorem indexOf_some_spec (sep : List α) (t : List α) (i : Nat)
    (hi : indexOf sep t = some i) :
    t = t.take i ++ sep ++ t.drop (i + sep.length) ∧ i + sep.length ≤ t.length := by
  induction t generalizing i with
  | nil =>
    unfold indexOf at hi
    split at hi
    · rename_i h
      have : sep = [] := by simpa using h
      subst this
      have : i = 0 := by simpa using hi.symm
      subst this
      simp
    · exact absurd hi (by simp)
  | cons c t ih =>
    rw [indexOf_cons] at hi
    split at hi
    · rename_i hp
      have h0 : i = 0 := by simpa using hi.symm
      subst h0
      obtain ⟨r, hr⟩ := List.isPrefixOf_iff_prefix.mp hp
      rw [← hr]
      simp
    · rw [Option.map_eq_some_iff] at hi
      obtain ⟨j, hj, rfl⟩ := hi
      obtain ⟨h1, h2⟩ := ih j hj
      have : j + 1 + sep.length = (j + sep.length) + 1 := by omega
      rw [this, List.drop_succ_cons, List.take_succ_cons]
      refine ⟨?_, by simp only [List.length_cons]; omega⟩
      rw [List.cons_append, List.cons_append, ← h1]

theorem splitOn_of_indexOf_none (sep : List α) (hsep : sep ≠ []) (t : List α)
    (hi : indexOf sep t = none) : splitOn t sep = [t] := by
  rw [splitOn_of_ne_nil t sep hsep, splitOnAux_of_indexOf_none sep t [] hi]
  rfl

theorem splitOn_of_indexOf_some (sep : List α) (hsep : sep ≠ []) (t : List α) (i : Nat)
    (hi : indexOf sep t = some i) :
    splitOn t sep = t.take i :: splitOn (t.drop (i + sep.length)) sep := by
  rw [splitOn_of_ne_nil t sep hsep, splitOn_of_ne_nil _ sep hsep,
    splitOnAux_of_indexOf_some sep hsep t [] i hi]
  rfl

/-- `strings.Index` fails exactly when the split has a single piece -/
theorem indexOf_eq_none_iff (sep : List α) (hsep : sep ≠ []) (t : List α) :
    indexOf sep t = none ↔ splitOn t sep = [t] := by
  constructor
  · exact splitOn_of_indexOf_none sep hsep t
  · intro h
    cases hi : indexOf sep t with
    | none => rfl
    | some i =>
      rw [splitOn_of_indexOf_some sep hsep t i hi] at h
      have := splitOn_ne_nil' (t.drop (i + sep.length)) sep hsep
      simp only [List.cons.injEq] at h
      exact absurd h.2 this

/-- `strings.Index` returns the length of the first piece of the split, when there are at least
two pieces -/
theorem indexOf_eq_some_iff (sep : List α) (hsep : sep ≠ []) (t : List α) (i : Nat) :
    indexOf sep t = some i ↔
      1 < (splitOn t sep).length ∧ ((splitOn t sep).headD []).length = i := by
  have key : ∀ j, indexOf sep t = some j →
      1 < (splitOn t sep).length ∧ ((splitOn t sep).headD []).length = j := by
    intro j hj
    obtain ⟨-, hle⟩ := indexOf_some_spec sep t j hj
    rw [splitOn_of_indexOf_some sep hsep t j hj]
    have := List.length_pos_iff.mpr (splitOn_ne_nil' (t.drop (j + sep.length)) sep hsep)
    simp only [List.length_cons, List.headD_cons, List.length_take]
    omega
  constructor
  · exact key i
  · intro ⟨h1, h2⟩
    cases hi : indexOf sep t with
    | none =>
      rw [splitOn_of_indexOf_none sep hsep t hi] at h1
      simp at h1
    | some j =>
      obtain ⟨-, h3⟩ := key j hi
      rw [← h2, h3]

/-- **3.** the scanning loop: `k` rounds of `strings.Index` + skip starting at atom `pos` end just
after the `k`-th separator of the leftmost non-overlapping scan of `s.drop pos`, i.e. after
`p₀ ++ sep ++ … ++ p_{k-1} ++ sep` where `splitOn (s.drop pos) sep = p₀ :: p₁ :: …`; the loop
fails exactly when there are not more than `k` pieces. -/
theorem skipSeps_spec (s sep : List α) (hsep : sep ≠ []) (k pos : Nat) :
    skipSeps s sep k pos =
      if k < (splitOn (s.drop pos) sep).length then
        some (pos + ((((splitOn (s.drop pos) sep).take k).map (· ++ sep)).flatten).length)
      else none := by
  induction k generalizing pos with
  | zero =>
    have := splitOn_ne_nil' (s.drop pos) sep hsep
    rw [if_pos (List.length_pos_iff.mpr this)]
    simp [skipSeps]
  | succ k ih =>
    rw [skipSeps]
    cases hi : indexOf sep (s.drop pos) with
    | none =>
      rw [splitOn_of_indexOf_none sep hsep _ hi]
      simp
    | some i =>
      obtain ⟨-, hle⟩ := indexOf_some_spec sep _ i hi
      rw [splitOn_of_indexOf_some sep hsep _ i hi]
      simp only [ih, List.drop_drop, List.length_cons, Nat.add_lt_add_iff_right,
        List.take_succ_cons, List.map_cons, List.flatten_cons, List.length_append,
        List.length_take, Nat.add_assoc]
      have : min i (s.drop pos).length = i := by omega
      rw [this]

/-! ## byte offsets -/


omit [DecidableEq α] in
theorem byteLen_foldl_l (s : List α) (n : Nat) :
    s.foldl (fun n c => n + cx.blen c) n = n + byteLen cx s := by
  unfold byteLen
  induction s generalizing n with
  | nil => rfl
  | cons c t ih =>
    rw [List.foldl_cons, List.foldl_cons, ih, ih (0 + cx.blen c)]
    omega

omit [DecidableEq α] in
@[simp] theorem byteLen_nil_l : byteLen cx ([] : List α) = 0 := rfl

omit [DecidableEq α] in
theorem byteLen_cons_l (c : α) (t : List α) : byteLen cx (c :: t) = cx.blen c + byteLen cx t := by
  show (c :: t).foldl (fun n c => n + cx.blen c) 0 = _
  rw [List.foldl_cons, byteLen_foldl_l, Nat.zero_add]

omit [DecidableEq α] in
theorem byteLen_append_l (a b : List α) : byteLen cx (a ++ b) = byteLen cx a + byteLen cx b := by
  induction a with
  | nil => simp
  | cons c t ih => rw [List.cons_append, byteLen_cons_l, byteLen_cons_l, ih]; omega

omit [DecidableEq α] in
theorem byteOff_eq (t : List α) (k : Nat) : byteOff cx t k = byteLen cx (t.take k) := rfl

omit [DecidableEq α] in
theorem byteLen_eq_zero (hb : ∀ a, 0 < cx.blen a) (s : List α) (h : byteLen cx s = 0) : s = [] := by
  cases s with
  | nil => rfl
  | cons c t =>
    rw [byteLen_cons_l] at h
    have := hb c
    omega

omit [DecidableEq α] in
theorem atomsForBytes_prefix (hb : ∀ a, 0 < cx.blen a) (p q : List α) :
    atomsForBytes cx (p ++ q) (byteLen cx p) = some p.length := by
  induction p with
  | nil => cases q <;> rfl
  | cons c t ih =>
    have hc := hb c
    obtain ⟨m, hm⟩ : ∃ m, byteLen cx (c :: t) = m + 1 := ⟨byteLen cx (c :: t) - 1, by
      rw [byteLen_cons_l]; omega⟩
    have hm' := hm
    rw [byteLen_cons_l] at hm'
    rw [hm, List.cons_append, atomsForBytes, if_pos ⟨by omega, hc⟩]
    have : m + 1 - cx.blen c = byteLen cx t := by omega
    rw [this, ih]
    rfl

omit [DecidableEq α] in
/-- Go's `s[a:b]` at the byte offsets of an atom-level decomposition `s = bf ++ sel ++ af` -/
theorem byteSlice_parts (hb : ∀ a, 0 < cx.blen a) (bf sel af : List α) :
    byteSlice cx (bf ++ sel ++ af) (byteLen cx bf) (byteLen cx (bf ++ sel)) = .ok sel := by
  unfold byteSlice
  simp only [byteLen_append_l, Int.toNat_natCast]
  rw [if_neg (by omega)]
  by_cases hz : byteLen cx sel = 0
  · have := byteLen_eq_zero cx hb sel hz
    subst this
    simp
    rfl
  · have hne : ((byteLen cx bf : Int) == ((byteLen cx bf + byteLen cx sel : Nat) : Int)) = false := by
      simp only [beq_eq_false_iff_ne, ne_eq]; omega
    rw [hne]
    have h1 := atomsForBytes_prefix cx hb bf (sel ++ af)
    have h2 := atomsForBytes_prefix cx hb (bf ++ sel) af
    rw [byteLen_append_l] at h2
    rw [List.append_assoc] at h2
    simp only [List.append_assoc, h1, h2, Bool.false_eq_true, if_false]
    simp
    rfl

omit [DecidableEq α] in
theorem byteSlice_take_drop_l (hb : ∀ a, 0 < cx.blen a) (t : List α) (i j : Nat) (hij : i ≤ j) :
    byteSlice cx t (byteLen cx (t.take i)) (byteLen cx (t.take j)) = .ok ((t.drop i).take (j - i)) := by
  have h := byteSlice_parts cx hb (t.take i) ((t.drop i).take (j - i)) (t.drop j)
  have h1 : t.take i ++ (t.drop i).take (j - i) = t.take j := by
    have : j = i + (j - i) := by omega
    rw [this, List.take_add]
    simp
  rw [h1, List.take_append_drop] at h
  exact h

/-! ## 4. C10: the `Lines` selection -/


theorem rangeToIndexes_eq_normRangeRaw (n s e : Int) (hn : 0 ≤ n) :
    rangeToIndexes n s e = Spec.normRangeRaw n s e := by
  unfold rangeToIndexes Spec.normRangeRaw Spec.normPosRaw
  simp only [Prod.mk.injEq]
  constructor <;> omega

theorem normRange_eq_raw_l (n s e : Int) :
    Spec.normRange n s e =
      Spec.normRangeRaw n (if s == Gen.endSentinel then n else s)
        (if e == Gen.endSentinel then n else e) := rfl

theorem normRangeRaw_bounds (n s e : Int) (hn : 0 ≤ n) :
    0 ≤ (Spec.normRangeRaw n s e).1 ∧ (Spec.normRangeRaw n s e).1 ≤ (Spec.normRangeRaw n s e).2 ∧
      (Spec.normRangeRaw n s e).2 ≤ n := by
  unfold Spec.normRangeRaw Spec.normPosRaw
  simp only
  omega

theorem skipSeps_add (s sep : List α) (a b pos : Nat) :
    skipSeps s sep (a + b) pos = (skipSeps s sep a pos).bind (skipSeps s sep b) := by
  induction a generalizing pos with
  | zero => simp [skipSeps]
  | succ a ih =>
    have : a + 1 + b = (a + b) + 1 := by omega
    rw [this, skipSeps, skipSeps]
    cases indexOf sep (s.drop pos) with
    | none => rfl
    | some i => exact ih _

theorem linePieces_length_cases (text sep : List α) (nt : Bool) (hsep : sep ≠ []) :
    (Spec.linePieces text sep nt).length + 1 = (splitOn text sep).length ∨
      (Spec.linePieces text sep nt).length = (splitOn text sep).length := by
  have hne := splitOn_ne_nil' text sep hsep
  unfold Spec.linePieces
  generalize splitOn text sep = parts at *
  have hpos : 0 < parts.length := List.length_pos_iff.mpr hne
  simp only
  split
  · left
    simp only [List.length_map, List.length_take]
    omega
  · right
    simp only [List.length_append, List.length_map, List.length_take, List.length_singleton]
    omega

theorem linePieces_take (text sep : List α) (nt : Bool) (k : Nat)
    (hk : k + 1 ≤ (splitOn text sep).length) :
    (Spec.linePieces text sep nt).take k = ((splitOn text sep).take k).map (· ++ sep) := by
  unfold Spec.linePieces
  generalize splitOn text sep = parts at *
  simp only
  have h1 : (List.map (fun x => x ++ sep) (List.take (parts.length - 1) parts)).take k
      = (parts.take k).map (· ++ sep) := by
    rw [← List.map_take, List.take_take, Nat.min_eq_left (by omega)]
  split
  · exact h1
  · rw [List.take_append_of_le_length (by simp only [List.length_map, List.length_take]; omega)]
    exact h1

/-- the scan from the start of the text, in terms of the specification's line pieces -/
theorem skipSeps_linePieces (text sep : List α) (nt : Bool) (hsep : sep ≠ []) (k : Nat)
    (hk : k ≤ (Spec.linePieces text sep nt).length) :
    (k < (splitOn text sep).length ∧
      skipSeps text sep k 0 = some (((Spec.linePieces text sep nt).take k).flatten).length) ∨
    (k = (Spec.linePieces text sep nt).length ∧ skipSeps text sep k 0 = none) := by
  have hsp := skipSeps_spec text sep hsep k 0
  rw [List.drop_zero, Nat.zero_add] at hsp
  by_cases hlt : k < (splitOn text sep).length
  · left
    rw [if_pos hlt] at hsp
    rw [linePieces_take text sep nt k hlt]
    exact ⟨hlt, hsp⟩
  · right
    rw [if_neg hlt] at hsp
    have := linePieces_length_cases text sep nt hsep
    exact ⟨by omega, hsp⟩

omit [DecidableEq α] in
theorem subEd_parts (hb : ∀ a, 0 < cx.blen a) (ed : Editor α) (bf sel af : List α)
    (ht : ed.text = bf ++ sel ++ af) (x y : Int) (hx : x = byteLen cx bf)
    (hy : y = byteLen cx (bf ++ sel)) :
    ed.subEd cx x y = .ok (.sub sel ed.opts ed (byteLen cx bf) (byteLen cx (bf ++ sel))) := by
  subst hx hy
  unfold Editor.subEd
  rw [ht, byteSlice_parts cx hb]
  rfl

/-- **4 (C10).** `Editor.Lines(s, e)` selects exactly the lines `[s, e)` of the specification:
the sub-editor holds `sel` and remembers the byte range `[|bf|, |bf ++ sel|)` of its parent,
where `(bf, sel, af) = Spec.selectLines text sep noTrailing s e`. -/
theorem linesSel_eq_spec (hb : ∀ a, 0 < cx.blen a) (hd : cx.dLineSep ≠ []) (ed : Editor α)
    (s e : Int) :
    ed.linesSel cx s e =
      .ok (.sub
        (Spec.selectLines ed.text (ed.opts.withDefaults cx).lineSep ed.opts.noTrailing s e).2.1
        ed.opts ed
        (byteLen cx
          (Spec.selectLines ed.text (ed.opts.withDefaults cx).lineSep ed.opts.noTrailing s e).1)
        (byteLen cx
          ((Spec.selectLines ed.text (ed.opts.withDefaults cx).lineSep ed.opts.noTrailing s e).1 ++
           (Spec.selectLines ed.text (ed.opts.withDefaults cx).lineSep ed.opts.noTrailing s e).2.1))) := by
  have hsep := withDefaults_lineSep_ne_nil cx hd ed.opts
  have hlc := lineCount_eq_linePieces_length cx hd ed
  have hcat := Spec.selectLines_concat ed.text (ed.opts.withDefaults cx).lineSep
    ed.opts.noTrailing s e hsep
  have hfl := Spec.linePieces_flatten ed.text (ed.opts.withDefaults cx).lineSep
    ed.opts.noTrailing hsep
  have hscan := skipSeps_linePieces ed.text (ed.opts.withDefaults cx).lineSep
    ed.opts.noTrailing hsep
  unfold Editor.linesSel
  generalize (ed.opts.withDefaults cx).lineSep = sep at *
  generalize ed.opts.noTrailing = nt at *
  by_cases hempty : ed.text = []
  · -- empty text
    rw [if_pos (by rw [hempty]; rfl)]
    generalize Spec.selectLines ed.text sep nt s e = r at hcat ⊢
    obtain ⟨bf, sel, af⟩ := r
    simp only at hcat ⊢
    rw [hempty] at hcat
    obtain ⟨h12, -⟩ := List.append_eq_nil_iff.mp hcat
    obtain ⟨h1, h2⟩ := List.append_eq_nil_iff.mp h12
    subst h1 h2
    exact subEd_parts cx hb ed [] [] [] (by rw [hempty]; rfl) 0 0 rfl rfl
  · rw [if_neg (by simpa using hempty)]
    have hn : (0 : Int) ≤ ((Spec.linePieces ed.text sep nt).length : Int) := Int.natCast_nonneg _
    have hbd := normRangeRaw_bounds ((Spec.linePieces ed.text sep nt).length : Int)
      (if s == Gen.endSentinel then ((Spec.linePieces ed.text sep nt).length : Int) else s)
      (if e == Gen.endSentinel then ((Spec.linePieces ed.text sep nt).length : Int) else e) hn
    unfold Spec.selectLines at hcat ⊢
    simp only [hlc, normRange_eq_raw_l, rangeToIndexes_eq_normRangeRaw _ _ _ hn] at hcat ⊢
    generalize Spec.normRangeRaw _ _ _ = se at *
    obtain ⟨st, en⟩ := se
    simp only at hbd hcat ⊢
    obtain ⟨h0, h1, h2⟩ := hbd
    obtain ⟨a, rfl⟩ := Int.eq_ofNat_of_zero_le h0
    obtain ⟨b, rfl⟩ := Int.eq_ofNat_of_zero_le (Int.le_trans h0 h1)
    have hsub : ((b : Int) - (a : Int)).toNat = b - a := by omega
    simp only [Int.toNat_natCast, hsub, Spec.joinL] at hcat ⊢
    generalize Spec.linePieces ed.text sep nt = ps at *
    have hab : a ≤ b := by omega
    have hbn : b ≤ ps.length := by omega
    have htk : (ps.take a).flatten ++ ((ps.drop a).take (b - a)).flatten = (ps.take b).flatten := by
      rw [← List.flatten_append]
      congr 1
      have : b = a + (b - a) := by omega
      rw [this, List.take_add]
      simp
    have hoff : ∀ k, byteOff cx ed.text (ps.take k).flatten.length
        = byteLen cx (ps.take k).flatten := by
      intro k
      have : ed.text = (ps.take k).flatten ++ (ps.drop k).flatten := by
        rw [← List.flatten_append, List.take_append_drop, hfl]
      rw [byteOff_eq, this]
      simp
    by_cases hge : a ≥ ps.length
    · rw [if_pos (by omega)]
      refine subEd_parts cx hb ed _ _ _ hcat.symm _ _ ?_ ?_
      · rw [List.take_of_length_le hge, hfl]
      · rw [htk, List.take_of_length_le (by omega), hfl]
    · rw [if_neg (by omega)]
      rcases hscan a (by omega) with ⟨-, hA⟩ | ⟨hA, -⟩
      · have hB : skipSeps ed.text sep (b - a) (ps.take a).flatten.length
            = skipSeps ed.text sep b 0 := by
          have := skipSeps_add ed.text sep a (b - a) 0
          rw [hA, show a + (b - a) = b by omega] at this
          exact this.symm
        rw [hA]
        simp only
        rw [hB]
        rcases hscan b hbn with ⟨-, hBv⟩ | ⟨hbeq, hBv⟩
        · rw [hBv]
          simp only
          refine subEd_parts cx hb ed _ _ _ hcat.symm _ _ ?_ ?_
          · rw [hoff]
          · rw [hoff, htk]
        · rw [hBv]
          simp only
          refine subEd_parts cx hb ed _ _ _ hcat.symm _ _ ?_ ?_
          · rw [hoff]
          · rw [htk, List.take_of_length_le (by omega), hfl]
      · omega

theorem selectLines_length_eq_end (text sep : List α) (nt : Bool) (s : Int) :
    Spec.selectLines text sep nt s ((Spec.linePieces text sep nt).length : Int) =
      Spec.selectLines text sep nt s Gen.endSentinel := by
  unfold Spec.selectLines Spec.normRange Spec.normPos
  have h : (((Spec.linePieces text sep nt).length : Int) == Gen.endSentinel) = false := by
    simp only [beq_eq_false_iff_ne, ne_eq, Gen.endSentinel]
    omega
  simp only [h, Bool.false_eq_true, if_false, BEq.rfl, if_true]

/-- `Editor.LinesFrom(s)` = the specification's selection `[s, End)` -/
theorem linesFrom_eq_spec (hb : ∀ a, 0 < cx.blen a) (hd : cx.dLineSep ≠ []) (ed : Editor α)
    (s : Int) :
    ed.linesFrom cx s =
      .ok (.sub
        (Spec.selectLines ed.text (ed.opts.withDefaults cx).lineSep ed.opts.noTrailing s
          Gen.endSentinel).2.1
        ed.opts ed
        (byteLen cx
          (Spec.selectLines ed.text (ed.opts.withDefaults cx).lineSep ed.opts.noTrailing s
            Gen.endSentinel).1)
        (byteLen cx
          ((Spec.selectLines ed.text (ed.opts.withDefaults cx).lineSep ed.opts.noTrailing s
              Gen.endSentinel).1 ++
           (Spec.selectLines ed.text (ed.opts.withDefaults cx).lineSep ed.opts.noTrailing s
              Gen.endSentinel).2.1))) := by
  unfold Editor.linesFrom
  rw [linesSel_eq_spec cx hb hd, lineCount_eq_linePieces_length cx hd, selectLines_length_eq_end]

/-- `Editor.LinesTo(e)` = the specification's selection `[0, e)` -/
theorem linesTo_eq_spec (hb : ∀ a, 0 < cx.blen a) (hd : cx.dLineSep ≠ []) (ed : Editor α)
    (e : Int) :
    ed.linesTo cx e =
      .ok (.sub
        (Spec.selectLines ed.text (ed.opts.withDefaults cx).lineSep ed.opts.noTrailing 0 e).2.1
        ed.opts ed
        (byteLen cx
          (Spec.selectLines ed.text (ed.opts.withDefaults cx).lineSep ed.opts.noTrailing 0 e).1)
        (byteLen cx
          ((Spec.selectLines ed.text (ed.opts.withDefaults cx).lineSep ed.opts.noTrailing 0 e).1 ++
           (Spec.selectLines ed.text (ed.opts.withDefaults cx).lineSep ed.opts.noTrailing 0 e).2.1))) :=
  linesSel_eq_spec cx hb hd ed 0 e

/-- the selected text of a `Lines` sub-editor, and the parent text around it -/
theorem linesSel_text (hb : ∀ a, 0 < cx.blen a) (hd : cx.dLineSep ≠ []) (ed : Editor α)
    (s e : Int) :
    ∃ r, ed.linesSel cx s e = .ok r ∧
      r.text = (Spec.selectLines ed.text (ed.opts.withDefaults cx).lineSep
        ed.opts.noTrailing s e).2.1 :=
  ⟨_, linesSel_eq_spec cx hb hd ed s e, rfl⟩

/-! ## non-vacuity on a concrete context -/

/-- atoms are natural numbers, every atom is its own cluster and one byte long, "\n" is `0` -/
def testCtx : Ctx Nat where
  ends := fun l => List.range' 1 l.length
  isSpace := fun c => c == 32
  blen := fun _ => 1
  upper := id
  sp := 32
  hy := 45
  phA := 1000
  nl := 0
  dIndent := [9]
  dLineSep := [0]
  dParaSep := [0, 0]
  dCharset := [43, 124, 45]

example : (Editor.root [1, 2, 0, 3, 0] {}).lines testCtx = [[1, 2], [3]] := by decide
example : (Editor.root [1, 2, 0, 3] {}).lineCount testCtx = 2 := by decide
example : (Editor.root ([] : List Nat) {}).lineCount testCtx = 0 := by decide
example : (Editor.root ([] : List Nat) { noTrailing := true }).lineCount testCtx = 1 := by decide
example : skipSeps [1, 0, 2, 0, 3] [0] 2 0 = some 4 := by decide
example : skipSeps [1, 0, 2, 0, 3] [0] 3 0 = none := by decide
example : ((Editor.root [1, 0, 2, 0, 3] {}).linesSel testCtx 1 2).toOption.map Editor.text
    = some [2, 0] := by decide
example : ((Editor.root [1, 0, 2, 0, 3] {}).linesSel testCtx 1 Gen.endSentinel).toOption.map
    Editor.text = some [2, 0, 3] := by decide
example : Spec.selectLines [1, 0, 2, 0, 3] [0] false 1 Gen.endSentinel = ([1, 0], [2, 0, 3], []) := by
  decide

end RosedVerif
