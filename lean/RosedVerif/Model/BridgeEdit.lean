/-
Property C09 on CODE POINTS over a stable vocabulary: inserting a text over the vocabulary into a
text over the vocabulary creates NO junction effect (the hypothesis of `C09_roundtrip` holds), so
deleting what was just inserted restores the text, at Spec level and at Editor level; and the
closed form of Overtype on clusters.
-/
import RosedVerif.Model.BridgeComposite
import RosedVerif.Model.PosLemmas
import RosedVerif.Model.InstAFacts
namespace RosedVerif
set_option linter.unusedSectionVars false

namespace BridgeEdit

theorem over_append {V : List (List Int)} {a b : List (List Int)} (ha : ∀ t ∈ a, t ∈ V)
    (hb : ∀ t ∈ b, t ∈ V) : ∀ t ∈ a ++ b, t ∈ V := by
  intro t h
  rcases List.mem_append.1 h with h | h
  · exact ha t h
  · exact hb t h

theorem over_take {V : List (List Int)} {a : List (List Int)} (ha : ∀ t ∈ a, t ∈ V) (k : Nat) :
    ∀ t ∈ a.take k, t ∈ V := fun t h => ha t (List.mem_of_mem_take h)

theorem over_drop {V : List (List Int)} {a : List (List Int)} (ha : ∀ t ∈ a, t ∈ V) (k : Nat) :
    ∀ t ∈ a.drop k, t ∈ V := fun t h => ha t (List.mem_of_mem_drop h)

/-- the spliced token list is over the vocabulary -/
theorem over_splice {V : List (List Int)} {toks ins : List (List Int)} (ht : ∀ t ∈ toks, t ∈ V)
    (hi : ∀ t ∈ ins, t ∈ V) (k j : Nat) : ∀ t ∈ toks.take k ++ ins ++ toks.drop j, t ∈ V :=
  over_append (over_append (over_take ht k) hi) (over_drop ht j)

section vocab
variable {V : List (List Int)}

/-- the normalised position over the flattened text is the normalised position over the tokens -/
theorem posNat_flat (hV : VocabStable V = true) (toks : List (List Int))
    (ht : ∀ t ∈ toks, t ∈ V) (p : Int) :
    Spec.posNat cxA toks.flatten p = (Spec.normPos (toks.length : Int) p).toNat := by
  unfold Spec.posNat
  rw [clusters_flatten_stable toks (stableRunes_of_vocab V hV toks ht)]

theorem posNat_flat_le (hV : VocabStable V = true) (toks : List (List Int))
    (ht : ∀ t ∈ toks, t ∈ V) (p : Int) : Spec.posNat cxA toks.flatten p ≤ toks.length := by
  have := Spec.posNat_le (cx := cxA) toks.flatten p
  rwa [clusters_flatten_stable toks (stableRunes_of_vocab V hV toks ht)] at this

/-- `Spec.insert` on the flattened text is the flattening of the splice of the token lists -/
theorem insert_flat (hV : VocabStable V = true) (toks ins : List (List Int))
    (ht : ∀ t ∈ toks, t ∈ V) (p : Int) :
    Spec.insert cxA toks.flatten p ins.flatten =
      (toks.take (Spec.posNat cxA toks.flatten p) ++ ins ++
        toks.drop (Spec.posNat cxA toks.flatten p)).flatten := by
  rw [Spec.insert_eq, clusters_flatten_stable toks (stableRunes_of_vocab V hV toks ht),
    List.flatten_append, List.flatten_append]

/-- `Spec.overtype` on the flattened text is the flattening of the splice of the token lists -/
theorem overtype_flat (hV : VocabStable V = true) (toks ins : List (List Int))
    (ht : ∀ t ∈ toks, t ∈ V) (hi : ∀ t ∈ ins, t ∈ V) (p : Int) :
    Spec.overtype cxA toks.flatten p ins.flatten =
      (toks.take (Spec.posNat cxA toks.flatten p) ++ ins ++
        toks.drop (min (Spec.posNat cxA toks.flatten p + ins.length) toks.length)).flatten := by
  have hle := posNat_flat_le hV toks ht p
  have hc := Spec.posNat_cast (cx := cxA) toks.flatten p
  rw [Spec.overtype_eq, gLen_flatten_stable ins (stableRunes_of_vocab V hV ins hi), ← hc]
  rw [clusters_flatten_stable toks (stableRunes_of_vocab V hV toks ht)] at hc ⊢
  rw [List.flatten_append, List.flatten_append]
  congr 3
  split <;> omega

end vocab
end BridgeEdit

open BridgeEdit

section vocab
variable {V : List (List Int)}

/-- **A1.** Over a stable vocabulary an insertion has NO junction effect: the clusters of the
result are the clusters before the position, the inserted tokens, the clusters after it. -/
theorem insert_clusters_stable (hV : VocabStable V = true) (toks ins : List (List Int))
    (ht : ∀ t ∈ toks, t ∈ V) (hi : ∀ t ∈ ins, t ∈ V) (p : Int) :
    clusters cxA (Spec.insert cxA toks.flatten p ins.flatten) =
      toks.take (Spec.posNat cxA toks.flatten p) ++ ins ++
        toks.drop (Spec.posNat cxA toks.flatten p) := by
  rw [insert_flat hV toks ins ht p]
  exact clusters_flatten_stable _ (stableRunes_of_vocab V hV _ (over_splice ht hi _ _))

/-- A1: the position is the normalised position counted in tokens -/
theorem posNat_flatten_stable (hV : VocabStable V = true) (toks : List (List Int))
    (ht : ∀ t ∈ toks, t ∈ V) (p : Int) :
    Spec.posNat cxA toks.flatten p = (Spec.normPos (toks.length : Int) p).toNat ∧
      Spec.posNat cxA toks.flatten p ≤ toks.length :=
  ⟨posNat_flat hV toks ht p, posNat_flat_le hV toks ht p⟩

/-- A1 in the form of the junction-freeness hypothesis `h` of `Props.C09_roundtrip` -/
theorem insert_junction_free (hV : VocabStable V = true) (toks ins : List (List Int))
    (ht : ∀ t ∈ toks, t ∈ V) (hi : ∀ t ∈ ins, t ∈ V) (p : Int) :
    clusters cxA (Spec.insert cxA toks.flatten p ins.flatten) =
      (clusters cxA toks.flatten).take (Spec.posNat cxA toks.flatten p) ++
        clusters cxA ins.flatten ++
        (clusters cxA toks.flatten).drop (Spec.posNat cxA toks.flatten p) := by
  rw [insert_clusters_stable hV toks ins ht hi p,
    clusters_flatten_stable toks (stableRunes_of_vocab V hV toks ht),
    clusters_flatten_stable ins (stableRunes_of_vocab V hV ins hi)]

/-- **A2 (specification level).** Deleting what was just inserted restores the text: the
hypothesis of `C09_roundtrip` is discharged on a stable vocabulary. -/
theorem delete_insert_stable (hV : VocabStable V = true) (toks ins : List (List Int))
    (ht : ∀ t ∈ toks, t ∈ V) (hi : ∀ t ∈ ins, t ∈ V) (p : Int) :
    Spec.delete cxA (Spec.insert cxA toks.flatten p ins.flatten)
      (Spec.posNat cxA toks.flatten p : Nat)
      ((Spec.posNat cxA toks.flatten p + ins.length : Nat) : Int) = toks.flatten := by
  have h := Spec.delete_insert_wf cxA_WF toks.flatten p ins.flatten (insert_junction_free hV toks ins ht hi p)
  rwa [clusters_flatten_stable ins (stableRunes_of_vocab V hV ins hi)] at h

/-- **A2 (Editor level).** `Insert` followed by `Delete` of the inserted range gives back the
editor, for every integer position. -/
theorem editor_delete_insert_stable (hV : VocabStable V = true) (toks ins : List (List Int))
    (ht : ∀ t ∈ toks, t ∈ V) (hi : ∀ t ∈ ins, t ∈ V) (o : Options Int) (p : Int) :
    ((Editor.root toks.flatten o).insert cxA p ins.flatten >>= fun e =>
        e.delete cxA (Spec.posNat cxA toks.flatten p : Nat)
          ((Spec.posNat cxA toks.flatten p + ins.length : Nat) : Int)) =
      .ok (Editor.root toks.flatten o) := by
  rw [Editor.insert_eq_spec cxA_WF]
  show Editor.delete cxA (Editor.root (Spec.insert cxA toks.flatten p ins.flatten) o) _ _ = _
  rw [Editor.delete_eq_spec cxA_WF]
  show Except.ok (Editor.root (Spec.delete cxA (Spec.insert cxA toks.flatten p ins.flatten) _ _) o)
    = _
  rw [delete_insert_stable hV toks ins ht hi p]

/-- A2 (Editor level), any editor (root or sub-editor) whose text is over the vocabulary -/
theorem editor_delete_insert_stable_gen (hV : VocabStable V = true) (ed : Editor Int)
    (toks ins : List (List Int)) (hed : ed.text = toks.flatten)
    (ht : ∀ t ∈ toks, t ∈ V) (hi : ∀ t ∈ ins, t ∈ V) (p : Int) :
    (ed.insert cxA p ins.flatten >>= fun e =>
        e.delete cxA (Spec.posNat cxA toks.flatten p : Nat)
          ((Spec.posNat cxA toks.flatten p + ins.length : Nat) : Int)) = .ok ed := by
  rw [Editor.insert_eq_spec cxA_WF]
  show Editor.delete cxA (ed.withText (Spec.insert cxA ed.text p ins.flatten)) _ _ = _
  rw [Editor.delete_eq_spec cxA_WF]
  have e1 : (ed.withText (Spec.insert cxA ed.text p ins.flatten)).text =
      Spec.insert cxA ed.text p ins.flatten := by cases ed <;> rfl
  rw [e1, hed, delete_insert_stable hV toks ins ht hi p, ← hed]
  cases ed <;> rfl

/-- **A3.** the closed form of Overtype on clusters: the tokens before the position, the new
tokens, the tokens from `min (k + |ins|) n` on. -/
theorem overtype_clusters_stable (hV : VocabStable V = true) (toks ins : List (List Int))
    (ht : ∀ t ∈ toks, t ∈ V) (hi : ∀ t ∈ ins, t ∈ V) (p : Int) :
    clusters cxA (Spec.overtype cxA toks.flatten p ins.flatten) =
      toks.take (Spec.posNat cxA toks.flatten p) ++ ins ++
        toks.drop (min (Spec.posNat cxA toks.flatten p + ins.length) toks.length) := by
  rw [overtype_flat hV toks ins ht hi p]
  exact clusters_flatten_stable _ (stableRunes_of_vocab V hV _ (over_splice ht hi _ _))

/-- A3 (Editor level): `Overtype` succeeds and the clusters of its result are the closed form
(texts with fewer than 2^63 clusters together) -/
theorem editor_overtype_stable (hV : VocabStable V = true) (toks ins : List (List Int))
    (ht : ∀ t ∈ toks, t ∈ V) (hi : ∀ t ∈ ins, t ∈ V) (o : Options Int) (p : Int)
    (hno : (toks.length : Int) + (ins.length : Int) < 2 ^ 63) :
    ∃ e, (Editor.root toks.flatten o).overtype cxA p ins.flatten = .ok e ∧ e.opts = o ∧
      clusters cxA e.text = toks.take (Spec.posNat cxA toks.flatten p) ++ ins ++
        toks.drop (min (Spec.posNat cxA toks.flatten p + ins.length) toks.length) := by
  refine ⟨_, Editor.overtype_eq_spec cxA_WF _ p ins.flatten ?_, rfl,
    overtype_clusters_stable hV toks ins ht hi p⟩
  show (gLen cxA toks.flatten : Int) + (gLen cxA ins.flatten : Int) < 2 ^ 63
  rw [gLen_flatten_stable toks (stableRunes_of_vocab V hV toks ht),
    gLen_flatten_stable ins (stableRunes_of_vocab V hV ins hi)]
  exact hno

end vocab

end RosedVerif
