/-
Instance A (code points + the real segmentation) satisfies the well-formedness
hypotheses of the generic lemmas: boundaries partition the text (from the
finite-state theory), every code point has a positive UTF-8 length, and slices
between boundaries segment as inside the whole string.
-/
import RosedVerif.Model.InstA
import RosedVerif.Model.PosLemmas
import RosedVerif.Model.Totality
import RosedVerif.Heap.Lemmas
import RosedVerif.Gem.RunesTheory
namespace RosedVerif

theorem part_splitRunes (s : List Int) : Part (splitRunes s) s.length where
  sorted := splitRunes_sorted s
  pos := splitRunes_bounds s
  last := fun h => splitRunes_last s (by intro hs; rw [hs] at h; exact h rfl)

theorem utf8Len_pos (r : Int) : 0 < utf8Len r := by
  unfold utf8Len; split <;> (try split) <;> (try split) <;> omega

theorem cxA_WF : cxA.WF := ⟨part_splitRunes, utf8Len_pos⟩

theorem cxA_Sane : cxA.Sane := ⟨part_splitRunes, utf8Len_pos⟩

theorem sliceOK : H.SliceOK := by
  intro s st en e h0 h1 h2 a b
  exact splitRunes_slice s st en h0 h1 h2

theorem cxA_ends : cxA.ends = splitRunes := rfl

end RosedVerif
