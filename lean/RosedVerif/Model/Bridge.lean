/-
The bridge from code points to clusters.  On a STABLE vocabulary (every token is
a single cluster, every adjacent pair of tokens is separated by a boundary) the
segmentation of a concatenation of tokens is the concatenation of the tokens, and
the gem-level primitives on the flattened text agree with list operations on the
token list.
-/
import RosedVerif.Model.InstAFacts
namespace RosedVerif
open Cls

/-! ## 1. definitions -/

/-- a non-empty class string that is a single cluster -/
def SelfContained (c : List Cls) : Prop := c ≠ [] ∧ split c = [c.length]

/-- the concatenation of `c₁` and `c₂` has exactly the two ends `|c₁|` and `|c₁| + |c₂|` -/
def BreakJunction (c₁ c₂ : List Cls) : Prop :=
  split (c₁ ++ c₂) = [c₁.length, c₁.length + c₂.length]

instance (c : List Cls) : Decidable (SelfContained c) := by unfold SelfContained; infer_instance
instance (c₁ c₂ : List Cls) : Decidable (BreakJunction c₁ c₂) := by
  unfold BreakJunction; infer_instance

/-- every token is self-contained and every adjacent pair is a break junction (index form) -/
def StableSeq (ts : List (List Cls)) : Prop :=
  (∀ c ∈ ts, c ≠ [] ∧ split c = [c.length]) ∧
  ∀ i, i + 1 < ts.length →
    split (ts[i]! ++ ts[i+1]!) = [ts[i]!.length, ts[i]!.length + ts[i+1]!.length]

/-- the same, by recursion on the list -/
def StableSeqR : List (List Cls) → Prop
  | [] => True
  | [c] => SelfContained c
  | c :: c₂ :: rest => SelfContained c ∧ BreakJunction c c₂ ∧ StableSeqR (c₂ :: rest)

/-- running sums of the lengths, starting at `k` -/
def cumEnds {β : Type} (k : Nat) : List (List β) → List Nat
  | [] => []
  | c :: rest => (k + c.length) :: cumEnds (k + c.length) rest

/-- the cluster ends of a concatenation of tokens: prefix sums of the lengths -/
def endsOf {β : Type} (ts : List (List β)) : List Nat := cumEnds 0 ts

theorem cumEnds_length {β : Type} (k : Nat) (ts : List (List β)) :
    (cumEnds k ts).length = ts.length := by
  induction ts generalizing k with
  | nil => rfl
  | cons c rest ih => simp only [cumEnds, List.length_cons, ih]

theorem endsOf_length {β : Type} (ts : List (List β)) : (endsOf ts).length = ts.length :=
  cumEnds_length 0 ts

theorem cumEnds_map {β γ : Type} (f : β → γ) (k : Nat) (ts : List (List β)) :
    cumEnds k (ts.map (·.map f)) = cumEnds k ts := by
  induction ts generalizing k with
  | nil => rfl
  | cons c rest ih => simp only [List.map_cons, cumEnds, List.length_map, ih]

theorem endsOf_map {β γ : Type} (f : β → γ) (ts : List (List β)) :
    endsOf (ts.map (·.map f)) = endsOf ts := cumEnds_map f 0 ts

/-- `endsOf` really is the list of prefix sums: its `i`-th entry is the length of the first
`i + 1` tokens -/
theorem cumEnds_getElem {β : Type} (k : Nat) (ts : List (List β)) (i : Nat) (hi : i < ts.length) :
    (cumEnds k ts)[i]'(by rw [cumEnds_length]; exact hi) = k + (ts.take (i + 1)).flatten.length := by
  induction ts generalizing k i with
  | nil => simp at hi
  | cons c rest ih =>
    cases i with
    | zero => simp [cumEnds]
    | succ i =>
      have hi' : i < rest.length := by simpa using hi
      simp only [cumEnds, List.getElem_cons_succ, ih (k + c.length) i hi', List.take_succ_cons,
        List.flatten_cons, List.length_append]
      omega

theorem endsOf_getElem {β : Type} (ts : List (List β)) (i : Nat) (hi : i < ts.length) :
    (endsOf ts)[i]'(by rw [endsOf_length]; exact hi) = (ts.take (i + 1)).flatten.length := by
  have := cumEnds_getElem 0 ts i hi
  simpa [endsOf] using this

/-! ### index form ↔ recursive form -/

theorem getElem!_of_lt {β : Type} [Inhabited β] (l : List β) (i : Nat) (h : i < l.length) :
    l[i]! = l[i] := by
  simp [h]

theorem StableSeq.tail {c : List Cls} {rest : List (List Cls)} (h : StableSeq (c :: rest)) :
    StableSeq rest := by
  refine ⟨fun x hx => h.1 x (List.mem_cons_of_mem _ hx), ?_⟩
  intro i hi
  have := h.2 (i + 1) (by simpa using hi)
  simpa using this

theorem stableSeq_iff_R (ts : List (List Cls)) : StableSeq ts ↔ StableSeqR ts := by
  induction ts with
  | nil => simp [StableSeq, StableSeqR]
  | cons c rest ih =>
    cases rest with
    | nil => simp [StableSeq, StableSeqR, SelfContained]
    | cons c₂ rest' =>
      constructor
      · intro h
        refine ⟨h.1 c List.mem_cons_self, ?_, ih.mp h.tail⟩
        have := h.2 0 (by simp)
        simpa [BreakJunction] using this
      · rintro ⟨h1, h2, h3⟩
        have h3' := ih.mpr h3
        refine ⟨?_, ?_⟩
        · intro x hx
          rcases List.mem_cons.mp hx with rfl | hx
          · exact h1
          · exact h3'.1 x hx
        · intro i hi
          cases i with
          | zero => simpa [BreakJunction] using h2
          | succ i =>
            have := h3'.2 i (by simpa using hi)
            simpa using this

/-! ## 2. the key theorem -/

theorem splitQ_init_shift (i : Nat) (after : Option Cls) (l : List Cls) :
    splitQ St.init i after l = (splitQ St.init 0 after l).map (· + i) := by
  have := splitQ_shift St.init 0 i after l
  simpa using this

/-- a break junction means: the automaton, after reading `c₁`, breaks before the head of `c₂` -/
theorem BreakJunction.brk {c₁ c₂ : List Cls} (h : BreakJunction c₁ c₂) (h1 : c₁ ≠ []) :
    brkD (run St.init c₁) c₂.head? = true := by
  unfold BreakJunction at h
  rw [split_eq_splitQ, splitQ_append] at h
  have hm : c₁.length ∈ splitQ St.init 0 (look c₂ none) c₁ ++
      splitQ (run St.init c₁) (0 + c₁.length) none c₂ := by rw [h]; simp
  rcases List.mem_append.mp hm with hm | hm
  · have : 0 + c₁.length ∈ splitQ St.init 0 (look c₂ none) c₁ := by simpa using hm
    rw [← look_none]
    exact (top_mem_splitQ _ _ _ _ h1).mp this
  · have := splitQ_bounds _ _ _ _ _ hm
    omega

/-- a self-contained token followed by anything it breaks before keeps its single end -/
theorem SelfContained.splitQ_eq {c : List Cls} (h : SelfContained c) (i : Nat) (after : Option Cls)
    (hb : brkD (run St.init c) after = true) :
    splitQ St.init i after c = [i + c.length] := by
  have e1 : splitQ St.init i after c = splitQ St.init i none c :=
    splitQ_after _ _ _ _ _ (by rw [hb]; rfl) h.1
  rw [e1, splitQ_init_shift, ← split_eq_splitQ, h.2]
  simp only [List.map_cons, List.map_nil]
  rw [Nat.add_comm]

theorem splitQ_flatten_R (ts : List (List Cls)) (h : StableSeqR ts) (i : Nat) :
    splitQ St.init i none ts.flatten = cumEnds i ts := by
  induction ts generalizing i with
  | nil => rfl
  | cons c rest ih =>
    cases rest with
    | nil =>
      have h : SelfContained c := h
      simp only [List.flatten_cons, List.flatten_nil, List.append_nil, cumEnds]
      exact h.splitQ_eq i none rfl
    | cons c₂ rest' =>
      obtain ⟨h1, h2, h3⟩ := h
      have hc₂ : c₂ ≠ [] := by
        cases rest' with
        | nil => exact (show SelfContained c₂ from h3).1
        | cons _ _ => exact h3.1.1
      have hb := h2.brk h1.1
      have hhead : (c₂ :: rest').flatten.head? = c₂.head? := by
        cases c₂ with
        | nil => exact absurd rfl hc₂
        | cons x xs => rfl
      rw [List.flatten_cons, splitQ_append, look_none, hhead, h1.splitQ_eq i _ hb,
        splitQ_restart _ _ _ _ (good_run _ _ good_init) (by rw [hhead]; exact hb),
        ih h3 (i + c.length)]
      rfl

/-- **key theorem**: on a stable sequence the cluster ends of the concatenation are exactly the
prefix sums of the token lengths -/
theorem split_flatten (ts : List (List Cls)) (h : StableSeq ts) : split ts.flatten = endsOf ts := by
  rw [split_eq_splitQ]
  exact splitQ_flatten_R ts ((stableSeq_iff_R ts).mp h) 0

/-! ## 3. rune level -/

def StableRunes (toks : List (List Int)) : Prop := StableSeq (toks.map (·.map classOf))

theorem splitRunes_flatten_stable (toks : List (List Int)) (h : StableRunes toks) :
    splitRunes toks.flatten = endsOf toks := by
  unfold splitRunes
  rw [List.map_flatten, split_flatten _ h, endsOf_map]

theorem StableRunes.ne_nil {toks : List (List Int)} (h : StableRunes toks) :
    ∀ t ∈ toks, t ≠ [] := by
  intro t ht
  have := (h.1 (t.map classOf) (List.mem_map_of_mem ht)).1
  simpa using this

theorem clustersFrom_cumEnds {β : Type} (pre : List β) (toks : List (List β)) :
    clustersFrom (pre ++ toks.flatten) pre.length (cumEnds pre.length toks) = toks := by
  induction toks generalizing pre with
  | nil => rfl
  | cons t rest ih =>
    have e : pre.length + t.length = (pre ++ t).length := by simp
    simp only [cumEnds, clustersFrom, List.flatten_cons, sliceRunes]
    rw [e, ← List.append_assoc, ih (pre ++ t)]
    congr 1
    rw [List.append_assoc, List.drop_left, List.length_append, Nat.add_sub_cancel_left,
      List.take_left]

theorem clusters_flatten_stable (toks : List (List Int)) (h : StableRunes toks) :
    clusters cxA toks.flatten = toks := by
  show clustersFrom toks.flatten 0 (splitRunes toks.flatten) = toks
  rw [splitRunes_flatten_stable toks h]
  exact clustersFrom_cumEnds [] toks

theorem gLen_flatten_stable (toks : List (List Int)) (h : StableRunes toks) :
    gLen cxA toks.flatten = toks.length := by
  show (splitRunes toks.flatten).length = toks.length
  rw [splitRunes_flatten_stable toks h, endsOf_length]

/-! ### generic: `gSub`, `gCharAt`, `gSetCharAt` in terms of `clusters` (any well-formed context) -/

section generic
variable {α : Type} [DecidableEq α] {cx : Ctx α}

theorem cOff_succ (e : List Nat) (k : Nat) : cOff e (k + 1) = e.getD k 0 := by
  simp [cOff]

omit [DecidableEq α] in
theorem gSub_eq_clusters (hwf : cx.WF) (s : List α) (a b : Nat) (hab : a ≤ b)
    (hb : b ≤ (clusters cx s).length) :
    gSub cx s a b = (((clusters cx s).drop a).take (b - a)).flatten := by
  rw [clusters_mid hwf s hab hb]
  rw [clusters_length] at hb
  unfold gSub
  simp only
  rw [rangeToIndexes_id _ _ _ (by omega) (by omega) (by omega)]
  simp only [Int.toNat_natCast]
  split
  · rename_i heq
    have : a = b := by
      have h' : (a : Int) = b := by simpa using heq
      omega
    subst this
    simp [sliceRunes]
  · rename_i hne
    have hne : a ≠ b := by intro e; apply hne; simp [e]
    have hb0 : b ≠ 0 := by omega
    congr 1
    · unfold cOff
      by_cases ha : a = 0
      · subst ha; simp
      · rw [if_pos (by omega), if_neg ha]
    · unfold cOff
      rw [if_neg hb0]

theorem gCharAt_eq_clusters (hwf : cx.WF) (s : List α) (i : Nat) (hi : i < (clusters cx s).length) :
    gCharAt cx s i = .ok (clusters cx s)[i] := by
  have hi' : ((i : Nat) : Int) < gLen cx s := by
    rw [gLen_eq_clusters_length]; omega
  rw [gCharAt_eq s i (by omega) hi']
  have hm := clusters_mid hwf s (Nat.le_add_right i 1) hi
  have e1 : ((clusters cx s).drop i).take (i + 1 - i) = [(clusters cx s)[i]] := by
    rw [Nat.add_sub_cancel_left, List.drop_eq_getElem_cons hi]
    rfl
  rw [e1] at hm
  simp only [List.flatten_cons, List.flatten_nil, List.append_nil] at hm
  rw [hm, cOff_succ, Int.toNat_natCast, clusterSpan_fst]
  rfl

theorem gSetCharAt_eq_clusters (hwf : cx.WF) (s : List α) (i : Nat) (r : List α) (hr : r ≠ [])
    (hi : i < (clusters cx s).length) :
    gSetCharAt cx s i r = .ok ((clusters cx s).set i r).flatten := by
  have hi' : ((i : Nat) : Int) < gLen cx s := by
    rw [gLen_eq_clusters_length]; omega
  rw [gSetCharAt_eq s i r hr (by omega) hi', Int.toNat_natCast, clusterSpan_fst]
  have e2 : (clusterSpan (cx.ends s) i).2 = cOff (cx.ends s) (i + 1) := by
    rw [cOff_succ]; rfl
  rw [e2, ← clusters_take hwf s i (by omega), ← clusters_drop hwf s (i + 1) (by omega),
    List.set_eq_take_append_cons_drop, if_pos hi]
  simp only [List.flatten_append, List.flatten_cons, List.append_assoc]

end generic

theorem gSub_flatten_stable (toks : List (List Int)) (h : StableRunes toks) (a b : Nat)
    (hab : a ≤ b) (hb : b ≤ toks.length) :
    gSub cxA toks.flatten a b = ((toks.drop a).take (b - a)).flatten := by
  have := gSub_eq_clusters cxA_WF toks.flatten a b hab
    (by rw [clusters_flatten_stable toks h]; exact hb)
  rwa [clusters_flatten_stable toks h] at this

theorem gCharAt_flatten_stable (toks : List (List Int)) (h : StableRunes toks) (i : Nat)
    (hi : i < toks.length) :
    gCharAt cxA toks.flatten i = .ok toks[i] := by
  have := gCharAt_eq_clusters cxA_WF toks.flatten i
    (by rw [clusters_flatten_stable toks h]; exact hi)
  rw [this]
  simp only [clusters_flatten_stable toks h]

/-- replacing a cluster (the result is in general NOT a stable sequence again; this is only the
text-level statement) -/
theorem gSetCharAt_flatten_stable (toks : List (List Int)) (h : StableRunes toks) (i : Nat)
    (r : List Int) (hr : r ≠ []) (hi : i < toks.length) :
    gSetCharAt cxA toks.flatten i r = .ok (toks.set i r).flatten := by
  have := gSetCharAt_eq_clusters cxA_WF toks.flatten i r hr
    (by rw [clusters_flatten_stable toks h]; exact hi)
  rwa [clusters_flatten_stable toks h] at this

/-! ## 4. closure -/

theorem StableSeqR.tail {c : List Cls} {rest : List (List Cls)} (h : StableSeqR (c :: rest)) :
    StableSeqR rest := by
  cases rest with
  | nil => trivial
  | cons _ _ => exact h.2.2

theorem StableSeqR.append_left {xs ys : List (List Cls)} (h : StableSeqR (xs ++ ys)) :
    StableSeqR xs := by
  induction xs with
  | nil => trivial
  | cons c rest ih =>
    cases rest with
    | nil =>
      cases ys with
      | nil => exact h
      | cons _ _ => exact h.1
    | cons c₂ rest' => exact ⟨h.1, h.2.1, ih h.2.2⟩

theorem StableSeqR.append_right {xs ys : List (List Cls)} (h : StableSeqR (xs ++ ys)) :
    StableSeqR ys := by
  induction xs with
  | nil => exact h
  | cons c rest ih => exact ih (StableSeqR.tail h)

theorem StableSeq.append_left {xs ys : List (List Cls)} (h : StableSeq (xs ++ ys)) :
    StableSeq xs := (stableSeq_iff_R _).mpr ((stableSeq_iff_R _).mp h).append_left

theorem StableSeq.append_right {xs ys : List (List Cls)} (h : StableSeq (xs ++ ys)) :
    StableSeq ys := (stableSeq_iff_R _).mpr ((stableSeq_iff_R _).mp h).append_right

theorem StableSeq.take {ts : List (List Cls)} (h : StableSeq ts) (k : Nat) :
    StableSeq (ts.take k) := by
  rw [← List.take_append_drop k ts] at h
  exact h.append_left

theorem StableSeq.drop {ts : List (List Cls)} (h : StableSeq ts) (k : Nat) :
    StableSeq (ts.drop k) := by
  rw [← List.take_append_drop k ts] at h
  exact h.append_right

theorem StableRunes.append_left {xs ys : List (List Int)} (h : StableRunes (xs ++ ys)) :
    StableRunes xs := by
  unfold StableRunes at h ⊢
  rw [List.map_append] at h
  exact h.append_left

theorem StableRunes.append_right {xs ys : List (List Int)} (h : StableRunes (xs ++ ys)) :
    StableRunes ys := by
  unfold StableRunes at h ⊢
  rw [List.map_append] at h
  exact h.append_right

theorem StableRunes.take {toks : List (List Int)} (h : StableRunes toks) (k : Nat) :
    StableRunes (toks.take k) := by
  rw [← List.take_append_drop k toks] at h
  exact h.append_left

theorem StableRunes.drop {toks : List (List Int)} (h : StableRunes toks) (k : Nat) :
    StableRunes (toks.drop k) := by
  rw [← List.take_append_drop k toks] at h
  exact h.append_right

theorem StableRunes.slice {toks : List (List Int)} (h : StableRunes toks) (a n : Nat) :
    StableRunes ((toks.drop a).take n) := (h.drop a).take n

/-! ### a decidable sufficient condition on a finite vocabulary -/

/-- every word of `V` is a single cluster and EVERY ordered pair of words is a break junction -/
def VocabStable (V : List (List Int)) : Bool :=
  (V.all fun v => decide (SelfContained (v.map classOf))) &&
  (V.all fun v₁ => V.all fun v₂ => decide (BreakJunction (v₁.map classOf) (v₂.map classOf)))

theorem stableRunes_of_vocab (V : List (List Int)) (hV : VocabStable V = true)
    (toks : List (List Int)) (ht : ∀ t ∈ toks, t ∈ V) : StableRunes toks := by
  unfold VocabStable at hV
  rw [Bool.and_eq_true, List.all_eq_true, List.all_eq_true] at hV
  obtain ⟨hs, hj⟩ := hV
  have hs' : ∀ v ∈ V, SelfContained (v.map classOf) := fun v hv => of_decide_eq_true (hs v hv)
  have hj' : ∀ v₁ ∈ V, ∀ v₂ ∈ V, BreakJunction (v₁.map classOf) (v₂.map classOf) := by
    intro v₁ h1 v₂ h2
    have := hj v₁ h1
    rw [List.all_eq_true] at this
    exact of_decide_eq_true (this v₂ h2)
  unfold StableRunes
  rw [stableSeq_iff_R]
  induction toks with
  | nil => trivial
  | cons t rest ih =>
    have iht := ih (fun x hx => ht x (List.mem_cons_of_mem _ hx))
    cases rest with
    | nil => exact hs' t (ht t List.mem_cons_self)
    | cons t₂ rest' =>
      exact ⟨hs' t (ht t List.mem_cons_self),
        hj' t (ht t List.mem_cons_self) t₂ (ht t₂ (List.mem_cons_of_mem _ List.mem_cons_self)),
        iht⟩

/-- a small vocabulary: `a`, space, `e` + combining acute, the flag DE, hyphen -/
def demoVocab : List (List Int) := [[0x61], [0x20], [0x65, 0x301], [0x1F1E9, 0x1F1EA], [0x2D]]

theorem demoVocab_stable : VocabStable demoVocab = true := by decide +kernel

example : clusters cxA [0x61, 0x65, 0x301, 0x20, 0x1F1E9, 0x1F1EA, 0x1F1E9, 0x1F1EA, 0x2D] =
    [[0x61], [0x65, 0x301], [0x20], [0x1F1E9, 0x1F1EA], [0x1F1E9, 0x1F1EA], [0x2D]] :=
  clusters_flatten_stable [[0x61], [0x65, 0x301], [0x20], [0x1F1E9, 0x1F1EA], [0x1F1E9, 0x1F1EA], [0x2D]]
    (stableRunes_of_vocab demoVocab demoVocab_stable _ (by decide))

/-- the hypotheses are needed: a base letter and a combining mark as separate tokens merge -/
example : clusters cxA [[0x65], [0x301]].flatten ≠ [[0x65], [0x301]] := by decide +kernel

/-- self-containedness alone is not enough: two regional indicators are each a single cluster, but
the junction between them is not a boundary -/
example : SelfContained ([0x1F1E9].map classOf) ∧ SelfContained ([0x1F1EA].map classOf) ∧
    ¬ BreakJunction ([0x1F1E9].map classOf) ([0x1F1EA].map classOf) ∧
    clusters cxA [[0x1F1E9], [0x1F1EA]].flatten = [[0x1F1E9, 0x1F1EA]] := by decide +kernel

end RosedVerif
