/-
The position family: character selection, Insert/Delete/Overtype and Commit of the
MODEL equal their SPECIFICATION (C04, C05, C09).
-/
import RosedVerif.Model.Ops
import RosedVerif.Spec.Pos
namespace RosedVerif

/-! ## A. arithmetic -/

theorem rangeToIndexes_eq (n s e : Int) (hn : 0 ≤ n) :
    rangeToIndexes n s e = Spec.normRangeRaw n s e := by
  simp only [rangeToIndexes, Spec.normRangeRaw, Spec.normPosRaw, Prod.mk.injEq]
  constructor <;> (repeat' split) <;> omega

theorem rangeToIndexes_bounds (n s e : Int) (hn : 0 ≤ n) :
    0 ≤ (rangeToIndexes n s e).1 ∧ (rangeToIndexes n s e).1 ≤ (rangeToIndexes n s e).2 ∧
      (rangeToIndexes n s e).2 ≤ n := by
  simp only [rangeToIndexes]
  refine ⟨?_, ?_, ?_⟩ <;> (repeat' split) <;> omega

/-- `normRange` is `normRangeRaw` after the End sentinel has been mapped to `n` -/
theorem normRange_eq_raw (n s e : Int) :
    Spec.normRange n s e =
      Spec.normRangeRaw n (if s == Gen.endSentinel then n else s)
        (if e == Gen.endSentinel then n else e) := rfl

/-- the model's normalisation (End ↦ n, then `rangeToIndexes`) is the documented one -/
theorem rangeToIndexes_eq_normRange (n s e : Int) (hn : 0 ≤ n) :
    rangeToIndexes n (if s == Gen.endSentinel then n else s)
        (if e == Gen.endSentinel then n else e) = Spec.normRange n s e := by
  rw [normRange_eq_raw, rangeToIndexes_eq _ _ _ hn]

theorem normRange_nat (n : Nat) (s e : Int) :
    ∃ a b : Nat, a ≤ b ∧ b ≤ n ∧ Spec.normRange (n : Int) s e = ((a : Int), (b : Int)) := by
  have hb := rangeToIndexes_bounds (n : Int) (if s == Gen.endSentinel then (n : Int) else s)
    (if e == Gen.endSentinel then (n : Int) else e) (Int.natCast_nonneg n)
  rw [rangeToIndexes_eq_normRange _ _ _ (Int.natCast_nonneg n)] at hb
  refine ⟨(Spec.normRange (n : Int) s e).1.toNat, (Spec.normRange (n : Int) s e).2.toNat,
    by omega, by omega, ?_⟩
  apply Prod.ext <;> simp only [] <;> omega

/-! ## B. partitions -/

structure Part (e : List Nat) (n : Nat) : Prop where
  sorted : e.Pairwise (· < ·)
  pos : ∀ j ∈ e, 0 < j ∧ j ≤ n
  last : n ≠ 0 → e.getLast? = some n

def Ctx.WF {α : Type} (cx : Ctx α) : Prop :=
  (∀ s, Part (cx.ends s) s.length) ∧ (∀ a, 0 < cx.blen a)

section partitions
variable {α : Type}

/-- the generalised invariant for `clustersFrom s prev e` -/
structure PartFrom (prev : Nat) (e : List Nat) (n : Nat) : Prop where
  sorted : (prev :: e).Pairwise (· < ·)
  le : ∀ j ∈ prev :: e, j ≤ n
  last : (prev :: e).getLast? = some n

theorem getD_mem_p (e : List Nat) (k : Nat) (hk : k < e.length) : e.getD k 0 ∈ e := by
  rw [List.getD_eq_getElem?_getD, List.getElem?_eq_getElem hk]
  exact List.getElem_mem hk

theorem Part.nil_of_zero {e : List Nat} (h : Part e 0) : e = [] := by
  cases e with
  | nil => rfl
  | cons x xs =>
    have := h.pos x (List.mem_cons_self)
    omega

theorem Part.toFrom {e : List Nat} {n : Nat} (h : Part e n) : PartFrom 0 e n := by
  refine ⟨?_, ?_, ?_⟩
  · exact List.pairwise_cons.2 ⟨fun a ha => (h.pos a ha).1, h.sorted⟩
  · intro j hj
    rcases List.mem_cons.1 hj with rfl | hj
    · exact Nat.zero_le _
    · exact (h.pos j hj).2
  · by_cases hn : n = 0
    · subst hn
      rw [h.nil_of_zero]; rfl
    · have hl := h.last hn
      cases e with
      | nil => simp at hl
      | cons x xs => rw [List.getLast?_cons_cons]; exact hl

theorem PartFrom.tail {prev x : Nat} {es : List Nat} {n : Nat} (h : PartFrom prev (x :: es) n) :
    PartFrom x es n := by
  refine ⟨(List.pairwise_cons.1 h.sorted).2, fun j hj => h.le j (List.mem_cons_of_mem _ hj), ?_⟩
  have := h.last
  rwa [List.getLast?_cons_cons] at this

theorem PartFrom.lt_head {prev x : Nat} {es : List Nat} {n : Nat} (h : PartFrom prev (x :: es) n) :
    prev < x := (List.pairwise_cons.1 h.sorted).1 x List.mem_cons_self

theorem PartFrom.length_le {prev : Nat} {e : List Nat} {n : Nat} (h : PartFrom prev e n) :
    prev + e.length ≤ n := by
  induction e generalizing prev with
  | nil => exact h.le prev List.mem_cons_self
  | cons x es ih =>
    have := ih h.tail
    have := h.lt_head
    simp only [List.length_cons]; omega

theorem Part.length_le {e : List Nat} {n : Nat} (h : Part e n) : e.length ≤ n := by
  have := h.toFrom.length_le; omega

/-- rune offset at which cluster `k` starts (`= n` for `k = e.length`) -/
def cOff (e : List Nat) (k : Nat) : Nat := if k = 0 then 0 else e.getD (k - 1) 0

theorem clusterSpan_fst (e : List Nat) (k : Nat) : (clusterSpan e k).1 = cOff e k := by
  simp only [clusterSpan, cOff]
  by_cases hk : k = 0
  · simp [hk]
  · have : k > 0 := Nat.pos_of_ne_zero hk
    simp [hk, this]

theorem clustersFrom_length' (s : List α) (prev : Nat) (e : List Nat) :
    (clustersFrom s prev e).length = e.length := by
  induction e generalizing prev with
  | nil => rfl
  | cons x es ih => simp only [clustersFrom, List.length_cons, ih]

theorem clustersFrom_flatten_from (s : List α) (prev : Nat) (e : List Nat)
    (h : PartFrom prev e s.length) : (clustersFrom s prev e).flatten = s.drop prev := by
  induction e generalizing prev with
  | nil =>
    have := h.last
    simp only [List.getLast?_singleton, Option.some.injEq] at this
    subst this
    simp [clustersFrom]
  | cons x es ih =>
    have hlt := h.lt_head
    simp only [clustersFrom, List.flatten_cons, ih x h.tail, sliceRunes]
    have : s.drop x = (s.drop prev).drop (x - prev) := by
      rw [List.drop_drop]; congr 1; omega
    rw [this, List.take_append_drop]

theorem clustersFrom_nonempty_from (s : List α) (prev : Nat) (e : List Nat)
    (h : PartFrom prev e s.length) : ∀ c ∈ clustersFrom s prev e, c ≠ [] := by
  induction e generalizing prev with
  | nil => intro c hc; simp [clustersFrom] at hc
  | cons x es ih =>
    intro c hc
    simp only [clustersFrom, List.mem_cons] at hc
    rcases hc with rfl | hc
    · have hlt := h.lt_head
      have hle := h.le x (List.mem_cons_of_mem _ List.mem_cons_self)
      intro h0
      have := congrArg List.length h0
      simp only [sliceRunes, List.length_take, List.length_drop, List.length_nil] at this
      omega
    · exact ih x h.tail c hc

theorem PartFrom.le_getD {prev : Nat} {e : List Nat} {n : Nat} (h : PartFrom prev e n)
    (k : Nat) (hk : k < e.length) : prev < e.getD k 0 := by
  have hm : e.getD k 0 ∈ e := getD_mem_p e k hk
  exact (List.pairwise_cons.1 h.sorted).1 _ hm

theorem clustersFrom_take_from (s : List α) (prev : Nat) (e : List Nat)
    (h : PartFrom prev e s.length) (k : Nat) (hk : k ≤ e.length) :
    ((clustersFrom s prev e).take k).flatten =
      (s.drop prev).take ((if k = 0 then prev else e.getD (k - 1) 0) - prev) := by
  induction e generalizing prev k with
  | nil =>
    have : k = 0 := by simpa using hk
    subst this; simp [clustersFrom]
  | cons x es ih =>
    cases k with
    | zero => simp
    | succ k =>
      have hk' : k ≤ es.length := by simpa using hk
      have hlt := h.lt_head
      simp only [clustersFrom, List.take_succ_cons, List.flatten_cons, ih x h.tail k hk',
        sliceRunes, Nat.add_sub_cancel, Nat.succ_ne_zero, if_false]
      -- y is the end of the (k+1)-st cluster
      have hy : (x :: es).getD k 0 = if k = 0 then x else es.getD (k - 1) 0 := by
        cases k with
        | zero => simp
        | succ k => simp
      rw [hy]
      have hxy : x ≤ (if k = 0 then x else es.getD (k - 1) 0) := by
        split
        · exact Nat.le_refl _
        · exact Nat.le_of_lt (h.tail.le_getD (k - 1) (by omega))
      generalize (if k = 0 then x else es.getD (k - 1) 0) = y at hxy ⊢
      have h1 : s.drop x = (s.drop prev).drop (x - prev) := by
        rw [List.drop_drop]; congr 1; omega
      have h2 : y - prev = (x - prev) + (y - x) := by omega
      rw [h1, h2, List.take_add]

variable {s : List α} {e : List Nat}

theorem clustersFrom_flatten (h : Part e s.length) : (clustersFrom s 0 e).flatten = s := by
  rw [clustersFrom_flatten_from s 0 e h.toFrom, List.drop_zero]

theorem clustersFrom_length (_h : Part e s.length) : (clustersFrom s 0 e).length = e.length :=
  clustersFrom_length' s 0 e

theorem clustersFrom_nonempty (h : Part e s.length) : ∀ c ∈ clustersFrom s 0 e, c ≠ [] :=
  clustersFrom_nonempty_from s 0 e h.toFrom

theorem clustersFrom_take (h : Part e s.length) (k : Nat) (hk : k ≤ e.length) :
    ((clustersFrom s 0 e).take k).flatten = s.take (if k = 0 then 0 else e.getD (k - 1) 0) := by
  rw [clustersFrom_take_from s 0 e h.toFrom k hk, List.drop_zero, Nat.sub_zero]

theorem clustersFrom_take_cOff (h : Part e s.length) (k : Nat) (hk : k ≤ e.length) :
    ((clustersFrom s 0 e).take k).flatten = s.take (cOff e k) :=
  clustersFrom_take h k hk

theorem Part.cOff_length (h : Part e s.length) : cOff e e.length = s.length := by
  unfold cOff
  by_cases hn : s.length = 0
  · have : e = [] := by
      have h' := h; rw [hn] at h'; exact h'.nil_of_zero
    subst this; simp [hn]
  · have hl := h.last hn
    have hne : e ≠ [] := by rintro rfl; simp at hl
    have hlen : e.length ≠ 0 := by simpa using hne
    rw [if_neg hlen]
    rw [List.getLast?_eq_getElem?] at hl
    rw [List.getD_eq_getElem?_getD, hl]; rfl

theorem Part.cOff_le (h : Part e s.length) {a : Nat} (ha : a ≤ e.length) :
    cOff e a ≤ s.length := by
  unfold cOff
  split
  · omega
  · exact (h.pos _ (getD_mem_p e (a - 1) (by omega))).2

theorem Part.cOff_mono (h : Part e s.length) {a b : Nat} (hab : a ≤ b) (hb : b ≤ e.length) :
    cOff e a ≤ cOff e b := by
  -- compare the lengths of the two prefixes
  have ha := clustersFrom_take_cOff h a (by omega)
  have hb' := clustersFrom_take_cOff h b hb
  have hla := h.cOff_le (a := a) (by omega)
  have hlb := h.cOff_le hb
  have h1 : (((clustersFrom s 0 e).take a).flatten).length ≤
      (((clustersFrom s 0 e).take b).flatten).length := by
    have : (clustersFrom s 0 e).take b =
        (clustersFrom s 0 e).take a ++ ((clustersFrom s 0 e).drop a).take (b - a) := by
      have : b = a + (b - a) := by omega
      conv => lhs; rw [this, List.take_add]
    rw [this, List.flatten_append, List.length_append]; omega
  rw [ha, hb', List.length_take, List.length_take] at h1
  omega

/-- non-vacuity: the trivial segmentation (every atom its own cluster, instance B) is a partition -/
theorem part_range' (n : Nat) : Part (List.range' 1 n) n := by
  refine ⟨?_, ?_, ?_⟩
  · exact List.pairwise_lt_range'
  · intro j hj
    rw [List.mem_range'_1] at hj
    omega
  · intro hn
    rw [List.getLast?_range']
    rw [if_neg hn]
    congr 1
    omega

end partitions

/-! ## C. byte offsets -/

section bytes
variable {α : Type} (cx : Ctx α)

theorem byteLen_foldl (s : List α) (k : Nat) :
    s.foldl (fun n c => n + cx.blen c) k = k + byteLen cx s := by
  unfold byteLen
  induction s generalizing k with
  | nil => simp
  | cons c t ih =>
    simp only [List.foldl_cons]
    rw [ih (k + cx.blen c), ih (0 + cx.blen c)]; omega

@[simp] theorem byteLen_nil : byteLen cx ([] : List α) = 0 := rfl

theorem byteLen_cons (c : α) (t : List α) : byteLen cx (c :: t) = cx.blen c + byteLen cx t := by
  show (c :: t).foldl (fun n c => n + cx.blen c) 0 = _
  rw [List.foldl_cons, byteLen_foldl]; omega

theorem byteLen_append (a b : List α) : byteLen cx (a ++ b) = byteLen cx a + byteLen cx b := by
  induction a with
  | nil => simp
  | cons c t ih => simp only [List.cons_append, byteLen_cons, ih]; omega

theorem byteLen_take_le (s : List α) (k : Nat) : byteLen cx (s.take k) ≤ byteLen cx s := by
  conv => rhs; rw [← List.take_append_drop k s]
  rw [byteLen_append]; omega

theorem take_eq_take_append (s : List α) {i j : Nat} (hij : i ≤ j) :
    s.take j = s.take i ++ (s.drop i).take (j - i) := by
  have : j = i + (j - i) := by omega
  conv => lhs; rw [this, List.take_add]

theorem byteLen_take_mono (s : List α) {i j : Nat} (hij : i ≤ j) :
    byteLen cx (s.take i) ≤ byteLen cx (s.take j) := by
  rw [take_eq_take_append s hij, byteLen_append]; omega

variable {cx}

theorem length_le_byteLen (hpos : ∀ a, 0 < cx.blen a) (s : List α) : s.length ≤ byteLen cx s := by
  induction s with
  | nil => simp
  | cons c t ih => have := hpos c; simp only [List.length_cons, byteLen_cons]; omega

theorem eq_nil_of_byteLen_eq_zero (hpos : ∀ a, 0 < cx.blen a) {s : List α}
    (h : byteLen cx s = 0) : s = [] := by
  have := length_le_byteLen hpos s
  exact List.eq_nil_of_length_eq_zero (by omega)

theorem atomsForBytes_zero (s : List α) : atomsForBytes cx s 0 = some 0 := by
  cases s <;> rfl

theorem atomsForBytes_cons (hpos : ∀ a, 0 < cx.blen a) (c : α) (t : List α) (m : Nat)
    (hm : cx.blen c ≤ m) :
    atomsForBytes cx (c :: t) m = (atomsForBytes cx t (m - cx.blen c)).map (· + 1) := by
  have := hpos c
  cases m with
  | zero => omega
  | succ m => simp only [atomsForBytes]; rw [if_pos ⟨hm, this⟩]

theorem atomsForBytes_byteLen_take (hpos : ∀ a, 0 < cx.blen a) (s : List α) (k : Nat)
    (hk : k ≤ s.length) : atomsForBytes cx s (byteLen cx (s.take k)) = some k := by
  induction s generalizing k with
  | nil =>
    have : k = 0 := by simpa using hk
    subst this; rfl
  | cons c t ih =>
    cases k with
    | zero => simp only [List.take_zero, byteLen_nil]; exact atomsForBytes_zero _
    | succ k =>
      have hk' : k ≤ t.length := by simpa using hk
      rw [List.take_succ_cons, byteLen_cons, atomsForBytes_cons hpos _ _ _ (by omega)]
      rw [show cx.blen c + byteLen cx (t.take k) - cx.blen c = byteLen cx (t.take k) by omega,
        ih k hk']
      rfl

theorem byteSlice_take_drop (hpos : ∀ a, 0 < cx.blen a) (s : List α) (i j : Nat) (hij : i ≤ j)
    (hj : j ≤ s.length) :
    byteSlice cx s (byteLen cx (s.take i)) (byteLen cx (s.take j)) =
      .ok ((s.drop i).take (j - i)) := by
  have h1 := byteLen_take_mono cx s hij
  have h2 := byteLen_take_le cx s j
  unfold byteSlice
  simp only []
  rw [if_neg (by omega)]
  by_cases hab : byteLen cx (s.take i) = byteLen cx (s.take j)
  · have hmid : (s.drop i).take (j - i) = [] := by
      apply eq_nil_of_byteLen_eq_zero hpos
      have := byteLen_append cx (s.take i) ((s.drop i).take (j - i))
      rw [← take_eq_take_append s hij] at this
      omega
    rw [if_pos (by simp [hab]), hmid]; rfl
  · rw [if_neg (by simp only [beq_iff_eq, Int.natCast_inj]; exact hab)]
    simp only [Int.toNat_natCast]
    rw [atomsForBytes_byteLen_take hpos s i (by omega), atomsForBytes_byteLen_take hpos s j hj]
    rfl

theorem spliceBytes_take_drop (hpos : ∀ a, 0 < cx.blen a) (s t : List α) (i j : Nat)
    (hij : i ≤ j) (hj : j ≤ s.length) :
    spliceBytes cx s (byteLen cx (s.take i)) (byteLen cx (s.take j)) t =
      .ok (s.take i ++ t ++ s.drop j) := by
  have h1 := byteLen_take_le cx s i
  have h2 := byteLen_take_le cx s j
  unfold spliceBytes
  simp only []
  rw [if_neg (by omega)]
  simp only [Int.toNat_natCast]
  rw [atomsForBytes_byteLen_take hpos s i (by omega), atomsForBytes_byteLen_take hpos s j hj]
  rfl

end bytes

/-! ## D. C04: character selection -/

section chars
variable {α : Type} (cx : Ctx α)

theorem clusters_length (t : List α) : (clusters cx t).length = (cx.ends t).length :=
  clustersFrom_length' t 0 (cx.ends t)

theorem Editor.charCount_eq (ed : Editor α) : ed.charCount cx = (clusters cx ed.text).length :=
  (clusters_length cx ed.text).symm

theorem gLen_eq_clusters_length (t : List α) : gLen cx t = (clusters cx t).length :=
  (clusters_length cx t).symm

theorem flatten_take_split (L : List (List α)) {a b : Nat} (hab : a ≤ b) :
    (L.take b).flatten = (L.take a).flatten ++ ((L.drop a).take (b - a)).flatten := by
  rw [← List.flatten_append, ← take_eq_take_append L hab]

theorem flatten_take_drop (L : List (List α)) (b : Nat) :
    L.flatten = (L.take b).flatten ++ (L.drop b).flatten := by
  rw [← List.flatten_append, List.take_append_drop]

variable {cx}

theorem clusters_flatten (hwf : cx.WF) (t : List α) : (clusters cx t).flatten = t :=
  clustersFrom_flatten (hwf.1 t)

theorem clusters_nonempty (hwf : cx.WF) (t : List α) : ∀ c ∈ clusters cx t, c ≠ [] :=
  clustersFrom_nonempty (hwf.1 t)

theorem clusters_take (hwf : cx.WF) (t : List α) (k : Nat) (hk : k ≤ (clusters cx t).length) :
    ((clusters cx t).take k).flatten = t.take (cOff (cx.ends t) k) :=
  clustersFrom_take_cOff (hwf.1 t) k (by rw [← clusters_length]; exact hk)

theorem clusters_drop (hwf : cx.WF) (t : List α) (k : Nat) (hk : k ≤ (clusters cx t).length) :
    ((clusters cx t).drop k).flatten = t.drop (cOff (cx.ends t) k) := by
  have h1 := flatten_take_drop (clusters cx t) k
  rw [clusters_flatten hwf, clusters_take hwf t k hk] at h1
  have h2 := (List.take_append_drop (cOff (cx.ends t) k) t).symm
  exact (List.append_cancel_left (h1.symm.trans h2))

theorem clusters_mid (hwf : cx.WF) (t : List α) {a b : Nat} (hab : a ≤ b)
    (hb : b ≤ (clusters cx t).length) :
    (((clusters cx t).drop a).take (b - a)).flatten =
      sliceRunes t (cOff (cx.ends t) a) (cOff (cx.ends t) b) := by
  have h1 := flatten_take_split (clusters cx t) hab
  rw [clusters_take hwf t b hb, clusters_take hwf t a (by omega)] at h1
  have hm : cOff (cx.ends t) a ≤ cOff (cx.ends t) b :=
    (hwf.1 t).cOff_mono hab (by rw [← clusters_length]; exact hb)
  rw [take_eq_take_append t hm] at h1
  exact (List.append_cancel_left h1).symm

/-- cluster count ≤ rune count ≤ byte count -/
theorem clusters_length_le (hwf : cx.WF) (t : List α) : (clusters cx t).length ≤ t.length := by
  rw [clusters_length]; exact (hwf.1 t).length_le

theorem clusters_length_le_byteLen (hwf : cx.WF) (t : List α) :
    (clusters cx t).length ≤ byteLen cx t :=
  Nat.le_trans (clusters_length_le hwf t) (length_le_byteLen hwf.2 t)

/-- the specification's selection, in terms of rune offsets of the text -/
theorem selectClusters_eq (hwf : cx.WF) (t : List α) (s e : Int) (a b : Nat) (hab : a ≤ b)
    (hb : b ≤ (clusters cx t).length)
    (hr : Spec.normRange ((clusters cx t).length : Int) s e = ((a : Int), (b : Int))) :
    Spec.selectClusters cx t s e =
      (t.take (cOff (cx.ends t) a), sliceRunes t (cOff (cx.ends t) a) (cOff (cx.ends t) b),
        t.drop (cOff (cx.ends t) b)) := by
  simp only [Spec.selectClusters, hr, Spec.joinL, Int.toNat_natCast]
  rw [show ((b : Int) - (a : Int)).toNat = b - a by omega]
  rw [clusters_take hwf t a (by omega), clusters_drop hwf t b hb, clusters_mid hwf t hab hb]

/-- the specification's selection, in terms of clusters -/
theorem selectClusters_eq_clusters (t : List α) (s e : Int) (a b : Nat)
    (hr : Spec.normRange ((clusters cx t).length : Int) s e = ((a : Int), (b : Int))) :
    Spec.selectClusters cx t s e =
      (((clusters cx t).take a).flatten, (((clusters cx t).drop a).take (b - a)).flatten,
        ((clusters cx t).drop b).flatten) := by
  simp only [Spec.selectClusters, hr, Spec.joinL, Int.toNat_natCast]
  rw [show ((b : Int) - (a : Int)).toNat = b - a by omega]

/-- the three parts of a selection partition the text -/
theorem selectClusters_concat (hwf : cx.WF) (t : List α) (s e : Int) :
    (Spec.selectClusters cx t s e).1 ++ (Spec.selectClusters cx t s e).2.1 ++
      (Spec.selectClusters cx t s e).2.2 = t := by
  obtain ⟨a, b, hab, hb, hr⟩ := normRange_nat (clusters cx t).length s e
  rw [selectClusters_eq_clusters t s e a b hr]
  simp only []
  rw [← flatten_take_split _ hab, ← flatten_take_drop, clusters_flatten hwf]

variable (cx)

/-- the body of `Editor.chars` after the range has been normalised -/
def charsIdx (ed : Editor α) (st en : Int) : R (Editor α) :=
  let e := cx.ends ed.text
  let n : Int := e.length
  if st ≥ n then ed.subEd cx (byteLen cx ed.text) (byteLen cx ed.text)
  else
    let runeStart := (clusterSpan e st.toNat).1
    let byteStart := byteOff cx ed.text runeStart
    let byteEnd :=
      if en < n then byteOff cx ed.text (clusterSpan e en.toNat).1 else byteLen cx ed.text
    ed.subEd cx byteStart byteEnd

theorem Editor.chars_unfold (ed : Editor α) (s e : Int) :
    ed.chars cx s e =
      charsIdx cx ed (Spec.normRange ((clusters cx ed.text).length : Int) s e).1
        (Spec.normRange ((clusters cx ed.text).length : Int) s e).2 := by
  rw [← rangeToIndexes_eq_normRange _ _ _ (Int.natCast_nonneg _), clusters_length]
  rfl

variable {cx}

theorem Editor.subEd_take (hpos : ∀ a, 0 < cx.blen a) (ed : Editor α) (i j : Nat) (hij : i ≤ j)
    (hj : j ≤ ed.text.length) :
    ed.subEd cx (byteLen cx (ed.text.take i)) (byteLen cx (ed.text.take j)) =
      .ok (.sub (sliceRunes ed.text i j) ed.opts ed (byteLen cx (ed.text.take i))
        (byteLen cx (ed.text.take j))) := by
  unfold Editor.subEd
  rw [byteSlice_take_drop hpos _ i j hij hj]
  rfl

theorem charsIdx_nat (hwf : cx.WF) (ed : Editor α) (a b : Nat) (hab : a ≤ b)
    (hb : b ≤ (clusters cx ed.text).length) :
    charsIdx cx ed (a : Int) (b : Int) =
      .ok (.sub (sliceRunes ed.text (cOff (cx.ends ed.text) a) (cOff (cx.ends ed.text) b)) ed.opts ed
        (byteLen cx (ed.text.take (cOff (cx.ends ed.text) a)))
        (byteLen cx (ed.text.take (cOff (cx.ends ed.text) b)))) := by
  have hP := hwf.1 ed.text
  rw [clusters_length] at hb
  have hm := hP.cOff_mono hab hb
  have hle := hP.cOff_le hb
  have hfull : byteLen cx ed.text =
      byteLen cx (ed.text.take (cOff (cx.ends ed.text) (cx.ends ed.text).length)) := by
    rw [hP.cOff_length, List.take_length]
  rw [← Editor.subEd_take hwf.2 ed _ _ hm hle]
  unfold charsIdx
  simp only [clusterSpan_fst, byteOff, Int.toNat_natCast]
  by_cases h1 : (a : Int) ≥ ((cx.ends ed.text).length : Int)
  · have ha : a = (cx.ends ed.text).length := by omega
    have hb' : b = (cx.ends ed.text).length := by omega
    rw [if_pos h1, ha, hb', ← hfull]
  · rw [if_neg h1]
    by_cases h2 : (b : Int) < ((cx.ends ed.text).length : Int)
    · rw [if_pos h2]
    · have hb' : b = (cx.ends ed.text).length := by omega
      rw [if_neg h2, hb', ← hfull]

/-- **C04**: `Chars(s, e)` is the sub-editor over the selected clusters, cut at the byte range
`[len(before), len(before ++ selected))` of the parent's text. -/
theorem Editor.chars_eq_spec (hwf : cx.WF) (ed : Editor α) (s e : Int) :
    ed.chars cx s e =
      .ok (.sub (Spec.selectClusters cx ed.text s e).2.1 ed.opts ed
        (byteLen cx (Spec.selectClusters cx ed.text s e).1)
        (byteLen cx ((Spec.selectClusters cx ed.text s e).1 ++
          (Spec.selectClusters cx ed.text s e).2.1))) := by
  obtain ⟨a, b, hab, hb, hr⟩ := normRange_nat (clusters cx ed.text).length s e
  rw [Editor.chars_unfold, hr, selectClusters_eq hwf ed.text s e a b hab hb hr]
  simp only []
  rw [charsIdx_nat hwf ed a b hab hb]
  have hm : cOff (cx.ends ed.text) a ≤ cOff (cx.ends ed.text) b :=
    (hwf.1 ed.text).cOff_mono hab (by rw [← clusters_length]; exact hb)
  rw [sliceRunes, ← take_eq_take_append ed.text hm]

/-- same, with the selection named -/
theorem Editor.chars_eq_spec' (hwf : cx.WF) (ed : Editor α) (s e : Int) (bf sel af : List α)
    (h : Spec.selectClusters cx ed.text s e = (bf, sel, af)) :
    ed.chars cx s e = .ok (.sub sel ed.opts ed (byteLen cx bf) (byteLen cx (bf ++ sel))) ∧
      bf ++ sel ++ af = ed.text := by
  have h1 := Editor.chars_eq_spec hwf ed s e
  have h2 := selectClusters_concat hwf ed.text s e
  rw [h] at h1 h2
  exact ⟨h1, h2⟩

/-! ### normalisation of single positions -/

theorem normPos_bounds (n p : Int) (hn : 0 ≤ n) : 0 ≤ Spec.normPos n p ∧ Spec.normPos n p ≤ n := by
  simp only [Spec.normPos, Spec.normPosRaw]
  constructor <;> (repeat' split) <;> omega

theorem normPos_of_mem (n p : Int) (h0 : 0 ≤ p) (hn : p ≤ n) : Spec.normPos n p = p := by
  have : ¬ (p == Gen.endSentinel) = true := by
    simp only [beq_iff_eq, Gen.endSentinel]; omega
  simp only [Spec.normPos, Spec.normPosRaw, if_neg this]
  (repeat' split) <;> omega

theorem normPos_of_ge (n p : Int) (hn : 0 ≤ n) (h : n ≤ p) : Spec.normPos n p = n := by
  have : ¬ (p == Gen.endSentinel) = true := by
    simp only [beq_iff_eq, Gen.endSentinel]; omega
  simp only [Spec.normPos, Spec.normPosRaw, if_neg this]
  (repeat' split) <;> omega

theorem normPos_end (n : Int) (hn : 0 ≤ n) : Spec.normPos n Gen.endSentinel = n := by
  simp only [Spec.normPos, Spec.normPosRaw, beq_self_eq_true, if_true]
  (repeat' split) <;> omega

theorem normRange_zero (n p : Int) (hn : 0 ≤ n) :
    Spec.normRange n 0 p = (0, Spec.normPos n p) := by
  have h := normPos_bounds n p hn
  simp only [Spec.normRange, normPos_of_mem n 0 (Int.le_refl 0) hn, Prod.mk.injEq, true_and]
  rw [if_neg (by omega)]

theorem normRange_to_ge (n p q : Int) (hn : 0 ≤ n) (hq : n ≤ q) :
    Spec.normRange n p q = (Spec.normPos n p, n) := by
  have h := normPos_bounds n p hn
  simp only [Spec.normRange, normPos_of_ge n q hn hq, Prod.mk.injEq, true_and]
  split <;> omega

theorem normRange_to_end (n p : Int) (hn : 0 ≤ n) :
    Spec.normRange n p Gen.endSentinel = (Spec.normPos n p, n) := by
  have h := normPos_bounds n p hn
  simp only [Spec.normRange, normPos_end n hn, Prod.mk.injEq, true_and]
  split <;> omega

/-- `CharsFrom(s)` passes the byte length as the end position; it normalises to the cluster
count, i.e. to `End`. -/
theorem Editor.charsFrom_eq_chars_end (hwf : cx.WF) (ed : Editor α) (s : Int) :
    ed.charsFrom cx s = ed.chars cx s Gen.endSentinel := by
  have hle := clusters_length_le_byteLen hwf ed.text
  unfold Editor.charsFrom
  rw [Editor.chars_unfold, Editor.chars_unfold,
    normRange_to_ge _ _ _ (Int.natCast_nonneg _) (by omega),
    normRange_to_end _ _ (Int.natCast_nonneg _)]

theorem Editor.charsTo_eq_chars (ed : Editor α) (e : Int) : ed.charsTo cx e = ed.chars cx 0 e := rfl

/-- the position `p` normalised over the clusters of `t`, as a natural number -/
def Spec.posNat (cx : Ctx α) (t : List α) (p : Int) : Nat :=
  (Spec.normPos ((clusters cx t).length : Int) p).toNat

theorem Spec.posNat_le (t : List α) (p : Int) : Spec.posNat cx t p ≤ (clusters cx t).length := by
  have := normPos_bounds ((clusters cx t).length : Int) p (Int.natCast_nonneg _)
  unfold Spec.posNat; omega

theorem Spec.posNat_cast (t : List α) (p : Int) :
    ((Spec.posNat cx t p : Nat) : Int) = Spec.normPos ((clusters cx t).length : Int) p := by
  have := normPos_bounds ((clusters cx t).length : Int) p (Int.natCast_nonneg _)
  unfold Spec.posNat; omega

/-- `CharsTo(p)` selects the clusters before `p` -/
theorem Editor.charsTo_eq_spec (hwf : cx.WF) (ed : Editor α) (p : Int) :
    ed.charsTo cx p =
      .ok (.sub ((clusters cx ed.text).take (Spec.posNat cx ed.text p)).flatten ed.opts ed
        (0 : Nat) (byteLen cx ((clusters cx ed.text).take (Spec.posNat cx ed.text p)).flatten)) := by
  have hr : Spec.normRange ((clusters cx ed.text).length : Int) 0 p =
      (((0 : Nat) : Int), ((Spec.posNat cx ed.text p : Nat) : Int)) := by
    rw [normRange_zero _ _ (Int.natCast_nonneg _), Spec.posNat_cast]; rfl
  rw [Editor.charsTo_eq_chars, Editor.chars_eq_spec hwf, selectClusters_eq_clusters _ _ _ _ _ hr]
  simp only [List.take_zero, List.flatten_nil, List.drop_zero, Nat.sub_zero, List.nil_append,
    byteLen_nil]

/-- `CharsFrom(p)` selects the clusters from `p` on -/
theorem Editor.charsFrom_eq_spec (hwf : cx.WF) (ed : Editor α) (p : Int) :
    ed.charsFrom cx p =
      .ok (.sub ((clusters cx ed.text).drop (Spec.posNat cx ed.text p)).flatten ed.opts ed
        (byteLen cx ((clusters cx ed.text).take (Spec.posNat cx ed.text p)).flatten)
        (byteLen cx ed.text)) := by
  have hr : Spec.normRange ((clusters cx ed.text).length : Int) p Gen.endSentinel =
      (((Spec.posNat cx ed.text p : Nat) : Int), (((clusters cx ed.text).length : Nat) : Int)) := by
    rw [normRange_to_end _ _ (Int.natCast_nonneg _), Spec.posNat_cast]
  rw [Editor.charsFrom_eq_chars_end hwf, Editor.chars_eq_spec hwf,
    selectClusters_eq_clusters _ _ _ _ _ hr]
  simp only []
  have hl : ((clusters cx ed.text).drop (Spec.posNat cx ed.text p)).take
      ((clusters cx ed.text).length - Spec.posNat cx ed.text p) =
      (clusters cx ed.text).drop (Spec.posNat cx ed.text p) :=
    List.take_of_length_le (by rw [List.length_drop]; exact Nat.le_refl _)
  rw [hl, ← List.flatten_append, List.take_append_drop, clusters_flatten hwf]

end chars

/-! ## E. C09: Insert / Delete / Overtype -/

section edits
variable {α : Type} {cx : Ctx α}

theorem Editor.withText_self_p (ed : Editor α) : ed.withText ed.text = ed := by
  cases ed <;> rfl

theorem Spec.insert_eq (t : List α) (p : Int) (x : List α) :
    Spec.insert cx t p x =
      ((clusters cx t).take (Spec.posNat cx t p)).flatten ++ x ++
        ((clusters cx t).drop (Spec.posNat cx t p)).flatten := rfl

/-- **C09 (Insert)** -/
theorem Editor.insert_eq_spec (hwf : cx.WF) (ed : Editor α) (p : Int) (x : List α) :
    ed.insert cx p x = .ok (ed.withText (Spec.insert cx ed.text p x)) := by
  unfold Editor.insert
  rw [Editor.charsTo_eq_spec hwf, Editor.charsFrom_eq_spec hwf, Spec.insert_eq]
  rfl

theorem Spec.delete_eq (t : List α) (s e : Int) :
    Spec.delete cx t s e =
      (Spec.selectClusters cx t s e).1 ++ (Spec.selectClusters cx t s e).2.2 := rfl

/-- the body of `Editor.delete` after the range has been normalised -/
def deleteIdx (cx : Ctx α) (ed : Editor α) (start end_ : Int) : R (Editor α) :=
  if start ≥ end_ then pure ed
  else do
    let before := (← ed.charsTo cx start).text
    let after := (← ed.charsFrom cx end_).text
    pure (ed.withText (before ++ after))

theorem Editor.delete_unfold (ed : Editor α) (s e : Int) :
    ed.delete cx s e =
      deleteIdx cx ed (Spec.normRange ((clusters cx ed.text).length : Int) s e).1
        (Spec.normRange ((clusters cx ed.text).length : Int) s e).2 := by
  rw [← rangeToIndexes_eq_normRange _ _ _ (Int.natCast_nonneg _), ← Editor.charCount_eq]
  rfl

theorem Spec.posNat_of_nat (t : List α) (a : Nat) (ha : a ≤ (clusters cx t).length) :
    Spec.posNat cx t (a : Int) = a := by
  unfold Spec.posNat
  rw [normPos_of_mem _ _ (Int.natCast_nonneg _) (by omega), Int.toNat_natCast]

/-- **C09 (Delete)** -/
theorem Editor.delete_eq_spec (hwf : cx.WF) (ed : Editor α) (s e : Int) :
    ed.delete cx s e = .ok (ed.withText (Spec.delete cx ed.text s e)) := by
  obtain ⟨a, b, hab, hb, hr⟩ := normRange_nat (clusters cx ed.text).length s e
  rw [Editor.delete_unfold, hr, Spec.delete_eq, selectClusters_eq_clusters _ _ _ _ _ hr]
  simp only []
  unfold deleteIdx
  by_cases h : (a : Int) ≥ (b : Int)
  · have : a = b := by omega
    subst this
    rw [if_pos h, ← List.flatten_append, List.take_append_drop, clusters_flatten hwf,
      Editor.withText_self_p]
    rfl
  · rw [if_neg h, Editor.charsTo_eq_spec hwf, Editor.charsFrom_eq_spec hwf,
      Spec.posNat_of_nat _ a (by omega), Spec.posNat_of_nat _ b hb]
    rfl

theorem wrap64_of_range (x : Int) (h0 : 0 ≤ x) (h1 : x < 2 ^ 63) : wrap64 x = x := by
  unfold wrap64
  omega

theorem Spec.overtype_eq (t : List α) (p : Int) (x : List α) :
    Spec.overtype cx t p x =
      ((clusters cx t).take (Spec.posNat cx t p)).flatten ++ x ++
        ((clusters cx t).drop
          (if Spec.normPos ((clusters cx t).length : Int) p + (gLen cx x : Int) >
              ((clusters cx t).length : Int)
            then ((clusters cx t).length : Int)
            else Spec.normPos ((clusters cx t).length : Int) p + (gLen cx x : Int)).toNat).flatten :=
  rfl

/-- the body of `Editor.overtype` after the position has been normalised -/
def overtypeIdx (cx : Ctx α) (ed : Editor α) (pos : Int) (t : List α) : R (Editor α) := do
  let before := (← ed.charsTo cx pos).text
  let after := (← ed.charsFrom cx (wrap64 (pos + gLen cx t))).text
  pure (ed.withText (before ++ t ++ after))

theorem Editor.overtype_unfold (ed : Editor α) (p : Int) (x : List α) :
    ed.overtype cx p x =
      overtypeIdx cx ed (Spec.normPos ((clusters cx ed.text).length : Int) p) x := by
  have : Spec.normPos ((clusters cx ed.text).length : Int) p =
      (Spec.normRange ((clusters cx ed.text).length : Int) p p).1 := rfl
  rw [this, ← rangeToIndexes_eq_normRange _ _ _ (Int.natCast_nonneg _), ← Editor.charCount_eq]
  rfl

/-- **C09 (Overtype)**, provided `pos + len(x)` does not wrap around in 64-bit arithmetic -/
theorem Editor.overtype_eq_spec (hwf : cx.WF) (ed : Editor α) (p : Int) (x : List α)
    (hno : (gLen cx ed.text : Int) + (gLen cx x : Int) < 2 ^ 63) :
    ed.overtype cx p x = .ok (ed.withText (Spec.overtype cx ed.text p x)) := by
  have hb := normPos_bounds ((clusters cx ed.text).length : Int) p (Int.natCast_nonneg _)
  rw [gLen_eq_clusters_length] at hno
  rw [Editor.overtype_unfold, Spec.overtype_eq]
  unfold overtypeIdx
  rw [Editor.charsTo_eq_spec hwf, Editor.charsFrom_eq_spec hwf,
    wrap64_of_range _ (by omega) (by omega)]
  have hp : Spec.posNat cx ed.text (Spec.normPos ((clusters cx ed.text).length : Int) p) =
      Spec.posNat cx ed.text p := by
    rw [← Spec.posNat_cast, Spec.posNat_of_nat _ _ (Spec.posNat_le _ _)]
  have hq : Spec.posNat cx ed.text
      (Spec.normPos ((clusters cx ed.text).length : Int) p + (gLen cx x : Int)) =
      (if Spec.normPos ((clusters cx ed.text).length : Int) p + (gLen cx x : Int) >
              ((clusters cx ed.text).length : Int)
            then ((clusters cx ed.text).length : Int)
            else Spec.normPos ((clusters cx ed.text).length : Int) p + (gLen cx x : Int)).toNat := by
    unfold Spec.posNat
    congr 1
    split
    · exact normPos_of_ge _ _ (Int.natCast_nonneg _) (by omega)
    · exact normPos_of_mem _ _ (by omega) (by omega)
  rw [hp, hq]
  rfl

/-- the hypothesis on wrap-around cannot be dropped from the arithmetic: `wrap64` is not the
identity beyond `2^63` -/
theorem wrap64_wraps : wrap64 (2 ^ 63) = -(2 ^ 63) := by decide

/-- Round trip (Spec level): if inserting `x` at `p` creates no new cluster junction effects,
deleting the inserted clusters gives back the text. -/
theorem Spec.delete_insert {t : List α} (hP : Part (cx.ends t) t.length) (p : Int) (x : List α)
    (h : clusters cx (Spec.insert cx t p x) =
      (clusters cx t).take (Spec.posNat cx t p) ++ clusters cx x ++
        (clusters cx t).drop (Spec.posNat cx t p)) :
    Spec.delete cx (Spec.insert cx t p x) (Spec.posNat cx t p : Nat)
      ((Spec.posNat cx t p + (clusters cx x).length : Nat) : Int) = t := by
  have hple := Spec.posNat_le (cx := cx) t p
  have hlen : (clusters cx (Spec.insert cx t p x)).length =
      (clusters cx t).length + (clusters cx x).length := by
    rw [h, List.length_append, List.length_append, List.length_take, List.length_drop]; omega
  have hr : Spec.normRange ((clusters cx (Spec.insert cx t p x)).length : Int)
      (Spec.posNat cx t p : Nat) ((Spec.posNat cx t p + (clusters cx x).length : Nat) : Int) =
      (((Spec.posNat cx t p : Nat) : Int),
        ((Spec.posNat cx t p + (clusters cx x).length : Nat) : Int)) := by
    simp only [Spec.normRange]
    rw [normPos_of_mem _ _ (Int.natCast_nonneg _) (by omega),
      normPos_of_mem _ _ (Int.natCast_nonneg _) (by omega), if_neg (by omega)]
  rw [Spec.delete_eq, selectClusters_eq_clusters _ _ _ _ _ hr]
  simp only []
  have htl : ((clusters cx t).take (Spec.posNat cx t p)).length = Spec.posNat cx t p := by
    rw [List.length_take]; omega
  have h1 : (clusters cx (Spec.insert cx t p x)).take (Spec.posNat cx t p) =
      (clusters cx t).take (Spec.posNat cx t p) := by
    rw [h, List.append_assoc, List.take_left' htl]
  have h2 : (clusters cx (Spec.insert cx t p x)).drop (Spec.posNat cx t p + (clusters cx x).length) =
      (clusters cx t).drop (Spec.posNat cx t p) := by
    rw [h]
    exact List.drop_left' (by rw [List.length_append, htl])
  rw [h1, h2, ← List.flatten_append, List.take_append_drop]
  exact clustersFrom_flatten hP

theorem Spec.delete_insert_wf (hwf : cx.WF) (t : List α) (p : Int) (x : List α)
    (h : clusters cx (Spec.insert cx t p x) =
      (clusters cx t).take (Spec.posNat cx t p) ++ clusters cx x ++
        (clusters cx t).drop (Spec.posNat cx t p)) :
    Spec.delete cx (Spec.insert cx t p x) (Spec.posNat cx t p : Nat)
      ((Spec.posNat cx t p + (clusters cx x).length : Nat) : Int) = t :=
  Spec.delete_insert (hwf.1 t) p x h

end edits

/-! ## F. C05: Commit -/

section commit
variable {α : Type} {cx : Ctx α}

/-- **C05**: committing a sub-editor cut at `[i, j)` replaces exactly that range of the parent's
text; the bytes before and after are unchanged and in place. -/
theorem Editor.commit_sub (hpos : ∀ a, 0 < cx.blen a) (t : List α) (o : Options α)
    (parent : Editor α) (i j : Nat) (hij : i ≤ j) (hj : j ≤ parent.text.length) :
    (Editor.sub t o parent (byteLen cx (parent.text.take i))
        (byteLen cx (parent.text.take j))).commit cx =
      .ok (parent.withText (parent.text.take i ++ t ++ parent.text.drop j)) := by
  show (do pure (parent.withText (← spliceBytes cx parent.text
      (byteLen cx (parent.text.take i)) (byteLen cx (parent.text.take j)) t)) : R (Editor α)) = _
  rw [spliceBytes_take_drop hpos _ _ i j hij hj]
  rfl

theorem Editor.commit_root (t : List α) (o : Options α) :
    (Editor.root t o).commit cx = .ok (Editor.root t o) := rfl

/-- `Chars(s, e)` followed by `Commit` of an edited selection replaces the selection in place -/
theorem Editor.chars_commit (hwf : cx.WF) (ed : Editor α) (s e : Int) (t' : List α) :
    ∃ sub, ed.chars cx s e = .ok sub ∧
      (sub.withText t').commit cx =
        .ok (ed.withText ((Spec.selectClusters cx ed.text s e).1 ++ t' ++
          (Spec.selectClusters cx ed.text s e).2.2)) := by
  obtain ⟨a, b, hab, hb, hr⟩ := normRange_nat (clusters cx ed.text).length s e
  refine ⟨_, Editor.chars_eq_spec hwf ed s e, ?_⟩
  have hP := hwf.1 ed.text
  have hb' : b ≤ (cx.ends ed.text).length := by rw [← clusters_length]; exact hb
  have hm := hP.cOff_mono hab hb'
  have hle := hP.cOff_le hb'
  rw [selectClusters_eq hwf ed.text s e a b hab hb hr]
  simp only [Editor.withText]
  rw [sliceRunes, ← take_eq_take_append ed.text hm]
  exact Editor.commit_sub hwf.2 t' ed.opts ed _ _ hm hle

end commit

end RosedVerif
