/-
Totality of the model: for well-formed contexts (`Ctx.Sane`) the operations return normally
(`∃ r, f … = .ok r`): no modelled Go panic is reachable and every fuelled loop terminates
within its fuel.
-/
import RosedVerif.Model.OptionsLemmas
import RosedVerif.Model.JustifyLemmas
import RosedVerif.Model.PosLemmas
namespace RosedVerif
set_option linter.unusedSectionVars false

/-- `e` is the list of exclusive cluster ends of a string of `n` atoms: strictly increasing,
every end in `(0, n]`, and the last end is `n` (unless the string is empty). -/

structure Ctx.Sane {α : Type} (cx : Ctx α) : Prop where
  /-- boundaries partition the atoms -/
  part : ∀ s, Part (cx.ends s) s.length
  blen : ∀ a, 0 < cx.blen a

/-! ## generic helpers -/

theorem getD_eq_getElem (e : List Nat) (i : Nat) (h : i < e.length) : e.getD i 0 = e[i] := by
  simp only [List.getD_eq_getElem?_getD, List.getElem?_eq_getElem h, Option.getD_some]

theorem ok_of_eq {β : Type} {x : R β} {r : β} (h : x = .ok r) : ∃ r, x = .ok r := ⟨r, h⟩

theorem bind_total {β γ : Type} {x : R β} {f : β → R γ}
    (hx : ∃ a, x = .ok a) (hf : ∀ a, x = .ok a → ∃ r, f a = .ok r) : ∃ r, (x >>= f) = .ok r := by
  obtain ⟨a, ha⟩ := hx
  obtain ⟨r, hr⟩ := hf a ha
  exact ⟨r, bind_ok.2 ⟨a, ha, hr⟩⟩

theorem mapM_total {β γ : Type} (f : β → R γ) :
    ∀ (l : List β), (∀ x ∈ l, ∃ r, f x = .ok r) → ∃ r, l.mapM f = .ok r
  | [], _ => ⟨[], by simp only [List.mapM_nil]; rfl⟩
  | x :: l, h => by
    obtain ⟨a, ha⟩ := h x (by simp)
    obtain ⟨as, has⟩ := mapM_total f l (fun y hy => h y (by simp [hy]))
    refine ⟨a :: as, ?_⟩
    simp only [List.mapM_cons, ha, has]
    rfl

/-! ## `Part` -/

namespace Part
variable {e : List Nat} {n : Nat}

theorem getElem_lt (h : Part e n) {i j : Nat} (hij : i < j) (hj : j < e.length) :
    e[i]'(by omega) < e[j] :=
  (List.pairwise_iff_getElem.1 h.sorted) i j (by omega) hj hij

theorem getElem_pos (h : Part e n) {i : Nat} (hi : i < e.length) : 0 < e[i] ∧ e[i] ≤ n :=
  h.pos _ (List.getElem_mem hi)

theorem succ_le_getElem (h : Part e n) : ∀ (i : Nat) (hi : i < e.length), i + 1 ≤ e[i]
  | 0, hi => (h.getElem_pos hi).1
  | i + 1, hi => by
    have := succ_le_getElem h i (by omega)
    have h2 : e[i] < e[i + 1] := h.getElem_lt (Nat.lt_succ_self i) hi
    omega

theorem eq_nil_iff (h : Part e n) : e = [] ↔ n = 0 := by
  constructor
  · intro he
    by_cases hn : n = 0
    · exact hn
    · have := h.last hn
      rw [he] at this
      simp at this
  · intro hn
    have := h.length_le
    exact List.eq_nil_of_length_eq_zero (by omega)

theorem length_eq_zero_iff (h : Part e n) : e.length = 0 ↔ n = 0 := by
  rw [← h.eq_nil_iff]
  exact List.length_eq_zero_iff

theorem getElem_last (h : Part e n) (hl : 0 < e.length) : e[e.length - 1] = n := by
  have hn : n ≠ 0 := fun h0 => by
    have := h.length_eq_zero_iff.2 h0
    omega
  have := h.last hn
  rw [List.getLast?_eq_getElem?] at this
  rw [List.getElem?_eq_getElem (by omega)] at this
  exact Option.some.inj this

/-- start of cluster `i` (0 for the first, else the previous end) -/
theorem getD_le_getD (h : Part e n) {i j : Nat} (hij : i ≤ j) (hj : j < e.length) :
    e.getD i 0 ≤ e.getD j 0 := by
  rw [getD_eq_getElem e i (by omega), getD_eq_getElem e j hj]
  rcases Nat.lt_or_eq_of_le hij with h1 | h1
  · exact Nat.le_of_lt (h.getElem_lt h1 hj)
  · subst h1; exact Nat.le_refl _

theorem span (h : Part e n) {i : Nat} (hi : i < e.length) :
    (clusterSpan e i).1 < (clusterSpan e i).2 ∧ (clusterSpan e i).2 ≤ n := by
  unfold clusterSpan
  simp only
  rw [getD_eq_getElem e i hi]
  have hp := h.getElem_pos hi
  refine ⟨?_, hp.2⟩
  split
  · rw [getD_eq_getElem e (i - 1) (by omega)]
    exact h.getElem_lt (by omega) hi
  · exact hp.1

theorem span_fst_le (h : Part e n) (i : Nat) : (clusterSpan e i).1 ≤ n := by
  unfold clusterSpan
  simp only
  split
  · by_cases hi : i - 1 < e.length
    · rw [getD_eq_getElem e (i - 1) hi]
      exact (h.getElem_pos hi).2
    · simp only [List.getD_eq_getElem?_getD, List.getElem?_eq_none (Nat.le_of_not_lt hi),
        Option.getD_none, Nat.zero_le]
  · exact Nat.zero_le _

theorem span_fst_mono (h : Part e n) {i j : Nat} (hij : i ≤ j) (hj : j ≤ e.length) :
    (clusterSpan e i).1 ≤ (clusterSpan e j).1 := by
  unfold clusterSpan
  simp only
  by_cases hi : i > 0
  · rw [if_pos hi, if_pos (by omega)]
    exact h.getD_le_getD (by omega) (by omega)
  · rw [if_neg hi]; exact Nat.zero_le _

end Part

/-! ## 1. gem level -/

theorem rangeToIndexes_bounds_t (size st en : Int) (h : 0 ≤ size) :
    0 ≤ (rangeToIndexes size st en).1 ∧ (rangeToIndexes size st en).1 ≤ (rangeToIndexes size st en).2
      ∧ (rangeToIndexes size st en).2 ≤ size := by
  unfold rangeToIndexes
  simp only
  repeat' split
  all_goals omega

section gem
variable {α : Type} [DecidableEq α] {cx : Ctx α}

theorem sliceRunes_length (s : List α) (a b : Nat) (hb : b ≤ s.length) :
    (sliceRunes s a b).length = b - a := by
  unfold sliceRunes
  simp only [List.length_take, List.length_drop]
  omega

theorem sliceRunes_length_le (s : List α) (a b : Nat) : (sliceRunes s a b).length ≤ s.length := by
  unfold sliceRunes
  simp only [List.length_take, List.length_drop]
  omega

theorem sliceRunes_ne_nil (s : List α) (a b : Nat) (hab : a < b) (hb : b ≤ s.length) :
    sliceRunes s a b ≠ [] := by
  intro h
  have := sliceRunes_length s a b hb
  rw [h] at this
  simp only [List.length_nil] at this
  omega

theorem gLen_le (hs : cx.Sane) (s : List α) : gLen cx s ≤ s.length := (hs.part s).length_le

theorem gLen_eq_zero_iff (hs : cx.Sane) (s : List α) : gLen cx s = 0 ↔ s = [] := by
  unfold gLen
  rw [(hs.part s).length_eq_zero_iff]
  exact List.length_eq_zero_iff

theorem gLen_nil (hs : cx.Sane) : gLen cx ([] : List α) = 0 := (gLen_eq_zero_iff hs []).2 rfl

theorem gLen_pos_iff (hs : cx.Sane) (s : List α) : 0 < gLen cx s ↔ s ≠ [] := by
  rw [Nat.pos_iff_ne_zero, ne_eq, gLen_eq_zero_iff hs]

/-- explicit value of `gCharAt` inside the range -/
theorem gCharAt_eq (s : List α) (i : Int) (h0 : 0 ≤ i) (h1 : i < gLen cx s) :
    gCharAt cx s i = .ok (sliceRunes s (clusterSpan (cx.ends s) i.toNat).1
      (clusterSpan (cx.ends s) i.toNat).2) := by
  unfold gCharAt
  unfold gLen at h1
  simp only
  rw [if_neg (by omega)]
  rfl

/-- 1a. `CharAt` does not panic for `0 ≤ i < Len`, and the cluster is non-empty -/
theorem gCharAt_ok (hs : cx.Sane) (s : List α) (i : Int) (h0 : 0 ≤ i) (h1 : i < gLen cx s) :
    ∃ r, gCharAt cx s i = .ok r ∧ r ≠ [] := by
  refine ⟨_, gCharAt_eq s i h0 h1, ?_⟩
  have hi : i.toNat < (cx.ends s).length := by unfold gLen at h1; omega
  have := (hs.part s).span hi
  exact sliceRunes_ne_nil s _ _ this.1 this.2

theorem gSetCharAt_eq (s : List α) (i : Int) (r : List α) (hr : r ≠ []) (h0 : 0 ≤ i)
    (h1 : i < gLen cx s) :
    gSetCharAt cx s i r = .ok (s.take (clusterSpan (cx.ends s) i.toNat).1 ++ r ++
      s.drop (clusterSpan (cx.ends s) i.toNat).2) := by
  unfold gSetCharAt
  unfold gLen at h1
  have : r.isEmpty = false := by cases r <;> simp_all
  simp only [this]
  rw [if_neg (by simp), if_neg (by omega)]
  rfl

/-- 1b. `SetCharAt` does not panic for `0 ≤ i < Len` and a non-empty replacement -/
theorem gSetCharAt_ok (s : List α) (i : Int) (r : List α) (hr : r ≠ []) (h0 : 0 ≤ i)
    (h1 : i < gLen cx s) : ∃ t, gSetCharAt cx s i r = .ok t :=
  ⟨_, gSetCharAt_eq s i r hr h0 h1⟩

/-- replacing one cluster by a single atom never lengthens the text -/
theorem gSetCharAt_length_le (hs : cx.Sane) (s : List α) (i : Int) (x : α) (h0 : 0 ≤ i)
    (h1 : i < gLen cx s) (t : List α) (h : gSetCharAt cx s i [x] = .ok t) :
    t.length ≤ s.length := by
  rw [gSetCharAt_eq s i [x] (by simp) h0 h1] at h
  cases h
  have hi : i.toNat < (cx.ends s).length := by unfold gLen at h1; omega
  have := (hs.part s).span hi
  simp only [List.length_append, List.length_take, List.length_drop, List.length_cons,
    List.length_nil]
  omega

/-- 1e. `Sub` returns a contiguous slice of `s` -/
theorem gSub_slice (hs : cx.Sane) (s : List α) (st en : Int) :
    ∃ a b, a ≤ b ∧ b ≤ s.length ∧ gSub cx s st en = (s.drop a).take (b - a) := by
  unfold gSub
  simp only
  have hb := rangeToIndexes_bounds_t (cx.ends s).length st en (by omega)
  generalize rangeToIndexes (cx.ends s).length st en = p at hb
  obtain ⟨x, y⟩ := p
  simp only at hb ⊢
  split
  · exact ⟨0, 0, Nat.le_refl _, Nat.zero_le _, by simp⟩
  · rename_i hne
    have hne : x ≠ y := by simpa using hne
    have hy : y.toNat - 1 < (cx.ends s).length := by omega
    refine ⟨_, _, ?_, ?_, rfl⟩
    · split
      · exact (hs.part s).getD_le_getD (by omega) hy
      · exact Nat.zero_le _
    · rw [getD_eq_getElem _ _ hy]
      exact ((hs.part s).getElem_pos hy).2

theorem gSub_length_le (s : List α) (st en : Int) : (gSub cx s st en).length ≤ s.length := by
  unfold gSub
  simp only
  split
  · simp
  · exact sliceRunes_length_le _ _ _

/-- cutting `k ≥ 1` leading clusters off a word makes it strictly shorter -/
theorem gSub_tail_length_lt (hs : cx.Sane) (w : List α) (k : Int) (h1 : 1 ≤ k)
    (h2 : k < gLen cx w) : (gSub cx w k (gLen cx w)).length < w.length := by
  unfold gSub
  unfold gLen at *
  have hr : rangeToIndexes (cx.ends w).length k (cx.ends w).length = (k, ((cx.ends w).length : Int)) := by
    unfold rangeToIndexes
    simp only
    repeat' split
    all_goals first | omega | rfl
  simp only [hr]
  rw [if_neg (by simp; omega), if_pos (by omega)]
  have hk : k.toNat - 1 < (cx.ends w).length := by omega
  have hl : ((cx.ends w).length : Int).toNat - 1 = (cx.ends w).length - 1 := by omega
  rw [hl, getD_eq_getElem _ _ hk, getD_eq_getElem _ _ (by omega),
    (hs.part w).getElem_last (by omega)]
  rw [sliceRunes_length _ _ _ (Nat.le_refl _)]
  have := (hs.part w).getElem_pos hk
  omega

end gem

/-! ## 2. CollapseSpace -/

theorem ok_bind {β γ : Type} (a : β) (f : β → R γ) : ((Except.ok a : R β) >>= f) = f a := rfl

section manip
variable {α : Type} [DecidableEq α] {cx : Ctx α}

/-- the cluster loop of CollapseSpace terminates within `text.length - i + 1` steps: the index
advances and replacing a cluster by the single atom `cx.sp` never lengthens the text -/
theorem setSpacesLoop_total (hs : cx.Sane) : ∀ (fuel : Nat) (text : List α) (i : Nat),
    0 < fuel → text.length + 1 ≤ fuel + i → ∃ r, setSpacesLoop cx fuel text i = .ok r
  | 0, _, _, h, _ => absurd h (by omega)
  | fuel + 1, text, i, _, h => by
    rw [setSpacesLoop]
    split
    · rename_i hi
      have hle := gLen_le hs text
      obtain ⟨ch, hch, hne⟩ := gCharAt_ok hs text (i : Int) (by omega) (by omega)
      rw [hch, ok_bind]
      cases ch with
      | nil => exact absurd rfl hne
      | cons c t =>
        simp only
        split
        · refine bind_total (gSetCharAt_ok text i [cx.sp] (by simp) (by omega) (by omega)) ?_
          intro text' ht
          have hl := gSetCharAt_length_le hs text i cx.sp (by omega) (by omega) text' ht
          exact setSpacesLoop_total hs fuel text' (i + 1) (by omega) (by omega)
        · exact setSpacesLoop_total hs fuel text (i + 1) (by omega) (by omega)
    · exact ⟨_, rfl⟩

/-- 2. `CollapseSpace` is total -/
theorem collapseSpace_total (hs : cx.Sane) (text sep : List α) :
    ∃ r, collapseSpace cx text sep = .ok r := by
  unfold collapseSpace
  simp only
  refine bind_total (setSpacesLoop_total hs _ _ 0 (by omega) (by omega)) ?_
  intro t _
  exact ⟨_, rfl⟩

/-! ## 3. appendWord -/

/-- generalised measure: `2 * curWord.length + [curLine non-empty] + 1 ≤ fuel` -/
theorem appendWord_total' (hs : cx.Sane) (width : Int) (hw : 2 ≤ width) :
    ∀ (fuel : Nat) (lines : List (List α)) (curWord curLine : List α),
      2 * curWord.length + (if gLen cx curLine = 0 then 0 else 1) + 1 ≤ fuel →
      ∃ r, appendWord cx width fuel lines curWord curLine = .ok r := by
  intro fuel
  induction fuel with
  | zero => intro _ _ _ h; omega
  | succ fuel ih =>
    intro lines curWord curLine h
    have hnil : gLen cx ([] : List α) = 0 := gLen_nil hs
    rw [appendWord]
    rw [if_neg (by omega)]
    split
    · rename_i hpos
      have hlen : 0 < curWord.length := by
        have := gLen_le hs curWord
        omega
      simp only
      by_cases hz : gLen cx curLine = 0
      · rw [if_pos hz] at h
        simp only [hz, Int.natCast_zero, bne_self_eq_false, Bool.false_eq_true, if_false,
          Int.add_zero, Int.zero_add, beq_self_eq_true, if_true]
        split
        · exact ih _ _ _ (by simp only [hnil, List.length_nil, if_true]; omega)
        · split
          · rename_i hgt
            have hlt := gSub_tail_length_lt hs curWord (width - 1) (by omega) (by omega)
            exact ih _ _ _ (by simp only [hnil, if_true]; omega)
          · refine ih _ _ _ ?_
            simp only [List.length_nil]
            split <;> omega
      · rw [if_neg hz] at h
        have hz1 : ((gLen cx curLine : Int) != 0) = true := by simpa using hz
        have hz2 : ((gLen cx curLine : Int) == 0) = false := by simpa using hz
        simp only [hz1, hz2, if_true, Bool.false_eq_true, if_false]
        split
        · exact ih _ _ _ (by simp only [hnil, List.length_nil, if_true]; omega)
        · split
          · exact ih _ _ _ (by simp only [hnil, if_true]; omega)
          · refine ih _ _ _ ?_
            simp only [List.length_nil]
            split <;> omega
    · exact ⟨_, rfl⟩

/-- 3. `appendWordToWrappedLine` terminates and never hits its `width < 2` panic -/
theorem appendWord_total (hs : cx.Sane) (width : Int) (hw : 2 ≤ width) (fuel : Nat)
    (lines : List (List α)) (curWord curLine : List α) (hf : 2 * curWord.length + 2 ≤ fuel) :
    ∃ r, appendWord cx width fuel lines curWord curLine = .ok r := by
  refine appendWord_total' hs width hw fuel lines curWord curLine ?_
  split <;> omega

/-! ## 4. Wrap -/

theorem clustersFrom_ne_nil (s : List α) : ∀ (es : List Nat) (prev : Nat),
    (prev :: es).Pairwise (· < ·) → (∀ j ∈ es, j ≤ s.length) →
    ∀ c ∈ clustersFrom s prev es, c ≠ []
  | [], _, _, _, c, hc => by simp [clustersFrom] at hc
  | e :: es, prev, hp, hb, c, hc => by
    rw [clustersFrom, List.mem_cons] at hc
    rcases hc with rfl | hc
    · refine sliceRunes_ne_nil s prev e ?_ (hb e (by simp))
      exact (List.pairwise_cons.1 hp).1 e (by simp)
    · exact clustersFrom_ne_nil s es e (List.pairwise_cons.1 hp).2
        (fun j hj => hb j (by simp [hj])) c hc

/-- clusters are never empty -/
theorem clusters_ne_nil (hs : cx.Sane) (s : List α) : ∀ c ∈ clusters cx s, c ≠ [] := by
  unfold clusters
  refine clustersFrom_ne_nil s _ 0 ?_ (fun j hj => ((hs.part s).pos j hj).2)
  exact List.pairwise_cons.2 ⟨fun j hj => ((hs.part s).pos j hj).1, (hs.part s).sorted⟩

theorem wrapLoop_total (hs : cx.Sane) (width : Int) (hw : 2 ≤ width) :
    ∀ (cls : List (List α)), (∀ c ∈ cls, c ≠ []) → ∀ (lines : List (List α)) (curWord curLine : List α),
      ∃ r, wrapLoop cx width cls lines curWord curLine = .ok r
  | [], _, _, _, _ => ⟨_, rfl⟩
  | [] :: _, h, _, _, _ => absurd rfl (h [] (by simp))
  | (c :: t) :: rest, h, lines, curWord, curLine => by
    have ih := wrapLoop_total hs width hw rest (fun x hx => h x (by simp [hx]))
    rw [wrapLoop]
    simp only
    split
    · refine bind_total (appendWord_total hs width hw _ _ _ _ (Nat.le_refl _)) ?_
      rintro ⟨l, cl⟩ _
      exact ih _ _ _
    · exact ih _ _ _

/-- 4. `Wrap` is total for every text, width and separator -/
theorem wrapLines_total (hs : cx.Sane) (text : List α) (w : Int) (sep : List α) :
    ∃ r, wrapLines cx text w sep = .ok r := by
  unfold wrapLines
  simp only
  have hw : (2 : Int) ≤ (if w < 2 then 2 else w) := by split <;> omega
  generalize (if w < 2 then 2 else w) = w' at hw
  refine bind_total (collapseSpace_total hs text sep) ?_
  intro t _
  split
  · exact ⟨_, rfl⟩
  · refine bind_total (wrapLoop_total hs w' hw _ (clusters_ne_nil hs t) _ _ _) ?_
    rintro ⟨lines, cw, cl⟩ _
    simp only
    split
    · refine bind_total (appendWord_total hs w' hw _ _ _ _ (Nat.le_refl _)) ?_
      rintro ⟨l, c⟩ _
      exact ⟨_, rfl⟩
    · exact ⟨_, rfl⟩

/-! ## 5. JustifyLine -/

/-- 5. `JustifyLine` is total: the space-distribution loop never indexes out of range -/
theorem justifyLine_total (hs : cx.Sane) (text : List α) (w : Int) :
    ∃ r, justifyLine cx text w = .ok r := by
  unfold justifyLine
  refine bind_total (collapseSpace_total hs _ _) ?_
  intro t _
  simp only
  split
  · exact ⟨_, rfl⟩
  · split
    · exact ⟨_, rfl⟩
    · rename_i hg
      generalize hgd : (splitOn t [cx.sp]).length - 1 = g
      have hcast : ((splitOn t [cx.sp]).length : Int) - 1 = (g : Int) := by omega
      rw [hcast]
      have hodd : (if ((g : Int) % 2 == 0) = true then (0 : Int) else 1)
          = (if (g % 2 == 0) = true then (0 : Int) else 1) := by
        by_cases h2 : g % 2 = 0
        · rw [if_pos (by simp only [beq_iff_eq]; omega), if_pos (by simp only [beq_iff_eq]; omega)]
        · rw [if_neg (by simp only [beq_iff_eq]; omega), if_neg (by simp only [beq_iff_eq]; omega)]
      rw [hodd, Int.toNat_natCast]
      obtain ⟨r, hr, -⟩ := distribute_total g (by omega) (w - (gLen cx t : Int)).toNat
      exact bind_total ⟨r, hr⟩ (fun _ _ => ⟨_, rfl⟩)

/-! ## 6. CombineColumnBlocks -/

/-- the `foldl` computing the longest left line really is an upper bound -/
theorem foldl_maxLen_ge (cx : Ctx α) : ∀ (l : List (List α)) (m0 : Int),
    m0 ≤ l.foldl (fun m x => if (gLen cx x : Int) > m then (gLen cx x : Int) else m) m0 ∧
    ∀ x ∈ l, (gLen cx x : Int) ≤ l.foldl (fun m x => if (gLen cx x : Int) > m then (gLen cx x : Int) else m) m0
  | [], m0 => ⟨Int.le_refl _, fun x hx => by simp at hx⟩
  | y :: l, m0 => by
    have ih := foldl_maxLen_ge cx l (if (gLen cx y : Int) > m0 then (gLen cx y : Int) else m0)
    simp only [List.foldl_cons]
    refine ⟨Int.le_trans (by split <;> omega) ih.1, ?_⟩
    intro x hx
    rcases List.mem_cons.1 hx with rfl | hx
    · exact Int.le_trans (by split <;> omega) ih.1
    · exact ih.2 x hx

theorem repeatStr_total (s : List α) (n : Int) (h : 0 ≤ n) : ∃ r, repeatStr s n = .ok r := by
  unfold repeatStr
  rw [if_neg (by omega)]
  exact ⟨_, rfl⟩

/-- 6. `CombineColumnBlocks` never panics for a non-negative gap -/
theorem combineColumns_total (cx : Ctx α) (left right : List (List α)) (gap : Int) (hg : 0 ≤ gap) :
    ∃ r, combineColumns cx left right gap = .ok r := by
  unfold combineColumns
  split
  · exact ⟨_, rfl⟩
  · simp only
    apply mapM_total
    intro i _
    have hm := foldl_maxLen_ge cx left 0
    refine bind_total (repeatStr_total _ _ ?_) (fun _ _ => ⟨_, rfl⟩)
    split
    · rename_i hi
      have hmem : left.getD i [] ∈ left := by
        rw [List.getD_eq_getElem?_getD, List.getElem?_eq_getElem hi, Option.getD_some]
        exact List.getElem_mem hi
      have := hm.2 _ hmem
      omega
    · omega

theorem mapM_ok_or {β γ : Type} (f : β → R γ) (e : Err) :
    ∀ (l : List β), (∀ x ∈ l, (∃ r, f x = .ok r) ∨ f x = .error e) →
      (∃ r, l.mapM f = .ok r) ∨ l.mapM f = .error e
  | [], _ => .inl ⟨[], by simp only [List.mapM_nil]; rfl⟩
  | x :: l, h => by
    rcases h x (by simp) with ⟨a, ha⟩ | ha
    · rcases mapM_ok_or f e l (fun y hy => h y (by simp [hy])) with ⟨as, has⟩ | has
      · exact .inl ⟨a :: as, by simp only [List.mapM_cons, ha, has]; rfl⟩
      · exact .inr (by simp only [List.mapM_cons, ha, has]; rfl)
    · exact .inr (by simp only [List.mapM_cons, ha]; rfl)

/-- whatever the gap, the only reachable panic of `CombineColumnBlocks` is `strings.Repeat`'s -/
theorem combineColumns_ok_or (cx : Ctx α) (left right : List (List α)) (gap : Int) :
    (∃ r, combineColumns cx left right gap = .ok r) ∨
      combineColumns cx left right gap = .error .repeatNeg := by
  unfold combineColumns
  split
  · exact .inl ⟨_, rfl⟩
  · simp only
    apply mapM_ok_or
    intro i _
    generalize (List.foldl (fun m l => if (gLen cx l : Int) > m then (gLen cx l : Int) else m) 0 left
      + gap - if i < left.length then (gLen cx (left.getD i []) : Int) else 0) = k
    unfold repeatStr
    split
    · exact .inr rfl
    · exact .inl ⟨_, rfl⟩

end manip

/-! ## 7. editor level -/

section editor
variable {α : Type} [DecidableEq α] {cx : Ctx α}

theorem foldl_blen_init (cx : Ctx α) : ∀ (s : List α) (k : Nat),
    s.foldl (fun n c => n + cx.blen c) k = k + s.foldl (fun n c => n + cx.blen c) 0
  | [], k => by simp
  | c :: t, k => by
    simp only [List.foldl_cons]
    rw [foldl_blen_init cx t (k + cx.blen c), foldl_blen_init cx t (0 + cx.blen c)]
    omega

theorem byteLen_nil_t (cx : Ctx α) : byteLen cx ([] : List α) = 0 := rfl

theorem byteLen_cons_t (cx : Ctx α) (c : α) (t : List α) :
    byteLen cx (c :: t) = cx.blen c + byteLen cx t := by
  unfold byteLen
  simp only [List.foldl_cons]
  rw [foldl_blen_init]
  omega

theorem byteLen_append_t (cx : Ctx α) : ∀ (a b : List α),
    byteLen cx (a ++ b) = byteLen cx a + byteLen cx b
  | [], b => by simp [byteLen_nil_t]
  | c :: a, b => by
    rw [List.cons_append, byteLen_cons_t, byteLen_cons_t, byteLen_append_t cx a b]
    omega

theorem byteOff_zero (cx : Ctx α) (s : List α) : byteOff cx s 0 = 0 := by
  simp [byteOff, byteLen_nil_t]

theorem byteOff_nil (cx : Ctx α) (k : Nat) : byteOff cx ([] : List α) k = 0 := by
  simp [byteOff, byteLen_nil_t]

theorem byteOff_cons_succ (cx : Ctx α) (c : α) (t : List α) (k : Nat) :
    byteOff cx (c :: t) (k + 1) = cx.blen c + byteOff cx t k := by
  simp [byteOff, byteLen_cons_t]

theorem byteOff_length (cx : Ctx α) (s : List α) : byteOff cx s s.length = byteLen cx s := by
  simp [byteOff]

theorem byteOff_mono (cx : Ctx α) : ∀ (s : List α) {i j : Nat}, i ≤ j →
    byteOff cx s i ≤ byteOff cx s j
  | [], _, _, _ => by simp [byteOff_nil]
  | _ :: _, 0, _, _ => by simp [byteOff_zero]
  | c :: t, i + 1, 0, h => by omega
  | c :: t, i + 1, j + 1, h => by
    rw [byteOff_cons_succ, byteOff_cons_succ]
    have := byteOff_mono cx t (i := i) (j := j) (by omega)
    omega

theorem byteOff_le_byteLen (cx : Ctx α) (s : List α) (k : Nat) : byteOff cx s k ≤ byteLen cx s := by
  by_cases h : k ≤ s.length
  · rw [← byteOff_length]; exact byteOff_mono cx s h
  · unfold byteOff
    rw [List.take_of_length_le (by omega)]
    exact Nat.le_refl _

/-- byte offsets computed from atom positions are valid rune boundaries -/
theorem atomsForBytes_byteOff (hs : cx.Sane) : ∀ (s : List α) (k : Nat),
    atomsForBytes cx s (byteOff cx s k) = some (min k s.length)
  | s, 0 => by
    rw [byteOff_zero]
    cases s <;> simp [atomsForBytes]
  | [], k + 1 => by
    rw [byteOff_nil]
    simp [atomsForBytes]
  | c :: t, k + 1 => by
    rw [byteOff_cons_succ]
    have hb := hs.blen c
    obtain ⟨m, hm⟩ : ∃ m, cx.blen c + byteOff cx t k = m + 1 := ⟨cx.blen c + byteOff cx t k - 1, by omega⟩
    rw [hm, atomsForBytes]
    rw [if_pos ⟨by omega, hb⟩]
    have : m + 1 - cx.blen c = byteOff cx t k := by omega
    rw [this, atomsForBytes_byteOff hs t k]
    simp only [Option.map_some, List.length_cons, Option.some.injEq]
    omega

/-- 7 (key lemma). `atomsForBytes cx s (byteLen cx (s.take k)) = some k` for `k ≤ s.length` -/
theorem atomsForBytes_byteLen_take_t (hs : cx.Sane) (s : List α) (k : Nat) (hk : k ≤ s.length) :
    atomsForBytes cx s (byteLen cx (s.take k)) = some k := by
  have := atomsForBytes_byteOff hs s k
  rw [Nat.min_eq_left hk] at this
  exact this

/-- slicing between two atom-position offsets never panics -/
theorem byteSlice_byteOff (hs : cx.Sane) (s : List α) (i j : Nat)
    (hij : byteOff cx s i ≤ byteOff cx s j) :
    ∃ t, byteSlice cx s (byteOff cx s i : Nat) (byteOff cx s j : Nat) = .ok t := by
  unfold byteSlice
  simp only
  have := byteOff_le_byteLen cx s j
  rw [if_neg (by omega)]
  split
  · exact ⟨_, rfl⟩
  · rw [Int.toNat_natCast, Int.toNat_natCast, atomsForBytes_byteOff hs, atomsForBytes_byteOff hs]
    exact ⟨_, rfl⟩

theorem subEd_byteOff (hs : cx.Sane) (ed : Editor α) (i j : Nat)
    (hij : byteOff cx ed.text i ≤ byteOff cx ed.text j) :
    ∃ t, ed.subEd cx (byteOff cx ed.text i : Nat) (byteOff cx ed.text j : Nat)
      = .ok (.sub t ed.opts ed (byteOff cx ed.text i : Nat) (byteOff cx ed.text j : Nat)) := by
  obtain ⟨t, ht⟩ := byteSlice_byteOff hs ed.text i j hij
  refine ⟨t, ?_⟩
  unfold Editor.subEd
  rw [ht]
  rfl

/-- a sub-editor cut at atom positions of its parent -/
def Editor.CutAtAtoms (cx : Ctx α) (ed r : Editor α) : Prop :=
  ∃ t i j, r = .sub t ed.opts ed (byteOff cx ed.text i : Nat) (byteOff cx ed.text j : Nat)

theorem subEd_byteOff' (hs : cx.Sane) (ed : Editor α) (i j : Nat)
    (hij : byteOff cx ed.text i ≤ byteOff cx ed.text j) :
    ∃ r, ed.subEd cx (byteOff cx ed.text i : Nat) (byteOff cx ed.text j : Nat) = .ok r ∧
      ed.CutAtAtoms cx r := by
  obtain ⟨t, ht⟩ := subEd_byteOff hs ed i j hij
  exact ⟨_, ht, t, i, j, rfl⟩

/-- 7a. `Chars` is total, and the sub-editor is cut at atom positions -/
theorem chars_total' (hs : cx.Sane) (ed : Editor α) (st en : Int) :
    ∃ r, ed.chars cx st en = .ok r ∧ ed.CutAtAtoms cx r := by
  unfold Editor.chars
  simp only
  have hp := hs.part ed.text
  generalize hn : ((cx.ends ed.text).length : Int) = n
  have hb := rangeToIndexes_bounds_t n (if st == Gen.endSentinel then n else st)
    (if en == Gen.endSentinel then n else en) (by omega)
  generalize rangeToIndexes n (if st == Gen.endSentinel then n else st)
    (if en == Gen.endSentinel then n else en) = p at hb
  obtain ⟨x, y⟩ := p
  simp only at hb ⊢
  split
  · rw [← byteOff_length]
    exact subEd_byteOff' hs ed _ _ (Nat.le_refl _)
  · rename_i hx
    split
    · refine subEd_byteOff' hs ed _ _ (byteOff_mono cx _ ?_)
      exact hp.span_fst_mono (by omega) (by omega)
    · rw [← byteOff_length]
      refine subEd_byteOff' hs ed _ _ (byteOff_mono cx _ ?_)
      exact hp.span_fst_le _

theorem chars_total (hs : cx.Sane) (ed : Editor α) (st en : Int) :
    ∃ r, ed.chars cx st en = .ok r :=
  let ⟨r, h, _⟩ := chars_total' hs ed st en; ⟨r, h⟩

theorem charsTo_total (hs : cx.Sane) (ed : Editor α) (en : Int) : ∃ r, ed.charsTo cx en = .ok r :=
  chars_total hs ed 0 en

theorem charsFrom_total (hs : cx.Sane) (ed : Editor α) (st : Int) : ∃ r, ed.charsFrom cx st = .ok r :=
  chars_total hs ed st _

/-- 7b. `Insert` is total -/
theorem insert_total (hs : cx.Sane) (ed : Editor α) (pos : Int) (t : List α) :
    ∃ r, ed.insert cx pos t = .ok r := by
  unfold Editor.insert
  refine bind_total (charsTo_total hs ed pos) (fun _ _ => ?_)
  exact bind_total (charsFrom_total hs ed pos) (fun _ _ => ⟨_, rfl⟩)

/-- 7c. `Delete` is total -/
theorem delete_total (hs : cx.Sane) (ed : Editor α) (st en : Int) :
    ∃ r, ed.delete cx st en = .ok r := by
  unfold Editor.delete
  simp only
  generalize rangeToIndexes _ _ _ = p
  split
  · exact ⟨_, rfl⟩
  · refine bind_total (charsTo_total hs ed _) (fun _ _ => ?_)
    exact bind_total (charsFrom_total hs ed _) (fun _ _ => ⟨_, rfl⟩)

/-- `Overtype` is total -/
theorem overtype_total (hs : cx.Sane) (ed : Editor α) (pos : Int) (t : List α) :
    ∃ r, ed.overtype cx pos t = .ok r := by
  unfold Editor.overtype
  simp only
  refine bind_total (charsTo_total hs ed _) (fun _ _ => ?_)
  exact bind_total (charsFrom_total hs ed _) (fun _ _ => ⟨_, rfl⟩)

theorem spliceBytes_byteOff (hs : cx.Sane) (s : List α) (i j : Nat) (t : List α) :
    ∃ r, spliceBytes cx s (byteOff cx s i : Nat) (byteOff cx s j : Nat) t = .ok r := by
  unfold spliceBytes
  simp only
  have := byteOff_le_byteLen cx s i
  have := byteOff_le_byteLen cx s j
  rw [if_neg (by omega)]
  rw [Int.toNat_natCast, Int.toNat_natCast, atomsForBytes_byteOff hs, atomsForBytes_byteOff hs]
  exact ⟨_, rfl⟩

/-- 7d. committing a sub-editor that was cut at atom positions is total, whatever its text and
options have become in the meantime -/
theorem commit_total_of_cut (hs : cx.Sane) (ed r : Editor α) (h : ed.CutAtAtoms cx r)
    (t' : List α) (o' : Options α) : ∃ r', ((r.withText t').withOpts o').commit cx = .ok r' := by
  obtain ⟨t, i, j, rfl⟩ := h
  simp only [Editor.withText, Editor.withOpts, Editor.commit]
  exact bind_total (spliceBytes_byteOff hs ed.text i j t') (fun _ _ => ⟨_, rfl⟩)

theorem chars_commit_total (hs : cx.Sane) (ed r : Editor α) (st en : Int)
    (h : ed.chars cx st en = .ok r) (t' : List α) :
    (∃ r', r.commit cx = .ok r') ∧ ∃ r', (r.withText t').commit cx = .ok r' := by
  obtain ⟨r0, h0, hc⟩ := chars_total' hs ed st en
  rw [h] at h0
  cases h0
  have h1 := commit_total_of_cut hs ed r hc r.text r.opts
  have h2 := commit_total_of_cut hs ed r hc t' r.opts
  obtain ⟨t, i, j, rfl⟩ := hc
  exact ⟨h1, h2⟩

theorem skipSeps_ge (s sep : List α) : ∀ (k pos r : Nat), skipSeps s sep k pos = some r → pos ≤ r
  | 0, pos, r, h => by simp only [skipSeps, Option.some.injEq] at h; omega
  | k + 1, pos, r, h => by
    rw [skipSeps] at h
    split at h
    · exact absurd h (by simp)
    · have := skipSeps_ge s sep k _ r h
      omega

/-- `Lines` is total, and the sub-editor is cut at atom positions -/
theorem linesSel_total' (hs : cx.Sane) (ed : Editor α) (st en : Int) :
    ∃ r, ed.linesSel cx st en = .ok r ∧ ed.CutAtAtoms cx r := by
  unfold Editor.linesSel
  have h00 : ∃ r, ed.subEd cx 0 0 = .ok r ∧ ed.CutAtAtoms cx r := by
    have := subEd_byteOff' hs ed 0 0 (Nat.le_refl _)
    rw [byteOff_zero] at this
    exact this
  have htt : ∃ r, ed.subEd cx (byteLen cx ed.text : Nat) (byteLen cx ed.text : Nat) = .ok r ∧
      ed.CutAtAtoms cx r := by
    rw [← byteOff_length]
    exact subEd_byteOff' hs ed _ _ (Nat.le_refl _)
  split
  · exact h00
  · simp only
    generalize rangeToIndexes _ _ _ = p
    split
    · exact htt
    · split
      · exact htt
      · split
        · rw [← byteOff_length]
          exact subEd_byteOff' hs ed _ _ (by rw [byteOff_length]; exact byteOff_le_byteLen _ _ _)
        · rename_i aStart _ aEnd hEnd
          exact subEd_byteOff' hs ed _ _ (byteOff_mono cx _ (skipSeps_ge _ _ _ _ _ hEnd))

theorem linesSel_total (hs : cx.Sane) (ed : Editor α) (st en : Int) :
    ∃ r, ed.linesSel cx st en = .ok r :=
  let ⟨r, h, _⟩ := linesSel_total' hs ed st en; ⟨r, h⟩

theorem linesSel_commit_total (hs : cx.Sane) (ed r : Editor α) (st en : Int)
    (h : ed.linesSel cx st en = .ok r) (t' : List α) :
    (∃ r', r.commit cx = .ok r') ∧ ∃ r', (r.withText t').commit cx = .ok r' := by
  obtain ⟨r0, h0, hc⟩ := linesSel_total' hs ed st en
  rw [h] at h0
  cases h0
  have h1 := commit_total_of_cut hs ed r hc r.text r.opts
  have h2 := commit_total_of_cut hs ed r hc t' r.opts
  obtain ⟨t, i, j, rfl⟩ := hc
  exact ⟨h1, h2⟩

end editor

/-! ## 8. InsertTwoColumnsOpts -/

section twocol
variable {α : Type} [DecidableEq α] {cx : Ctx α}

/-- the part of `InsertTwoColumnsOpts` after the column widths have been computed -/
def twoColBody (cx : Ctx α) (ed : Editor α) (pos : Int) (leftText rightText : List α)
    (msb leftW rightW : Int) (o : Options α) : R (Editor α) := do
  let o := o.withDefaults cx
  let lb ← wrapLines cx leftText leftW o.lineSep
  let rb ← wrapLines cx rightText rightW o.lineSep
  let maxLeft : Int := lb.foldl (fun m l => if (gLen cx l : Int) > m then gLen cx l else m) 0
  let spaceBetween := msb + (leftW - maxLeft)
  let combined ← combineColumns cx lb rb spaceBetween
  ed.insert cx pos (Block.mk combined o.lineSep (!o.noTrailing)).join

/-- 8a. the explicit panic (`rightW < 2`) is unreachable, whatever the sign of
`minSpaceBetween`: `avail = width' - minSpaceBetween ≥ 4`, so both column widths are at least 2
and the operation continues with its main body -/
theorem insertTwoColumnsOpts_eq (cx : Ctx α) (ed : Editor α)
    (pos : Int) (leftText rightText : List α) (msb width : Int) (pct : Pct) (o : Options α)
    (hne : ¬(leftText.isEmpty ∧ rightText.isEmpty)) :
    ∃ leftW rightW : Int, 2 ≤ leftW ∧ 2 ≤ rightW ∧
      ed.insertTwoColumnsOpts cx pos leftText rightText msb width pct o
        = twoColBody cx ed pos leftText rightText (if msb < 0 then 0 else msb) leftW rightW o := by
  unfold Editor.insertTwoColumnsOpts
  rw [if_neg hne]
  generalize (if pct.neg = true ∨ (pct.num == 0) = true then ((0 : Nat), (0 : Nat))
    else if pct.num > 2 ^ pct.exp then (1, 0) else (pct.num, pct.exp)) = ne
  obtain ⟨num, exp⟩ := ne
  simp only
  generalize (if msb < 0 then 0 else msb) = msb'
  have hW : msb' + 4 ≤ (if width < msb' + 2 + 2 then msb' + 2 + 2 else width) := by split <;> omega
  generalize (if width < msb' + 2 + 2 then msb' + 2 + 2 else width) = W at hW ⊢
  generalize ((mulRoundTrunc (W - msb').toNat num exp : Nat) : Int) = m
  have hL : 2 ≤ (if (if m < 2 then 2 else m) > W - msb' - 2 then W - msb' - 2
      else if m < 2 then 2 else m) ∧
      (if (if m < 2 then 2 else m) > W - msb' - 2 then W - msb' - 2
      else if m < 2 then 2 else m) ≤ W - msb' - 2 := by
    repeat' split
    all_goals omega
  generalize (if (if m < 2 then 2 else m) > W - msb' - 2 then W - msb' - 2
      else if m < 2 then 2 else m) = L at hL ⊢
  refine ⟨L, W - msb' - L, hL.1, by omega, ?_⟩
  rw [if_neg (by omega)]
  rfl

theorem bind_ok_or {β γ : Type} {x : R β} {f : β → R γ} {e : Err}
    (hx : ∃ a, x = .ok a) (hf : ∀ a, x = .ok a → (∃ r, f a = .ok r) ∨ f a = .error e) :
    (∃ r, (x >>= f) = .ok r) ∨ (x >>= f) = .error e := by
  obtain ⟨a, ha⟩ := hx
  rw [ha, ok_bind]
  exact hf a ha

/-- 8b. in a sane context the only panic `InsertTwoColumnsOpts` can still reach is `strings.Repeat` with a negative count inside CombineColumnBlocks -/
theorem twoColBody_ok_or (hs : cx.Sane) (ed : Editor α) (pos : Int) (leftText rightText : List α)
    (msb leftW rightW : Int) (o : Options α) :
    (∃ r, twoColBody cx ed pos leftText rightText msb leftW rightW o = .ok r) ∨
      twoColBody cx ed pos leftText rightText msb leftW rightW o = .error .repeatNeg := by
  unfold twoColBody
  simp only
  refine bind_ok_or (wrapLines_total hs _ _ _) (fun lb _ => ?_)
  refine bind_ok_or (wrapLines_total hs _ _ _) (fun rb _ => ?_)
  rcases combineColumns_ok_or cx lb rb
    (msb + (leftW - List.foldl (fun m l => if (gLen cx l : Int) > m then (gLen cx l : Int) else m) 0 lb))
    with ⟨c, hc⟩ | hc
  · rw [hc, ok_bind]
    exact .inl (insert_total hs _ _ _)
  · rw [hc]
    exact .inr rfl

theorem insertTwoColumnsOpts_ok_or (hs : cx.Sane) (ed : Editor α)
    (pos : Int) (leftText rightText : List α) (msb width : Int) (pct : Pct) (o : Options α) :
    (∃ r, ed.insertTwoColumnsOpts cx pos leftText rightText msb width pct o = .ok r) ∨
      ed.insertTwoColumnsOpts cx pos leftText rightText msb width pct o = .error .repeatNeg := by
  by_cases hne : leftText.isEmpty ∧ rightText.isEmpty
  · unfold Editor.insertTwoColumnsOpts
    rw [if_pos hne]
    exact .inl ⟨_, rfl⟩
  · obtain ⟨L, Rw, _, _, h⟩ := insertTwoColumnsOpts_eq cx ed pos leftText rightText msb width pct o hne
    rw [h]
    exact twoColBody_ok_or hs _ _ _ _ _ _ _ _

/-- 8 (never the explicit panic) -/
theorem insertTwoColumnsOpts_ne_explicit (hs : cx.Sane) (ed : Editor α)
    (pos : Int) (leftText rightText : List α) (msb width : Int) (pct : Pct) (o : Options α) :
    ed.insertTwoColumnsOpts cx pos leftText rightText msb width pct o ≠ .error .explicit := by
  rcases insertTwoColumnsOpts_ok_or hs ed pos leftText rightText msb width pct o with ⟨r, h⟩ | h
  · rw [h]; exact fun h => by cases h
  · rw [h]; exact fun h => by cases h

/-- wrapped lines are at most `width` clusters long.  NOT a consequence of `Ctx.Sane` (see
`cxBad` below): an abstract segmentation may cluster a concatenation differently from its parts. -/
def Ctx.WrapFits (cx : Ctx α) : Prop :=
  ∀ (text : List α) (w : Int) (sep : List α) (r : List (List α)), 2 ≤ w →
    wrapLines cx text w sep = .ok r → ∀ l ∈ r, (gLen cx l : Int) ≤ w

theorem foldl_maxLen_le (cx : Ctx α) (b : Int) : ∀ (l : List (List α)) (m0 : Int), m0 ≤ b →
    (∀ x ∈ l, (gLen cx x : Int) ≤ b) →
    l.foldl (fun m x => if (gLen cx x : Int) > m then (gLen cx x : Int) else m) m0 ≤ b
  | [], m0, h0, _ => h0
  | y :: l, m0, h0, h => by
    simp only [List.foldl_cons]
    refine foldl_maxLen_le cx b l _ ?_ (fun x hx => h x (by simp [hx]))
    have := h y (by simp)
    split <;> omega

theorem twoColBody_total (hs : cx.Sane) (hfit : cx.WrapFits) (ed : Editor α) (pos : Int)
    (leftText rightText : List α) (msb leftW rightW : Int) (o : Options α)
    (hmsb : 0 ≤ msb) (hL : 2 ≤ leftW) :
    ∃ r, twoColBody cx ed pos leftText rightText msb leftW rightW o = .ok r := by
  unfold twoColBody
  simp only
  refine bind_total (wrapLines_total hs _ _ _) (fun lb hlb => ?_)
  refine bind_total (wrapLines_total hs _ _ _) (fun rb _ => ?_)
  have hmax := foldl_maxLen_le cx leftW lb 0 (by omega) (hfit _ _ _ _ hL hlb)
  refine bind_total (combineColumns_total cx lb rb _ (by omega)) (fun c _ => ?_)
  exact insert_total hs _ _ _

/-- 8. `InsertTwoColumnsOpts` with `0 ≤ minSpaceBetween` is total, provided wrapped lines fit
their width (`Ctx.WrapFits`) -/
theorem insertTwoColumnsOpts_total (hs : cx.Sane) (hfit : cx.WrapFits) (ed : Editor α)
    (pos : Int) (leftText rightText : List α) (msb width : Int) (pct : Pct) (o : Options α)
    (_hmsb : 0 ≤ msb) :
    ∃ r, ed.insertTwoColumnsOpts cx pos leftText rightText msb width pct o = .ok r := by
  by_cases hne : leftText.isEmpty ∧ rightText.isEmpty
  · unfold Editor.insertTwoColumnsOpts
    rw [if_pos hne]
    exact ⟨_, rfl⟩
  · obtain ⟨L, Rw, hL, _, h⟩ := insertTwoColumnsOpts_eq cx ed pos leftText rightText msb width pct o hne
    rw [h]
    exact twoColBody_total hs hfit _ _ _ _ _ _ _ _ (by split <;> omega) hL

/-- 8'. … and since a negative `minSpaceBetween` is taken as 0 (repair D17), for EVERY value of it -/
theorem insertTwoColumnsOpts_total_any (hs : cx.Sane) (hfit : cx.WrapFits) (ed : Editor α)
    (pos : Int) (leftText rightText : List α) (msb width : Int) (pct : Pct) (o : Options α) :
    ∃ r, ed.insertTwoColumnsOpts cx pos leftText rightText msb width pct o = .ok r := by
  by_cases hne : leftText.isEmpty ∧ rightText.isEmpty
  · unfold Editor.insertTwoColumnsOpts
    rw [if_pos hne]
    exact ⟨_, rfl⟩
  · obtain ⟨L, Rw, hL, _, h⟩ := insertTwoColumnsOpts_eq cx ed pos leftText rightText msb width pct o hne
    rw [h]
    exact twoColBody_total hs hfit _ _ _ _ _ _ _ _ (by split <;> omega) hL

/-- `CollapseSpaceOpts` is total -/
theorem collapseSpaceOpts_total (hs : cx.Sane) (ed : Editor α) (o : Options α) :
    ∃ r, ed.collapseSpaceOpts cx o = .ok r := by
  unfold Editor.collapseSpaceOpts
  exact bind_total (collapseSpace_total hs _ _) (fun _ _ => ⟨_, rfl⟩)

/-- `InsertTableOpts` is total (`MakeTable` is a plain function) -/
theorem insertTableOpts_total (hs : cx.Sane) (ed : Editor α) (pos : Int)
    (data : List (List (List α))) (width : Int) (o : Options α) :
    ∃ r, ed.insertTableOpts cx pos data width o = .ok r := by
  unfold Editor.insertTableOpts
  exact insert_total hs _ _ _

end twocol

/-! ## the cluster-level instance (every atom is its own cluster) is sane and wrap-fitting -/

section triv
variable {α : Type} [DecidableEq α] (cx : Ctx α)

theorem part_range_t (n : Nat) : Part (List.range' 1 n) n where
  sorted := List.pairwise_lt_range' 1
  pos := fun j hj => by
    have := List.mem_range'_1.1 hj
    omega
  last := fun hn => by
    rw [List.getLast?_range', if_neg hn]
    congr 1
    omega

theorem sane_of_triv (htriv : ∀ s, cx.ends s = List.range' 1 s.length)
    (hb : ∀ a, 0 < cx.blen a) : cx.Sane where
  part := fun s => by rw [htriv]; exact part_range_t _
  blen := hb

theorem fits_snoc {β : Type} {P : β → Prop} {l : List β} {x : β} (hl : ∀ y ∈ l, P y) (hx : P x) :
    ∀ y ∈ l ++ [x], P y := by
  intro y hy
  rcases List.mem_append.1 hy with h | h
  · exact hl y h
  · rw [List.mem_singleton] at h
    subst h; exact hx

theorem appendWord_fits (htriv : ∀ s, cx.ends s = List.range' 1 s.length) (width : Int)
    (hw : 2 ≤ width) :
    ∀ (fuel : Nat) (lines : List (List α)) (curWord curLine : List α) (r : List (List α) × List α),
      (∀ l ∈ lines, (l.length : Int) ≤ width) → (curLine.length : Int) ≤ width →
      appendWord cx width fuel lines curWord curLine = .ok r →
      (∀ l ∈ r.1, (l.length : Int) ≤ width) ∧ (r.2.length : Int) ≤ width := by
  intro fuel
  induction fuel with
  | zero =>
    intro _ _ _ _ _ _ h
    exact absurd h (by simp [appendWord, throw, throwThe, MonadExceptOf.throw])
  | succ fuel ih =>
    intro lines curWord curLine r hl hc h
    rw [appendWord, if_neg (by omega)] at h
    simp only [gLen_triv cx htriv] at h
    split at h
    · by_cases hz : curLine.length = 0
      · simp only [hz, Int.natCast_zero, bne_self_eq_false, Bool.false_eq_true, if_false,
          Int.add_zero, Int.zero_add, beq_self_eq_true, if_true] at h
        split at h
        · rename_i he
          simp only [beq_iff_eq] at he
          exact ih _ _ _ _ (fits_snoc hl (by simp only [List.length_append]; omega)) (by simp; omega) h
        · split at h
          · rename_i hgt
            refine ih _ _ _ _ (fits_snoc hl ?_) (by simp; omega) h
            rw [gSub_triv_int cx htriv curWord 0 (width - 1) (by omega) (by omega) (by omega)]
            simp only [List.length_append, List.length_take, List.length_drop, List.length_cons,
              List.length_nil]
            omega
          · rename_i hne hgt
            simp only [beq_iff_eq] at hne
            exact ih _ _ _ _ hl (by simp only [List.length_append]; omega) h
      · have hz1 : ((curLine.length : Int) != 0) = true := by simpa using hz
        have hz2 : ((curLine.length : Int) == 0) = false := by simpa using hz
        simp only [hz1, hz2, if_true, Bool.false_eq_true, if_false] at h
        split at h
        · rename_i he
          simp only [beq_iff_eq] at he
          refine ih _ _ _ _ (fits_snoc hl ?_) (by simp; omega) h
          simp only [List.length_append, List.length_cons, List.length_nil]
          omega
        · split at h
          · exact ih _ _ _ _ (fits_snoc hl hc) (by simp; omega) h
          · rename_i hne hgt
            simp only [beq_iff_eq] at hne
            refine ih _ _ _ _ hl ?_ h
            simp only [List.length_append, List.length_cons, List.length_nil]
            omega
    · cases h
      exact ⟨hl, hc⟩

theorem wrapLoop_fits (htriv : ∀ s, cx.ends s = List.range' 1 s.length) (width : Int)
    (hw : 2 ≤ width) :
    ∀ (cls lines : List (List α)) (curWord curLine : List α)
      (r : List (List α) × List α × List α),
      (∀ l ∈ lines, (l.length : Int) ≤ width) → (curLine.length : Int) ≤ width →
      wrapLoop cx width cls lines curWord curLine = .ok r →
      (∀ l ∈ r.1, (l.length : Int) ≤ width) ∧ (r.2.2.length : Int) ≤ width
  | [], lines, curWord, curLine, r, hl, hc, h => by
    cases h
    exact ⟨hl, hc⟩
  | [] :: rest, _, _, _, _, _, _, h => by
    exact absurd h (by simp [wrapLoop, throw, throwThe, MonadExceptOf.throw])
  | (c :: t) :: rest, lines, curWord, curLine, r, hl, hc, h => by
    rw [wrapLoop] at h
    simp only at h
    split at h
    · obtain ⟨⟨l, cl⟩, ha, h'⟩ := bind_ok.1 h
      have := appendWord_fits cx htriv width hw _ _ _ _ _ hl hc ha
      exact wrapLoop_fits htriv width hw rest _ _ _ r this.1 this.2 h'
    · exact wrapLoop_fits htriv width hw rest _ _ _ r hl hc h

/-- for the trivial segmentation wrapped lines never exceed the width -/
theorem wrapFits_of_triv (htriv : ∀ s, cx.ends s = List.range' 1 s.length) : cx.WrapFits := by
  intro text w sep r hw h
  unfold wrapLines at h
  simp only at h
  rw [if_neg (by omega)] at h
  obtain ⟨t, _, h⟩ := bind_ok.1 h
  simp only [gLen_triv cx htriv]
  split at h
  · cases h
    intro l hl
    rw [List.mem_singleton] at hl
    subst hl
    simp only [List.length_nil]; omega
  · obtain ⟨⟨lines, cw, cl⟩, h1, h⟩ := bind_ok.1 h
    have f1 := wrapLoop_fits cx htriv w hw _ _ _ _ _ (fun l hl => by simp at hl) (by simp; omega) h1
    simp only at h f1
    have fin : ∀ (p : List (List α) × List α), (∀ l ∈ p.1, (l.length : Int) ≤ w) →
        (p.2.length : Int) ≤ w →
        ∀ l ∈ (if (!p.2.isEmpty) = true then p.1 ++ [p.2] else p.1), (l.length : Int) ≤ w := by
      intro p h1 h2
      split
      · exact fits_snoc h1 h2
      · exact h1
    split at h
    · obtain ⟨p, h2, h⟩ := bind_ok.1 h
      have f2 := appendWord_fits cx htriv w hw _ _ _ _ _ f1.1 f1.2 h2
      cases h
      exact fin p f2.1 f2.2
    · cases h
      exact fin (lines, cl) f1.1 f1.2

/-- 8 for the cluster-level instance: unconditional totality -/
theorem insertTwoColumnsOpts_total_triv (htriv : ∀ s, cx.ends s = List.range' 1 s.length)
    (hb : ∀ a, 0 < cx.blen a) (ed : Editor α)
    (pos : Int) (leftText rightText : List α) (msb width : Int) (pct : Pct) (o : Options α)
    (hmsb : 0 ≤ msb) :
    ∃ r, ed.insertTwoColumnsOpts cx pos leftText rightText msb width pct o = .ok r :=
  insertTwoColumnsOpts_total (sane_of_triv cx htriv hb) (wrapFits_of_triv cx htriv) ed pos
    leftText rightText msb width pct o hmsb

end triv

/-! ## `Ctx.Sane` alone does not give totality of InsertTwoColumnsOpts (counterexample) -/

/-- a sane context whose segmentation clusters a concatenation differently from its parts:
a string containing the space atom `0` is split per atom, any other string is one cluster -/
def cxBad : Ctx Nat where
  ends := fun s =>
    if s.contains 0 then List.range' 1 s.length else if s.isEmpty then [] else [s.length]
  isSpace := fun c => c == 0
  blen := fun _ => 1
  upper := id
  sp := 0
  hy := 99
  phA := 65
  nl := 10
  dIndent := [9]
  dLineSep := [10]
  dParaSep := [10, 10]
  dCharset := [43, 124, 45]

theorem cxBad_sane : cxBad.Sane where
  blen := fun _ => Nat.one_pos
  part := fun s => by
    show Part (if s.contains 0 then List.range' 1 s.length else if s.isEmpty then [] else [s.length]) _
    split
    · exact part_range_t _
    · split
      · rename_i h
        have : s = [] := by simpa using h
        subst this
        exact ⟨List.Pairwise.nil, fun j hj => by simp at hj, fun h => absurd rfl h⟩
      · rename_i h
        have : s ≠ [] := by simpa using h
        have hl : 0 < s.length := List.length_pos_iff.2 this
        exact ⟨List.pairwise_singleton _ _, fun j hj => by simp at hj; omega, fun _ => rfl⟩

/-- two one-cluster words joined by a space become a 7-cluster line of "width 3" -/
theorem cxBad_wrap : wrapLines cxBad [1, 1, 1, 0, 1, 1, 1] 3 [10] = .ok [[1, 1, 1, 0, 1, 1, 1]] := by
  rfl

theorem cxBad_not_wrapFits : ¬ cxBad.WrapFits := by
  intro h
  have := h _ 3 _ _ (by omega) cxBad_wrap [1, 1, 1, 0, 1, 1, 1] (by simp)
  revert this
  decide

/-- statement 8 is false for `Ctx.Sane` alone: `minSpaceBetween = 0`, width 8, 3/8 for the left
column panics in `strings.Repeat` (negative count) -/
theorem cxBad_twoColumns :
    (Editor.root [] {}).insertTwoColumnsOpts cxBad 0 [1, 1, 1, 0, 1, 1, 1] [2] 0 8 ⟨false, 3, 3⟩ {}
      = .error .repeatNeg := by
  rfl

end RosedVerif
