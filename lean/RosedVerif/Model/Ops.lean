/-
Model of editor.go (lines), subeditor.go (Lines*), rosed.go (applyGParagraphsOpts)
and operations.go, transliterated.
-/
import RosedVerif.Model.Editor
namespace RosedVerif

section
variable {α : Type} [DecidableEq α] (cx : Ctx α)

/-- Editor.linesSep (uses the Editor's own NoTrailingLineSeparators flag) -/
def Editor.linesSep (ed : Editor α) (sep : List α) : List (List α) :=
  let ls := splitOn ed.text sep
  if !ls.isEmpty ∧ !ed.opts.noTrailing ∧ ls.getLast? == some [] then ls.dropLast else ls

/-- Editor.lines -/
def Editor.lines (ed : Editor α) : List (List α) := ed.linesSep (ed.opts.withDefaults cx).lineSep

/-- Editor.LineCount -/
def Editor.lineCount (ed : Editor α) : Nat := (ed.lines cx).length

/-- advance over `k` separators starting at atom position `pos`: `strings.Index` + skip, `k` times -/
def skipSeps (s sep : List α) : Nat → Nat → Option Nat
  | 0, pos => some pos
  | k + 1, pos =>
    match indexOf sep (s.drop pos) with
    | none => none
    | some i => skipSeps s sep k (pos + i + sep.length)

/-- Editor.Lines -/
def Editor.linesSel (ed : Editor α) (start end_ : Int) : R (Editor α) :=
  if ed.text.isEmpty then ed.subEd cx 0 0
  else
    let lc : Int := ed.lineCount cx
    let start := if start == Gen.endSentinel then lc else start
    let end_ := if end_ == Gen.endSentinel then lc else end_
    let (st, en) := rangeToIndexes lc start end_
    let total : Int := byteLen cx ed.text
    if st ≥ lc then ed.subEd cx total total
    else
      let sep := (ed.opts.withDefaults cx).lineSep
      match skipSeps ed.text sep st.toNat 0 with
      | none => ed.subEd cx total total
      | some aStart =>
        let bStart : Int := byteOff cx ed.text aStart
        match skipSeps ed.text sep (en - st).toNat aStart with
        | none => ed.subEd cx bStart total
        | some aEnd => ed.subEd cx bStart (byteOff cx ed.text aEnd)

def Editor.linesFrom (ed : Editor α) (start : Int) : R (Editor α) := ed.linesSel cx start (ed.lineCount cx)
def Editor.linesTo (ed : Editor α) (end_ : Int) : R (Editor α) := ed.linesSel cx 0 end_

/-- Editor.ApplyOpts with a callback that may fail -/
def Editor.applyOptsM (ed : Editor α) (op : Nat → List α → R (List (List α))) (o : Options α) :
    R (Editor α) := do
  let o := o.withDefaults cx
  let ls := (ed.withOpts o).linesSep o.lineSep
  let outs ← (List.range ls.length).mapM fun i => op i (ls.getD i [])
  let applied := outs.flatten
  -- `len(lines) < strings.Count(text, sep)+1`: linesSep dropped a final empty line
  let applied := if !o.noTrailing ∧ ls.length < (splitOn ed.text o.lineSep).length then applied ++ [[]]
    else applied
  pure (ed.withText (joinWith o.lineSep applied))

def Editor.applyOpts (ed : Editor α) (op : Nat → List α → List (List α)) (o : Options α) : R (Editor α) :=
  ed.applyOptsM cx (fun i l => pure (op i l)) o

/-- the paragraph loop of applyGParagraphsOpts; `cur` is `paragraphs[idx]` as it is when the
iteration starts (possibly already shortened by the previous iteration's look-ahead) -/
def paraLoop (op : Nat → List α → List α → List α → R (List (List α)))
    (lineSep prevSuffix nextPrefix : List α) (ambig : Bool) :
    Nat → List α → List (List α) → R (List (List α))
  | idx, cur, [] => do
    -- last paragraph
    let pre := if idx != 0 then nextPrefix else []
    op idx cur pre []
  | idx, cur, nxt :: rest => do
    let pre := if idx != 0 then nextPrefix else []
    let steal := ambig && lineSep.isPrefixOf nxt
    let nxt' := if steal then nxt.drop lineSep.length else nxt
    let cur' := if steal then cur ++ lineSep else cur
    let out ← op idx cur' pre prevSuffix
    let more ← paraLoop op lineSep prevSuffix nextPrefix ambig (idx + 1) nxt' rest
    pure (out ++ more)

/-- Editor.applyGParagraphsOpts -/
def Editor.applyParasM (ed : Editor α) (op : Nat → List α → List α → List α → R (List (List α)))
    (o : Options α) : R (Editor α) := do
  let o := o.withDefaults cx
  let ambig : Bool := (o.paraSep ++ o.lineSep) == (o.lineSep ++ o.paraSep)
  let parts := splitOn o.paraSep o.lineSep
  let prevSuffix := parts.headD []
  let nextPrefix := if parts.length > 1 then parts.getLastD [] else []
  match splitOn ed.text o.paraSep with
  | [] => pure (ed.withText [])
  | p :: ps =>
    let outs ← paraLoop op o.lineSep prevSuffix nextPrefix ambig 0 p ps
    pure (ed.withText (joinWith o.paraSep outs))

/-- the lines of `tb.New(text, sep)` with every line mapped (Block.Apply with a 1:1 callback) -/
def Block.mapLinesM (b : Block α) (f : Nat → List α → R (List α)) : R (Block α) := do
  let ls ← (List.range b.lines.length).mapM fun i => f i (b.lines.getD i [])
  pure { b with lines := ls }

/-- the paragraph callback of AlignOpts for Left -/
def alignParaLeft (width : Int) (lineSep para pre suf : List α) : R (List α) := do
  let sepStart := gRepeat [cx.sp] (gLen cx pre)
  let sepEnd := gRepeat [cx.sp] (gLen cx suf)
  let bl := Block.new (para ++ sepEnd) lineSep
  if bl.lines.isEmpty then return bl.join
  let endIdx : Int := (bl.lines.length : Int) - 1
  let bl ← bl.set 0 ((← bl.line 0) ++ sepStart)
  let bl ← bl.mapLinesM fun _ l => pure (alignLeft cx l width)
  let bl ← if gLen cx sepStart > 0 then bl.set 0 (gSub cx (← bl.line 0) 0 (-(gLen cx sepStart : Int))) else pure bl
  let bl ← if gLen cx sepEnd > 0 then bl.set endIdx (gSub cx (← bl.line endIdx) 0 (-(gLen cx sepEnd : Int))) else pure bl
  pure bl.join

/-- … for Right -/
def alignParaRight (width : Int) (lineSep para pre suf : List α) : R (List α) := do
  let sepStart := gRepeat [cx.sp] (gLen cx pre)
  let sepEnd := gRepeat [cx.sp] (gLen cx suf)
  let bl := Block.new (sepStart ++ para) lineSep
  if bl.lines.isEmpty then return bl.join
  let endIdx : Int := (bl.lines.length : Int) - 1
  let bl ← bl.set endIdx (sepEnd ++ (← bl.line endIdx))
  let bl ← bl.mapLinesM fun _ l => pure (alignRight cx l width)
  let bl ← if gLen cx sepStart > 0 then do
      let l0 ← bl.line 0
      bl.set 0 (gSub cx l0 (gLen cx sepStart) (gLen cx l0))
    else pure bl
  let bl ← if gLen cx sepEnd > 0 then do
      let le ← bl.line endIdx
      bl.set endIdx (gSub cx le (gLen cx sepEnd) (gLen cx le))
    else pure bl
  pure bl.join

/-- … for Center -/
def alignParaCenter (width : Int) (lineSep para pre suf : List α) : R (List α) := do
  let sepStart := gRepeat [cx.sp] (gLen cx pre)
  let sepEnd := gRepeat [cx.sp] (gLen cx suf)
  let bl := Block.new para lineSep
  if bl.lines.isEmpty then return bl.join
  let bl ← bl.mapLinesM fun _ l => pure (alignCenter cx l width)
  let ss : Int := gLen cx sepStart
  let se : Int := gLen cx sepEnd
  let bl ← if ss > 0 then do
      let first ← bl.line 0
      let leftSpace := countLeadingWs cx first
      let first :=
        if leftSpace ≥ ss then gSub cx first ss (gLen cx first)
        else
          let rightSpace := countTrailingWs cx first
          let rr := ss - leftSpace
          let rr := if rr > rightSpace then rightSpace else rr
          gSub cx first leftSpace ((gLen cx first : Int) - rr)
      bl.set 0 first
    else pure bl
  let bl ← if se > 0 then do
      let lastIdx : Int := (bl.lines.length : Int) - 1
      let last ← bl.line lastIdx
      let rightSpace := countTrailingWs cx last
      let last :=
        if rightSpace ≥ se then gSub cx last 0 (-se)
        else
          let leftSpace := countLeadingWs cx last
          let lr := se - rightSpace
          let lr := if lr > leftSpace then leftSpace else lr
          gSub cx last lr ((gLen cx last : Int) - rightSpace)
      bl.set lastIdx last
    else pure bl
  pure bl.join

/-- Editor.AlignOpts; `align` is the raw Alignment integer -/
def Editor.alignOpts (ed : Editor α) (align : Int) (width : Int) (o : Options α) : R (Editor α) :=
  if align == Gen.alignNone ∨ (align != Gen.alignLeft ∧ align != Gen.alignRight ∧ align != Gen.alignCenter) then
    pure ed
  else
    let o := o.withDefaults cx
    if o.preservePara then
      ed.applyParasM cx (fun _ para pre suf => do
        let p ←
          if align == Gen.alignLeft then alignParaLeft cx width o.lineSep para pre suf
          else if align == Gen.alignRight then alignParaRight cx width o.lineSep para pre suf
          else alignParaCenter cx width o.lineSep para pre suf
        pure [p]) o
    else
      ed.applyOpts cx (fun _ line =>
        if align == Gen.alignLeft then [alignLeft cx line width]
        else if align == Gen.alignRight then [alignRight cx line width]
        else [alignCenter cx line width]) o

/-- Editor.CollapseSpaceOpts -/
def Editor.collapseSpaceOpts (ed : Editor α) (o : Options α) : R (Editor α) := do
  let o := o.withDefaults cx
  pure (ed.withText (← collapseSpace cx ed.text o.lineSep))

/-- Editor.Insert -/
def Editor.insert (ed : Editor α) (pos : Int) (t : List α) : R (Editor α) := do
  let before := (← ed.charsTo cx pos).text
  let after := (← ed.charsFrom cx pos).text
  pure (ed.withText (before ++ t ++ after))

/-- Editor.Delete -/
def Editor.delete (ed : Editor α) (start end_ : Int) : R (Editor α) :=
  let count : Int := ed.charCount cx
  let start := if start == Gen.endSentinel then count else start
  let end_ := if end_ == Gen.endSentinel then count else end_
  let (start, end_) := rangeToIndexes count start end_
  if start ≥ end_ then pure ed
  else do
    let before := (← ed.charsTo cx start).text
    let after := (← ed.charsFrom cx end_).text
    pure (ed.withText (before ++ after))

/-- Editor.Overtype -/
def Editor.overtype (ed : Editor α) (pos : Int) (t : List α) : R (Editor α) := do
  let count : Int := ed.charCount cx
  let pos := if pos == Gen.endSentinel then count else pos
  let pos := (rangeToIndexes count pos pos).1
  let before := (← ed.charsTo cx pos).text
  let after := (← ed.charsFrom cx (wrap64 (pos + gLen cx t))).text
  pure (ed.withText (before ++ t ++ after))

/-- Editor.IndentOpts -/
def Editor.indentOpts (ed : Editor α) (level : Int) (o : Options α) : R (Editor α) :=
  if level < 1 then pure ed
  else do
    let od := o.withDefaults cx
    let indent ← repeatStr od.indentStr level
    let doIndent := fun (_ : Nat) (line : List α) => [indent ++ line]
    if od.preservePara then
      ed.applyParasM cx (fun _ para _ _ => do
        let e ← (Editor.root para o).applyOpts cx doIndent o
        pure [← e.string cx]) o
    else ed.applyOpts cx doIndent o

/-- Editor.WrapOpts -/
def Editor.wrapOpts (ed : Editor α) (width : Int) (o : Options α) : R (Editor α) := do
  let o := o.withDefaults cx
  let width := if width < 2 then 2 else width
  if o.preservePara then
    -- the stand-in for the separator's affixes must not occur in the line separator
    let ph := cx.placeholder o.lineSep
    ed.applyParasM cx (fun _ para pre suf => do
      let sepStart := gRepeat [ph] (gLen cx pre)
      let sepEnd := gRepeat [ph] (gLen cx suf)
      let ls ← wrapLines cx (sepStart ++ para ++ sepEnd) width o.lineSep
      let text := (Block.mk ls o.lineSep false).join
      let ss : Int := gLen cx sepStart
      let se : Int := gLen cx sepEnd
      let text := if se > 0 then gSub cx text ss (-se) else gSub cx text ss (gLen cx text)
      -- a paragraph that ends with the line separator keeps it, as outside of paragraph mode
      pure [if o.lineSep.isSuffixOf para then text ++ o.lineSep else text]) o
  else
    let ls ← wrapLines cx ed.text width o.lineSep
    let t := (Block.mk ls o.lineSep false).join
    let t := if o.lineSep.isSuffixOf ed.text then t ++ o.lineSep else t
    pure (ed.withText t)

/-- Editor.JustifyOpts -/
def Editor.justifyOpts (ed : Editor α) (width : Int) (o : Options α) : R (Editor α) := do
  let o := o.withDefaults cx
  if o.preservePara then
    -- the stand-in for the separator's affixes must not occur in the line separator
    let ph := cx.placeholder o.lineSep
    ed.applyParasM cx (fun _ para pre suf => do
      let sepStart := gRepeat [ph] (gLen cx pre)
      let sepEnd := gRepeat [ph] (gLen cx suf)
      let bl := Block.new (sepStart ++ para ++ sepEnd) o.lineSep
      let n := bl.lines.length
      let bl ← bl.mapLinesM fun idx line =>
        if !o.justifyLast ∧ (idx : Int) == (n : Int) - 1 then pure line else justifyLine cx line width
      let text := bl.join
      let ss : Int := gLen cx sepStart
      let se : Int := gLen cx sepEnd
      pure [if se > 0 then gSub cx text ss (-se) else gSub cx text ss (gLen cx text)]) o
  else do
    let originalOpts := ed.opts
    let ed ← if !o.justifyLast then (ed.withOpts o).linesTo cx (-1) else pure ed
    let ed ← ed.applyOptsM cx (fun _ line => do pure [← justifyLine cx line width]) o
    if !o.justifyLast then pure ((← ed.commit cx).withOpts originalOpts) else pure ed

/-- Editor.InsertDefinitionsTableOpts below its clamp of the width -/
def Editor.insertDefTableOptsCore (ed : Editor α) (pos : Int) (defs : List (List α × List α))
    (width : Int) (o : Options α) : R (Editor α) := do
  let o := o.withDefaults cx
  let longest : Int := defs.foldl (fun m d => if (gLen cx d.1 : Int) > m then (gLen cx d.1 : Int) else m) (-1)
  let leftWidth := longest + 2
  let rightWidth := width - leftWidth - 2
  let full ← defs.foldlM (fun (full : List (List α)) (item : List α × List α) => do
    let term := item.1
    let pad ← if (gLen cx term : Int) < longest then repeatStr [cx.sp] (longest - (gLen cx term : Int)) else pure []
    let leftCol := [[cx.sp, cx.sp] ++ term ++ pad]
    let rc ← wrapLines cx item.2 (rightWidth - 2) o.lineSep
    let rc := if rc.isEmpty then [[]] else rc
    let rightCol := (List.range rc.length).map fun i =>
      (if i == 0 then [cx.hy, cx.sp] else [cx.sp, cx.sp]) ++ rc.getD i []
    let combined ← combineColumns cx leftCol rightCol 2
    match full.isEmpty, combined with
    | false, c0 :: crest =>
      let lastIdx := full.length - 1
      let lastLine := full.getD lastIdx [] ++ o.paraSep ++ c0
      pure (full.set lastIdx lastLine ++ crest)
    | _, _ => pure (full ++ combined)) []
  if !full.isEmpty then ed.insert cx pos (Block.mk full o.lineSep (!o.noTrailing)).join
  else pure ed

/-- Editor.InsertDefinitionsTableOpts (D21: a negative width is clamped to 0 before
`width - leftWidth - minBetween`) -/
def Editor.insertDefTableOpts (ed : Editor α) (pos : Int) (defs : List (List α × List α))
    (width : Int) (o : Options α) : R (Editor α) :=
  ed.insertDefTableOptsCore cx pos defs (if width < 0 then 0 else width) o

/-- manip.Wrap takes every width below 2 as 2 -/
theorem wrapLines_lt_two (text : List α) (w : Int) (sep : List α) (h : w < 2) :
    wrapLines cx text w sep = wrapLines cx text 2 sep := by
  unfold wrapLines
  simp only [h, if_true, show ¬ ((2 : Int) < 2) by decide, if_false]

theorem foldl_longest_ge {β : Type} (f : β → Int) :
    ∀ (l : List β) (m : Int), m ≤ l.foldl (fun m d => if f d > m then f d else m) m := by
  intro l
  induction l with
  | nil => intro m; exact Int.le_refl m
  | cons b l ih =>
    intro m
    simp only [List.foldl_cons]
    refine Int.le_trans ?_ (ih _)
    split <;> omega

/-- the core sees the width only through `Wrap(def, width - leftWidth - 4)` with `leftWidth ≥ 1`,
and Wrap takes every width below 2 as 2 -/
theorem Editor.insertDefTableOptsCore_clamp (ed : Editor α) (pos : Int) (defs : List (List α × List α))
    (w : Int) (o : Options α) :
    ed.insertDefTableOptsCore cx pos defs (if w < 0 then 0 else w) o =
      ed.insertDefTableOptsCore cx pos defs w o := by
  by_cases h : w < 0
  · simp only [h, if_true]
    unfold Editor.insertDefTableOptsCore
    have hl : -1 ≤ List.foldl (fun m (d : List α × List α) =>
        if (gLen cx d.1 : Int) > m then (gLen cx d.1 : Int) else m) (-1) defs :=
      foldl_longest_ge (fun d : List α × List α => (gLen cx d.1 : Int)) defs (-1)
    simp only []
    generalize List.foldl (fun m (d : List α × List α) =>
        if (gLen cx d.1 : Int) > m then (gLen cx d.1 : Int) else m) (-1) defs = L at hl ⊢
    have h1 : ∀ t s, wrapLines cx t (0 - (L + 2) - 2 - 2) s = wrapLines cx t 2 s :=
      fun t s => wrapLines_lt_two cx t _ s (by omega)
    have h2 : ∀ t s, wrapLines cx t (w - (L + 2) - 2 - 2) s = wrapLines cx t 2 s :=
      fun t s => wrapLines_lt_two cx t _ s (by omega)
    simp only [h1, h2]
  · simp only [h, if_false]

/-- the public function is its core (as a function, so that partial applications rewrite too) -/
theorem Editor.insertDefTableOpts_eq_core :
    Editor.insertDefTableOpts cx = Editor.insertDefTableOptsCore cx := by
  funext ed pos defs w o; exact Editor.insertDefTableOptsCore_clamp cx ed pos defs w o

/-- Editor.InsertTableOpts -/
def Editor.insertTableOpts (ed : Editor α) (pos : Int) (data : List (List (List α))) (width : Int)
    (o : Options α) : R (Editor α) := do
  let o := o.withDefaults cx
  let ls := makeTable cx data width o.headers o.borders o.charset
  let table := (Block.mk ls o.lineSep false).join
  let table := if !o.noTrailing ∧ !table.isEmpty then table ++ o.lineSep else table
  ed.insert cx pos table

/-- percentage as an exact dyadic rational: (negative?, numerator, exponent) = ± num / 2^exp -/
structure Pct where
  neg : Bool
  num : Nat
  exp : Nat
  deriving Repr

/-- `int(float64(n) * p)` for `n ≥ 0`, `0 ≤ p ≤ 1`: exact product, round to nearest-even at
53 bits, truncate -/
def mulRoundTrunc (n : Nat) (num exp : Nat) : Nat :=
  let N := n * num
  if N == 0 then 0
  else
    let bits := N.log2 + 1
    if bits ≤ 53 then N >>> exp
    else
      let shift := bits - 53
      let m := N >>> shift
      let r := N % (2 ^ shift)
      let half := 2 ^ (shift - 1)
      let m := if r > half ∨ (r == half ∧ m % 2 == 1) then m + 1 else m
      (m <<< shift) >>> exp

/-- Editor.InsertTwoColumnsOpts -/
def Editor.insertTwoColumnsOpts (ed : Editor α) (pos : Int) (leftText rightText : List α)
    (minSpaceBetween width : Int) (pct : Pct) (o : Options α) : R (Editor α) :=
  if leftText.isEmpty ∧ rightText.isEmpty then pure ed
  else do
    -- clamp the percentage to [0, 1]
    let (num, exp) :=
      if pct.neg ∨ pct.num == 0 then (0, 0)
      else if pct.num > 2 ^ pct.exp then (1, 0) else (pct.num, pct.exp)
    -- a negative minimum distance between the columns is no minimum at all
    let minSpaceBetween := if minSpaceBetween < 0 then 0 else minSpaceBetween
    let minWidth := minSpaceBetween + 2 + 2
    let width := if width < minWidth then minWidth else width
    let avail := width - minSpaceBetween
    let leftW : Int := mulRoundTrunc avail.toNat num exp
    let leftW := if leftW < 2 then 2 else leftW
    let leftW := if leftW > avail - 2 then avail - 2 else leftW
    let rightW := avail - leftW
    if rightW < 2 then throw .explicit
    else
      let o := o.withDefaults cx
      let lb ← wrapLines cx leftText leftW o.lineSep
      let rb ← wrapLines cx rightText rightW o.lineSep
      let maxLeft : Int := lb.foldl (fun m l => if (gLen cx l : Int) > m then gLen cx l else m) 0
      let spaceBetween := minSpaceBetween + (leftW - maxLeft)
      let combined ← combineColumns cx lb rb spaceBetween
      ed.insert cx pos (Block.mk combined o.lineSep (!o.noTrailing)).join

end
end RosedVerif
