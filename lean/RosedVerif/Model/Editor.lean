/-
Model of the public package: Options, Editor, sub-editors, operations
(options.go, editor.go, subeditor.go, rosed.go, operations.go).
-/
import RosedVerif.Model.Table
import RosedVerif.Gen.Consts
namespace RosedVerif

structure Options (α : Type) where
  indentStr : List α := []
  lineSep : List α := []
  noTrailing : Bool := false
  paraSep : List α := []
  preservePara : Bool := false
  justifyLast : Bool := false
  borders : Bool := false
  headers : Bool := false
  charset : List α := []
  deriving DecidableEq, Repr

/-- Editor value: a root, or a sub-editor holding a snapshot of its parent and the byte
range `[a, b)` of the parent's text it was cut from (`parentRef`). -/
inductive Editor (α : Type)
  | root (text : List α) (opts : Options α)
  | sub (text : List α) (opts : Options α) (parent : Editor α) (a b : Int)

namespace Editor
variable {α : Type}
def text : Editor α → List α | root t _ => t | sub t _ _ _ _ => t
def opts : Editor α → Options α | root _ o => o | sub _ o _ _ _ => o
def withText : Editor α → List α → Editor α
  | root _ o, t => root t o
  | sub _ o p a b, t => sub t o p a b
def withOpts : Editor α → Options α → Editor α
  | root t _, o => root t o
  | sub t _ p a b, o => sub t o p a b
def isSub : Editor α → Bool | root _ _ => false | sub _ _ _ _ _ => true
def depth : Editor α → Nat | root _ _ => 0 | sub _ _ p _ _ => p.depth + 1
end Editor

section
variable {α : Type} [DecidableEq α] (cx : Ctx α)

/-- Options.WithDefaults -/
def Options.withDefaults (o : Options α) : Options α :=
  let o := if o.lineSep.isEmpty then { o with lineSep := cx.dLineSep } else o
  let o := if o.indentStr.isEmpty then { o with indentStr := cx.dIndent } else o
  let o := if o.paraSep.isEmpty then { o with paraSep := cx.dParaSep } else o
  let n := gLen cx o.charset
  let d := gLen cx cx.dCharset
  if n != d then
    if n < d then
      let numNeeded : Int := (d : Int) - n
      let e : Int := d
      { o with charset := o.charset ++ gSub cx cx.dCharset (e - numNeeded) e }
    else { o with charset := gSub cx o.charset 0 d }
  else o

/-- total byte length -/
def byteLen (s : List α) : Nat := s.foldl (fun n c => n + cx.blen c) 0

/-- number of atoms whose bytes make up exactly the first `n` bytes, if `n` is a rune boundary -/
def atomsForBytes : List α → Nat → Option Nat
  | _, 0 => some 0
  | [], _ + 1 => none
  | c :: t, n + 1 =>
    if cx.blen c ≤ n + 1 ∧ cx.blen c > 0 then (atomsForBytes t (n + 1 - cx.blen c)).map (· + 1) else none

/-- Go `s[a:b]` on a string with byte offsets -/
def byteSlice (s : List α) (a b : Int) : R (List α) :=
  let n : Int := byteLen cx s
  if a < 0 ∨ b < a ∨ b > n then throw .slice
  else if a == b then pure []      -- an empty slice is valid wherever it is cut
  else
    match atomsForBytes cx s a.toNat, atomsForBytes cx s b.toNat with
    | some i, some j => pure ((s.drop i).take (j - i))
    | _, _ => throw .invalidUtf8

/-- Editor.subEd -/
def Editor.subEd (ed : Editor α) (a b : Int) : R (Editor α) := do
  let t ← byteSlice cx ed.text a b
  pure (.sub t ed.opts ed a b)

/-- byte offset of atom index `k` -/
def byteOff (s : List α) (k : Nat) : Nat := byteLen cx (s.take k)

/-- Editor.Chars -/
def Editor.chars (ed : Editor α) (start end_ : Int) : R (Editor α) :=
  let e := cx.ends ed.text
  let n : Int := e.length
  let start := if start == Gen.endSentinel then n else start
  let end_ := if end_ == Gen.endSentinel then n else end_
  let (st, en) := rangeToIndexes n start end_
  if st ≥ n then ed.subEd cx (byteLen cx ed.text) (byteLen cx ed.text)
  else
    let runeStart := (clusterSpan e st.toNat).1
    let byteStart := byteOff cx ed.text runeStart
    let byteEnd :=
      if en < n then byteOff cx ed.text (clusterSpan e en.toNat).1 else byteLen cx ed.text
    ed.subEd cx byteStart byteEnd

def Editor.charsFrom (ed : Editor α) (start : Int) : R (Editor α) :=
  ed.chars cx start (byteLen cx ed.text)

def Editor.charsTo (ed : Editor α) (end_ : Int) : R (Editor α) := ed.chars cx 0 end_

/-- Editor.CharCount -/
def Editor.charCount (ed : Editor α) : Nat := gLen cx ed.text

/-- `s[:a] + t + s[b:]` with byte offsets. When an offset is not on a rune boundary the pieces
are not valid UTF-8 on their own; the concatenation is valid again only in the degenerate
case `a = b`, `t = ""` (the original string). -/
def spliceBytes (s : List α) (a b : Int) (t : List α) : R (List α) :=
  let n : Int := byteLen cx s
  if a < 0 ∨ a > n ∨ b < 0 ∨ b > n then throw .slice
  else
    match atomsForBytes cx s a.toNat, atomsForBytes cx s b.toNat with
    | some i, some j => pure (s.take i ++ t ++ s.drop j)
    | _, _ => if a == b ∧ t.isEmpty then pure s else throw .invalidUtf8

/-- Editor.Commit -/
def Editor.commit : Editor α → R (Editor α)
  | .root t o => pure (.root t o)
  | .sub t _ parent a b => do
    pure (parent.withText (← spliceBytes cx parent.text a b t))

def commitAllFuel : Nat → Editor α → R (Editor α)
  | 0, ed => if ed.isSub then throw .fuel else pure ed
  | n + 1, ed => if ed.isSub then do commitAllFuel n (← ed.commit cx) else pure ed

/-- Editor.CommitAll -/
def Editor.commitAll (ed : Editor α) : R (Editor α) := commitAllFuel cx ed.depth ed

/-- Editor.String -/
def Editor.string (ed : Editor α) : R (List α) := do pure (← ed.commitAll cx).text

end
end RosedVerif
