/-
C07 / C06 at the level of the PUBLIC operations, on code points (instance `cxA`, real UAX #29
segmentation), for texts over a stable vocabulary `V`.

Notation: `S = (o.withDefaults cxB).lineSep` (the line separator as cluster tokens), `sepA =
(o.flat.withDefaults cxA).lineSep = S.flatten` (the same on code points), `nonws l` = the
non-whitespace cluster tokens of `l`, in order, `wid w` = the clamped width.

  1. AlignOpts   `alignOpts_no_loss` (closed form, any good separator), `alignOpts_nonws_text`
                 (whole text), `alignOpts_nonws_lines` / `…_tok` (line by line, separator count)
  2. JustifyOpts `justifyOpts_no_loss`, `justifyOpts_nonws_text`, `justifyOpts_nonws_lines` / `…_tok`
  3. WrapOpts    `wrapOpts_no_loss` (closed form, any good separator), `wrapOpts_dehyphen_tok`
                 (from the output alone, one-cluster separator), `wrapOpts_dehyphen_text` (whole
                 text, one whitespace cluster as separator)
  6. WrapOpts idempotent: `wrapT_idem` (specification level), `wrapOpts_idempotent_code_points`;
     `wrapOpts_idem_needs_not_hyphen`, `vocabStable_cons_hyphen`
  5. CollapseSpaceOpts idempotent: `collapseSpaceOpts_idem_code_points`; FALSE for arbitrary code
     points (`collapseSpaceOpts_not_idem_all`) and for separators like `"a b"`
     (`collapseSpaceOpts_idem_needs_sep`)
  4. paragraph mode (affix-free separators): `paragraphWise_code_points`, `para_of_replaced`,
     `alignOpts_para_no_loss`, `justifyOpts_para_no_loss`, `wrapOpts_para_no_loss`
-/
import RosedVerif.Model.BridgeEditorParas
import RosedVerif.Model.ParaStructure
import RosedVerif.Model.NoLossModel
import RosedVerif.Spec.NoLoss
set_option linter.unusedSectionVars false
namespace RosedVerif
namespace NoLossOps
open BridgeWrap BridgeOps BridgeAlign BridgeComposite OpsStructure BridgeEditorOps Spec

/-! ## 0. generic list facts -/

section generic
variable {α : Type}

theorem filter_joinWith (p : α → Bool) (sep : List α) : ∀ ls : List (List α),
    (joinWith sep ls).filter p = joinWith (sep.filter p) (ls.map (List.filter p))
  | [] => rfl
  | [l] => by simp only [joinWith_singleton, List.map_cons, List.map_nil]
  | l :: l' :: ls => by
    have ih := filter_joinWith p sep (l' :: ls)
    simp only [List.map_cons] at ih
    simp only [List.map_cons, joinWith_cons_cons, List.filter_append, ih]

theorem joinWith_nil_sep : ∀ ls : List (List α), joinWith [] ls = ls.flatten
  | [] => rfl
  | [l] => by simp only [joinWith_singleton, List.flatten_cons, List.flatten_nil, List.append_nil]
  | l :: l' :: ls => by
    have ih := joinWith_nil_sep (l' :: ls)
    simp only [joinWith_cons_cons, ih, List.flatten_cons, List.append_nil]

/-- joining with a separator, filtered: only the filtered lines matter -/
theorem filter_joinWith_congr (p : α → Bool) (sep : List α) (ls ls' : List (List α))
    (h : ls'.map (List.filter p) = ls.map (List.filter p)) :
    (joinWith sep ls').filter p = (joinWith sep ls).filter p := by
  rw [filter_joinWith, filter_joinWith, h]

theorem map_filter_append_congr (p : α → Bool) (a a' b : List (List α))
    (h : a'.map (List.filter p) = a.map (List.filter p)) :
    (a' ++ b).map (List.filter p) = (a ++ b).map (List.filter p) := by
  rw [List.map_append, List.map_append, h]

end generic

/-- the non-whitespace cluster tokens of a token list, in order -/
def nonws (l : List (List Int)) : List (List Int) := l.filter (fun c => !cxB.isSpace c)

theorem nonws_def (l : List (List Int)) : nonws l = l.filter (fun c => !tkB.ws c) := rfl

section vocab
variable {V : List (List Int)}

/-- the clusters of the flattening of a token list over `V` are the tokens -/
theorem clusters_flat_over (hV : VocabStable V = true) {toks : List (List Int)}
    (ht : ∀ t ∈ toks, t ∈ V) : clusters cxA toks.flatten = toks :=
  clusters_flatten_stable toks (stableRunes_of_vocab V hV toks ht)

/-- the input side: splitting the code-point text at the code-point separator and segmenting
every piece gives the cluster-level lines plus the trailing empty piece -/
theorem input_lines (hV : VocabStable V = true) (ed : Editor (List Int))
    (ht : ∀ t ∈ ed.text, t ∈ V) (o : Options (List Int))
    (hS : GoodSep V (o.withDefaults cxB).lineSep) :
    (splitOn ed.flat.text (o.withDefaults cxB).lineSep.flatten).map (clusters cxA) =
      inLines cxB ed o ++ trailing cxB ed o := by
  rw [flat_text, hS.split _ ht, List.map_map,
    List.map_congr_left (f := clusters cxA ∘ List.flatten) (g := id) (fun l hl =>
      clusters_flat_over hV (splitOn_over ht _ l hl)),
    List.map_id]
  exact (inLines_append_trailing cxB ed o).symm

/-- `e` is `ed` with its lines replaced one for one by `ls'` (closed form of Align / Justify in
non-paragraph mode) -/
def Replaced (ed : Editor (List Int)) (o : Options (List Int)) (ls' : List (List (List Int)))
    (e : Editor Int) : Prop :=
  e = (ed.withText (joinWith (o.withDefaults cxB).lineSep (ls' ++ trailing cxB ed o))).flat

/-- **whole text**: the non-whitespace clusters of the result are those of the input, in order -/
theorem Replaced.nonws_text (hV : VocabStable V = true) {ed : Editor (List Int)}
    (ht : ∀ t ∈ ed.text, t ∈ V) {o : Options (List Int)}
    (hS : GoodSep V (o.withDefaults cxB).lineSep)
    (hSV : ∀ t ∈ (o.withDefaults cxB).lineSep, t ∈ V)
    {ls' : List (List (List Int))} {e : Editor Int} (h : Replaced ed o ls' e)
    (hover : ∀ l ∈ ls', ∀ t ∈ l, t ∈ V)
    (hnw : ls'.map nonws = (inLines cxB ed o).map nonws) :
    nonws (clusters cxA e.text) = nonws (clusters cxA ed.flat.text) := by
  have htr : ∀ l ∈ trailing cxB ed o, ∀ t ∈ l, t ∈ V := by
    intro l hl t ht
    rw [trailing_mem cxB ed o l hl] at ht; cases ht
  have hJ : ∀ t ∈ joinWith (o.withDefaults cxB).lineSep (ls' ++ trailing cxB ed o), t ∈ V := by
    intro t h
    rcases joinWith_mem _ _ t h with h | ⟨l, hl, h⟩
    · exact hSV t h
    · rcases List.mem_append.1 hl with hl | hl
      · exact hover l hl t h
      · exact htr l hl t h
  rw [h, flat_withText, Editor.withText_text, clusters_flat_over hV hJ, flat_text,
    clusters_flat_over hV ht]
  conv => rhs; rw [text_eq_joinWith cxB ed o hS.ne]
  exact filter_joinWith_congr _ _ _ _ (map_filter_append_congr _ _ _ _ hnw)

/-- **line by line**: splitting result and input at the separator and segmenting every piece, the
non-whitespace clusters agree line for line — in particular the number of pieces (of line
separators) is unchanged -/
theorem Replaced.nonws_lines (hV : VocabStable V = true) {ed : Editor (List Int)}
    (ht : ∀ t ∈ ed.text, t ∈ V) {o : Options (List Int)}
    (hS : GoodSep V (o.withDefaults cxB).lineSep)
    (hSV : ∀ t ∈ (o.withDefaults cxB).lineSep, t ∈ V)
    (hu : Unbordered (o.withDefaults cxB).lineSep)
    {ls' : List (List (List Int))} {e : Editor Int} (h : Replaced ed o ls' e)
    (hlen : ls'.length = (inLines cxB ed o).length)
    (hover : ∀ l ∈ ls', ∀ t ∈ l, t ∈ V)
    (hfree : ∀ l ∈ ls', indexOf (o.withDefaults cxB).lineSep l = none)
    (hnw : ls'.map nonws = (inLines cxB ed o).map nonws) :
    (splitOn e.text (o.flat.withDefaults cxA).lineSep).map (fun l => nonws (clusters cxA l)) =
      (splitOn ed.flat.text (o.flat.withDefaults cxA).lineSep).map
        (fun l => nonws (clusters cxA l)) ∧
    (splitOn e.text (o.flat.withDefaults cxA).lineSep).length =
      (splitOn ed.flat.text (o.flat.withDefaults cxA).lineSep).length := by
  have h1 : (splitOn e.text (o.withDefaults cxB).lineSep.flatten).map (clusters cxA) =
      ls' ++ trailing cxB ed o := by
    rw [h, flat_withText, Editor.withText_text]
    exact lines_of_replaced hV ed o hS hSV hu ls' hlen hover hfree
  have h2 := input_lines hV ed ht o hS
  have e1 : ∀ x : List (List Int),
      x.map (fun l => nonws (clusters cxA l)) = (x.map (clusters cxA)).map nonws := by
    intro x; rw [List.map_map]; rfl
  rw [lineSep_flat_gen o hS.tok_ne]
  refine ⟨?_, ?_⟩
  · rw [e1, e1, h1, h2]
    exact map_filter_append_congr _ _ _ _ hnw
  · have := congrArg List.length h1
    have := congrArg List.length h2
    simp only [List.length_map, List.length_append] at *
    omega

end vocab

/-! ## 1. AlignOpts -/

theorem specAlign_nonws (align w : Int) (l : List (List Int)) :
    nonws (specAlign align w l) = nonws l := by
  unfold specAlign
  split
  · exact alignLeft_nonws tkB cxB_sp_space w l
  · split
    · exact alignRight_nonws tkB cxB_sp_space w l
    · exact alignCenter_nonws tkB cxB_sp_space w l

section vocab
variable {V : List (List Int)}

/-- **1 (closed form).** `AlignOpts` (Left / Right / Center) on code points, non-paragraph mode, any
editor, any good separator: it succeeds, keeps the receiver's options, and the new text is the old
one with every line replaced by a line over `V` with the same non-whitespace clusters; the lines
are joined by the same separators, the trailing one included -/
theorem alignOpts_no_loss (hV : VocabStable V = true) (hsp : [0x20] ∈ V)
    (ed : Editor (List Int)) (ht : ∀ t ∈ ed.text, t ∈ V) (align width : Int)
    (o : Options (List Int))
    (hal : align = Gen.alignLeft ∨ align = Gen.alignRight ∨ align = Gen.alignCenter)
    (hpp : o.preservePara = false) (hS : GoodSep V (o.withDefaults cxB).lineSep) :
    ∃ e, Editor.alignOpts cxA ed.flat align width o.flat = .ok e ∧ e.opts = ed.flat.opts ∧
      Replaced ed o ((inLines cxB ed o).map (specAlign align width)) e ∧
      (∀ l ∈ (inLines cxB ed o).map (specAlign align width), ∀ t ∈ l, t ∈ V) ∧
      ((inLines cxB ed o).map (specAlign align width)).map nonws = (inLines cxB ed o).map nonws := by
  refine ⟨_, alignOpts_bridge_closed hV ed ht align width o hal hpp hS, ?_, rfl, ?_, ?_⟩
  · rw [flat_withText, Editor.withText_opts]
  · intro l hl
    obtain ⟨l0, hl0, rfl⟩ := List.mem_map.1 hl
    exact specAlign_over hsp align width (inLines_over ed ht o l0 hl0)
  · rw [List.map_map]
    exact List.map_congr_left (fun l _ => specAlign_nonws align width l)

/-- **1 (whole text).** the sequence of non-whitespace grapheme clusters of the result equals that
of the input (separator tokens in the vocabulary) -/
theorem alignOpts_nonws_text (hV : VocabStable V = true) (hsp : [0x20] ∈ V)
    (ed : Editor (List Int)) (ht : ∀ t ∈ ed.text, t ∈ V) (align width : Int)
    (o : Options (List Int))
    (hal : align = Gen.alignLeft ∨ align = Gen.alignRight ∨ align = Gen.alignCenter)
    (hpp : o.preservePara = false) (hS : GoodSep V (o.withDefaults cxB).lineSep)
    (hSV : ∀ t ∈ (o.withDefaults cxB).lineSep, t ∈ V) :
    ∃ e, Editor.alignOpts cxA ed.flat align width o.flat = .ok e ∧ e.opts = ed.flat.opts ∧
      nonws (clusters cxA e.text) = nonws (clusters cxA ed.flat.text) := by
  obtain ⟨e, h1, h2, h3, h4, h5⟩ := alignOpts_no_loss hV hsp ed ht align width o hal hpp hS
  exact ⟨e, h1, h2, h3.nonws_text hV ht hS hSV h4 h5⟩

/-- **1 (line by line).** reading result and input line by line (split at the separator, every
piece segmented), the non-whitespace clusters agree line for line and the number of line separators
is unchanged.  `hu`/`hfree`: an unbordered separator that no aligned line contains (both needed,
`OpsStructure` has the counterexamples) -/
theorem alignOpts_nonws_lines (hV : VocabStable V = true) (hsp : [0x20] ∈ V)
    (ed : Editor (List Int)) (ht : ∀ t ∈ ed.text, t ∈ V) (align width : Int)
    (o : Options (List Int))
    (hal : align = Gen.alignLeft ∨ align = Gen.alignRight ∨ align = Gen.alignCenter)
    (hpp : o.preservePara = false) (hS : GoodSep V (o.withDefaults cxB).lineSep)
    (hSV : ∀ t ∈ (o.withDefaults cxB).lineSep, t ∈ V)
    (hu : Unbordered (o.withDefaults cxB).lineSep)
    (hfree : ∀ l ∈ inLines cxB ed o,
      indexOf (o.withDefaults cxB).lineSep (specAlign align width l) = none) :
    ∃ e, Editor.alignOpts cxA ed.flat align width o.flat = .ok e ∧ e.opts = ed.flat.opts ∧
      (splitOn e.text (o.flat.withDefaults cxA).lineSep).map (fun l => nonws (clusters cxA l)) =
        (splitOn ed.flat.text (o.flat.withDefaults cxA).lineSep).map
          (fun l => nonws (clusters cxA l)) ∧
      (splitOn e.text (o.flat.withDefaults cxA).lineSep).length =
        (splitOn ed.flat.text (o.flat.withDefaults cxA).lineSep).length := by
  obtain ⟨e, h1, h2, h3, h4, h5⟩ := alignOpts_no_loss hV hsp ed ht align width o hal hpp hS
  refine ⟨e, h1, h2, h3.nonws_lines hV ht hS hSV hu (List.length_map _) h4 ?_ h5⟩
  intro l hl
  obtain ⟨l0, hl0, rfl⟩ := List.mem_map.1 hl
  exact hfree l0 hl0

/-- 1 (line by line) for a single-token separator other than the space (`"\n"`, CR LF as one
cluster, …): no side condition on the aligned lines is left -/
theorem alignOpts_nonws_lines_tok (hV : VocabStable V = true) (hsp : [0x20] ∈ V)
    (ed : Editor (List Int)) (ht : ∀ t ∈ ed.text, t ∈ V) (align width : Int)
    (o : Options (List Int))
    (hal : align = Gen.alignLeft ∨ align = Gen.alignRight ∨ align = Gen.alignCenter)
    (hpp : o.preservePara = false) (s : List Int) (hs : (o.withDefaults cxB).lineSep = [s])
    (hsV : s ∈ V) (hsne : s ≠ [0x20]) (hS : GoodSep V [s]) :
    ∃ e, Editor.alignOpts cxA ed.flat align width o.flat = .ok e ∧ e.opts = ed.flat.opts ∧
      (splitOn e.text (o.flat.withDefaults cxA).lineSep).map (fun l => nonws (clusters cxA l)) =
        (splitOn ed.flat.text (o.flat.withDefaults cxA).lineSep).map
          (fun l => nonws (clusters cxA l)) ∧
      (splitOn e.text (o.flat.withDefaults cxA).lineSep).length =
        (splitOn ed.flat.text (o.flat.withDefaults cxA).lineSep).length :=
  alignOpts_nonws_lines hV hsp ed ht align width o hal hpp (hs ▸ hS)
    (by rw [hs]; intro t h; rw [List.mem_singleton] at h; rw [h]; exact hsV)
    (by rw [hs]; exact unbordered_single s)
    (free_of_mem_or_sp ed o s hs hsne _ (specAlign_mem align width))

end vocab

/-! ## 2. JustifyOpts -/

theorem nonws_interleave : ∀ (ws : List (List (List Int))) (extra : List Nat),
    nonws (interleave cxB ws extra) = nonws ws.flatten
  | [], _ => rfl
  | [w], _ => by simp only [interleave, List.flatten_cons, List.flatten_nil, List.append_nil]
  | w :: w' :: ws, e :: es => by
    have ih := nonws_interleave (w' :: ws) es
    have hr : nonws (List.replicate (1 + e) cxB.sp) = [] := by
      unfold nonws
      rw [List.filter_eq_nil_iff]
      intro a ha
      rw [List.eq_of_mem_replicate ha]
      decide
    unfold nonws at *
    simp only [interleave, List.filter_append, ih, hr, List.flatten_cons, List.append_nil]
  | w :: w' :: ws, [] => by
    have ih := nonws_interleave (w' :: ws) []
    have hr : nonws [cxB.sp] = [] := by decide
    unfold nonws at *
    simp only [interleave, List.filter_append, ih, hr, List.flatten_cons, List.append_nil]

theorem nonws_flatten_splitOn_sp (c : List (List Int)) :
    nonws (splitOn c [cxB.sp]).flatten = nonws c := by
  have h := filter_joinWith (fun c => !cxB.isSpace c) [cxB.sp] (splitOn c [cxB.sp])
  rw [joinWith_splitOn c [cxB.sp] (by simp)] at h
  have hs : ([cxB.sp] : List (List Int)).filter (fun c => !cxB.isSpace c) = [] := by decide
  rw [hs] at h
  unfold nonws
  rw [h, List.filter_flatten]
  exact (joinWith_nil_sep _).symm

theorem justified_nonws (l : List (List Int)) (w : Int) : nonws (justified cxB l w) = nonws l := by
  obtain ⟨-, h1, h2⟩ := justified_B_post l w
  have hc : nonws (Spec.collapse tkB l) = nonws l := collapse_nonws tkB cxB_sp_space l
  by_cases hcase : ((Spec.collapse tkB l).length : Int) ≥ w ∨ cxB.sp ∉ Spec.collapse tkB l
  · rw [h1 hcase, hc]
  · obtain ⟨-, -, extra, he, -⟩ := h2 hcase
    rw [he, nonws_interleave, nonws_flatten_splitOn_sp, hc]

/-- the replacement lines of `JustifyOpts`: every line justified (JustifyLastLine), or every line
but the last (default) -/
def justLines (ed : Editor (List Int)) (o : Options (List Int)) (width : Int) :
    List (List (List Int)) :=
  if o.justifyLast then (inLines cxB ed o).map (fun l => justified cxB l width)
  else mapInit (fun l => justified cxB l width) (inLines cxB ed o)

theorem justLines_length (ed : Editor (List Int)) (o : Options (List Int)) (width : Int) :
    (justLines ed o width).length = (inLines cxB ed o).length := by
  unfold justLines
  split
  · exact List.length_map _
  · exact mapInit_length _ _

/-- every replacement line consists of tokens of an input line and spaces -/
theorem justLines_mem (ed : Editor (List Int)) (o : Options (List Int)) (width : Int) :
    ∀ l' ∈ justLines ed o width, ∃ l ∈ inLines cxB ed o, ∀ c ∈ l', c ∈ l ∨ c = cxB.sp := by
  intro l' hl'
  unfold justLines at hl'
  split at hl'
  · obtain ⟨l, hl, rfl⟩ := List.mem_map.1 hl'
    exact ⟨l, hl, justified_B_mem l width⟩
  · unfold mapInit at hl'
    rcases List.mem_append.1 hl' with h | h
    · obtain ⟨l, hl, rfl⟩ := List.mem_map.1 h
      exact ⟨l, List.dropLast_subset _ hl, justified_B_mem l width⟩
    · exact ⟨l', List.mem_of_mem_drop h, fun c hc => Or.inl hc⟩

theorem justLines_nonws (ed : Editor (List Int)) (o : Options (List Int)) (width : Int) :
    (justLines ed o width).map nonws = (inLines cxB ed o).map nonws := by
  unfold justLines
  split
  · rw [List.map_map]
    exact List.map_congr_left (fun l _ => justified_nonws l width)
  · unfold mapInit
    rw [List.map_append, List.map_map,
      List.map_congr_left (f := nonws ∘ fun l => justified cxB l width) (g := nonws)
        (fun l _ => justified_nonws l width), ← List.map_append,
      dropLast_append_drop]

section vocab
variable {V : List (List Int)}

theorem justLines_over (hsp : [0x20] ∈ V) (ed : Editor (List Int)) (ht : ∀ t ∈ ed.text, t ∈ V)
    (o : Options (List Int)) (width : Int) : ∀ l ∈ justLines ed o width, ∀ t ∈ l, t ∈ V := by
  intro l' hl'
  obtain ⟨l, hl, hm⟩ := justLines_mem ed o width l' hl'
  exact over_of_mem_or_sp hsp (inLines_over ed ht o l hl) hm

/-- **2 (closed form).** `JustifyOpts` on code points, non-paragraph mode, JustifyLastLine on or
off, any editor, any good separator: it succeeds, keeps the receiver's options, and the new text
is the old one with every line replaced by a line over `V` with the same non-whitespace clusters
(`justLines`), joined by the same separators -/
theorem justifyOpts_no_loss (hV : VocabStable V = true) (hsp : [0x20] ∈ V)
    (hspTail : ∀ t ∈ V, (0x20 : Int) ∉ t.tail) (ed : Editor (List Int))
    (ht : ∀ t ∈ ed.text, t ∈ V) (width : Int) (o : Options (List Int))
    (hpp : o.preservePara = false) (hS : GoodSep V (o.withDefaults cxB).lineSep) :
    ∃ e, Editor.justifyOpts cxA ed.flat width o.flat = .ok e ∧ e.opts = ed.flat.opts ∧
      Replaced ed o (justLines ed o width) e ∧
      (∀ l ∈ justLines ed o width, ∀ t ∈ l, t ∈ V) ∧
      (justLines ed o width).map nonws = (inLines cxB ed o).map nonws := by
  refine ⟨(ed.withText (joinWith (o.withDefaults cxB).lineSep
      (justLines ed o width ++ trailing cxB ed o))).flat, ?_, ?_, rfl,
    justLines_over hsp ed ht o width, justLines_nonws ed o width⟩
  · unfold justLines
    cases hjl : o.justifyLast with
    | true =>
      rw [if_pos rfl]
      exact (justifyOpts_bridge_all_closed hV hsp hspTail ed ht width o hpp hjl hS).1
    | false =>
      rw [if_neg (by simp)]
      exact justifyOpts_bridge_notLast_closed hV hsp hspTail ed ht width o hpp hjl hS
  · rw [flat_withText, Editor.withText_opts]

/-- **2 (whole text).** the sequence of non-whitespace grapheme clusters of the result equals that
of the input -/
theorem justifyOpts_nonws_text (hV : VocabStable V = true) (hsp : [0x20] ∈ V)
    (hspTail : ∀ t ∈ V, (0x20 : Int) ∉ t.tail) (ed : Editor (List Int))
    (ht : ∀ t ∈ ed.text, t ∈ V) (width : Int) (o : Options (List Int))
    (hpp : o.preservePara = false) (hS : GoodSep V (o.withDefaults cxB).lineSep)
    (hSV : ∀ t ∈ (o.withDefaults cxB).lineSep, t ∈ V) :
    ∃ e, Editor.justifyOpts cxA ed.flat width o.flat = .ok e ∧ e.opts = ed.flat.opts ∧
      nonws (clusters cxA e.text) = nonws (clusters cxA ed.flat.text) := by
  obtain ⟨e, h1, h2, h3, h4, h5⟩ := justifyOpts_no_loss hV hsp hspTail ed ht width o hpp hS
  exact ⟨e, h1, h2, h3.nonws_text hV ht hS hSV h4 h5⟩

/-- **2 (line by line).** as for Align; `hfree`: no replacement line contains the separator -/
theorem justifyOpts_nonws_lines (hV : VocabStable V = true) (hsp : [0x20] ∈ V)
    (hspTail : ∀ t ∈ V, (0x20 : Int) ∉ t.tail) (ed : Editor (List Int))
    (ht : ∀ t ∈ ed.text, t ∈ V) (width : Int) (o : Options (List Int))
    (hpp : o.preservePara = false) (hS : GoodSep V (o.withDefaults cxB).lineSep)
    (hSV : ∀ t ∈ (o.withDefaults cxB).lineSep, t ∈ V)
    (hu : Unbordered (o.withDefaults cxB).lineSep)
    (hfree : ∀ l ∈ justLines ed o width, indexOf (o.withDefaults cxB).lineSep l = none) :
    ∃ e, Editor.justifyOpts cxA ed.flat width o.flat = .ok e ∧ e.opts = ed.flat.opts ∧
      (splitOn e.text (o.flat.withDefaults cxA).lineSep).map (fun l => nonws (clusters cxA l)) =
        (splitOn ed.flat.text (o.flat.withDefaults cxA).lineSep).map
          (fun l => nonws (clusters cxA l)) ∧
      (splitOn e.text (o.flat.withDefaults cxA).lineSep).length =
        (splitOn ed.flat.text (o.flat.withDefaults cxA).lineSep).length := by
  obtain ⟨e, h1, h2, h3, h4, h5⟩ := justifyOpts_no_loss hV hsp hspTail ed ht width o hpp hS
  exact ⟨e, h1, h2, h3.nonws_lines hV ht hS hSV hu (justLines_length ed o width) h4 hfree h5⟩

/-- 2 (line by line) for a single-token separator other than the space: no side condition left -/
theorem justifyOpts_nonws_lines_tok (hV : VocabStable V = true) (hsp : [0x20] ∈ V)
    (hspTail : ∀ t ∈ V, (0x20 : Int) ∉ t.tail) (ed : Editor (List Int))
    (ht : ∀ t ∈ ed.text, t ∈ V) (width : Int) (o : Options (List Int))
    (hpp : o.preservePara = false) (s : List Int) (hs : (o.withDefaults cxB).lineSep = [s])
    (hsV : s ∈ V) (hsne : s ≠ [0x20]) (hS : GoodSep V [s]) :
    ∃ e, Editor.justifyOpts cxA ed.flat width o.flat = .ok e ∧ e.opts = ed.flat.opts ∧
      (splitOn e.text (o.flat.withDefaults cxA).lineSep).map (fun l => nonws (clusters cxA l)) =
        (splitOn ed.flat.text (o.flat.withDefaults cxA).lineSep).map
          (fun l => nonws (clusters cxA l)) ∧
      (splitOn e.text (o.flat.withDefaults cxA).lineSep).length =
        (splitOn ed.flat.text (o.flat.withDefaults cxA).lineSep).length := by
  refine justifyOpts_nonws_lines hV hsp hspTail ed ht width o hpp (hs ▸ hS)
    (by rw [hs]; intro t h; rw [List.mem_singleton] at h; rw [h]; exact hsV)
    (by rw [hs]; exact unbordered_single s) ?_
  intro l' hl'
  obtain ⟨l, hl, hm⟩ := justLines_mem ed o width l' hl'
  have h0 := inLines_free cxB ed o (by rw [hs]; simp) l hl
  rw [hs, indexOf_single_none_iff] at h0 ⊢
  intro hmem
  rcases hm s hmem with h | h
  · exact h0 h
  · exact hsne h

end vocab

/-! ## 3 / 6. Wrap: specification-level facts for a one-token separator -/

section spec
variable {α : Type} [DecidableEq α] (tk : Toks α)

theorem wordsAux_append_ws (x : α) (hx : tk.ws x = true) (b : List α) : ∀ (a cur : List α),
    wordsAux tk cur (a ++ x :: b) = wordsAux tk cur a ++ wordsAux tk [] b
  | [], cur => by
    simp only [List.nil_append, wordsAux, hx, if_true]
    split <;> simp
  | c :: a, cur => by
    simp only [List.cons_append, wordsAux, wordsAux_append_ws x hx b a]
    split
    · split <;> simp
    · rfl

/-- a whitespace token separates words -/
theorem words_append_ws (x : α) (hx : tk.ws x = true) (a b : List α) :
    words tk (a ++ x :: b) = words tk a ++ words tk b :=
  wordsAux_append_ws tk x hx b a []

theorem words_nil : words tk ([] : List α) = [] := rfl

theorem words_concat_ws (x : α) (hx : tk.ws x = true) (a : List α) :
    words tk (a ++ [x]) = words tk a := by
  rw [words_append_ws tk x hx, words_nil, List.append_nil]

/-- the words of lines joined by a whitespace token are the words of the lines -/
theorem words_joinWith_ws (x : α) (hx : tk.ws x = true) : ∀ ls : List (List α),
    words tk (joinWith [x] ls) = ls.flatMap (words tk)
  | [] => rfl
  | [l] => by simp only [joinWith_singleton, List.flatMap_cons, List.flatMap_nil, List.append_nil]
  | l :: l' :: ls => by
    have ih := words_joinWith_ws x hx (l' :: ls)
    rw [joinWith_cons_cons, List.append_assoc, List.singleton_append, words_append_ws tk x hx, ih,
      List.flatMap_cons, List.flatMap_cons, List.flatMap_cons]

/-- a text without a word has only whitespace tokens, and conversely -/
theorem words_eq_nil_iff (l : List α) : words tk l = [] ↔ ∀ c ∈ l, tk.ws c = true := by
  constructor
  · intro h c hc
    cases hws : tk.ws c with
    | true => rfl
    | false =>
      have : c ∈ (words tk l).flatten := by
        rw [words_flatten]
        exact List.mem_filter.2 ⟨hc, by simp [hws]⟩
      rw [h] at this
      cases this
  · intro h
    have hf : (words tk l).flatten = [] := by
      rw [words_flatten, List.filter_eq_nil_iff]
      intro c hc
      simp [h c hc]
    cases hw : words tk l with
    | nil => rfl
    | cons wd r =>
      exfalso
      have hne := words_nonempty tk l wd (by rw [hw]; exact List.mem_cons_self)
      rw [hw, List.flatten_cons, List.append_eq_nil_iff] at hf
      exact hne hf.1

/-- the wrapped lines depend on the words only (non-empty texts) -/
theorem wrapLines_congr_words (w : Nat) (l l' : List α) (hl : l ≠ []) (hl' : l' ≠ [])
    (h : words tk l = words tk l') : Spec.wrapLines tk w l = Spec.wrapLines tk w l' := by
  rw [wrapLines_eq_fill_units tk w l hl, wrapLines_eq_fill_units tk w l' hl', units, units, h]

/-- a text without a word wraps to no line at all, unless it is empty -/
theorem wrapLines_of_no_word (w : Nat) (l : List α) (hl : l ≠ []) (h : words tk l = []) :
    Spec.wrapLines tk w l = [] := by
  rw [wrapLines_eq_fill_units tk w l hl, units, h]
  rfl

theorem wrapLines_ne_nil_of_word {w : Nat} (hw : 2 ≤ w) (l : List α) (h : words tk l ≠ []) :
    Spec.wrapLines tk w l ≠ [] := by
  apply spec_wrapLines_ne_nil tk hw
  right
  apply Classical.byContradiction
  intro hc
  apply h
  rw [words_eq_nil_iff]
  intro c hcl
  cases hws : tk.ws c with
  | true => rfl
  | false => exact absurd ⟨c, hcl, hws⟩ hc

theorem singleton_suffix_iff (x : α) (t : List α) : [x] <:+ t ↔ t.getLast? = some x := by
  constructor
  · rintro ⟨r, rfl⟩
    simp
  · intro h
    obtain ⟨r, rfl⟩ := List.getLast?_eq_some_iff.1 h
    exact ⟨r, rfl⟩

/-- the last atom of a joined text whose last part is not empty is the last atom of that part -/
theorem getLast?_joinWith (sep : List α) (L : List (List α)) (hL : L ≠ [])
    (hl : L.getLast hL ≠ []) : (joinWith sep L).getLast? = (L.getLast hL).getLast? := by
  have h1 : L = L.dropLast ++ [L.getLast hL] := (List.dropLast_concat_getLast hL).symm
  have h2 : joinWith sep L = ((L.dropLast).map (· ++ sep)).flatten ++ L.getLast hL := by
    conv => lhs; rw [h1]
    rw [joinWith_append sep _ _ (by simp), joinWith_singleton]
  rw [h2, List.getLast?_append]
  cases hg : (L.getLast hL).getLast? with
  | none => exact absurd (List.getLast?_eq_none_iff.1 hg) hl
  | some c => rfl

/-- the text produced by `WrapOpts` (non-paragraph mode) for the one-token separator `[x]` -/
def wrapT (w : Nat) (x : α) (text : List α) : List α :=
  joinWith [x] (Spec.wrapLines tk w (replaceAll text [x] [tk.sp])) ++
    (if [x].isSuffixOf text then [x] else [])

/-- the pieces obtained by splitting the wrapped text at the separator have the words of the
wrapped lines (the separator is not the space or the hyphen, so that no line contains it) -/
theorem wrapT_split {w : Nat} (x : α) (hxsp : x ≠ tk.sp) (hxhy : x ≠ tk.hy) (text : List α) :
    (splitOn (wrapT tk w x text) [x]).flatMap (words tk) =
      (Spec.wrapLines tk w (replaceAll text [x] [tk.sp])).flatMap (words tk) ∧
    (Spec.wrapLines tk w (replaceAll text [x] [tk.sp]) ≠ [] →
      splitOn (wrapT tk w x text) [x] = Spec.wrapLines tk w (replaceAll text [x] [tk.sp]) ++
        (if [x].isSuffixOf text then [[]] else [])) := by
  have hfree : ∀ l ∈ Spec.wrapLines tk w (replaceAll text [x] [tk.sp]), x ∉ l := by
    intro l hl hm
    rcases wrapLines_mem_tokens tk w _ l hl x hm with h | h | h
    · exact replaceAll_single_not_mem text x [tk.sp] (by simpa using hxsp) h
    · exact hxsp h
    · exact hxhy h
  unfold wrapT
  generalize Spec.wrapLines tk w (replaceAll text [x] [tk.sp]) = L at hfree ⊢
  have key : L ≠ [] → splitOn (joinWith [x] L ++ (if [x].isSuffixOf text then [x] else [])) [x] =
      L ++ (if [x].isSuffixOf text then [[]] else []) := by
    intro hL
    have hT : joinWith [x] L ++ (if [x].isSuffixOf text then [x] else []) =
        joinWith [x] (L ++ (if [x].isSuffixOf text then [[]] else [])) := by
      split
      · rw [joinWith_append_nil _ L hL]
      · simp
    rw [hT, splitOn_joinWith_single x _ (by simp [hL])]
    intro l hl
    rcases List.mem_append.1 hl with hl | hl
    · exact hfree l hl
    · split at hl
      · rw [List.mem_singleton] at hl; subst hl; exact List.not_mem_nil
      · cases hl
  refine ⟨?_, key⟩
  by_cases hL : L = []
  · subst hL
    split
    · have : splitOn ([x] : List α) [x] = [[], []] := by
        have := splitOn_joinWith_single x [[], []] (by simp) (by simp)
        simpa [joinWith_cons_cons] using this
      simp only [joinWith_nil, List.nil_append, this]
      rfl
    · simp only [joinWith_nil, List.append_nil, splitOn_nil [x] (by simp)]
      rfl
  · rw [key hL, List.flatMap_append]
    split
    · simp only [List.flatMap_cons, List.flatMap_nil, List.append_nil, words_nil]
    · simp

/-- **Wrap, then Wrap again with the same width and separator: nothing changes** (specification
level, one-token separator other than the hyphen; the space is allowed) -/
theorem wrapT_idem {w : Nat} (hw : 2 ≤ w) (hsp : tk.ws tk.sp = true) (hhy : tk.ws tk.hy = false)
    (x : α) (hxhy : x ≠ tk.hy) (text : List α) :
    wrapT tk w x (wrapT tk w x text) = wrapT tk w x text := by
  -- the two degenerate results
  have hnil : wrapT tk w x [] = [] := by
    unfold wrapT
    have : replaceAll ([] : List α) [x] [tk.sp] = [] := rfl
    rw [this]
    simp [Spec.wrapLines, List.isSuffixOf]
  have hone : wrapT tk w x [x] = [x] := by
    unfold wrapT
    have h1 : replaceAll ([x] : List α) [x] [tk.sp] = [tk.sp] := by
      rw [replaceAll_single]; simp
    have h2 : Spec.wrapLines tk w [tk.sp] = [] :=
      wrapLines_of_no_word tk w _ (by simp) (by simp [words, wordsAux, hsp])
    have h3 : ([x] : List α).isSuffixOf [x] = true := by
      rw [isSuffixOf_dec_iff]; exact List.suffix_refl _
    rw [h1, h2, h3]
    simp
  by_cases hwd : words tk (replaceAll text [x] [tk.sp]) = []
  · -- no word: the result is the trailing separator alone
    have hT : wrapT tk w x text = if [x].isSuffixOf text then [x] else [] := by
      unfold wrapT
      by_cases h0 : replaceAll text [x] [tk.sp] = []
      · rw [h0]
        simp [Spec.wrapLines]
      · rw [wrapLines_of_no_word tk w _ h0 hwd]
        simp
    rw [hT]
    split
    · exact hone
    · exact hnil
  · -- at least one word
    have hL : Spec.wrapLines tk w (replaceAll text [x] [tk.sp]) ≠ [] :=
      wrapLines_ne_nil_of_word tk hw _ hwd
    have hLne := wrapLines_nonempty tk hw _ hwd
    have hidem := wrapLines_idem tk hw hsp hhy _ hwd
    have hlastws := wrapLines_last_not_ws tk hw hhy (replaceAll text [x] [tk.sp])
    have hTdef : wrapT tk w x text = joinWith [x] (Spec.wrapLines tk w (replaceAll text [x] [tk.sp])) ++
        (if [x].isSuffixOf text then [x] else []) := rfl
    -- (A) the pre-pass of the second run, (B) the last atom of the last line is not the separator
    have hAB : replaceAll (wrapT tk w x text) [x] [tk.sp] =
          joinWith [tk.sp] (Spec.wrapLines tk w (replaceAll text [x] [tk.sp])) ++
            (if [x].isSuffixOf text then [tk.sp] else []) ∧
        ∀ c ∈ (Spec.wrapLines tk w (replaceAll text [x] [tk.sp])).getLast hL,
          ((Spec.wrapLines tk w (replaceAll text [x] [tk.sp])).getLast hL).getLast? = some c →
            c ≠ x := by
      by_cases hxsp : x = tk.sp
      · subst hxsp
        constructor
        · rw [replaceAll_single]
          have hid : ∀ l : List α, l.map (fun a => if a = tk.sp then tk.sp else a) = l := by
            intro l
            conv => rhs; rw [← List.map_id l]
            apply List.map_congr_left
            intro a _
            split
            · rename_i h; rw [h]; rfl
            · rfl
          rw [hid, hTdef]
        · intro c _ hc h
          have := hlastws _ (List.getLast_mem hL) c hc
          rw [h, hsp] at this
          cases this
      · have hfree : ∀ l ∈ Spec.wrapLines tk w (replaceAll text [x] [tk.sp]), x ∉ l := by
          intro l hl hm
          rcases wrapLines_mem_tokens tk w _ l hl x hm with h | h | h
          · exact replaceAll_single_not_mem text x [tk.sp] (by simpa using hxsp) h
          · exact hxsp h
          · exact hxhy h
        constructor
        · have hsplit := (wrapT_split tk (w := w) x hxsp hxhy text).2 hL
          rw [show replaceAll (wrapT tk w x text) [x] [tk.sp] =
            joinWith [tk.sp] (splitOn (wrapT tk w x text) [x]) from rfl, hsplit]
          split
          · rw [joinWith_append_nil _ _ hL]
          · simp
        · intro c hc _ h
          subst h
          exact hfree _ (List.getLast_mem hL) hc
    obtain ⟨hrep, hlast⟩ := hAB
    generalize Spec.wrapLines tk w (replaceAll text [x] [tk.sp]) = L at *
    have hjne : joinWith [tk.sp] L ≠ [] := joinSp_ne_nil tk hL hLne
    have hwl : Spec.wrapLines tk w (replaceAll (wrapT tk w x text) [x] [tk.sp]) = L := by
      rw [hrep]
      split
      · rw [wrapLines_congr_words tk w _ (joinWith [tk.sp] L) (by simp) hjne
          (words_concat_ws tk _ hsp _)]
        exact hidem
      · rw [List.append_nil]; exact hidem
    -- the suffix test of the second run
    have hsuf : ([x].isSuffixOf (wrapT tk w x text)) = ([x].isSuffixOf text) := by
      rw [Bool.eq_iff_iff, isSuffixOf_dec_iff, isSuffixOf_dec_iff]
      constructor
      · intro h
        apply Classical.byContradiction
        intro hn
        have hb : ([x].isSuffixOf text) = false := by
          rw [← Bool.not_eq_true, isSuffixOf_dec_iff]; exact hn
        rw [hTdef, hb] at h
        simp only [Bool.false_eq_true, if_false, List.append_nil] at h
        rw [singleton_suffix_iff, getLast?_joinWith [x] L hL (hLne _ (List.getLast_mem hL))] at h
        exact hlast x (List.mem_of_getLast? h) h rfl
      · intro h
        rw [hTdef, (isSuffixOf_dec_iff _ _).2 h]
        exact ⟨_, rfl⟩
    have hstep : ∀ t, wrapT tk w x t = joinWith [x] (Spec.wrapLines tk w (replaceAll t [x] [tk.sp])) ++
        (if [x].isSuffixOf t then [x] else []) := fun _ => rfl
    rw [hstep (wrapT tk w x text), hwl, hsuf, hTdef]

end spec

/-! ## 3. WrapOpts on code points -/

/-- the clamped width as a natural number -/
abbrev wid (w : Int) : Nat := (max w 2).toNat

theorem two_le_wid (w : Int) : 2 ≤ wid w := by unfold wid; omega

/-- the input of the wrap loop on clusters: line separators replaced by spaces -/
def wrapIn (ed : Editor (List Int)) (o : Options (List Int)) : List (List Int) :=
  replaceAll' cxB ed.text (o.withDefaults cxB).lineSep

/-- the wrapped lines on clusters -/
def wrapLinesB (ed : Editor (List Int)) (w : Int) (o : Options (List Int)) :
    List (List (List Int)) :=
  Spec.wrapLines tkB (wid w) (wrapIn ed o)

/-- the new text on clusters: the wrapped lines joined by the separator, plus one more separator
exactly when the input ended with one -/
def wrapTextB (ed : Editor (List Int)) (w : Int) (o : Options (List Int)) : List (List Int) :=
  joinWith (o.withDefaults cxB).lineSep (wrapLinesB ed w o) ++
    (if @List.isSuffixOf (List Int) instBEqOfDecidableEq (o.withDefaults cxB).lineSep ed.text
      then (o.withDefaults cxB).lineSep else [])

theorem hy_not_ws : tkB.ws tkB.hy = false := by decide

section vocab
variable {V : List (List Int)}

/-- closed form of `WrapOpts` on code points (any good separator, any editor) -/
theorem wrapOpts_closed (hV : VocabStable V = true) (hsp : [0x20] ∈ V)
    (hspTail : ∀ t ∈ V, (0x20 : Int) ∉ t.tail)
    (ed : Editor (List Int)) (ht : ∀ t ∈ ed.text, t ∈ V) (w : Int) (o : Options (List Int))
    (hpp : o.preservePara = false) (hS : GoodSep V (o.withDefaults cxB).lineSep) :
    Editor.wrapOpts cxA ed.flat w o.flat = .ok (ed.withText (wrapTextB ed w o)).flat := by
  rw [wrapOpts_bridge_good hV hsp hspTail ed ht w o hpp hS, wrapOpts_B_closed ed w o hpp]
  rfl

/-- the input of the wrap loop, seen from the code points: segmenting the code-point text after
the separator pre-pass gives the cluster-level input -/
theorem wrapIn_code_points (hV : VocabStable V = true) (hsp : [0x20] ∈ V)
    (ed : Editor (List Int)) (ht : ∀ t ∈ ed.text, t ∈ V) (o : Options (List Int))
    (hS : GoodSep V (o.withDefaults cxB).lineSep) :
    clusters cxA (replaceAll' cxA ed.flat.text (o.flat.withDefaults cxA).lineSep) = wrapIn ed o := by
  rw [lineSep_flat_gen o hS.tok_ne, flat_text, hS.replaceAll' ed.text ht]
  exact clusters_flat_over hV (replaceAll'_over hsp ed.text ht _)

theorem wrapLinesB_over (hsp : [0x20] ∈ V) (hhy : [0x2D] ∈ V) (ed : Editor (List Int))
    (ht : ∀ t ∈ ed.text, t ∈ V) (w : Int) (o : Options (List Int)) :
    ∀ line ∈ wrapLinesB ed w o, ∀ c ∈ line, c ∈ V :=
  wrapLines_spec_over hsp hhy _ _ (replaceAll'_over hsp ed.text ht _)

theorem wrapTextB_over (hsp : [0x20] ∈ V) (hhy : [0x2D] ∈ V) (ed : Editor (List Int))
    (ht : ∀ t ∈ ed.text, t ∈ V) (w : Int) (o : Options (List Int))
    (hSV : ∀ t ∈ (o.withDefaults cxB).lineSep, t ∈ V) : ∀ t ∈ wrapTextB ed w o, t ∈ V := by
  intro t h
  unfold wrapTextB at h
  rcases List.mem_append.1 h with h | h
  · rcases joinWith_mem _ _ t h with h | ⟨l, hl, h⟩
    · exact hSV t h
    · exact wrapLinesB_over hsp hhy ed ht w o l hl t h
  · split at h
    · exact hSV t h
    · cases h

/-- **3 (closed form, any good separator).** `WrapOpts` on code points, non-paragraph mode, any
editor: it succeeds, keeps the receiver's options, and the new text is the flattening of the
wrapped cluster lines `L` joined by the separator (plus the trailing separator when the input had
one), where — with `l₀` the clusters of the input after its line separators were turned into spaces —
splitting the lines of `L` at whitespace gives the pieces of the words of `l₀`, word after word;
un-hyphenating the pieces of a word gives the word back; every non-final piece is a full line-width
ending in the continuation hyphen; and `dehyphen` recovers the words from `L` alone when no word
can be mistaken for a continuation piece (`HyOK`) -/
theorem wrapOpts_no_loss (hV : VocabStable V = true) (hsp : [0x20] ∈ V)
    (hspTail : ∀ t ∈ V, (0x20 : Int) ∉ t.tail)
    (ed : Editor (List Int)) (ht : ∀ t ∈ ed.text, t ∈ V) (w : Int) (o : Options (List Int))
    (hpp : o.preservePara = false) (hS : GoodSep V (o.withDefaults cxB).lineSep) :
    ∃ e, Editor.wrapOpts cxA ed.flat w o.flat = .ok e ∧ e.opts = ed.flat.opts ∧
      e.text = (wrapTextB ed w o).flatten ∧
      clusters cxA (replaceAll' cxA ed.flat.text (o.flat.withDefaults cxA).lineSep) = wrapIn ed o ∧
      (∃ pss : List (List (List (List Int))),
        (wrapLinesB ed w o).flatMap (words tkB) = pss.flatten ∧
        pss.map unhyphen = words tkB (wrapIn ed o) ∧
        (∀ ps ∈ pss, ps ≠ [] ∧
          ∀ p ∈ ps.dropLast, p.length = wid w ∧ p.getLast? = some tkB.hy)) ∧
      (HyOK tkB (wid w) (wrapIn ed o) →
        dehyphen tkB (wid w) (wrapLinesB ed w o) = words tkB (wrapIn ed o)) := by
  refine ⟨_, wrapOpts_closed hV hsp hspTail ed ht w o hpp hS, ?_, ?_,
    wrapIn_code_points hV hsp ed ht o hS, ?_, ?_⟩
  · rw [flat_withText, Editor.withText_opts]
  · rw [flat_withText, Editor.withText_text]
  · obtain ⟨pss, h1, h2, h3, -⟩ :=
      wrapLines_words tkB (two_le_wid w) cxB_sp_space hy_not_ws (wrapIn ed o)
    exact ⟨pss, h1, h2, h3⟩
  · exact dehyphen_wrapLines tkB (two_le_wid w) cxB_sp_space hy_not_ws (wrapIn ed o)

/-- the cluster-level text of `WrapOpts` for a one-token separator is `wrapT` -/
theorem wrapTextB_tok (ed : Editor (List Int)) (w : Int) (o : Options (List Int)) (s : List Int)
    (hs : (o.withDefaults cxB).lineSep = [s]) :
    wrapTextB ed w o = wrapT tkB (wid w) s ed.text := by
  unfold wrapTextB wrapLinesB wrapIn wrapT replaceAll'
  rw [hs]
  rfl

/-- the output side for a one-token separator: splitting the code-point result at the separator
and segmenting every piece gives the split of the cluster-level text -/
theorem wrapOpts_out_lines (hV : VocabStable V = true) (hsp : [0x20] ∈ V) (hhy : [0x2D] ∈ V)
    (ed : Editor (List Int)) (ht : ∀ t ∈ ed.text, t ∈ V) (w : Int) (o : Options (List Int))
    (hS : GoodSep V (o.withDefaults cxB).lineSep)
    (hSV : ∀ t ∈ (o.withDefaults cxB).lineSep, t ∈ V) :
    (splitOn (wrapTextB ed w o).flatten (o.flat.withDefaults cxA).lineSep).map (clusters cxA) =
      splitOn (wrapTextB ed w o) (o.withDefaults cxB).lineSep := by
  have hT := wrapTextB_over hsp hhy ed ht w o hSV
  rw [lineSep_flat_gen o hS.tok_ne, hS.split _ hT, List.map_map,
    List.map_congr_left (f := clusters cxA ∘ List.flatten) (g := id) (fun l hl =>
      clusters_flat_over hV (splitOn_over hT _ l hl)),
    List.map_id]

/-- **3 (output alone, one-token separator).** For a separator that is a single cluster other than
the space and the hyphen (`"\n"`, CR LF, …): split the result at the separator, segment every
piece, split at whitespace and undo the continuation hyphens (`dehyphen`) — this gives exactly the
words (maximal runs of non-whitespace clusters) of the input with its line separators treated as
whitespace, provided no word can be mistaken for a continuation piece (`HyOK`, necessary:
`NoLoss.dehyphen_impossible`) -/
theorem wrapOpts_dehyphen_tok (hV : VocabStable V = true) (hsp : [0x20] ∈ V) (hhy : [0x2D] ∈ V)
    (hspTail : ∀ t ∈ V, (0x20 : Int) ∉ t.tail)
    (ed : Editor (List Int)) (ht : ∀ t ∈ ed.text, t ∈ V) (w : Int) (o : Options (List Int))
    (hpp : o.preservePara = false) (s : List Int) (hs : (o.withDefaults cxB).lineSep = [s])
    (hsV : s ∈ V) (hsne : s ≠ [0x20]) (hshy : s ≠ [0x2D]) (hS : GoodSep V [s])
    (hok : HyOK tkB (wid w) (wrapIn ed o)) :
    ∃ e, Editor.wrapOpts cxA ed.flat w o.flat = .ok e ∧ e.opts = ed.flat.opts ∧
      dehyphen tkB (wid w)
          ((splitOn e.text (o.flat.withDefaults cxA).lineSep).map (clusters cxA)) =
        words tkB (clusters cxA (replaceAll' cxA ed.flat.text (o.flat.withDefaults cxA).lineSep)) ∧
      (dehyphen tkB (wid w)
          ((splitOn e.text (o.flat.withDefaults cxA).lineSep).map (clusters cxA))).flatten =
        nonws (clusters cxA (replaceAll' cxA ed.flat.text (o.flat.withDefaults cxA).lineSep)) := by
  have hS' : GoodSep V (o.withDefaults cxB).lineSep := hs ▸ hS
  have hSV : ∀ t ∈ (o.withDefaults cxB).lineSep, t ∈ V := by
    rw [hs]; intro t h; rw [List.mem_singleton] at h; rw [h]; exact hsV
  have key : dehyphen tkB (wid w)
      ((splitOn (wrapTextB ed w o).flatten (o.flat.withDefaults cxA).lineSep).map (clusters cxA)) =
      words tkB (wrapIn ed o) := by
    rw [wrapOpts_out_lines hV hsp hhy ed ht w o hS' hSV, hs, wrapTextB_tok ed w o s hs]
    unfold dehyphen
    rw [(wrapT_split tkB s hsne hshy ed.text).1]
    have h := dehyphen_wrapLines tkB (two_le_wid w) cxB_sp_space hy_not_ws (wrapIn ed o) hok
    unfold dehyphen wrapIn replaceAll' at h
    rw [hs] at h
    unfold wrapIn replaceAll'
    rw [hs]
    exact h
  refine ⟨_, wrapOpts_closed hV hsp hspTail ed ht w o hpp hS', ?_, ?_, ?_⟩
  · rw [flat_withText, Editor.withText_opts]
  · rw [flat_withText, Editor.withText_text, wrapIn_code_points hV hsp ed ht o hS']
    exact key
  · rw [flat_withText, Editor.withText_text, wrapIn_code_points hV hsp ed ht o hS', key]
    exact words_flatten tkB _

end vocab

/-- turning a whitespace separator token into spaces does not change the words -/
theorem words_replaceAll_ws {α : Type} [DecidableEq α] (tk : Toks α) (hsp : tk.ws tk.sp = true)
    (x : α) (hx : tk.ws x = true) (text : List α) :
    words tk (replaceAll text [x] [tk.sp]) = words tk text := by
  unfold replaceAll
  rw [words_joinWith_ws tk tk.sp hsp]
  conv => rhs; rw [← joinWith_splitOn text [x] (by simp), words_joinWith_ws tk x hx]

/-- the words of the whole wrapped text, for a whitespace separator token: those of its lines -/
theorem words_wrapT {α : Type} [DecidableEq α] (tk : Toks α) (w : Nat) (x : α)
    (hx : tk.ws x = true) (text : List α) :
    words tk (wrapT tk w x text) =
      (Spec.wrapLines tk w (replaceAll text [x] [tk.sp])).flatMap (words tk) := by
  unfold wrapT
  split
  · rw [words_concat_ws tk x hx, words_joinWith_ws tk x hx]
  · rw [List.append_nil, words_joinWith_ws tk x hx]

/-- cluster level: the whole wrapped text, split at whitespace and de-hyphenated, gives the words
of the input (one-token whitespace separator) -/
theorem wrapTextB_dehyphen (ed : Editor (List Int)) (w : Int) (o : Options (List Int))
    (s : List Int) (hs : (o.withDefaults cxB).lineSep = [s]) (hsws : cxB.isSpace s = true)
    (hok : HyOK tkB (wid w) ed.text) :
    dehyphen tkB (wid w) [wrapTextB ed w o] = words tkB ed.text := by
  have hw0 : words tkB (replaceAll ed.text [s] [tkB.sp]) = words tkB ed.text :=
    words_replaceAll_ws tkB cxB_sp_space s hsws ed.text
  have hok' : HyOK tkB (wid w) (replaceAll ed.text [s] [tkB.sp]) := by
    unfold HyOK at hok ⊢
    rw [hw0]; exact hok
  rw [wrapTextB_tok ed w o s hs]
  unfold dehyphen
  rw [List.flatMap_cons, List.flatMap_nil, List.append_nil, words_wrapT tkB _ s hsws]
  have h := dehyphen_wrapLines tkB (two_le_wid w) cxB_sp_space hy_not_ws _ hok'
  unfold dehyphen at h
  rw [h, hw0]

section vocab
variable {V : List (List Int)}

/-- **3 (whole text, whitespace separator).** For a separator that is a single whitespace cluster
(`"\n"`, CR LF, …): segment the whole result, split it at whitespace and undo the continuation
hyphens — this gives exactly the words of the input; in particular the non-whitespace clusters of
the output, continuation hyphens removed, are those of the input, in order -/
theorem wrapOpts_dehyphen_text (hV : VocabStable V = true) (hsp : [0x20] ∈ V) (hhy : [0x2D] ∈ V)
    (hspTail : ∀ t ∈ V, (0x20 : Int) ∉ t.tail)
    (ed : Editor (List Int)) (ht : ∀ t ∈ ed.text, t ∈ V) (w : Int) (o : Options (List Int))
    (hpp : o.preservePara = false) (s : List Int) (hs : (o.withDefaults cxB).lineSep = [s])
    (hsV : s ∈ V) (hsws : cxB.isSpace s = true) (hS : GoodSep V [s])
    (hok : HyOK tkB (wid w) (clusters cxA ed.flat.text)) :
    ∃ e, Editor.wrapOpts cxA ed.flat w o.flat = .ok e ∧ e.opts = ed.flat.opts ∧
      dehyphen tkB (wid w) [clusters cxA e.text] = words tkB (clusters cxA ed.flat.text) ∧
      (dehyphen tkB (wid w) [clusters cxA e.text]).flatten = nonws (clusters cxA ed.flat.text) := by
  have hS' : GoodSep V (o.withDefaults cxB).lineSep := hs ▸ hS
  have hSV : ∀ t ∈ (o.withDefaults cxB).lineSep, t ∈ V := by
    rw [hs]; intro t h; rw [List.mem_singleton] at h; rw [h]; exact hsV
  have hin : clusters cxA ed.flat.text = ed.text := by
    rw [flat_text]; exact clusters_flat_over hV ht
  rw [hin] at hok ⊢
  have key : dehyphen tkB (wid w) [clusters cxA (wrapTextB ed w o).flatten] =
      words tkB ed.text := by
    rw [clusters_flat_over hV (wrapTextB_over hsp hhy ed ht w o hSV)]
    exact wrapTextB_dehyphen ed w o s hs hsws hok
  refine ⟨_, wrapOpts_closed hV hsp hspTail ed ht w o hpp hS', ?_, ?_, ?_⟩
  · rw [flat_withText, Editor.withText_opts]
  · rw [flat_withText, Editor.withText_text]; exact key
  · rw [flat_withText, Editor.withText_text, key]
    exact words_flatten tkB _

/-! ## 6. WrapOpts is idempotent on code points -/

/-- **6.** Wrapping already wrapped text to the same width with the same options changes nothing:
on code points over a stable vocabulary containing the space and the hyphen, non-paragraph mode,
any editor (sub-editors too), any trailing-separator policy, for a line separator that is ONE
cluster of the vocabulary other than the hyphen (`"\n"`, CR LF, even `" "`).

Side conditions, beyond those of `C06_wrapOpts_code_points`:
* `hs` (the separator is one cluster): proof convenience — the closed form `wrapT` and the
  "no wrapped line contains the separator" argument are for one token; a multi-cluster separator
  such as `"a-"` can be spelled by a hyphenated break, like the hyphen itself;
* `hshy` (the separator is not the hyphen) is NECESSARY: `wrapOpts_idem_needs_not_hyphen`;
* `hhy` (`"-"` is a vocabulary cluster) and `hsV` (so is the separator) are what the bridge needs to
  be applied to the OUTPUT, whose clusters are those of the input, spaces, hyphens and separators.
  `hhy` does not restrict the texts covered: U+002D has the same grapheme-break class as U+0020, so
  the hyphen can be added to any stable vocabulary that has the space (`vocabStable_cons_hyphen`).
The hyphen is not whitespace and the space is (`hy_not_ws`, `cxB_sp_space`): facts of the model,
not hypotheses. -/
theorem wrapOpts_idempotent_code_points (hV : VocabStable V = true) (hsp : [0x20] ∈ V)
    (hhy : [0x2D] ∈ V) (hspTail : ∀ t ∈ V, (0x20 : Int) ∉ t.tail)
    (ed : Editor (List Int)) (ht : ∀ t ∈ ed.text, t ∈ V) (w : Int) (o : Options (List Int))
    (hpp : o.preservePara = false) (s : List Int) (hs : (o.withDefaults cxB).lineSep = [s])
    (hsV : s ∈ V) (hshy : s ≠ [0x2D]) (hS : GoodSep V [s]) :
    (Editor.wrapOpts cxA ed.flat w o.flat >>= fun e => Editor.wrapOpts cxA e w o.flat) =
      Editor.wrapOpts cxA ed.flat w o.flat := by
  have hS' : GoodSep V (o.withDefaults cxB).lineSep := hs ▸ hS
  have hSV : ∀ t ∈ (o.withDefaults cxB).lineSep, t ∈ V := by
    rw [hs]; intro t h; rw [List.mem_singleton] at h; rw [h]; exact hsV
  have h1 := wrapOpts_closed hV hsp hspTail ed ht w o hpp hS'
  have hT := wrapTextB_over hsp hhy ed ht w o hSV
  have h2 := wrapOpts_closed hV hsp hspTail (ed.withText (wrapTextB ed w o))
    (by rw [Editor.withText_text]; exact hT) w o hpp hS'
  rw [h1, ok_bind, h2]
  congr 2
  rw [Editor.withText_withText, wrapTextB_tok _ w o s hs, Editor.withText_text,
    wrapTextB_tok ed w o s hs]
  congr 1
  exact wrapT_idem tkB (two_le_wid w) cxB_sp_space hy_not_ws s hshy ed.text

end vocab

/-! ## 5. CollapseSpaceOpts is idempotent -/

/-- the collapsed text on clusters -/
def collapseB (ed : Editor (List Int)) (o : Options (List Int)) : List (List Int) :=
  Spec.collapse tkB (replaceAll' cxB ed.text (o.withDefaults cxB).lineSep)

/-- line separators for which CollapseSpace is idempotent: one cluster (`"\n"`, CR LF, `" "`,
`"x"` …), or several clusters one of which is whitespace other than the space (`"\n\n"` …).  A
separator such as `"a b"` is not: `collapseSpaceOpts_idem_needs_sep`. -/
def SepCollapseOK (S : List (List Int)) : Prop :=
  (∃ s, S = [s]) ∨ ∃ x ∈ S, cxB.isSpace x = true ∧ x ≠ [0x20]

theorem indexOf_none_of_not_mem {α : Type} [DecidableEq α] (S t : List α) (x : α) (hx : x ∈ S)
    (hn : x ∉ t) : indexOf S t = none := by
  cases h : indexOf S t with
  | none => rfl
  | some i =>
    exfalso
    obtain ⟨h1, -⟩ := indexOf_some_spec S t i h
    apply hn
    rw [h1]
    simp [hx]

/-- the separator pre-pass leaves an already collapsed text alone -/
theorem replaceAll'_collapse_fixed (S : List (List Int)) (hok : SepCollapseOK S)
    (text : List (List Int)) :
    replaceAll' cxB (Spec.collapse tkB (replaceAll' cxB text S)) S =
      Spec.collapse tkB (replaceAll' cxB text S) := by
  rcases hok with ⟨s, rfl⟩ | ⟨x, hxS, hxws, hxne⟩
  · have e : ∀ t : List (List Int), replaceAll' cxB t [s] = replaceAll t [s] [cxB.sp] := fun _ => rfl
    rw [e, e, replaceAll_single]
    by_cases hs : s = cxB.sp
    · subst hs
      conv => rhs; rw [← List.map_id (Spec.collapse tkB _)]
      apply List.map_congr_left
      intro a _
      by_cases h : a = cxB.sp
      · rw [if_pos h, h]; rfl
      · rw [if_neg h]; rfl
    · conv => rhs; rw [← List.map_id (Spec.collapse tkB _)]
      apply List.map_congr_left
      intro a ha
      rw [if_neg, id]
      intro h
      subst h
      rcases collapse_mem tkB _ a ha with h | h
      · exact replaceAll_single_not_mem text a [cxB.sp] (by simpa using hs) h
      · exact hs h
  · have hSne : S ≠ [] := by intro h; rw [h] at hxS; cases hxS
    have hxn : x ∉ Spec.collapse tkB (replaceAll' cxB text S) := by
      intro h
      exact hxne (collapse_only_sp' tkB _ x h hxws)
    have e : ∀ t : List (List Int), replaceAll' cxB t S = replaceAll t S [cxB.sp] := by
      intro t
      unfold replaceAll'
      rw [if_neg]
      simpa [List.isEmpty_iff] using hSne
    rw [e (Spec.collapse tkB _)]
    unfold replaceAll
    rw [splitOn_of_indexOf_none S hSne _ (indexOf_none_of_not_mem S _ x hxS hxn), joinWith_singleton]

/-- `CollapseSpaceOpts` on cluster tokens in closed form -/
theorem collapseSpaceOpts_B_closed (ed : Editor (List Int)) (o : Options (List Int)) :
    Editor.collapseSpaceOpts cxB ed o = .ok (ed.withText (collapseB ed o)) := by
  unfold Editor.collapseSpaceOpts
  simp only [collapseSpace_triv_all cxB cxB_triv cxB_sp_space, bind, Except.bind, pure, Except.pure]
  rfl

section vocab
variable {V : List (List Int)}

theorem collapseB_over (hsp : [0x20] ∈ V) (ed : Editor (List Int)) (ht : ∀ t ∈ ed.text, t ∈ V)
    (o : Options (List Int)) : ∀ t ∈ collapseB ed o, t ∈ V := by
  intro t h
  rcases collapse_mem tkB _ t h with h | h
  · exact replaceAll'_over hsp ed.text ht _ t h
  · rw [h]; exact hsp

/-- closed form of `CollapseSpaceOpts` on code points -/
theorem collapseSpaceOpts_closed (hV : VocabStable V = true) (hsp : [0x20] ∈ V)
    (hspTail : ∀ t ∈ V, (0x20 : Int) ∉ t.tail)
    (ed : Editor (List Int)) (ht : ∀ t ∈ ed.text, t ∈ V) (o : Options (List Int))
    (hS : GoodSep V (o.withDefaults cxB).lineSep) :
    Editor.collapseSpaceOpts cxA ed.flat o.flat = .ok (ed.withText (collapseB ed o)).flat := by
  rw [collapseSpaceOpts_bridge_good hV hsp hspTail ed ht o hS, collapseSpaceOpts_B_closed]
  rfl

/-- **5.** `CollapseSpaceOpts` applied twice = once, on code points over a stable vocabulary, any
editor, any good separator satisfying `SepCollapseOK` (necessary in this generality:
`collapseSpaceOpts_idem_needs_sep`).  For arbitrary code-point text the statement is FALSE:
`collapseSpaceOpts_not_idem_all`. -/
theorem collapseSpaceOpts_idem_code_points (hV : VocabStable V = true) (hsp : [0x20] ∈ V)
    (hspTail : ∀ t ∈ V, (0x20 : Int) ∉ t.tail)
    (ed : Editor (List Int)) (ht : ∀ t ∈ ed.text, t ∈ V) (o : Options (List Int))
    (hS : GoodSep V (o.withDefaults cxB).lineSep)
    (hok : SepCollapseOK (o.withDefaults cxB).lineSep) :
    (Editor.collapseSpaceOpts cxA ed.flat o.flat >>= fun e => Editor.collapseSpaceOpts cxA e o.flat) =
      Editor.collapseSpaceOpts cxA ed.flat o.flat := by
  have h1 := collapseSpaceOpts_closed hV hsp hspTail ed ht o hS
  have h2 := collapseSpaceOpts_closed hV hsp hspTail (ed.withText (collapseB ed o))
    (by rw [Editor.withText_text]; exact collapseB_over hsp ed ht o) o hS
  rw [h1, ok_bind, h2]
  congr 2
  rw [Editor.withText_withText]
  congr 1
  unfold collapseB
  rw [Editor.withText_text, replaceAll'_collapse_fixed _ hok, collapse_idem']

end vocab

/-- 5 is FALSE for arbitrary code points: a tab followed by a combining acute accent (two clusters,
the tab being a Control) becomes space + accent, which is ONE cluster headed by a space, and the
second run replaces it by a lone space -/
theorem collapseSpaceOpts_not_idem_all :
    (Editor.collapseSpaceOpts cxA (.root [0x09, 0x301] {}) {}).map Editor.text =
      .ok [0x20, 0x301] ∧
    (Editor.collapseSpaceOpts cxA (.root [0x09, 0x301] {}) {} >>=
        fun e => Editor.collapseSpaceOpts cxA e {}).map Editor.text = .ok [0x20] :=
  ⟨of_okEq (by decide +kernel), of_okEq (by decide +kernel)⟩

/-- `SepCollapseOK` cannot be dropped: with the line separator `"a b"` (good for the all-ASCII
vocabulary below) the text `"a  b"` collapses to `"a b"`, which IS the separator, and the second
run turns it into a lone space -/
theorem collapseSpaceOpts_idem_needs_sep :
    VocabStable [[0x61], [0x20], [0x62]] = true ∧
    (Editor.collapseSpaceOpts cxA (.root [0x61, 0x20, 0x20, 0x62] {})
        { lineSep := [0x61, 0x20, 0x62] }).map Editor.text = .ok [0x61, 0x20, 0x62] ∧
    (Editor.collapseSpaceOpts cxA (.root [0x61, 0x20, 0x20, 0x62] {})
        { lineSep := [0x61, 0x20, 0x62] } >>=
      fun e => Editor.collapseSpaceOpts cxA e { lineSep := [0x61, 0x20, 0x62] }).map Editor.text =
        .ok [0x20] :=
  ⟨by decide +kernel, of_okEq (by decide +kernel), of_okEq (by decide +kernel)⟩

/-- in 6 the separator must not be the hyphen: wrapping `"abcd"` to width 3 with the line separator
`"-"` gives `"ab-" ++ "-" ++ "cd"`, and wrapping that again reads both hyphens as separators -/
theorem wrapOpts_idem_needs_not_hyphen :
    VocabStable [[0x61], [0x62], [0x63], [0x64], [0x20], [0x2D]] = true ∧
    (Editor.wrapOpts cxA (.root [0x61, 0x62, 0x63, 0x64] {}) 3 { lineSep := [0x2D] }).map
        Editor.text = .ok [0x61, 0x62, 0x2D, 0x2D, 0x63, 0x64] ∧
    (Editor.wrapOpts cxA (.root [0x61, 0x62, 0x63, 0x64] {}) 3 { lineSep := [0x2D] } >>=
      fun e => Editor.wrapOpts cxA e 3 { lineSep := [0x2D] }).map Editor.text =
        .ok [0x61, 0x62, 0x2D, 0x63, 0x64] :=
  ⟨by decide +kernel, of_okEq (by decide +kernel), of_okEq (by decide +kernel)⟩

/-! ## 4. paragraph mode (affix-free paragraph separators) -/

section para
open ParaStructure BridgeEditorParas
variable {V : List (List Int)}

/-- the paragraphs on the two levels correspond, and the cluster-level ones are over `V` -/
theorem paragraphsOf_bridge (hV : VocabStable V = true) (ed : Editor (List Int))
    (ht : ∀ t ∈ ed.text, t ∈ V) (o : Options (List Int))
    (hG : GoodPara V (o.withDefaults cxB).lineSep (o.withDefaults cxB).paraSep) :
    paragraphsOf ed.flat.text (o.flat.withDefaults cxA) =
        (paragraphsOf ed.text (o.withDefaults cxB)).map List.flatten ∧
      ∀ p ∈ paragraphsOf ed.text (o.withDefaults cxB), ∀ t ∈ p, t ∈ V := by
  constructor
  · rw [← paraCallsOf_paragraphs, ← paraCallsOf_paragraphs, flat_text,
      paraCallsOf_bridge hV ed.text ht o hG, List.map_map, List.map_map]
    rfl
  · intro p hp
    rw [← paraCallsOf_paragraphs] at hp
    obtain ⟨c, hc, rfl⟩ := List.mem_map.1 hp
    exact (paraCallsOf_over ed.text ht o hG.lineV hG.paraV c hc).1

/-- the single paragraph as an editor of its own, on the two levels -/
theorem single_flat (o : Options (List Int)) : (single o).flat = single o.flat := rfl

theorem single_lineSep_B (o : Options (List Int)) :
    ((single o).withDefaults cxB).lineSep = (o.withDefaults cxB).lineSep :=
  (single_fields cxB o).1

theorem single_pp (o : Options (List Int)) : (single o).preservePara = false := rfl

/-- **4 (skeleton).** a paragraph-wise result on code points (`ParaStructure.ParagraphWise`), read
on clusters: the input is the paragraphs `ps` (token lists over `V`) joined by the paragraph
separator, the result is the per-paragraph results `F p.flatten` joined by the SAME paragraph
separators — as many, in the same places -/
theorem paragraphWise_code_points (hV : VocabStable V = true) (ed : Editor (List Int))
    (ht : ∀ t ∈ ed.text, t ∈ V) (o : Options (List Int))
    (hG : GoodPara V (o.withDefaults cxB).lineSep (o.withDefaults cxB).paraSep)
    (F : List Int → List Int) (res : R (Editor Int))
    (h : ParagraphWise ed.flat (o.flat.withDefaults cxA) F res) :
    ∃ e, res = .ok e ∧ e.opts = ed.flat.opts ∧
      ed.text = joinWith (o.withDefaults cxB).paraSep
        (paragraphsOf ed.text (o.withDefaults cxB)) ∧
      ed.flat.text = joinWith (o.flat.withDefaults cxA).paraSep
        ((paragraphsOf ed.text (o.withDefaults cxB)).map List.flatten) ∧
      e.text = joinWith (o.flat.withDefaults cxA).paraSep
        ((paragraphsOf ed.text (o.withDefaults cxB)).map (fun p => F p.flatten)) ∧
      (∀ p ∈ paragraphsOf ed.text (o.withDefaults cxB), ∀ t ∈ p, t ∈ V) := by
  obtain ⟨r, rs, h1, -, h3, h4, h5, -, -, h8, -⟩ := h
  obtain ⟨hb, hover⟩ := paragraphsOf_bridge hV ed ht o hG
  refine ⟨r, h1, h4, (joinWith_paragraphsOf _ _).symm, ?_, ?_, hover⟩
  · rw [← hb]; exact h8
  · rw [h3, h5, hb, List.map_map]; rfl

/-- joining flattened parts by a flattened separator -/
theorem joinWith_map_flatten (P : List (List Int)) (rs : List (List (List Int))) :
    joinWith P.flatten (rs.map List.flatten) = (joinWith P rs).flatten :=
  joinWith_flatten P rs

/-- whole-text corollary of a paragraph-wise result whose pieces keep the non-whitespace clusters -/
theorem para_nonws_text (hV : VocabStable V = true) (ed : Editor (List Int))
    (ht : ∀ t ∈ ed.text, t ∈ V) (o : Options (List Int))
    (hG : GoodPara V (o.withDefaults cxB).lineSep (o.withDefaults cxB).paraSep)
    (G : List (List Int) → List (List Int)) (e : Editor Int)
    (he : e.text = joinWith (o.flat.withDefaults cxA).paraSep
        ((paragraphsOf ed.text (o.withDefaults cxB)).map (fun p => (G p).flatten)))
    (hover : ∀ p ∈ paragraphsOf ed.text (o.withDefaults cxB), ∀ t ∈ G p, t ∈ V)
    (hnw : ∀ p ∈ paragraphsOf ed.text (o.withDefaults cxB), nonws (G p) = nonws p) :
    nonws (clusters cxA e.text) = nonws (clusters cxA ed.flat.text) := by
  have hj : ∀ t ∈ joinWith (o.withDefaults cxB).paraSep
      ((paragraphsOf ed.text (o.withDefaults cxB)).map G), t ∈ V := by
    intro t h
    rcases joinWith_mem _ _ t h with h | ⟨l, hl, h⟩
    · exact hG.paraV t h
    · obtain ⟨p, hp, rfl⟩ := List.mem_map.1 hl
      exact hover p hp t h
  have e1 : (paragraphsOf ed.text (o.withDefaults cxB)).map (fun p => (G p).flatten) =
      ((paragraphsOf ed.text (o.withDefaults cxB)).map G).map List.flatten := by
    rw [List.map_map]; rfl
  rw [he, paraSep_flat_gen o hG.para.tok_ne, e1, joinWith_map_flatten, clusters_flat_over hV hj,
    flat_text, clusters_flat_over hV ht]
  conv => rhs; rw [← joinWith_paragraphsOf ed.text (o.withDefaults cxB)]
  apply filter_joinWith_congr
  rw [List.map_map]
  exact List.map_congr_left (fun p hp => hnw p hp)

/-- **4 (Align / Justify, generic).** a paragraph-wise operation whose per-paragraph function is
the non-paragraph operation `opS` on the paragraph as an editor of its own (`hsingle`), the latter
replacing the lines one for one by lines over `V` with the same non-whitespace clusters (`hnl`) -/
theorem para_of_replaced (hV : VocabStable V = true) (ed : Editor (List Int))
    (ht : ∀ t ∈ ed.text, t ∈ V) (o : Options (List Int))
    (hG : GoodPara V (o.withDefaults cxB).lineSep (o.withDefaults cxB).paraSep)
    (F : List Int → List Int) (res : R (Editor Int))
    (hPW : ParagraphWise ed.flat (o.flat.withDefaults cxA) F res)
    (opS : Editor Int → R (Editor Int))
    (hsingle : ∀ q : List Int,
      opS (Editor.root q (single o.flat)) = .ok (Editor.root (F q) (single o.flat)))
    (L' : List (List Int) → List (List (List Int)))
    (hnl : ∀ p : List (List Int), (∀ t ∈ p, t ∈ V) →
      ∃ e', opS (Editor.root p (single o)).flat = .ok e' ∧
        Replaced (Editor.root p (single o)) (single o) (L' p) e' ∧
        (∀ l ∈ L' p, ∀ t ∈ l, t ∈ V) ∧
        (L' p).map nonws = (inLines cxB (Editor.root p (single o)) (single o)).map nonws) :
    ∃ (e : Editor Int) (G : List (List Int) → List (List Int)),
      res = .ok e ∧ e.opts = ed.flat.opts ∧
      ed.flat.text = joinWith (o.flat.withDefaults cxA).paraSep
        ((paragraphsOf ed.text (o.withDefaults cxB)).map List.flatten) ∧
      e.text = joinWith (o.flat.withDefaults cxA).paraSep
        ((paragraphsOf ed.text (o.withDefaults cxB)).map (fun p => (G p).flatten)) ∧
      (∀ p ∈ paragraphsOf ed.text (o.withDefaults cxB),
        (∀ t ∈ p, t ∈ V) ∧ (∀ t ∈ G p, t ∈ V) ∧ nonws (G p) = nonws p ∧
        opS (Editor.root p (single o)).flat = .ok (Editor.root (G p) (single o)).flat) ∧
      nonws (clusters cxA e.text) = nonws (clusters cxA ed.flat.text) := by
  obtain ⟨e, h1, h2, -, h4, h5, h6⟩ := paragraphWise_code_points hV ed ht o hG _ _ hPW
  -- the per-paragraph result, on clusters
  let G : List (List Int) → List (List Int) := fun p =>
    joinWith (o.withDefaults cxB).lineSep
      (L' p ++ trailing cxB (Editor.root p (single o)) (single o))
  have hGp : ∀ p ∈ paragraphsOf ed.text (o.withDefaults cxB),
      (∀ t ∈ G p, t ∈ V) ∧ nonws (G p) = nonws p ∧
      opS (Editor.root p (single o)).flat = .ok (Editor.root (G p) (single o)).flat ∧
      F p.flatten = (G p).flatten := by
    intro p hp
    have hS : GoodSep V ((single o).withDefaults cxB).lineSep := by
      rw [single_lineSep_B]; exact hG.line
    obtain ⟨e', g1, g3, g4, g5⟩ := hnl p (h6 p hp)
    have hrep : e' = (Editor.root (G p) (single o)).flat := by
      rw [g3]; show _ = _
      simp only [G, single_lineSep_B]
      rfl
    have hover : ∀ t ∈ G p, t ∈ V := by
      intro t h
      rcases joinWith_mem _ _ t h with h | ⟨l, hl, h⟩
      · exact hG.lineV t h
      · rcases List.mem_append.1 hl with hl | hl
        · exact g4 l hl t h
        · rw [trailing_mem cxB _ _ l hl] at h; cases h
    refine ⟨hover, ?_, by rw [g1, hrep], ?_⟩
    · have := text_eq_joinWith cxB (Editor.root p (single o)) (single o) hS.ne
      have hp' : p = joinWith (o.withDefaults cxB).lineSep
          (inLines cxB (Editor.root p (single o)) (single o) ++
            trailing cxB (Editor.root p (single o)) (single o)) := by
        rw [single_lineSep_B] at this; exact this
      conv => rhs; rw [hp']
      exact filter_joinWith_congr _ _ _ _ (map_filter_append_congr _ _ _ _ g5)
    · have hs1 := hsingle p.flatten
      have : (Editor.root p (single o)).flat = Editor.root p.flatten (single o.flat) := rfl
      rw [this, hs1, hrep] at g1
      exact congrArg Editor.text (Except.ok.inj g1)
  refine ⟨e, G, h1, h2, h4, ?_,
    fun p hp => ⟨h6 p hp, (hGp p hp).1, (hGp p hp).2.1, (hGp p hp).2.2.1⟩, ?_⟩
  · rw [h5]
    congr 1
    exact List.map_congr_left (fun p hp => (hGp p hp).2.2.2)
  · apply para_nonws_text hV ed ht o hG G e ?_ (fun p hp => (hGp p hp).1)
      (fun p hp => (hGp p hp).2.1)
    rw [h5]
    congr 1
    exact List.map_congr_left (fun p hp => (hGp p hp).2.2.2)

/-- **4 / 1.** `AlignOpts` in paragraph mode on code points: every paragraph separator is kept in
place (`ed.flat.text` and `e.text` are joins over the SAME paragraph separators, as many pieces);
the piece for paragraph `p` is the text of the NON-paragraph `AlignOpts` of `p` taken as an editor
of its own (so 1 holds for it), it is over `V` and has the non-whitespace clusters of `p`; hence
the non-whitespace clusters of the whole text are unchanged -/
theorem alignOpts_para_no_loss (hV : VocabStable V = true) (hsp : [0x20] ∈ V)
    (ed : Editor (List Int)) (ht : ∀ t ∈ ed.text, t ∈ V) (align width : Int)
    (o : Options (List Int))
    (hal : align = Gen.alignLeft ∨ align = Gen.alignRight ∨ align = Gen.alignCenter)
    (hpp : o.preservePara = true)
    (hG : GoodPara V (o.withDefaults cxB).lineSep (o.withDefaults cxB).paraSep)
    (haf : AffixFree (o.flat.withDefaults cxA)) :
    ∃ (e : Editor Int) (G : List (List Int) → List (List Int)),
      Editor.alignOpts cxA ed.flat align width o.flat = .ok e ∧ e.opts = ed.flat.opts ∧
      ed.flat.text = joinWith (o.flat.withDefaults cxA).paraSep
        ((paragraphsOf ed.text (o.withDefaults cxB)).map List.flatten) ∧
      e.text = joinWith (o.flat.withDefaults cxA).paraSep
        ((paragraphsOf ed.text (o.withDefaults cxB)).map (fun p => (G p).flatten)) ∧
      (∀ p ∈ paragraphsOf ed.text (o.withDefaults cxB),
        (∀ t ∈ p, t ∈ V) ∧ (∀ t ∈ G p, t ∈ V) ∧ nonws (G p) = nonws p ∧
        Editor.alignOpts cxA (Editor.root p (single o)).flat align width (single o).flat =
          .ok (Editor.root (G p) (single o)).flat) ∧
      nonws (clusters cxA e.text) = nonws (clusters cxA ed.flat.text) := by
  have hppA : (o.flat.withDefaults cxA).preservePara = true := by
    rw [withDefaults_preservePara]; exact hpp
  have hsepA : (o.flat.withDefaults cxA).lineSep ≠ [] :=
    withDefaults_lineSep_ne_nil cxA cxA_dLineSep_ne _
  refine para_of_replaced hV ed ht o hG _ _
    (alignOpts_paragraphWise cxA cxA_Sane ed.flat align width o.flat hal hppA haf)
    (fun ed' => Editor.alignOpts cxA ed' align width (single o).flat)
    (fun q => alignOpts_single cxA align width o.flat hal hsepA q)
    (fun p => (inLines cxB (Editor.root p (single o)) (single o)).map (specAlign align width)) ?_
  intro p hp
  have hS : GoodSep V ((single o).withDefaults cxB).lineSep := by
    rw [single_lineSep_B]; exact hG.line
  obtain ⟨e', g1, -, g3, g4, g5⟩ := alignOpts_no_loss hV hsp (Editor.root p (single o))
    hp align width (single o) hal (single_pp o) hS
  exact ⟨e', g1, g3, g4, g5⟩

/-- **4 / 2.** `JustifyOpts` in paragraph mode on code points (JustifyLastLine on or off): as for
Align -/
theorem justifyOpts_para_no_loss (hV : VocabStable V = true) (hsp : [0x20] ∈ V)
    (hspTail : ∀ t ∈ V, (0x20 : Int) ∉ t.tail)
    (ed : Editor (List Int)) (ht : ∀ t ∈ ed.text, t ∈ V) (width : Int)
    (o : Options (List Int)) (hpp : o.preservePara = true)
    (hG : GoodPara V (o.withDefaults cxB).lineSep (o.withDefaults cxB).paraSep)
    (haf : AffixFree (o.flat.withDefaults cxA)) :
    ∃ (e : Editor Int) (G : List (List Int) → List (List Int)),
      Editor.justifyOpts cxA ed.flat width o.flat = .ok e ∧ e.opts = ed.flat.opts ∧
      ed.flat.text = joinWith (o.flat.withDefaults cxA).paraSep
        ((paragraphsOf ed.text (o.withDefaults cxB)).map List.flatten) ∧
      e.text = joinWith (o.flat.withDefaults cxA).paraSep
        ((paragraphsOf ed.text (o.withDefaults cxB)).map (fun p => (G p).flatten)) ∧
      (∀ p ∈ paragraphsOf ed.text (o.withDefaults cxB),
        (∀ t ∈ p, t ∈ V) ∧ (∀ t ∈ G p, t ∈ V) ∧ nonws (G p) = nonws p ∧
        Editor.justifyOpts cxA (Editor.root p (single o)).flat width (single o).flat =
          .ok (Editor.root (G p) (single o)).flat) ∧
      nonws (clusters cxA e.text) = nonws (clusters cxA ed.flat.text) := by
  have hppA : (o.flat.withDefaults cxA).preservePara = true := by
    rw [withDefaults_preservePara]; exact hpp
  refine para_of_replaced hV ed ht o hG _ _
    (justifyOpts_paragraphWise cxA cxA_Sane ed.flat width o.flat hppA haf)
    (fun ed' => Editor.justifyOpts cxA ed' width (single o).flat)
    (fun q => justifyOpts_single cxA cxA_Sane cxA_dLineSep_ne width o.flat q)
    (fun p => justLines (Editor.root p (single o)) (single o) width) ?_
  intro p hp
  have hS : GoodSep V ((single o).withDefaults cxB).lineSep := by
    rw [single_lineSep_B]; exact hG.line
  obtain ⟨e', g1, -, g3, g4, g5⟩ := justifyOpts_no_loss hV hsp hspTail (Editor.root p (single o))
    hp width (single o) (single_pp o) hS
  exact ⟨e', g1, g3, g4, g5⟩

/-- **4 / 3.** `WrapOpts` in paragraph mode on code points: every paragraph separator is kept in
place; the piece for paragraph `p` is the text of the NON-paragraph `WrapOpts` of `p` taken as an
editor of its own — the wrapped lines of `p` joined by the line separator, plus the trailing one
(`wrapTextB`) — so 3 (`wrapOpts_no_loss`, `wrapOpts_dehyphen_tok`, `wrapOpts_dehyphen_text`)
holds for every paragraph; the last clause spells this out for a one-cluster whitespace line
separator -/
theorem wrapOpts_para_no_loss (hV : VocabStable V = true) (hsp : [0x20] ∈ V)
    (hspTail : ∀ t ∈ V, (0x20 : Int) ∉ t.tail)
    (ed : Editor (List Int)) (ht : ∀ t ∈ ed.text, t ∈ V) (w : Int)
    (o : Options (List Int)) (hpp : o.preservePara = true)
    (hG : GoodPara V (o.withDefaults cxB).lineSep (o.withDefaults cxB).paraSep)
    (haf : AffixFree (o.flat.withDefaults cxA)) :
    ∃ e : Editor Int, Editor.wrapOpts cxA ed.flat w o.flat = .ok e ∧ e.opts = ed.flat.opts ∧
      ed.flat.text = joinWith (o.flat.withDefaults cxA).paraSep
        ((paragraphsOf ed.text (o.withDefaults cxB)).map List.flatten) ∧
      e.text = joinWith (o.flat.withDefaults cxA).paraSep
        ((paragraphsOf ed.text (o.withDefaults cxB)).map
          (fun p => (wrapTextB (Editor.root p (single o)) w (single o)).flatten)) ∧
      (∀ p ∈ paragraphsOf ed.text (o.withDefaults cxB),
        (∀ t ∈ p, t ∈ V) ∧
        Editor.wrapOpts cxA (Editor.root p (single o)).flat w (single o).flat =
          .ok (Editor.root (wrapTextB (Editor.root p (single o)) w (single o)) (single o)).flat ∧
        (∀ s, (o.withDefaults cxB).lineSep = [s] → cxB.isSpace s = true →
          HyOK tkB (wid w) p →
          dehyphen tkB (wid w) [wrapTextB (Editor.root p (single o)) w (single o)] =
            words tkB p)) := by
  have hppA : (o.flat.withDefaults cxA).preservePara = true := by
    rw [withDefaults_preservePara]; exact hpp
  have hPW := wrapOpts_paragraphWise cxA cxA_Sane ed.flat w o.flat hppA haf
  obtain ⟨e, h1, h2, -, h4, h5, h6⟩ := paragraphWise_code_points hV ed ht o hG _ _ hPW
  have hcl : ∀ p ∈ paragraphsOf ed.text (o.withDefaults cxB),
      Editor.wrapOpts cxA (Editor.root p (single o)).flat w (single o).flat =
        .ok (Editor.root (wrapTextB (Editor.root p (single o)) w (single o)) (single o)).flat := by
    intro p hp
    have hS : GoodSep V ((single o).withDefaults cxB).lineSep := by
      rw [single_lineSep_B]; exact hG.line
    exact wrapOpts_closed hV hsp hspTail (Editor.root p (single o)) (h6 p hp) w (single o)
      (single_pp o) hS
  refine ⟨e, h1, h2, h4, ?_, fun p hp => ⟨h6 p hp, hcl p hp, ?_⟩⟩
  · rw [h5]
    congr 1
    apply List.map_congr_left
    intro p hp
    have g1 := hcl p hp
    have : (Editor.root p (single o)).flat = Editor.root p.flatten (single o.flat) := rfl
    rw [this, single_flat, wrapOpts_single cxA cxA_Sane w o.flat p.flatten] at g1
    exact congrArg Editor.text (Except.ok.inj g1)
  · intro s hs hsws hok
    exact wrapTextB_dehyphen (Editor.root p (single o)) w (single o) s
      (by rw [single_lineSep_B]; exact hs) hsws hok

end para

/-! ## the hyphen can always be added to a stable vocabulary that has the space

`hhy : [0x2D] ∈ V` in 3 and 6 is therefore no restriction on the TEXTS covered: U+002D and U+0020
have the same grapheme-cluster-break class, and `VocabStable` only looks at classes. -/

theorem vocabStable_cons_hyphen {V : List (List Int)} (hV : VocabStable V = true)
    (hsp : [0x20] ∈ V) : VocabStable ([0x2D] :: V) = true := by
  have key : ([0x2D] : List Int).map classOf = ([0x20] : List Int).map classOf := by
    decide +kernel
  have hcls : ∀ v ∈ [0x2D] :: V, ∃ u ∈ V, v.map classOf = u.map classOf := by
    intro v hv
    rcases List.mem_cons.1 hv with rfl | hv
    · exact ⟨_, hsp, key⟩
    · exact ⟨v, hv, rfl⟩
  unfold VocabStable at hV ⊢
  rw [Bool.and_eq_true, List.all_eq_true, List.all_eq_true] at hV ⊢
  obtain ⟨hs, hj⟩ := hV
  constructor
  · intro v hv
    obtain ⟨u, hu, e⟩ := hcls v hv
    rw [e]; exact hs u hu
  · intro v₁ h1
    rw [List.all_eq_true]
    intro v₂ h2
    obtain ⟨u₁, hu1, e1⟩ := hcls v₁ h1
    obtain ⟨u₂, hu2, e2⟩ := hcls v₂ h2
    rw [e1, e2]
    have := hj u₁ hu1
    rw [List.all_eq_true] at this
    exact this u₂ hu2

/-! ## non-vacuity -/

section examples
open BridgeOps BridgeEditorParas ParaStructure

/-- all hypotheses of 1, 2, 3, 5, 6 hold for the vocabulary `BridgeOps.demoVocab3` (letters, space,
hyphen, a decomposed accent, a flag, tab, line feed) and the separator U+000A: for every text over
it, root editor with arbitrary options, every alignment, every width, call options that leave the
line separator unset (or set it to `"\n"`) outside paragraph mode -/
example (toks : List (List Int)) (ht : ∀ t ∈ toks, t ∈ BridgeOps.demoVocab3) (align width : Int)
    (o0 o : Options (List Int)) (hpp : o.preservePara = false)
    (hal : align = Gen.alignLeft ∨ align = Gen.alignRight ∨ align = Gen.alignCenter)
    (hls : o.lineSep = [] ∨ o.lineSep = [[0x0A]])
    (hok : HyOK tkB (wid width) toks) :
    (∃ e, Editor.alignOpts cxA (.root toks.flatten o0.flat) align width o.flat = .ok e ∧
      (splitOn e.text (o.flat.withDefaults cxA).lineSep).map (fun l => nonws (clusters cxA l)) =
        (splitOn toks.flatten (o.flat.withDefaults cxA).lineSep).map
          (fun l => nonws (clusters cxA l))) ∧
    (∃ e, Editor.justifyOpts cxA (.root toks.flatten o0.flat) width o.flat = .ok e ∧
      nonws (clusters cxA e.text) = nonws (clusters cxA toks.flatten)) ∧
    (∃ e, Editor.wrapOpts cxA (.root toks.flatten o0.flat) width o.flat = .ok e ∧
      (dehyphen tkB (wid width) [clusters cxA e.text]).flatten = nonws (clusters cxA toks.flatten)) ∧
    (Editor.wrapOpts cxA (.root toks.flatten o0.flat) width o.flat >>=
        fun e => Editor.wrapOpts cxA e width o.flat) =
      Editor.wrapOpts cxA (.root toks.flatten o0.flat) width o.flat ∧
    (Editor.collapseSpaceOpts cxA (.root toks.flatten o0.flat) o.flat >>=
        fun e => Editor.collapseSpaceOpts cxA e o.flat) =
      Editor.collapseSpaceOpts cxA (.root toks.flatten o0.flat) o.flat := by
  have hs := lineSep_nl_of o hls
  have hS : GoodSep BridgeOps.demoVocab3 (o.withDefaults cxB).lineSep := by rw [hs]; exact demo3_good_nl
  have hin : clusters cxA (Editor.root toks o0).flat.text = toks := by
    rw [flat_text]; exact clusters_flat_over BridgeOps.demoVocab3_stable ht
  refine ⟨?_, ?_, ?_, ?_, ?_⟩
  · obtain ⟨e, h1, -, h2, -⟩ := alignOpts_nonws_lines_tok BridgeOps.demoVocab3_stable BridgeOps.demoVocab3_sp
      (.root toks o0) ht align width o hal hpp [0x0A] hs BridgeOps.demoVocab3_nl (by decide) demo3_good_nl
    exact ⟨e, h1, h2⟩
  · obtain ⟨e, h1, -, h2⟩ := justifyOpts_nonws_text BridgeOps.demoVocab3_stable BridgeOps.demoVocab3_sp
      BridgeOps.demoVocab3_spTail (.root toks o0) ht width o hpp hS
      (by rw [hs]; intro t h; rw [List.mem_singleton] at h; rw [h]; exact BridgeOps.demoVocab3_nl)
    exact ⟨e, h1, h2⟩
  · obtain ⟨e, h1, -, -, h2⟩ := wrapOpts_dehyphen_text BridgeOps.demoVocab3_stable BridgeOps.demoVocab3_sp
      BridgeOps.demoVocab3_hy BridgeOps.demoVocab3_spTail (.root toks o0) ht width o hpp [0x0A] hs BridgeOps.demoVocab3_nl
      (by decide) demo3_good_nl (by rw [hin]; exact hok)
    exact ⟨e, h1, h2⟩
  · exact wrapOpts_idempotent_code_points BridgeOps.demoVocab3_stable BridgeOps.demoVocab3_sp BridgeOps.demoVocab3_hy
      BridgeOps.demoVocab3_spTail (.root toks o0) ht width o hpp [0x0A] hs BridgeOps.demoVocab3_nl
      (by decide) demo3_good_nl
  · exact collapseSpaceOpts_idem_code_points BridgeOps.demoVocab3_stable BridgeOps.demoVocab3_sp BridgeOps.demoVocab3_spTail
      (.root toks o0) ht o hS (Or.inl ⟨[0x0A], hs⟩)

/-- the same for a SUB-editor (any parent, any recorded byte range) -/
example (toks : List (List Int)) (ht : ∀ t ∈ toks, t ∈ BridgeOps.demoVocab3) (width : Int)
    (o0 : Options (List Int)) (p : Editor (List Int)) (a b : Int) :
    (Editor.wrapOpts cxA (Editor.sub toks o0 p a b).flat width ({} : Options (List Int)).flat >>=
        fun e => Editor.wrapOpts cxA e width ({} : Options (List Int)).flat) =
      Editor.wrapOpts cxA (Editor.sub toks o0 p a b).flat width ({} : Options (List Int)).flat :=
  wrapOpts_idempotent_code_points BridgeOps.demoVocab3_stable BridgeOps.demoVocab3_sp BridgeOps.demoVocab3_hy
    BridgeOps.demoVocab3_spTail (.sub toks o0 p a b) ht width {} rfl [0x0A] default_lineSep_B
    BridgeOps.demoVocab3_nl (by decide) demo3_good_nl

/-- fully evaluated on code points: "ab  abbab\té a\n" (é decomposed) wrapped to width 4 — an
over-long word is split with continuation hyphens, the trailing line feed is kept — and wrapping
the result again returns it unchanged -/
example :
    (Editor.wrapOpts cxA (.root [0x61, 0x62, 0x20, 0x20, 0x61, 0x62, 0x62, 0x61, 0x62, 0x09,
        0x65, 0x301, 0x20, 0x61, 0x0A] {}) 4 {}).map Editor.text =
      .ok [0x61, 0x62, 0x0A, 0x61, 0x62, 0x62, 0x2D, 0x0A, 0x61, 0x62, 0x20, 0x65, 0x301, 0x0A,
        0x61, 0x0A] ∧
    (Editor.wrapOpts cxA (.root [0x61, 0x62, 0x0A, 0x61, 0x62, 0x62, 0x2D, 0x0A, 0x61, 0x62, 0x20,
        0x65, 0x301, 0x0A, 0x61, 0x0A] {}) 4 {}).map Editor.text =
      .ok [0x61, 0x62, 0x0A, 0x61, 0x62, 0x62, 0x2D, 0x0A, 0x61, 0x62, 0x20, 0x65, 0x301, 0x0A,
        0x61, 0x0A] :=
  ⟨of_okEq (by decide +kernel), of_okEq (by decide +kernel)⟩

/-- `dehyphen` on that output gives the words of the input -/
example : dehyphen tkB 4 [[[0x61], [0x62], [0x0A], [0x61], [0x62], [0x62], [0x2D], [0x0A], [0x61],
      [0x62], [0x20], [0x65, 0x301], [0x0A], [0x61], [0x0A]]] =
    words tkB [[0x61], [0x62], [0x20], [0x20], [0x61], [0x62], [0x62], [0x61], [0x62], [0x09],
      [0x65, 0x301], [0x20], [0x61], [0x0A]] := by decide +kernel

/-- the default separators are affix-free on code points -/
theorem affixFree_default_A (o : Options (List Int)) (hl : o.lineSep = []) (hp : o.paraSep = []) :
    AffixFree (o.flat.withDefaults cxA) := by
  have h1 : (o.flat.withDefaults cxA).lineSep = [0x0A] := by
    rw [lineSep_flat_gen o (by rw [(default_seps o hl hp).1]; decide), (default_seps o hl hp).1]
    rfl
  have h2 : (o.flat.withDefaults cxA).paraSep = [0x0A, 0x0A] := by
    rw [paraSep_flat_gen o (by rw [(default_seps o hl hp).2]; decide), (default_seps o hl hp).2]
    rfl
  apply affixFree_of_double _ (by rw [h1]; simp)
  rw [h1, h2]
  rfl

/-- paragraph mode: all hypotheses of 4 hold for `BridgeEditorParas.demoVocabA` and the default
separators `"\n"` / `"\n\n"` -/
example (toks : List (List Int)) (ht : ∀ t ∈ toks, t ∈ demoVocabA) (align width : Int)
    (o0 o : Options (List Int)) (hpp : o.preservePara = true) (hl : o.lineSep = [])
    (hp : o.paraSep = [])
    (hal : align = Gen.alignLeft ∨ align = Gen.alignRight ∨ align = Gen.alignCenter) :
    (∃ e, Editor.alignOpts cxA (.root toks.flatten o0.flat) align width o.flat = .ok e ∧
      nonws (clusters cxA e.text) = nonws (clusters cxA toks.flatten)) ∧
    (∃ e, Editor.justifyOpts cxA (.root toks.flatten o0.flat) width o.flat = .ok e ∧
      nonws (clusters cxA e.text) = nonws (clusters cxA toks.flatten)) ∧
    (∃ e, Editor.wrapOpts cxA (.root toks.flatten o0.flat) width o.flat = .ok e ∧
      e.text = joinWith (o.flat.withDefaults cxA).paraSep
        ((paragraphsOf toks (o.withDefaults cxB)).map
          (fun p => (wrapTextB (Editor.root p (single o)) width (single o)).flatten))) := by
  have hG : GoodPara demoVocabA (o.withDefaults cxB).lineSep (o.withDefaults cxB).paraSep := by
    rw [(default_seps o hl hp).1, (default_seps o hl hp).2]; exact demoVocabA_goodPara
  have hspT : ∀ t ∈ demoVocabA, (0x20 : Int) ∉ t.tail := spTail_of_spOnly (by decide)
  have haf := affixFree_default_A o hl hp
  refine ⟨?_, ?_, ?_⟩
  · obtain ⟨e, G, h1, -, -, -, -, h2⟩ := alignOpts_para_no_loss demoVocabA_stable (by decide)
      (.root toks o0) ht align width o hal hpp hG haf
    exact ⟨e, h1, h2⟩
  · obtain ⟨e, G, h1, -, -, -, -, h2⟩ := justifyOpts_para_no_loss demoVocabA_stable (by decide)
      hspT (.root toks o0) ht width o hpp hG haf
    exact ⟨e, h1, h2⟩
  · obtain ⟨e, h1, -, -, h2, -⟩ := wrapOpts_para_no_loss demoVocabA_stable (by decide)
      hspT (.root toks o0) ht width o hpp hG haf
    exact ⟨e, h1, h2⟩

end examples

end NoLossOps
end RosedVerif
