/-
Paragraphs: the per-paragraph callback loop (`paraLoop`, `Editor.applyParasM`) is lossless.
Core Lean only.
-/
import RosedVerif.Model.Ops
import RosedVerif.Model.StringsLemmas
import RosedVerif.Model.OptionsLemmas
namespace RosedVerif

section
variable {α : Type} [DecidableEq α]

/-! ## the calls made by `paraLoop` -/

/-- The list of calls `(index, paragraph, prefix, suffix)` that `paraLoop` makes, defined by the
same recursion as `paraLoop` itself. -/
def paraCalls (lineSep prevSuffix nextPrefix : List α) (ambig : Bool) :
    Nat → List α → List (List α) → List (Nat × List α × List α × List α)
  | idx, cur, [] => [(idx, cur, (if idx != 0 then nextPrefix else []), [])]
  | idx, cur, nxt :: rest =>
    (idx,
      (if (ambig && lineSep.isPrefixOf nxt) then cur ++ lineSep else cur),
      (if idx != 0 then nextPrefix else []),
      prevSuffix) ::
    paraCalls lineSep prevSuffix nextPrefix ambig (idx + 1)
      (if (ambig && lineSep.isPrefixOf nxt) then nxt.drop lineSep.length else nxt) rest

/-- the paragraphs handed to the callback, in order -/
def paraPieces (lineSep : List α) (ambig : Bool) : List α → List (List α) → List (List α)
  | cur, [] => [cur]
  | cur, nxt :: rest =>
    (if (ambig && lineSep.isPrefixOf nxt) then cur ++ lineSep else cur) ::
    paraPieces lineSep ambig
      (if (ambig && lineSep.isPrefixOf nxt) then nxt.drop lineSep.length else nxt) rest

theorem paraCalls_length (lineSep prevSuffix nextPrefix : List α) (ambig : Bool)
    (idx : Nat) (cur : List α) (rest : List (List α)) :
    (paraCalls lineSep prevSuffix nextPrefix ambig idx cur rest).length = rest.length + 1 := by
  induction rest generalizing idx cur with
  | nil => rfl
  | cons nxt rest ih => simp only [paraCalls, List.length_cons, ih]

theorem paraPieces_length (lineSep : List α) (ambig : Bool) (cur : List α)
    (rest : List (List α)) : (paraPieces lineSep ambig cur rest).length = rest.length + 1 := by
  induction rest generalizing cur with
  | nil => rfl
  | cons nxt rest ih => simp only [paraPieces, List.length_cons, ih]

theorem paraPieces_ne_nil (lineSep : List α) (ambig : Bool) (cur : List α)
    (rest : List (List α)) : paraPieces lineSep ambig cur rest ≠ [] := by
  intro h
  have := paraPieces_length lineSep ambig cur rest
  rw [h] at this
  simp at this

/-- the indexes of the calls are `idx, idx+1, …` -/
theorem paraCalls_indexes (lineSep prevSuffix nextPrefix : List α) (ambig : Bool)
    (idx : Nat) (cur : List α) (rest : List (List α)) :
    (paraCalls lineSep prevSuffix nextPrefix ambig idx cur rest).map (·.1) =
      List.range' idx (rest.length + 1) := by
  induction rest generalizing idx cur with
  | nil => rfl
  | cons nxt rest ih =>
    simp only [paraCalls, List.map_cons, ih, List.length_cons, List.range'_succ]

/-- the paragraphs of the calls are `paraPieces` -/
theorem paraCalls_paragraphs (lineSep prevSuffix nextPrefix : List α) (ambig : Bool)
    (idx : Nat) (cur : List α) (rest : List (List α)) :
    (paraCalls lineSep prevSuffix nextPrefix ambig idx cur rest).map (·.2.1) =
      paraPieces lineSep ambig cur rest := by
  induction rest generalizing idx cur with
  | nil => rfl
  | cons nxt rest ih => simp only [paraCalls, paraPieces, List.map_cons, ih]

/-- the prefixes: `[]` for the call with index `0`, `nextPrefix` for all others -/
theorem paraCalls_prefixes (lineSep prevSuffix nextPrefix : List α) (ambig : Bool)
    (idx : Nat) (cur : List α) (rest : List (List α)) :
    (paraCalls lineSep prevSuffix nextPrefix ambig idx cur rest).map (·.2.2.1) =
      (List.range' idx (rest.length + 1)).map fun i => if i = 0 then [] else nextPrefix := by
  induction rest generalizing idx cur with
  | nil =>
    simp only [paraCalls, List.map_cons, List.map_nil, List.length_nil, Nat.zero_add,
      List.range'_one]
    by_cases h : idx = 0 <;> simp [h]
  | cons nxt rest ih =>
    simp only [paraCalls, List.map_cons, ih, List.length_cons, List.range'_succ]
    by_cases h : idx = 0 <;> simp [h]

/-- the suffixes: `prevSuffix` for every call but the last, `[]` for the last -/
theorem paraCalls_suffixes (lineSep prevSuffix nextPrefix : List α) (ambig : Bool)
    (idx : Nat) (cur : List α) (rest : List (List α)) :
    (paraCalls lineSep prevSuffix nextPrefix ambig idx cur rest).map (·.2.2.2) =
      List.replicate rest.length prevSuffix ++ [[]] := by
  induction rest generalizing idx cur with
  | nil => rfl
  | cons nxt rest ih =>
    simp only [paraCalls, List.map_cons, ih, List.length_cons, List.replicate_succ,
      List.cons_append]

/-- pointwise form: the `i`-th call -/
theorem paraCalls_getElem (lineSep prevSuffix nextPrefix : List α) (ambig : Bool)
    (idx : Nat) (cur : List α) (rest : List (List α)) (i : Nat)
    (h : i < (paraCalls lineSep prevSuffix nextPrefix ambig idx cur rest).length) :
    let c := (paraCalls lineSep prevSuffix nextPrefix ambig idx cur rest)[i]
    c.1 = idx + i ∧
    c.2.1 = (paraPieces lineSep ambig cur rest)[i]'(by
      rw [paraPieces_length]; rw [paraCalls_length] at h; exact h) ∧
    c.2.2.1 = (if idx + i = 0 then [] else nextPrefix) ∧
    c.2.2.2 = (if i = rest.length then [] else prevSuffix) := by
  intro c
  have hl := paraCalls_length lineSep prevSuffix nextPrefix ambig idx cur rest
  have hi : i < rest.length + 1 := by omega
  have h1 := paraCalls_indexes lineSep prevSuffix nextPrefix ambig idx cur rest
  have h2 := paraCalls_paragraphs lineSep prevSuffix nextPrefix ambig idx cur rest
  have h3 := paraCalls_prefixes lineSep prevSuffix nextPrefix ambig idx cur rest
  have h4 := paraCalls_suffixes lineSep prevSuffix nextPrefix ambig idx cur rest
  refine ⟨?_, ?_, ?_, ?_⟩
  · have := List.getElem_of_eq h1 (i := i) (by simpa using h)
    simpa using this
  · have := List.getElem_of_eq h2 (i := i) (by simpa using h)
    simpa using this
  · have := List.getElem_of_eq h3 (i := i) (by simpa using h)
    simpa using this
  · have := List.getElem_of_eq h4 (i := i) (by simpa using h)
    rw [List.getElem_map] at this
    show c.2.2.2 = _
    rw [this]
    by_cases hlast : i = rest.length
    · subst hlast
      simp
    · rw [if_neg hlast, List.getElem_append_left (by simpa using (by omega : i < rest.length))]
      simp

/-- without the ambiguity repair the pieces are the split pieces, untouched -/
theorem paraPieces_not_ambig (lineSep : List α) (cur : List α) (rest : List (List α)) :
    paraPieces lineSep false cur rest = cur :: rest := by
  induction rest generalizing cur with
  | nil => rfl
  | cons nxt rest ih =>
    simp only [paraPieces, Bool.false_and, Bool.false_eq_true, if_false, ih]

/-- no piece starts with `lineSep` ⇒ nothing is moved -/
theorem paraPieces_of_no_prefix (lineSep : List α) (ambig : Bool) (cur : List α)
    (rest : List (List α)) (h : ∀ p ∈ rest, lineSep.isPrefixOf p = false) :
    paraPieces lineSep ambig cur rest = cur :: rest := by
  induction rest generalizing cur with
  | nil => rfl
  | cons nxt rest ih =>
    have h1 := h nxt (by simp)
    simp only [paraPieces, h1, Bool.and_false, Bool.false_eq_true, if_false]
    rw [ih nxt (fun p hp => h p (by simp [hp]))]

omit [DecidableEq α] in
theorem joinWith_append_cons (sep a b : List α) (t : List (List α)) :
    joinWith sep ((a ++ b) :: t) = a ++ joinWith sep (b :: t) := by
  cases t with
  | nil => simp only [joinWith_singleton]
  | cons y t => simp only [joinWith_cons_cons, List.append_assoc]

/-- moving a `lineSep` across a `paraSep` does not change the joined text, because the two
commute -/
theorem joinWith_paraPieces (paraSep lineSep : List α) (ambig : Bool)
    (hamb : ambig = true → paraSep ++ lineSep = lineSep ++ paraSep)
    (cur : List α) (rest : List (List α)) :
    joinWith paraSep (paraPieces lineSep ambig cur rest) = joinWith paraSep (cur :: rest) := by
  induction rest generalizing cur with
  | nil => rfl
  | cons nxt rest ih =>
    rw [paraPieces, joinWith_cons_of_ne_nil _ _ (paraPieces_ne_nil _ _ _ _), ih,
      joinWith_cons_cons]
    by_cases hs : (ambig && lineSep.isPrefixOf nxt) = true
    · simp only [hs, if_true]
      have hs' := Bool.and_eq_true_iff.mp hs
      have hp := List.prefix_iff_eq_append.mp (List.isPrefixOf_iff_prefix.mp hs'.2)
      have hc := hamb hs'.1
      conv => rhs; rw [← hp, joinWith_append_cons]
      simp only [List.append_assoc]
      rw [← List.append_assoc lineSep, ← List.append_assoc paraSep, hc]
    · simp only [hs, if_false, Bool.false_eq_true]

/-! ## `paraLoop` in terms of its calls -/

/-- Item 3: `paraLoop` invokes the callback exactly on `paraCalls`, in order, and concatenates
the results. -/
theorem paraLoop_eq_mapM (op : Nat → List α → List α → List α → R (List (List α)))
    (lineSep prevSuffix nextPrefix : List α) (ambig : Bool)
    (idx : Nat) (cur : List α) (rest : List (List α)) :
    paraLoop op lineSep prevSuffix nextPrefix ambig idx cur rest =
      List.flatten <$> (paraCalls lineSep prevSuffix nextPrefix ambig idx cur rest).mapM
        (fun c => op c.1 c.2.1 c.2.2.1 c.2.2.2) := by
  induction rest generalizing idx cur with
  | nil =>
    simp only [paraLoop, paraCalls, List.mapM_cons, List.mapM_nil, pure_bind, map_bind, map_pure,
      List.flatten_cons, List.flatten_nil, List.append_nil, bind_pure]
  | cons nxt rest ih =>
    simp only [paraLoop, paraCalls, List.mapM_cons, ih, map_bind, map_pure, List.flatten_cons,
      bind_map_left]

/-- bind form of `paraLoop_eq_mapM` -/
theorem paraLoop_eq_mapM_bind (op : Nat → List α → List α → List α → R (List (List α)))
    (lineSep prevSuffix nextPrefix : List α) (ambig : Bool)
    (idx : Nat) (cur : List α) (rest : List (List α)) :
    paraLoop op lineSep prevSuffix nextPrefix ambig idx cur rest =
      ((paraCalls lineSep prevSuffix nextPrefix ambig idx cur rest).mapM
        (fun c => op c.1 c.2.1 c.2.2.1 c.2.2.2) >>= fun outs => pure outs.flatten) := by
  rw [paraLoop_eq_mapM, map_eq_pure_bind]

theorem mapM_ok_length {β γ : Type} (f : β → R γ) (l : List β) (rs : List γ)
    (h : l.mapM f = .ok rs) : rs.length = l.length := by
  induction l generalizing rs with
  | nil =>
    rw [List.mapM_nil] at h
    cases pure_ok.1 h
    rfl
  | cons a t ih =>
    rw [List.mapM_cons] at h
    obtain ⟨b, -, h⟩ := bind_ok.1 h
    obtain ⟨bs, hbs, h⟩ := bind_ok.1 h
    rw [← pure_ok.1 h, List.length_cons, List.length_cons, ih bs hbs]

/-- a one-result-per-paragraph callback: the loop is `mapM` over the pieces -/
theorem paraLoop_single (f : List α → R (List α))
    (lineSep prevSuffix nextPrefix : List α) (ambig : Bool)
    (idx : Nat) (cur : List α) (rest : List (List α)) :
    paraLoop (fun _ p _ _ => do pure [← f p]) lineSep prevSuffix nextPrefix ambig idx cur rest =
      (paraPieces lineSep ambig cur rest).mapM f := by
  induction rest generalizing idx cur with
  | nil =>
    simp only [paraLoop, paraPieces, List.mapM_cons, List.mapM_nil, pure_bind]
  | cons nxt rest ih =>
    simp only [paraLoop, paraPieces, List.mapM_cons, ih, bind_assoc, pure_bind,
      List.singleton_append]

theorem mapM_pure_id {β : Type} (l : List β) : l.mapM (fun p => (pure p : R β)) = pure l := by
  induction l with
  | nil => rfl
  | cons a t ih => simp only [List.mapM_cons, ih, pure_bind]

/-- Item 1 (with the length of the output). -/
theorem paraLoop_id' (paraSep lineSep prevSuffix nextPrefix : List α) (ambig : Bool)
    (hamb : ambig = true → paraSep ++ lineSep = lineSep ++ paraSep)
    (idx : Nat) (cur : List α) (rest : List (List α)) :
    ∃ outs, paraLoop (fun _ p _ _ => pure [p]) lineSep prevSuffix nextPrefix ambig idx cur rest
        = .ok outs ∧
      joinWith paraSep outs = joinWith paraSep (cur :: rest) ∧
      outs.length = rest.length + 1 ∧
      outs = paraPieces lineSep ambig cur rest := by
  refine ⟨paraPieces lineSep ambig cur rest, ?_, joinWith_paraPieces paraSep lineSep ambig hamb
    cur rest, paraPieces_length _ _ _ _, rfl⟩
  have := paraLoop_single (fun p => (pure p : R (List α))) lineSep prevSuffix nextPrefix ambig
    idx cur rest
  simp only [pure_bind] at this
  rw [this, mapM_pure_id]
  rfl

/-- Item 1. -/
theorem paraLoop_id (paraSep lineSep prevSuffix nextPrefix : List α) (ambig : Bool)
    (hamb : ambig = true → paraSep ++ lineSep = lineSep ++ paraSep)
    (idx : Nat) (cur : List α) (rest : List (List α)) :
    ∃ outs, paraLoop (fun _ p _ _ => pure [p]) lineSep prevSuffix nextPrefix ambig idx cur rest
        = .ok outs ∧
      joinWith paraSep outs = joinWith paraSep (cur :: rest) := by
  obtain ⟨outs, h1, h2, -⟩ :=
    paraLoop_id' paraSep lineSep prevSuffix nextPrefix ambig hamb idx cur rest
  exact ⟨outs, h1, h2⟩

end

/-! ## `Editor.applyParasM` -/
section
variable {α : Type} [DecidableEq α] (cx : Ctx α)

omit [DecidableEq α] in
theorem withDefaults_paraSep_ne_nil (hd : cx.dParaSep ≠ []) (o : Options α) :
    (o.withDefaults cx).paraSep ≠ [] := by
  rw [(withDefaults_fields cx o).2.2.1]
  split
  · exact hd
  · rename_i h
    intro e
    apply h
    rw [e]
    rfl

/-- the `ambig` flag of `applyParasM` -/
def Options.ambig (o : Options α) : Bool := (o.paraSep ++ o.lineSep) == (o.lineSep ++ o.paraSep)

/-- the affixes `applyParasM` passes to its callback -/
def Options.prevSuffix (o : Options α) : List α := (splitOn o.paraSep o.lineSep).headD []
def Options.nextPrefix (o : Options α) : List α :=
  if (splitOn o.paraSep o.lineSep).length > 1 then (splitOn o.paraSep o.lineSep).getLastD [] else []

/-- the calls `(index, paragraph, prefix, suffix)` made by `ed.applyParasM cx op o`
(`o` already defaulted) -/
def paraCallsOf (text : List α) (o : Options α) : List (Nat × List α × List α × List α) :=
  match splitOn text o.paraSep with
  | [] => []
  | p :: ps => paraCalls o.lineSep o.prevSuffix o.nextPrefix o.ambig 0 p ps

/-- the paragraphs handed to the callback by `ed.applyParasM cx op o` (`o` already defaulted) -/
def paragraphsOf (text : List α) (o : Options α) : List (List α) :=
  match splitOn text o.paraSep with
  | [] => []
  | p :: ps => paraPieces o.lineSep o.ambig p ps

theorem paraCallsOf_paragraphs (text : List α) (o : Options α) :
    (paraCallsOf text o).map (·.2.1) = paragraphsOf text o := by
  unfold paraCallsOf paragraphsOf
  split
  · rfl
  · exact paraCalls_paragraphs _ _ _ _ _ _ _

theorem paraCallsOf_length (text : List α) (o : Options α) :
    (paraCallsOf text o).length = (splitOn text o.paraSep).length := by
  unfold paraCallsOf
  split
  · rename_i h; simp only [h, List.length_nil]
  · rename_i p ps h; simp only [h, paraCalls_length, List.length_cons]

theorem paragraphsOf_length (text : List α) (o : Options α) :
    (paragraphsOf text o).length = (splitOn text o.paraSep).length := by
  unfold paragraphsOf
  split
  · rename_i h; simp only [h, List.length_nil]
  · rename_i p ps h; simp only [h, paraPieces_length, List.length_cons]

/-- the paragraphs joined by the paragraph separator are the text -/
theorem joinWith_paragraphsOf (text : List α) (o : Options α) :
    joinWith o.paraSep (paragraphsOf text o) = text := by
  have hj := joinWith_splitOn_all text o.paraSep
  unfold paragraphsOf
  split
  · rename_i h; rw [h] at hj; exact hj
  · rename_i p ps h
    rw [h] at hj
    rw [joinWith_paraPieces _ _ _ ?_ p ps, hj]
    intro ha
    exact eq_of_beq ha

/-- Item 3 for `applyParasM`: the callback is invoked exactly on `paraCallsOf`, in order. -/
theorem applyParasM_eq_mapM (ed : Editor α)
    (op : Nat → List α → List α → List α → R (List (List α))) (o : Options α) :
    ed.applyParasM cx op o =
      ((paraCallsOf ed.text (o.withDefaults cx)).mapM (fun c => op c.1 c.2.1 c.2.2.1 c.2.2.2) >>=
        fun outs => pure (ed.withText (joinWith (o.withDefaults cx).paraSep outs.flatten))) := by
  unfold Editor.applyParasM paraCallsOf
  dsimp only
  cases splitOn ed.text (o.withDefaults cx).paraSep with
  | nil => simp only [List.mapM_nil, pure_bind, List.flatten_nil, joinWith_nil]
  | cons p ps =>
    dsimp only
    rw [paraLoop_eq_mapM_bind]
    simp only [bind_assoc, pure_bind]
    rfl

/-- Item 4: homomorphism skeleton.  A one-result-per-paragraph callback `f` is mapped over the
paragraphs and the results are joined with the paragraph separator. -/
theorem applyParasM_single (ed : Editor α) (f : List α → R (List α)) (o : Options α) :
    ed.applyParasM cx (fun _ p _ _ => do pure [← f p]) o =
      ((paragraphsOf ed.text (o.withDefaults cx)).mapM f >>=
        fun rs => pure (ed.withText (joinWith (o.withDefaults cx).paraSep rs))) := by
  unfold Editor.applyParasM paragraphsOf
  dsimp only
  cases splitOn ed.text (o.withDefaults cx).paraSep with
  | nil => simp only [List.mapM_nil, pure_bind, joinWith_nil]
  | cons p ps =>
    dsimp only
    rw [paraLoop_single]
    rfl

/-- Item 4, result form: the result text is `joinWith paraSep rs` with one `rs` entry per
`paraSep`-piece of the input. -/
theorem applyParasM_single_ok (ed r : Editor α) (f : List α → R (List α)) (o : Options α)
    (h : ed.applyParasM cx (fun _ p _ _ => do pure [← f p]) o = .ok r) :
    ∃ rs, (paragraphsOf ed.text (o.withDefaults cx)).mapM f = .ok rs ∧
      r = ed.withText (joinWith (o.withDefaults cx).paraSep rs) ∧
      r.text = joinWith (o.withDefaults cx).paraSep rs ∧
      r.opts = ed.opts ∧
      rs.length = (splitOn ed.text (o.withDefaults cx).paraSep).length := by
  rw [applyParasM_single] at h
  obtain ⟨rs, hrs, h⟩ := bind_ok.1 h
  have hr := (pure_ok.1 h).symm
  refine ⟨rs, hrs, hr, ?_, ?_, ?_⟩
  · rw [hr, Editor.withText_text]
  · rw [hr, Editor.withText_opts]
  · rw [mapM_ok_length f _ rs hrs, paragraphsOf_length]

/-- Item 4, total callback: if `f` never fails, neither does `applyParasM`. -/
theorem applyParasM_single_pure (ed : Editor α) (g : List α → List α) (o : Options α) :
    ed.applyParasM cx (fun _ p _ _ => do pure [← (pure (g p) : R (List α))]) o =
      .ok (ed.withText (joinWith (o.withDefaults cx).paraSep
        ((paragraphsOf ed.text (o.withDefaults cx)).map g))) := by
  rw [applyParasM_single]
  have : ∀ l : List (List α), l.mapM (fun p => (pure (g p) : R (List α))) = pure (l.map g) := by
    intro l
    induction l with
    | nil => rfl
    | cons a t ih => simp only [List.mapM_cons, ih, pure_bind, List.map_cons]
  rw [this, pure_bind]
  rfl

/-- Item 2 without any hypothesis on the defaults (`joinWith_splitOn_all` also covers the empty
separator). -/
theorem applyParas_id' (ed : Editor α) (o : Options α) :
    ed.applyParasM cx (fun _ p _ _ => pure [p]) o = .ok ed := by
  have := applyParasM_single_pure cx ed id o
  simp only [pure_bind, id] at this
  rw [this, List.map_id, joinWith_paragraphsOf, Editor.withText_self]

/-- Item 2. -/
theorem applyParas_id (_hd : cx.dParaSep ≠ []) (ed : Editor α) (o : Options α) :
    ∃ r, ed.applyParasM cx (fun _ p _ _ => pure [p]) o = .ok r ∧ r.text = ed.text ∧
      r.opts = ed.opts :=
  ⟨ed, applyParas_id' cx ed o, rfl, rfl⟩

end

/-! ### non-vacuity on concrete lists -/

example : paraCalls [0] [7] [8] true 0 [1] [[0, 2], [3]] =
    [(0, [1, 0], [], [7]), (1, [2], [8], [7]), (2, [3], [8], [])] := by decide
example : paraPieces [0] true [1] [[0, 2], [3]] = [[1, 0], [2], [3]] := by decide
example : joinWith [0, 0] (paraPieces [0] true [1] [[0, 2], [3]]) =
    joinWith [0, 0] [[1], [0, 2], [3]] := by decide

end RosedVerif
