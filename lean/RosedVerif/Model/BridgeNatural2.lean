/-
Property C03 at the level of the PUBLIC operations, on CODE POINTS, for the operations that
`BridgeNatural.lean` leaves open:

  A. `Chars` / `CharsFrom` / `CharsTo`, `Insert`, `Delete`, `Overtype` (any editor, any integers);
  B. `JustifyOpts` (JustifyLastLine on and off) and `IndentOpts`, non-paragraph mode;
  C. `InsertTwoColumnsOpts`, `InsertDefinitionsTableOpts`, `InsertTableOpts`;
  D. concrete instances (decomposed `é` ↦ precomposed `é`, non-injective substitution);
  E. paragraph mode (`preservePara = true`) of `WrapOpts`, `JustifyOpts`, `AlignOpts`, `IndentOpts`.

Setting as in `BridgeNatural.lean`: two stable vocabularies `V`, `V'` and a cluster-for-cluster
substitution `g` from `V` into `V'`.  The model is run on the CODE POINTS of a text over `V` and of
its substituted text (real UAX #29 segmentation on both, instance `cxA`); the results are the same
substitution of one another.  Technique: the A→B bridges of `Bridge*.lean` (code points = flattening
of cluster tokens) on both sides, and in between the naturality of the model at the cluster
instance `cxB` (it commutes with `List.map g`), proved here where it did not exist yet.
-/
import RosedVerif.Model.BridgeNatural
import RosedVerif.Model.BridgeEdit
import RosedVerif.Model.BridgeEditorParas
namespace RosedVerif
set_option linter.unusedSectionVars false

namespace BridgeNatural2
open BridgeNatural BridgeWrap BridgeOps BridgeEditorOps OpsStructure BridgeComposite BridgeEdit
  BridgeAlign

/-! ## A. positions: Chars / CharsFrom / CharsTo / Insert / Delete / Overtype

No hypothesis on `g` beyond `V → V'` is needed here: these operations only count clusters. -/

/-- the cluster range `[a, b)` that `Chars(s, e)` / `Delete(s, e)` select in a text of `n`
clusters -/
def selRange (n : Nat) (s e : Int) : Nat × Nat :=
  ((Spec.normRange (n : Int) s e).1.toNat, (Spec.normRange (n : Int) s e).2.toNat)

theorem selRange_spec (n : Nat) (s e : Int) :
    (selRange n s e).1 ≤ (selRange n s e).2 ∧ (selRange n s e).2 ≤ n ∧
      Spec.normRange (n : Int) s e =
        ((((selRange n s e).1 : Nat) : Int), (((selRange n s e).2 : Nat) : Int)) := by
  obtain ⟨a, b, hab, hb, hr⟩ := normRange_nat n s e
  unfold selRange
  rw [hr]
  simp only [Int.toNat_natCast]
  exact ⟨hab, hb, trivial⟩

/-- the cluster position that `Insert(p)` / `Overtype(p)` / `CharsTo(p)` / `CharsFrom(p)` denote in
a text of `n` clusters -/
def posOf (n : Nat) (p : Int) : Nat := (Spec.normPos (n : Int) p).toNat

theorem posOf_le (n : Nat) (p : Int) : posOf n p ≤ n := by
  have := normPos_bounds (n : Int) p (Int.natCast_nonneg _)
  unfold posOf; omega

/-- the tokens `Chars(s, e)` selects -/
def charsToks (toks : List (List Int)) (s e : Int) : List (List Int) :=
  (toks.drop (selRange toks.length s e).1).take
    ((selRange toks.length s e).2 - (selRange toks.length s e).1)

/-- the token list after `Insert(p, ins)` -/
def insertToks (toks : List (List Int)) (p : Int) (ins : List (List Int)) : List (List Int) :=
  toks.take (posOf toks.length p) ++ ins ++ toks.drop (posOf toks.length p)

/-- the token list after `Delete(s, e)` -/
def deleteToks (toks : List (List Int)) (s e : Int) : List (List Int) :=
  toks.take (selRange toks.length s e).1 ++ toks.drop (selRange toks.length s e).2

/-- the token list after `Overtype(p, ins)`: the tokens before `p`, the new tokens, the tokens from
the normalised position of `wrap64 (p' + |ins|)` on (`p'` the normalised `p`).  Go computes
`p' + |ins|` in 64-bit arithmetic; below `2^63` clusters this is `min (p' + |ins|) n`
(`overtypeToks_of_small`). -/
def overtypeToks (toks : List (List Int)) (p : Int) (ins : List (List Int)) : List (List Int) :=
  toks.take (posOf toks.length p) ++ ins ++
    toks.drop (posOf toks.length
      (wrap64 (Spec.normPos (toks.length : Int) p + (ins.length : Int))))

theorem overtypeToks_of_small (toks : List (List Int)) (p : Int) (ins : List (List Int))
    (hno : (toks.length : Int) + (ins.length : Int) < 2 ^ 63) :
    overtypeToks toks p ins =
      toks.take (posOf toks.length p) ++ ins ++
        toks.drop (min (posOf toks.length p + ins.length) toks.length) := by
  have hb := normPos_bounds (toks.length : Int) p (Int.natCast_nonneg _)
  unfold overtypeToks
  rw [wrap64_of_range _ (by omega) (by omega)]
  congr 2
  unfold posOf
  by_cases h : Spec.normPos (toks.length : Int) p + (ins.length : Int) ≤ (toks.length : Int)
  · rw [normPos_of_mem _ _ (by omega) h]; omega
  · rw [normPos_of_ge _ _ (Int.natCast_nonneg _) (by omega)]; omega

/-! ### the closed forms commute with `List.map g` -/

section mapg
variable (g : List Int → List Int)

theorem charsToks_map (toks : List (List Int)) (s e : Int) :
    charsToks (toks.map g) s e = (charsToks toks s e).map g := by
  unfold charsToks
  rw [List.length_map, List.map_take, List.map_drop]

theorem insertToks_map (toks : List (List Int)) (p : Int) (ins : List (List Int)) :
    insertToks (toks.map g) p (ins.map g) = (insertToks toks p ins).map g := by
  unfold insertToks
  rw [List.length_map, List.map_append, List.map_append, List.map_take, List.map_drop]

theorem deleteToks_map (toks : List (List Int)) (s e : Int) :
    deleteToks (toks.map g) s e = (deleteToks toks s e).map g := by
  unfold deleteToks
  rw [List.length_map, List.map_append, List.map_take, List.map_drop]

theorem overtypeToks_map (toks : List (List Int)) (p : Int) (ins : List (List Int)) :
    overtypeToks (toks.map g) p (ins.map g) = (overtypeToks toks p ins).map g := by
  unfold overtypeToks
  rw [List.length_map, List.length_map, List.map_append, List.map_append, List.map_take,
    List.map_drop]

end mapg

/-! ### the closed forms stay inside the vocabulary -/

section over
variable {V : List (List Int)} {toks : List (List Int)}

theorem charsToks_over (ht : ∀ t ∈ toks, t ∈ V) (s e : Int) : ∀ t ∈ charsToks toks s e, t ∈ V :=
  over_take (over_drop ht _) _

theorem insertToks_over (ht : ∀ t ∈ toks, t ∈ V) {ins : List (List Int)} (hi : ∀ t ∈ ins, t ∈ V)
    (p : Int) : ∀ t ∈ insertToks toks p ins, t ∈ V :=
  over_splice ht hi _ _

theorem deleteToks_over (ht : ∀ t ∈ toks, t ∈ V) (s e : Int) : ∀ t ∈ deleteToks toks s e, t ∈ V :=
  BridgeEdit.over_append (over_take ht _) (over_drop ht _)

theorem overtypeToks_over (ht : ∀ t ∈ toks, t ∈ V) {ins : List (List Int)}
    (hi : ∀ t ∈ ins, t ∈ V) (p : Int) : ∀ t ∈ overtypeToks toks p ins, t ∈ V :=
  over_splice ht hi _ _

end over

/-! ### closed forms on code points (any editor, root or sub-editor) -/

section closed
variable {V : List (List Int)}

theorem clusters_of (hV : VocabStable V = true) {toks : List (List Int)}
    (ht : ∀ t ∈ toks, t ∈ V) : clusters cxA toks.flatten = toks :=
  clusters_flatten_stable toks (stableRunes_of_vocab V hV toks ht)

theorem posNat_of (hV : VocabStable V = true) {toks : List (List Int)}
    (ht : ∀ t ∈ toks, t ∈ V) (p : Int) : Spec.posNat cxA toks.flatten p = posOf toks.length p := by
  unfold Spec.posNat posOf
  rw [clusters_of hV ht]

theorem selectClusters_A (hV : VocabStable V = true) {toks : List (List Int)}
    (ht : ∀ t ∈ toks, t ∈ V) (s e : Int) :
    Spec.selectClusters cxA toks.flatten s e =
      ((toks.take (selRange toks.length s e).1).flatten, (charsToks toks s e).flatten,
        (toks.drop (selRange toks.length s e).2).flatten) := by
  have hr := (selRange_spec toks.length s e).2.2
  have h := selectClusters_eq_clusters (cx := cxA) toks.flatten s e _ _
    (by rw [clusters_of hV ht]; exact hr)
  rw [clusters_of hV ht] at h
  exact h

/-- `Chars(s, e)` on code points: the sub-editor holds the selected clusters, and its byte range is
the byte range of the cluster range `selRange` in the parent's text -/
theorem chars_A_closed (hV : VocabStable V = true) (ed : Editor Int) (toks : List (List Int))
    (hed : ed.text = toks.flatten) (ht : ∀ t ∈ toks, t ∈ V) (s e : Int) :
    ed.chars cxA s e =
      .ok (.sub (charsToks toks s e).flatten ed.opts ed
        (byteLen cxA (toks.take (selRange toks.length s e).1).flatten)
        (byteLen cxA (toks.take (selRange toks.length s e).2).flatten)) := by
  rw [Editor.chars_eq_spec cxA_WF, hed, selectClusters_A hV ht]
  simp only []
  unfold charsToks
  rw [← flatten_take_split toks (selRange_spec toks.length s e).1]

theorem insert_A_closed' (hV : VocabStable V = true) (ed : Editor Int) (toks : List (List Int))
    (hed : ed.text = toks.flatten) (ht : ∀ t ∈ toks, t ∈ V) (p : Int) (ins : List (List Int)) :
    ed.insert cxA p ins.flatten = .ok (ed.withText (insertToks toks p ins).flatten) := by
  rw [Editor.insert_eq_spec cxA_WF, hed, insert_flat hV toks ins ht p, posNat_of hV ht]
  rfl

theorem delete_A_closed (hV : VocabStable V = true) (ed : Editor Int) (toks : List (List Int))
    (hed : ed.text = toks.flatten) (ht : ∀ t ∈ toks, t ∈ V) (s e : Int) :
    ed.delete cxA s e = .ok (ed.withText (deleteToks toks s e).flatten) := by
  rw [Editor.delete_eq_spec cxA_WF, hed, Spec.delete_eq, selectClusters_A hV ht]
  simp only []
  unfold deleteToks
  rw [List.flatten_append]

/-- `Overtype` on code points, with Go's 64-bit wrap-around of `pos + len(text)` modelled: no
bound on the lengths is needed for the closed form -/
theorem overtype_A_closed (hV : VocabStable V = true) (ed : Editor Int) (toks : List (List Int))
    (hed : ed.text = toks.flatten) (ht : ∀ t ∈ toks, t ∈ V) (p : Int) (ins : List (List Int))
    (hi : ∀ t ∈ ins, t ∈ V) :
    ed.overtype cxA p ins.flatten = .ok (ed.withText (overtypeToks toks p ins).flatten) := by
  have hp : Spec.posNat cxA ed.text (Spec.normPos ((clusters cxA ed.text).length : Int) p) =
      Spec.posNat cxA ed.text p := by
    rw [← Spec.posNat_cast, Spec.posNat_of_nat _ _ (Spec.posNat_le _ _)]
  rw [Editor.overtype_unfold]
  unfold overtypeIdx
  rw [Editor.charsTo_eq_spec cxA_WF, Editor.charsFrom_eq_spec cxA_WF, hp]
  simp only [hed, clusters_of hV ht, posNat_of hV ht,
    gLen_flatten_stable ins (stableRunes_of_vocab V hV ins hi)]
  unfold overtypeToks
  simp only [List.flatten_append]
  rfl

end closed

/-! ## B. JustifyOpts / IndentOpts, non-paragraph mode

### B.0 JustifyLine on cluster tokens commutes with a token map -/

/-- JustifyLine on cluster tokens: the newline pre-pass is invisible, the rest works on the
specification's collapsed line -/
theorem justifyLine_B_eq_core (l : List (List Int)) (w : Int) :
    justifyLine cxB l w = justifyCore cxB (Spec.collapse tkB l) w := by
  unfold justifyLine
  rw [collapseSpace_triv_all cxB cxB_triv cxB_sp_space,
    collapse_replaceAll'_nl cxB cxB_sp_space (by decide)]
  rfl

/-- in a collapsed text the only whitespace token is the space -/
theorem collapse_ws_eq_sp {α : Type} (tk : Spec.Toks α) : ∀ (l : List α),
    ∀ c ∈ Spec.collapse tk l, tk.ws c = true → c = tk.sp
  | [], c, h, _ => by cases h
  | [a], c, h, hw => by
    simp only [Spec.collapse, List.mem_singleton] at h
    split at h
    · exact h
    · rename_i hn
      rw [h] at hw
      exact absurd hw hn
  | a :: d :: t, c, h, hw => by
    have ih := collapse_ws_eq_sp tk (d :: t) c
    rw [Spec.collapse] at h
    split at h
    · exact ih h hw
    · rcases List.mem_cons.1 h with h | h
      · split at h
        · exact h
        · rename_i hn
          rw [h] at hw
          exact absurd hw hn
      · exact ih h hw

theorem interleave_B_map (g : List Int → List Int) (hgsp : g cxB.sp = cxB.sp) :
    ∀ (ws : List (List (List Int))) (es : List Nat),
      interleave cxB (ws.map (List.map g)) es = (interleave cxB ws es).map g
  | [], _ => by simp only [List.map_nil, interleave]
  | [w], es => by simp only [List.map_cons, List.map_nil, interleave]
  | w :: w' :: ws, e :: es => by
    have ih := interleave_B_map g hgsp (w' :: ws) es
    rw [List.map_cons] at ih
    simp only [List.map_cons, interleave, List.map_append, List.map_replicate, hgsp, ih]
  | w :: w' :: ws, [] => by
    have ih := interleave_B_map g hgsp (w' :: ws) []
    rw [List.map_cons] at ih
    simp only [List.map_cons, interleave, List.map_append, List.map_nil, hgsp, ih]

theorem justifyCore_B_map {g : List Int → List Int} (hmap : Spec.TokMap tkB tkB g)
    (c : List (List Int)) (hc : ∀ t ∈ c, cxB.isSpace t = true → t = cxB.sp) (w : Int) :
    justifyCore cxB (c.map g) w = (justifyCore cxB c w).map (List.map g) := by
  have hinj : SepInj g [cxB.sp] c := by
    intro s hs t ht e
    rw [List.mem_singleton] at hs
    subst hs
    have h1 : cxB.isSpace (g t) = true := by rw [← e, hmap.sp]; exact cxB_sp_space
    rw [show cxB.isSpace (g t) = cxB.isSpace t from hmap.ws t] at h1
    exact (hc t ht h1).symm
  have hsplit : splitOn (c.map g) [cxB.sp] = (splitOn c [cxB.sp]).map (List.map g) := by
    have := splitOn_map g c [cxB.sp] hinj
    rw [List.map_cons, List.map_nil, show g cxB.sp = cxB.sp from hmap.sp] at this
    exact this
  unfold justifyCore
  dsimp only
  rw [gLen_triv cxB cxB_triv, gLen_triv cxB cxB_triv, hsplit, List.length_map, List.length_map]
  split
  · rfl
  · split
    · rfl
    · cases distribute (((splitOn c [cxB.sp]).length : Int) - 1)
        (if (((splitOn c [cxB.sp]).length : Int) - 1) % 2 == 0 then 0 else 1)
        (w - (c.length : Int)).toNat 0 false
        (List.replicate (((splitOn c [cxB.sp]).length : Int) - 1).toNat 0) with
      | error e => rfl
      | ok extra =>
        show Except.ok (interleave cxB ((splitOn c [cxB.sp]).map (List.map g)) extra) =
          Except.ok ((interleave cxB (splitOn c [cxB.sp]) extra).map g)
        rw [interleave_B_map g hmap.sp]

/-- **the justified line on clusters commutes with the substitution** (non-injective `g` allowed:
after CollapseSpace the only whitespace cluster left is the space, which `g` fixes) -/
theorem justified_B_map {g : List Int → List Int} (hmap : Spec.TokMap tkB tkB g)
    (l : List (List Int)) (w : Int) :
    justified cxB (l.map g) w = (justified cxB l w).map g := by
  unfold justified
  rw [justifyLine_B_eq_core, justifyLine_B_eq_core, Spec.collapse_map hmap,
    justifyCore_B_map hmap _ (collapse_ws_eq_sp tkB l)]
  cases justifyCore cxB (Spec.collapse tkB l) w with
  | error e => rfl
  | ok r => rfl

/-! ### B.1 closed forms -/

/-- the text `JustifyOpts` (non-paragraph mode) produces on cluster tokens: every line (with
`JustifyLastLine`) or every line but the last (default) is replaced by its justified line -/
def justifyText (ed : Editor (List Int)) (width : Int) (o : Options (List Int)) :
    List (List Int) :=
  joinWith (o.withDefaults cxB).lineSep
    ((if o.justifyLast = true then (inLines cxB ed o).map (fun l => justified cxB l width)
      else mapInit (fun l => justified cxB l width) (inLines cxB ed o)) ++ trailing cxB ed o)

/-- the text `IndentOpts` (non-paragraph mode) produces on cluster tokens -/
def indentText (ed : Editor (List Int)) (level : Int) (o : Options (List Int)) :
    List (List Int) :=
  if level < 1 then ed.text
  else joinWith (o.withDefaults cxB).lineSep
    ((inLines cxB ed o).map
        (fun l => (List.replicate level.toNat (o.withDefaults cxB).indentStr).flatten ++ l) ++
      trailing cxB ed o)

section closedB
variable {V : List (List Int)}

theorem justifyOpts_A_closed (hV : VocabStable V = true) (hsp : [0x20] ∈ V)
    (hspTail : ∀ t ∈ V, (0x20 : Int) ∉ t.tail) (toks : List (List Int)) (ht : ∀ t ∈ toks, t ∈ V)
    (width : Int) (o0 o : Options (List Int)) (hpp : o.preservePara = false)
    (hS : GoodSep V (o.withDefaults cxB).lineSep) :
    Editor.justifyOpts cxA (.root toks.flatten o0.flat) width o.flat =
      .ok (.root (justifyText (.root toks o0) width o).flatten o0.flat) := by
  unfold justifyText
  cases hjl : o.justifyLast with
  | true =>
    have h := (justifyOpts_bridge_all_closed hV hsp hspTail (.root toks o0) ht width o hpp hjl hS).1
    rw [flat_root] at h
    rw [h, if_pos rfl]
    rfl
  | false =>
    have h := justifyOpts_bridge_notLast_closed hV hsp hspTail (.root toks o0) ht width o hpp hjl hS
    rw [flat_root] at h
    rw [h, if_neg (by simp)]
    rfl

theorem indentStr_ne (o : Options (List Int))
    (hI : ∀ t ∈ (o.withDefaults cxB).indentStr, t ≠ []) : ∀ t ∈ o.indentStr, t ≠ [] := by
  rw [(withDefaults_fields cxB o).2.1] at hI
  intro t ht
  by_cases he : o.indentStr.isEmpty = true
  · rw [List.isEmpty_iff.1 he] at ht; cases ht
  · rw [if_neg he] at hI
    exact hI t ht

theorem indentOpts_A_closed (hV : VocabStable V = true) (toks : List (List Int))
    (ht : ∀ t ∈ toks, t ∈ V) (level : Int) (o0 o : Options (List Int))
    (hpp : o.preservePara = false) (hS : GoodSep V (o.withDefaults cxB).lineSep)
    (hI : ∀ t ∈ (o.withDefaults cxB).indentStr, t ≠ []) :
    Editor.indentOpts cxA (.root toks.flatten o0.flat) level o.flat =
      .ok (.root (indentText (.root toks o0) level o).flatten o0.flat) := by
  unfold indentText
  by_cases hlev : level < 1
  · rw [if_pos hlev]
    unfold Editor.indentOpts
    rw [if_pos hlev]
    rfl
  · have h := indentOpts_bridge_closed hV (.root toks o0) ht level (by omega) o hpp hS
      (indentStr_ne o hI)
    rw [flat_root] at h
    rw [h, if_neg hlev]
    rfl

end closedB

/-! ### B.2 the closed forms stay inside the vocabulary -/

section overB
variable {V : List (List Int)}

theorem justifyText_over (hsp : [0x20] ∈ V) (ed : Editor (List Int)) (ht : ∀ t ∈ ed.text, t ∈ V)
    (width : Int) (o : Options (List Int)) (hSV : ∀ s ∈ (o.withDefaults cxB).lineSep, s ∈ V) :
    ∀ t ∈ justifyText ed width o, t ∈ V := by
  intro t h
  unfold justifyText at h
  rcases joinWith_mem _ _ t h with h | ⟨l, hl, h⟩
  · exact hSV t h
  · rcases List.mem_append.1 hl with hl | hl
    · split at hl
      · obtain ⟨l0, hl0, rfl⟩ := List.mem_map.1 hl
        exact justified_B_over hsp width (inLines_over ed ht o l0 hl0) t h
      · unfold mapInit at hl
        rcases List.mem_append.1 hl with hl | hl
        · obtain ⟨l0, hl0, rfl⟩ := List.mem_map.1 hl
          exact justified_B_over hsp width
            (inLines_over ed ht o l0 (List.dropLast_subset _ hl0)) t h
        · exact inLines_over ed ht o l (List.mem_of_mem_drop hl) t h
    · rw [trailing_mem cxB ed o l hl] at h
      cases h

theorem indentText_over (ed : Editor (List Int)) (ht : ∀ t ∈ ed.text, t ∈ V)
    (level : Int) (o : Options (List Int)) (hSV : ∀ s ∈ (o.withDefaults cxB).lineSep, s ∈ V)
    (hIV : ∀ s ∈ (o.withDefaults cxB).indentStr, s ∈ V) :
    ∀ t ∈ indentText ed level o, t ∈ V := by
  intro t h
  unfold indentText at h
  split at h
  · exact ht t h
  · rcases joinWith_mem _ _ t h with h | ⟨l, hl, h⟩
    · exact hSV t h
    · rcases List.mem_append.1 hl with hl | hl
      · obtain ⟨l0, hl0, rfl⟩ := List.mem_map.1 hl
        rcases List.mem_append.1 h with h | h
        · obtain ⟨x, hx, hxt⟩ := List.mem_flatten.1 h
          rw [List.eq_of_mem_replicate hx] at hxt
          exact hIV t hxt
        · exact inLines_over ed ht o l0 hl0 t h
      · rw [trailing_mem cxB ed o l hl] at h
        cases h

end overB

/-! ### B.3 naturality of the closed forms -/

section naturalB
variable {V : List (List Int)} {g : List Int → List Int}

theorem mapInit_map (f : List (List Int) → List (List Int))
    (hf : ∀ l, f (l.map g) = (f l).map g) (ls : List (List (List Int))) :
    mapInit f (ls.map (List.map g)) = (mapInit f ls).map (List.map g) := by
  unfold mapInit
  rw [List.length_map, List.map_append, ← List.map_dropLast, ← List.map_drop, List.map_map,
    List.map_map]
  congr 1
  apply List.map_congr_left
  intro l _
  exact hf l

theorem justifyText_map (hmap : Spec.TokMap tkB tkB g) (o0 o : Options (List Int))
    (h : SepFix V g (o.withDefaults cxB).lineSep) {toks : List (List Int)}
    (ht : ∀ t ∈ toks, t ∈ V) (width : Int) :
    justifyText (.root (toks.map g) o0) width o = (justifyText (.root toks o0) width o).map g := by
  unfold justifyText
  rw [inLines_map o0 o h ht, trailing_map o0 o h ht, joinWith_map, h.map_eq, List.map_append]
  congr 2
  split
  · rw [List.map_map, List.map_map]
    apply List.map_congr_left
    intro l _
    exact justified_B_map hmap l width
  · exact mapInit_map _ (fun l => justified_B_map hmap l width) _

theorem indentText_map (o0 o : Options (List Int))
    (h : SepFix V g (o.withDefaults cxB).lineSep)
    (hfixI : ∀ s ∈ (o.withDefaults cxB).indentStr, g s = s) {toks : List (List Int)}
    (ht : ∀ t ∈ toks, t ∈ V) (level : Int) :
    indentText (.root (toks.map g) o0) level o = (indentText (.root toks o0) level o).map g := by
  have hI : ((List.replicate level.toNat (o.withDefaults cxB).indentStr).flatten).map g =
      (List.replicate level.toNat (o.withDefaults cxB).indentStr).flatten := by
    conv => rhs; rw [← List.map_id (List.replicate _ _).flatten]
    apply List.map_congr_left
    intro s hs
    obtain ⟨x, hx, hxs⟩ := List.mem_flatten.1 hs
    rw [List.eq_of_mem_replicate hx] at hxs
    exact hfixI s hxs
  unfold indentText
  split
  · rfl
  · rw [inLines_map o0 o h ht, trailing_map o0 o h ht, joinWith_map, h.map_eq, List.map_append,
      List.map_map, List.map_map]
    congr 2
    apply List.map_congr_left
    intro l _
    simp only [Function.comp, List.map_append, hI]

end naturalB

/-! ## C. InsertTwoColumnsOpts / InsertDefinitionsTableOpts / InsertTableOpts

### C.0 helpers -/

section helpersC
variable {g : List Int → List Int}

theorem map_fixed {l : List (List Int)} (h : ∀ t ∈ l, g t = t) : l.map g = l := by
  conv => rhs; rw [← List.map_id l]
  exact List.map_congr_left h

theorem getD_map_nil (ls : List (List (List Int))) (i : Nat) :
    (ls.map (List.map g)).getD i [] = (ls.getD i []).map g := by
  rw [List.getD_eq_getElem?_getD, List.getD_eq_getElem?_getD, List.getElem?_map]
  cases ls[i]? <;> rfl

theorem block_join_map {S : List (List Int)} (hS : S.map g = S) (ls : List (List (List Int)))
    (b : Bool) :
    (Block.mk (ls.map (List.map g)) S b).join = (Block.mk ls S b).join.map g := by
  unfold Block.join
  cases ls with
  | nil => cases b <;> simp [hS]
  | cons l ls =>
    simp only [List.map_cons, List.isEmpty_cons, Bool.false_eq_true, ↓reduceIte, List.map_append]
    rw [← List.map_cons, joinWith_map, hS]
    cases b <;> simp [hS]

theorem replicate_sp_map (hgsp : g cxB.sp = cxB.sp) (n : Nat) :
    (List.replicate n cxB.sp).map g = List.replicate n cxB.sp := by
  rw [List.map_replicate, hgsp]

/-- `Editor.Insert` on cluster tokens, root editor, in terms of `insertToks` -/
theorem insert_root_toks {V : List (List Int)} (hV : VocabStable V = true)
    (toks : List (List Int)) (ht : ∀ t ∈ toks, t ∈ V) (o0 : Options (List Int)) (pos : Int)
    (X : List (List Int)) :
    (Editor.insert cxB (.root toks o0) pos X).map Editor.flat =
      .ok (.root (insertToks toks pos X).flatten o0.flat) :=
  insert_root_flat hV toks ht o0 pos X

end helpersC

/-! ### C.1 two columns -/

theorem twoColW_bounds (msb width : Int) (pct : Pct) :
    2 ≤ (twoColW msb width pct).1 ∧ 2 ≤ (twoColW msb width pct).2 := by
  unfold twoColW
  generalize (if pct.neg = true ∨ (pct.num == 0) = true then ((0 : Nat), (0 : Nat))
    else if pct.num > 2 ^ pct.exp then (1, 0) else (pct.num, pct.exp)) = ne
  obtain ⟨num, exp⟩ := ne
  simp only
  generalize (if msb < 0 then 0 else msb) = msb'
  have hW : msb' + 4 ≤ (if width < msb' + 2 + 2 then msb' + 2 + 2 else width) := by split <;> omega
  generalize (if width < msb' + 2 + 2 then msb' + 2 + 2 else width) = W at hW ⊢
  generalize ((mulRoundTrunc (W - msb').toNat num exp : Nat) : Int) = m
  repeat' split
  all_goals omega

/-- the block `InsertTwoColumnsOpts` inserts, on cluster tokens -/
def twoColBlock (l r : List (List Int)) (gap width : Int) (pct : Pct) (o : Options (List Int)) :
    List (List Int) :=
  (Block.mk
    (twoColLines cxB l r (if gap < 0 then 0 else gap) (twoColW gap width pct).1
      (twoColW gap width pct).2 (o.withDefaults cxB).lineSep)
    (o.withDefaults cxB).lineSep (!(o.withDefaults cxB).noTrailing)).join

/-- the text after `InsertTwoColumnsOpts`, on cluster tokens -/
def twoColText (toks : List (List Int)) (pos : Int) (l r : List (List Int)) (gap width : Int)
    (pct : Pct) (o : Options (List Int)) : List (List Int) :=
  if l.isEmpty ∧ r.isEmpty then toks else insertToks toks pos (twoColBlock l r gap width pct o)

theorem insertTwoColumnsOpts_B_closed (ed : Editor (List Int)) (pos : Int)
    (l r : List (List Int)) (gap width : Int) (pct : Pct) (o : Options (List Int)) :
    Editor.insertTwoColumnsOpts cxB ed pos l r gap width pct o =
      if l.isEmpty ∧ r.isEmpty then pure ed
      else ed.insert cxB pos (twoColBlock l r gap width pct o) := by
  obtain ⟨hL, hR⟩ := twoColW_bounds gap width pct
  rw [insertTwoColumnsOpts_unfold]
  split
  · rfl
  · rw [if_neg (by omega)]
    exact twoColBody_triv cxB cxB_triv cxB_sp_space ed pos l r _ _ _ o (by split <;> omega) hL hR

section twoCol
variable {V : List (List Int)}

theorem insertTwoColumnsOpts_A_closed (hV : VocabStable V = true) (hsp : [0x20] ∈ V)
    (hhy : [0x2D] ∈ V) (hspTail : ∀ t ∈ V, (0x20 : Int) ∉ t.tail)
    (toks : List (List Int)) (ht : ∀ t ∈ toks, t ∈ V) (o0 : Options (List Int)) (pos : Int)
    (l r : List (List Int)) (hl : ∀ t ∈ l, t ∈ V) (hr : ∀ t ∈ r, t ∈ V) (gap width : Int)
    (pct : Pct) (o : Options (List Int)) (hS : GoodSep V (o.withDefaults cxB).lineSep) :
    Editor.insertTwoColumnsOpts cxA (.root toks.flatten o0.flat) pos l.flatten r.flatten gap width
        pct o.flat =
      .ok (.root (twoColText toks pos l r gap width pct o).flatten o0.flat) := by
  rw [insertTwoColumnsOpts_bridge hV hsp hhy hspTail toks ht o0 pos l r hl hr gap width pct o hS,
    insertTwoColumnsOpts_B_closed]
  unfold twoColText
  split
  · rfl
  · exact insert_root_toks hV toks ht o0 pos _

theorem twoColLines_over (hsp : [0x20] ∈ V) (hhy : [0x2D] ∈ V) {l r : List (List Int)}
    (hl : ∀ t ∈ l, t ∈ V) (hr : ∀ t ∈ r, t ∈ V) (msb lw rw : Int) (S : List (List Int)) :
    ∀ line ∈ twoColLines cxB l r msb lw rw S, ∀ t ∈ line, t ∈ V := by
  intro line hline
  unfold twoColLines at hline
  obtain ⟨i, _, rfl⟩ := List.mem_map.1 hline
  unfold twoColLine
  exact BridgeEdit.over_append (BridgeEdit.over_append (getD_over (colLines_B_over hsp hhy l hl _ _) i)
    (replicate_sp_over hsp _)) (getD_over (colLines_B_over hsp hhy r hr _ _) i)

theorem block_join_over {S : List (List Int)} (hSV : ∀ s ∈ S, s ∈ V)
    {ls : List (List (List Int))} (hls : ∀ line ∈ ls, ∀ t ∈ line, t ∈ V) (b : Bool) :
    ∀ t ∈ (Block.mk ls S b).join, t ∈ V := by
  intro t h
  unfold Block.join at h
  have htr : ∀ t ∈ (if b = true then S else []), t ∈ V := by
    intro t h
    split at h
    · exact hSV t h
    · cases h
  split at h
  · exact htr t h
  · rcases List.mem_append.1 h with h | h
    · rcases joinWith_mem _ _ t h with h | ⟨line, hl, h⟩
      · exact hSV t h
      · exact hls line hl t h
    · exact htr t h

theorem twoColText_over (hsp : [0x20] ∈ V) (hhy : [0x2D] ∈ V) {toks l r : List (List Int)}
    (ht : ∀ t ∈ toks, t ∈ V) (hl : ∀ t ∈ l, t ∈ V) (hr : ∀ t ∈ r, t ∈ V) (pos gap width : Int)
    (pct : Pct) (o : Options (List Int)) (hSV : ∀ s ∈ (o.withDefaults cxB).lineSep, s ∈ V) :
    ∀ t ∈ twoColText toks pos l r gap width pct o, t ∈ V := by
  unfold twoColText
  split
  · exact ht
  · exact insertToks_over ht
      (block_join_over hSV (twoColLines_over hsp hhy hl hr _ _ _ _) _) pos

variable {g : List Int → List Int} {S : List (List Int)}

theorem colLines_map (hmap : Spec.TokMap tkB tkB g) (h : SepFix V g S) {text : List (List Int)}
    (ht : ∀ t ∈ text, t ∈ V) (w : Int) :
    colLines cxB (text.map g) w S = (colLines cxB text w S).map (List.map g) := by
  unfold colLines
  rw [h.replaceAll' hmap.sp ht]
  exact Spec.wrapLines_map hmap _ _

theorem twoColLines_map (hmap : Spec.TokMap tkB tkB g) (h : SepFix V g S) {l r : List (List Int)}
    (hl : ∀ t ∈ l, t ∈ V) (hr : ∀ t ∈ r, t ∈ V) (msb lw rw : Int) :
    twoColLines cxB (l.map g) (r.map g) msb lw rw S =
      (twoColLines cxB l r msb lw rw S).map (List.map g) := by
  unfold twoColLines
  rw [colLines_map hmap h hl, colLines_map hmap h hr, List.length_map, List.length_map,
    List.map_map]
  apply List.map_congr_left
  intro i _
  unfold twoColLine
  rw [colLines_map hmap h hl, colLines_map hmap h hr]
  simp only [Function.comp, getD_map_nil, List.length_map, List.map_append,
    replicate_sp_map hmap.sp]

theorem twoColText_map (hmap : Spec.TokMap tkB tkB g) (o : Options (List Int))
    (h : SepFix V g (o.withDefaults cxB).lineSep) {toks l r : List (List Int)}
    (hl : ∀ t ∈ l, t ∈ V) (hr : ∀ t ∈ r, t ∈ V) (pos gap width : Int) (pct : Pct) :
    twoColText (toks.map g) pos (l.map g) (r.map g) gap width pct o =
      (twoColText toks pos l r gap width pct o).map g := by
  unfold twoColText
  simp only [List.isEmpty_map]
  split
  · rfl
  · unfold twoColBlock
    rw [twoColLines_map hmap h hl hr, block_join_map h.map_eq, insertToks_map]

end twoCol

/-! ### C.2 definitions table -/

/-- the block `InsertDefinitionsTableOpts` inserts, on cluster tokens (`defs ≠ []`): the
paragraphs, one per definition, joined by the paragraph separator; the lines of a paragraph joined
by the line separator -/
def defTableBlock (defs : List (List (List Int) × List (List Int))) (width : Int)
    (o : Options (List Int)) : List (List Int) :=
  joinWith (o.withDefaults cxB).paraSep (defs.map fun item =>
    joinWith (o.withDefaults cxB).lineSep
      (defParaLines cxB (maxLineLen (defs.map (·.1))) item.1
        (defRc (colLines cxB item.2
          (max (width - ((maxLineLen (defs.map (·.1)) : Int) + 2) - 2 - 2) 2)
          (o.withDefaults cxB).lineSep)))) ++
    (if (o.withDefaults cxB).noTrailing = true then [] else (o.withDefaults cxB).lineSep)

/-- the text after `InsertDefinitionsTableOpts`, on cluster tokens -/
def defTableText (toks : List (List Int)) (pos : Int)
    (defs : List (List (List Int) × List (List Int))) (width : Int) (o : Options (List Int)) :
    List (List Int) :=
  if defs.isEmpty then toks else insertToks toks pos (defTableBlock defs width o)

/-- the substitution applied to terms and definitions -/
def mapDefs (g : List Int → List Int) (defs : List (List (List Int) × List (List Int))) :
    List (List (List Int) × List (List Int)) :=
  defs.map fun d => (d.1.map g, d.2.map g)

theorem insertDefTableOpts_B_closed (ed : Editor (List Int)) (pos : Int)
    (defs : List (List (List Int) × List (List Int))) (width : Int) (o : Options (List Int)) :
    Editor.insertDefTableOpts cxB ed pos defs width o =
      if defs.isEmpty then pure ed else ed.insert cxB pos (defTableBlock defs width o) := by
  cases defs with
  | nil => rfl
  | cons d ds =>
    rw [insertDefTableOpts_triv_text cxB cxB_triv cxB_sp_space ed pos (d :: ds) width o (by simp)]
    rfl

section defTable
variable {V : List (List Int)}

theorem insertDefTableOpts_A_closed (hV : VocabStable V = true) (hsp : [0x20] ∈ V)
    (hspTail : ∀ t ∈ V, (0x20 : Int) ∉ t.tail)
    (toks : List (List Int)) (ht : ∀ t ∈ toks, t ∈ V) (o0 : Options (List Int)) (pos : Int)
    (defs : List (List (List Int) × List (List Int)))
    (hd1 : ∀ d ∈ defs, ∀ t ∈ d.1, t ∈ V) (hd2 : ∀ d ∈ defs, ∀ t ∈ d.2, t ∈ V) (width : Int)
    (o : Options (List Int)) (hS : GoodSep V (o.withDefaults cxB).lineSep)
    (hP : ∀ t ∈ (o.withDefaults cxB).paraSep, t ≠ []) :
    Editor.insertDefTableOpts cxA (.root toks.flatten o0.flat) pos
        (defs.map fun d => (d.1.flatten, d.2.flatten)) width o.flat =
      .ok (.root (defTableText toks pos defs width o).flatten o0.flat) := by
  rw [insertDefTableOpts_bridge hV hsp hspTail toks ht o0 pos defs hd1 hd2 width o hS hP,
    insertDefTableOpts_B_closed]
  unfold defTableText
  split
  · rfl
  · exact insert_root_toks hV toks ht o0 pos _

theorem defParaLines_over (hsp : [0x20] ∈ V) (hhy : [0x2D] ∈ V) (T : Nat)
    {term : List (List Int)} (hterm : ∀ t ∈ term, t ∈ V) {rc : List (List (List Int))}
    (hrc : ∀ line ∈ rc, ∀ t ∈ line, t ∈ V) :
    ∀ line ∈ defParaLines cxB T term rc, ∀ t ∈ line, t ∈ V := by
  have hRC : ∀ line ∈ defRightCol cxB rc, ∀ t ∈ line, t ∈ V := by
    intro line hline
    unfold defRightCol at hline
    obtain ⟨j, _, rfl⟩ := List.mem_map.1 hline
    refine BridgeEdit.over_append ?_ (getD_over hrc j)
    split
    all_goals
      intro t htm
      simp only [List.mem_cons, List.not_mem_nil, or_false] at htm
      rcases htm with htm | htm
      · rw [htm]; first | exact hhy | exact hsp
      · rw [htm]; exact hsp
  intro line hline
  unfold defParaLines at hline
  obtain ⟨i, _, rfl⟩ := List.mem_map.1 hline
  refine BridgeEdit.over_append ?_ (getD_over hRC i)
  split
  · refine BridgeEdit.over_append (BridgeEdit.over_append (BridgeEdit.over_append ?_ hterm)
      (replicate_sp_over hsp _)) ?_
    all_goals
      intro t htm
      simp only [List.mem_cons, List.not_mem_nil, or_false, or_self] at htm
      rw [htm]; exact hsp
  · exact replicate_sp_over hsp _

theorem defRc_over {rc : List (List (List Int))} (hrc : ∀ line ∈ rc, ∀ t ∈ line, t ∈ V) :
    ∀ line ∈ defRc rc, ∀ t ∈ line, t ∈ V := by
  unfold defRc
  split
  · intro line hline t htl
    rw [List.mem_singleton] at hline
    rw [hline] at htl; cases htl
  · exact hrc

theorem joinWith_over {S : List (List Int)} (hSV : ∀ s ∈ S, s ∈ V)
    {ls : List (List (List Int))} (hls : ∀ line ∈ ls, ∀ t ∈ line, t ∈ V) :
    ∀ t ∈ joinWith S ls, t ∈ V := by
  intro t h
  rcases joinWith_mem _ _ t h with h | ⟨line, hl, h⟩
  · exact hSV t h
  · exact hls line hl t h

theorem defTableText_over (hsp : [0x20] ∈ V) (hhy : [0x2D] ∈ V) {toks : List (List Int)}
    (ht : ∀ t ∈ toks, t ∈ V) (pos : Int) {defs : List (List (List Int) × List (List Int))}
    (hd1 : ∀ d ∈ defs, ∀ t ∈ d.1, t ∈ V) (hd2 : ∀ d ∈ defs, ∀ t ∈ d.2, t ∈ V) (width : Int)
    (o : Options (List Int)) (hSV : ∀ s ∈ (o.withDefaults cxB).lineSep, s ∈ V)
    (hPV : ∀ s ∈ (o.withDefaults cxB).paraSep, s ∈ V) :
    ∀ t ∈ defTableText toks pos defs width o, t ∈ V := by
  unfold defTableText
  split
  · exact ht
  · refine insertToks_over ht ?_ pos
    unfold defTableBlock
    refine BridgeEdit.over_append (joinWith_over hPV ?_) ?_
    · intro para hpara
      obtain ⟨item, hitem, rfl⟩ := List.mem_map.1 hpara
      exact joinWith_over hSV (defParaLines_over hsp hhy _ (hd1 item hitem)
        (defRc_over (colLines_B_over hsp hhy item.2 (hd2 item hitem) _ _)))
    · intro t h
      split at h
      · cases h
      · exact hSV t h

variable {g : List Int → List Int}

theorem maxLineLen_map_map (ls : List (List (List Int))) :
    maxLineLen (ls.map (List.map g)) = maxLineLen ls := by
  induction ls with
  | nil => rfl
  | cons l ls ih => rw [List.map_cons, maxLineLen_cons, maxLineLen_cons, ih, List.length_map]

theorem defRc_map (rc : List (List (List Int))) :
    defRc (rc.map (List.map g)) = (defRc rc).map (List.map g) := by
  unfold defRc
  rw [List.isEmpty_map]
  split <;> rfl

theorem defRightCol_map (hmap : Spec.TokMap tkB tkB g) (rc : List (List (List Int))) :
    defRightCol cxB (rc.map (List.map g)) = (defRightCol cxB rc).map (List.map g) := by
  unfold defRightCol
  rw [List.length_map, List.map_map]
  apply List.map_congr_left
  intro i _
  simp only [Function.comp, getD_map_nil, List.map_append]
  congr 1
  have h1 : g cxB.sp = cxB.sp := hmap.sp
  have h2 : g cxB.hy = cxB.hy := hmap.hy
  split <;> simp only [List.map_cons, List.map_nil, h1, h2]

theorem defParaLines_map (hmap : Spec.TokMap tkB tkB g) (T : Nat) (term : List (List Int))
    (rc : List (List (List Int))) :
    defParaLines cxB T (term.map g) (rc.map (List.map g)) =
      (defParaLines cxB T term rc).map (List.map g) := by
  have h1 : g cxB.sp = cxB.sp := hmap.sp
  unfold defParaLines
  rw [defRightCol_map hmap, List.map_map]
  simp only [List.length_map]
  apply List.map_congr_left
  intro i _
  simp only [Function.comp, getD_map_nil, List.map_append]
  congr 1
  split
  · simp only [List.map_append, List.map_cons, List.map_nil, h1, List.map_replicate]
  · rw [replicate_sp_map h1]

theorem defTableText_map (hmap : Spec.TokMap tkB tkB g) (o : Options (List Int))
    (h : SepFix V g (o.withDefaults cxB).lineSep)
    (hfixP : ∀ s ∈ (o.withDefaults cxB).paraSep, g s = s) {toks : List (List Int)}
    {defs : List (List (List Int) × List (List Int))} (hd2 : ∀ d ∈ defs, ∀ t ∈ d.2, t ∈ V)
    (pos width : Int) :
    defTableText (toks.map g) pos (mapDefs g defs) width o =
      (defTableText toks pos defs width o).map g := by
  have hT : maxLineLen ((mapDefs g defs).map (·.1)) = maxLineLen (defs.map (·.1)) := by
    unfold mapDefs
    rw [List.map_map, ← maxLineLen_map_map (g := g) (defs.map (·.1)), List.map_map]
    rfl
  unfold defTableText
  have he : (mapDefs g defs).isEmpty = defs.isEmpty := by unfold mapDefs; rw [List.isEmpty_map]
  rw [he]
  split
  · rfl
  · rw [← insertToks_map]
    congr 1
    unfold defTableBlock
    rw [hT, List.map_append, joinWith_map, map_fixed hfixP]
    congr 1
    · congr 1
      unfold mapDefs
      rw [List.map_map, List.map_map]
      apply List.map_congr_left
      intro item hitem
      simp only [Function.comp]
      rw [joinWith_map, h.map_eq, colLines_map hmap h (hd2 item hitem), defRc_map,
        defParaLines_map hmap]
    · split
      · rfl
      · exact h.map_eq.symm

end defTable

/-! ### C.3 table -/

/-- the block `InsertTableOpts` inserts, on cluster tokens -/
def tableBlock (data : List (List (List (List Int)))) (width : Int) (o : Options (List Int)) :
    List (List Int) :=
  if (!(o.withDefaults cxB).noTrailing) = true ∧
      (!(Block.mk (makeTable cxB data width (o.withDefaults cxB).headers
        (o.withDefaults cxB).borders (o.withDefaults cxB).charset)
        (o.withDefaults cxB).lineSep false).join.isEmpty) = true then
    (Block.mk (makeTable cxB data width (o.withDefaults cxB).headers (o.withDefaults cxB).borders
      (o.withDefaults cxB).charset) (o.withDefaults cxB).lineSep false).join ++
      (o.withDefaults cxB).lineSep
  else (Block.mk (makeTable cxB data width (o.withDefaults cxB).headers
    (o.withDefaults cxB).borders (o.withDefaults cxB).charset) (o.withDefaults cxB).lineSep false).join

/-- the text after `InsertTableOpts`, on cluster tokens -/
def tableText (toks : List (List Int)) (pos : Int) (data : List (List (List (List Int))))
    (width : Int) (o : Options (List Int)) : List (List Int) :=
  insertToks toks pos (tableBlock data width o)

theorem insertTableOpts_B_closed (ed : Editor (List Int)) (pos : Int)
    (data : List (List (List (List Int)))) (width : Int) (o : Options (List Int)) :
    Editor.insertTableOpts cxB ed pos data width o =
      ed.insert cxB pos (tableBlock data width o) := rfl

section table
variable {V : List (List Int)}

theorem insertTableOpts_A_closed (hV : VocabStable V = true)
    (hsp : [0x20] ∈ V) (toks : List (List Int)) (ht : ∀ t ∈ toks, t ∈ V)
    (o0 : Options (List Int)) (pos : Int) (data : List (List (List (List Int))))
    (hdata : ∀ row ∈ data, ∀ cell ∈ row, ∀ t ∈ cell, t ∈ V) (width : Int)
    (o : Options (List Int)) (hL : ∀ t ∈ (o.withDefaults cxB).lineSep, t ≠ [])
    (hc : ∀ t ∈ o.charset, t ∈ V) (hcd : ∀ t ∈ (o.withDefaults cxB).charset, t ∈ V)
    (hup : o.headers = true → ∀ t ∈ V, t.map upperRune ∈ V) :
    Editor.insertTableOpts cxA (.root toks.flatten o0.flat) pos (data.map (List.map List.flatten))
        width o.flat =
      .ok (.root (tableText toks pos data width o).flatten o0.flat) := by
  rw [insertTableOpts_bridge hV hsp toks ht o0 pos data hdata width o hL hc hcd hup,
    insertTableOpts_B_closed]
  exact insert_root_toks hV toks ht o0 pos _

theorem tableText_over (hsp : [0x20] ∈ V) {toks : List (List Int)} (ht : ∀ t ∈ toks, t ∈ V)
    (pos : Int) (data : List (List (List (List Int))))
    (hdata : ∀ row ∈ data, ∀ cell ∈ row, ∀ t ∈ cell, t ∈ V) (width : Int)
    (o : Options (List Int)) (hSV : ∀ s ∈ (o.withDefaults cxB).lineSep, s ∈ V)
    (hcd : ∀ t ∈ (o.withDefaults cxB).charset, t ∈ V)
    (hup : o.headers = true → ∀ t ∈ V, t.map upperRune ∈ V) :
    ∀ t ∈ tableText toks pos data width o, t ∈ V := by
  have hupB : (o.withDefaults cxB).headers = true → ∀ t ∈ V, t.map upperRune ∈ V := by
    rw [(withDefaults_fields cxB o).2.2.2.2.2.2.2]; exact hup
  have hover := makeTable_B_over hsp data hdata width (o.withDefaults cxB).headers
    (o.withDefaults cxB).borders hupB (o.withDefaults cxB).charset hcd
    (Nat.le_of_eq (charset_B_length o).symm)
  refine insertToks_over ht ?_ pos
  unfold tableBlock
  split
  · exact BridgeEdit.over_append (block_join_over hSV hover false) hSV
  · exact block_join_over hSV hover false

variable {g : List Int → List Int}

theorem getD_map_gen {β γ : Type} (f : β → γ) (ls : List β) (i : Nat) (d : β) :
    (ls.map f).getD i (f d) = f (ls.getD i d) := by
  rw [List.getD_eq_getElem?_getD, List.getD_eq_getElem?_getD, List.getElem?_map]
  cases ls[i]? <;> rfl

theorem foldl_append_map {ι : Type} (fA fB : ι → List (List Int)) :
    ∀ (l : List ι), (∀ i ∈ l, fA i = (fB i).map g) → ∀ (sA sB : List (List Int)),
      sA = sB.map g →
      l.foldl (fun line i => line ++ fA i) sA = (l.foldl (fun line i => line ++ fB i) sB).map g
  | [], _, _, _, hs => hs
  | i :: l, h, sA, sB, hs => by
    rw [List.foldl_cons, List.foldl_cons]
    refine foldl_append_map fA fB l (fun j hj => h j (List.mem_cons_of_mem _ hj)) _ _ ?_
    rw [List.map_append, hs, h i List.mem_cons_self]

theorem alignLeft_B_map (hmap : Spec.TokMap tkB tkB g) (l : List (List Int)) (w : Int) :
    alignLeft cxB (l.map g) w = (alignLeft cxB l w).map g := by
  rw [alignLeft_triv cxB cxB_triv, alignLeft_triv cxB cxB_triv]
  exact Spec.alignLeft_map hmap w l

theorem alignCenter_B_map (hmap : Spec.TokMap tkB tkB g) (l : List (List Int)) (w : Int) :
    alignCenter cxB (l.map g) w = (alignCenter cxB l w).map g := by
  rw [alignCenter_triv cxB cxB_triv, alignCenter_triv cxB cxB_triv]
  exact Spec.alignCenter_map hmap w l

theorem tableRow_B_map (hmap : Spec.TokMap tkB tkB g) (row : List (List (List Int)))
    (cws : List Int) (isHeader border : Bool)
    (hup : isHeader = true → ∀ cell ∈ row, ∀ t ∈ cell, g (cxB.upper t) = cxB.upper (g t))
    (chars : TableChars (List Int)) (hvert : chars.vert.map g = chars.vert) :
    tableRow cxB (row.map (List.map g)) cws isHeader border chars =
      (tableRow cxB row cws isHeader border chars).map g := by
  have hsp : g cxB.sp = cxB.sp := hmap.sp
  unfold tableRow
  simp only []
  apply foldl_append_map
  · intro col _
    simp only [getD_map_nil]
    cases isHeader with
    | false =>
      cases border with
      | false => exact alignLeft_B_map hmap _ _
      | true =>
        simp only [↓reduceIte, Bool.false_eq_true, List.map_append, alignLeft_B_map hmap, hvert,
          List.map_cons, List.map_nil, hsp]
    | true =>
      have hU : ((row.getD col []).map g).map cxB.upper = ((row.getD col []).map cxB.upper).map g := by
        rw [List.map_map, List.map_map]
        apply List.map_congr_left
        intro t ht
        rcases getD_mem_or_nil row col with h | h
        · exact (hup rfl _ h t ht).symm
        · rw [h] at ht; cases ht
      cases border with
      | false =>
        simp only [↓reduceIte, Bool.false_eq_true, hU]
        exact alignLeft_B_map hmap _ _
      | true =>
        simp only [↓reduceIte, hU, List.map_append, alignCenter_B_map hmap, hvert]
  · cases border with
    | false => rfl
    | true => exact hvert.symm

theorem tableHorzBar_fixed (cws : List Int) (chars : TableChars (List Int))
    (hcorner : ∀ t ∈ chars.corner, g t = t) (hhorz : ∀ t ∈ chars.horz, g t = t) :
    (tableHorzBar cws chars).map g = tableHorzBar cws chars := by
  apply map_fixed
  unfold tableHorzBar
  simp only [List.append_assoc]
  apply foldl_append_over (fun t => g t = t)
  · exact hcorner
  · intro w _ t ht
    rcases List.mem_append.1 ht with h | h
    · exact hhorz t (gRepeat_mem _ _ t h)
    · exact hcorner t h

theorem tableRowLines_B_map (hmap : Spec.TokMap tkB tkB g) (data : List (List (List (List Int))))
    (cws : List Int) (width : Int) (header border : Bool)
    (hup : header = true → ∀ row ∈ data, ∀ cell ∈ row, ∀ t ∈ cell,
      g (cxB.upper t) = cxB.upper (g t))
    (chars : TableChars (List Int)) (hcorner : ∀ t ∈ chars.corner, g t = t)
    (hvert : ∀ t ∈ chars.vert, g t = t) (hhorz : ∀ t ∈ chars.horz, g t = t) (i : Nat) :
    tableRowLines cxB (data.map (List.map (List.map g))) cws width header border chars i =
      (tableRowLines cxB data cws width header border chars i).map (List.map g) := by
  have hgetD : (data.map (List.map (List.map g))).getD i [] =
      (data.getD i []).map (List.map g) := getD_map_gen (List.map (List.map g)) data i []
  have hrowmem : ∀ cell ∈ data.getD i [], ∃ row ∈ data, cell ∈ row := by
    intro cell hcell
    rcases getD_mem_or_nil data i with h | h
    · exact ⟨_, h, hcell⟩
    · rw [h] at hcell; cases hcell
  have hbar : ([gRepeat chars.horz width] : List (List (List Int))).map (List.map g) =
      [gRepeat chars.horz width] := by
    rw [List.map_cons, List.map_nil, map_fixed (fun t ht => hhorz t (gRepeat_mem _ _ t ht))]
  unfold tableRowLines
  rw [hgetD, List.length_map, tableRow_B_map hmap (data.getD i []) cws _ border (fun hh cell hcell => by
      obtain ⟨row, hr, hcr⟩ := hrowmem cell hcell
      refine hup ?_ row hr cell hcr
      cases header
      · simp at hh
      · rfl) chars (map_fixed hvert), List.map_append]
  congr 1
  split
  · split
    · split
      · rw [List.map_cons, List.map_nil, tableHorzBar_fixed cws chars hcorner hhorz]
      · rfl
    · exact hbar.symm
  · rfl

theorem buildTable_B_map (hmap : Spec.TokMap tkB tkB g) (data : List (List (List (List Int))))
    (cws : List Int) (width : Int) (header border : Bool)
    (hup : header = true → ∀ row ∈ data, ∀ cell ∈ row, ∀ t ∈ cell,
      g (cxB.upper t) = cxB.upper (g t))
    (chars : TableChars (List Int)) (hcorner : ∀ t ∈ chars.corner, g t = t)
    (hvert : ∀ t ∈ chars.vert, g t = t) (hhorz : ∀ t ∈ chars.horz, g t = t) :
    buildTable cxB (data.map (List.map (List.map g))) cws width header border chars =
      (buildTable cxB data cws width header border chars).map (List.map g) := by
  have hb : (if border = true then [tableHorzBar cws chars] else []) =
      (if border = true then [tableHorzBar cws chars] else []).map (List.map g) := by
    split
    · rw [List.map_cons, List.map_nil, tableHorzBar_fixed cws chars hcorner hhorz]
    · rfl
  rw [buildTable_eq, buildTable_eq, List.length_map, List.map_append, List.map_append,
    List.map_flatten, List.map_map, ← hb]
  congr 2
  congr 1
  apply List.map_congr_left
  intro i _
  exact tableRowLines_B_map hmap data cws width header border hup chars hcorner hvert hhorz i

theorem parseTableCharSet_B_fixed (cs : List (List Int)) (hcs : ∀ t ∈ cs, g t = t)
    (h3 : 3 ≤ cs.length) :
    (∀ t ∈ (parseTableCharSet cxB cs).corner, g t = t) ∧
    (∀ t ∈ (parseTableCharSet cxB cs).vert, g t = t) ∧
    (∀ t ∈ (parseTableCharSet cxB cs).horz, g t = t) := by
  have hlenB : gLen cxB cs = cs.length := gLen_triv cxB cxB_triv cs
  rw [parseTableCharSet_of_ge cxB _ (by omega)]
  have hcs' : ∀ t ∈ (if (gLen cxB cs : Int) > 3 then gSub cxB cs 0 3 else cs), g t = t := by
    intro t ht
    split at ht
    · exact hcs t (gSub_B_mem cs 0 3 t ht)
    · exact hcs t ht
  exact ⟨fun t ht => hcs' t (gSub_B_mem _ 0 1 t ht), fun t ht => hcs' t (gSub_B_mem _ 1 2 t ht),
    fun t ht => hcs' t (gSub_B_mem _ 2 3 t ht)⟩

/-- **`manip.MakeTable` on clusters commutes with the substitution**: the character set is fixed by
`g`, and with a header row `g` commutes with upper-casing on the tokens of the cells -/
theorem makeTable_B_map (hmap : Spec.TokMap tkB tkB g) (data : List (List (List (List Int))))
    (width : Int) (header border : Bool)
    (hup : header = true → ∀ row ∈ data, ∀ cell ∈ row, ∀ t ∈ cell,
      g (cxB.upper t) = cxB.upper (g t))
    (cs : List (List Int)) (hcs : ∀ t ∈ cs, g t = t) (h3 : 3 ≤ cs.length) :
    makeTable cxB (data.map (List.map (List.map g))) width header border cs =
      (makeTable cxB data width header border cs).map (List.map g) := by
  obtain ⟨hco, hve, hho⟩ := parseTableCharSet_B_fixed cs hcs h3
  have hcw : ∀ col : Nat,
      data.foldl (fun (m : Int) row =>
        if (gLen cxB ((row.map (List.map g)).getD col []) : Int) ≥ m then
          (gLen cxB ((row.map (List.map g)).getD col []) : Int) else m) 0 =
      data.foldl (fun (m : Int) row =>
        if (gLen cxB (row.getD col []) : Int) ≥ m then (gLen cxB (row.getD col []) : Int) else m) 0 := by
    intro col
    apply foldl_congr_mem
    intro m row _
    rw [getD_map_nil, gLen_triv cxB cxB_triv, gLen_triv cxB cxB_triv, List.length_map]
  simp only [makeTable_eq_core]
  unfold makeTableCore
  simp only [List.isEmpty_map, List.foldl_map, List.length_map, hcw]
  refine ite_map_eq _ _ _ _ _ _ rfl (ite_map_eq _ _ _ _ _ _ rfl (ite_map_eq _ _ _ _ _ _ ?_ ?_))
  · exact buildTable_B_map hmap data _ _ header border hup _ hco hve hho
  · exact buildTable_B_map hmap data _ _ header border hup _ hco hve hho

theorem tableText_map (hmap : Spec.TokMap tkB tkB g) (o : Options (List Int))
    (hfix : ∀ s ∈ (o.withDefaults cxB).lineSep, g s = s)
    (hfixC : ∀ t ∈ (o.withDefaults cxB).charset, g t = t)
    {toks : List (List Int)} (data : List (List (List (List Int))))
    (hup : o.headers = true → ∀ row ∈ data, ∀ cell ∈ row, ∀ t ∈ cell,
      g (t.map upperRune) = (g t).map upperRune) (pos width : Int) :
    tableText (toks.map g) pos (data.map (List.map (List.map g))) width o =
      (tableText toks pos data width o).map g := by
  have hupB : (o.withDefaults cxB).headers = true → ∀ row ∈ data, ∀ cell ∈ row, ∀ t ∈ cell,
      g (cxB.upper t) = cxB.upper (g t) := by
    rw [(withDefaults_fields cxB o).2.2.2.2.2.2.2]; exact hup
  have hS : (o.withDefaults cxB).lineSep.map g = (o.withDefaults cxB).lineSep := map_fixed hfix
  unfold tableText
  rw [← insertToks_map]
  congr 1
  unfold tableBlock
  rw [makeTable_B_map hmap data width _ _ hupB _ hfixC (Nat.le_of_eq (charset_B_length o).symm),
    block_join_map hS]
  generalize (Block.mk (makeTable cxB data width (o.withDefaults cxB).headers
    (o.withDefaults cxB).borders (o.withDefaults cxB).charset) (o.withDefaults cxB).lineSep
    false).join = J
  have hJ : (J.map g).isEmpty = J.isEmpty := by cases J <;> rfl
  rw [hJ]
  split
  · rw [List.map_append, hS]
  · rfl

end table

/-- both cluster lists re-segment to themselves -/
theorem seg_pair {V V' : List (List Int)} (hV : VocabStable V = true)
    (hV' : VocabStable V' = true) {g : List Int → List Int} (hg : ∀ t ∈ V, g t ∈ V')
    {r : List (List Int)} (hov : ∀ t ∈ r, t ∈ V) :
    clusters cxA r.flatten = r ∧ clusters cxA (r.map g).flatten = r.map g :=
  ⟨clusters_of hV hov, clusters_of hV' (over_map hg hov)⟩

end BridgeNatural2

open BridgeNatural BridgeNatural2 BridgeWrap BridgeOps BridgeEditorOps OpsStructure BridgeEdit

/-! ### A: the statements

`ed`, `ed'` are ANY two editors (roots or sub-editors, any options) whose texts are the code points
of `toks` and of `toks.map g`; the `…_natural` forms below specialise to root editors. -/

section statementsA
variable {V V' : List (List Int)}

/-- **A1 (Chars).** `Chars(s, e)` (any integers, `End`, negative positions) on a text and on its
substituted text select the SAME cluster range `[a, b)`; the selected text of the second is the
substitution of the selected text of the first; each sub-editor records the byte range that this
cluster range has in its own parent text. -/
theorem chars_natural_gen (hV : VocabStable V = true) (hV' : VocabStable V' = true)
    (g : List Int → List Int) (hg : ∀ t ∈ V, g t ∈ V')
    (toks : List (List Int)) (ht : ∀ t ∈ toks, t ∈ V) (ed ed' : Editor Int)
    (hed : ed.text = toks.flatten) (hed' : ed'.text = (toks.map g).flatten) (s e : Int) :
    ∃ (sel : List (List Int)) (a b : Nat),
      ed.chars cxA s e = .ok (.sub sel.flatten ed.opts ed
        (byteLen cxA (toks.take a).flatten) (byteLen cxA (toks.take b).flatten)) ∧
      ed'.chars cxA s e = .ok (.sub (sel.map g).flatten ed'.opts ed'
        (byteLen cxA ((toks.map g).take a).flatten) (byteLen cxA ((toks.map g).take b).flatten)) ∧
      clusters cxA sel.flatten = sel ∧ clusters cxA (sel.map g).flatten = sel.map g ∧
      a ≤ b ∧ b ≤ toks.length ∧ sel = (toks.drop a).take (b - a) ∧
      (a, b) = selRange toks.length s e := by
  have h1 := chars_A_closed hV ed toks hed ht s e
  have h2 := chars_A_closed hV' ed' (toks.map g) hed' (over_map hg ht) s e
  rw [charsToks_map, List.length_map] at h2
  obtain ⟨c1, c2⟩ := seg_pair hV hV' hg (charsToks_over ht s e)
  exact ⟨_, _, _, h1, h2, c1, c2, (selRange_spec _ s e).1, (selRange_spec _ s e).2.1, rfl, rfl⟩

/-- A1 (CharsFrom): `CharsFrom(s)` passes the BYTE length of the text as end position — a different
number for the two texts — but selects the same clusters `[a, n)` in both -/
theorem charsFrom_natural_gen (hV : VocabStable V = true) (hV' : VocabStable V' = true)
    (g : List Int → List Int) (hg : ∀ t ∈ V, g t ∈ V')
    (toks : List (List Int)) (ht : ∀ t ∈ toks, t ∈ V) (ed ed' : Editor Int)
    (hed : ed.text = toks.flatten) (hed' : ed'.text = (toks.map g).flatten) (s : Int) :
    ∃ (sel : List (List Int)) (a b : Nat),
      ed.charsFrom cxA s = .ok (.sub sel.flatten ed.opts ed
        (byteLen cxA (toks.take a).flatten) (byteLen cxA (toks.take b).flatten)) ∧
      ed'.charsFrom cxA s = .ok (.sub (sel.map g).flatten ed'.opts ed'
        (byteLen cxA ((toks.map g).take a).flatten) (byteLen cxA ((toks.map g).take b).flatten)) ∧
      clusters cxA sel.flatten = sel ∧ clusters cxA (sel.map g).flatten = sel.map g ∧
      a ≤ b ∧ b = toks.length ∧ sel = toks.drop a ∧ a = posOf toks.length s := by
  obtain ⟨sel, a, b, h1, h2, c1, c2, hab, hb, hsel, hr⟩ :=
    chars_natural_gen hV hV' g hg toks ht ed ed' hed hed' s Gen.endSentinel
  rw [← Editor.charsFrom_eq_chars_end cxA_WF] at h1 h2
  have hr' : (a, b) = (posOf toks.length s, toks.length) := by
    rw [hr]
    unfold selRange posOf
    rw [normRange_to_end _ _ (Int.natCast_nonneg _)]
    simp only [Int.toNat_natCast]
  have ha : a = posOf toks.length s := congrArg Prod.fst hr'
  have hb' : b = toks.length := congrArg Prod.snd hr'
  refine ⟨sel, a, b, h1, h2, c1, c2, hab, hb', ?_, ha⟩
  rw [hsel, hb']
  exact List.take_of_length_le (by rw [List.length_drop]; exact Nat.le_refl _)

/-- A1 (CharsTo): the clusters `[0, b)` -/
theorem charsTo_natural_gen (hV : VocabStable V = true) (hV' : VocabStable V' = true)
    (g : List Int → List Int) (hg : ∀ t ∈ V, g t ∈ V')
    (toks : List (List Int)) (ht : ∀ t ∈ toks, t ∈ V) (ed ed' : Editor Int)
    (hed : ed.text = toks.flatten) (hed' : ed'.text = (toks.map g).flatten) (e : Int) :
    ∃ (sel : List (List Int)) (b : Nat),
      ed.charsTo cxA e = .ok (.sub sel.flatten ed.opts ed (0 : Nat)
        (byteLen cxA (toks.take b).flatten)) ∧
      ed'.charsTo cxA e = .ok (.sub (sel.map g).flatten ed'.opts ed' (0 : Nat)
        (byteLen cxA ((toks.map g).take b).flatten)) ∧
      clusters cxA sel.flatten = sel ∧ clusters cxA (sel.map g).flatten = sel.map g ∧
      b ≤ toks.length ∧ sel = toks.take b ∧ b = posOf toks.length e := by
  obtain ⟨sel, a, b, h1, h2, c1, c2, hab, hb, hsel, hr⟩ :=
    chars_natural_gen hV hV' g hg toks ht ed ed' hed hed' 0 e
  have hr' : (a, b) = (0, posOf toks.length e) := by
    rw [hr]
    unfold selRange posOf
    rw [normRange_zero _ _ (Int.natCast_nonneg _)]
    rfl
  have ha : a = 0 := congrArg Prod.fst hr'
  have hb' : b = posOf toks.length e := congrArg Prod.snd hr'
  subst ha
  refine ⟨sel, b, h1, h2, c1, c2, hb, ?_, hb'⟩
  rw [hsel]
  rfl

/-- **A2 (Insert).** every integer position (also `End`, negative, out of range); the inserted
text is substituted as well -/
theorem insert_natural_gen (hV : VocabStable V = true) (hV' : VocabStable V' = true)
    (g : List Int → List Int) (hg : ∀ t ∈ V, g t ∈ V')
    (toks : List (List Int)) (ht : ∀ t ∈ toks, t ∈ V) (ed ed' : Editor Int)
    (hed : ed.text = toks.flatten) (hed' : ed'.text = (toks.map g).flatten)
    (p : Int) (ins : List (List Int)) (hi : ∀ t ∈ ins, t ∈ V) :
    ∃ r : List (List Int),
      ed.insert cxA p ins.flatten = .ok (ed.withText r.flatten) ∧
      ed'.insert cxA p (ins.map g).flatten = .ok (ed'.withText (r.map g).flatten) ∧
      clusters cxA r.flatten = r ∧ clusters cxA (r.map g).flatten = r.map g ∧
      r = insertToks toks p ins := by
  have h2 := insert_A_closed' hV' ed' (toks.map g) hed' (over_map hg ht) p (ins.map g)
  rw [insertToks_map] at h2
  obtain ⟨c1, c2⟩ := seg_pair hV hV' hg (insertToks_over ht hi p)
  exact ⟨_, insert_A_closed' hV ed toks hed ht p ins, h2, c1, c2, rfl⟩

/-- **A3 (Delete).** every integer range -/
theorem delete_natural_gen (hV : VocabStable V = true) (hV' : VocabStable V' = true)
    (g : List Int → List Int) (hg : ∀ t ∈ V, g t ∈ V')
    (toks : List (List Int)) (ht : ∀ t ∈ toks, t ∈ V) (ed ed' : Editor Int)
    (hed : ed.text = toks.flatten) (hed' : ed'.text = (toks.map g).flatten) (s e : Int) :
    ∃ r : List (List Int),
      ed.delete cxA s e = .ok (ed.withText r.flatten) ∧
      ed'.delete cxA s e = .ok (ed'.withText (r.map g).flatten) ∧
      clusters cxA r.flatten = r ∧ clusters cxA (r.map g).flatten = r.map g ∧
      r = deleteToks toks s e := by
  have h2 := delete_A_closed hV' ed' (toks.map g) hed' (over_map hg ht) s e
  rw [deleteToks_map] at h2
  obtain ⟨c1, c2⟩ := seg_pair hV hV' hg (deleteToks_over ht s e)
  exact ⟨_, delete_A_closed hV ed toks hed ht s e, h2, c1, c2, rfl⟩

/-- **A4 (Overtype).** every integer position; NO bound on the lengths: Go's 64-bit wrap-around of
`pos + len(text)` happens at the same cluster count on both sides -/
theorem overtype_natural_gen (hV : VocabStable V = true) (hV' : VocabStable V' = true)
    (g : List Int → List Int) (hg : ∀ t ∈ V, g t ∈ V')
    (toks : List (List Int)) (ht : ∀ t ∈ toks, t ∈ V) (ed ed' : Editor Int)
    (hed : ed.text = toks.flatten) (hed' : ed'.text = (toks.map g).flatten)
    (p : Int) (ins : List (List Int)) (hi : ∀ t ∈ ins, t ∈ V) :
    ∃ r : List (List Int),
      ed.overtype cxA p ins.flatten = .ok (ed.withText r.flatten) ∧
      ed'.overtype cxA p (ins.map g).flatten = .ok (ed'.withText (r.map g).flatten) ∧
      clusters cxA r.flatten = r ∧ clusters cxA (r.map g).flatten = r.map g ∧
      r = overtypeToks toks p ins := by
  have h2 := overtype_A_closed hV' ed' (toks.map g) hed' (over_map hg ht) p (ins.map g)
    (over_map hg hi)
  rw [overtypeToks_map] at h2
  obtain ⟨c1, c2⟩ := seg_pair hV hV' hg (overtypeToks_over ht hi p)
  exact ⟨_, overtype_A_closed hV ed toks hed ht p ins hi, h2, c1, c2, rfl⟩

/-! #### root editors (the form of `BridgeNatural.lean`) -/

theorem chars_natural (hV : VocabStable V = true) (hV' : VocabStable V' = true)
    (g : List Int → List Int) (hg : ∀ t ∈ V, g t ∈ V')
    (toks : List (List Int)) (ht : ∀ t ∈ toks, t ∈ V) (o0 o0' : Options Int) (s e : Int) :
    ∃ (sel : List (List Int)) (a b : Nat),
      Editor.chars cxA (.root toks.flatten o0) s e =
        .ok (.sub sel.flatten o0 (.root toks.flatten o0)
          (byteLen cxA (toks.take a).flatten) (byteLen cxA (toks.take b).flatten)) ∧
      Editor.chars cxA (.root (toks.map g).flatten o0') s e =
        .ok (.sub (sel.map g).flatten o0' (.root (toks.map g).flatten o0')
          (byteLen cxA ((toks.map g).take a).flatten)
          (byteLen cxA ((toks.map g).take b).flatten)) ∧
      clusters cxA sel.flatten = sel ∧ clusters cxA (sel.map g).flatten = sel.map g ∧
      a ≤ b ∧ b ≤ toks.length ∧ sel = (toks.drop a).take (b - a) ∧
      (a, b) = selRange toks.length s e :=
  chars_natural_gen hV hV' g hg toks ht (.root toks.flatten o0) (.root (toks.map g).flatten o0')
    rfl rfl s e

theorem charsFrom_natural (hV : VocabStable V = true) (hV' : VocabStable V' = true)
    (g : List Int → List Int) (hg : ∀ t ∈ V, g t ∈ V')
    (toks : List (List Int)) (ht : ∀ t ∈ toks, t ∈ V) (o0 o0' : Options Int) (s : Int) :
    ∃ (sel : List (List Int)) (a b : Nat),
      Editor.charsFrom cxA (.root toks.flatten o0) s =
        .ok (.sub sel.flatten o0 (.root toks.flatten o0)
          (byteLen cxA (toks.take a).flatten) (byteLen cxA (toks.take b).flatten)) ∧
      Editor.charsFrom cxA (.root (toks.map g).flatten o0') s =
        .ok (.sub (sel.map g).flatten o0' (.root (toks.map g).flatten o0')
          (byteLen cxA ((toks.map g).take a).flatten)
          (byteLen cxA ((toks.map g).take b).flatten)) ∧
      clusters cxA sel.flatten = sel ∧ clusters cxA (sel.map g).flatten = sel.map g ∧
      a ≤ b ∧ b = toks.length ∧ sel = toks.drop a ∧ a = posOf toks.length s :=
  charsFrom_natural_gen hV hV' g hg toks ht (.root toks.flatten o0)
    (.root (toks.map g).flatten o0') rfl rfl s

theorem charsTo_natural (hV : VocabStable V = true) (hV' : VocabStable V' = true)
    (g : List Int → List Int) (hg : ∀ t ∈ V, g t ∈ V')
    (toks : List (List Int)) (ht : ∀ t ∈ toks, t ∈ V) (o0 o0' : Options Int) (e : Int) :
    ∃ (sel : List (List Int)) (b : Nat),
      Editor.charsTo cxA (.root toks.flatten o0) e =
        .ok (.sub sel.flatten o0 (.root toks.flatten o0) (0 : Nat)
          (byteLen cxA (toks.take b).flatten)) ∧
      Editor.charsTo cxA (.root (toks.map g).flatten o0') e =
        .ok (.sub (sel.map g).flatten o0' (.root (toks.map g).flatten o0') (0 : Nat)
          (byteLen cxA ((toks.map g).take b).flatten)) ∧
      clusters cxA sel.flatten = sel ∧ clusters cxA (sel.map g).flatten = sel.map g ∧
      b ≤ toks.length ∧ sel = toks.take b ∧ b = posOf toks.length e :=
  charsTo_natural_gen hV hV' g hg toks ht (.root toks.flatten o0)
    (.root (toks.map g).flatten o0') rfl rfl e

theorem insert_natural (hV : VocabStable V = true) (hV' : VocabStable V' = true)
    (g : List Int → List Int) (hg : ∀ t ∈ V, g t ∈ V')
    (toks : List (List Int)) (ht : ∀ t ∈ toks, t ∈ V) (o0 o0' : Options Int)
    (p : Int) (ins : List (List Int)) (hi : ∀ t ∈ ins, t ∈ V) :
    ∃ r : List (List Int),
      Editor.insert cxA (.root toks.flatten o0) p ins.flatten = .ok (.root r.flatten o0) ∧
      Editor.insert cxA (.root (toks.map g).flatten o0') p (ins.map g).flatten =
        .ok (.root (r.map g).flatten o0') ∧
      clusters cxA r.flatten = r ∧ clusters cxA (r.map g).flatten = r.map g ∧
      r = insertToks toks p ins :=
  insert_natural_gen hV hV' g hg toks ht (.root toks.flatten o0) (.root (toks.map g).flatten o0')
    rfl rfl p ins hi

theorem delete_natural (hV : VocabStable V = true) (hV' : VocabStable V' = true)
    (g : List Int → List Int) (hg : ∀ t ∈ V, g t ∈ V')
    (toks : List (List Int)) (ht : ∀ t ∈ toks, t ∈ V) (o0 o0' : Options Int) (s e : Int) :
    ∃ r : List (List Int),
      Editor.delete cxA (.root toks.flatten o0) s e = .ok (.root r.flatten o0) ∧
      Editor.delete cxA (.root (toks.map g).flatten o0') s e = .ok (.root (r.map g).flatten o0') ∧
      clusters cxA r.flatten = r ∧ clusters cxA (r.map g).flatten = r.map g ∧
      r = deleteToks toks s e :=
  delete_natural_gen hV hV' g hg toks ht (.root toks.flatten o0) (.root (toks.map g).flatten o0')
    rfl rfl s e

theorem overtype_natural (hV : VocabStable V = true) (hV' : VocabStable V' = true)
    (g : List Int → List Int) (hg : ∀ t ∈ V, g t ∈ V')
    (toks : List (List Int)) (ht : ∀ t ∈ toks, t ∈ V) (o0 o0' : Options Int)
    (p : Int) (ins : List (List Int)) (hi : ∀ t ∈ ins, t ∈ V) :
    ∃ r : List (List Int),
      Editor.overtype cxA (.root toks.flatten o0) p ins.flatten = .ok (.root r.flatten o0) ∧
      Editor.overtype cxA (.root (toks.map g).flatten o0') p (ins.map g).flatten =
        .ok (.root (r.map g).flatten o0') ∧
      clusters cxA r.flatten = r ∧ clusters cxA (r.map g).flatten = r.map g ∧
      r = overtypeToks toks p ins :=
  overtype_natural_gen hV hV' g hg toks ht (.root toks.flatten o0)
    (.root (toks.map g).flatten o0') rfl rfl p ins hi

end statementsA

/-! ### B: the statements -/

section statementsB
variable {V V' : List (List Int)}

/-- **B1 (JustifyOpts).** non-paragraph mode, `JustifyLastLine` on or off (any `o.justifyLast`),
every width.  Hypotheses as for `wrapOpts_natural` (no hyphen is produced, so `hghy` is only used
through the token-map structure). -/
theorem justifyOpts_natural (hV : VocabStable V = true) (hsp : [0x20] ∈ V)
    (hspTail : ∀ t ∈ V, (0x20 : Int) ∉ t.tail)
    (hV' : VocabStable V' = true) (hsp' : [0x20] ∈ V') (hspTail' : ∀ t ∈ V', (0x20 : Int) ∉ t.tail)
    (g : List Int → List Int) (hg : ∀ t ∈ V, g t ∈ V')
    (hws : ∀ t, cxB.isSpace (g t) = cxB.isSpace t) (hgsp : g [0x20] = [0x20])
    (hghy : g [0x2D] = [0x2D])
    (toks : List (List Int)) (ht : ∀ t ∈ toks, t ∈ V) (width : Int) (o0 o : Options (List Int))
    (hpp : o.preservePara = false)
    (hS : GoodSep V (o.withDefaults cxB).lineSep) (hS' : GoodSep V' (o.withDefaults cxB).lineSep)
    (hfix : ∀ s ∈ (o.withDefaults cxB).lineSep, g s = s)
    (hinv : ∀ t ∈ V, g t ∈ (o.withDefaults cxB).lineSep → t ∈ (o.withDefaults cxB).lineSep) :
    ∃ r : List (List Int),
      Editor.justifyOpts cxA (.root toks.flatten o0.flat) width o.flat =
        .ok (.root r.flatten o0.flat) ∧
      Editor.justifyOpts cxA (.root (toks.map g).flatten o0.flat) width o.flat =
        .ok (.root (r.map g).flatten o0.flat) := by
  have hmap : Spec.TokMap tkB tkB g := ⟨hws, hgsp, hghy⟩
  refine ⟨_, justifyOpts_A_closed hV hsp hspTail toks ht width o0 o hpp hS, ?_⟩
  rw [← justifyText_map hmap o0 o ⟨hfix, hinv⟩ ht]
  exact justifyOpts_A_closed hV' hsp' hspTail' _ (over_map hg ht) width o0 o hpp hS'

/-- B1, strengthened: `r` and `r.map g` ARE the cluster lists of the two results (real UAX #29
segmentation), and `r` is the closed form `justifyText`.  Needs the separator tokens in `V`. -/
theorem justifyOpts_natural_clusters (hV : VocabStable V = true) (hsp : [0x20] ∈ V)
    (hspTail : ∀ t ∈ V, (0x20 : Int) ∉ t.tail)
    (hV' : VocabStable V' = true) (hsp' : [0x20] ∈ V') (hspTail' : ∀ t ∈ V', (0x20 : Int) ∉ t.tail)
    (g : List Int → List Int) (hg : ∀ t ∈ V, g t ∈ V')
    (hws : ∀ t, cxB.isSpace (g t) = cxB.isSpace t) (hgsp : g [0x20] = [0x20])
    (hghy : g [0x2D] = [0x2D])
    (toks : List (List Int)) (ht : ∀ t ∈ toks, t ∈ V) (width : Int) (o0 o : Options (List Int))
    (hpp : o.preservePara = false)
    (hS : GoodSep V (o.withDefaults cxB).lineSep) (hS' : GoodSep V' (o.withDefaults cxB).lineSep)
    (hSV : ∀ s ∈ (o.withDefaults cxB).lineSep, s ∈ V)
    (hfix : ∀ s ∈ (o.withDefaults cxB).lineSep, g s = s)
    (hinv : ∀ t ∈ V, g t ∈ (o.withDefaults cxB).lineSep → t ∈ (o.withDefaults cxB).lineSep) :
    ∃ r : List (List Int),
      Editor.justifyOpts cxA (.root toks.flatten o0.flat) width o.flat =
        .ok (.root r.flatten o0.flat) ∧
      Editor.justifyOpts cxA (.root (toks.map g).flatten o0.flat) width o.flat =
        .ok (.root (r.map g).flatten o0.flat) ∧
      clusters cxA r.flatten = r ∧ clusters cxA (r.map g).flatten = r.map g ∧
      r = justifyText (.root toks o0) width o := by
  have hmap : Spec.TokMap tkB tkB g := ⟨hws, hgsp, hghy⟩
  have h2 := justifyOpts_A_closed hV' hsp' hspTail' _ (over_map hg ht) width o0 o hpp hS'
  rw [justifyText_map hmap o0 o ⟨hfix, hinv⟩ ht] at h2
  obtain ⟨c1, c2⟩ := seg_pair hV hV' hg (justifyText_over hsp (.root toks o0) ht width o hSV)
  exact ⟨_, justifyOpts_A_closed hV hsp hspTail toks ht width o0 o hpp hS, h2, c1, c2, rfl⟩

/-- **B2 (IndentOpts).** non-paragraph mode, every level (`< 1`: nothing happens on either side).
The indent string is part of the OPTIONS, which are the same in both calls; so `g` has to fix its
tokens (`hfixI`), as it fixes those of the line separator.  No whitespace hypothesis on `g`. -/
theorem indentOpts_natural (hV : VocabStable V = true) (hV' : VocabStable V' = true)
    (g : List Int → List Int) (hg : ∀ t ∈ V, g t ∈ V')
    (toks : List (List Int)) (ht : ∀ t ∈ toks, t ∈ V) (level : Int) (o0 o : Options (List Int))
    (hpp : o.preservePara = false)
    (hS : GoodSep V (o.withDefaults cxB).lineSep) (hS' : GoodSep V' (o.withDefaults cxB).lineSep)
    (hfix : ∀ s ∈ (o.withDefaults cxB).lineSep, g s = s)
    (hinv : ∀ t ∈ V, g t ∈ (o.withDefaults cxB).lineSep → t ∈ (o.withDefaults cxB).lineSep)
    (hI : ∀ s ∈ (o.withDefaults cxB).indentStr, s ≠ [])
    (hfixI : ∀ s ∈ (o.withDefaults cxB).indentStr, g s = s) :
    ∃ r : List (List Int),
      Editor.indentOpts cxA (.root toks.flatten o0.flat) level o.flat =
        .ok (.root r.flatten o0.flat) ∧
      Editor.indentOpts cxA (.root (toks.map g).flatten o0.flat) level o.flat =
        .ok (.root (r.map g).flatten o0.flat) := by
  refine ⟨_, indentOpts_A_closed hV toks ht level o0 o hpp hS hI, ?_⟩
  rw [← indentText_map o0 o ⟨hfix, hinv⟩ hfixI ht]
  exact indentOpts_A_closed hV' _ (over_map hg ht) level o0 o hpp hS' hI

/-- B2, strengthened: `r` and `r.map g` are the cluster lists of the two results.  Needs the
separator tokens and the indent tokens in `V`. -/
theorem indentOpts_natural_clusters (hV : VocabStable V = true) (hV' : VocabStable V' = true)
    (g : List Int → List Int) (hg : ∀ t ∈ V, g t ∈ V')
    (toks : List (List Int)) (ht : ∀ t ∈ toks, t ∈ V) (level : Int) (o0 o : Options (List Int))
    (hpp : o.preservePara = false)
    (hS : GoodSep V (o.withDefaults cxB).lineSep) (hS' : GoodSep V' (o.withDefaults cxB).lineSep)
    (hSV : ∀ s ∈ (o.withDefaults cxB).lineSep, s ∈ V)
    (hfix : ∀ s ∈ (o.withDefaults cxB).lineSep, g s = s)
    (hinv : ∀ t ∈ V, g t ∈ (o.withDefaults cxB).lineSep → t ∈ (o.withDefaults cxB).lineSep)
    (hIV : ∀ s ∈ (o.withDefaults cxB).indentStr, s ∈ V)
    (hfixI : ∀ s ∈ (o.withDefaults cxB).indentStr, g s = s) :
    ∃ r : List (List Int),
      Editor.indentOpts cxA (.root toks.flatten o0.flat) level o.flat =
        .ok (.root r.flatten o0.flat) ∧
      Editor.indentOpts cxA (.root (toks.map g).flatten o0.flat) level o.flat =
        .ok (.root (r.map g).flatten o0.flat) ∧
      clusters cxA r.flatten = r ∧ clusters cxA (r.map g).flatten = r.map g ∧
      r = indentText (.root toks o0) level o := by
  have hI : ∀ s ∈ (o.withDefaults cxB).indentStr, s ≠ [] := fun s hs => vocab_ne_nil hV (hIV s hs)
  have h2 := indentOpts_A_closed hV' _ (over_map hg ht) level o0 o hpp hS' hI
  rw [indentText_map o0 o ⟨hfix, hinv⟩ hfixI ht] at h2
  obtain ⟨c1, c2⟩ := seg_pair hV hV' hg (indentText_over (.root toks o0) ht level o hSV hIV)
  exact ⟨_, indentOpts_A_closed hV toks ht level o0 o hpp hS hI, h2, c1, c2, rfl⟩

end statementsB

/-! ### C: the statements

The texts handed to the operation (the two columns, the terms and definitions, the cells) are
substituted together with the receiver's text.  What comes from the OPTIONS (line separator,
paragraph separator, table character set) is the same in both calls, so `g` has to fix it. -/

section statementsC
variable {V V' : List (List Int)}

/-- **C1 (InsertTwoColumnsOpts).** every position, gap (negative: clamped), width, percentage -/
theorem insertTwoColumnsOpts_natural (hV : VocabStable V = true) (hsp : [0x20] ∈ V)
    (hhy : [0x2D] ∈ V) (hspTail : ∀ t ∈ V, (0x20 : Int) ∉ t.tail)
    (hV' : VocabStable V' = true) (hsp' : [0x20] ∈ V') (hspTail' : ∀ t ∈ V', (0x20 : Int) ∉ t.tail)
    (g : List Int → List Int) (hg : ∀ t ∈ V, g t ∈ V')
    (hws : ∀ t, cxB.isSpace (g t) = cxB.isSpace t) (hgsp : g [0x20] = [0x20])
    (hghy : g [0x2D] = [0x2D])
    (toks : List (List Int)) (ht : ∀ t ∈ toks, t ∈ V) (o0 : Options (List Int)) (pos : Int)
    (l r : List (List Int)) (hl : ∀ t ∈ l, t ∈ V) (hr : ∀ t ∈ r, t ∈ V) (gap width : Int)
    (pct : Pct) (o : Options (List Int))
    (hS : GoodSep V (o.withDefaults cxB).lineSep) (hS' : GoodSep V' (o.withDefaults cxB).lineSep)
    (hfix : ∀ s ∈ (o.withDefaults cxB).lineSep, g s = s)
    (hinv : ∀ t ∈ V, g t ∈ (o.withDefaults cxB).lineSep → t ∈ (o.withDefaults cxB).lineSep) :
    ∃ x : List (List Int),
      Editor.insertTwoColumnsOpts cxA (.root toks.flatten o0.flat) pos l.flatten r.flatten gap
        width pct o.flat = .ok (.root x.flatten o0.flat) ∧
      Editor.insertTwoColumnsOpts cxA (.root (toks.map g).flatten o0.flat) pos (l.map g).flatten
        (r.map g).flatten gap width pct o.flat = .ok (.root (x.map g).flatten o0.flat) ∧
      x = twoColText toks pos l r gap width pct o := by
  have hmap : Spec.TokMap tkB tkB g := ⟨hws, hgsp, hghy⟩
  have hhy' : [0x2D] ∈ V' := hghy ▸ hg _ hhy
  have h2 := insertTwoColumnsOpts_A_closed hV' hsp' hhy' hspTail' _ (over_map hg ht) o0 pos _ _
    (over_map hg hl) (over_map hg hr) gap width pct o hS'
  rw [twoColText_map hmap o ⟨hfix, hinv⟩ hl hr] at h2
  exact ⟨_, insertTwoColumnsOpts_A_closed hV hsp hhy hspTail toks ht o0 pos l r hl hr gap width pct
    o hS, h2, rfl⟩

/-- C1, strengthened: `x` and `x.map g` are the cluster lists of the two results -/
theorem insertTwoColumnsOpts_natural_clusters (hV : VocabStable V = true) (hsp : [0x20] ∈ V)
    (hhy : [0x2D] ∈ V) (hspTail : ∀ t ∈ V, (0x20 : Int) ∉ t.tail)
    (hV' : VocabStable V' = true) (hsp' : [0x20] ∈ V') (hspTail' : ∀ t ∈ V', (0x20 : Int) ∉ t.tail)
    (g : List Int → List Int) (hg : ∀ t ∈ V, g t ∈ V')
    (hws : ∀ t, cxB.isSpace (g t) = cxB.isSpace t) (hgsp : g [0x20] = [0x20])
    (hghy : g [0x2D] = [0x2D])
    (toks : List (List Int)) (ht : ∀ t ∈ toks, t ∈ V) (o0 : Options (List Int)) (pos : Int)
    (l r : List (List Int)) (hl : ∀ t ∈ l, t ∈ V) (hr : ∀ t ∈ r, t ∈ V) (gap width : Int)
    (pct : Pct) (o : Options (List Int))
    (hS : GoodSep V (o.withDefaults cxB).lineSep) (hS' : GoodSep V' (o.withDefaults cxB).lineSep)
    (hSV : ∀ s ∈ (o.withDefaults cxB).lineSep, s ∈ V)
    (hfix : ∀ s ∈ (o.withDefaults cxB).lineSep, g s = s)
    (hinv : ∀ t ∈ V, g t ∈ (o.withDefaults cxB).lineSep → t ∈ (o.withDefaults cxB).lineSep) :
    ∃ x : List (List Int),
      Editor.insertTwoColumnsOpts cxA (.root toks.flatten o0.flat) pos l.flatten r.flatten gap
        width pct o.flat = .ok (.root x.flatten o0.flat) ∧
      Editor.insertTwoColumnsOpts cxA (.root (toks.map g).flatten o0.flat) pos (l.map g).flatten
        (r.map g).flatten gap width pct o.flat = .ok (.root (x.map g).flatten o0.flat) ∧
      clusters cxA x.flatten = x ∧ clusters cxA (x.map g).flatten = x.map g ∧
      x = twoColText toks pos l r gap width pct o := by
  obtain ⟨x, h1, h2, rfl⟩ := insertTwoColumnsOpts_natural hV hsp hhy hspTail hV' hsp' hspTail' g hg
    hws hgsp hghy toks ht o0 pos l r hl hr gap width pct o hS hS' hfix hinv
  obtain ⟨c1, c2⟩ := seg_pair hV hV' hg
    (twoColText_over hsp hhy ht hl hr pos gap width pct o hSV)
  exact ⟨_, h1, h2, c1, c2, rfl⟩

/-- **C2 (InsertDefinitionsTableOpts).** every position and width; terms and definitions over `V`;
the paragraph separator (from the options) has non-empty tokens and is fixed by `g` -/
theorem insertDefTableOpts_natural (hV : VocabStable V = true) (hsp : [0x20] ∈ V)
    (hspTail : ∀ t ∈ V, (0x20 : Int) ∉ t.tail)
    (hV' : VocabStable V' = true) (hsp' : [0x20] ∈ V') (hspTail' : ∀ t ∈ V', (0x20 : Int) ∉ t.tail)
    (g : List Int → List Int) (hg : ∀ t ∈ V, g t ∈ V')
    (hws : ∀ t, cxB.isSpace (g t) = cxB.isSpace t) (hgsp : g [0x20] = [0x20])
    (hghy : g [0x2D] = [0x2D])
    (toks : List (List Int)) (ht : ∀ t ∈ toks, t ∈ V) (o0 : Options (List Int)) (pos : Int)
    (defs : List (List (List Int) × List (List Int)))
    (hd1 : ∀ d ∈ defs, ∀ t ∈ d.1, t ∈ V) (hd2 : ∀ d ∈ defs, ∀ t ∈ d.2, t ∈ V) (width : Int)
    (o : Options (List Int))
    (hS : GoodSep V (o.withDefaults cxB).lineSep) (hS' : GoodSep V' (o.withDefaults cxB).lineSep)
    (hfix : ∀ s ∈ (o.withDefaults cxB).lineSep, g s = s)
    (hinv : ∀ t ∈ V, g t ∈ (o.withDefaults cxB).lineSep → t ∈ (o.withDefaults cxB).lineSep)
    (hP : ∀ s ∈ (o.withDefaults cxB).paraSep, s ≠ [])
    (hfixP : ∀ s ∈ (o.withDefaults cxB).paraSep, g s = s) :
    ∃ x : List (List Int),
      Editor.insertDefTableOpts cxA (.root toks.flatten o0.flat) pos
        (defs.map fun d => (d.1.flatten, d.2.flatten)) width o.flat =
          .ok (.root x.flatten o0.flat) ∧
      Editor.insertDefTableOpts cxA (.root (toks.map g).flatten o0.flat) pos
        (defs.map fun d => ((d.1.map g).flatten, (d.2.map g).flatten)) width o.flat =
          .ok (.root (x.map g).flatten o0.flat) ∧
      x = defTableText toks pos defs width o := by
  have hmap : Spec.TokMap tkB tkB g := ⟨hws, hgsp, hghy⟩
  have e : (mapDefs g defs).map (fun d => (d.1.flatten, d.2.flatten)) =
      defs.map fun d => ((d.1.map g).flatten, (d.2.map g).flatten) := by
    unfold mapDefs
    rw [List.map_map]
    rfl
  have hd1' : ∀ d ∈ mapDefs g defs, ∀ t ∈ d.1, t ∈ V' := by
    intro d hd
    obtain ⟨d0, hd0, rfl⟩ := List.mem_map.1 hd
    exact over_map hg (hd1 d0 hd0)
  have hd2' : ∀ d ∈ mapDefs g defs, ∀ t ∈ d.2, t ∈ V' := by
    intro d hd
    obtain ⟨d0, hd0, rfl⟩ := List.mem_map.1 hd
    exact over_map hg (hd2 d0 hd0)
  have h2 := insertDefTableOpts_A_closed hV' hsp' hspTail' _ (over_map hg ht) o0 pos
    (mapDefs g defs) hd1' hd2' width o hS' hP
  rw [e, defTableText_map hmap o ⟨hfix, hinv⟩ hfixP hd2] at h2
  exact ⟨_, insertDefTableOpts_A_closed hV hsp hspTail toks ht o0 pos defs hd1 hd2 width o hS hP,
    h2, rfl⟩

/-- C2, strengthened: `x` and `x.map g` are the cluster lists of the two results.  Needs the
hyphen and the tokens of both separators in `V`. -/
theorem insertDefTableOpts_natural_clusters (hV : VocabStable V = true) (hsp : [0x20] ∈ V)
    (hhy : [0x2D] ∈ V) (hspTail : ∀ t ∈ V, (0x20 : Int) ∉ t.tail)
    (hV' : VocabStable V' = true) (hsp' : [0x20] ∈ V') (hspTail' : ∀ t ∈ V', (0x20 : Int) ∉ t.tail)
    (g : List Int → List Int) (hg : ∀ t ∈ V, g t ∈ V')
    (hws : ∀ t, cxB.isSpace (g t) = cxB.isSpace t) (hgsp : g [0x20] = [0x20])
    (hghy : g [0x2D] = [0x2D])
    (toks : List (List Int)) (ht : ∀ t ∈ toks, t ∈ V) (o0 : Options (List Int)) (pos : Int)
    (defs : List (List (List Int) × List (List Int)))
    (hd1 : ∀ d ∈ defs, ∀ t ∈ d.1, t ∈ V) (hd2 : ∀ d ∈ defs, ∀ t ∈ d.2, t ∈ V) (width : Int)
    (o : Options (List Int))
    (hS : GoodSep V (o.withDefaults cxB).lineSep) (hS' : GoodSep V' (o.withDefaults cxB).lineSep)
    (hSV : ∀ s ∈ (o.withDefaults cxB).lineSep, s ∈ V)
    (hfix : ∀ s ∈ (o.withDefaults cxB).lineSep, g s = s)
    (hinv : ∀ t ∈ V, g t ∈ (o.withDefaults cxB).lineSep → t ∈ (o.withDefaults cxB).lineSep)
    (hPV : ∀ s ∈ (o.withDefaults cxB).paraSep, s ∈ V)
    (hfixP : ∀ s ∈ (o.withDefaults cxB).paraSep, g s = s) :
    ∃ x : List (List Int),
      Editor.insertDefTableOpts cxA (.root toks.flatten o0.flat) pos
        (defs.map fun d => (d.1.flatten, d.2.flatten)) width o.flat =
          .ok (.root x.flatten o0.flat) ∧
      Editor.insertDefTableOpts cxA (.root (toks.map g).flatten o0.flat) pos
        (defs.map fun d => ((d.1.map g).flatten, (d.2.map g).flatten)) width o.flat =
          .ok (.root (x.map g).flatten o0.flat) ∧
      clusters cxA x.flatten = x ∧ clusters cxA (x.map g).flatten = x.map g ∧
      x = defTableText toks pos defs width o := by
  obtain ⟨x, h1, h2, rfl⟩ := insertDefTableOpts_natural hV hsp hspTail hV' hsp' hspTail' g hg hws
    hgsp hghy toks ht o0 pos defs hd1 hd2 width o hS hS' hfix hinv
    (fun s hs => vocab_ne_nil hV (hPV s hs)) hfixP
  obtain ⟨c1, c2⟩ := seg_pair hV hV' hg
    (defTableText_over hsp hhy ht pos hd1 hd2 width o hSV hPV)
  exact ⟨_, h1, h2, c1, c2, rfl⟩

/-- **C3 (InsertTableOpts).** every position and width, headers and borders on or off.  The line
separator is only copied (non-empty tokens, fixed by `g`; no `GoodSep`, no `hinv`).  The character
set (given and defaulted) is over `V` and fixed by `g`.  With headers: both vocabularies are closed
under upper-casing and `g` commutes with it on `V` (`BridgeComposite.hup_needed`). -/
theorem insertTableOpts_natural (hV : VocabStable V = true) (hsp : [0x20] ∈ V)
    (hV' : VocabStable V' = true)
    (g : List Int → List Int) (hg : ∀ t ∈ V, g t ∈ V')
    (hws : ∀ t, cxB.isSpace (g t) = cxB.isSpace t) (hgsp : g [0x20] = [0x20])
    (hghy : g [0x2D] = [0x2D])
    (toks : List (List Int)) (ht : ∀ t ∈ toks, t ∈ V) (o0 : Options (List Int)) (pos : Int)
    (data : List (List (List (List Int))))
    (hdata : ∀ row ∈ data, ∀ cell ∈ row, ∀ t ∈ cell, t ∈ V) (width : Int)
    (o : Options (List Int)) (hL : ∀ s ∈ (o.withDefaults cxB).lineSep, s ≠ [])
    (hfix : ∀ s ∈ (o.withDefaults cxB).lineSep, g s = s)
    (hc : ∀ t ∈ o.charset, t ∈ V) (hcd : ∀ t ∈ (o.withDefaults cxB).charset, t ∈ V)
    (hfixC0 : ∀ t ∈ o.charset, g t = t) (hfixC : ∀ t ∈ (o.withDefaults cxB).charset, g t = t)
    (hup : o.headers = true → ∀ t ∈ V, t.map upperRune ∈ V)
    (hup' : o.headers = true → ∀ t ∈ V', t.map upperRune ∈ V')
    (hupg : o.headers = true → ∀ t ∈ V, g (t.map upperRune) = (g t).map upperRune) :
    ∃ x : List (List Int),
      Editor.insertTableOpts cxA (.root toks.flatten o0.flat) pos
        (data.map (List.map List.flatten)) width o.flat = .ok (.root x.flatten o0.flat) ∧
      Editor.insertTableOpts cxA (.root (toks.map g).flatten o0.flat) pos
        ((data.map (List.map (List.map g))).map (List.map List.flatten)) width o.flat =
          .ok (.root (x.map g).flatten o0.flat) ∧
      x = tableText toks pos data width o := by
  have hmap : Spec.TokMap tkB tkB g := ⟨hws, hgsp, hghy⟩
  have hsp' : [0x20] ∈ V' := hgsp ▸ hg _ hsp
  have hdata' : ∀ row ∈ data.map (List.map (List.map g)), ∀ cell ∈ row, ∀ t ∈ cell, t ∈ V' := by
    intro row hrow cell hcell
    obtain ⟨row0, hr0, rfl⟩ := List.mem_map.1 hrow
    obtain ⟨cell0, hc0, rfl⟩ := List.mem_map.1 hcell
    exact over_map hg (hdata row0 hr0 cell0 hc0)
  have hc' : ∀ t ∈ o.charset, t ∈ V' := fun t h => hfixC0 t h ▸ hg t (hc t h)
  have hcd' : ∀ t ∈ (o.withDefaults cxB).charset, t ∈ V' := fun t h => hfixC t h ▸ hg t (hcd t h)
  have h2 := insertTableOpts_A_closed hV' hsp' _ (over_map hg ht) o0 pos _ hdata' width o hL hc'
    hcd' hup'
  rw [tableText_map hmap o hfix hfixC data
    (fun hh row hr cell hcl t htc => hupg hh t (hdata row hr cell hcl t htc))] at h2
  exact ⟨_, insertTableOpts_A_closed hV hsp toks ht o0 pos data hdata width o hL hc hcd hup, h2,
    rfl⟩

/-- C3, strengthened: `x` and `x.map g` are the cluster lists of the two results.  Needs the
separator tokens in `V`. -/
theorem insertTableOpts_natural_clusters (hV : VocabStable V = true) (hsp : [0x20] ∈ V)
    (hV' : VocabStable V' = true)
    (g : List Int → List Int) (hg : ∀ t ∈ V, g t ∈ V')
    (hws : ∀ t, cxB.isSpace (g t) = cxB.isSpace t) (hgsp : g [0x20] = [0x20])
    (hghy : g [0x2D] = [0x2D])
    (toks : List (List Int)) (ht : ∀ t ∈ toks, t ∈ V) (o0 : Options (List Int)) (pos : Int)
    (data : List (List (List (List Int))))
    (hdata : ∀ row ∈ data, ∀ cell ∈ row, ∀ t ∈ cell, t ∈ V) (width : Int)
    (o : Options (List Int)) (hSV : ∀ s ∈ (o.withDefaults cxB).lineSep, s ∈ V)
    (hfix : ∀ s ∈ (o.withDefaults cxB).lineSep, g s = s)
    (hc : ∀ t ∈ o.charset, t ∈ V) (hcd : ∀ t ∈ (o.withDefaults cxB).charset, t ∈ V)
    (hfixC0 : ∀ t ∈ o.charset, g t = t) (hfixC : ∀ t ∈ (o.withDefaults cxB).charset, g t = t)
    (hup : o.headers = true → ∀ t ∈ V, t.map upperRune ∈ V)
    (hup' : o.headers = true → ∀ t ∈ V', t.map upperRune ∈ V')
    (hupg : o.headers = true → ∀ t ∈ V, g (t.map upperRune) = (g t).map upperRune) :
    ∃ x : List (List Int),
      Editor.insertTableOpts cxA (.root toks.flatten o0.flat) pos
        (data.map (List.map List.flatten)) width o.flat = .ok (.root x.flatten o0.flat) ∧
      Editor.insertTableOpts cxA (.root (toks.map g).flatten o0.flat) pos
        ((data.map (List.map (List.map g))).map (List.map List.flatten)) width o.flat =
          .ok (.root (x.map g).flatten o0.flat) ∧
      clusters cxA x.flatten = x ∧ clusters cxA (x.map g).flatten = x.map g ∧
      x = tableText toks pos data width o := by
  obtain ⟨x, h1, h2, rfl⟩ := insertTableOpts_natural hV hsp hV' g hg hws hgsp hghy toks ht o0 pos
    data hdata width o (fun s hs => vocab_ne_nil hV (hSV s hs)) hfix hc hcd hfixC0 hfixC hup hup'
    hupg
  obtain ⟨c1, c2⟩ := seg_pair hV hV' hg (tableText_over hsp ht pos data hdata width o hSV hcd hup)
  exact ⟨_, h1, h2, c1, c2, rfl⟩

end statementsC

/-! ## D. concrete instances: all hypotheses are satisfiable

`BridgeOps.demoVocab3` (`a b ␠ - é(decomposed: e + U+0301) 🇩🇪 TAB LF`) into
`BridgeNatural.demoVocabNFC` (`a b ␠ - é(precomposed U+00E9) TAB LF`) by `BridgeNatural.demoG`
(NOT injective: the flag and `a` are identified). -/

namespace BridgeNatural2
open BridgeComposite

theorem demoG_hg : ∀ t ∈ BridgeOps.demoVocab3, demoG t ∈ demoVocabNFC := by decide

/-- §A on the demo vocabularies: EVERY text and inserted text over `demoVocab3`, every integer
position / range, any options on either side -/
example (toks ins : List (List Int)) (ht : ∀ t ∈ toks, t ∈ BridgeOps.demoVocab3)
    (hi : ∀ t ∈ ins, t ∈ BridgeOps.demoVocab3) (o0 o0' : Options Int) (s e p : Int) :
    (∃ (sel : List (List Int)) (a b : Nat),
      Editor.chars cxA (.root toks.flatten o0) s e =
        .ok (.sub sel.flatten o0 (.root toks.flatten o0)
          (byteLen cxA (toks.take a).flatten) (byteLen cxA (toks.take b).flatten)) ∧
      Editor.chars cxA (.root (toks.map demoG).flatten o0') s e =
        .ok (.sub (sel.map demoG).flatten o0' (.root (toks.map demoG).flatten o0')
          (byteLen cxA ((toks.map demoG).take a).flatten)
          (byteLen cxA ((toks.map demoG).take b).flatten)) ∧
      sel = (toks.drop a).take (b - a)) ∧
    (∃ r : List (List Int),
      Editor.insert cxA (.root toks.flatten o0) p ins.flatten = .ok (.root r.flatten o0) ∧
      Editor.insert cxA (.root (toks.map demoG).flatten o0') p (ins.map demoG).flatten =
        .ok (.root (r.map demoG).flatten o0')) ∧
    (∃ r : List (List Int),
      Editor.delete cxA (.root toks.flatten o0) s e = .ok (.root r.flatten o0) ∧
      Editor.delete cxA (.root (toks.map demoG).flatten o0') s e =
        .ok (.root (r.map demoG).flatten o0')) ∧
    (∃ r : List (List Int),
      Editor.overtype cxA (.root toks.flatten o0) p ins.flatten = .ok (.root r.flatten o0) ∧
      Editor.overtype cxA (.root (toks.map demoG).flatten o0') p (ins.map demoG).flatten =
        .ok (.root (r.map demoG).flatten o0')) := by
  refine ⟨?_, ?_, ?_, ?_⟩
  · obtain ⟨sel, a, b, h1, h2, _, _, _, _, h3, _⟩ := chars_natural BridgeOps.demoVocab3_stable
      demoVocabNFC_stable demoG demoG_hg toks ht o0 o0' s e
    exact ⟨sel, a, b, h1, h2, h3⟩
  · obtain ⟨r, h1, h2, _⟩ := insert_natural BridgeOps.demoVocab3_stable demoVocabNFC_stable demoG
      demoG_hg toks ht o0 o0' p ins hi
    exact ⟨r, h1, h2⟩
  · obtain ⟨r, h1, h2, _⟩ := delete_natural BridgeOps.demoVocab3_stable demoVocabNFC_stable demoG
      demoG_hg toks ht o0 o0' s e
    exact ⟨r, h1, h2⟩
  · obtain ⟨r, h1, h2, _⟩ := overtype_natural BridgeOps.demoVocab3_stable demoVocabNFC_stable demoG
      demoG_hg toks ht o0 o0' p ins hi
    exact ⟨r, h1, h2⟩

/-- fully evaluated: in "a é b" (decomposed, 6 code points) and its image (precomposed, 5 code
points) `Chars(2, 3)` selects `é`, at bytes [2, 5) resp. [2, 4); `Delete(-3, End)` leaves "a " -/
example :
    Editor.chars cxA (.root ([[0x61], [0x20], [0x65, 0x301], [0x20], [0x62]] :
      List (List Int)).flatten {}) 2 3 =
        .ok (.sub [0x65, 0x301] {} (.root [0x61, 0x20, 0x65, 0x301, 0x20, 0x62] {}) 2 5) ∧
    Editor.chars cxA (.root (([[0x61], [0x20], [0x65, 0x301], [0x20], [0x62]] :
      List (List Int)).map demoG).flatten {}) 2 3 =
        .ok (.sub [0xE9] {} (.root [0x61, 0x20, 0xE9, 0x20, 0x62] {}) 2 4) ∧
    (Editor.delete cxA (.root ([[0x61], [0x20], [0x65, 0x301], [0x20], [0x62]] :
      List (List Int)).flatten {}) (-3) Gen.endSentinel).map Editor.text = .ok [0x61, 0x20] ∧
    (Editor.delete cxA (.root (([[0x61], [0x20], [0x65, 0x301], [0x20], [0x62]] :
      List (List Int)).map demoG).flatten {}) (-3) Gen.endSentinel).map Editor.text =
        .ok [0x61, 0x20] := by
  refine ⟨?_, ?_, of_okEq (by decide +kernel), of_okEq (by decide +kernel)⟩
  · have h := chars_A_closed BridgeOps.demoVocab3_stable
      (.root ([[0x61], [0x20], [0x65, 0x301], [0x20], [0x62]] : List (List Int)).flatten {})
      [[0x61], [0x20], [0x65, 0x301], [0x20], [0x62]] rfl (by decide) 2 3
    rw [h]
    simp only [Except.ok.injEq, Editor.sub.injEq, Editor.root.injEq]
    decide +kernel
  · have h := chars_A_closed demoVocabNFC_stable
      (.root (([[0x61], [0x20], [0x65, 0x301], [0x20], [0x62]] : List (List Int)).map
        demoG).flatten {})
      (([[0x61], [0x20], [0x65, 0x301], [0x20], [0x62]] : List (List Int)).map demoG) rfl
      (by decide) 2 3
    rw [h]
    simp only [Except.ok.injEq, Editor.sub.injEq, Editor.root.injEq]
    decide +kernel

theorem default_indentStr_B :
    (({} : Options (List Int)).withDefaults cxB).indentStr = [[0x09]] := by
  rw [(withDefaults_fields cxB _).2.1]
  exact dIndent_B

theorem default_paraSep_B :
    (({} : Options (List Int)).withDefaults cxB).paraSep = [[0x0A], [0x0A]] := by
  rw [(withDefaults_fields cxB _).2.2.1]
  exact dParaSep_B

/-- §B and §C1/§C2 on the demo vocabularies, default call options (line separator U+000A, indent
TAB, paragraph separator two line feeds; `JustifyLastLine` off — and on): every text, column,
term and definition over `demoVocab3`, every numeric argument, every options value `o0` carried by
the editor -/
example (toks l r : List (List Int)) (ht : ∀ t ∈ toks, t ∈ BridgeOps.demoVocab3)
    (hl : ∀ t ∈ l, t ∈ BridgeOps.demoVocab3) (hr : ∀ t ∈ r, t ∈ BridgeOps.demoVocab3)
    (defs : List (List (List Int) × List (List Int)))
    (hd1 : ∀ d ∈ defs, ∀ t ∈ d.1, t ∈ BridgeOps.demoVocab3)
    (hd2 : ∀ d ∈ defs, ∀ t ∈ d.2, t ∈ BridgeOps.demoVocab3)
    (w level pos gap : Int) (pct : Pct) (o0 : Options (List Int)) :
    (∃ x : List (List Int),
      Editor.justifyOpts cxA (.root toks.flatten o0.flat) w {} = .ok (.root x.flatten o0.flat) ∧
      Editor.justifyOpts cxA (.root (toks.map demoG).flatten o0.flat) w {} =
        .ok (.root (x.map demoG).flatten o0.flat) ∧
      clusters cxA x.flatten = x ∧ clusters cxA (x.map demoG).flatten = x.map demoG) ∧
    (∃ x : List (List Int),
      Editor.justifyOpts cxA (.root toks.flatten o0.flat) w
        ({ justifyLast := true } : Options (List Int)).flat = .ok (.root x.flatten o0.flat) ∧
      Editor.justifyOpts cxA (.root (toks.map demoG).flatten o0.flat) w
        ({ justifyLast := true } : Options (List Int)).flat =
          .ok (.root (x.map demoG).flatten o0.flat)) ∧
    (∃ x : List (List Int),
      Editor.indentOpts cxA (.root toks.flatten o0.flat) level {} =
        .ok (.root x.flatten o0.flat) ∧
      Editor.indentOpts cxA (.root (toks.map demoG).flatten o0.flat) level {} =
        .ok (.root (x.map demoG).flatten o0.flat) ∧
      clusters cxA x.flatten = x ∧ clusters cxA (x.map demoG).flatten = x.map demoG) ∧
    (∃ x : List (List Int),
      Editor.insertTwoColumnsOpts cxA (.root toks.flatten o0.flat) pos l.flatten r.flatten gap w
        pct {} = .ok (.root x.flatten o0.flat) ∧
      Editor.insertTwoColumnsOpts cxA (.root (toks.map demoG).flatten o0.flat) pos
        (l.map demoG).flatten (r.map demoG).flatten gap w pct {} =
          .ok (.root (x.map demoG).flatten o0.flat) ∧
      clusters cxA x.flatten = x ∧ clusters cxA (x.map demoG).flatten = x.map demoG) ∧
    (∃ x : List (List Int),
      Editor.insertDefTableOpts cxA (.root toks.flatten o0.flat) pos
        (defs.map fun d => (d.1.flatten, d.2.flatten)) w {} = .ok (.root x.flatten o0.flat) ∧
      Editor.insertDefTableOpts cxA (.root (toks.map demoG).flatten o0.flat) pos
        (defs.map fun d => ((d.1.map demoG).flatten, (d.2.map demoG).flatten)) w {} =
          .ok (.root (x.map demoG).flatten o0.flat) ∧
      clusters cxA x.flatten = x ∧ clusters cxA (x.map demoG).flatten = x.map demoG) := by
  have hS : GoodSep BridgeOps.demoVocab3 (({} : Options (List Int)).withDefaults cxB).lineSep := by
    rw [default_lineSep_B]; exact demo3_good_nl
  have hS' : GoodSep demoVocabNFC (({} : Options (List Int)).withDefaults cxB).lineSep := by
    rw [default_lineSep_B]; exact goodSep_rune demoVocabNFC_stable (by decide)
  have hSV : ∀ s ∈ (({} : Options (List Int)).withDefaults cxB).lineSep,
      s ∈ BridgeOps.demoVocab3 := by rw [default_lineSep_B]; decide
  have hfix : ∀ s ∈ (({} : Options (List Int)).withDefaults cxB).lineSep, demoG s = s := by
    rw [default_lineSep_B]; decide
  have hinv : ∀ t ∈ BridgeOps.demoVocab3,
      demoG t ∈ (({} : Options (List Int)).withDefaults cxB).lineSep →
        t ∈ (({} : Options (List Int)).withDefaults cxB).lineSep := by
    rw [default_lineSep_B]; decide
  have hIV : ∀ s ∈ (({} : Options (List Int)).withDefaults cxB).indentStr,
      s ∈ BridgeOps.demoVocab3 := by rw [default_indentStr_B]; decide
  have hfixI : ∀ s ∈ (({} : Options (List Int)).withDefaults cxB).indentStr, demoG s = s := by
    rw [default_indentStr_B]; decide
  have hPV : ∀ s ∈ (({} : Options (List Int)).withDefaults cxB).paraSep,
      s ∈ BridgeOps.demoVocab3 := by rw [default_paraSep_B]; decide
  have hfixP : ∀ s ∈ (({} : Options (List Int)).withDefaults cxB).paraSep, demoG s = s := by
    rw [default_paraSep_B]; decide
  have hspT' : ∀ t ∈ demoVocabNFC, (0x20 : Int) ∉ t.tail := by decide
  have hsp' : [0x20] ∈ demoVocabNFC := by decide
  have e1 : (({ justifyLast := true } : Options (List Int)).withDefaults cxB).lineSep =
      [[0x0A]] := lineSep_nl_of _ (Or.inl rfl)
  refine ⟨?_, ?_, ?_, ?_, ?_⟩
  · obtain ⟨x, h1, h2, h3, h4, -⟩ := justifyOpts_natural_clusters BridgeOps.demoVocab3_stable
      BridgeOps.demoVocab3_sp BridgeOps.demoVocab3_spTail demoVocabNFC_stable hsp' hspT' demoG
      demoG_hg demoG_ws rfl rfl toks ht w o0 {} rfl hS hS' hSV hfix hinv
    exact ⟨x, h1, h2, h3, h4⟩
  · exact justifyOpts_natural BridgeOps.demoVocab3_stable
      BridgeOps.demoVocab3_sp BridgeOps.demoVocab3_spTail demoVocabNFC_stable hsp' hspT' demoG
      demoG_hg demoG_ws rfl rfl toks ht w o0 { justifyLast := true } rfl
      (by rw [e1]; exact demo3_good_nl)
      (by rw [e1]; exact goodSep_rune demoVocabNFC_stable (by decide))
      (by rw [e1]; decide) (by rw [e1]; decide)
  · obtain ⟨x, h1, h2, h3, h4, -⟩ := indentOpts_natural_clusters BridgeOps.demoVocab3_stable
      demoVocabNFC_stable demoG demoG_hg toks ht level o0 {} rfl hS hS' hSV hfix hinv hIV hfixI
    exact ⟨x, h1, h2, h3, h4⟩
  · obtain ⟨x, h1, h2, h3, h4, -⟩ := insertTwoColumnsOpts_natural_clusters
      BridgeOps.demoVocab3_stable BridgeOps.demoVocab3_sp BridgeOps.demoVocab3_hy
      BridgeOps.demoVocab3_spTail demoVocabNFC_stable hsp' hspT' demoG demoG_hg demoG_ws rfl rfl
      toks ht o0 pos l r hl hr gap w pct {} hS hS' hSV hfix hinv
    exact ⟨x, h1, h2, h3, h4⟩
  · obtain ⟨x, h1, h2, h3, h4, -⟩ := insertDefTableOpts_natural_clusters
      BridgeOps.demoVocab3_stable BridgeOps.demoVocab3_sp BridgeOps.demoVocab3_hy
      BridgeOps.demoVocab3_spTail demoVocabNFC_stable hsp' hspT' demoG demoG_hg demoG_ws rfl rfl
      toks ht o0 pos defs hd1 hd2 w {} hS hS' hSV hfix hinv hPV hfixP
    exact ⟨x, h1, h2, h3, h4⟩

/-! ### the table: vocabularies closed under upper-casing -/

/-- the target vocabulary for the table: `é` / `É` precomposed, closed under upper-casing, with the
table characters `+ |` -/
def demoVocabNFC4 : List (List Int) :=
  [[0x61], [0x62], [0x20], [0x2D], [0xE9], [0x1F1E9, 0x1F1EA], [0x9], [0x0A], [0x41], [0x42],
    [0xC9], [0x2B], [0x7C]]

theorem demoVocabNFC4_stable : VocabStable demoVocabNFC4 = true := by decide +kernel

theorem demoVocabNFC4_upper : ∀ t ∈ demoVocabNFC4, t.map upperRune ∈ demoVocabNFC4 := by
  decide +kernel

/-- decomposed `é` / `É` ↦ precomposed, everything else fixed: commutes with upper-casing -/
def demoG4 (t : List Int) : List Int :=
  if t = [0x65, 0x301] then [0xE9] else if t = [0x45, 0x301] then [0xC9] else t

theorem demoG4_ws : ∀ t, cxB.isSpace (demoG4 t) = cxB.isSpace t := by
  intro t
  unfold demoG4
  split
  · rename_i h; subst h; decide
  · split
    · rename_i h; subst h; decide
    · rfl

theorem demoG4_hg : ∀ t ∈ demoVocab4, demoG4 t ∈ demoVocabNFC4 := by decide

theorem demoG4_upper : ∀ t ∈ demoVocab4, demoG4 (t.map upperRune) = (demoG4 t).map upperRune := by
  decide +kernel

/-- §C3 on `BridgeComposite.demoVocab4` → `demoVocabNFC4`: any ragged data with cells over the
vocabulary, any width and position, headers and borders on or off, default character set, line
separator unset (or "\n") -/
example (toks : List (List Int)) (ht : ∀ t ∈ toks, t ∈ demoVocab4)
    (o0 : Options (List Int)) (pos : Int) (data : List (List (List (List Int))))
    (hdata : ∀ row ∈ data, ∀ cell ∈ row, ∀ t ∈ cell, t ∈ demoVocab4) (width : Int)
    (o : Options (List Int)) (hls : o.lineSep = [] ∨ o.lineSep = [[0x0A]])
    (hcs : o.charset = []) :
    ∃ x : List (List Int),
      Editor.insertTableOpts cxA (.root toks.flatten o0.flat) pos
        (data.map (List.map List.flatten)) width o.flat = .ok (.root x.flatten o0.flat) ∧
      Editor.insertTableOpts cxA (.root (toks.map demoG4).flatten o0.flat) pos
        ((data.map (List.map (List.map demoG4))).map (List.map List.flatten)) width o.flat =
          .ok (.root (x.map demoG4).flatten o0.flat) ∧
      clusters cxA x.flatten = x ∧ clusters cxA (x.map demoG4).flatten = x.map demoG4 := by
  have hc : ∀ t ∈ o.charset, t ∈ demoVocab4 := by rw [hcs]; exact over_nil
  have hcd := defaulted_charset_over o hc (V := demoVocab4) (by decide) (by decide) (by decide)
  have hcd3 := defaulted_charset_over o (V := [[0x2B], [0x7C], [0x2D]])
    (by rw [hcs]; exact over_nil) (by decide) (by decide) (by decide)
  have hfixC : ∀ t ∈ (o.withDefaults cxB).charset, demoG4 t = t := by
    intro t h
    have := hcd3 t h
    simp only [List.mem_cons, List.not_mem_nil, or_false] at this
    rcases this with rfl | rfl | rfl <;> decide
  obtain ⟨x, h1, h2, h3, h4, -⟩ := insertTableOpts_natural_clusters demoVocab4_stable (by decide)
    demoVocabNFC4_stable demoG4 demoG4_hg demoG4_ws rfl rfl toks ht o0 pos data hdata width o
    (by rw [defaulted_lineSep_nl o hls]; decide) (by rw [defaulted_lineSep_nl o hls]; decide)
    hc hcd (by rw [hcs]; intro t h; cases h) hfixC (fun _ => demoVocab4_upper)
    (fun _ => demoVocabNFC4_upper) (fun _ => demoG4_upper)
  exact ⟨x, h1, h2, h3, h4⟩

end BridgeNatural2

/-! ## E. paragraph mode (`preservePara = true`)

`applyGParagraphsOpts` splits the text at the paragraph separator `P`, possibly moves a line
separator `L` from the start of a paragraph to the end of the previous one, and hands every
paragraph (with what is left of `P` around it, `pre` / `suf`) to a callback.  `g` has to fix the
tokens of BOTH separators and must not send another token of `V` onto one of them. -/

namespace BridgeNatural2
open BridgeComposite BridgeEditorParas

section paraLoop
variable {V : List (List Int)} {g : List Int → List Int}

/-- the substitution applied to a call `(index, paragraph, prefix, suffix)` -/
def mapCall (g : List Int → List Int)
    (c : Nat × List (List Int) × List (List Int) × List (List Int)) :
    Nat × List (List Int) × List (List Int) × List (List Int) :=
  (c.1, c.2.1.map g, c.2.2.1.map g, c.2.2.2.map g)

theorem paraCalls_map {L : List (List Int)} (hL : SepFix V g L) (suf pre : List (List Int))
    (ambig : Bool) :
    ∀ (rest : List (List (List Int))) (idx : Nat) (cur : List (List Int)),
      (∀ r ∈ rest, ∀ t ∈ r, t ∈ V) →
      paraCalls L (suf.map g) (pre.map g) ambig idx (cur.map g) (rest.map (List.map g)) =
        (paraCalls L suf pre ambig idx cur rest).map (mapCall g)
  | [], idx, cur, _ => by
    simp only [List.map_nil, paraCalls, List.map_cons, mapCall]
    split <;> rfl
  | nxt :: rest, idx, cur, hr => by
    have hn : ∀ t ∈ nxt, t ∈ V := hr nxt List.mem_cons_self
    have hrest : ∀ r ∈ rest, ∀ t ∈ r, t ∈ V := fun r h => hr r (List.mem_cons_of_mem _ h)
    have hpre : @List.isPrefixOf (List Int) instBEqOfDecidableEq L (nxt.map g) =
        @List.isPrefixOf (List Int) instBEqOfDecidableEq L nxt := by
      have := isPrefixOf_map g L nxt (hL.sepInj hn)
      rwa [hL.map_eq] at this
    simp only [List.map_cons, paraCalls, hpre]
    cases hs : (ambig && @List.isPrefixOf (List Int) instBEqOfDecidableEq L nxt) with
    | false =>
      simp only [Bool.false_eq_true, if_false]
      rw [paraCalls_map hL suf pre ambig rest (idx + 1) nxt hrest]
      congr 1
      simp only [mapCall]
      split <;> rfl
    | true =>
      simp only [if_true]
      rw [← List.map_drop, paraCalls_map hL suf pre ambig rest (idx + 1) (nxt.drop L.length) hrest]
      congr 1
      simp only [mapCall, List.map_append, hL.map_eq]
      split <;> rfl

theorem paraCallsOf_map (od : Options (List Int)) (hL : SepFix V g od.lineSep)
    (hP : SepFix V g od.paraSep) {toks : List (List Int)} (ht : ∀ t ∈ toks, t ∈ V) :
    paraCallsOf (toks.map g) od = (paraCallsOf toks od).map (mapCall g) := by
  have hparts : ∀ l ∈ splitOn od.paraSep od.lineSep, ∀ t ∈ l, g t = t :=
    fun l hl t h => hP.fix t (splitOn_mem _ _ l hl t h)
  have hsuf : od.prevSuffix.map g = od.prevSuffix := by
    apply map_fixed
    unfold Options.prevSuffix
    cases h : splitOn od.paraSep od.lineSep with
    | nil => intro t h; cases h
    | cons x xs => exact hparts x (by rw [h]; exact List.mem_cons_self)
  have hpre : od.nextPrefix.map g = od.nextPrefix := by
    apply map_fixed
    unfold Options.nextPrefix
    split
    · exact getLastD_over (P := fun t => g t = t) _ hparts
    · intro t h; cases h
  unfold paraCallsOf
  rw [hP.splitOn ht]
  cases hsp : splitOn toks od.paraSep with
  | nil => rfl
  | cons p ps =>
    simp only [List.map_cons]
    have := paraCalls_map hL od.prevSuffix od.nextPrefix od.ambig ps 0 p
      (fun r h => splitOn_over ht _ r (by rw [hsp]; exact List.mem_cons_of_mem _ h))
    rw [hsuf, hpre] at this
    exact this

/-- `applyParasM` on cluster tokens commutes with the substitution when the callback does (on
paragraphs, prefixes and suffixes over `V`) -/
theorem applyParasM_B_map (toks : List (List Int)) (ht : ∀ t ∈ toks, t ∈ V)
    (o0 o : Options (List Int))
    (hL : SepFix V g (o.withDefaults cxB).lineSep) (hP : SepFix V g (o.withDefaults cxB).paraSep)
    (hLV : ∀ t ∈ (o.withDefaults cxB).lineSep, t ∈ V)
    (hPV : ∀ t ∈ (o.withDefaults cxB).paraSep, t ∈ V)
    (op : Nat → List (List Int) → List (List Int) → List (List Int) →
      R (List (List (List Int))))
    (hop : ∀ (i : Nat) (para pre suf : List (List Int)), (∀ t ∈ para, t ∈ V) →
      (∀ t ∈ pre, t ∈ V) → (∀ t ∈ suf, t ∈ V) →
      op i (para.map g) (pre.map g) (suf.map g) =
        (op i para pre suf).map (List.map (List.map g))) :
    Editor.applyParasM cxB (.root (toks.map g) o0) op o =
      (Editor.applyParasM cxB (.root toks o0) op o).map
        (fun e => e.withText (e.text.map g)) := by
  have e1 : (Editor.root (toks.map g) o0).text = toks.map g := rfl
  have e2 : (Editor.root toks o0).text = toks := rfl
  rw [applyParasM_eq_mapM, applyParasM_eq_mapM, e1, e2,
    paraCallsOf_map (o.withDefaults cxB) hL hP ht,
    mapM_map_bridge' (mapCall g) (fun c => op c.1 c.2.1 c.2.2.1 c.2.2.2)
      (fun c => op c.1 c.2.1 c.2.2.1 c.2.2.2) (List.map (List.map g)) _
      (fun c hc => by
        obtain ⟨h1, h2, h3⟩ := paraCallsOf_over toks ht o hLV hPV c hc
        exact hop c.1 c.2.1 c.2.2.1 c.2.2.2 h1 h2 h3)]
  cases (paraCallsOf toks (o.withDefaults cxB)).mapM
      (fun c => op c.1 c.2.1 c.2.2.1 c.2.2.2) with
  | error e => rfl
  | ok outs =>
    show Except.ok (Editor.root (joinWith _ (outs.map (List.map (List.map g))).flatten) o0) =
      Except.ok (Editor.root ((joinWith _ outs.flatten).map g) o0)
    rw [joinWith_map, hP.map_eq, List.map_flatten]

/-- a successful `applyParasM` only replaces the text -/
theorem applyParasM_ok_shape {α : Type} [DecidableEq α] (cx : Ctx α) (ed : Editor α)
    (op : Nat → List α → List α → List α → R (List (List α))) (o : Options α) (e : Editor α)
    (h : ed.applyParasM cx op o = .ok e) : ∃ r, e = ed.withText r := by
  rw [applyParasM_eq_mapM] at h
  cases hm : (paraCallsOf ed.text (o.withDefaults cx)).mapM
      (fun c => op c.1 c.2.1 c.2.2.1 c.2.2.2) with
  | error err => rw [hm] at h; cases h
  | ok outs =>
    rw [hm] at h
    exact ⟨_, (Except.ok.inj h).symm⟩

end paraLoop

/-- the generic step from "bridge on both sides + naturality on cluster tokens + totality on code
points" to the statement on code points -/
theorem natural_of_bridge {opA : Editor Int → R (Editor Int)}
    {opB : Editor (List Int) → R (Editor (List Int))}
    (toks : List (List Int)) (o0 : Options (List Int)) (g : List Int → List Int)
    (hb1 : opA (.root toks.flatten o0.flat) = (opB (.root toks o0)).map Editor.flat)
    (hb2 : opA (.root (toks.map g).flatten o0.flat) =
      (opB (.root (toks.map g) o0)).map Editor.flat)
    (hn : opB (.root (toks.map g) o0) =
      (opB (.root toks o0)).map (fun e => e.withText (e.text.map g)))
    (htot : ∃ e, opA (.root toks.flatten o0.flat) = .ok e)
    (hshape : ∀ e, opB (.root toks o0) = .ok e → ∃ r, e = (Editor.root toks o0).withText r) :
    ∃ r : List (List Int),
      opA (.root toks.flatten o0.flat) = .ok (.root r.flatten o0.flat) ∧
      opA (.root (toks.map g).flatten o0.flat) = .ok (.root (r.map g).flatten o0.flat) ∧
      opB (.root toks o0) = .ok (.root r o0) := by
  obtain ⟨e, he⟩ := htot
  cases hB : opB (.root toks o0) with
  | error err => rw [hb1, hB] at he; cases he
  | ok eB =>
    obtain ⟨r, rfl⟩ := hshape eB hB
    refine ⟨r, ?_, ?_, rfl⟩
    · rw [hb1, hB]; rfl
    · rw [hb2, hn, hB]; rfl

/-! ### E.1 IndentOpts, paragraph mode -/

section indentPara
variable {V : List (List Int)} {g : List Int → List Int}

theorem indentOpts_B_para (ed : Editor (List Int)) (level : Int) (o : Options (List Int))
    (hpp : o.preservePara = true) :
    Editor.indentOpts cxB ed level o =
      if level < 1 then pure ed
      else ed.applyParasM cxB (fun _ para _ _ => pure [indentText (.root para o) level o]) o := by
  have hppB : (o.withDefaults cxB).preservePara = true := by
    rw [withDefaults_preservePara]; exact hpp
  unfold Editor.indentOpts
  split
  · rfl
  · rename_i hlev
    dsimp only
    rw [hppB]
    unfold repeatStr
    rw [if_neg (by omega)]
    simp only [if_true]
    show Editor.applyParasM cxB ed _ o = _
    congr 1
    funext _ para _ _
    show ((Editor.root para o).applyOpts cxB (fun _ line => [_ ++ line]) o >>=
      fun e => do pure [← e.string cxB]) = _
    rw [applyOpts_map cxB (Editor.root para o) (fun line => _ ++ line) o]
    unfold indentText
    rw [if_neg hlev]
    rfl

theorem indentOpts_B_para_map (toks : List (List Int)) (ht : ∀ t ∈ toks, t ∈ V)
    (o0 o : Options (List Int)) (hpp : o.preservePara = true)
    (hL : SepFix V g (o.withDefaults cxB).lineSep) (hP : SepFix V g (o.withDefaults cxB).paraSep)
    (hLV : ∀ t ∈ (o.withDefaults cxB).lineSep, t ∈ V)
    (hPV : ∀ t ∈ (o.withDefaults cxB).paraSep, t ∈ V)
    (hfixI : ∀ s ∈ (o.withDefaults cxB).indentStr, g s = s) (level : Int) :
    Editor.indentOpts cxB (.root (toks.map g) o0) level o =
      (Editor.indentOpts cxB (.root toks o0) level o).map
        (fun e => e.withText (e.text.map g)) := by
  rw [indentOpts_B_para _ level o hpp, indentOpts_B_para _ level o hpp]
  split
  · rfl
  · refine applyParasM_B_map toks ht o0 o hL hP hLV hPV _ ?_
    intro i para pre suf hpara _ _
    show Except.ok [indentText (.root (para.map g) o) level o] =
      Except.ok [(indentText (.root para o) level o).map g]
    rw [indentText_map o o hL hfixI hpara]

end indentPara

end BridgeNatural2

open BridgeNatural2 BridgeEditorParas in
/-- **E1 (IndentOpts, paragraph mode).** the line separator `L` and the paragraph separator `P`
(after defaulting) form a `BridgeEditorParas.GoodPara` pair for both vocabularies; `g` fixes the
tokens of `L`, `P` and of the indent string and sends no other token of `V` onto a token of `L` or
`P` -/
theorem indentOpts_natural_para {V V' : List (List Int)} (hV : VocabStable V = true)
    (hV' : VocabStable V' = true)
    (g : List Int → List Int) (hg : ∀ t ∈ V, g t ∈ V')
    (toks : List (List Int)) (ht : ∀ t ∈ toks, t ∈ V) (level : Int) (o0 o : Options (List Int))
    (hpp : o.preservePara = true)
    (hG : GoodPara V (o.withDefaults cxB).lineSep (o.withDefaults cxB).paraSep)
    (hG' : GoodPara V' (o.withDefaults cxB).lineSep (o.withDefaults cxB).paraSep)
    (hfix : ∀ s ∈ (o.withDefaults cxB).lineSep, g s = s)
    (hinv : ∀ t ∈ V, g t ∈ (o.withDefaults cxB).lineSep → t ∈ (o.withDefaults cxB).lineSep)
    (hfixP : ∀ s ∈ (o.withDefaults cxB).paraSep, g s = s)
    (hinvP : ∀ t ∈ V, g t ∈ (o.withDefaults cxB).paraSep → t ∈ (o.withDefaults cxB).paraSep)
    (hI : ∀ s ∈ (o.withDefaults cxB).indentStr, s ≠ [])
    (hfixI : ∀ s ∈ (o.withDefaults cxB).indentStr, g s = s) :
    ∃ r : List (List Int),
      Editor.indentOpts cxA (.root toks.flatten o0.flat) level o.flat =
        .ok (.root r.flatten o0.flat) ∧
      Editor.indentOpts cxA (.root (toks.map g).flatten o0.flat) level o.flat =
        .ok (.root (r.map g).flatten o0.flat) ∧
      Editor.indentOpts cxB (.root toks o0) level o = .ok (.root r o0) := by
  refine natural_of_bridge (opA := fun e => Editor.indentOpts cxA e level o.flat)
    (opB := fun e => Editor.indentOpts cxB e level o) toks o0 g
    (indentOpts_bridge_para hV (.root toks o0) ht level o hpp hG (indentStr_ne o hI))
    (indentOpts_bridge_para hV' (.root (toks.map g) o0) (over_map hg ht) level o hpp hG'
      (indentStr_ne o hI))
    (indentOpts_B_para_map toks ht o0 o hpp ⟨hfix, hinv⟩ ⟨hfixP, hinvP⟩ hG.lineV hG.paraV hfixI
      level)
    (indentOpts_total (cx := cxA) _ level o.flat) ?_
  intro e he
  rw [indentOpts_B_para _ level o hpp] at he
  split at he
  · exact ⟨toks, (Except.ok.inj he).symm⟩
  · exact applyParasM_ok_shape cxB _ _ o e he

/-! ### E.2 WrapOpts, paragraph mode

The implementation pads every paragraph with the placeholder letter `A` (U+0041) in place of the
remains of the paragraph separator, wraps, and cuts the placeholders out again.  The naturality
proof below treats the placeholders like text, so `g` has to fix the cluster `A`. -/

namespace BridgeNatural2
open BridgeComposite BridgeEditorParas

section wrapPara
variable {V : List (List Int)} {g : List Int → List Int}

theorem gSub_B_map (s : List (List Int)) (a b : Int) :
    gSub cxB (s.map g) a b = (gSub cxB s a b).map g := by
  unfold gSub
  simp only [cxB_triv, List.length_map]
  generalize rangeToIndexes (↑(List.range' 1 s.length).length) a b = p
  obtain ⟨st, en⟩ := p
  simp only
  split
  · rfl
  · unfold sliceRunes
    rw [List.map_take, List.map_drop]

theorem phA_map (hgA : g [0x41] = [0x41]) (n : Int) :
    (gRepeat [cxB.phA] n).map g = gRepeat [cxB.phA] n := by
  apply map_fixed
  intro t ht
  have := gRepeat_mem [cxB.phA] n t ht
  rw [List.mem_singleton] at this
  rw [this]
  exact hgA

theorem wrapParaCb_B_map (hmap : Spec.TokMap tkB tkB g) (hgA : g [0x41] = [0x41])
    (hA : [0x41] ∈ V) {S : List (List Int)} (h : SepFix V g S) (width : Int) (i : Nat)
    (para pre suf : List (List Int)) (hpara : ∀ t ∈ para, t ∈ V) :
    wrapParaCb cxB width S i (para.map g) (pre.map g) (suf.map g) =
      (wrapParaCb cxB width S i para pre suf).map (List.map (List.map g)) := by
  have htoks : ∀ t ∈ gRepeat [cxB.phA] (gLen cxB pre) ++ para ++ gRepeat [cxB.phA] (gLen cxB suf),
      t ∈ V := BridgeEdit.over_append (BridgeEdit.over_append (phA_over hA _) hpara) (phA_over hA _)
  have hl1 : gLen cxB (pre.map g) = gLen cxB pre := by
    rw [gLen_triv cxB cxB_triv, gLen_triv cxB cxB_triv, List.length_map]
  have hl2 : gLen cxB (suf.map g) = gLen cxB suf := by
    rw [gLen_triv cxB cxB_triv, gLen_triv cxB cxB_triv, List.length_map]
  have hX : gRepeat [cxB.phA] (gLen cxB pre) ++ para.map g ++ gRepeat [cxB.phA] (gLen cxB suf) =
      (gRepeat [cxB.phA] (gLen cxB pre) ++ para ++ gRepeat [cxB.phA] (gLen cxB suf)).map g := by
    rw [List.map_append, List.map_append, phA_map hgA, phA_map hgA]
  unfold wrapParaCb
  dsimp only
  rw [hl1, hl2, hX, wrapLines_triv cxB cxB_triv cxB_sp_space, wrapLines_triv cxB cxB_triv cxB_sp_space,
    h.replaceAll' hmap.sp htoks, Spec.wrapLines_map hmap, h.isSuffixOf hpara]
  show Except.ok _ = Except.ok _
  rw [block_join_map h.map_eq]
  generalize (Block.mk (Spec.wrapLines tkB _ _) S false).join = J
  have hJ : gLen cxB (J.map g) = gLen cxB J := by
    rw [gLen_triv cxB cxB_triv, gLen_triv cxB cxB_triv, List.length_map]
  rw [hJ, gSub_B_map, gSub_B_map]
  congr 1
  split <;> split <;> simp only [List.map_cons, List.map_nil, List.map_append, h.map_eq]

theorem wrapOpts_B_para_map (hmap : Spec.TokMap tkB tkB g) (hgA : g [0x41] = [0x41])
    (hA : [0x41] ∈ V) (toks : List (List Int)) (ht : ∀ t ∈ toks, t ∈ V)
    (o0 o : Options (List Int)) (hpp : o.preservePara = true)
    (hL : SepFix V g (o.withDefaults cxB).lineSep) (hP : SepFix V g (o.withDefaults cxB).paraSep)
    (hLV : ∀ t ∈ (o.withDefaults cxB).lineSep, t ∈ V)
    (hPV : ∀ t ∈ (o.withDefaults cxB).paraSep, t ∈ V) (width : Int)
    (hAL : (0x41 : Int) ∉ ((o.withDefaults cxB).lineSep).flatten) :
    Editor.wrapOpts cxB (.root (toks.map g) o0) width o =
      (Editor.wrapOpts cxB (.root toks o0) width o).map
        (fun e => e.withText (e.text.map g)) := by
  rw [wrapOpts_para cxB _ width o hpp (phA_not_mem_B hAL),
    wrapOpts_para cxB _ width o hpp (phA_not_mem_B hAL)]
  exact applyParasM_B_map toks ht o0 o hL hP hLV hPV _
    (fun i para pre suf hpara _ _ => wrapParaCb_B_map hmap hgA hA hL _ i para pre suf hpara)

end wrapPara

end BridgeNatural2

open BridgeNatural2 BridgeEditorParas BridgeEditorOps in
/-- **E2 (WrapOpts, paragraph mode).** hypotheses of `wrapOpts_natural` plus: the separators form
a `GoodPara` pair for both vocabularies, `g` fixes the tokens of the paragraph separator too (and
hits them from no other token), and the placeholder cluster `A` is in `V`, fixed by `g`, and not a
rune of the line separator (`hAL`; a separator that contains it is padded with another letter —
the repair of defect D18 — which need not be a cluster of `V`). -/
theorem wrapOpts_natural_para {V V' : List (List Int)} (hV : VocabStable V = true)
    (hsp : [0x20] ∈ V) (hhy : [0x2D] ∈ V) (hA : [0x41] ∈ V)
    (hspTail : ∀ t ∈ V, (0x20 : Int) ∉ t.tail)
    (hV' : VocabStable V' = true) (hspTail' : ∀ t ∈ V', (0x20 : Int) ∉ t.tail)
    (g : List Int → List Int) (hg : ∀ t ∈ V, g t ∈ V')
    (hws : ∀ t, cxB.isSpace (g t) = cxB.isSpace t) (hgsp : g [0x20] = [0x20])
    (hghy : g [0x2D] = [0x2D]) (hgA : g [0x41] = [0x41])
    (toks : List (List Int)) (ht : ∀ t ∈ toks, t ∈ V) (width : Int) (o0 o : Options (List Int))
    (hpp : o.preservePara = true)
    (hG : GoodPara V (o.withDefaults cxB).lineSep (o.withDefaults cxB).paraSep)
    (hG' : GoodPara V' (o.withDefaults cxB).lineSep (o.withDefaults cxB).paraSep)
    (hfix : ∀ s ∈ (o.withDefaults cxB).lineSep, g s = s)
    (hinv : ∀ t ∈ V, g t ∈ (o.withDefaults cxB).lineSep → t ∈ (o.withDefaults cxB).lineSep)
    (hfixP : ∀ s ∈ (o.withDefaults cxB).paraSep, g s = s)
    (hinvP : ∀ t ∈ V, g t ∈ (o.withDefaults cxB).paraSep → t ∈ (o.withDefaults cxB).paraSep)
    (hAL : (0x41 : Int) ∉ ((o.withDefaults cxB).lineSep).flatten) :
    ∃ r : List (List Int),
      Editor.wrapOpts cxA (.root toks.flatten o0.flat) width o.flat =
        .ok (.root r.flatten o0.flat) ∧
      Editor.wrapOpts cxA (.root (toks.map g).flatten o0.flat) width o.flat =
        .ok (.root (r.map g).flatten o0.flat) ∧
      Editor.wrapOpts cxB (.root toks o0) width o = .ok (.root r o0) := by
  have hmap : Spec.TokMap tkB tkB g := ⟨hws, hgsp, hghy⟩
  refine natural_of_bridge (opA := fun e => Editor.wrapOpts cxA e width o.flat)
    (opB := fun e => Editor.wrapOpts cxB e width o) toks o0 g
    (wrapOpts_bridge_para hV hsp hhy hA hspTail (.root toks o0) ht width o hpp hG hAL)
    (wrapOpts_bridge_para hV' (hgsp ▸ hg _ hsp) (hghy ▸ hg _ hhy) (hgA ▸ hg _ hA) hspTail'
      (.root (toks.map g) o0) (over_map hg ht) width o hpp hG' hAL)
    (wrapOpts_B_para_map hmap hgA hA toks ht o0 o hpp ⟨hfix, hinv⟩ ⟨hfixP, hinvP⟩ hG.lineV
      hG.paraV width hAL)
    (wrapOpts_total cxA_Sane _ width o.flat) ?_
  intro e he
  rw [wrapOpts_para cxB _ width o hpp (phA_not_mem_B hAL)] at he
  exact applyParasM_ok_shape cxB _ _ o e he

/-! ### E.3 JustifyOpts, paragraph mode (same placeholder `A` as in E.2) -/

namespace BridgeNatural2
open BridgeComposite BridgeEditorParas

section justifyPara
variable {V : List (List Int)} {g : List Int → List Int}

/-- `tb.New` on cluster tokens commutes with the substitution -/
theorem blockNew_B_map {S : List (List Int)} (h : SepFix V g S) {X : List (List Int)}
    (hX : ∀ t ∈ X, t ∈ V) :
    Block.new (X.map g) S =
      ⟨(Block.new X S).lines.map (List.map g), S, (Block.new X S).trailing⟩ := by
  unfold Block.new
  rw [List.isEmpty_map]
  split
  · rfl
  · dsimp only
    rw [h.splitOn hX, List.length_map, List.getLast?_map]
    cases (splitOn X S).getLast? with
    | none =>
      rw [if_neg (fun hc => absurd hc.2 (by simp)), if_neg (fun hc => absurd hc.2 (by simp))]
    | some x =>
      cases x with
      | nil =>
        by_cases hlen : (splitOn X S).length > 1
        · rw [if_pos ⟨hlen, by simp⟩, if_pos ⟨hlen, by simp⟩]
          simp only [List.map_dropLast]
        · rw [if_neg (fun hc => hlen hc.1), if_neg (fun hc => hlen hc.1)]
      | cons a l =>
        rw [if_neg (fun hc => absurd hc.2 (by simp)), if_neg (fun hc => absurd hc.2 (by simp))]

/-- the lines of a paragraph block after the justification pass -/
def justParaLines (width : Int) (jl : Bool) (ls : List (List (List Int))) :
    List (List (List Int)) :=
  (List.range ls.length).map fun (i : Nat) =>
    if !jl ∧ (i : Int) == (ls.length : Int) - 1 then ls.getD i []
    else justified cxB (ls.getD i []) width

theorem mapLinesM_justify_B (b : Block (List Int)) (width : Int) (jl : Bool) :
    b.mapLinesM (fun idx line =>
      if !jl ∧ (idx : Int) == (b.lines.length : Int) - 1 then pure line
      else justifyLine cxB line width) =
      .ok { b with lines := justParaLines width jl b.lines } := by
  unfold Block.mapLinesM
  rw [mapM_ok_of_forall _ (fun (i : Nat) =>
    if !jl ∧ (i : Int) == (b.lines.length : Int) - 1 then b.lines.getD i []
    else justified cxB (b.lines.getD i []) width)]
  · rfl
  · intro i _
    dsimp only
    split
    · rfl
    · exact (justified_B_post _ _).1

theorem justParaLines_map (hmap : Spec.TokMap tkB tkB g) (width : Int) (jl : Bool)
    (ls : List (List (List Int))) :
    justParaLines width jl (ls.map (List.map g)) =
      (justParaLines width jl ls).map (List.map g) := by
  unfold justParaLines
  rw [List.length_map, List.map_map]
  apply List.map_congr_left
  intro i _
  simp only [Function.comp, getD_map_nil]
  split
  · rfl
  · exact justified_B_map hmap _ _

theorem justifyParaCb_B_map (hmap : Spec.TokMap tkB tkB g) (hgA : g [0x41] = [0x41])
    (hA : [0x41] ∈ V) {S : List (List Int)} (h : SepFix V g S) (width : Int) (jl : Bool) (i : Nat)
    (para pre suf : List (List Int)) (hpara : ∀ t ∈ para, t ∈ V) :
    justifyParaCb cxB width S jl i (para.map g) (pre.map g) (suf.map g) =
      (justifyParaCb cxB width S jl i para pre suf).map (List.map (List.map g)) := by
  have htoks : ∀ t ∈ gRepeat [cxB.phA] (gLen cxB pre) ++ para ++ gRepeat [cxB.phA] (gLen cxB suf),
      t ∈ V := BridgeEdit.over_append (BridgeEdit.over_append (phA_over hA _) hpara) (phA_over hA _)
  have hl1 : gLen cxB (pre.map g) = gLen cxB pre := by
    rw [gLen_triv cxB cxB_triv, gLen_triv cxB cxB_triv, List.length_map]
  have hl2 : gLen cxB (suf.map g) = gLen cxB suf := by
    rw [gLen_triv cxB cxB_triv, gLen_triv cxB cxB_triv, List.length_map]
  have hX : gRepeat [cxB.phA] (gLen cxB pre) ++ para.map g ++ gRepeat [cxB.phA] (gLen cxB suf) =
      (gRepeat [cxB.phA] (gLen cxB pre) ++ para ++ gRepeat [cxB.phA] (gLen cxB suf)).map g := by
    rw [List.map_append, List.map_append, phA_map hgA, phA_map hgA]
  unfold justifyParaCb
  dsimp only
  rw [hl1, hl2, hX, blockNew_B_map h htoks]
  have hsep : (Block.new (gRepeat [cxB.phA] (gLen cxB pre) ++ para ++
      gRepeat [cxB.phA] (gLen cxB suf)) S).sep = S := by
    unfold Block.new
    split
    · rfl
    · dsimp only
      split <;> rfl
  generalize Block.new (gRepeat [cxB.phA] (gLen cxB pre) ++ para ++
    gRepeat [cxB.phA] (gLen cxB suf)) S = b at hsep
  have e1 := mapLinesM_justify_B ⟨b.lines.map (List.map g), S, b.trailing⟩ width jl
  have e2 := mapLinesM_justify_B b width jl
  rw [List.length_map] at e1 ⊢
  rw [e1, e2]
  show Except.ok _ = Except.ok _
  dsimp only
  rw [justParaLines_map hmap]
  obtain ⟨bl, bs, bt⟩ := b
  dsimp only at hsep ⊢
  subst hsep
  rw [block_join_map h.map_eq]
  generalize (Block.mk (justParaLines width jl bl) bs bt).join = J
  have hJ : gLen cxB (J.map g) = gLen cxB J := by
    rw [gLen_triv cxB cxB_triv, gLen_triv cxB cxB_triv, List.length_map]
  rw [hJ, gSub_B_map, gSub_B_map]
  congr 1
  split <;> rfl

theorem justifyOpts_B_para_map (hmap : Spec.TokMap tkB tkB g) (hgA : g [0x41] = [0x41])
    (hA : [0x41] ∈ V) (toks : List (List Int)) (ht : ∀ t ∈ toks, t ∈ V)
    (o0 o : Options (List Int)) (hpp : o.preservePara = true)
    (hL : SepFix V g (o.withDefaults cxB).lineSep) (hP : SepFix V g (o.withDefaults cxB).paraSep)
    (hLV : ∀ t ∈ (o.withDefaults cxB).lineSep, t ∈ V)
    (hPV : ∀ t ∈ (o.withDefaults cxB).paraSep, t ∈ V) (width : Int)
    (hAL : (0x41 : Int) ∉ ((o.withDefaults cxB).lineSep).flatten) :
    Editor.justifyOpts cxB (.root (toks.map g) o0) width o =
      (Editor.justifyOpts cxB (.root toks o0) width o).map
        (fun e => e.withText (e.text.map g)) := by
  rw [justifyOpts_para cxB _ width o hpp (phA_not_mem_B hAL),
    justifyOpts_para cxB _ width o hpp (phA_not_mem_B hAL)]
  exact applyParasM_B_map toks ht o0 o hL hP hLV hPV _
    (fun i para pre suf hpara _ _ =>
      justifyParaCb_B_map hmap hgA hA hL _ _ i para pre suf hpara)

end justifyPara

end BridgeNatural2

open BridgeNatural2 BridgeEditorParas BridgeEditorOps in
/-- **E3 (JustifyOpts, paragraph mode).** `JustifyLastLine` on or off; hypotheses as in E2 (no
hyphen is produced), `hAL` included: JustifyOpts pads with the same stand-in as WrapOpts -/
theorem justifyOpts_natural_para {V V' : List (List Int)} (hV : VocabStable V = true)
    (hsp : [0x20] ∈ V) (hA : [0x41] ∈ V) (hspTail : ∀ t ∈ V, (0x20 : Int) ∉ t.tail)
    (hV' : VocabStable V' = true) (hspTail' : ∀ t ∈ V', (0x20 : Int) ∉ t.tail)
    (g : List Int → List Int) (hg : ∀ t ∈ V, g t ∈ V')
    (hws : ∀ t, cxB.isSpace (g t) = cxB.isSpace t) (hgsp : g [0x20] = [0x20])
    (hghy : g [0x2D] = [0x2D]) (hgA : g [0x41] = [0x41])
    (toks : List (List Int)) (ht : ∀ t ∈ toks, t ∈ V) (width : Int) (o0 o : Options (List Int))
    (hpp : o.preservePara = true)
    (hG : GoodPara V (o.withDefaults cxB).lineSep (o.withDefaults cxB).paraSep)
    (hG' : GoodPara V' (o.withDefaults cxB).lineSep (o.withDefaults cxB).paraSep)
    (hfix : ∀ s ∈ (o.withDefaults cxB).lineSep, g s = s)
    (hinv : ∀ t ∈ V, g t ∈ (o.withDefaults cxB).lineSep → t ∈ (o.withDefaults cxB).lineSep)
    (hfixP : ∀ s ∈ (o.withDefaults cxB).paraSep, g s = s)
    (hinvP : ∀ t ∈ V, g t ∈ (o.withDefaults cxB).paraSep → t ∈ (o.withDefaults cxB).paraSep)
    (hAL : (0x41 : Int) ∉ ((o.withDefaults cxB).lineSep).flatten) :
    ∃ r : List (List Int),
      Editor.justifyOpts cxA (.root toks.flatten o0.flat) width o.flat =
        .ok (.root r.flatten o0.flat) ∧
      Editor.justifyOpts cxA (.root (toks.map g).flatten o0.flat) width o.flat =
        .ok (.root (r.map g).flatten o0.flat) ∧
      Editor.justifyOpts cxB (.root toks o0) width o = .ok (.root r o0) := by
  have hmap : Spec.TokMap tkB tkB g := ⟨hws, hgsp, hghy⟩
  refine natural_of_bridge (opA := fun e => Editor.justifyOpts cxA e width o.flat)
    (opB := fun e => Editor.justifyOpts cxB e width o) toks o0 g
    (justifyOpts_bridge_para hV hsp hA hspTail (.root toks o0) ht width o hpp hG hAL)
    (justifyOpts_bridge_para hV' (hgsp ▸ hg _ hsp) (hgA ▸ hg _ hA) hspTail'
      (.root (toks.map g) o0) (over_map hg ht) width o hpp hG' hAL)
    (justifyOpts_B_para_map hmap hgA hA toks ht o0 o hpp ⟨hfix, hinv⟩ ⟨hfixP, hinvP⟩ hG.lineV
      hG.paraV width hAL)
    (justifyOpts_total cxA_Sane _ width o.flat) ?_
  intro e he
  rw [justifyOpts_para cxB _ width o hpp (phA_not_mem_B hAL)] at he
  exact applyParasM_ok_shape cxB _ _ o e he

/-! ### E.4 AlignOpts, paragraph mode

The three paragraph callbacks work on a `tb.Block` line by line; the proof relates the run on the
substituted paragraph to the run on the paragraph step by step (`BridgeEditorParas.RRel`). -/

namespace BridgeNatural2
open BridgeComposite BridgeEditorParas

section alignPara
variable {V : List (List Int)} {g : List Int → List Int} {S : List (List Int)}

/-- related texts: the first is the substitution of the second -/
def TRg (g : List Int → List Int) (a b : List (List Int)) : Prop := a = b.map g

/-- related blocks (both with separator `S`) -/
def BRg (g : List Int → List Int) (S : List (List Int)) (a b : Block (List Int)) : Prop :=
  a.lines = b.lines.map (List.map g) ∧ a.sep = S ∧ b.sep = S ∧ a.trailing = b.trailing

theorem BRg.lines_length {a b : Block (List Int)} (h : BRg g S a b) :
    a.lines.length = b.lines.length := by rw [h.1, List.length_map]

theorem BRg.lines_isEmpty {a b : Block (List Int)} (h : BRg g S a b) :
    a.lines.isEmpty = b.lines.isEmpty := by rw [h.1, List.isEmpty_map]

theorem BRg.join (hS : S.map g = S) {a b : Block (List Int)} (h : BRg g S a b) :
    TRg g a.join b.join := by
  obtain ⟨al, as, at'⟩ := a
  obtain ⟨bl, bs, bt⟩ := b
  obtain ⟨h1, h2, h3, h4⟩ := h
  dsimp only at h1 h2 h3 h4
  rw [h1, h2, h3, h4]
  exact block_join_map hS bl bt

theorem BRg.line {a b : Block (List Int)} (h : BRg g S a b) (pos : Int) :
    RRel (TRg g) (a.line pos) (b.line pos) := by
  unfold Block.line
  rw [h.lines_length]
  split
  · exact rfl
  · refine RRel.pure ?_
    show a.lines.getD _ [] = (b.lines.getD _ []).map g
    rw [h.1]
    exact getD_map_nil _ _

theorem BRg.set {a b : Block (List Int)} (h : BRg g S a b) (pos : Int)
    {c d : List (List Int)} (hc : TRg g c d) :
    RRel (fun a' b' => BRg g S a' b' ∧ b'.lines.length = b.lines.length)
      (a.set pos c) (b.set pos d) := by
  unfold Block.set
  rw [h.lines_length]
  split
  · exact rfl
  · refine RRel.pure ⟨⟨?_, h.2.1, h.2.2.1, h.2.2.2⟩, by simp only [List.length_set]⟩
    show a.lines.set _ c = (b.lines.set _ d).map (List.map g)
    rw [h.1, hc, List.map_set]

theorem mapLinesM_pure (b : Block (List Int)) (f : List (List Int) → List (List Int)) :
    (b.mapLinesM fun _ l => Pure.pure (f l)) =
      .ok { b with lines := (List.range b.lines.length).map fun i => f (b.lines.getD i []) } := by
  have := mapM_ok_of_forall
    (fun i => (Pure.pure (f (b.lines.getD i [])) : R (List (List Int))))
    (fun i => f (b.lines.getD i [])) (List.range b.lines.length) (fun _ _ => rfl)
  unfold Block.mapLinesM
  show ((List.range b.lines.length).mapM
    (fun i => (Pure.pure (f (b.lines.getD i [])) : R (List (List Int)))) >>= _) = _
  rw [this]
  rfl

theorem BRg.mapLines {a b : Block (List Int)} (h : BRg g S a b)
    (f : List (List Int) → List (List Int)) (hf : ∀ l, f (l.map g) = (f l).map g) :
    RRel (fun a' b' => BRg g S a' b' ∧ b'.lines.length = b.lines.length)
      (a.mapLinesM fun _ l => Pure.pure (f l)) (b.mapLinesM fun _ l => Pure.pure (f l)) := by
  rw [mapLinesM_pure, mapLinesM_pure]
  refine ⟨⟨?_, h.2.1, h.2.2.1, h.2.2.2⟩, by simp only [List.length_map, List.length_range]⟩
  show (List.range a.lines.length).map _ = ((List.range b.lines.length).map _).map (List.map g)
  rw [h.lines_length, List.map_map]
  apply List.map_congr_left
  intro i _
  simp only [Function.comp, h.1, getD_map_nil, hf]

theorem modLineG {C D : Type} {q : C → D → Prop} {bA bB : Block (List Int)}
    (h : BRg g S bA bB) (c : Prop) [Decidable c] (pos : Int)
    {F : List (List Int) → List (List Int)} (hF : ∀ l, F (l.map g) = (F l).map g)
    {kA : Block (List Int) → R C} {kB : Block (List Int) → R D}
    (hk : ∀ a b, BRg g S a b → b.lines.length = bB.lines.length → RRel q (kA a) (kB b)) :
    RRel q
      (if c then (bA.line pos >>= fun l => bA.set pos (F l) >>= kA) else (Pure.pure bA >>= kA))
      (if c then (bB.line pos >>= fun l => bB.set pos (F l) >>= kB) else (Pure.pure bB >>= kB)) := by
  refine RRel.ite _ ?_ (hk _ _ h rfl)
  refine RRel.bind (h.line pos) (fun a b hab => ?_)
  refine RRel.bind (h.set pos ?_) (fun a' b' h' => hk a' b' h'.1 h'.2)
  show F a = (F b).map g
  rw [hab, hF]

theorem gLen_B_map (l : List (List Int)) : gLen cxB (l.map g) = gLen cxB l := by
  rw [gLen_triv cxB cxB_triv, gLen_triv cxB cxB_triv, List.length_map]

theorem takeWhile_ws_map (hws : ∀ t, cxB.isSpace (g t) = cxB.isSpace t) :
    ∀ (l : List (List Int)),
      ((l.map g).takeWhile cxB.isSpace).length = (l.takeWhile cxB.isSpace).length
  | [] => rfl
  | c :: t => by
    simp only [List.map_cons, List.takeWhile_cons, hws]
    split
    · simp only [List.length_cons, takeWhile_ws_map hws t]
    · rfl

theorem countLeadingWs_B_map (hws : ∀ t, cxB.isSpace (g t) = cxB.isSpace t)
    (l : List (List Int)) : countLeadingWs cxB (l.map g) = countLeadingWs cxB l := by
  rw [countLeadingWs_triv cxB cxB_triv, countLeadingWs_triv cxB cxB_triv, takeWhile_ws_map hws]

theorem countTrailingWs_B_map (hws : ∀ t, cxB.isSpace (g t) = cxB.isSpace t)
    (l : List (List Int)) : countTrailingWs cxB (l.map g) = countTrailingWs cxB l := by
  rw [countTrailingWs_triv cxB cxB_triv, countTrailingWs_triv cxB cxB_triv, ← List.map_reverse,
    takeWhile_ws_map hws]

theorem alignRight_B_map (hmap : Spec.TokMap tkB tkB g) (l : List (List Int)) (w : Int) :
    alignRight cxB (l.map g) w = (alignRight cxB l w).map g := by
  rw [alignRight_triv cxB cxB_triv, alignRight_triv cxB cxB_triv]
  exact Spec.alignRight_map hmap w l

theorem sp_map (hgsp : g [0x20] = [0x20]) (n : Int) :
    (gRepeat [cxB.sp] n).map g = gRepeat [cxB.sp] n := by
  apply map_fixed
  intro t ht
  have := gRepeat_mem [cxB.sp] n t ht
  rw [List.mem_singleton] at this
  rw [this]
  exact hgsp

theorem blockNew_BRg (h : SepFix V g S) {X : List (List Int)} (hX : ∀ t ∈ X, t ∈ V) :
    BRg g S (Block.new (X.map g) S) (Block.new X S) := by
  have hsep : (Block.new X S).sep = S := by
    unfold Block.new
    split
    · rfl
    · dsimp only
      split <;> rfl
  rw [blockNew_B_map h hX]
  exact ⟨rfl, rfl, hsep, rfl⟩

theorem alignParaLeft_B_map (hmap : Spec.TokMap tkB tkB g) (hsp : [0x20] ∈ V)
    (h : SepFix V g S) (width : Int) (para pre suf : List (List Int))
    (hpara : ∀ t ∈ para, t ∈ V) :
    RRel (TRg g) (alignParaLeft cxB width S (para.map g) (pre.map g) (suf.map g))
      (alignParaLeft cxB width S para pre suf) := by
  have hS : S.map g = S := h.map_eq
  unfold alignParaLeft
  dsimp only
  rw [gLen_B_map pre, gLen_B_map suf]
  have hbr : BRg g S (Block.new (para.map g ++ gRepeat [cxB.sp] (gLen cxB suf)) S)
      (Block.new (para ++ gRepeat [cxB.sp] (gLen cxB suf)) S) := by
    have := blockNew_BRg h (X := para ++ gRepeat [cxB.sp] (gLen cxB suf))
      (BridgeEdit.over_append hpara (sp_over hsp _))
    rwa [List.map_append, sp_map hmap.sp] at this
  generalize Block.new (para.map g ++ gRepeat [cxB.sp] (gLen cxB suf)) S = blA at hbr ⊢
  generalize Block.new (para ++ gRepeat [cxB.sp] (gLen cxB suf)) S = blB at hbr ⊢
  have hss : (gRepeat [cxB.sp] (gLen cxB pre)).map g = gRepeat [cxB.sp] (gLen cxB pre) :=
    sp_map hmap.sp _
  generalize gRepeat [cxB.sp] (gLen cxB pre) = ss at hss ⊢
  generalize gRepeat [cxB.sp] (gLen cxB suf) = se
  rw [hbr.lines_isEmpty, hbr.lines_length]
  refine RRel.ite _ (RRel.pure (hbr.join hS)) ?_
  refine RRel.bind (hbr.line 0) (fun a b hab => ?_)
  refine RRel.bind (hbr.set 0 (c := a ++ ss) (d := b ++ ss) ?_) (fun bA1 bB1 h1 => ?_)
  · show a ++ ss = (b ++ ss).map g
    rw [List.map_append, hss, hab]
  refine RRel.bind (h1.1.mapLines (fun l => alignLeft cxB l width)
    (fun l => alignLeft_B_map hmap l width)) (fun bA2 bB2 h2 => ?_)
  refine modLineG h2.1 _ 0 (F := fun l => gSub cxB l 0 (-(gLen cxB ss : Int)))
    (fun l => gSub_B_map l _ _) (fun bA3 bB3 h3 _ => ?_)
  refine modLineG h3 _ _ (F := fun l => gSub cxB l 0 (-(gLen cxB se : Int)))
    (fun l => gSub_B_map l _ _) (fun bA4 bB4 h4 _ => ?_)
  exact RRel.pure (h4.join hS)

theorem alignParaRight_B_map (hmap : Spec.TokMap tkB tkB g) (hsp : [0x20] ∈ V)
    (h : SepFix V g S) (width : Int) (para pre suf : List (List Int))
    (hpara : ∀ t ∈ para, t ∈ V) :
    RRel (TRg g) (alignParaRight cxB width S (para.map g) (pre.map g) (suf.map g))
      (alignParaRight cxB width S para pre suf) := by
  have hS : S.map g = S := h.map_eq
  unfold alignParaRight
  dsimp only
  rw [gLen_B_map pre, gLen_B_map suf]
  have hbr : BRg g S (Block.new (gRepeat [cxB.sp] (gLen cxB pre) ++ para.map g) S)
      (Block.new (gRepeat [cxB.sp] (gLen cxB pre) ++ para) S) := by
    have := blockNew_BRg h (X := gRepeat [cxB.sp] (gLen cxB pre) ++ para)
      (BridgeEdit.over_append (sp_over hsp _) hpara)
    rwa [List.map_append, sp_map hmap.sp] at this
  generalize Block.new (gRepeat [cxB.sp] (gLen cxB pre) ++ para.map g) S = blA at hbr ⊢
  generalize Block.new (gRepeat [cxB.sp] (gLen cxB pre) ++ para) S = blB at hbr ⊢
  have hse : (gRepeat [cxB.sp] (gLen cxB suf)).map g = gRepeat [cxB.sp] (gLen cxB suf) :=
    sp_map hmap.sp _
  generalize gRepeat [cxB.sp] (gLen cxB suf) = se at hse ⊢
  generalize gRepeat [cxB.sp] (gLen cxB pre) = ss
  rw [hbr.lines_isEmpty, hbr.lines_length]
  refine RRel.ite _ (RRel.pure (hbr.join hS)) ?_
  refine RRel.bind (hbr.line _) (fun a b hab => ?_)
  refine RRel.bind (hbr.set _ (c := se ++ a) (d := se ++ b) ?_) (fun bA1 bB1 h1 => ?_)
  · show se ++ a = (se ++ b).map g
    rw [List.map_append, hse, hab]
  refine RRel.bind (h1.1.mapLines (fun l => alignRight cxB l width)
    (fun l => alignRight_B_map hmap l width)) (fun bA2 bB2 h2 => ?_)
  have hF : ∀ (n : Int) (l : List (List Int)),
      gSub cxB (l.map g) n (gLen cxB (l.map g)) = (gSub cxB l n (gLen cxB l)).map g := by
    intro n l
    rw [gLen_B_map, gSub_B_map]
  refine modLineG h2.1 _ 0 (F := fun l => gSub cxB l (gLen cxB ss) (gLen cxB l))
    (hF _) (fun bA3 bB3 h3 _ => ?_)
  refine modLineG h3 _ _ (F := fun l => gSub cxB l (gLen cxB se) (gLen cxB l))
    (hF _) (fun bA4 bB4 h4 _ => ?_)
  exact RRel.pure (h4.join hS)

theorem alignParaCenter_B_map (hmap : Spec.TokMap tkB tkB g)
    (h : SepFix V g S) (width : Int) (para pre suf : List (List Int))
    (hpara : ∀ t ∈ para, t ∈ V) :
    RRel (TRg g) (alignParaCenter cxB width S (para.map g) (pre.map g) (suf.map g))
      (alignParaCenter cxB width S para pre suf) := by
  have hS : S.map g = S := h.map_eq
  have hws : ∀ t, cxB.isSpace (g t) = cxB.isSpace t := hmap.ws
  unfold alignParaCenter
  dsimp only
  rw [gLen_B_map pre, gLen_B_map suf]
  have hbr : BRg g S (Block.new (para.map g) S) (Block.new para S) := blockNew_BRg h hpara
  generalize Block.new (para.map g) S = blA at hbr ⊢
  generalize Block.new para S = blB at hbr ⊢
  generalize gRepeat [cxB.sp] (gLen cxB suf) = se
  generalize gRepeat [cxB.sp] (gLen cxB pre) = ss
  rw [hbr.lines_isEmpty]
  refine RRel.ite _ (RRel.pure (hbr.join hS)) ?_
  refine RRel.bind (hbr.mapLines (fun l => alignCenter cxB l width)
    (fun l => alignCenter_B_map hmap l width)) (fun bA2 bB2 h2 => ?_)
  refine modLineG h2.1 _ 0 (F := fun first =>
      if countLeadingWs cxB first ≥ (gLen cxB ss : Int) then
        gSub cxB first (gLen cxB ss) (gLen cxB first)
      else gSub cxB first (countLeadingWs cxB first) ((gLen cxB first : Int) -
        (if (gLen cxB ss : Int) - countLeadingWs cxB first > countTrailingWs cxB first
          then countTrailingWs cxB first else (gLen cxB ss : Int) - countLeadingWs cxB first)))
    (fun l => by
      rw [countLeadingWs_B_map hws, countTrailingWs_B_map hws, gLen_B_map]
      split
      · exact gSub_B_map l _ _
      · exact gSub_B_map l _ _) (fun bA3 bB3 h3 _ => ?_)
  rw [h3.lines_length]
  refine modLineG h3 _ _ (F := fun last =>
      if countTrailingWs cxB last ≥ (gLen cxB se : Int) then
        gSub cxB last 0 (-(gLen cxB se : Int))
      else gSub cxB last
        (if (gLen cxB se : Int) - countTrailingWs cxB last > countLeadingWs cxB last
          then countLeadingWs cxB last else (gLen cxB se : Int) - countTrailingWs cxB last)
        ((gLen cxB last : Int) - countTrailingWs cxB last))
    (fun l => by
      rw [countLeadingWs_B_map hws, countTrailingWs_B_map hws, gLen_B_map]
      split
      · exact gSub_B_map l _ _
      · exact gSub_B_map l _ _) (fun bA4 bB4 h4 _ => ?_)
  exact RRel.pure (h4.join hS)

theorem alignParaCb_B_map (hmap : Spec.TokMap tkB tkB g) (hsp : [0x20] ∈ V)
    (h : SepFix V g S) (align width : Int) (i : Nat) (para pre suf : List (List Int))
    (hpara : ∀ t ∈ para, t ∈ V) :
    alignParaCb cxB align width S i (para.map g) (pre.map g) (suf.map g) =
      (alignParaCb cxB align width S i para pre suf).map (List.map (List.map g)) := by
  refine RRel.eq_map ?_
  unfold alignParaCb
  dsimp only
  have hk : ∀ {x y : R (List (List Int))}, RRel (TRg g) x y →
      RRel (fun a b => a = List.map (List.map g) b) (x >>= fun p => pure [p])
        (y >>= fun p => pure [p]) := fun h =>
    RRel.bind h (fun a b hab => RRel.pure (by rw [hab]; rfl))
  split
  · exact hk (alignParaLeft_B_map hmap hsp h width para pre suf hpara)
  · split
    · exact hk (alignParaRight_B_map hmap hsp h width para pre suf hpara)
    · exact hk (alignParaCenter_B_map hmap h width para pre suf hpara)

theorem alignOpts_B_para_map (hmap : Spec.TokMap tkB tkB g) (hsp : [0x20] ∈ V)
    (toks : List (List Int)) (ht : ∀ t ∈ toks, t ∈ V)
    (o0 o : Options (List Int)) (hpp : o.preservePara = true)
    (hL : SepFix V g (o.withDefaults cxB).lineSep) (hP : SepFix V g (o.withDefaults cxB).paraSep)
    (hLV : ∀ t ∈ (o.withDefaults cxB).lineSep, t ∈ V)
    (hPV : ∀ t ∈ (o.withDefaults cxB).paraSep, t ∈ V) (align width : Int) :
    Editor.alignOpts cxB (.root (toks.map g) o0) align width o =
      (Editor.alignOpts cxB (.root toks o0) align width o).map
        (fun e => e.withText (e.text.map g)) := by
  by_cases hal : align = Gen.alignLeft ∨ align = Gen.alignRight ∨ align = Gen.alignCenter
  · rw [alignOpts_para cxB _ align width o hal hpp, alignOpts_para cxB _ align width o hal hpp]
    exact applyParasM_B_map toks ht o0 o hL hP hLV hPV _
      (fun i para pre suf hpara _ _ => alignParaCb_B_map hmap hsp hL align width i para pre suf hpara)
  · have hal' : align = Gen.alignNone ∨
        (align ≠ Gen.alignLeft ∧ align ≠ Gen.alignRight ∧ align ≠ Gen.alignCenter) :=
      Or.inr ⟨fun h => hal (.inl h), fun h => hal (.inr (.inl h)), fun h => hal (.inr (.inr h))⟩
    rw [alignOpts_none cxB _ align width o hal', alignOpts_none cxB _ align width o hal']
    rfl

end alignPara

end BridgeNatural2

open BridgeNatural2 BridgeEditorParas BridgeEditorOps in
/-- **E4 (AlignOpts, paragraph mode).** every value of `align`; no placeholder letter is involved
(the paragraph callbacks of AlignOpts pad with spaces) -/
theorem alignOpts_natural_para {V V' : List (List Int)} (hV : VocabStable V = true)
    (hsp : [0x20] ∈ V) (hV' : VocabStable V' = true)
    (g : List Int → List Int) (hg : ∀ t ∈ V, g t ∈ V')
    (hws : ∀ t, cxB.isSpace (g t) = cxB.isSpace t) (hgsp : g [0x20] = [0x20])
    (hghy : g [0x2D] = [0x2D])
    (toks : List (List Int)) (ht : ∀ t ∈ toks, t ∈ V) (align width : Int)
    (o0 o : Options (List Int)) (hpp : o.preservePara = true)
    (hG : GoodPara V (o.withDefaults cxB).lineSep (o.withDefaults cxB).paraSep)
    (hG' : GoodPara V' (o.withDefaults cxB).lineSep (o.withDefaults cxB).paraSep)
    (hfix : ∀ s ∈ (o.withDefaults cxB).lineSep, g s = s)
    (hinv : ∀ t ∈ V, g t ∈ (o.withDefaults cxB).lineSep → t ∈ (o.withDefaults cxB).lineSep)
    (hfixP : ∀ s ∈ (o.withDefaults cxB).paraSep, g s = s)
    (hinvP : ∀ t ∈ V, g t ∈ (o.withDefaults cxB).paraSep → t ∈ (o.withDefaults cxB).paraSep) :
    ∃ r : List (List Int),
      Editor.alignOpts cxA (.root toks.flatten o0.flat) align width o.flat =
        .ok (.root r.flatten o0.flat) ∧
      Editor.alignOpts cxA (.root (toks.map g).flatten o0.flat) align width o.flat =
        .ok (.root (r.map g).flatten o0.flat) ∧
      Editor.alignOpts cxB (.root toks o0) align width o = .ok (.root r o0) := by
  have hmap : Spec.TokMap tkB tkB g := ⟨hws, hgsp, hghy⟩
  refine natural_of_bridge (opA := fun e => Editor.alignOpts cxA e align width o.flat)
    (opB := fun e => Editor.alignOpts cxB e align width o) toks o0 g
    (alignOpts_bridge_para hV hsp (.root toks o0) ht align width o hpp hG)
    (alignOpts_bridge_para hV' (hgsp ▸ hg _ hsp) (.root (toks.map g) o0) (over_map hg ht) align
      width o hpp hG')
    (alignOpts_B_para_map hmap hsp toks ht o0 o hpp ⟨hfix, hinv⟩ ⟨hfixP, hinvP⟩ hG.lineV hG.paraV
      align width)
    (alignOpts_total (cx := cxA) _ align width o.flat) ?_
  intro e he
  by_cases hal : align = Gen.alignLeft ∨ align = Gen.alignRight ∨ align = Gen.alignCenter
  · rw [alignOpts_para cxB _ align width o hal hpp] at he
    exact applyParasM_ok_shape cxB _ _ o e he
  · have hal' : align = Gen.alignNone ∨
        (align ≠ Gen.alignLeft ∧ align ≠ Gen.alignRight ∧ align ≠ Gen.alignCenter) :=
      Or.inr ⟨fun h => hal (.inl h), fun h => hal (.inr (.inl h)), fun h => hal (.inr (.inr h))⟩
    rw [alignOpts_none cxB _ align width o hal'] at he
    exact ⟨toks, (Except.ok.inj he).symm⟩

/-! ### E.5 a concrete instance for paragraph mode -/

namespace BridgeNatural2
open BridgeComposite BridgeEditorParas

/-- `BridgeNatural.demoVocabNFC` plus the placeholder letter "A" -/
def demoVocabNFCA : List (List Int) := demoVocabNFC ++ [[0x41]]

theorem demoVocabNFCA_stable : VocabStable demoVocabNFCA = true := by decide +kernel

theorem demoVocabNFCA_marker_nl : Marker demoVocabNFCA [0x0A] :=
  ⟨0x0A, [], rfl, List.not_mem_nil, by decide⟩

theorem demoVocabNFCA_goodPara : GoodPara demoVocabNFCA [[0x0A]] [[0x0A], [0x0A]] :=
  goodPara_markers demoVocabNFCA_stable _ _ (by simp) (by simp)
    (by intro s hs; rw [List.mem_singleton] at hs; rw [hs]; exact demoVocabNFCA_marker_nl)
    (by
      intro s hs
      simp only [List.mem_cons, List.not_mem_nil, or_false, or_self] at hs
      rw [hs]; exact demoVocabNFCA_marker_nl)
    (by decide) (by decide)

/-- paragraph mode, default separators (`"\n"`, `"\n\n"`: the look-ahead of the paragraph loop is
active), default indent; `BridgeEditorParas.demoVocabA` (decomposed `é`, flag, `A`) into
`demoVocabNFCA` by the non-injective `BridgeNatural.demoG`: every text, alignment value, width and
level -/
example (toks : List (List Int)) (ht : ∀ t ∈ toks, t ∈ demoVocabA) (align width level : Int)
    (o0 : Options (List Int)) :
    (∃ r : List (List Int),
      Editor.wrapOpts cxA (.root toks.flatten o0.flat) width
        ({ preservePara := true } : Options (List Int)).flat = .ok (.root r.flatten o0.flat) ∧
      Editor.wrapOpts cxA (.root (toks.map demoG).flatten o0.flat) width
        ({ preservePara := true } : Options (List Int)).flat =
          .ok (.root (r.map demoG).flatten o0.flat)) ∧
    (∃ r : List (List Int),
      Editor.justifyOpts cxA (.root toks.flatten o0.flat) width
        ({ preservePara := true } : Options (List Int)).flat = .ok (.root r.flatten o0.flat) ∧
      Editor.justifyOpts cxA (.root (toks.map demoG).flatten o0.flat) width
        ({ preservePara := true } : Options (List Int)).flat =
          .ok (.root (r.map demoG).flatten o0.flat)) ∧
    (∃ r : List (List Int),
      Editor.alignOpts cxA (.root toks.flatten o0.flat) align width
        ({ preservePara := true } : Options (List Int)).flat = .ok (.root r.flatten o0.flat) ∧
      Editor.alignOpts cxA (.root (toks.map demoG).flatten o0.flat) align width
        ({ preservePara := true } : Options (List Int)).flat =
          .ok (.root (r.map demoG).flatten o0.flat)) ∧
    (∃ r : List (List Int),
      Editor.indentOpts cxA (.root toks.flatten o0.flat) level
        ({ preservePara := true } : Options (List Int)).flat = .ok (.root r.flatten o0.flat) ∧
      Editor.indentOpts cxA (.root (toks.map demoG).flatten o0.flat) level
        ({ preservePara := true } : Options (List Int)).flat =
          .ok (.root (r.map demoG).flatten o0.flat)) := by
  have hseps := default_seps ({ preservePara := true } : Options (List Int)) rfl rfl
  have hind : (({ preservePara := true } : Options (List Int)).withDefaults cxB).indentStr =
      [[0x09]] := by
    rw [(withDefaults_fields cxB _).2.1]; exact dIndent_B
  have hg : ∀ t ∈ demoVocabA, demoG t ∈ demoVocabNFCA := by decide
  have hspT : ∀ t ∈ demoVocabA, (0x20 : Int) ∉ t.tail := spTail_of_spOnly (by decide)
  have hspT' : ∀ t ∈ demoVocabNFCA, (0x20 : Int) ∉ t.tail := by decide
  refine ⟨?_, ?_, ?_, ?_⟩
  · obtain ⟨r, h1, h2, -⟩ := wrapOpts_natural_para demoVocabA_stable (by decide) (by decide)
      (by decide) hspT demoVocabNFCA_stable hspT' demoG hg demoG_ws rfl rfl rfl toks ht width o0
      { preservePara := true } rfl (by rw [hseps.1, hseps.2]; exact demoVocabA_goodPara)
      (by rw [hseps.1, hseps.2]; exact demoVocabNFCA_goodPara) (by rw [hseps.1]; decide)
      (by rw [hseps.1]; decide) (by rw [hseps.2]; decide) (by rw [hseps.2]; decide)
      (by rw [hseps.1]; decide)
    exact ⟨r, h1, h2⟩
  · obtain ⟨r, h1, h2, -⟩ := justifyOpts_natural_para demoVocabA_stable (by decide)
      (by decide) hspT demoVocabNFCA_stable hspT' demoG hg demoG_ws rfl rfl rfl toks ht width o0
      { preservePara := true } rfl (by rw [hseps.1, hseps.2]; exact demoVocabA_goodPara)
      (by rw [hseps.1, hseps.2]; exact demoVocabNFCA_goodPara) (by rw [hseps.1]; decide)
      (by rw [hseps.1]; decide) (by rw [hseps.2]; decide) (by rw [hseps.2]; decide)
      (by rw [hseps.1]; decide)
    exact ⟨r, h1, h2⟩
  · obtain ⟨r, h1, h2, -⟩ := alignOpts_natural_para demoVocabA_stable (by decide)
      demoVocabNFCA_stable demoG hg demoG_ws rfl rfl toks ht align width o0
      { preservePara := true } rfl (by rw [hseps.1, hseps.2]; exact demoVocabA_goodPara)
      (by rw [hseps.1, hseps.2]; exact demoVocabNFCA_goodPara) (by rw [hseps.1]; decide)
      (by rw [hseps.1]; decide) (by rw [hseps.2]; decide) (by rw [hseps.2]; decide)
    exact ⟨r, h1, h2⟩
  · obtain ⟨r, h1, h2, -⟩ := indentOpts_natural_para demoVocabA_stable demoVocabNFCA_stable demoG
      hg toks ht level o0 { preservePara := true } rfl
      (by rw [hseps.1, hseps.2]; exact demoVocabA_goodPara)
      (by rw [hseps.1, hseps.2]; exact demoVocabNFCA_goodPara) (by rw [hseps.1]; decide)
      (by rw [hseps.1]; decide) (by rw [hseps.2]; decide) (by rw [hseps.2]; decide)
      (by rw [hind]; decide) (by rw [hind]; decide)
    exact ⟨r, h1, h2⟩

end BridgeNatural2

end RosedVerif
