/-
Layer A/B executable model — basics.  Generic in the atom type `α` and in the
segmentation `Ctx.ends`:
  * instance A: α = Int (code points), ends = the Go rule chain (`splitRunes`);
  * instance B: α = any token type, ends = "every atom is its own cluster".
Go panics are `Except.error` values, never defaulted away.
-/
namespace RosedVerif

inductive Err
  | index        -- index out of range
  | slice        -- slice bounds out of range
  | repeatNeg    -- strings.Repeat: negative count
  | explicit     -- an explicit panic(...) in the source
  | invalidUtf8  -- a byte offset that is not on a rune boundary (result would not be valid UTF-8)
  | fuel         -- a model loop ran out of fuel (never reachable if the termination lemmas hold)
  deriving DecidableEq, Repr, Inhabited

abbrev R := Except Err

structure Ctx (α : Type) where
  /-- exclusive cluster ends (gem.Split) -/
  ends : List α → List Nat
  /-- unicode.IsSpace -/
  isSpace : α → Bool
  /-- UTF-8 length in bytes -/
  blen : α → Nat
  /-- unicode.ToUpper -/
  upper : α → α
  sp : α
  hy : α
  phA : α
  /-- `r + 1` on runes: the candidate after `r` for the placeholder of Editor.WrapOpts / JustifyOpts (the
  first candidate is `phA`); only looked at when the line separator contains `phA` -/
  phNext : α → α := id
  nl : α
  dIndent : List α
  dLineSep : List α
  dParaSep : List α
  dCharset : List α

section strings
variable {α : Type} [DecidableEq α]

/-- strings.Index: leftmost occurrence of `p` in `s` -/
def indexOf (p : List α) : List α → Option Nat
  | [] => if p.isEmpty then some 0 else none
  | c :: t => if p.isPrefixOf (c :: t) then some 0 else (indexOf p t).map (· + 1)

def splitOnAux (sep : List α) : List α → Nat → List α → List (List α)
  | [], _, cur => [cur.reverse]
  | _ :: t, skip + 1, cur => splitOnAux sep t skip cur
  | c :: t, 0, cur =>
    if sep.isPrefixOf (c :: t) then cur.reverse :: splitOnAux sep t (sep.length - 1) []
    else splitOnAux sep t 0 (c :: cur)

/-- strings.Split (leftmost, non-overlapping). Empty separator: explode into atoms, as Go does. -/
def splitOn (s sep : List α) : List (List α) :=
  if sep.isEmpty then s.map fun c => [c] else splitOnAux sep s 0 []

/-- strings.Join -/
def joinWith (sep : List α) (parts : List (List α)) : List α := List.intercalate sep parts

/-- strings.ReplaceAll for a non-empty `old` -/
def replaceAll (s old new : List α) : List α := joinWith new (splitOn s old)

/-- strings.Repeat -/
def repeatStr (s : List α) (n : Int) : R (List α) :=
  if n < 0 then throw .repeatNeg else pure (List.replicate n.toNat s).flatten

/-- gem.Repeat / gem.RepeatStr: a non-positive count gives the empty string -/
def gRepeat (s : List α) (n : Int) : List α := (List.replicate n.toNat s).flatten

end strings

/-- util.RangeToIndexes -/
def rangeToIndexes (size start end_ : Int) : Int × Int :=
  let start := if start < 0 then (if start + size < 0 then 0 else start + size) else start
  let end_ := if end_ < 0 then (if end_ + size < 0 then 0 else end_ + size) else end_
  let end_ := if end_ > size then size else end_
  let start := if start > size then size else start
  let end_ := if end_ < start then start else end_
  (start, end_)

/-- Go `int` arithmetic wraps at 64 bits -/
def wrap64 (x : Int) : Int := (x + 2^63) % 2^64 - 2^63

section gem
variable {α : Type} [DecidableEq α] (cx : Ctx α)

/-- gem.String.Len -/
def gLen (s : List α) : Nat := (cx.ends s).length

/-- rune range `[start, end)` of cluster `i` given the ends list -/
def clusterSpan (e : List Nat) (i : Nat) : Nat × Nat :=
  ((if i > 0 then e.getD (i - 1) 0 else 0), e.getD i 0)

def sliceRunes (s : List α) (a b : Nat) : List α := (s.drop a).take (b - a)

/-- the clusters of `s` -/
def clustersFrom (s : List α) (prev : Nat) : List Nat → List (List α)
  | [] => []
  | e :: es => sliceRunes s prev e :: clustersFrom s e es

def clusters (s : List α) : List (List α) := clustersFrom s 0 (cx.ends s)

/-- gem.String.CharAt (panics on an index outside [0, Len)) -/
def gCharAt (s : List α) (idx : Int) : R (List α) :=
  let e := cx.ends s
  if idx < 0 ∨ idx ≥ e.length then throw .index
  else
    let (a, b) := clusterSpan e idx.toNat
    pure (sliceRunes s a b)

/-- gem.String.Sub -/
def gSub (s : List α) (start end_ : Int) : List α :=
  let e := cx.ends s
  let (st, en) := rangeToIndexes e.length start end_
  if st == en then []
  else
    let a := if st > 0 then e.getD (st.toNat - 1) 0 else 0
    let b := e.getD (en.toNat - 1) 0
    sliceRunes s a b

/-- gem.String.SetCharAt -/
def gSetCharAt (s : List α) (idx : Int) (r : List α) : R (List α) :=
  if r.isEmpty then throw .explicit
  else
    let e := cx.ends s
    if idx < 0 ∨ idx ≥ e.length then throw .index
    else
      let (a, b) := clusterSpan e idx.toNat
      pure (s.take a ++ r ++ s.drop b)

/-- gem.String.Reverse (rune content) -/
def gReverse (s : List α) : List α := (clusters cx s).reverse.flatten

/-- first index whose element satisfies `f`, or -1 -/
def findIdxInt {β : Type} (f : β → Bool) (l : List β) : Int :=
  match l.findIdx? f with
  | some i => i
  | none => -1

/-- gem.String.IndexFunc -/
def gIndexFunc (f : List α → Bool) (s : List α) : Int := findIdxInt f (clusters cx s)

/-- gem.String.LastIndexFunc: the reversed String carries the original clusters in reverse
order in its cache, so this scans the original clusters from the right. -/
def gLastIndexFunc (f : List α → Bool) (s : List α) : Int :=
  let cl := clusters cx s
  let ri := findIdxInt f cl.reverse
  if ri == -1 then -1 else ((cl.length : Int) - 1) - ri

/-- `!unicode.IsSpace(gc[0])`; clusters are never empty (Theory), `[]` is mapped to false -/
def notSpaceHead (gc : List α) : Bool :=
  match gc with
  | [] => false
  | c :: _ => !cx.isSpace c

/-- the loop `for strings.ContainsRune(sep, c) { c++ }` of affixPlaceholder with at most `n` tests;
after `n` tests the next candidate is taken untested -/
def phSearch (sep : List α) : Nat → α → α
  | 0, c => c
  | n + 1, c => if c ∈ sep then phSearch sep n (cx.phNext c) else c

/-- affixPlaceholder: the stand-in Editor.WrapOpts and JustifyOpts pad a paragraph with in place of
the paragraph separator's affixes: the first of `phA, phNext phA, …` that does not occur in the line separator `sep` (which
Wrap turns into spaces and Justify splits on).  `|sep|` tests suffice: of `|sep| + 1` pairwise different candidates one
is not among the `|sep|` atoms of `sep` (`Ctx.PhFresh`; a theorem for instance A) -/
def Ctx.placeholder (sep : List α) : α := phSearch cx sep sep.length cx.phA

/-- the placeholder search finds, within its fuel, a candidate that is not in the separator -/
def Ctx.PhFresh : Prop := ∀ sep : List α, cx.placeholder sep ∉ sep

/-- a separator without `phA` is padded with `phA` (the search stops at the first test) -/
theorem phSearch_of_not_mem {sep : List α} {c : α} (h : c ∉ sep) (n : Nat) :
    phSearch cx sep n c = c := by
  cases n with
  | zero => rfl
  | succ n => simp only [phSearch, h, if_false]

theorem Ctx.placeholder_eq_phA {sep : List α} (h : cx.phA ∉ sep) : cx.placeholder sep = cx.phA :=
  phSearch_of_not_mem cx h _

/-- manip.CountLeadingWhitespace -/
def countLeadingWs (s : List α) : Int :=
  let i := gIndexFunc cx (notSpaceHead cx) s
  if i == -1 then gLen cx s else i

/-- manip.CountTrailingWhitespace -/
def countTrailingWs (s : List α) : Int :=
  (gLen cx s : Int) - gLastIndexFunc cx (notSpaceHead cx) s - 1

end gem
end RosedVerif
