/-
The stand-in Editor.WrapOpts pads paragraphs with (repair of defect D18): `Ctx.placeholder sep`
(Model/Basic.lean) is the first of `phA, phNext phA, phNext (phNext phA), …` that does not occur in
the line separator `sep`; it is searched with `|sep|` tests.

  * `phSearch_mem_all`: a search that ends on a member of `sep` has seen `n + 1` members of `sep`;
  * `phFresh_of_distinct` (pigeonhole): when the candidates are pairwise different, the search with
    `|sep|` tests ends outside `sep` — `Ctx.PhFresh`;
  * `phFresh_cxA`: instance A (`phNext r = r + 1`) is such a context, for EVERY separator.
-/
import RosedVerif.Model.InstA
namespace RosedVerif

section
variable {α : Type} [DecidableEq α] (cx : Ctx α)

/-- the `i`-th candidate after `c` -/
def phIter : Nat → α → α
  | 0, c => c
  | i + 1, c => phIter i (cx.phNext c)

/-- a search that ends on a member of `sep` went through `n + 1` candidates that are all in `sep` -/
theorem phSearch_mem_all (sep : List α) : ∀ (n : Nat) (c : α), phSearch cx sep n c ∈ sep →
    ∀ i, i ≤ n → phIter cx i c ∈ sep
  | 0, c, h, i, hi => by
    have h0 : i = 0 := by omega
    subst h0
    exact h
  | n + 1, c, h, i, hi => by
    unfold phSearch at h
    by_cases hc : c ∈ sep
    · rw [if_pos hc] at h
      cases i with
      | zero => exact hc
      | succ i => exact phSearch_mem_all sep n (cx.phNext c) h i (by omega)
    · rw [if_neg hc] at h
      exact absurd h hc

/-- pigeonhole: `|sep| + 1` pairwise different candidates are not all among the `|sep|` atoms of
`sep`, so the search with `|sep|` tests ends outside `sep` -/
theorem phFresh_of_distinct
    (hd : ∀ i j : Nat, i < j → phIter cx i cx.phA ≠ phIter cx j cx.phA) : cx.PhFresh := by
  intro sep hmem
  have hall := phSearch_mem_all cx sep sep.length cx.phA hmem
  have hnd : ((List.range (sep.length + 1)).map fun i => phIter cx i cx.phA).Nodup :=
    List.Pairwise.map _ (fun i j hij => hd i j hij) List.pairwise_lt_range
  have hsub : ((List.range (sep.length + 1)).map fun i => phIter cx i cx.phA) ⊆ sep := by
    intro x hx
    obtain ⟨i, hi, rfl⟩ := List.mem_map.1 hx
    exact hall i (by have := List.mem_range.1 hi; omega)
  have hle := hnd.length_le_of_subset hsub
  simp only [List.length_map, List.length_range] at hle
  omega

/-- the search returns the first candidate outside the separator (or, after `n` tests, the next
one): it is the `k`-th candidate for some `k ≤ n`, and every earlier candidate is in `sep` -/
theorem phSearch_spec (sep : List α) : ∀ (n : Nat) (c : α),
    ∃ k, k ≤ n ∧ phSearch cx sep n c = phIter cx k c ∧ ∀ j, j < k → phIter cx j c ∈ sep
  | 0, c => ⟨0, Nat.le_refl _, rfl, fun j hj => by omega⟩
  | n + 1, c => by
    unfold phSearch
    by_cases hc : c ∈ sep
    · rw [if_pos hc]
      obtain ⟨k, hk, h1, h2⟩ := phSearch_spec sep n (cx.phNext c)
      refine ⟨k + 1, by omega, h1, fun j hj => ?_⟩
      cases j with
      | zero => exact hc
      | succ j => exact h2 j (by omega)
    · rw [if_neg hc]
      exact ⟨0, by omega, rfl, fun j hj => by omega⟩

end

/-! ## instance A -/

theorem phIter_cxA : ∀ (i : Nat) (c : Int), phIter cxA i c = c + i
  | 0, c => by simp only [phIter, Int.natCast_zero, Int.add_zero]
  | i + 1, c => by
    rw [phIter, phIter_cxA i]
    show c + 1 + (i : Int) = c + ((i + 1 : Nat) : Int)
    omega

/-- on code points the search finds a letter outside the separator, for EVERY separator: the
candidates `0x41, 0x42, …` are pairwise different -/
theorem phFresh_cxA : cxA.PhFresh :=
  phFresh_of_distinct cxA (fun i j hij => by rw [phIter_cxA, phIter_cxA]; omega)

/-- … and it is the first of them: `0x41 + k` with `k ≤ |sep|`, every letter before it occurs in
the separator -/
theorem placeholder_cxA_first (sep : List Int) :
    ∃ k : Nat, k ≤ sep.length ∧ cxA.placeholder sep = 0x41 + (k : Int) ∧
      ∀ j : Nat, j < k → (0x41 + (j : Int)) ∈ sep := by
  obtain ⟨k, hk, h1, h2⟩ := phSearch_spec cxA sep sep.length cxA.phA
  refine ⟨k, hk, ?_, fun j hj => ?_⟩
  · rw [← phIter_cxA k 0x41]; exact h1
  · rw [← phIter_cxA j 0x41]; exact h2 j hj

end RosedVerif
