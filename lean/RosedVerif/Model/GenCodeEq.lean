/-
Equality of every definition regenerated from the Go source (Gen/Code.lean, written by harness/gofn.go on
every run) with the hand-written model.  One theorem `<name>_regenerated` per function; each starts with
`first | exact absurd h (by decide) | …` so that it also checks when the translator refused the function
(the stub then carries `<name>_extracted = false`).

Proof style: unfold both sides, normalise the primitive layer (`Go.*` are one-liners over the model's
primitives) and the `Except` monad, then case-split (`split`) and close with `simp`/`omega`/`grind`, so that a
semantically equivalent rewrite of the Go function re-proves by itself.
-/
import RosedVerif.Gen.Code
import RosedVerif.Model.PosLemmas
import RosedVerif.Model.OptionsLemmas
import RosedVerif.Model.StringsLemmas
import RosedVerif.Model.LinesLemmas
set_option linter.unusedVariables false
set_option linter.unusedSectionVars false
set_option linter.unusedSimpArgs false
namespace RosedVerif.GenCodeEq
open RosedVerif

variable {α : Type} [DecidableEq α] (cx : Ctx α)

theorem natCast_le_zero {β : Type} (l : List β) : ((l.length : Int) ≤ 0) ↔ l = [] := by
  cases l <;> simp <;> omega
theorem natCast_lt_one {β : Type} (l : List β) : ((l.length : Int) < 1) ↔ l = [] := by
  cases l <;> simp <;> omega
theorem zero_lt_natCast {β : Type} (l : List β) : (0 < (l.length : Int)) ↔ l ≠ [] := by
  cases l <;> simp <;> omega
theorem natCast_eq_zero {β : Type} (l : List β) : ((l.length : Int) = 0) ↔ l = [] := by
  cases l <;> simp <;> omega

/-- normalisation of the primitive layer and of the `Except` monad -/
macro "go_norm" : tactic => `(tactic|
  try simp only [natCast_le_zero, natCast_lt_one, zero_lt_natCast, natCast_eq_zero, List.isEmpty_iff,Go.gsLen, Go.gsSub, Go.gsAdd, Go.gsIsEmpty, Go.gsIndexFunc, Go.gsLastIndexFunc, Go.gsEqual,
    Go.gemRepeatStr, Go.stringsSplit, Go.stringsJoin, Go.stringsReplaceAll, Go.stringsHasSuffix,
    Go.stringsHasPrefix, Go.stringsCount, Go.stringsToUpper, Go.unicodeIsSpace, Go.isSpaceHead,
    Go.collapseSpaceRuns, Go.sliceLen, Go.strLen, Go.strSplice, Go.strSlice, Go.gsCharAt, Go.gsSetCharAt,
    Go.stringsRepeat, Go.edCache,
    pure_bind, bind_assoc, Bool.not_not, Bool.not_eq_true', decide_eq_true_eq,
    Bool.decide_eq_true, Bool.not_eq_true])

/-- split every `if`/`match`, then close each case -/
macro "go_close" : tactic => `(tactic|
  ((repeat' split) <;> (first | rfl | (simp_all; done) | grind [List.isEmpty_iff])))

theorem ite_pure {γ : Type} (c : Prop) [Decidable c] (a b : γ) :
    (if c then (pure a : R γ) else pure b) = pure (if c then a else b) := by split <;> rfl

theorem ite_pure_bind {γ δ : Type} (c : Prop) [Decidable c] (a b : γ) (f : γ → R δ) :
    ((if c then (pure a : R γ) else pure b) >>= f) = f (if c then a else b) := by split <;> rfl

theorem countLeadingWhitespace_regenerated (h : Gen.Code.countLeadingWhitespace_extracted = true) (text : List α) :
    Gen.Code.countLeadingWhitespace cx text = pure (countLeadingWs cx text) := by
  first
    | exact absurd h (by decide)
    | (unfold Gen.Code.countLeadingWhitespace countLeadingWs
       go_norm
       split <;> simp_all)

theorem countTrailingWhitespace_regenerated (h : Gen.Code.countTrailingWhitespace_extracted = true) (text : List α) :
    Gen.Code.countTrailingWhitespace cx text = pure (countTrailingWs cx text) := by
  first
    | exact absurd h (by decide)
    | (unfold Gen.Code.countTrailingWhitespace countTrailingWs
       go_norm)

theorem alignLineLeft_regenerated (h : Gen.Code.alignLineLeft_extracted = true) (text : List α) (width : Int) :
    Gen.Code.alignLineLeft cx text width = pure (alignLeft cx text width) := by
  first
    | exact absurd h (by decide)
    | (unfold Gen.Code.alignLineLeft alignLeft
       rw [countLeadingWhitespace_regenerated cx (by decide)]
       go_norm
       repeat' split
       all_goals (first | rfl | (simp_all; done) | grind))

theorem alignLineRight_regenerated (h : Gen.Code.alignLineRight_extracted = true) (text : List α) (width : Int) :
    Gen.Code.alignLineRight cx text width = pure (alignRight cx text width) := by
  first
    | exact absurd h (by decide)
    | (unfold Gen.Code.alignLineRight alignRight
       rw [countTrailingWhitespace_regenerated cx (by decide)]
       go_norm
       go_close)

theorem alignLineCenter_regenerated (h : Gen.Code.alignLineCenter_extracted = true) (text : List α) (width : Int) :
    Gen.Code.alignLineCenter cx text width = pure (alignCenter cx text width) := by
  first
    | exact absurd h (by decide)
    | (unfold Gen.Code.alignLineCenter alignCenter
       rw [countLeadingWhitespace_regenerated cx (by decide), countTrailingWhitespace_regenerated cx (by decide)]
       go_norm
       go_close)

theorem parseTableCharSet_regenerated (h : Gen.Code.parseTableCharSet_extracted = true) (charSet : List α) :
    Gen.Code.parseTableCharSet cx charSet = pure (parseTableCharSet cx charSet) := by
  first
    | exact absurd h (by decide)
    | (unfold Gen.Code.parseTableCharSet parseTableCharSet
       go_norm
       go_close)

theorem optionsWithDefaults_regenerated (h : Gen.Code.optionsWithDefaults_extracted = true) (o : Options α) :
    Gen.Code.optionsWithDefaults cx o = pure (o.withDefaults cx) := by
  first
    | exact absurd h (by decide)
    | (unfold Gen.Code.optionsWithDefaults Options.withDefaults
       go_norm
       go_close)

/-! ### tb.Block -/

theorem blockLen_regenerated (h : Gen.Code.blockLen_extracted = true) (b : Block α) :
    Gen.Code.blockLen cx b = pure (b.lines.length : Int) := by
  first
    | exact absurd h (by decide)
    | (unfold Gen.Code.blockLen
       go_norm)

theorem blockLine_regenerated (h : Gen.Code.blockLine_extracted = true) (b : Block α) (pos : Int) :
    Gen.Code.blockLine cx b pos = b.line pos := by
  first
    | exact absurd h (by decide)
    | (unfold Gen.Code.blockLine Block.line Go.idx
       go_norm
       go_close)

theorem blockCharCount_regenerated (h : Gen.Code.blockCharCount_extracted = true) (b : Block α) (pos : Int) :
    Gen.Code.blockCharCount cx b pos = (do let l ← b.line pos; pure (gLen cx l : Int)) := by
  first
    | exact absurd h (by decide)
    | (unfold Gen.Code.blockCharCount
       rw [blockLine_regenerated cx (by decide)]
       go_norm)

theorem blockSet_regenerated (h : Gen.Code.blockSet_extracted = true) (b : Block α) (pos : Int) (content : List α) :
    Gen.Code.blockSet cx b pos content = b.set pos content := by
  first
    | exact absurd h (by decide)
    | (unfold Gen.Code.blockSet Block.set Go.sliceSet
       go_norm
       go_close)

theorem blockAppend_regenerated (h : Gen.Code.blockAppend_extracted = true) (b : Block α) (content : List α) :
    Gen.Code.blockAppend cx b content = pure (b.append content) := by
  first
    | exact absurd h (by decide)
    | (unfold Gen.Code.blockAppend Block.append
       go_norm
       go_close)

theorem blockJoin_regenerated (h : Gen.Code.blockJoin_extracted = true) (b : Block α) :
    Gen.Code.blockJoin cx b = pure b.join := by
  first
    | exact absurd h (by decide)
    | (unfold Gen.Code.blockJoin Block.join
       rw [blockLen_regenerated cx (by decide)]
       go_norm
       go_close)

/-! ### Editor -/

theorem edit_regenerated (h : Gen.Code.edit_extracted = true) (t : List α) :
    Gen.Code.edit cx t = pure (Editor.root t {}) := by
  first
    | exact absurd h (by decide)
    | rfl

theorem editorIsSubEditor_regenerated (h : Gen.Code.editorIsSubEditor_extracted = true) (ed : Editor α) :
    Gen.Code.editorIsSubEditor cx ed = pure ed.isSub := by
  first
    | exact absurd h (by decide)
    | (unfold Gen.Code.editorIsSubEditor
       cases ed <;> rfl)

theorem editorWithOptions_regenerated (h : Gen.Code.editorWithOptions_extracted = true) (ed : Editor α) (o : Options α) :
    Gen.Code.editorWithOptions cx ed o = pure (ed.withOpts o) := by
  first
    | exact absurd h (by decide)
    | rfl

theorem editorCharCount_regenerated (h : Gen.Code.editorCharCount_extracted = true) (ed : Editor α) :
    Gen.Code.editorCharCount cx ed = pure (ed.charCount cx : Int) := by
  first
    | exact absurd h (by decide)
    | (unfold Gen.Code.editorCharCount Editor.charCount
       go_norm
       simp [Go.deref])

theorem idx_nat {β : Type} (l : List β) (k : Nat) (hk : k < l.length) : Go.idx l (k : Int) = pure l[k] := by
  unfold Go.idx
  rw [dif_pos (by omega)]
  simp

/-! ### Editor.Chars -/

/-- the byte-offset search loop of `Chars` (state: chIdx, byteStart, byteEnd); `L = len(ed.Text)` -/
def chBody {ρ : Type} (rs re L : Int) (_i : Int) (byteIdx : Int) (s : Int × Int × Int) : R ((Int × Int × Int) × Go.Ctl ρ) :=
  if s.1 + 1 = rs then
    (if re ≥ L then pure ((s.1 + 1, byteIdx, s.2.2), Go.Ctl.brk)
     else if s.1 + 1 = re then pure ((s.1 + 1, byteIdx, byteIdx), Go.Ctl.brk)
     else pure ((s.1 + 1, byteIdx, s.2.2), Go.Ctl.next))
  else if s.1 + 1 = re then pure ((s.1 + 1, s.2.1, byteIdx), Go.Ctl.brk)
  else pure ((s.1 + 1, s.2.1, s.2.2), Go.Ctl.next)

/-- after the start was found: run on to the end position -/
theorem ch_loop_B2 {ρ : Type} (f : Nat → Int) (rs re : Nat) (L : Int) (hL : ¬ ((re : Int) ≥ L)) :
    ∀ (m k : Nat) (i bs be : Int), k ≤ re → re < k + m → rs < k →
      Go.forRangeCtlAux (ρ := ρ) (chBody rs re L) i ((List.range' k m).map f) ((k : Int) - 1, bs, be) =
        pure (((re : Int), bs, f re), none) := by
  intro m
  induction m with
  | zero => intro k i bs be h1 h2 _; omega
  | succ m ih =>
    intro k i bs be h1 h2 h3
    simp only [List.range'_succ, List.map_cons, Go.forRangeCtlAux, chBody]
    have e1 : ((k : Int) - 1 + 1) = (k : Int) := by omega
    have n1 : ¬ ((k : Int) = (rs : Int)) := by omega
    simp only [e1, n1, if_false]
    by_cases hk : k = re
    · subst hk
      simp
    · have n2 : ¬ ((k : Int) = (re : Int)) := by omega
      simp only [n2, if_false, pure_bind]
      have := ih (k + 1) (i + 1) bs be (by omega) (by omega) (by omega)
      simp only [Int.natCast_add, Int.cast_ofNat_Int, Int.add_sub_cancel] at this
      exact this

/-- an end position inside the text -/
theorem ch_loop_B1 {ρ : Type} (f : Nat → Int) (rs re : Nat) (L : Int) (hL : ¬ ((re : Int) ≥ L)) :
    ∀ (m k : Nat) (i bs be : Int), k ≤ rs → rs ≤ re → re < k + m →
      Go.forRangeCtlAux (ρ := ρ) (chBody rs re L) i ((List.range' k m).map f) ((k : Int) - 1, bs, be) =
        pure (((re : Int), f rs, f re), none) := by
  intro m
  induction m with
  | zero => intro k i bs be h1 h2 h3; omega
  | succ m ih =>
    intro k i bs be h1 h2 h3
    by_cases hk : k = rs
    · subst hk
      simp only [List.range'_succ, List.map_cons, Go.forRangeCtlAux, chBody]
      have e1 : ((k : Int) - 1 + 1) = (k : Int) := by omega
      simp only [e1, hL, if_true, if_false]
      by_cases hk2 : k = re
      · subst hk2; simp
      · have n2 : ¬ ((k : Int) = (re : Int)) := by omega
        simp only [n2, if_false, pure_bind]
        have := ch_loop_B2 (ρ := ρ) f k re L hL m (k + 1) (i + 1) (f k) be (by omega) (by omega) (by omega)
        simp only [Int.natCast_add, Int.cast_ofNat_Int, Int.add_sub_cancel] at this
        exact this
    · simp only [List.range'_succ, List.map_cons, Go.forRangeCtlAux, chBody]
      have e1 : ((k : Int) - 1 + 1) = (k : Int) := by omega
      have n1 : ¬ ((k : Int) = (rs : Int)) := by omega
      have n2 : ¬ ((k : Int) = (re : Int)) := by omega
      simp only [e1, n1, n2, if_false, pure_bind]
      have := ih (k + 1) (i + 1) bs be (by omega) h2 (by omega)
      simp only [Int.natCast_add, Int.cast_ofNat_Int, Int.add_sub_cancel] at this
      exact this

/-- the end position is the end of the text (`runeEnd = len(ed.Text)`): stop as soon as the start is found -/
theorem ch_loop_A {ρ : Type} (f : Nat → Int) (rs : Nat) (re L : Int) (hL : re ≥ L) :
    ∀ (m k : Nat) (i bs be : Int), k ≤ rs → rs < k + m → ((rs : Int) < re) →
      Go.forRangeCtlAux (ρ := ρ) (chBody rs re L) i ((List.range' k m).map f) ((k : Int) - 1, bs, be) =
        pure (((rs : Int), f rs, be), none) := by
  intro m
  induction m with
  | zero => intro k i bs be h1 h2 _; omega
  | succ m ih =>
    intro k i bs be h1 h2 h3
    simp only [List.range'_succ, List.map_cons, Go.forRangeCtlAux, chBody]
    have e1 : ((k : Int) - 1 + 1) = (k : Int) := by omega
    simp only [e1]
    by_cases hk : k = rs
    · subst hk
      simp [hL]
    · have n1 : ¬ ((k : Int) = (rs : Int)) := by omega
      have n2 : ¬ ((k : Int) = re) := by omega
      simp only [n1, n2, if_false, pure_bind]
      have := ih (k + 1) (i + 1) bs be (by omega) (by omega) h3
      simp only [Int.natCast_add, Int.cast_ofNat_Int, Int.add_sub_cancel] at this
      exact this


theorem editorSubEd_regenerated (h : Gen.Code.editorSubEd_extracted = true) (ed : Editor α) (a b : Int) :
    Gen.Code.editorSubEd cx ed a b = ed.subEd cx a b := by
  first
    | exact absurd h (by decide)
    | (unfold Gen.Code.editorSubEd Editor.subEd
       simp only [Go.strSlice, Go.edWithRef, Editor.withText]
       all_goals (cases ed <;> rfl))

theorem cOff_lt {e : List Nat} {n : Nat} (h : Part e n) (a : Nat) (ha : a < e.length) : cOff e a < n := by
  have hle : e[a] ≤ n := (h.pos _ (List.getElem_mem ha)).2
  unfold cOff
  split
  · have := (h.pos _ (List.getElem_mem ha)).1; omega
  · rename_i ha0
    have hlt : e[a - 1]'(by omega) < e[a] := by
      have := List.pairwise_iff_getElem.mp h.sorted (a - 1) a (by omega) ha (by omega)
      exact this
    have hg : e.getD (a - 1) 0 = e[a - 1]'(by omega) := by
      simp [List.getD_eq_getElem?_getD, show a - 1 < e.length by omega]
    omega

theorem editorChars_regenerated (h : Gen.Code.editorChars_extracted = true) (hwf : cx.WF) (ed : Editor α) (s e : Int) :
    Gen.Code.editorChars cx ed s e = ed.chars cx s e := by
  first
    | exact absurd h (by decide)
    | (unfold Gen.Code.editorChars Editor.chars
       simp only [editorSubEd_regenerated cx (by decide)]
       have hlen : Go.sliceLen (Go.gsGraphemeIndexes cx ed.text) = ((cx.ends ed.text).length : Int) := by
         simp [Go.sliceLen, Go.gsGraphemeIndexes]
       simp only [hlen, ite_pure_bind, pure_bind, Go.strLen, beq_iff_eq]
       generalize hst : (if s = Gen.endSentinel then ((cx.ends ed.text).length : Int) else s) = s'
       generalize hen : (if e = Gen.endSentinel then ((cx.ends ed.text).length : Int) else e) = e'
       have hb := rangeToIndexes_bounds ((cx.ends ed.text).length : Int) s' e' (Int.natCast_nonneg _)
       generalize hri : rangeToIndexes ((cx.ends ed.text).length : Int) s' e' = r at hb ⊢
       obtain ⟨st, en⟩ := r
       simp only [] at hb ⊢
       have hpart := hwf.1 ed.text
       have hpos := hwf.2
       generalize hE : cx.ends ed.text = E at *
       by_cases hge : st ≥ (E.length : Int)
       · simp only [hge, if_true]
       · simp only [hge, if_false]
         obtain ⟨stN, rfl⟩ : ∃ k : Nat, st = k := ⟨st.toNat, by omega⟩
         obtain ⟨enN, rfl⟩ : ∃ k : Nat, en = k := ⟨en.toNat, by omega⟩
         have hst1 : stN < E.length := by omega
         have hidx : ∀ (k : Nat) (K : Int → R (Editor α)), k < E.length →
             (Go.idx (Go.gsGraphemeIndexes cx ed.text) (k : Int) >>= fun t3 => Go.idx t3 0 >>= K) =
               K (((clusterSpan E k).1 : Nat) : Int) := by
           intro k K hk
           rw [idx_nat _ _ (by simp [Go.gsGraphemeIndexes, hE, hk])]
           simp [Go.gsGraphemeIndexes, hE, Go.idx]
         rw [hidx stN _ hst1]
         simp only [Int.toNat_natCast]
         have hN : ed.text.length ≤ byteLen cx ed.text := length_le_byteLen hpos ed.text
         have hrs : (clusterSpan E stN).1 < ed.text.length := by
           rw [clusterSpan_fst]; exact cOff_lt hpart stN hst1
         have hoffs : Go.strByteOffsets cx ed.text =
             (List.range' 0 ed.text.length).map (fun k => ((byteOff cx ed.text k : Nat) : Int)) := by
           simp [Go.strByteOffsets, List.range_eq_range']
         by_cases hen1 : (enN : Int) < (E.length : Int)
         · have hen2 : enN < E.length := by omega
           simp only [hen1, if_true, bind_assoc, pure_bind]
           rw [hidx enN _ hen2]
           have hre : (clusterSpan E enN).1 < ed.text.length := by
             rw [clusterSpan_fst]; exact cOff_lt hpart enN hen2
           have hle : (clusterSpan E stN).1 ≤ (clusterSpan E enN).1 := by
             rw [clusterSpan_fst, clusterSpan_fst]; exact hpart.cOff_mono (by omega) (by omega)
           have hL : ¬ ((((clusterSpan E enN).1 : Nat) : Int) ≥ ((byteLen cx ed.text : Nat) : Int)) := by omega
           have key := ch_loop_B1 (ρ := Editor α) (fun k => ((byteOff cx ed.text k : Nat) : Int))
             (clusterSpan E stN).1 (clusterSpan E enN).1 ((byteLen cx ed.text : Nat) : Int) hL
             ed.text.length 0 0 (-1) (-1) (by omega) hle (by omega)
           simp only [Int.natCast_zero, Int.zero_sub] at key
           have hrun := key
           rw [← hoffs] at hrun
           unfold chBody at hrun
           unfold Go.forRangeCtlM
           rw [hrun]
           have hne : ¬ (((byteOff cx ed.text (clusterSpan E enN).1 : Nat) : Int) = -1) := by omega
           simp only [pure_bind, hne, if_false]
         · have hen2 : enN = E.length := by omega
           simp only [hen1, if_false, pure_bind]
           have hL : (((byteLen cx ed.text : Nat) : Int) ≥ ((byteLen cx ed.text : Nat) : Int)) := Int.le_refl _
           have key := ch_loop_A (ρ := Editor α) (fun k => ((byteOff cx ed.text k : Nat) : Int))
             (clusterSpan E stN).1 ((byteLen cx ed.text : Nat) : Int) ((byteLen cx ed.text : Nat) : Int) hL
             ed.text.length 0 0 (-1) (-1) (by omega) (by omega) (by omega)
           simp only [Int.natCast_zero, Int.zero_sub] at key
           have hrun := key
           rw [← hoffs] at hrun
           unfold chBody at hrun
           unfold Go.forRangeCtlM
           rw [hrun]
           simp only [pure_bind, if_true])



theorem editorCharsFrom_regenerated (h : Gen.Code.editorCharsFrom_extracted = true) (hwf : cx.WF) (ed : Editor α) (start : Int) :
    Gen.Code.editorCharsFrom cx ed start = ed.charsFrom cx start := by
  first
    | exact absurd h (by decide)
    | (unfold Gen.Code.editorCharsFrom Editor.charsFrom
       simp only [editorChars_regenerated cx (by decide) hwf]
       go_norm
       all_goals simp)

theorem editorCharsTo_regenerated (h : Gen.Code.editorCharsTo_extracted = true) (hwf : cx.WF) (ed : Editor α) (e : Int) :
    Gen.Code.editorCharsTo cx ed e = ed.charsTo cx e := by
  first
    | exact absurd h (by decide)
    | (unfold Gen.Code.editorCharsTo Editor.charsTo
       simp only [editorChars_regenerated cx (by decide) hwf]
       go_norm
       all_goals simp)

theorem idx_last {β : Type} (l : List β) (hl : l ≠ []) : Go.idx l ((l.length : Int) - 1) = pure (l.getLast hl) := by
  have : 0 < l.length := List.length_pos_iff.mpr hl
  unfold Go.idx
  have h2 : ((l.length : Int) - 1).toNat = l.length - 1 := by omega
  rw [dif_pos (by omega)]
  simp [h2, List.getLast_eq_getElem]

theorem sliceTo_dropLast {β : Type} (l : List β) (hl : l ≠ []) : Go.sliceTo l ((l.length : Int) - 1) = pure l.dropLast := by
  have : 0 < l.length := List.length_pos_iff.mpr hl
  unfold Go.sliceTo
  have h2 : ((l.length : Int) - 1).toNat = l.length - 1 := by omega
  rw [if_pos (by omega), h2, List.dropLast_eq_take]

theorem editorLinesSep_regenerated (h : Gen.Code.editorLinesSep_extracted = true) (ed : Editor α) (sep : List α) :
    Gen.Code.editorLinesSep cx ed sep = pure (ed.linesSep sep) := by
  first
    | exact absurd h (by decide)
    | (unfold Gen.Code.editorLinesSep Editor.linesSep
       go_norm
       by_cases hl : splitOn ed.text sep = []
       · simp [hl]
       · simp only [idx_last _ hl, sliceTo_dropLast _ hl]
         go_norm
         simp [hl, List.getLast?_eq_some_getLast hl]
         go_close)

theorem editorLines_regenerated (h : Gen.Code.editorLines_extracted = true) (ed : Editor α) :
    Gen.Code.editorLines cx ed = pure (ed.lines cx) := by
  first
    | exact absurd h (by decide)
    | (unfold Gen.Code.editorLines Editor.lines
       simp only [optionsWithDefaults_regenerated cx (by decide), editorLinesSep_regenerated cx (by decide)]
       go_norm)

theorem editorLineCount_regenerated (h : Gen.Code.editorLineCount_extracted = true) (ed : Editor α) :
    Gen.Code.editorLineCount cx ed = pure (ed.lineCount cx : Int) := by
  first
    | exact absurd h (by decide)
    | (unfold Gen.Code.editorLineCount Editor.lineCount
       simp only [editorLines_regenerated cx (by decide)]
       go_norm)

/-! ### Editor.Lines -/

/-- the separator-skipping loops of `Lines` (state: byte offset, line index); `retv` is what the loop returns
when no further separator is found -/
def lsCond (T : Int) (s : Int × Int) : R Bool := pure (decide (s.2 ≠ T))
def lsBody (text sep : List α) (retv : R (Editor α)) (s : Int × Int) : R ((Int × Int) × Go.Ctl (Editor α)) :=
  byteSlice cx text s.1 (byteLen cx text) >>= fun t =>
    if Go.stringsIndex cx t sep = -1 then retv >>= fun r => pure (s, Go.Ctl.ret r)
    else pure ((s.1 + (Go.stringsIndex cx t sep + ((byteLen cx sep : Nat) : Int)), s.2 + 1), Go.Ctl.next)

theorem byteSlice_drop (hpos : ∀ a, 0 < cx.blen a) (text : List α) (pos : Nat) (hp : pos ≤ text.length) :
    byteSlice cx text ((byteOff cx text pos : Nat) : Int) ((byteLen cx text : Nat) : Int) = pure (text.drop pos) := by
  have := byteSlice_take_drop (cx := cx) hpos text pos text.length hp (Nat.le_refl _)
  rw [List.take_length] at this
  rw [byteOff, this, List.take_of_length_le (by simp)]
  rfl

theorem byteOff_step (text sep : List α) (pos i : Nat) (hp : pos ≤ text.length)
    (hs : text.drop pos = (text.drop pos).take i ++ sep ++ (text.drop pos).drop (i + sep.length))
    (hle : i + sep.length ≤ (text.drop pos).length) :
    byteOff cx text (pos + i + sep.length) =
      byteOff cx text pos + byteLen cx ((text.drop pos).take i) + byteLen cx sep := by
  have hlen : (text.drop pos).length = text.length - pos := List.length_drop
  have hi : i ≤ (text.drop pos).length := by omega
  have hX : text = (text.take pos ++ (text.drop pos).take i ++ sep) ++ (text.drop pos).drop (i + sep.length) := by
    conv => lhs; rw [← List.take_append_drop pos text, hs]
    simp [List.append_assoc]
  have hXl : (text.take pos ++ (text.drop pos).take i ++ sep).length = pos + i + sep.length := by
    simp [List.length_take, List.length_append]; omega
  unfold byteOff
  conv => lhs; rw [hX, List.take_left' hXl]
  rw [byteLen_append, byteLen_append]

theorem ls_loop {γ : Type} (hpos : ∀ a, 0 < cx.blen a) (text sep : List α) (retv : R (Editor α))
    (K : (Int × Int) × Option (Editor α) → R γ) (hK : ∀ s s' v, K (s, some v) = K (s', some v)) :
    ∀ (n fuel pos : Nat) (k : Int), pos ≤ text.length → n + 1 ≤ fuel →
      Go.whileCtlM fuel (lsCond (k + n)) (lsBody cx text sep retv) (((byteOff cx text pos : Nat) : Int), k) >>= K =
        match skipSeps text sep n pos with
        | none => retv >>= fun r => K ((0, 0), some r)
        | some p => K ((((byteOff cx text p : Nat) : Int), k + n), none) := by
  intro n
  induction n with
  | zero =>
    intro fuel pos k hp hf
    cases fuel with
    | zero => omega
    | succ f => simp [Go.whileCtlM, lsCond, skipSeps]
  | succ n ih =>
    intro fuel pos k hp hf
    cases fuel with
    | zero => omega
    | succ f =>
      have hne : k ≠ k + ((n + 1 : Nat) : Int) := by omega
      simp only [Go.whileCtlM, lsCond, pure_bind, hne, ne_eq, not_false_eq_true, decide_true, if_true, lsBody,
        byteSlice_drop cx hpos text pos hp, skipSeps, Go.stringsIndex]
      have hcases : indexOf sep (text.drop pos) = none ∨ ∃ i, indexOf sep (text.drop pos) = some i := by
        cases indexOf sep (text.drop pos) with
        | none => exact Or.inl rfl
        | some i => exact Or.inr ⟨i, rfl⟩
      rcases hcases with hio | ⟨i, hio⟩
      · simp only [hio, if_true, bind_assoc, pure_bind]
        refine bind_congr (m := R) fun r => ?_
        exact hK _ _ _
      · simp only [hio]
        obtain ⟨hs, hle⟩ := indexOf_some_spec sep (text.drop pos) i hio
        have hn1 : ¬ (((byteLen cx ((text.drop pos).take i) : Nat) : Int) = -1) := by omega
        simp only [hn1, if_false, pure_bind]
        have hlen : (text.drop pos).length = text.length - pos := List.length_drop
        have hstep := byteOff_step cx text sep pos i hp hs hle
        have e1 : ((byteOff cx text pos : Nat) : Int) + (((byteLen cx ((text.drop pos).take i) : Nat) : Int) + ((byteLen cx sep : Nat) : Int)) =
            ((byteOff cx text (pos + i + sep.length) : Nat) : Int) := by omega
        have e2 : k + ((n + 1 : Nat) : Int) = (k + 1) + (n : Int) := by omega
        rw [e1, e2]
        exact ih f (pos + i + sep.length) (k + 1) (by omega) (by omega)

theorem ls_loop' {γ : Type} (hpos : ∀ a, 0 < cx.blen a) (text sep : List α) (retv : R (Editor α))
    (K : (Int × Int) × Option (Editor α) → R γ) (hK : ∀ s s' v, K (s, some v) = K (s', some v))
    (n fuel pos : Nat) (k T b0 : Int) (hT : T = k + n) (hb0 : b0 = ((byteOff cx text pos : Nat) : Int))
    (hp : pos ≤ text.length) (hf : n + 1 ≤ fuel) :
    Go.whileCtlM fuel (lsCond T) (lsBody cx text sep retv) (b0, k) >>= K =
      match skipSeps text sep n pos with
      | none => retv >>= fun r => K ((0, 0), some r)
      | some p => K ((((byteOff cx text p : Nat) : Int), T), none) := by
  subst hT hb0
  exact ls_loop cx hpos text sep retv K hK n fuel pos k hp hf

theorem skipSeps_le (text sep : List α) : ∀ (n pos p : Nat), pos ≤ text.length → skipSeps text sep n pos = some p →
    p ≤ text.length := by
  intro n
  induction n with
  | zero => intro pos p hp h; simp [skipSeps] at h; omega
  | succ n ih =>
    intro pos p hp h
    simp only [skipSeps] at h
    have hcases : indexOf sep (text.drop pos) = none ∨ ∃ i, indexOf sep (text.drop pos) = some i := by
      cases indexOf sep (text.drop pos) with
      | none => exact Or.inl rfl
      | some i => exact Or.inr ⟨i, rfl⟩
    rcases hcases with hio | ⟨i, hio⟩
    · simp [hio] at h
    · simp only [hio] at h
      have hle := (indexOf_some_spec sep (text.drop pos) i hio).2
      have hlen : (text.drop pos).length = text.length - pos := List.length_drop
      exact ih (pos + i + sep.length) p (by omega) h

/-- Needs every atom to have a positive byte length (the loops walk byte offsets, the hand model atoms) -/
theorem editorLinesSel_regenerated (h : Gen.Code.editorLinesSel_extracted = true) (hpos : ∀ a, 0 < cx.blen a)
    (ed : Editor α) (s e : Int) :
    Gen.Code.editorLinesSel cx ed s e = ed.linesSel cx s e := by
  first
    | exact absurd h (by decide)
    | (unfold Gen.Code.editorLinesSel Editor.linesSel
       simp only [editorLineCount_regenerated cx (by decide), optionsWithDefaults_regenerated cx (by decide),
         editorSubEd_regenerated cx (by decide),
         ite_pure_bind, pure_bind, Go.strLen, Go.strSlice, List.isEmpty_iff, beq_iff_eq]
       split
       · rfl
       · generalize hst : (if s = Gen.endSentinel then ((ed.lineCount cx : Nat) : Int) else s) = s'
         generalize hen : (if e = Gen.endSentinel then ((ed.lineCount cx : Nat) : Int) else e) = e'
         have hb := rangeToIndexes_bounds ((ed.lineCount cx : Nat) : Int) s' e' (Int.natCast_nonneg _)
         generalize hri : rangeToIndexes ((ed.lineCount cx : Nat) : Int) s' e' = r at hb ⊢
         obtain ⟨st, en⟩ := r
         simp only [] at hb ⊢
         split
         · rfl
         · rename_i hne hlt
           obtain ⟨stN, rfl⟩ : ∃ k : Nat, st = k := ⟨st.toNat, by omega⟩
           obtain ⟨dN, rfl⟩ : ∃ d : Nat, en = (stN : Int) + d := ⟨(en - stN).toNat, by omega⟩
           have hd : ((stN : Int) + (dN : Int) - (stN : Int)).toNat = dN := by omega
           simp only [Int.toNat_natCast, hd]
           refine Eq.trans (ls_loop' cx hpos ed.text (Options.withDefaults cx ed.opts).lineSep _ _ ?hK stN (stN + 1) 0 0
             (stN : Int) 0 (by omega) (by simp [byteOff]) (Nat.zero_le _) (Nat.le_refl _)) ?_
           case hK => intro s s' v; rfl
           have hcases : skipSeps ed.text (Options.withDefaults cx ed.opts).lineSep stN 0 = none ∨
               ∃ p, skipSeps ed.text (Options.withDefaults cx ed.opts).lineSep stN 0 = some p := by
             cases skipSeps ed.text (Options.withDefaults cx ed.opts).lineSep stN 0 with
             | none => exact Or.inl rfl
             | some p => exact Or.inr ⟨p, rfl⟩
           rcases hcases with hs1 | ⟨p, hs1⟩
           · simp only [hs1, bind_pure]
           · simp only [hs1]
             have hple := skipSeps_le ed.text (Options.withDefaults cx ed.opts).lineSep stN 0 p (Nat.zero_le _) hs1
             have hd2 : ((stN : Int) + (dN : Int) - (stN : Int)).toNat = dN := by omega
             simp only [hd2]
             refine Eq.trans (ls_loop' cx hpos ed.text (Options.withDefaults cx ed.opts).lineSep _ _ ?hK2 dN (dN + 1) p (stN : Int)
               ((stN : Int) + (dN : Int)) _ rfl rfl hple (Nat.le_refl _)) ?_
             case hK2 => intro s s' v; rfl
             have hcases2 : skipSeps ed.text (Options.withDefaults cx ed.opts).lineSep dN p = none ∨
                 ∃ q, skipSeps ed.text (Options.withDefaults cx ed.opts).lineSep dN p = some q := by
               cases skipSeps ed.text (Options.withDefaults cx ed.opts).lineSep dN p with
               | none => exact Or.inl rfl
               | some q => exact Or.inr ⟨q, rfl⟩
             rcases hcases2 with hs2 | ⟨q, hs2⟩
             · simp only [hs2, bind_pure]
             · simp only [hs2])

theorem editorLinesFrom_regenerated (h : Gen.Code.editorLinesFrom_extracted = true) (hpos : ∀ a, 0 < cx.blen a)
    (ed : Editor α) (start : Int) :
    Gen.Code.editorLinesFrom cx ed start = ed.linesFrom cx start := by
  first
    | exact absurd h (by decide)
    | (unfold Gen.Code.editorLinesFrom Editor.linesFrom
       simp only [editorLineCount_regenerated cx (by decide), editorLinesSel_regenerated cx (by decide) hpos]
       go_norm
       all_goals simp)

theorem editorLinesTo_regenerated (h : Gen.Code.editorLinesTo_extracted = true) (hpos : ∀ a, 0 < cx.blen a)
    (ed : Editor α) (e : Int) :
    Gen.Code.editorLinesTo cx ed e = ed.linesTo cx e := by
  first
    | exact absurd h (by decide)
    | (unfold Gen.Code.editorLinesTo Editor.linesTo
       simp only [editorLinesSel_regenerated cx (by decide) hpos]
       go_norm
       all_goals simp)

theorem editorCommit_regenerated (h : Gen.Code.editorCommit_extracted = true) (ed : Editor α) :
    Gen.Code.editorCommit cx ed = ed.commit cx := by
  first
    | exact absurd h (by decide)
    | (unfold Gen.Code.editorCommit
       simp only [editorIsSubEditor_regenerated cx (by decide), pure_bind]
       cases ed <;> simp [Editor.commit, Editor.isSub, Go.edRefParent, Go.edRefStart, Go.edRefEnd, Go.strSplice,
         Editor.text])

theorem editorInsert_regenerated (h : Gen.Code.editorInsert_extracted = true) (hwf : cx.WF) (ed : Editor α) (pos : Int) (t : List α) :
    Gen.Code.editorInsert cx ed pos t = ed.insert cx pos t := by
  first
    | exact absurd h (by decide)
    | (unfold Gen.Code.editorInsert Editor.insert
       simp only [editorCharsTo_regenerated cx (by decide) hwf, editorCharsFrom_regenerated cx (by decide) hwf]
       go_norm
       all_goals simp)

theorem editorDelete_regenerated (h : Gen.Code.editorDelete_extracted = true) (hwf : cx.WF) (ed : Editor α) (s e : Int) :
    Gen.Code.editorDelete cx ed s e = ed.delete cx s e := by
  first
    | exact absurd h (by decide)
    | (unfold Gen.Code.editorDelete Editor.delete
       simp only [editorCharsTo_regenerated cx (by decide) hwf, editorCharsFrom_regenerated cx (by decide) hwf,
         editorCharCount_regenerated cx (by decide)]
       go_norm
       go_close)

/-- The translator emits Go's `int` addition as unbounded `Int` addition; the hand model wraps
`charPos + inboundText.Len()` at 64 bits (`wrap64`).  The two agree when the sum does not overflow. -/
theorem editorOvertype_regenerated (h : Gen.Code.editorOvertype_extracted = true) (hwf : cx.WF) (ed : Editor α) (pos : Int) (t : List α)
    (hno : ∀ p : Int, 0 ≤ p → p ≤ ed.charCount cx → wrap64 (p + gLen cx t) = p + gLen cx t) :
    Gen.Code.editorOvertype cx ed pos t = ed.overtype cx pos t := by
  first
    | exact absurd h (by decide)
    | (unfold Gen.Code.editorOvertype Editor.overtype
       simp only [editorCharsTo_regenerated cx (by decide) hwf, editorCharsFrom_regenerated cx (by decide) hwf,
         editorCharCount_regenerated cx (by decide)]
       go_norm
       have hb : ∀ q : Int, 0 ≤ (rangeToIndexes (ed.charCount cx : Int) q q).1 ∧
           (rangeToIndexes (ed.charCount cx : Int) q q).1 ≤ (ed.charCount cx : Int) := by
         intro q; unfold rangeToIndexes; grind
       split <;> simp_all)

/-! ## Loops -/

/-- congruence for a loop followed by a continuation: pointwise equal condition, body, continuation -/
theorem whileM_bind_congr {σ γ : Type} {fuel fuel' : Nat} {cond cond' : σ → R Bool} {body body' : σ → R σ}
    {k k' : σ → R γ} {s s' : σ} (hf : fuel = fuel') (hs : s = s')
    (hc : ∀ x, cond x = cond' x) (hb : ∀ x, body x = body' x) (hk : ∀ x, k x = k' x) :
    Go.whileM fuel cond body s >>= k = Go.whileM fuel' cond' body' s' >>= k' := by
  have h1 : cond = cond' := funext hc
  have h2 : body = body' := funext hb
  have h3 : k = k' := funext hk
  subst hf hs h1 h2 h3
  rfl

theorem idx_zero {β : Type} (l : List β) : Go.idx l 0 = (match l with | [] => throw .index | c :: _ => pure c) := by
  cases l <;> simp [Go.idx]

/-! ### CollapseSpace -/

/-- the loop of CollapseSpace over the model's primitives (state: text, i) -/
def csCond (s : List α × Int) : R Bool := pure (decide (s.2 < (gLen cx s.1 : Int)))
def csBody (s : List α × Int) : R (List α × Int) := do
  let ch ← gCharAt cx s.1 s.2
  match ch with
  | [] => throw .index
  | c :: _ =>
    (if cx.isSpace c then gSetCharAt cx s.1 s.2 [cx.sp] else pure s.1) >>= fun t' => pure (t', s.2 + 1)

theorem setSpacesLoop_eq_while : ∀ (fuel : Nat) (t : List α) (i : Nat),
    setSpacesLoop cx fuel t i = Prod.fst <$> Go.whileM fuel (csCond cx) (csBody cx) (t, (i : Int)) := by
  intro fuel
  induction fuel with
  | zero => intro t i; rfl
  | succ n ih =>
    intro t i
    unfold Go.whileM setSpacesLoop
    simp only [csCond, csBody]
    by_cases hlt : i < gLen cx t
    · have : ((i : Int) < (gLen cx t : Int)) := by omega
      simp only [this, hlt, decide_true, pure_bind, if_true, bind_assoc, map_bind]
      refine bind_congr (m := R) fun ch => ?_
      cases ch with
      | nil => rfl
      | cons c rest =>
        by_cases hsp : cx.isSpace c = true <;>
          simp only [hsp, if_true, if_false, bind_assoc, pure_bind, ih, Bool.false_eq_true, Int.natCast_add,
            Int.cast_ofNat_Int] <;> rfl
    · have : ¬ ((i : Int) < (gLen cx t : Int)) := by omega
      simp [this, hlt]

theorem collapseSpace_regenerated (h : Gen.Code.collapseSpace_extracted = true) (text lineSep : List α) :
    Gen.Code.collapseSpace cx text lineSep = collapseSpace cx text lineSep := by
  first
    | exact absurd h (by decide)
    | (unfold Gen.Code.collapseSpace collapseSpace
       simp only [setSpacesLoop_eq_while, map_eq_pure_bind, bind_assoc, pure_bind, Int.cast_ofNat_Int]
       split
       all_goals
         (simp only [pure_bind]
          refine whileM_bind_congr ?_ ?_ ?_ ?_ ?_
          · simp_all [Go.gsIsEmpty, Go.stringsReplaceAll]
          · simp_all [Go.gsIsEmpty, Go.stringsReplaceAll]
          · intro s; simp [csCond, Go.gsLen]
          · intro s
            simp only [csBody, Go.gsCharAt, Go.gsSetCharAt, Go.unicodeIsSpace, idx_zero]
            refine bind_congr (m := R) fun ch => ?_
            cases ch with
            | nil => rfl
            | cons c rest => by_cases hsp : cx.isSpace c = true <;> simp [hsp]
          · intro s; simp [Go.collapseSpaceRuns]))

theorem editorCollapseSpaceOpts_regenerated (h : Gen.Code.editorCollapseSpaceOpts_extracted = true) (ed : Editor α)
    (o : Options α) : Gen.Code.editorCollapseSpaceOpts cx ed o = ed.collapseSpaceOpts cx o := by
  first
    | exact absurd h (by decide)
    | (unfold Gen.Code.editorCollapseSpaceOpts Editor.collapseSpaceOpts
       simp only [optionsWithDefaults_regenerated cx (by decide), collapseSpace_regenerated cx (by decide)]
       go_norm
       all_goals simp)

/-! ### appendWordToWrappedLine -/

/-- the loop of appendWordToWrappedLine over the model's primitives (state: curLine, lines, curWord) -/
def awCond (s : List α × Block α × List α) : R Bool := pure (decide ((gLen cx s.2.2 : Int) > 0))
def awBody (width : Int) (s : List α × Block α × List α) : R (List α × Block α × List α) :=
  let lineLen : Int := gLen cx s.1
  let added : Int := (gLen cx s.2.2 : Int) + (if lineLen ≠ 0 then 1 else 0)
  if lineLen + added = width then
    pure ([], s.2.1.append ((if lineLen ≠ 0 then s.1 ++ [cx.sp] else s.1) ++ s.2.2), [])
  else if lineLen + added > width then
    if lineLen = 0 then
      pure ([], s.2.1.append (s.1 ++ gSub cx s.2.2 0 (width - 1) ++ [cx.hy]), gSub cx s.2.2 (width - 1) (gLen cx s.2.2))
    else pure ([], s.2.1.append s.1, s.2.2)
  else pure ((if lineLen ≠ 0 then s.1 ++ [cx.sp] else s.1) ++ s.2.2, s.2.1, [])

theorem appendWord_eq_while (width : Int) (hw : ¬ width < 2) : ∀ (fuel : Nat) (curLine : List α) (b : Block α) (curWord : List α),
    (fun r => (r.2, ({ b with lines := r.1 } : Block α))) <$> appendWord cx width fuel b.lines curWord curLine =
      (fun s => (s.1, s.2.1)) <$> Go.whileM fuel (awCond cx) (awBody cx width) (curLine, b, curWord) := by
  intro fuel
  induction fuel with
  | zero => intro curLine b curWord; rfl
  | succ n ih =>
    intro curLine b curWord
    unfold Go.whileM appendWord
    simp only [awCond, awBody, hw, if_false, pure_bind]
    by_cases hlen : gLen cx curWord > 0
    · have h1 : ((gLen cx curWord : Int) > 0) := by omega
      simp only [hlen, h1, if_true, decide_true]
      simp only [beq_iff_eq, bne_iff_ne, ne_eq]
      repeat' split
      all_goals first
        | (simp only [pure_bind]; exact ih _ (b.append _) _)
        | (simp only [pure_bind]; exact ih _ b _)
    · have h1 : ¬ ((gLen cx curWord : Int) > 0) := by omega
      simp [hlen]


theorem appendWord_width_lt (width : Int) (hw : width < 2) (fuel : Nat) (l : List (List α)) (w c : List α) :
    appendWord cx width (fuel + 1) l w c = throw .explicit := by
  unfold appendWord; simp [hw]

/-- Go returns `curLine` and updates `*lines`; the hand model returns `(lines, curLine)` over the list of lines -/
theorem appendWordToWrappedLine_regenerated (h : Gen.Code.appendWordToWrappedLine_extracted = true)
    (b : Block α) (curWord curLine : List α) (width : Int) :
    Gen.Code.appendWordToWrappedLine cx b curWord curLine width =
      (fun r => (r.2, ({ b with lines := r.1 } : Block α))) <$>
        appendWord cx width (2 * curWord.length + 2) b.lines curWord curLine := by
  first
    | exact absurd h (by decide)
    | (unfold Gen.Code.appendWordToWrappedLine
       simp only [blockAppend_regenerated cx (by decide)]
       by_cases hw : width < 2
       · rw [show 2 * curWord.length + 2 = (2 * curWord.length + 1) + 1 from rfl, appendWord_width_lt cx width hw]
         simp [hw]; rfl
       · rw [appendWord_eq_while cx width hw]
         simp only [hw, if_false, map_eq_pure_bind, pure_bind]
         refine whileM_bind_congr rfl rfl ?_ ?_ ?_
         · intro s; rfl
         · intro s
           simp only [awBody, pure_bind, bind_assoc]
           go_norm
           go_close
         · intro s; rfl)

/-! ### Wrap -/

theorem clustersFrom_length (s : List α) : ∀ (e : List Nat) (prev : Nat), (clustersFrom s prev e).length = e.length := by
  intro e; induction e with
  | nil => intro _; rfl
  | cons x xs ih => intro prev; simp [clustersFrom, ih]

theorem gLen_eq_clusters (s : List α) : gLen cx s = (clusters cx s).length := by
  simp [gLen, clusters, clustersFrom_length]

theorem clustersFrom_getElem (s : List α) : ∀ (e : List Nat) (prev i : Nat) (hi : i < (clustersFrom s prev e).length),
    (clustersFrom s prev e)[i] = sliceRunes s (if i > 0 then e.getD (i - 1) 0 else prev) (e.getD i 0) := by
  intro e; induction e with
  | nil => intro prev i hi; simp [clustersFrom] at hi
  | cons x xs ih =>
    intro prev i hi
    cases i with
    | zero => simp [clustersFrom]
    | succ j =>
      simp only [clustersFrom, List.getElem_cons_succ]
      rw [ih]
      cases j with
      | zero => simp
      | succ k => simp

/-- `CharAt(i)` is the i-th cluster (any segmentation) -/
theorem gCharAt_clusters (s : List α) (i : Nat) (hi : i < (clusters cx s).length) :
    gCharAt cx s i = pure (clusters cx s)[i] := by
  have hl : (cx.ends s).length = (clusters cx s).length := (gLen_eq_clusters cx s)
  unfold gCharAt
  simp only
  rw [if_neg (by omega)]
  simp only [clusters, clustersFrom_getElem, clusterSpan, Int.toNat_natCast]


/-- the loop of Wrap over the model's primitives (state: curLine, lines, curWord, i) -/
def wCond (text : List α) (s : List α × Block α × List α × Int) : R Bool :=
  pure (decide (s.2.2.2 < (gLen cx text : Int)))
def wBody (text : List α) (width : Int) (s : List α × Block α × List α × Int) : R (List α × Block α × List α × Int) := do
  let ch ← gCharAt cx text s.2.2.2
  match ch with
  | [] => throw .index
  | c :: _ =>
    if c = cx.sp then
      appendWord cx width (2 * s.2.2.1.length + 2) s.2.1.lines s.2.2.1 s.1 >>= fun r =>
        pure (r.2, ({ s.2.1 with lines := r.1 } : Block α), [], s.2.2.2 + 1)
    else pure (s.1, s.2.1, s.2.2.1 ++ ch, s.2.2.2 + 1)

theorem wrapLoop_eq_while (text : List α) (width : Int) : ∀ (fuel i : Nat) (curLine : List α) (b : Block α) (curWord : List α),
    i ≤ (clusters cx text).length → (clusters cx text).length + 1 ≤ fuel + i →
    (fun r => (r.2.2, ({ b with lines := r.1 } : Block α), r.2.1)) <$>
        wrapLoop cx width ((clusters cx text).drop i) b.lines curWord curLine =
      (fun s => (s.1, s.2.1, s.2.2.1)) <$> Go.whileM fuel (wCond cx text) (wBody cx text width) (curLine, b, curWord, (i : Int)) := by
  intro fuel
  induction fuel with
  | zero => intro i curLine b curWord h1 h2; omega
  | succ n ih =>
    intro i curLine b curWord h1 h2
    unfold Go.whileM
    simp only [wCond, pure_bind, gLen_eq_clusters]
    by_cases hlt : i < (clusters cx text).length
    · have h3 : ((i : Int) < ((clusters cx text).length : Int)) := by omega
      simp only [h3, decide_true, if_true, wBody, gCharAt_clusters cx text i hlt, pure_bind]
      rw [List.drop_eq_getElem_cons hlt]
      unfold wrapLoop
      cases hc : (clusters cx text)[i] with
      | nil => rfl
      | cons c rest =>
        simp only []
        split
        · simp only [bind_assoc, pure_bind, map_bind]
          refine bind_congr (m := R) fun r => ?_
          exact ih (i + 1) r.2 ({ b with lines := r.1 }) [] (by omega) (by omega)
        · simp only [pure_bind]
          exact ih (i + 1) curLine b (curWord ++ c :: rest) (by omega) (by omega)
    · have h3 : ¬ ((i : Int) < ((clusters cx text).length : Int)) := by omega
      have h4 : (clusters cx text).drop i = [] := List.drop_eq_nil_of_le (by omega)
      simp [h3, h4, wrapLoop]


/-- loop congruence under an invariant of the state -/
theorem whileM_bind_congr_inv {σ γ : Type} (P : σ → Prop) {cond cond' : σ → R Bool} {body body' : σ → R σ}
    {k k' : σ → R γ}
    (hc : ∀ x, P x → cond x = cond' x) (hb : ∀ x, P x → body x = body' x) (hk : ∀ x, P x → k x = k' x)
    (hP : ∀ x y, P x → body' x = pure y → P y) :
    ∀ (fuel : Nat) (s : σ), P s → Go.whileM fuel cond body s >>= k = Go.whileM fuel cond' body' s >>= k' := by
  intro fuel
  induction fuel with
  | zero => intro s _; rfl
  | succ n ih =>
    intro s hs
    unfold Go.whileM
    rw [hc s hs, hb s hs]
    simp only [bind_assoc]
    refine bind_congr (m := R) fun c => ?_
    cases c with
    | false => simpa using hk s hs
    | true =>
      simp only [if_true, bind_assoc]
      cases hy : body' s with
      | error e => rfl
      | ok y => exact ih y (hP s y hs hy)

theorem wrapLoop_bind {γ : Type} (text : List α) (width : Int) (b : Block α) (curWord curLine : List α)
    (K : List (List α) × List α × List α → R γ) :
    wrapLoop cx width (clusters cx text) b.lines curWord curLine >>= K =
      Go.whileM ((clusters cx text).length + 1) (wCond cx text) (wBody cx text width) (curLine, b, curWord, 0) >>=
        fun s => K (s.2.1.lines, s.2.2.1, s.1) := by
  have key := wrapLoop_eq_while cx text width ((clusters cx text).length + 1) 0 curLine b curWord (by omega) (by omega)
  have e : wrapLoop cx width (clusters cx text) b.lines curWord curLine >>= K =
      ((fun r => (r.2.2, ({ b with lines := r.1 } : Block α), r.2.1)) <$>
        wrapLoop cx width ((clusters cx text).drop 0) b.lines curWord curLine) >>=
          fun (s : List α × Block α × List α) => K (s.2.1.lines, s.2.2, s.1) := by
    simp only [map_eq_pure_bind, bind_assoc, pure_bind, List.drop_zero]
  rw [e, key]
  simp only [map_eq_pure_bind, bind_assoc, pure_bind, Int.natCast_zero]

/-- Go's Wrap returns a Block (separator `lineSep`, no trailing mode); the hand model returns its lines -/
theorem wrap_regenerated (h : Gen.Code.wrap_extracted = true) (text : List α) (width : Int) (lineSep : List α) :
    Gen.Code.wrap cx text width lineSep =
      (fun ls => ({ lines := ls, sep := lineSep, trailing := false } : Block α)) <$> wrapLines cx text width lineSep := by
  first
    | exact absurd h (by decide)
    | (unfold Gen.Code.wrap wrapLines
       simp only [blockAppend_regenerated cx (by decide), collapseSpace_regenerated cx (by decide),
         appendWordToWrappedLine_regenerated cx (by decide)]
       go_norm
       simp only [ite_pure, pure_bind, map_bind]
       generalize (if width < 2 then 2 else width) = w
       refine bind_congr (m := R) fun t1 => ?_
       split
       · rfl
       · rw [wrapLoop_bind cx t1 w ({ lines := [], sep := lineSep, trailing := false })]
         simp only [map_bind]
         refine whileM_bind_congr_inv (fun s => s.2.1.sep = lineSep ∧ s.2.1.trailing = false) ?_ ?_ ?_ ?_ _ _ ⟨rfl, rfl⟩
         · intro s _; rfl
         · intro s _
           simp only [wBody, idx_zero]
           refine bind_congr (m := R) fun ch => ?_
           cases ch with
           | nil => rfl
           | cons c rest =>
             simp only [pure_bind]
             split <;> simp only [map_eq_pure_bind, bind_assoc, pure_bind]
         · intro s hs
           obtain ⟨cl, b, cw, i⟩ := s
           obtain ⟨bl, bs, bt⟩ := b
           obtain ⟨rfl, rfl⟩ := hs
           simp only [map_eq_pure_bind, bind_assoc, pure_bind, Block.append]
           split
           · simp only [bind_assoc, pure_bind]
             refine bind_congr (m := R) fun r => ?_
             go_close
           · go_close
         · intro s y hs hy
           obtain ⟨cl, b, cw, i⟩ := s
           simp only [wBody] at hy
           cases hch : gCharAt cx t1 i with
           | error e => rw [hch] at hy; cases hy
           | ok ch =>
             rw [hch] at hy
             cases ch with
             | nil => cases hy
             | cons c rest =>
               replace hy : (if c = cx.sp then
                   appendWord cx w (2 * cw.length + 2) b.lines cw cl >>= fun r =>
                     pure (r.2, ({ b with lines := r.1 } : Block α), ([] : List α), i + 1)
                   else pure (cl, b, cw ++ c :: rest, i + 1)) = pure y := hy
               split at hy
               · cases happ : appendWord cx w (2 * cw.length + 2) b.lines cw cl with
                 | error e => rw [happ] at hy; cases hy
                 | ok r => rw [happ] at hy; cases hy; exact hs
               · cases hy; exact hs)

/-! ### CommitAll -/

theorem depth_withText (e : Editor α) (t : List α) : (e.withText t).depth = e.depth := by
  cases e <;> rfl

theorem commit_depth (ed ed' : Editor α) (h : ed.commit cx = pure ed') (hs : ed.isSub = true) :
    ed'.depth + 1 = ed.depth := by
  cases ed with
  | root t o => cases hs
  | sub t o p a b =>
    simp only [Editor.commit] at h
    cases hsp : spliceBytes cx p.text a b t with
    | error e => rw [hsp] at h; cases h
    | ok r => rw [hsp] at h; cases h; simp [Editor.depth, depth_withText]

theorem commitAll_eq_while : ∀ (n : Nat) (ed : Editor α), ed.depth ≤ n →
    commitAllFuel cx n ed = Go.whileM (n + 1) (fun e => pure e.isSub) (fun e => e.commit cx) ed := by
  intro n
  induction n with
  | zero =>
    intro ed hd
    cases ed with
    | root t o => rfl
    | sub t o p a b => simp [Editor.depth] at hd
  | succ n ih =>
    intro ed hd
    unfold Go.whileM commitAllFuel
    simp only [pure_bind]
    cases hs : ed.isSub with
    | false => rfl
    | true =>
      simp only [if_true]
      cases hc : ed.commit cx with
      | error e => rfl
      | ok ed' =>
        have := commit_depth cx ed ed' hc hs
        exact ih ed' (by omega)

theorem editorCommitAll_regenerated (h : Gen.Code.editorCommitAll_extracted = true) (ed : Editor α) :
    Gen.Code.editorCommitAll cx ed = ed.commitAll cx := by
  first
    | exact absurd h (by decide)
    | (unfold Gen.Code.editorCommitAll Editor.commitAll
       rw [commitAll_eq_while cx _ _ (Nat.le_refl _)]
       simp only [editorCommit_regenerated cx (by decide), editorIsSubEditor_regenerated cx (by decide), bind_pure])

theorem editorString_regenerated (h : Gen.Code.editorString_extracted = true) (ed : Editor α) :
    Gen.Code.editorString cx ed = ed.string cx := by
  first
    | exact absurd h (by decide)
    | (unfold Gen.Code.editorString Editor.string
       simp only [editorIsSubEditor_regenerated cx (by decide), editorCommitAll_regenerated cx (by decide), pure_bind]
       cases ed with
       | root t o => rfl
       | sub t o p a b => simp [Editor.isSub])

/-! ### CombineColumnBlocks -/

theorem block_line_nat (b : Block α) (k : Nat) (hk : k < b.lines.length) :
    b.line (k : Int) = pure (b.lines.getD k []) := by
  unfold Block.line
  rw [if_neg (by omega)]
  simp

/-- first loop (state: leftColMaxWidth, i) -/
def cc1Cond (left : Block α) (s : Int × Int) : R Bool := pure (decide (s.2 < (left.lines.length : Int)))
def cc1Body (left : Block α) (s : Int × Int) : R (Int × Int) :=
  left.line s.2 >>= fun l => pure ((if (gLen cx l : Int) > s.1 then (gLen cx l : Int) else s.1), s.2 + 1)

theorem cc1_while (left : Block α) : ∀ (fuel k : Nat) (m : Int), k ≤ left.lines.length → left.lines.length + 1 ≤ fuel + k →
    Go.whileM fuel (cc1Cond left) (cc1Body cx left) (m, (k : Int)) =
      pure ((left.lines.drop k).foldl (fun m l => if (gLen cx l : Int) > m then (gLen cx l : Int) else m) m,
        (left.lines.length : Int)) := by
  intro fuel
  induction fuel with
  | zero => intro k m h1 h2; omega
  | succ n ih =>
    intro k m h1 h2
    unfold Go.whileM
    simp only [cc1Cond, pure_bind]
    by_cases hlt : k < left.lines.length
    · have h3 : ((k : Int) < (left.lines.length : Int)) := by omega
      simp only [h3, decide_true, if_true, cc1Body, block_line_nat left k hlt, pure_bind]
      rw [show ((k : Int) + 1) = ((k + 1 : Nat) : Int) by omega, ih (k + 1) _ (by omega) (by omega)]
      rw [List.drop_eq_getElem_cons hlt, List.foldl_cons]
      simp [List.getD_eq_getElem?_getD, hlt]
    · have h3 : ¬ ((k : Int) < (left.lines.length : Int)) := by omega
      have h4 : k = left.lines.length := by omega
      simp [h4]


/-- one combined row, as in the hand model -/
def ccRow (left right : List (List α)) (total : Int) (i : Nat) : R (List α) := do
  let l := left.getD i []
  let lc : Int := if i < left.length then gLen cx l else 0
  let r := right.getD i []
  let spacer ← repeatStr [cx.sp] (total - lc)
  pure (l ++ spacer ++ r)

/-- second loop (state: combined, i) -/
def cc2Cond (n : Int) (s : Block α × Int) : R Bool := pure (decide (s.2 < n))
def cc2Body (left right : Block α) (total : Int) (s : Block α × Int) : R (Block α × Int) := do
  let lp ← (if s.2 < (left.lines.length : Int) then
      left.line s.2 >>= fun l => left.line s.2 >>= fun l' => pure (l, (gLen cx l' : Int))
    else pure (([] : List α), (0 : Int)))
  let r ← (if s.2 < (right.lines.length : Int) then right.line s.2 else pure [])
  let spacer ← repeatStr [cx.sp] (total - lp.2)
  pure (s.1.append (lp.1 ++ spacer ++ r), s.2 + 1)

theorem cc2Body_nat (left right : Block α) (total : Int) (b : Block α) (k : Nat) :
    cc2Body cx left right total (b, (k : Int)) =
      ccRow cx left.lines right.lines total k >>= fun row => pure (b.append row, ((k + 1 : Nat) : Int)) := by
  unfold cc2Body ccRow
  by_cases hl : k < left.lines.length <;> by_cases hr : k < right.lines.length
  all_goals
    have hl' : ((k : Int) < (left.lines.length : Int)) ↔ k < left.lines.length := by omega
    have hr' : ((k : Int) < (right.lines.length : Int)) ↔ k < right.lines.length := by omega
    simp [hl, hr, hl', hr', block_line_nat]


theorem cc2_while (left right : Block α) (total : Int) (n : Nat) : ∀ (fuel k : Nat) (b : Block α), k ≤ n → n + 1 ≤ fuel + k →
    Go.whileM fuel (cc2Cond (n : Int)) (cc2Body cx left right total) (b, (k : Int)) =
      (List.range' k (n - k)).mapM (ccRow cx left.lines right.lines total) >>= fun rows =>
        pure (({ b with lines := b.lines ++ rows } : Block α), (n : Int)) := by
  intro fuel
  induction fuel with
  | zero => intro k b h1 h2; omega
  | succ f ih =>
    intro k b h1 h2
    unfold Go.whileM
    simp only [cc2Cond, pure_bind]
    by_cases hlt : k < n
    · have h3 : ((k : Int) < (n : Int)) := by omega
      simp only [h3, decide_true, if_true, cc2Body_nat, bind_assoc, pure_bind]
      rw [show n - k = (n - (k + 1)) + 1 by omega, List.range'_succ, List.mapM_cons]
      simp only [bind_assoc, pure_bind]
      refine bind_congr (m := R) fun row => ?_
      rw [ih (k + 1) _ (by omega) (by omega)]
      refine bind_congr (m := R) fun rows => ?_
      simp [Block.append]
    · have h3 : ¬ ((k : Int) < (n : Int)) := by omega
      have h4 : k = n := by omega
      subst h4
      simp [h3]


theorem combineColumnBlocks_regenerated (h : Gen.Code.combineColumnBlocks_extracted = true)
    (left right : Block α) (m : Int) :
    Gen.Code.combineColumnBlocks cx left right m =
      (fun ls => ({ lines := ls, sep := [], trailing := false } : Block α)) <$>
        combineColumns cx left.lines right.lines m := by
  first
    | exact absurd h (by decide)
    | (unfold Gen.Code.combineColumnBlocks combineColumns
       simp only [blockLen_regenerated cx (by decide), blockLine_regenerated cx (by decide),
         blockCharCount_regenerated cx (by decide), blockAppend_regenerated cx (by decide)]
       go_norm
       by_cases hE : left.lines = [] ∧ right.lines = []
       · simp [hE]
       · have hmax : (if (left.lines.length : Int) < (right.lines.length : Int) then (right.lines.length : Int)
             else (left.lines.length : Int)) = ((max left.lines.length right.lines.length : Nat) : Int) := by
           split <;> omega
         have ht3 : (if left.lines = [] then (pure (decide (right.lines = [])) : R Bool) else pure false) = pure false := by
           split
           · rename_i hl; simp only [hl, true_and] at hE; simp [hE]
           · rfl
         simp only [ht3, hE, if_false, ite_pure, pure_bind, hmax, Int.toNat_natCast, Bool.false_eq_true]
         refine Eq.trans (whileM_bind_congr (cond' := cc1Cond left) (body' := cc1Body cx left) rfl rfl ?_ ?_ (fun _ => rfl)) ?_
         · intro s; rfl
         · intro s; simp only [cc1Body, ite_pure, pure_bind]
         · have k1 := cc1_while cx left (left.lines.length + 1) 0 0 (by omega) (by omega)
           simp only [Int.natCast_zero, List.drop_zero] at k1
           rw [k1]
           simp only [pure_bind]
           refine Eq.trans (whileM_bind_congr (cond' := cc2Cond ((max left.lines.length right.lines.length : Nat) : Int))
             (body' := cc2Body cx left right
               (left.lines.foldl (fun m l => if (gLen cx l : Int) > m then (gLen cx l : Int) else m) 0 + m))
             rfl rfl ?_ ?_ (fun _ => rfl)) ?_
           · intro s; rfl
           · intro s; simp only [cc2Body, bind_assoc, pure_bind, bind_pure]
           · have k2 := cc2_while cx left right
               (left.lines.foldl (fun m l => if (gLen cx l : Int) > m then (gLen cx l : Int) else m) 0 + m)
               (max left.lines.length right.lines.length) (max left.lines.length right.lines.length + 1) 0
               ({ lines := [], sep := [], trailing := false }) (by omega) (by omega)
             simp only [Int.natCast_zero] at k2
             rw [k2]
             simp only [bind_assoc, pure_bind, List.nil_append, Nat.sub_zero, List.range_eq_range', map_eq_pure_bind]
             rfl)

/-! ### WrapOpts, IndentOpts -/

/-! ### ApplyOpts -/

/-- monadic map with an `int` index starting at `k` -/
def mapIdxFrom {β γ : Type} (g : Int → β → R γ) : Int → List β → R (List γ)
  | _, [] => pure []
  | k, x :: xs => g k x >>= fun y => mapIdxFrom g (k + 1) xs >>= fun ys => pure (y :: ys)

theorem forRange_flatten {β γ : Type} (g : Int → β → R (List γ)) : ∀ (xs : List β) (k : Int) (acc : List γ),
    Go.forRangeAux (fun i x acc => g i x >>= fun nl => pure (acc ++ nl)) k xs acc =
      mapIdxFrom g k xs >>= fun outs => pure (acc ++ outs.flatten) := by
  intro xs
  induction xs with
  | nil => intro k acc; simp [Go.forRangeAux, mapIdxFrom]
  | cons x xs ih =>
    intro k acc
    simp only [Go.forRangeAux, mapIdxFrom, bind_assoc, pure_bind]
    refine bind_congr (m := R) fun y => ?_
    rw [ih]
    simp [List.append_assoc]

theorem mapM_range_getD {β γ : Type} (g : Int → β → R γ) (d : β) : ∀ (xs p : List β),
    (List.range' p.length xs.length).mapM (fun (i : Nat) => g (i : Int) ((p ++ xs).getD i d)) = mapIdxFrom g (p.length : Int) xs := by
  intro xs
  induction xs with
  | nil => intro p; simp [mapIdxFrom]
  | cons x xs ih =>
    intro p
    simp only [List.length_cons, List.range'_succ, List.mapM_cons, mapIdxFrom]
    have h1 : (p ++ x :: xs).getD p.length d = x := by simp [List.getD_eq_getElem?_getD]
    rw [h1]
    refine bind_congr (m := R) fun y => ?_
    have := ih (p ++ [x])
    simp only [List.length_append, List.length_cons, List.length_nil, List.append_assoc, List.cons_append,
      List.nil_append, Nat.zero_add] at this
    rw [this]
    simp [Int.natCast_add]


/-- Go's callback takes an `int` index and may panic: `applyOptsM` with the index cast -/
theorem editorApplyOpts_regenerated (h : Gen.Code.editorApplyOpts_extracted = true) (ed : Editor α)
    (op : Int → List α → R (List (List α))) (o : Options α) :
    Gen.Code.editorApplyOpts cx ed op o = ed.applyOptsM cx (fun i l => op (i : Int) l) o := by
  first
    | exact absurd h (by decide)
    | (unfold Gen.Code.editorApplyOpts Editor.applyOptsM
       simp only [optionsWithDefaults_regenerated cx (by decide), editorLinesSep_regenerated cx (by decide),
         editorWithOptions_regenerated cx (by decide), pure_bind]
       go_norm
       simp only [Go.forRangeM, ite_pure]
       have hb : (fun (v_idx : Int) (v_line : List α) (v_applied : List (List α)) =>
            op v_idx v_line >>= fun t3 => (pure (if t3 ≠ [] then v_applied ++ t3 else v_applied) : R _)) =
           (fun i x acc => op i x >>= fun nl => pure (acc ++ nl)) := by
         funext i x acc
         refine bind_congr (m := R) fun nl => ?_
         split <;> simp_all
       rw [hb, forRange_flatten]
       have hm := mapM_range_getD (fun i l => op i l) ([] : List α)
         ((ed.withOpts (o.withDefaults cx)).linesSep (o.withDefaults cx).lineSep) []
       simp only [List.length_nil, List.nil_append, Int.natCast_zero, ← List.range_eq_range'] at hm
       rw [hm]
       simp only [bind_assoc, pure_bind, List.nil_append]
       first
         | (refine bind_congr (m := R) fun outs => ?_
            go_close)
         | -- the variant with a fast path for a single line: `applied = op(0, lines[0])`
           (generalize (ed.withOpts (o.withDefaults cx)).linesSep (o.withDefaults cx).lineSep = L
            have hfast : (if ((L.length : Nat) : Int) = 1 then
                  (Go.idx L 0 >>= fun t4 => op 0 t4 >>= fun t5 => (pure t5 : R _))
                else (mapIdxFrom op 0 L >>= fun outs => (pure outs.flatten : R _))) =
                (mapIdxFrom op 0 L >>= fun outs => (pure outs.flatten : R _)) := by
              split
              · rename_i h1
                match L, h1 with
                | [l], _ => simp [Go.idx, mapIdxFrom]
              · rfl
            rw [hfast]
            simp only [bind_assoc, pure_bind]
            refine bind_congr (m := R) fun outs => ?_
            go_close))

/-! ### JustifyLine -/

/-- Go's `fullList`: the words interleaved with one string of `1 + extra[g]` spaces per gap -/
def jlFull : List (List α) → List Nat → List (List α)
  | [], _ => []
  | [w], _ => [w]
  | w :: w' :: ws, e :: es => w :: List.replicate (1 + e) cx.sp :: jlFull (w' :: ws) es
  | w :: w' :: ws, [] => w :: [cx.sp] :: jlFull (w' :: ws) []

theorem jlFull_flatten : ∀ (ws : List (List α)) (ex : List Nat), (jlFull cx ws ex).flatten = interleave cx ws ex := by
  intro ws
  induction ws with
  | nil => intro ex; simp [jlFull, interleave]
  | cons w ws ih =>
    intro ex
    cases ws with
    | nil => simp [jlFull, interleave]
    | cons w' ws' =>
      cases ex with
      | nil => simp [jlFull, interleave, ih]
      | cons e es => simp [jlFull, interleave, ih]

theorem jlFull_length : ∀ (ws : List (List α)) (ex : List Nat), ws ≠ [] → (jlFull cx ws ex).length = 2 * ws.length - 1 := by
  intro ws
  induction ws with
  | nil => intro ex h; exact absurd rfl h
  | cons w ws ih =>
    intro ex _
    cases ws with
    | nil => simp [jlFull]
    | cons w' ws' =>
      cases ex with
      | nil => simp [jlFull, ih [] (by simp)]; omega
      | cons e es => simp [jlFull, ih es (by simp)]; omega

/-- the gap string at position `2g+1` and its update -/
theorem jlFull_gap : ∀ (ws : List (List α)) (ex : List Nat) (g : Nat), g + 1 < ws.length → ex.length + 1 = ws.length →
    (jlFull cx ws ex)[2 * g + 1]? = some (List.replicate (1 + ex.getD g 0) cx.sp) ∧
    (jlFull cx ws ex).set (2 * g + 1) (List.replicate (1 + ex.getD g 0) cx.sp ++ [cx.sp]) =
      jlFull cx ws (ex.modify g (· + 1)) := by
  intro ws
  induction ws with
  | nil => intro ex g h; simp at h
  | cons w ws ih =>
    intro ex g hg hl
    cases ws with
    | nil => simp at hg
    | cons w' ws' =>
      cases ex with
      | nil => simp at hl
      | cons e es =>
        cases g with
        | zero =>
          simp [jlFull, List.replicate_succ']
          rw [show 1 + (e + 1) = (1 + e) + 1 by omega, List.replicate_succ']
        | succ k =>
          have := ih es k (by simpa using hg) (by simpa using hl)
          simp only [jlFull]
          have e1 : 2 * (k + 1) + 1 = (2 * k + 1) + 1 + 1 := by omega
          rw [e1]
          simp only [List.getElem?_cons_succ, List.set_cons_succ, List.getD_cons_succ, List.modify_succ_cons, jlFull]
          exact ⟨this.1, by rw [this.2]⟩


theorem jl_step (ws : List (List α)) (ex : List Nat) (hl : ex.length + 1 = ws.length) (g : Int) :
    (Go.idx (jlFull cx ws ex) (g * 2 + 1) >>= fun t => Go.sliceSet (jlFull cx ws ex) (g * 2 + 1) (t ++ [cx.sp])) =
      if g < 0 ∨ g ≥ ((ws.length : Int) - 1) then throw .index
      else pure (jlFull cx ws (ex.modify g.toNat (· + 1))) := by
  have hne : ws ≠ [] := by intro h; simp [h] at hl
  have hlen := jlFull_length cx ws ex hne
  by_cases hr : g < 0 ∨ g ≥ ((ws.length : Int) - 1)
  · rw [if_pos hr]
    unfold Go.idx
    rw [dif_neg (by omega)]
    rfl
  · rw [if_neg hr]
    have hk : g = ((g.toNat : Nat) : Int) := by omega
    have hk2 : (g * 2 + 1).toNat = 2 * g.toNat + 1 := by omega
    have hg := jlFull_gap cx ws ex g.toNat (by omega) hl
    unfold Go.idx Go.sliceSet
    rw [dif_pos (by omega)]
    simp only [pure_bind]
    rw [if_pos (by omega)]
    have h1 : (jlFull cx ws ex)[(g * 2 + 1).toNat]'(by omega) = List.replicate (1 + ex.getD g.toNat 0) cx.sp := by
      have := hg.1
      rw [← hk2, List.getElem?_eq_getElem (by omega)] at this
      exact Option.some.inj this
    rw [h1, hk2, hg.2]


/-- the distribution loop of JustifyLine over the model's primitives (state: fullList, fromRight, spaceIdx, i) -/
def jlCond (spacesToAdd : Int) (s : List (List α) × Bool × Int × Int) : R Bool := pure (decide (s.2.2.2 < spacesToAdd))
def jlBody (numGaps odd : Int) (s : List (List α) × Bool × Int × Int) : R (List (List α) × Bool × Int × Int) :=
  let g : Int := if s.2.1 then (numGaps - odd) - s.2.2.1 else s.2.2.1
  (Go.idx s.1 (g * 2 + 1) >>= fun t => Go.sliceSet s.1 (g * 2 + 1) (t ++ [cx.sp])) >>= fun fl =>
    pure (fl, !s.2.1, (if s.2.2.1 + 1 ≥ numGaps then 0 else s.2.2.1 + 1), s.2.2.2 + 1)

theorem distribute_eq_while (ws : List (List α)) (odd spacesToAdd : Int) :
    ∀ (fuel n : Nat) (ex : List Nat) (fromRight : Bool) (spaceIdx i : Int),
    ex.length + 1 = ws.length → i + n = spacesToAdd → n + 1 ≤ fuel →
    (jlFull cx ws ·) <$> distribute ((ws.length : Int) - 1) odd n spaceIdx fromRight ex =
      (fun s => s.1) <$> Go.whileM fuel (jlCond spacesToAdd) (jlBody cx ((ws.length : Int) - 1) odd)
        (jlFull cx ws ex, fromRight, spaceIdx, i) := by
  intro fuel
  induction fuel with
  | zero => intro n ex fr si i _ _ h; omega
  | succ f ih =>
    intro n ex fr si i hl hi hf
    unfold Go.whileM
    simp only [jlCond, pure_bind]
    cases n with
    | zero =>
      have : ¬ (i < spacesToAdd) := by omega
      simp [this, distribute]
    | succ m =>
      have : (i < spacesToAdd) := by omega
      simp only [this, decide_true, if_true, jlBody, jl_step cx ws _ hl, distribute]
      generalize (if fr = true then (ws.length : Int) - 1 - odd - si else si) = g
      split
      · rfl
      · simp only [pure_bind]
        exact ih m _ (!fr) _ (i + 1) (by simp [hl]) (by omega) (by omega)


theorem jl_build (N : Int) : ∀ (xs : List (List α)) (k : Int) (acc : List (List α)), k + xs.length = N →
    Go.forRangeAux (fun (i : Int) (w : List α) (acc : List (List α)) =>
        (pure (if i + 1 < N then acc ++ [w] ++ [[cx.sp]] else acc ++ [w]) : R _)) k xs acc =
      pure (acc ++ jlFull cx xs (List.replicate (xs.length - 1) 0)) := by
  intro xs
  induction xs with
  | nil => intro k acc _; simp [Go.forRangeAux, jlFull]
  | cons w ws ih =>
    intro k acc hk
    cases ws with
    | nil =>
      have : ¬ (k + 1 < N) := by simp at hk; omega
      simp [Go.forRangeAux, jlFull, this]
    | cons w' r =>
      have : (k + 1 < N) := by simp at hk; omega
      rw [Go.forRangeAux, pure_bind, if_pos this, ih (k + 1) _ (by simp at hk ⊢; omega)]
      simp [jlFull, List.replicate_succ]

theorem intercalate_nil {β : Type} (l : List (List β)) : List.intercalate [] l = l.flatten := by
  induction l with
  | nil => rfl
  | cons a t ih =>
    cases t with
    | nil => simp [List.intercalate]
    | cons b r =>
      simp only [List.intercalate, List.intersperse_cons_cons, List.flatten_cons, List.nil_append] at ih ⊢
      rw [ih]

theorem justifyLine_regenerated (h : Gen.Code.justifyLine_extracted = true) (text : List α) (width : Int) :
    Gen.Code.justifyLine cx text width = justifyLine cx text width := by
  first
    | exact absurd h (by decide)
    | (unfold Gen.Code.justifyLine justifyLine
       simp only [collapseSpace_regenerated cx (by decide)]
       go_norm
       refine bind_congr (m := R) fun t => ?_
       split
       · rfl
       · split
         · rfl
         · rename_i hw hg
           simp only [Go.forRangeM, ite_pure, pure_bind]
           have hlen : 2 ≤ (splitOn t [cx.sp]).length := by omega
           rw [jl_build cx ((splitOn t [cx.sp]).length : Int) (splitOn t [cx.sp]) 0 [] (by omega)]
           simp only [pure_bind, List.nil_append]
           have hodd : (if ((((splitOn t [cx.sp]).length : Int) - 1) % 2 == 0) = true then (0 : Int) else 1) =
               (if (((splitOn t [cx.sp]).length : Int) - 1).tmod 2 = 0 then (0 : Int) else 1) := by
             rw [Int.tmod_eq_emod_of_nonneg (by omega)]
             simp
           have hrep : (((splitOn t [cx.sp]).length : Int) - 1).toNat = (splitOn t [cx.sp]).length - 1 := by omega
           have hR : ∀ m : R (List Nat), (m >>= fun extra => (pure (interleave cx (splitOn t [cx.sp]) extra) : R _)) =
               ((jlFull cx (splitOn t [cx.sp]) ·) <$> m) >>= fun fl => pure fl.flatten := by
             intro m; simp only [map_eq_pure_bind, bind_assoc, pure_bind, jlFull_flatten]
           rw [hR, hodd, hrep, distribute_eq_while cx (splitOn t [cx.sp]) _ (width - (gLen cx t : Int))
             ((width - (gLen cx t : Int)).toNat + 1) _ _ false 0 0 (by simp; omega) (by omega) (by omega)]
           simp only [map_eq_pure_bind, bind_assoc, pure_bind]
           refine whileM_bind_congr rfl rfl ?_ ?_ ?_
           · intro s; rfl
           · intro s; simp only [jlBody, bind_assoc, pure_bind]; split <;> rfl
           · intro s; simp [joinWith, intercalate_nil])

/-! ### applyGParagraphsOpts -/

theorem idx_append_cons {β : Type} (p : List β) (x : β) (r : List β) :
    Go.idx (p ++ x :: r) (p.length : Int) = pure x := by
  unfold Go.idx
  rw [dif_pos (by simp)]
  simp

theorem idx_append_cons_succ {β : Type} (p : List β) (x y : β) (r : List β) :
    Go.idx (p ++ x :: y :: r) ((p.length : Int) + 1) = pure y := by
  have := idx_append_cons (p ++ [x]) y r
  simpa using this

theorem sliceSet_append_cons_succ {β : Type} (p : List β) (x y v : β) (r : List β) :
    Go.sliceSet (p ++ x :: y :: r) ((p.length : Int) + 1) v = pure (p ++ x :: v :: r) := by
  unfold Go.sliceSet
  have h : ((p.length : Int) + 1).toNat = p.length + 1 := by omega
  rw [if_pos (by simp; omega), h]
  simp [List.set_append]

theorem byteSlice_drop_prefix (hpos : ∀ a, 0 < cx.blen a) (p s : List α) (h : p.isPrefixOf s = true) :
    byteSlice cx s (byteLen cx p) (byteLen cx s) = pure (s.drop p.length) := by
  obtain ⟨t, rfl⟩ := List.isPrefixOf_iff_prefix.mp h
  have := byteSlice_take_drop (cx := cx) hpos (p ++ t) p.length (p ++ t).length (by simp) (Nat.le_refl _)
  rw [List.take_length] at this
  simp at this
  simp only [List.drop_left']
  exact this


/-- the paragraph loop over the model's primitives (state: paragraphs, transformed) -/
def gpBody (op : Int → List α → List α → List α → R (List (List α))) (lineSep prevSuffix nextPrefix : List α) (ambig : Bool)
    (i : Int) (_x : List α) (s : List (List α) × List (List α)) : R (List (List α) × List (List α)) :=
  Go.idx s.1 i >>= fun para =>
  (if i ≠ (s.1.length : Int) - 1 then
      (if ambig = true then
        Go.idx s.1 (i + 1) >>= fun nxt =>
          if lineSep.isPrefixOf nxt = true then
            Go.idx s.1 (i + 1) >>= fun nxt2 =>
            byteSlice cx nxt2 (byteLen cx lineSep) (byteLen cx nxt2) >>= fun nxt' =>
              Go.sliceSet s.1 (i + 1) nxt' >>= fun ps => pure (prevSuffix, ps, para ++ lineSep)
          else pure (prevSuffix, s.1, para)
      else pure (prevSuffix, s.1, para))
    else pure (([] : List α), s.1, para)) >>= fun r =>
  op i r.2.2 (if i ≠ 0 then nextPrefix else []) r.1 >>= fun out => pure (r.2.1, s.2 ++ out)

theorem paraLoop_eq_range (hpos : ∀ a, 0 < cx.blen a) (op : Int → List α → List α → List α → R (List (List α)))
    (lineSep prevSuffix nextPrefix : List α) (ambig : Bool) :
    ∀ (rest : List (List α)) (cur : List α) (done acc xs : List (List α)), xs.length = rest.length + 1 →
      (acc ++ ·) <$> paraLoop (fun i => op (i : Int)) lineSep prevSuffix nextPrefix ambig done.length cur rest =
        (·.2) <$> Go.forRangeAux (gpBody cx op lineSep prevSuffix nextPrefix ambig) (done.length : Int) xs
          (done ++ cur :: rest, acc) := by
  intro rest
  induction rest with
  | nil =>
    intro cur done acc xs hx
    match xs, hx with
    | [x], _ =>
      simp only [Go.forRangeAux, gpBody, idx_append_cons, pure_bind, paraLoop]
      have h1 : ¬ ((done.length : Int) ≠ (((done ++ [cur]).length : Nat) : Int) - 1) := by simp
      simp only [h1, if_false, pure_bind, bind_assoc, map_bind]
      have h2 : ((done.length != 0) = true) ↔ ((done.length : Int) ≠ 0) := by simp
      simp only [h2]
      refine bind_congr (m := R) fun out => ?_
      rfl
  | cons nxt rest' ih =>
    intro cur done acc xs hx
    match xs, hx with
    | x :: xs', hx' =>
      simp only [Go.forRangeAux, gpBody, idx_append_cons, idx_append_cons_succ, sliceSet_append_cons_succ, pure_bind, paraLoop]
      have h1 : ((done.length : Int) ≠ (((done ++ cur :: nxt :: rest').length : Nat) : Int) - 1) := by
        simp; omega
      have h2 : ((done.length != 0) = true) ↔ ((done.length : Int) ≠ 0) := by simp
      simp only [h2]
      rw [if_pos h1]
      have key : ∀ (nx : List α) (out : List (List α)),
          (paraLoop (fun i => op (i : Int)) lineSep prevSuffix nextPrefix ambig (done.length + 1) nx rest'
            >>= fun more => (fun x => acc ++ x) <$> (pure (out ++ more) : R _)) =
          (·.2) <$> Go.forRangeAux (gpBody cx op lineSep prevSuffix nextPrefix ambig) ((done.length : Int) + 1) xs'
            (done ++ cur :: nx :: rest', acc ++ out) := by
        intro nx out
        have := ih nx (done ++ [cur]) (acc ++ out) xs' (by simpa using hx')
        simp only [List.length_append, List.length_cons, List.length_nil, Nat.zero_add, Int.natCast_add, Int.cast_ofNat_Int,
          List.append_assoc, List.cons_append, List.nil_append] at this
        rw [← this]
        simp only [map_eq_pure_bind, bind_assoc, pure_bind, List.append_assoc]
      cases ambig
      · simp only [Bool.false_and, Bool.false_eq_true, if_false, pure_bind, bind_assoc, map_bind]
        refine bind_congr (m := R) fun out => ?_
        exact key nxt out
      · by_cases hp : lineSep.isPrefixOf nxt = true
        · simp only [Bool.true_and, hp, if_true, byteSlice_drop_prefix cx hpos lineSep nxt hp, pure_bind, bind_assoc, map_bind]
          refine bind_congr (m := R) fun out => ?_
          exact key _ out
        · simp only [Bool.true_and, hp, if_false, if_true, pure_bind, bind_assoc, map_bind, Bool.false_eq_true]
          refine bind_congr (m := R) fun out => ?_
          exact key nxt out


/-- Needs: the built-in default separators are non-empty (`parts[0]`, `paragraphs` never empty) and every
atom has a positive UTF-8 length (the byte slice `paragraphs[idx+1][len(lineSep):]` is the rune-level `drop`). -/
theorem editorApplyGParagraphsOpts_regenerated (h : Gen.Code.editorApplyGParagraphsOpts_extracted = true)
    (hd : DefaultsOk cx) (hpos : ∀ a, 0 < cx.blen a) (ed : Editor α)
    (op : Int → List α → List α → List α → R (List (List α))) (o : Options α) :
    Gen.Code.editorApplyGParagraphsOpts cx ed op o = ed.applyParasM cx (fun i => op (i : Int)) o := by
  first
    | exact absurd h (by decide)
    | (unfold Gen.Code.editorApplyGParagraphsOpts Editor.applyParasM
       simp only [optionsWithDefaults_regenerated cx (by decide)]
       go_norm
       have hls : (o.withDefaults cx).lineSep ≠ [] := by
         rw [(withDefaults_fields cx o).1]; split
         · exact hd.1
         · simp_all
       have hps : (o.withDefaults cx).paraSep ≠ [] := by
         rw [(withDefaults_fields cx o).2.2.1]; split
         · exact hd.2.2
         · simp_all
       generalize o.withDefaults cx = od at *
       have hparts := splitOn_ne_nil' od.paraSep od.lineSep hls
       have hparas := splitOn_ne_nil' ed.text od.paraSep hps
       have h0 : Go.idx (splitOn od.paraSep od.lineSep) 0 = pure ((splitOn od.paraSep od.lineSep).headD []) := by
         cases hsp : splitOn od.paraSep od.lineSep with
         | nil => exact absurd hsp hparts
         | cons a t => simp [Go.idx]
       have hl : Go.idx (splitOn od.paraSep od.lineSep) (((splitOn od.paraSep od.lineSep).length : Int) - 1) =
           pure ((splitOn od.paraSep od.lineSep).getLastD []) := by
         rw [idx_last _ hparts, List.getLastD_eq_getLast?, List.getLast?_eq_some_getLast hparts]
         rfl
       simp only [h0, hl, pure_bind, bind_pure, ite_pure, Go.forRangeM]
       cases hsp : splitOn ed.text od.paraSep with
       | nil => exact absurd hsp hparas
       | cons p ps =>
         simp only []
         have key := paraLoop_eq_range cx hpos op od.lineSep ((splitOn od.paraSep od.lineSep).headD [])
           (if (splitOn od.paraSep od.lineSep).length > 1 then (splitOn od.paraSep od.lineSep).getLastD [] else [])
           (od.paraSep ++ od.lineSep == od.lineSep ++ od.paraSep) ps p [] [] (p :: ps) rfl
         simp only [List.length_nil, Int.natCast_zero, List.nil_append] at key
         have e1 : ∀ (m : R (List (List α))) (k : List (List α) → R (Editor α)),
             m >>= k = ((fun x => x) <$> m) >>= k := by
           intro m k; simp
         rw [e1 (paraLoop _ _ _ _ _ _ _ _), key]
         simp only [map_eq_pure_bind, bind_assoc, pure_bind]
         congr 1
         refine congrArg (fun b => Go.forRangeAux b (0 : Int) (p :: ps) (p :: ps, ([] : List (List α)))) ?_
         funext i x s
         have hc : (((splitOn od.paraSep od.lineSep).length : Int) > 1) ↔ ((splitOn od.paraSep od.lineSep).length > 1) := by omega
         have hfin : ∀ (a : List (List α)) (t11 : List (List α)),
             (pure (a, if t11 ≠ [] then s.2 ++ t11 else s.2) : R _) = pure (a, s.2 ++ t11) := by
           intro a t11; split <;> simp_all
         simp only [gpBody, hc, beq_iff_eq, hfin]
         refine bind_congr (m := R) fun para => ?_
         by_cases h1 : i ≠ (s.1.length : Int) - 1
         · simp only [h1, if_true, ne_eq, not_false_eq_true, bind_assoc, pure_bind]
           by_cases h2 : od.paraSep ++ od.lineSep = od.lineSep ++ od.paraSep
           · simp only [h2, if_true, bind_assoc, pure_bind, decide_true]
             refine bind_congr (m := R) fun nxt => ?_
             by_cases h3 : od.lineSep.isPrefixOf nxt = true
             · simp only [h3, if_true, bind_assoc, pure_bind]
             · simp only [h3, if_false, bind_assoc, pure_bind, Bool.false_eq_true]
           · simp only [h2, if_false, bind_assoc, pure_bind, decide_false, Bool.false_eq_true]
         · simp only [h1, if_false, bind_assoc, pure_bind])


theorem editorApplyParagraphsOpts_regenerated (h : Gen.Code.editorApplyParagraphsOpts_extracted = true)
    (hd : DefaultsOk cx) (hpos : ∀ a, 0 < cx.blen a) (ed : Editor α)
    (op : Int → List α → List α → List α → R (List (List α))) (o : Options α) :
    Gen.Code.editorApplyParagraphsOpts cx ed op o = ed.applyParasM cx (fun i => op (i : Int)) o := by
  first
    | exact absurd h (by decide)
    | (unfold Gen.Code.editorApplyParagraphsOpts
       simp only [editorApplyGParagraphsOpts_regenerated cx (by decide) hd hpos, bind_pure])

/-! ### WrapOpts, IndentOpts -/

theorem editorWrapOpts_regenerated (h : Gen.Code.editorWrapOpts_extracted = true)
    (hd : DefaultsOk cx) (hpos : ∀ a, 0 < cx.blen a) (ed : Editor α) (width : Int)
    (o : Options α) : Gen.Code.editorWrapOpts cx ed width o = ed.wrapOpts cx width o := by
  first
    | exact absurd h (by decide)
    | (unfold Gen.Code.editorWrapOpts Editor.wrapOpts
       simp only [optionsWithDefaults_regenerated cx (by decide), wrap_regenerated cx (by decide),
         blockJoin_regenerated cx (by decide), editorApplyGParagraphsOpts_regenerated cx (by decide) hd hpos]
       go_norm
       simp only [ite_pure, pure_bind, map_eq_pure_bind, bind_assoc]
       split
       · simp only [bind_pure]
         all_goals
           (congr 1
            all_goals
              (funext i para pre suf
               simp only [Go.gsLen, Go.gsSub, Go.gsAdd, Go.gemRepeatStr, Go.stringsHasSuffix, ite_pure, pure_bind, bind_assoc,
                 map_eq_pure_bind, List.append_assoc]
               refine bind_congr (m := R) fun ls => ?_
               go_close))
       · refine bind_congr (m := R) fun ls => ?_
         go_close)


theorem editorIndentOpts_regenerated (h : Gen.Code.editorIndentOpts_extracted = true)
    (hd : DefaultsOk cx) (hpos : ∀ a, 0 < cx.blen a) (ed : Editor α) (level : Int)
    (o : Options α) : Gen.Code.editorIndentOpts cx ed level o = ed.indentOpts cx level o := by
  first
    | exact absurd h (by decide)
    | (unfold Gen.Code.editorIndentOpts Editor.indentOpts
       simp only [optionsWithDefaults_regenerated cx (by decide), editorApplyOpts_regenerated cx (by decide),
         editorApplyParagraphsOpts_regenerated cx (by decide) hd hpos, edit_regenerated cx (by decide),
         editorWithOptions_regenerated cx (by decide), editorString_regenerated cx (by decide), pure_bind]
       go_norm
       split
       · rfl
       · refine bind_congr (m := R) fun indent => ?_
         split
         · simp only [bind_pure, Go.edApplyParagraphsOpts, Editor.applyOpts, Go.edit, Editor.withOpts]
           all_goals rfl
         · simp only [bind_pure, Editor.applyOpts]
           all_goals rfl)


/-! ### buildTable -/

/-- `for j := j0; j < w; j++ { bar = bar.Add(h) }` -/
theorem repeat_loop (h : List α) (w : Int) : ∀ (fuel n : Nat) (bar : List α) (j : Int),
    n = (w - j).toNat → n + 1 ≤ fuel →
    Go.whileM fuel (fun (s : List α × Int) => (pure (decide (s.2 < w)) : R Bool))
        (fun (s : List α × Int) => (pure (s.1 ++ h, s.2 + 1) : R _)) (bar, j) =
      pure (bar ++ (List.replicate n h).flatten, j + n) := by
  intro fuel
  induction fuel with
  | zero => intro n bar j _ hf; omega
  | succ f ih =>
    intro n bar j hn hf
    unfold Go.whileM
    simp only [pure_bind]
    cases n with
    | zero =>
      have : ¬ (j < w) := by omega
      simp [this]
    | succ m =>
      have : j < w := by omega
      simp only [this, decide_true, if_true]
      have e : j + ((m + 1 : Nat) : Int) = (j + 1) + (m : Int) := by omega
      rw [ih m _ _ (by omega) (by omega), e]
      simp [List.replicate_succ, List.append_assoc]

theorem gRepeat_eq (h : List α) (w : Int) : gRepeat h w = (List.replicate w.toNat h).flatten := rfl

/-- a range loop whose body is a pure step depending on the index only -/
theorem forRange_fold {β σ : Type} (data : List β) (step : σ → Nat → σ) (body : Int → β → σ → R σ)
    (hbody : ∀ (k : Nat) (x : β) (s : σ), k < data.length → body (k : Int) x s = pure (step s k)) :
    ∀ (xs pre : List β) (s : σ), data = pre ++ xs →
      Go.forRangeAux body (pre.length : Int) xs s = pure ((List.range' pre.length xs.length).foldl step s) := by
  intro xs
  induction xs with
  | nil => intro pre s _; rfl
  | cons x xs ih =>
    intro pre s hc
    have hk : pre.length < data.length := by rw [hc]; simp
    rw [Go.forRangeAux, hbody pre.length x s hk, pure_bind]
    have := ih (pre ++ [x]) (step s pre.length) (by simp [hc])
    simp only [List.length_append, List.length_cons, List.length_nil, Nat.zero_add, Int.natCast_add, Int.cast_ofNat_Int] at this
    rw [this]
    simp [List.range'_succ]

theorem forRangeM_fold {β σ : Type} (data : List β) (step : σ → Nat → σ) (body : Int → β → σ → R σ)
    (hbody : ∀ (k : Nat) (x : β) (s : σ), k < data.length → body (k : Int) x s = pure (step s k)) (s : σ) :
    Go.forRangeM data body s = pure ((List.range data.length).foldl step s) := by
  have := forRange_fold data step body hbody data [] s rfl
  simpa [Go.forRangeM, List.range_eq_range'] using this

/-- a counting loop `for k := k0; k < N; k++ { s = step s k }` (state: s, k) -/
theorem while_count2 {σ : Type} (N : Int) (step : σ → Nat → σ) (cond : σ × Int → R Bool) (body : σ × Int → R (σ × Int))
    (hc : ∀ (s : σ) (k : Nat), cond (s, (k : Int)) = pure (decide ((k : Int) < N)))
    (hb : ∀ (s : σ) (k : Nat), (k : Int) < N → body (s, (k : Int)) = pure (step s k, (k : Int) + 1)) :
    ∀ (fuel k : Nat) (s : σ), (k : Int) ≤ max N 0 → N.toNat + 1 ≤ fuel + k →
      Go.whileM fuel cond body (s, (k : Int)) =
        pure ((List.range' k (N.toNat - k)).foldl step s, ((max N.toNat k : Nat) : Int)) := by
  intro fuel
  induction fuel with
  | zero => intro k s h1 h2; omega
  | succ f ih =>
    intro k s h1 h2
    unfold Go.whileM
    rw [hc]
    simp only [pure_bind]
    by_cases hlt : (k : Int) < N
    · simp only [hlt, decide_true, if_true, hb s k hlt, pure_bind]
      have := ih (k + 1) (step s k) (by omega) (by omega)
      simp only [Int.natCast_add, Int.cast_ofNat_Int] at this
      rw [this]
      have e : N.toNat - k = (N.toNat - (k + 1)) + 1 := by omega
      rw [e, List.range'_succ, List.foldl_cons]
      congr 2
      omega
    · have e : N.toNat - k = 0 := by omega
      simp only [hlt, decide_false, Bool.false_eq_true, if_false, e, List.range'_zero, List.foldl_nil]
      congr 2
      omega

/-- the same with a two-component state (state: a, b, k) -/
theorem while_count3 {A B : Type} (N : Int) (step : A × B → Nat → A × B) (cond : A × B × Int → R Bool)
    (body : A × B × Int → R (A × B × Int))
    (hc : ∀ (a : A) (b : B) (k : Nat), cond (a, b, (k : Int)) = pure (decide ((k : Int) < N)))
    (hb : ∀ (a : A) (b : B) (k : Nat), (k : Int) < N →
      body (a, b, (k : Int)) = pure ((step (a, b) k).1, (step (a, b) k).2, (k : Int) + 1)) :
    ∀ (fuel k : Nat) (a : A) (b : B), (k : Int) ≤ max N 0 → N.toNat + 1 ≤ fuel + k →
      Go.whileM fuel cond body (a, b, (k : Int)) =
        pure (((List.range' k (N.toNat - k)).foldl step (a, b)).1, ((List.range' k (N.toNat - k)).foldl step (a, b)).2,
          ((max N.toNat k : Nat) : Int)) := by
  intro fuel
  induction fuel with
  | zero => intro k a b h1 h2; omega
  | succ f ih =>
    intro k a b h1 h2
    unfold Go.whileM
    rw [hc]
    simp only [pure_bind]
    by_cases hlt : (k : Int) < N
    · simp only [hlt, decide_true, if_true, hb a b k hlt, pure_bind]
      have := ih (k + 1) (step (a, b) k).1 (step (a, b) k).2 (by omega) (by omega)
      simp only [Int.natCast_add, Int.cast_ofNat_Int] at this
      rw [this]
      have e : N.toNat - k = (N.toNat - (k + 1)) + 1 := by omega
      rw [e, List.range'_succ, List.foldl_cons]
      have e2 : max N.toNat (k + 1) = max N.toNat k := by omega
      rw [e2]
    · have e : N.toNat - k = 0 := by omega
      have e2 : max N.toNat k = k := by omega
      simp only [hlt, decide_false, Bool.false_eq_true, if_false, e, List.range'_zero, List.foldl_nil, e2]

theorem foldl_range_getD {β σ : Type} (f : σ → β → σ) (d : β) : ∀ (l : List β) (pre : List β) (s : σ),
    (List.range' pre.length l.length).foldl (fun s k => f s ((pre ++ l).getD k d)) s = l.foldl f s := by
  intro l
  induction l with
  | nil => intro pre s; rfl
  | cons x xs ih =>
    intro pre s
    simp only [List.length_cons, List.range'_succ, List.foldl_cons]
    have h1 : (pre ++ x :: xs).getD pre.length d = x := by simp [List.getD_eq_getElem?_getD]
    rw [h1]
    have := ih (pre ++ [x]) (f s x)
    simp only [List.length_append, List.length_cons, List.length_nil, Nat.zero_add, List.append_assoc, List.cons_append,
      List.nil_append] at this
    exact this

theorem while_count2_zero {σ : Type} (N : Int) (step : σ → Nat → σ) (cond : σ × Int → R Bool) (body : σ × Int → R (σ × Int))
    (hc : ∀ (s : σ) (k : Nat), cond (s, (k : Int)) = pure (decide ((k : Int) < N)))
    (hb : ∀ (s : σ) (k : Nat), (k : Int) < N → body (s, (k : Int)) = pure (step s k, (k : Int) + 1))
    (fuel : Nat) (s : σ) (hf : N.toNat + 1 ≤ fuel) :
    Go.whileM fuel cond body (s, 0) = pure ((List.range N.toNat).foldl step s, (N.toNat : Int)) := by
  have := while_count2 N step cond body hc hb fuel 0 s (by omega) (by omega)
  simpa [List.range_eq_range'] using this

theorem while_count3_zero {A B : Type} (N : Int) (step : A × B → Nat → A × B) (cond : A × B × Int → R Bool)
    (body : A × B × Int → R (A × B × Int))
    (hc : ∀ (a : A) (b : B) (k : Nat), cond (a, b, (k : Int)) = pure (decide ((k : Int) < N)))
    (hb : ∀ (a : A) (b : B) (k : Nat), (k : Int) < N →
      body (a, b, (k : Int)) = pure ((step (a, b) k).1, (step (a, b) k).2, (k : Int) + 1))
    (fuel : Nat) (a : A) (b : B) (hf : N.toNat + 1 ≤ fuel) :
    Go.whileM fuel cond body (a, b, 0) =
      pure (((List.range N.toNat).foldl step (a, b)).1, ((List.range N.toNat).foldl step (a, b)).2, (N.toNat : Int)) := by
  have := while_count3 N step cond body hc hb fuel 0 a b (by omega) (by omega)
  simpa [List.range_eq_range'] using this

theorem foldl_const_append (h : List α) : ∀ (l : List Nat) (s : List α),
    l.foldl (fun bar _ => bar ++ h) s = s ++ (List.replicate l.length h).flatten := by
  intro l
  induction l with
  | nil => intro s; simp
  | cons x xs ih => intro s; simp [ih, List.replicate_succ, List.append_assoc]

theorem foldl_pair_snd {A B C : Type} (g : C → A) (f : B → C → B) : ∀ (l : List C) (a : A) (b : B),
    (l.foldl (fun (p : A × B) c => (g c, f p.2 c)) (a, b)).2 = l.foldl f b := by
  intro l
  induction l with
  | nil => intro a b; rfl
  | cons x xs ih => intro a b; simp only [List.foldl_cons]; exact ih _ _

theorem foldl_block_lines (f : List (List α) → Nat → List (List α)) : ∀ (l : List Nat) (blk : Block α),
    l.foldl (fun b k => ({ b with lines := f b.lines k } : Block α)) blk = { blk with lines := l.foldl f blk.lines } := by
  intro l
  induction l with
  | nil => intro blk; rfl
  | cons x xs ih => intro blk; simp only [List.foldl_cons]; rw [ih]

/-- one cell of a table row, as in the hand model's `tableRow` -/
def btCell (row : List (List α)) (colWidths : List Int) (isHeader border : Bool) (chars : TableChars α) (col : Nat) : List α :=
  let cellData := row.getD col []
  let w := colWidths.getD col 0
  if isHeader then
    let hc := cellData.map cx.upper
    if border then alignCenter cx hc w ++ chars.vert else alignLeft cx hc w
  else
    if border then [cx.sp] ++ alignLeft cx cellData (w - 1) ++ chars.vert
    else alignLeft cx cellData w

theorem tableRow_eq (row : List (List α)) (colWidths : List Int) (isHeader border : Bool) (chars : TableChars α) :
    tableRow cx row colWidths isHeader border chars =
      (List.range colWidths.length).foldl (fun line col => line ++ btCell cx row colWidths isHeader border chars col)
        (if border then chars.vert else []) := rfl

/-- one step of the row loop, as in the hand model's `buildTable` -/
def btStep (data : List (List (List α))) (colWidths : List Int) (width : Int) (header border : Bool) (chars : TableChars α)
    (acc : List (List α)) (rowIdx : Nat) : List (List α) :=
  let horzBar : List α :=
    if border then colWidths.foldl (fun bar w => bar ++ gRepeat chars.horz w ++ chars.corner) chars.corner else []
  let breakBar : List α := if header ∧ !border then gRepeat chars.horz width else []
  let row := data.getD rowIdx []
  let isHeader := rowIdx == 0 && header
  let acc := acc ++ [tableRow cx row colWidths isHeader border chars]
  if isHeader then
    if border then (if data.length > 1 then acc ++ [horzBar] else acc)
    else acc ++ [breakBar]
  else acc

theorem buildTable_eq (data : List (List (List α))) (colWidths : List Int) (width : Int) (header border : Bool)
    (chars : TableChars α) :
    buildTable cx data colWidths width header border chars =
      (let horzBar : List α :=
        if border then colWidths.foldl (fun bar w => bar ++ gRepeat chars.horz w ++ chars.corner) chars.corner else []
       let body := (List.range data.length).foldl (btStep cx data colWidths width header border chars)
         (if border then [horzBar] else [])
       if border then body ++ [horzBar] else body) := rfl

theorem buildTable_regenerated (h : Gen.Code.buildTable_extracted = true) (data : List (List (List α)))
    (colWidths : List Int) (width : Int) (lineSep : List α) (header border : Bool) (chars : TableChars α) :
    Gen.Code.buildTable cx data colWidths width lineSep header border chars =
      pure ({ lines := buildTable cx data colWidths width header border chars, sep := lineSep, trailing := false } : Block α) := by
  first
    | exact absurd h (by decide)
    | (unfold Gen.Code.buildTable
       simp only [blockAppend_regenerated cx (by decide), alignLineLeft_regenerated cx (by decide),
         alignLineCenter_regenerated cx (by decide)]
       go_norm
       -- the horizontal bar
       have hHorz : ∀ (bar0 : List α),
           Go.forRangeM colWidths (fun (v_i : Int) (_x : Int) (v_horzBar : List α) =>
             Go.whileM ((colWidths.getD v_i.toNat 0).toNat + 1)
               (fun (s : List α × Int) => Go.idx colWidths v_i >>= fun t1 => pure (decide (s.2 < t1)))
               (fun (s : List α × Int) => pure (s.1 ++ chars.horz, s.2 + 1)) (v_horzBar, 0) >>= fun t2 =>
                 (pure (t2.1 ++ chars.corner) : R _)) bar0 =
           pure (colWidths.foldl (fun bar w => bar ++ gRepeat chars.horz w ++ chars.corner) bar0) := by
         intro bar0
         rw [forRangeM_fold colWidths (fun bar k => bar ++ gRepeat chars.horz (colWidths.getD k 0) ++ chars.corner)]
         · have := foldl_range_getD (fun (bar : List α) (w : Int) => bar ++ gRepeat chars.horz w ++ chars.corner) 0 colWidths [] bar0
           simp only [List.length_nil, List.nil_append] at this
           rw [List.range_eq_range', this]
         · intro k x s hk
           have hget : colWidths.getD k 0 = colWidths[k] := by simp [List.getD_eq_getElem?_getD, hk]
           simp only [Int.toNat_natCast, hget, idx_nat colWidths k hk, pure_bind]
           rw [while_count2_zero colWidths[k] (fun bar _ => bar ++ chars.horz) _ _ (fun s k => rfl) (fun s k _ => rfl) _ _ (Nat.le_refl _)]
           rw [foldl_const_append]
           simp [gRepeat_eq, List.append_assoc]
       have hBreak : Go.whileM (width.toNat + 1) (fun (s : List α × Int) => (pure (decide (s.2 < width)) : R Bool))
             (fun (s : List α × Int) => (pure (s.1 ++ chars.horz, s.2 + 1) : R _)) ([], 0) =
           pure (gRepeat chars.horz width, (width.toNat : Int)) := by
         rw [while_count2_zero width (fun bar _ => bar ++ chars.horz) _ _ (fun s k => rfl) (fun s k _ => rfl) _ _ (Nat.le_refl _)]
         rw [foldl_const_append]
         simp [gRepeat_eq]
       simp only [hHorz, hBreak, pure_bind, ite_pure]
       -- the rows
       rw [forRangeM_fold data (fun (b : Block α) (k : Nat) =>
         ({ b with lines := btStep cx data colWidths width header border chars b.lines k } : Block α))]
       · rw [foldl_block_lines]
         simp only [pure_bind]
         rw [buildTable_eq]
         cases border <;> simp [Block.new, Block.append]
       · intro k x blk hk
         have hgetr : data.getD k [] = data[k] := by simp [List.getD_eq_getElem?_getD, hk]
         rw [while_count3_zero (colWidths.length : Int)
           (fun (p : List α × List α) (col : Nat) =>
             (btCell cx data[k] colWidths (k == 0 && header) border chars col,
              p.2 ++ btCell cx data[k] colWidths (k == 0 && header) border chars col))
           _ _ (fun a b c => rfl) ?hb _ _ _ (by simp)]
         case hb =>
           intro a b col hcol
           have hcol' : col < colWidths.length := by omega
           have hgetc : colWidths.getD col 0 = colWidths[col] := by simp [List.getD_eq_getElem?_getD, hcol']
           have hrow : (if (col : Int) < ((data[k]).length : Int) then Go.idx data[k] (col : Int) else pure []) =
               (pure ((data[k]).getD col []) : R (List α)) := by
             by_cases hc2 : col < (data[k]).length
             · rw [if_pos (by omega), idx_nat _ _ hc2]; simp [List.getD_eq_getElem?_getD, hc2]
             · rw [if_neg (by omega)]; simp [List.getD_eq_getElem?_getD, hc2]
           simp only [idx_nat data k hk, idx_nat colWidths col hcol', pure_bind, bind_pure, hrow, ite_pure]
           have hk0 : ((k : Int) = 0 ∧ header = true) ↔ ((k == 0 && header) = true) := by simp
           simp only [btCell, hgetc, hk0]
         simp only [pure_bind, Int.toNat_natCast]
         rw [foldl_pair_snd (btCell cx data[k] colWidths (k == 0 && header) border chars)
           (fun b c => b ++ btCell cx data[k] colWidths (k == 0 && header) border chars c)]
         have hk0 : ((k : Int) = 0 ∧ header = true) ↔ ((k == 0 && header) = true) := by simp
         have hdl : ((data.length : Int) > 1) ↔ (data.length > 1) := by omega
         simp only [btStep, tableRow_eq, hgetr, hk0, hdl, Block.append, Block.new]
         cases border <;> cases header <;> by_cases hkz : k = 0 <;> simp [hkz]
         all_goals (split <;> rfl))

/-! ### MakeTable -/

/-- `forRange_fold` under an invariant of the state -/
theorem forRange_fold_inv {β σ : Type} (P : σ → Prop) (data : List β) (step : σ → Nat → σ) (body : Int → β → σ → R σ)
    (hP : ∀ (k : Nat) (s : σ), k < data.length → P s → P (step s k))
    (hbody : ∀ (k : Nat) (x : β) (s : σ), k < data.length → P s → body (k : Int) x s = pure (step s k)) :
    ∀ (xs pre : List β) (s : σ), data = pre ++ xs → P s →
      Go.forRangeAux body (pre.length : Int) xs s = pure ((List.range' pre.length xs.length).foldl step s) := by
  intro xs
  induction xs with
  | nil => intro pre s _ _; rfl
  | cons x xs ih =>
    intro pre s hc hs
    have hk : pre.length < data.length := by rw [hc]; simp
    rw [Go.forRangeAux, hbody pre.length x s hk hs, pure_bind]
    have := ih (pre ++ [x]) (step s pre.length) (by simp [hc]) (hP _ _ hk hs)
    simp only [List.length_append, List.length_cons, List.length_nil, Nat.zero_add, Int.natCast_add, Int.cast_ofNat_Int] at this
    rw [this]
    simp [List.range'_succ]

theorem forRangeM_fold_inv {β σ : Type} (P : σ → Prop) (data : List β) (step : σ → Nat → σ) (body : Int → β → σ → R σ)
    (hP : ∀ (k : Nat) (s : σ), k < data.length → P s → P (step s k))
    (hbody : ∀ (k : Nat) (x : β) (s : σ), k < data.length → P s → body (k : Int) x s = pure (step s k)) (s : σ) (hs : P s) :
    Go.forRangeM data body s = pure ((List.range data.length).foldl step s) := by
  have := forRange_fold_inv P data step body hP hbody data [] s rfl hs
  simpa [Go.forRangeM, List.range_eq_range'] using this

/-- `while_count2` under an invariant of the state -/
theorem while_count2_inv {σ : Type} (P : σ → Prop) (N : Int) (step : σ → Nat → σ) (cond : σ × Int → R Bool)
    (body : σ × Int → R (σ × Int))
    (hP : ∀ (s : σ) (k : Nat), (k : Int) < N → P s → P (step s k))
    (hc : ∀ (s : σ) (k : Nat), cond (s, (k : Int)) = pure (decide ((k : Int) < N)))
    (hb : ∀ (s : σ) (k : Nat), (k : Int) < N → P s → body (s, (k : Int)) = pure (step s k, (k : Int) + 1)) :
    ∀ (fuel k : Nat) (s : σ), P s → (k : Int) ≤ max N 0 → N.toNat + 1 ≤ fuel + k →
      Go.whileM fuel cond body (s, (k : Int)) =
        pure ((List.range' k (N.toNat - k)).foldl step s, ((max N.toNat k : Nat) : Int)) := by
  intro fuel
  induction fuel with
  | zero => intro k s _ h1 h2; omega
  | succ f ih =>
    intro k s hs h1 h2
    unfold Go.whileM
    rw [hc]
    simp only [pure_bind]
    by_cases hlt : (k : Int) < N
    · simp only [hlt, decide_true, if_true, hb s k hlt hs, pure_bind]
      have := ih (k + 1) (step s k) (hP s k hlt hs) (by omega) (by omega)
      simp only [Int.natCast_add, Int.cast_ofNat_Int] at this
      rw [this]
      have e : N.toNat - k = (N.toNat - (k + 1)) + 1 := by omega
      rw [e, List.range'_succ, List.foldl_cons]
      congr 2
      omega
    · have e : N.toNat - k = 0 := by omega
      simp only [hlt, decide_false, Bool.false_eq_true, if_false, e, List.range'_zero, List.foldl_nil]
      congr 2
      omega

theorem while_count2_inv_zero {σ : Type} (P : σ → Prop) (N : Int) (step : σ → Nat → σ) (cond : σ × Int → R Bool)
    (body : σ × Int → R (σ × Int))
    (hP : ∀ (s : σ) (k : Nat), (k : Int) < N → P s → P (step s k))
    (hc : ∀ (s : σ) (k : Nat), cond (s, (k : Int)) = pure (decide ((k : Int) < N)))
    (hb : ∀ (s : σ) (k : Nat), (k : Int) < N → P s → body (s, (k : Int)) = pure (step s k, (k : Int) + 1))
    (fuel : Nat) (s : σ) (hs : P s) (hf : N.toNat + 1 ≤ fuel) :
    Go.whileM fuel cond body (s, 0) = pure ((List.range N.toNat).foldl step s, (N.toNat : Int)) := by
  have := while_count2_inv P N step cond body hP hc hb fuel 0 s hs (by omega) (by omega)
  simpa [List.range_eq_range'] using this

/-- a fold that updates position `j` at step `j` -/
theorem foldl_set_range {β : Type} (g : Nat → β → β) (d : β) (c0 : List β) : ∀ (k : Nat),
    ((List.range k).foldl (fun c j => c.set j (g j (c.getD j d))) c0).length = c0.length ∧
    ∀ (i : Nat), ((List.range k).foldl (fun c j => c.set j (g j (c.getD j d))) c0).getD i d =
      if i < k ∧ i < c0.length then g i (c0.getD i d) else c0.getD i d := by
  intro k
  induction k with
  | zero => simp
  | succ k ih =>
    rw [List.range_succ, List.foldl_append]
    simp only [List.foldl_cons, List.foldl_nil, List.length_set]
    generalize (List.range k).foldl (fun c j => c.set j (g j (c.getD j d))) c0 = F at ih ⊢
    refine ⟨ih.1, ?_⟩
    intro i
    rw [List.getD_eq_getElem?_getD, List.getElem?_set]
    by_cases hik : k = i
    · subst hik
      rw [if_pos rfl]
      by_cases hl : k < c0.length
      · rw [if_pos (by rw [ih.1]; exact hl), Option.getD_some, ih.2 k]
        have h1 : ¬ (k < k ∧ k < c0.length) := by omega
        have h2 : (k < k + 1 ∧ k < c0.length) := by omega
        rw [if_neg h1, if_pos h2]
      · rw [if_neg (by rw [ih.1]; exact hl), Option.getD_none]
        have h2 : ¬ (k < k + 1 ∧ k < c0.length) := by omega
        rw [if_neg h2, List.getD_eq_getElem?_getD, List.getElem?_eq_none (by omega)]
        rfl
    · rw [if_neg hik, ← List.getD_eq_getElem?_getD, ih.2 i]
      by_cases hi : i < k
      · have h1 : i < k + 1 := by omega
        simp only [hi, h1]
      · have h1 : ¬ i < k + 1 := by omega
        simp only [hi, h1]

theorem foldl_max_cast {β : Type} : ∀ (l : List (List β)) (m : Nat),
    l.foldl (fun (m : Int) r => if (r.length : Int) > m then (r.length : Int) else m) (m : Int) =
      ((l.foldl (fun m r => max m r.length) m : Nat) : Int) := by
  intro l
  induction l with
  | nil => intro m; rfl
  | cons x xs ih =>
    intro m
    simp only [List.foldl_cons]
    by_cases h : (x.length : Int) > (m : Int)
    · rw [if_pos h, ih x.length]
      congr 2
      omega
    · rw [if_neg h]
      have : max m x.length = m := by omega
      rw [this]
      exact ih m

theorem getD_set_self {β : Type} (c : List β) (i : Nat) (v d : β) (h : i < c.length) : (c.set i v).getD i d = v := by
  simp [List.getD_eq_getElem?_getD, h]

/-- a fold that keeps updating one fixed position -/
theorem foldl_set_fixed {β γ : Type} (f : β → γ → β) (d : β) (col : Nat) : ∀ (l : List γ) (c : List β), col < c.length →
    l.foldl (fun c' r => c'.set col (f (c'.getD col d) r)) c = c.set col (l.foldl f (c.getD col d)) := by
  intro l
  induction l with
  | nil => intro c h; simp [List.getD_eq_getElem?_getD, h]
  | cons x xs ih =>
    intro c h
    simp only [List.foldl_cons]
    rw [ih _ (by simpa using h), getD_set_self _ _ _ _ h, List.set_set]

theorem foldl_set_range_eq_map {β : Type} (g : Nat → β → β) (d : β) (c0 : List β) :
    (List.range c0.length).foldl (fun c j => c.set j (g j (c.getD j d))) c0 =
      (List.range c0.length).map (fun j => g j (c0.getD j d)) := by
  have hh := foldl_set_range g d c0 c0.length
  apply List.ext_getElem
  · rw [hh.1]; simp
  · intro i h1 h2
    have h3 : i < c0.length := by rw [hh.1] at h1; exact h1
    have := hh.2 i
    rw [List.getD_eq_getElem?_getD, List.getElem?_eq_getElem h1, Option.getD_some] at this
    rw [this]
    simp [h3]

/-- the padding loop: position `i` is updated at step `i` and the new value is accumulated -/
theorem foldl_pair_set {β γ : Type} (g : Nat → β → β) (hacc : γ → β → γ) (d : β) (c0 : List β) (m0 : γ) : ∀ (k : Nat), k ≤ c0.length →
    (List.range k).foldl (fun (p : List β × γ) i => (p.1.set i (g i (p.1.getD i d)), hacc p.2 (g i (p.1.getD i d)))) (c0, m0) =
      ((List.range k).foldl (fun c j => c.set j (g j (c.getD j d))) c0,
       (List.range k).foldl (fun m i => hacc m (g i (c0.getD i d))) m0) := by
  intro k
  induction k with
  | zero => intro _; rfl
  | succ k ih =>
    intro hk
    rw [List.range_succ, List.foldl_append, List.foldl_append, List.foldl_append, ih (by omega)]
    simp only [List.foldl_cons, List.foldl_nil]
    have := (foldl_set_range g d c0 k).2 k
    have h1 : ¬ (k < k ∧ k < c0.length) := by omega
    rw [if_neg h1] at this
    rw [this]

/-- the pieces of the hand model's `makeTable`, named -/
def mtContentW (data : List (List (List α))) (n : Nat) : List Int :=
  (List.range n).map fun col =>
    data.foldl (fun m row => let k : Int := gLen cx (row.getD col []); if k ≥ m then k else m) 0
def mtPadded (border : Bool) (n : Nat) (contentW : List Int) : List Int :=
  (List.range n).map fun i => contentW.getD i 0 + (if border then 2 else if i + 1 < n then 2 else 0)
def mtMinW (border : Bool) (horzLen : Int) (padded : List Int) : Int :=
  padded.foldl (fun s w => s + w + (if border then horzLen else 0)) (if border then horzLen else 0)
def mtColWidths (border : Bool) (n : Nat) (padded : List Int) (spaceToAdd : Int) : List Int :=
  let numToSpace : Int := if !border ∧ n > 1 then (n : Int) - 1 else n
  let per := spaceToAdd / numToSpace
  let rem := spaceToAdd % numToSpace
  (List.range n).map fun i =>
    let w := padded.getD i 0
    if (i : Int) < numToSpace then w + per + (if (i : Int) < rem then 1 else 0) else w

theorem makeTable_eq (data : List (List (List α))) (width : Int) (header border : Bool) (charSet : List α) :
    makeTable cx data width header border charSet =
      if data.isEmpty then []
      else
        let n := data.foldl (fun m r => max m r.length) 0
        if n == 0 then []
        else
          let chars := parseTableCharSet cx charSet
          let padded := mtPadded border n (mtContentW cx data n)
          let mw := mtMinW border (gLen cx chars.horz) padded
          if width - mw > 0 then buildTable cx data (mtColWidths border n padded (width - mw)) width header border chars
          else buildTable cx data padded mw header border chars := rfl

theorem makeTable_regenerated (h : Gen.Code.makeTable_extracted = true) (data : List (List (List α))) (width : Int)
    (lineSep : List α) (header border : Bool) (charSet : List α) :
    Gen.Code.makeTable cx data width lineSep header border charSet =
      pure ({ lines := makeTable cx data width header border charSet, sep := lineSep, trailing := false } : Block α) := by
  first
    | exact absurd h (by decide)
    | (rw [makeTable_eq]
       unfold Gen.Code.makeTable
       simp only [parseTableCharSet_regenerated cx (by decide), buildTable_regenerated cx (by decide)]
       go_norm
       by_cases hd : data = []
       · simp [hd, Block.new]
       · simp only [hd, if_false]
         -- colCount
         rw [forRangeM_fold data (fun (cc : Int) (k : Nat) =>
           if (((data.getD k []).length : Nat) : Int) > cc then (((data.getD k []).length : Nat) : Int) else cc)]
         · have hcc := foldl_range_getD (fun (m : Int) (r : List (List α)) => if (r.length : Int) > m then (r.length : Int) else m)
             [] data [] 0
           have hmc := foldl_max_cast data 0
           simp only [List.length_nil, List.nil_append] at hcc
           simp only [Int.natCast_zero] at hmc
           rw [List.range_eq_range', hcc, hmc]
           simp only [pure_bind]
           generalize hn : data.foldl (fun m r => max m r.length) 0 = n
           by_cases hn0 : n = 0
           · simp [hn0, Block.new]
           · have hn0' : ¬ ((n : Int) = 0) := by omega
             simp only [hn0', if_false, beq_iff_eq, hn0]
             have hmk : ∀ m : Nat, Go.makeSlice (m : Int) (0 : Int) = pure (List.replicate m (0 : Int)) := by
               intro m; unfold Go.makeSlice; rw [if_neg (by omega)]; simp
             simp only [hmk, pure_bind]
             -- content widths
             rw [while_count2_inv_zero (fun (c : List Int) => c.length = n) (n : Int)
               (fun (c : List Int) (col : Nat) => c.set col
                 (data.foldl (fun m row => let k : Int := gLen cx (row.getD col []); if k ≥ m then k else m) 0))
               _ _ (fun s k _ hs => by simpa using hs) (fun s k => rfl) ?hb _ _ (by simp) (by simp)]
             case hb =>
               intro c col hcol hc
               have hcol' : col < c.length := by omega
               simp only []
               have hss : Go.sliceSet c (col : Int) (0 : Int) = pure (c.set col 0) := by
                 unfold Go.sliceSet; rw [if_pos (by omega)]; simp
               rw [hss, pure_bind]
               rw [forRangeM_fold_inv (fun (c' : List Int) => c'.length = n) data
                 (fun (c' : List Int) (row : Nat) => c'.set col
                   ((fun (m : Int) (r : List (List α)) => let k : Int := gLen cx (r.getD col []); if k ≥ m then k else m)
                     (c'.getD col 0) (data.getD row [])))
                 _ (fun k s _ hs => by simpa using hs) ?hb2 _ (by simpa using hc)]
               case hb2 =>
                 intro row x c' hrow hc'
                 have hget : data.getD row [] = data[row] := by simp [List.getD_eq_getElem?_getD, hrow]
                 have hcol2 : col < c'.length := by omega
                 have hrowv : (if (col : Int) < ((data[row]).length : Int) then Go.idx data[row] (col : Int) else pure []) =
                     (pure ((data[row]).getD col []) : R (List α)) := by
                   by_cases hc2 : col < (data[row]).length
                   · rw [if_pos (by omega), idx_nat _ _ hc2]; simp [List.getD_eq_getElem?_getD, hc2]
                   · rw [if_neg (by omega)]; simp [List.getD_eq_getElem?_getD, hc2]
                 have hss2 : ∀ v : Int, Go.sliceSet c' (col : Int) v = pure (c'.set col v) := by
                   intro v; unfold Go.sliceSet; rw [if_pos (by omega)]; simp
                 have hgc : c'.getD col 0 = c'[col] := by simp [List.getD_eq_getElem?_getD, hcol2]
                 simp only [idx_nat data row hrow, idx_nat c' col hcol2, pure_bind, bind_pure, hrowv, hss2, hget, hgc]
                 split
                 · rfl
                 · simp
               simp only [pure_bind]
               rw [foldl_set_fixed (fun (m : Int) (row : Nat) =>
                   (fun (m : Int) (r : List (List α)) => let k : Int := gLen cx (r.getD col []); if k ≥ m then k else m) m
                     (data.getD row [])) 0 col _ _ (by simpa using hcol'), getD_set_self _ _ _ _ hcol', List.set_set]
               have hfr := foldl_range_getD
                 (fun (m : Int) (r : List (List α)) => let k : Int := gLen cx (r.getD col []); if k ≥ m then k else m)
                 [] data [] 0
               simp only [List.length_nil, List.nil_append] at hfr
               rw [List.range_eq_range', hfr]
             simp only [pure_bind, Int.toNat_natCast]
             have hcw : (List.range n).foldl (fun (c : List Int) (col : Nat) => c.set col
                 (data.foldl (fun m row => let k : Int := gLen cx (row.getD col []); if k ≥ m then k else m) 0))
                 (List.replicate n 0) = mtContentW cx data n := by
               have := foldl_set_range_eq_map (fun (j : Nat) (_ : Int) =>
                 data.foldl (fun m row => let k : Int := gLen cx (row.getD j []); if k ≥ m then k else m) 0) 0 (List.replicate n 0)
               simp only [List.length_replicate] at this
               exact this
             rw [hcw]
             have hcwl : (mtContentW cx data n).length = n := by simp [mtContentW]
             generalize mtContentW cx data n = cw at hcwl ⊢
             have hcopy : ∀ l : List Int, Go.copySlice (List.replicate l.length (0 : Int)) l = l := by
               intro l; simp [Go.copySlice]
             generalize hhl : ((gLen cx (parseTableCharSet cx charSet).horz : Nat) : Int) = hl
             simp only [hcopy, ite_pure, pure_bind]
             -- padding and minimal width
             rw [forRangeM_fold_inv (fun (p : List Int × Int) => p.1.length = n) cw
               (fun (p : List Int × Int) (i : Nat) =>
                 (p.1.set i ((fun (i : Nat) (w : Int) => w + (if border then 2 else if i + 1 < n then 2 else 0)) i (p.1.getD i 0)),
                  (fun (m v : Int) => m + v + (if border then hl else 0)) p.2
                    ((fun (i : Nat) (w : Int) => w + (if border then 2 else if i + 1 < n then 2 else 0)) i (p.1.getD i 0))))
               _ (fun k s _ hs => by simpa using hs) ?hb _ (by simpa using hcwl)]
             case hb =>
               intro i x p hi hp
               have hi' : i < p.1.length := by omega
               have hss : ∀ v : Int, Go.sliceSet p.1 (i : Int) v = pure (p.1.set i v) := by
                 intro v; unfold Go.sliceSet; rw [if_pos (by omega)]; simp
               have hgi : p.1.getD i 0 = (p.1)[i] := by simp [List.getD_eq_getElem?_getD, hi']
               have hi2 : ∀ v : Int, Go.idx (p.1.set i v) (i : Int) = pure v := by
                 intro v; rw [idx_nat _ _ (by simpa using hi')]; simp
               have hc1 : ((i : Int) + 1 < (cw.length : Int)) ↔ (i + 1 < n) := by omega
               simp only [idx_nat p.1 i hi', pure_bind, hss, hi2, hgi, ite_pure, hc1]
               cases border <;> simp
             rw [foldl_pair_set (fun (i : Nat) (w : Int) => w + (if border then 2 else if i + 1 < n then 2 else 0))
               (fun (m v : Int) => m + v + (if border then hl else 0)) 0 cw (if border then hl else 0) cw.length (Nat.le_refl _),
               foldl_set_range_eq_map (fun (i : Nat) (w : Int) => w + (if border then 2 else if i + 1 < n then 2 else 0))]
             have hpad : (List.range cw.length).map (fun j =>
                 (fun (i : Nat) (w : Int) => w + (if border then 2 else if i + 1 < n then 2 else 0)) j (cw.getD j 0)) =
                 mtPadded border n cw := by rw [hcwl]; rfl
             have hmw : (List.range cw.length).foldl (fun (m : Int) (i : Nat) =>
                 (fun (m v : Int) => m + v + (if border then hl else 0)) m
                   ((fun (i : Nat) (w : Int) => w + (if border then 2 else if i + 1 < n then 2 else 0)) i (cw.getD i 0)))
                 (if border then hl else 0) = mtMinW border hl (mtPadded border n cw) := by
               rw [hcwl]; simp only [mtMinW, mtPadded, List.foldl_map]
             rw [hpad, hmw]
             simp only [pure_bind]
             have hpl : (mtPadded border n cw).length = n := by simp [mtPadded]
             generalize mtPadded border n cw = padded at hpl ⊢
             generalize mtMinW border hl padded = mw
             have hcopy2 : Go.copySlice (List.replicate n (0 : Int)) padded = padded := by
               rw [← hpl]; exact hcopy padded
             simp only [hcopy2]
             by_cases hsp : width - mw > 0
             · simp only [hsp, if_true]
               generalize hsp' : width - mw = sp at hsp ⊢
               generalize hnts : (if border = false ∧ (n : Int) > 1 then (n : Int) - 1 else (n : Int)) = nts
               have hnts1 : 1 ≤ nts ∧ nts ≤ (n : Int) := by
                 rw [← hnts]; split <;> omega
               have hdiv : Go.intDiv sp nts = pure (Int.tdiv sp nts) := by
                 unfold Go.intDiv; rw [if_neg (by omega)]
               have hmod : Go.intMod sp nts = pure (Int.tmod sp nts) := by
                 unfold Go.intMod; rw [if_neg (by omega)]
               have hst : Go.sliceTo padded nts = pure (padded.take nts.toNat) := by
                 unfold Go.sliceTo; rw [if_pos (by omega)]
               simp only [hdiv, hmod, hst, pure_bind, bind_assoc]
               rw [forRangeM_fold_inv (fun (c : List Int) => c.length = n) (padded.take nts.toNat)
                 (fun (c : List Int) (i : Nat) => c.set i
                   ((fun (i : Nat) (w : Int) => w + Int.tdiv sp nts + (if (i : Int) < Int.tmod sp nts then 1 else 0)) i (c.getD i 0)))
                 _ (fun k s _ hs => by simpa using hs) ?hb _ hpl]
               case hb =>
                 intro i x c hi hc
                 have hi' : i < c.length := by
                   rw [List.length_take] at hi; omega
                 have hss : ∀ (l : List Int) (v : Int), l.length = n → Go.sliceSet l (i : Int) v = pure (l.set i v) := by
                   intro l v hlen; unfold Go.sliceSet; rw [if_pos (by omega)]; simp
                 have hgi : c.getD i 0 = c[i] := by simp [List.getD_eq_getElem?_getD, hi']
                 have hi2 : ∀ v : Int, Go.idx (c.set i v) (i : Int) = pure v := by
                   intro v; rw [idx_nat _ _ (by simpa using hi')]; simp
                 simp only [idx_nat c i hi', pure_bind, hss c _ hc, hi2, hgi]
                 split
                 · rw [hss _ _ (by simpa using hc)]
                   simp [List.set_set]
                 · simp
               simp only [pure_bind]
               have hfin : (List.range (padded.take nts.toNat).length).foldl
                   (fun (c : List Int) (i : Nat) => c.set i
                     ((fun (i : Nat) (w : Int) => w + Int.tdiv sp nts + (if (i : Int) < Int.tmod sp nts then 1 else 0)) i (c.getD i 0)))
                   padded = mtColWidths border n padded sp := by
                 have hlt : (padded.take nts.toNat).length = nts.toNat := by rw [List.length_take]; omega
                 rw [hlt]
                 have hh := foldl_set_range
                   (fun (i : Nat) (w : Int) => w + Int.tdiv sp nts + (if (i : Int) < Int.tmod sp nts then 1 else 0)) 0 padded nts.toNat
                 have hnts' : (if (!border) = true ∧ n > 1 then (n : Int) - 1 else (n : Int)) = nts := by
                   rw [← hnts]
                   have hc1 : (n > 1) ↔ ((n : Int) > 1) := by omega
                   cases border <;> simp [hc1]
                 apply List.ext_getElem
                 · rw [hh.1]; simp [mtColWidths, hpl]
                 · intro i h1 h2
                   have hi : i < n := by rw [hh.1, hpl] at h1; exact h1
                   have h3 := hh.2 i
                   rw [List.getD_eq_getElem?_getD, List.getElem?_eq_getElem h1, Option.getD_some] at h3
                   rw [h3]
                   simp only [mtColWidths, hnts', List.getElem_map, List.getElem_range,
                     Int.tdiv_eq_ediv_of_nonneg (Int.le_of_lt hsp), Int.tmod_eq_emod_of_nonneg (Int.le_of_lt hsp)]
                   have hc : (i < nts.toNat ∧ i < padded.length) ↔ ((i : Int) < nts) := by omega
                   simp only [hc]
               rw [hfin]
             · simp only [hsp, if_false, pure_bind]
         · intro k x s hk
           have hget : data.getD k [] = data[k] := by simp [List.getD_eq_getElem?_getD, hk]
           simp only [idx_nat data k hk, pure_bind, hget, ite_pure])

/-! ### InsertTableOpts and the delegating wrappers -/

theorem map_range_getD {β : Type} (l : List β) (d : β) : (List.range l.length).map (fun j => l.getD j d) = l := by
  apply List.ext_getElem
  · simp
  · intro i h1 h2
    have : i < l.length := by simpa using h1
    simp [List.getD_eq_getElem?_getD, this]

/-- `len(table) > 0` counts bytes: needs every atom to have a positive byte length -/
theorem editorInsertTableOpts_regenerated (h : Gen.Code.editorInsertTableOpts_extracted = true)
    (hwf : cx.WF) (ed : Editor α) (pos : Int) (data : List (List (List α))) (width : Int) (o : Options α) :
    Gen.Code.editorInsertTableOpts cx ed pos data width o = ed.insertTableOpts cx pos data width o := by
  first
    | exact absurd h (by decide)
    | (unfold Gen.Code.editorInsertTableOpts Editor.insertTableOpts
       simp only [optionsWithDefaults_regenerated cx (by decide), makeTable_regenerated cx (by decide),
         blockJoin_regenerated cx (by decide), editorInsert_regenerated cx (by decide) hwf, pure_bind]
       go_norm
       have hmk : Go.makeSlice ((data.length : Nat) : Int) ([] : List (List α)) = pure (List.replicate data.length []) := by
         unfold Go.makeSlice; rw [if_neg (by omega)]; simp
       simp only [hmk, pure_bind]
       rw [forRangeM_fold_inv (fun (c : List (List (List α))) => c.length = data.length) data
         (fun (c : List (List (List α))) (k : Nat) => c.set k ((fun (k : Nat) (_ : List (List α)) => data.getD k []) k (c.getD k [])))
         _ (fun k s _ hs => by simpa using hs) ?hb _ (by simp)]
       case hb =>
         intro k x c hk hc
         have hget : data.getD k [] = data[k] := by simp [List.getD_eq_getElem?_getD, hk]
         have hss : ∀ v, Go.sliceSet c (k : Int) v = pure (c.set k v) := by
           intro v; unfold Go.sliceSet; rw [if_pos (by omega)]; simp
         simp only [idx_nat data k hk, pure_bind, hss, hget]
       have hrep := foldl_set_range_eq_map (fun (k : Nat) (_ : List (List α)) => data.getD k []) [] (List.replicate data.length [])
       simp only [List.length_replicate] at hrep
       rw [hrep, map_range_getD]
       simp only [pure_bind, bind_pure]
       have hbl : ∀ t : List α, ((byteLen cx t : Nat) : Int) > 0 ↔ ¬ t = [] := by
         intro t
         constructor
         · intro h1 h2; subst h2; simp at h1
         · intro h1
           have := length_le_byteLen hwf.2 t
           have : 0 < t.length := List.length_pos_iff.mpr h1
           omega
       simp only [hbl, List.isEmpty_iff]
       split <;> split <;> simp_all)

theorem editorWrap_regenerated (h : Gen.Code.editorWrap_extracted = true)
    (hd : DefaultsOk cx) (hpos : ∀ a, 0 < cx.blen a) (ed : Editor α) (width : Int) :
    Gen.Code.editorWrap cx ed width = ed.wrapOpts cx width ed.opts := by
  first
    | exact absurd h (by decide)
    | (unfold Gen.Code.editorWrap
       simp only [editorWrapOpts_regenerated cx (by decide) hd hpos, bind_pure])

theorem editorIndent_regenerated (h : Gen.Code.editorIndent_extracted = true)
    (hd : DefaultsOk cx) (hpos : ∀ a, 0 < cx.blen a) (ed : Editor α) (level : Int) :
    Gen.Code.editorIndent cx ed level = ed.indentOpts cx level ed.opts := by
  first
    | exact absurd h (by decide)
    | (unfold Gen.Code.editorIndent
       simp only [editorIndentOpts_regenerated cx (by decide) hd hpos, bind_pure])

theorem editorCollapseSpace_regenerated (h : Gen.Code.editorCollapseSpace_extracted = true) (ed : Editor α) :
    Gen.Code.editorCollapseSpace cx ed = ed.collapseSpaceOpts cx ed.opts := by
  first
    | exact absurd h (by decide)
    | (unfold Gen.Code.editorCollapseSpace
       simp only [editorCollapseSpaceOpts_regenerated cx (by decide), bind_pure])

theorem editorApply_regenerated (h : Gen.Code.editorApply_extracted = true) (ed : Editor α)
    (op : Int → List α → R (List (List α))) :
    Gen.Code.editorApply cx ed op = ed.applyOptsM cx (fun i l => op (i : Int) l) ed.opts := by
  first
    | exact absurd h (by decide)
    | (unfold Gen.Code.editorApply
       simp only [editorApplyOpts_regenerated cx (by decide), bind_pure])

theorem editorApplyParagraphs_regenerated (h : Gen.Code.editorApplyParagraphs_extracted = true)
    (hd : DefaultsOk cx) (hpos : ∀ a, 0 < cx.blen a) (ed : Editor α)
    (op : Int → List α → List α → List α → R (List (List α))) :
    Gen.Code.editorApplyParagraphs cx ed op = ed.applyParasM cx (fun i => op (i : Int)) ed.opts := by
  first
    | exact absurd h (by decide)
    | (unfold Gen.Code.editorApplyParagraphs
       simp only [editorApplyParagraphsOpts_regenerated cx (by decide) hd hpos, bind_pure])

theorem editorInsertTable_regenerated (h : Gen.Code.editorInsertTable_extracted = true)
    (hwf : cx.WF) (ed : Editor α) (pos : Int) (data : List (List (List α))) (width : Int) :
    Gen.Code.editorInsertTable cx ed pos data width = ed.insertTableOpts cx pos data width ed.opts := by
  first
    | exact absurd h (by decide)
    | (unfold Gen.Code.editorInsertTable
       simp only [editorInsertTableOpts_regenerated cx (by decide) hwf, bind_pure])

end RosedVerif.GenCodeEq
