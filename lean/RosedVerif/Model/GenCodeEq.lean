/-
Equality of every definition regenerated from the Go source (Gen/Code.lean, written by harness/gofn.go on
every run) with the hand-written model.  One theorem `<name>_regenerated` per function; each starts with
`first | exact absurd h (by decide) | …` so that it also checks when the translator refused the function
(the stub then carries `<name>_extracted = false`).

Proof style: unfold both sides, normalise the primitive layer (`Go.*` are one-liners over the model's
primitives) and the `Except` monad, then case-split (`split`) and close with `simp`/`omega`/`grind`, so that a
semantically equivalent rewrite of the Go function re-proves by itself.
-/
import RosedVerif.Model.GenEq.Core
import RosedVerif.Model.GenEq.Block
import RosedVerif.Model.GenEq.Align
import RosedVerif.Model.GenEq.Options
import RosedVerif.Model.GenEq.Collapse
import RosedVerif.Model.GenEq.Wrap
import RosedVerif.Model.GenEq.Justify
import RosedVerif.Model.GenEq.Combine
import RosedVerif.Model.GenEq.Table
import RosedVerif.Model.GenEq.Chars
import RosedVerif.Model.GenEq.Lines
import RosedVerif.Model.GenEq.Commit
import RosedVerif.Model.GenEq.Edit
import RosedVerif.Model.GenEq.Apply
import RosedVerif.Model.GenEq.Paras
import RosedVerif.Model.GenEq.AffixPlaceholder
import RosedVerif.Model.GenEq.WrapOpts
import RosedVerif.Model.GenEq.IndentOpts
import RosedVerif.Model.GenEq.InsertTable
import RosedVerif.Model.GenEq.BlockOps
import RosedVerif.Model.GenEq.TwoCol
import RosedVerif.Model.GenEq.DefTable
import RosedVerif.Model.GenEq.AlignOpts
import RosedVerif.Model.GenEq.JustifyOpts
import RosedVerif.Model.GenEq.GemSplit
import RosedVerif.Model.GenEq.Gem
import RosedVerif.Model.GenEq.GemOps
import RosedVerif.Model.GenEq.GemInv
import RosedVerif.Model.GenEq.GemRev
