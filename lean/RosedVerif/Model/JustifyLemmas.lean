/-
Lemmas about the space-distribution loop of JustifyLine (`distribute`) and about
`interleave`.
-/
import RosedVerif.Model.Manip
namespace RosedVerif

/-! ### generic facts: length and sum -/

theorem sum_modify_succ : ∀ (l : List Nat) (i : Nat), i < l.length →
    (l.modify i (· + 1)).sum = l.sum + 1
  | [], i, h => by simp at h
  | a :: l, 0, _ => by simp only [List.modify_cons, List.sum_cons, if_true]; omega
  | a :: l, i + 1, h => by
    have := sum_modify_succ l i (by simpa using h)
    simp only [List.modify_succ_cons, List.sum_cons, this]; omega

/-- whenever `distribute` succeeds it preserves the length and adds exactly `n` -/
theorem distribute_length_sum (G odd : Int) :
    ∀ (n : Nat) (s : Int) (f : Bool) (extra r : List Nat), G = extra.length →
      distribute G odd n s f extra = .ok r → r.length = extra.length ∧ r.sum = extra.sum + n := by
  intro n
  induction n with
  | zero =>
    intro s f extra r _ h
    simp only [distribute, pure, Except.pure, Except.ok.injEq] at h
    subst h; exact ⟨rfl, rfl⟩
  | succ n ih =>
    intro s f extra r hG h
    rw [distribute] at h
    simp only at h
    generalize (if f = true then G - odd - s else s) = gi at h
    split at h
    · exact absurd h (by simp [throw, throwThe, MonadExceptOf.throw])
    · rename_i hc
      have := ih _ _ _ r (by simpa using hG) h
      rw [List.length_modify] at this
      rw [sum_modify_succ _ _ (by omega)] at this
      omega

/-! ### the visiting order -/

/-- the gap visited at offset `p` of a block whose first step has parity `b` -/
def jphi (g b p : Nat) : Nat := if (b + p) % 2 = 0 then p else (g - g % 2) - p

/-- counters after `k` complete blocks and `j` further steps -/
def jtbl (g k b j : Nat) : List Nat :=
  (List.range g).map (fun p => k + if jphi g b p < j then 1 else 0)

theorem jphi_lt {g b p : Nat} (hp : p < g) (hb : g % 2 = 0 → b = 0) : jphi g b p < g := by
  unfold jphi; split <;> omega

theorem jphi_invol {g b p q : Nat} (hp : p < g) (h : jphi g b p = q) : jphi g b q = p := by
  unfold jphi at *; split at h <;> split <;> omega

theorem jphi_iff {g b p q : Nat} (hp : p < g) (hq : q < g) :
    jphi g b p = q ↔ jphi g b q = p :=
  ⟨jphi_invol hp, jphi_invol hq⟩

theorem jtbl_length (g k b j : Nat) : (jtbl g k b j).length = g := by
  simp only [jtbl, List.length_map, List.length_range]

theorem jtbl_step {g k b j : Nat} (hj : j < g) :
    (jtbl g k b j).modify (jphi g b j) (· + 1) = jtbl g k b (j + 1) := by
  apply List.ext_getElem
  · simp only [List.length_modify, jtbl_length]
  · intro p h1 h2
    have hp : p < g := by simpa only [jtbl_length] using h2
    have := jphi_iff (b := b) hj hp
    simp only [List.getElem_modify, jtbl, List.getElem_map, List.getElem_range]
    by_cases e : jphi g b j = p
    · have e' := this.1 e
      rw [if_pos e, if_neg (by omega), if_pos (by omega)]
    · have e' : ¬ jphi g b p = j := fun x => e (this.2 x)
      rw [if_neg e]
      by_cases l : jphi g b p < j
      · rw [if_pos l, if_pos (by omega)]
      · rw [if_neg l, if_neg (by omega)]

theorem jtbl_wrap {g k b b' : Nat} (hb : g % 2 = 0 → b = 0) :
    jtbl g k b g = jtbl g (k + 1) b' 0 := by
  apply List.ext_getElem
  · simp only [jtbl_length]
  · intro p h1 h2
    have hp : p < g := by simpa only [jtbl_length] using h2
    simp only [jtbl, List.getElem_map, List.getElem_range]
    rw [if_pos (jphi_lt hp hb), if_neg (by omega)]

theorem jtbl_zero (g b : Nat) : jtbl g 0 b 0 = List.replicate g 0 := by
  apply List.ext_getElem
  · simp only [jtbl_length, List.length_replicate]
  · intro p h1 h2
    simp only [jtbl, List.getElem_map, List.getElem_range, List.getElem_replicate]
    rw [if_neg (by omega)]

theorem jtbl_mem {g k b j x : Nat} (h : x ∈ jtbl g k b j) : k ≤ x ∧ x ≤ k + 1 := by
  simp only [jtbl, List.mem_map] at h
  obtain ⟨p, _, rfl⟩ := h
  split <;> omega

/-- the loop invariant: in state "`k` complete blocks, parity bit `b`, offset `j`" the
loop never fails and ends in a state of the same shape -/
theorem distribute_inv (g : Nat) (hg : 0 < g) (odd : Int) (hodd : odd = ((g % 2 : Nat) : Int)) :
    ∀ (n k b j : Nat) (f : Bool), j < g → b < 2 → (g % 2 = 0 → b = 0) →
      (f = true ↔ (b + j) % 2 = 1) →
      ∃ k' b' j', distribute (g : Int) odd n (j : Int) f (jtbl g k b j) = .ok (jtbl g k' b' j') := by
  intro n
  induction n with
  | zero =>
    intro k b j f _ _ _ _
    exact ⟨k, b, j, rfl⟩
  | succ n ih =>
    intro k b j f hj hb2 hb hf
    rw [distribute]
    simp only
    have hidx : (if f = true then ((g : Int) - odd) - (j : Int) else (j : Int))
        = ((jphi g b j : Nat) : Int) := by
      unfold jphi
      cases f with
      | true =>
        have := hf.1 rfl
        rw [if_pos rfl, if_neg (by omega)]; omega
      | false =>
        have : ¬ (b + j) % 2 = 1 := fun x => by simpa using hf.2 x
        rw [if_neg (by simp), if_pos (by omega)]
    rw [hidx]
    have hlt := jphi_lt hj hb
    rw [if_neg (by omega)]
    simp only [Int.toNat_natCast]
    rw [jtbl_step hj]
    by_cases hw : j + 1 = g
    · rw [if_pos (by omega)]
      rw [hw, jtbl_wrap (b' := (b + g) % 2) hb]
      exact ih (k + 1) ((b + g) % 2) 0 (!f) hg (by omega) (by omega)
        (by cases f <;> simp at hf ⊢ <;> omega)
    · rw [if_neg (by omega)]
      have : (j : Int) + 1 = ((j + 1 : Nat) : Int) := by omega
      rw [this]
      exact ih k b (j + 1) (!f) (by omega) hb2 hb
        (by cases f <;> simp at hf ⊢ <;> omega)

theorem odd_cast (g : Nat) : (if g % 2 == 0 then (0 : Int) else 1) = ((g % 2 : Nat) : Int) := by
  split <;> rename_i h <;> simp at h <;> omega

/-! ### main theorems about `distribute` -/

theorem distribute_total (g : Nat) (hg : 0 < g) (n : Nat) :
    ∃ r, distribute (g : Int) (if g % 2 == 0 then 0 else 1) n 0 false (List.replicate g 0) = .ok r
      ∧ r.length = g ∧ r.sum = n := by
  obtain ⟨k', b', j', h⟩ := distribute_inv g hg _ (odd_cast g) n 0 0 0 false hg (by omega)
    (fun _ => rfl) (by simp)
  rw [jtbl_zero] at h
  refine ⟨_, h, ?_⟩
  have := distribute_length_sum _ _ n _ _ _ _ (by simp) h
  simpa using this

theorem distribute_even (g : Nat) (hg : 0 < g) (n : Nat) (r : List Nat)
    (h : distribute (g : Int) (if g % 2 == 0 then 0 else 1) n 0 false (List.replicate g 0) = .ok r) :
    ∀ x ∈ r, ∀ y ∈ r, x ≤ y + 1 := by
  obtain ⟨k', b', j', h'⟩ := distribute_inv g hg _ (odd_cast g) n 0 0 0 false hg (by omega)
    (fun _ => rfl) (by simp)
  rw [jtbl_zero] at h'
  have h' : distribute (g : Int) (if g % 2 == 0 then 0 else 1) n 0 false (List.replicate g 0)
      = .ok (jtbl g k' b' j') := h'
  rw [h] at h'
  cases h'
  intro x hx y hy
  have := jtbl_mem hx
  have := jtbl_mem hy
  omega

example : distribute 3 1 5 0 false [0, 0, 0] = .ok [1, 2, 2] := rfl
example : distribute 4 0 6 0 false [0, 0, 0, 0] = .ok [2, 1, 1, 2] := rfl

/-! ### `interleave` -/

section
variable {α : Type} [DecidableEq α] (cx : Ctx α)

omit [DecidableEq α] in
theorem interleave_length : ∀ (words : List (List α)) (extra : List Nat), words ≠ [] →
    extra.length = words.length - 1 →
    (interleave cx words extra).length
      = (words.map List.length).sum + (words.length - 1) + extra.sum
  | [], _, h, _ => absurd rfl h
  | [w], extra, _, he => by
    have : extra = [] := List.eq_nil_of_length_eq_zero (by simpa using he)
    subst this
    simp [interleave]
  | w :: w' :: ws, [], _, he => by simp at he
  | w :: w' :: ws, e :: es, _, he => by
    have ih := interleave_length (w' :: ws) es (by simp) (by simpa using he)
    rw [interleave]
    · simp only [List.length_append, List.length_replicate, ih, List.map_cons, List.sum_cons,
        List.length_cons]
      omega
    · simp

theorem interleave_words : ∀ (words : List (List α)) (extra : List Nat),
    (∀ w ∈ words, cx.sp ∉ w) →
    (interleave cx words extra).filter (fun a => a != cx.sp) = words.flatten
  | [], _, _ => by simp [interleave]
  | [w], extra, h => by
    have hw : cx.sp ∉ w := h w (by simp)
    simp only [interleave, List.flatten_cons, List.flatten_nil, List.append_nil]
    rw [List.filter_eq_self]
    intro a ha
    simp only [bne_iff_ne, ne_eq]
    rintro rfl; exact hw ha
  | w :: w' :: ws, [], h => by
    have hw : cx.sp ∉ w := h w (by simp)
    have ih := interleave_words (w' :: ws) [] (fun x hx => h x (by simp [hx]))
    have hwf : w.filter (fun a => a != cx.sp) = w := by
      rw [List.filter_eq_self]
      intro a ha
      simp only [bne_iff_ne, ne_eq]
      rintro rfl; exact hw ha
    rw [interleave]
    · simp only [List.filter_append, ih, hwf, List.flatten_cons]
      simp
    · simp
  | w :: w' :: ws, e :: es, h => by
    have hw : cx.sp ∉ w := h w (by simp)
    have ih := interleave_words (w' :: ws) es (fun x hx => h x (by simp [hx]))
    have hwf : w.filter (fun a => a != cx.sp) = w := by
      rw [List.filter_eq_self]
      intro a ha
      simp only [bne_iff_ne, ne_eq]
      rintro rfl; exact hw ha
    rw [interleave]
    · simp only [List.filter_append, ih, hwf, List.flatten_cons]
      simp
    · simp

end

end RosedVerif
