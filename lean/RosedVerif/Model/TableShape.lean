/-
C16 — the SHAPE of a table (cluster level: every atom is its own cluster).

`CompositeLemmas.lean` proves that a table is rectangular and how many lines it has.  This file
proves what is IN the lines:
  1. every row (header or not, short or long) is the concatenation of its cell segments, segment
     `k` is exactly `colWidths[k]` long and therefore starts at the same offset `colOffset … k`
     in every row (`tableRow_eq_segs`, `cellSeg_length_iff`, `tableRow_seg_at`);
  2. what a cell segment contains (`cellSeg_*`), a missing cell is blank (`cellSeg_missing`);
  3. the header row is upper-cased and followed by a rule (`buildTable_header_rule_*`,
     `tableHorzBar_*`);
  4. the borders (`buildTable_first_border`, `buildTable_last_border`, `tableRow_vert_at`,
     `mem_tableHorzBar`, `buildTable_noBorder_chars`);
  5. rows appear in order (`rowLine`, `buildTable_rowLine`);
  6. all of it for `makeTable` with the widths it computes (`makeTable_shape`), and for the block
     `InsertTableOpts` inserts (`insertTableOpts_tableShape`).
-/
import RosedVerif.Model.CompositeLemmas
import RosedVerif.Model.AlignRefine
namespace RosedVerif
set_option linter.unusedSectionVars false

namespace TableShape

/-! ## generic list helpers -/

theorem range_split (n k : Nat) (hk : k < n) :
    List.range n = List.range k ++ k :: (List.range (n - k - 1)).map (fun j => k + 1 + j) := by
  apply List.ext_getElem
  · simp only [List.length_range, List.length_append, List.length_cons, List.length_map]
    omega
  · intro i h1 h2
    rw [List.getElem_range]
    by_cases hik : i < k
    · rw [List.getElem_append_left (by simpa using hik), List.getElem_range]
    · rw [List.getElem_append_right (by simpa using hik)]
      simp only [List.length_range]
      by_cases hek : i = k
      · subst hek
        simp only [Nat.sub_self, List.getElem_cons_zero]
      · obtain ⟨d, rfl⟩ : ∃ d, i = k + 1 + d := ⟨i - k - 1, by omega⟩
        have e : k + 1 + d - k = d + 1 := by omega
        simp only [e, List.getElem_cons_succ, List.getElem_map, List.getElem_range]

/-- cut `g 0 ++ g 1 ++ … ++ g (n-1)` around its `k`-th piece -/
theorem flatten_map_range_split {γ : Type} (g : Nat → List γ) (n k : Nat) (hk : k < n) :
    ((List.range n).map g).flatten =
      ((List.range k).map g).flatten ++ (g k ++
        ((List.range (n - k - 1)).map (fun j => g (k + 1 + j))).flatten) := by
  conv => lhs; rw [range_split n k hk]
  rw [List.map_append, List.flatten_append, List.map_cons, List.flatten_cons, List.map_map]
  rfl

theorem drop_take_of_split {γ : Type} (pre s rest : List γ) (a b : Nat) (ha : pre.length = a)
    (hb : s.length = b) : ((pre ++ (s ++ rest)).drop a).take b = s := by
  subst ha hb
  rw [List.drop_left, List.take_left]

theorem getElem?_of_split {γ : Type} (pre : List γ) (x : γ) (rest : List γ) (a : Nat)
    (ha : pre.length = a) : (pre ++ x :: rest)[a]? = some x := by
  subst ha
  simp

end TableShape

/-! ## 1. a line made of segments: `start ++ seg 0 ++ sep ++ seg 1 ++ sep ++ …` -/

/-- `start ++ seg 0 ++ sep ++ seg 1 ++ sep ++ … ++ seg (n-1) ++ sep`: the common form of a table
row (`start = sep = vert`, or both empty without borders) and of the horizontal bar
(`start = sep = corner`) -/
def segLine {α : Type} (start sep : List α) (n : Nat) (seg : Nat → List α) : List α :=
  start ++ ((List.range n).map fun k => seg k ++ sep).flatten

/-- the start offset of segment `k` in a line whose segments are `w i` long and are separated by
`slen` atoms -/
def segOffset (w : Nat → Int) (slen0 slen : Nat) (k : Nat) : Int :=
  (slen0 : Int) + sumTo (fun i => w i + (slen : Int)) k

/-- `colOffset colWidths border vlen k`: the offset at which the segment of column `k` starts in
every row of a table: bordered `vlen + Σ_{i<k} (w_i + vlen)`, borderless `Σ_{i<k} w_i` -/
def colOffset (colWidths : List Int) (border : Bool) (vlen : Nat) (k : Nat) : Int :=
  segOffset (fun i => colWidths.getD i 0) (if border = true then vlen else 0)
    (if border = true then vlen else 0) k

/-- the start offsets of all columns -/
def colOffsets (colWidths : List Int) (border : Bool) (vlen : Nat) : List Int :=
  (List.range colWidths.length).map (colOffset colWidths border vlen)

theorem colOffset_zero (cws : List Int) (border : Bool) (vlen : Nat) :
    colOffset cws border vlen 0 = if border = true then (vlen : Int) else 0 := by
  unfold colOffset segOffset
  cases border <;> simp [sumTo]

/-- the next column starts after this column's width and one vertical bar -/
theorem colOffset_succ (cws : List Int) (border : Bool) (vlen : Nat) (k : Nat) :
    colOffset cws border vlen (k + 1) =
      colOffset cws border vlen k + cws.getD k 0 + (if border = true then (vlen : Int) else 0) := by
  unfold colOffset segOffset
  cases border <;> simp only [sumTo, Bool.false_eq_true, if_false, if_true] <;> omega

theorem colOffsets_length (cws : List Int) (border : Bool) (vlen : Nat) :
    (colOffsets cws border vlen).length = cws.length := by
  simp [colOffsets]

theorem colOffsets_getD (cws : List Int) (border : Bool) (vlen : Nat) (k : Nat)
    (hk : k < cws.length) :
    (colOffsets cws border vlen).getD k 0 = colOffset cws border vlen k :=
  getD_map_range _ _ _ _ hk

namespace TableShape
section
variable {α : Type}

theorem segLine_split (start sep : List α) (n : Nat) (seg : Nat → List α) (k : Nat) (hk : k < n) :
    segLine start sep n seg =
      (start ++ ((List.range k).map fun i => seg i ++ sep).flatten) ++ (seg k ++ (sep ++
        ((List.range (n - k - 1)).map fun j => seg (k + 1 + j) ++ sep).flatten)) := by
  unfold segLine
  rw [flatten_map_range_split _ n k hk]
  simp only [List.append_assoc]

theorem segLine_pre_length (start sep : List α) (seg : Nat → List α) (w : Nat → Int) (k : Nat)
    (hw : ∀ i, i < k → ((seg i).length : Int) = w i) :
    (((start ++ ((List.range k).map fun i => seg i ++ sep).flatten).length : Nat) : Int) =
      segOffset w start.length sep.length k := by
  unfold segOffset
  rw [List.length_append, Int.natCast_add, length_flatten_map_range]
  congr 1
  apply sumTo_congr
  intro i hi
  rw [List.length_append, Int.natCast_add, hw i hi]

theorem segOffset_nonneg (w : Nat → Int) (a b k : Nat) (hw : ∀ i, i < k → 0 ≤ w i) :
    0 ≤ segOffset w a b k := by
  unfold segOffset
  have := sumTo_nonneg (f := fun i => w i + (b : Int)) k (fun i hi => by have := hw i hi; omega)
  omega

/-- segment `k` sits at offset `segOffset … k` -/
theorem segLine_seg_at (start sep : List α) (n : Nat) (seg : Nat → List α) (w : Nat → Int)
    (k : Nat) (hk : k < n) (hw : ∀ i, i ≤ k → ((seg i).length : Int) = w i) :
    ((segLine start sep n seg).drop (segOffset w start.length sep.length k).toNat).take
      (w k).toNat = seg k := by
  rw [segLine_split start sep n seg k hk]
  apply drop_take_of_split
  · have := segLine_pre_length start sep seg w k (fun i hi => hw i (by omega))
    omega
  · have := hw k (Nat.le_refl _)
    omega

/-- … and is followed by the separator -/
theorem segLine_sep_at (start sep : List α) (n : Nat) (seg : Nat → List α) (w : Nat → Int)
    (k : Nat) (hk : k < n) (hw : ∀ i, i ≤ k → ((seg i).length : Int) = w i) :
    ((segLine start sep n seg).drop (segOffset w start.length sep.length k + w k).toNat).take
      sep.length = sep := by
  rw [segLine_split start sep n seg k hk, ← List.append_assoc, ← List.append_assoc,
    List.append_assoc _ sep]
  apply drop_take_of_split _ _ _ _ _ _ rfl
  have := segLine_pre_length start sep seg w k (fun i hi => hw i (by omega))
  have := hw k (Nat.le_refl _)
  rw [List.length_append]
  omega

theorem segLine_start (start sep : List α) (n : Nat) (seg : Nat → List α) :
    (segLine start sep n seg).take start.length = start := by
  unfold segLine
  rw [List.take_left]

theorem mem_segLine (start sep : List α) (n : Nat) (seg : Nat → List α) (a : α)
    (h : a ∈ segLine start sep n seg) : a ∈ start ∨ a ∈ sep ∨ ∃ k, k < n ∧ a ∈ seg k := by
  unfold segLine at h
  rcases List.mem_append.1 h with h | h
  · exact .inl h
  · obtain ⟨l, hl, ha⟩ := List.mem_flatten.1 h
    obtain ⟨k, hk, rfl⟩ := List.mem_map.1 hl
    rcases List.mem_append.1 ha with ha | ha
    · exact .inr (.inr ⟨k, List.mem_range.1 hk, ha⟩)
    · exact .inr (.inl ha)

end
end TableShape

/-! ## 1./2. the cell segments of a row -/
section
variable {α : Type} [DecidableEq α] (cx : Ctx α)

/-- the segment of column `k` in a laid-out row (without the vertical bar that follows it):
header cells are upper-cased and centred (bordered) or left-aligned (borderless); body cells are
left-aligned, after one space when bordered.  A missing cell is the empty text. -/
def cellSeg (row : List (List α)) (cws : List Int) (isHeader border : Bool) (k : Nat) : List α :=
  if isHeader = true then
    (if border = true then alignCenter cx ((row.getD k []).map cx.upper) (cws.getD k 0)
     else alignLeft cx ((row.getD k []).map cx.upper) (cws.getD k 0))
  else
    (if border = true then [cx.sp] ++ alignLeft cx (row.getD k []) (cws.getD k 0 - 1)
     else alignLeft cx (row.getD k []) (cws.getD k 0))

/-- what stands between the segments of a row: the vertical bar, or nothing -/
def rowSep (border : Bool) (chars : TableChars α) : List α :=
  if border = true then chars.vert else []

omit [DecidableEq α] in
theorem rowSep_length (border : Bool) (chars : TableChars α) :
    (rowSep border chars).length = if border = true then chars.vert.length else 0 := by
  cases border <;> rfl

/-- 1. EVERY row is `v ++ cell_0 ++ v ++ cell_1 ++ v …` (bordered) resp. `cell_0 ++ cell_1 ++ …`
(borderless); no side condition -/
theorem tableRow_eq_segs (row : List (List α)) (cws : List Int) (isHeader border : Bool)
    (chars : TableChars α) :
    tableRow cx row cws isHeader border chars =
      segLine (rowSep border chars) (rowSep border chars) cws.length
        (cellSeg cx row cws isHeader border) := by
  unfold tableRow segLine rowSep
  simp only
  rw [foldl_append_eq]
  congr 2
  apply List.map_congr_left
  intro k _
  unfold cellSeg
  cases border <;> cases isHeader <;>
    simp only [Bool.false_eq_true, if_false, if_true, List.append_nil, List.append_assoc]

/-- the exact condition under which the segment of column `k` is `colWidths[k]` long: the
STRIPPED cell fits (plus the leading space of a bordered body cell) -/
def cellFits (row : List (List α)) (cws : List Int) (isHeader border : Bool) (k : Nat) : Prop :=
  if isHeader = true then
    (if border = true then
      ((Spec.stripRight ⟨cx.isSpace, cx.sp, cx.hy⟩ (Spec.stripLeft ⟨cx.isSpace, cx.sp, cx.hy⟩
        ((row.getD k []).map cx.upper))).length : Int) ≤ cws.getD k 0
     else
      ((Spec.stripLeft ⟨cx.isSpace, cx.sp, cx.hy⟩ ((row.getD k []).map cx.upper)).length : Int)
        ≤ cws.getD k 0)
  else
    ((Spec.stripLeft ⟨cx.isSpace, cx.sp, cx.hy⟩ (row.getD k [])).length : Int) +
      (if border = true then 1 else 0) ≤ cws.getD k 0

/-- 1. segment `k` is exactly `colWidths[k]` long IFF the cell fits -/
theorem cellSeg_length_iff (htriv : ∀ s, cx.ends s = List.range' 1 s.length)
    (row : List (List α)) (cws : List Int) (isHeader border : Bool) (k : Nat) :
    ((cellSeg cx row cws isHeader border k).length : Int) = cws.getD k 0 ↔
      cellFits cx row cws isHeader border k := by
  unfold cellSeg cellFits
  cases border <;> cases isHeader <;>
    simp only [Bool.false_eq_true, if_false, if_true, alignLeft_triv cx htriv,
      alignCenter_triv cx htriv, List.length_append, List.length_cons, List.length_nil,
      Int.natCast_add, Spec.alignLeft_length_max, Spec.alignCenter_length_max] <;> omega

/-- a cell that fits unstripped fits (this is what `makeTable` guarantees, with room to spare) -/
theorem cellFits_of_le (row : List (List α)) (cws : List Int) (isHeader border : Bool) (k : Nat)
    (h : ((row.getD k []).length : Int) + (if border = true then 1 else 0) ≤ cws.getD k 0) :
    cellFits cx row cws isHeader border k := by
  have h1 := Spec.stripLeft_length_le ⟨cx.isSpace, cx.sp, cx.hy⟩ (row.getD k [])
  have h2 := Spec.stripLeft_length_le ⟨cx.isSpace, cx.sp, cx.hy⟩ ((row.getD k []).map cx.upper)
  have h3 := Spec.stripRight_length_le ⟨cx.isSpace, cx.sp, cx.hy⟩
    (Spec.stripLeft ⟨cx.isSpace, cx.sp, cx.hy⟩ ((row.getD k []).map cx.upper))
  rw [List.length_map] at h2
  unfold cellFits
  cases border <;> cases isHeader <;>
    simp only [Bool.false_eq_true, if_false, if_true] at h ⊢ <;> omega

/-- 1. hence segment `k` starts at offset `colOffset … k` in EVERY row whose cells up to `k` fit:
cutting `colWidths[k]` atoms at that offset gives the cell segment -/
theorem tableRow_seg_at (htriv : ∀ s, cx.ends s = List.range' 1 s.length)
    (row : List (List α)) (cws : List Int) (isHeader border : Bool) (chars : TableChars α)
    (k : Nat) (hk : k < cws.length)
    (hfit : ∀ i, i ≤ k → cellFits cx row cws isHeader border i) :
    ((tableRow cx row cws isHeader border chars).drop
        (colOffset cws border chars.vert.length k).toNat).take (cws.getD k 0).toNat =
      cellSeg cx row cws isHeader border k := by
  rw [tableRow_eq_segs]
  have := TableShape.segLine_seg_at (rowSep border chars) (rowSep border chars) cws.length
    (cellSeg cx row cws isHeader border) (fun i => cws.getD i 0) k hk
    (fun i hi => (cellSeg_length_iff cx htriv row cws isHeader border i).2 (hfit i hi))
  rw [rowSep_length] at this
  exact this

/-- 4. with borders a row starts with the vertical bar … -/
theorem tableRow_vert_start (row : List (List α)) (cws : List Int) (isHeader : Bool)
    (chars : TableChars α) :
    (tableRow cx row cws isHeader true chars).take chars.vert.length = chars.vert := by
  rw [tableRow_eq_segs]
  exact TableShape.segLine_start chars.vert chars.vert _ _

/-- 4. … and has the vertical bar right after every column segment -/
theorem tableRow_vert_at (htriv : ∀ s, cx.ends s = List.range' 1 s.length)
    (row : List (List α)) (cws : List Int) (isHeader : Bool) (chars : TableChars α)
    (k : Nat) (hk : k < cws.length)
    (hfit : ∀ i, i ≤ k → cellFits cx row cws isHeader true i) :
    ((tableRow cx row cws isHeader true chars).drop
        (colOffset cws true chars.vert.length k + cws.getD k 0).toNat).take chars.vert.length =
      chars.vert := by
  rw [tableRow_eq_segs]
  exact TableShape.segLine_sep_at chars.vert chars.vert cws.length
    (cellSeg cx row cws isHeader true) (fun i => cws.getD i 0) k hk
    (fun i hi => (cellSeg_length_iff cx htriv row cws isHeader true i).2 (hfit i hi))

end

/-! ## 2. what a cell segment contains -/
section
variable {α : Type} [DecidableEq α] (cx : Ctx α)

/-- the text a cell shows: upper-cased in a header row -/
def cellText (row : List (List α)) (isHeader : Bool) (k : Nat) : List α :=
  if isHeader = true then (row.getD k []).map cx.upper else row.getD k []

omit [DecidableEq α] in
theorem cellText_missing (row : List (List α)) (isHeader : Bool) (k : Nat) (hk : row.length ≤ k) :
    cellText cx row isHeader k = [] := by
  unfold cellText
  rw [List.getD_eq_getElem?_getD, List.getElem?_eq_none hk]
  cases isHeader <;> rfl

/-- 2. body row, bordered: one space, then the left-aligned cell in the remaining `w - 1` -/
theorem cellSeg_body_border (row : List (List α)) (cws : List Int) (k : Nat) :
    cellSeg cx row cws false true k =
      [cx.sp] ++ alignLeft cx (row.getD k []) (cws.getD k 0 - 1) := rfl

/-- 2. body row, borderless: the left-aligned cell -/
theorem cellSeg_body_noBorder (row : List (List α)) (cws : List Int) (k : Nat) :
    cellSeg cx row cws false false k = alignLeft cx (row.getD k []) (cws.getD k 0) := rfl

/-- 3. header row, bordered: the upper-cased cell, centred -/
theorem cellSeg_header_border (row : List (List α)) (cws : List Int) (k : Nat) :
    cellSeg cx row cws true true k =
      alignCenter cx ((row.getD k []).map cx.upper) (cws.getD k 0) := rfl

/-- 3. header row, borderless: the upper-cased cell, left-aligned -/
theorem cellSeg_header_noBorder (row : List (List α)) (cws : List Int) (k : Nat) :
    cellSeg cx row cws true false k =
      alignLeft cx ((row.getD k []).map cx.upper) (cws.getD k 0) := rfl

/-- 2. bordered body cell, explicitly: space, the cell without its leading whitespace, padding -/
theorem cellSeg_body_border_shape (htriv : ∀ s, cx.ends s = List.range' 1 s.length)
    (row : List (List α)) (cws : List Int) (k : Nat) :
    cellSeg cx row cws false true k =
      [cx.sp] ++ Spec.stripLeft ⟨cx.isSpace, cx.sp, cx.hy⟩ (row.getD k []) ++
        List.replicate (cws.getD k 0 - 1 -
          ((Spec.stripLeft ⟨cx.isSpace, cx.sp, cx.hy⟩ (row.getD k [])).length : Int)).toNat cx.sp := by
  rw [cellSeg_body_border, alignLeft_triv cx htriv, Spec.alignLeft_eq, List.append_assoc]

/-- 2. borderless body cell, explicitly -/
theorem cellSeg_body_noBorder_shape (htriv : ∀ s, cx.ends s = List.range' 1 s.length)
    (row : List (List α)) (cws : List Int) (k : Nat) :
    cellSeg cx row cws false false k =
      Spec.stripLeft ⟨cx.isSpace, cx.sp, cx.hy⟩ (row.getD k []) ++
        List.replicate (cws.getD k 0 -
          ((Spec.stripLeft ⟨cx.isSpace, cx.sp, cx.hy⟩ (row.getD k [])).length : Int)).toNat cx.sp := by
  rw [cellSeg_body_noBorder, alignLeft_triv cx htriv, Spec.alignLeft_eq]

/-- 3. borderless header cell, explicitly -/
theorem cellSeg_header_noBorder_shape (htriv : ∀ s, cx.ends s = List.range' 1 s.length)
    (row : List (List α)) (cws : List Int) (k : Nat) :
    cellSeg cx row cws true false k =
      Spec.stripLeft ⟨cx.isSpace, cx.sp, cx.hy⟩ ((row.getD k []).map cx.upper) ++
        List.replicate (cws.getD k 0 -
          ((Spec.stripLeft ⟨cx.isSpace, cx.sp, cx.hy⟩
            ((row.getD k []).map cx.upper)).length : Int)).toNat cx.sp := by
  rw [cellSeg_header_noBorder, alignLeft_triv cx htriv, Spec.alignLeft_eq]

/-- 3. bordered header cell, explicitly: `a` spaces, the upper-cased cell stripped on both sides,
`b` spaces, with `a = b` or `a = b + 1`; and when the unstripped cell leaves two columns free (as
`makeTable` guarantees) there is at least one space on either side -/
theorem cellSeg_header_border_shape (htriv : ∀ s, cx.ends s = List.range' 1 s.length)
    (row : List (List α)) (cws : List Int) (k : Nat) :
    ∃ a b, cellSeg cx row cws true true k =
        List.replicate a cx.sp ++
          Spec.stripRight ⟨cx.isSpace, cx.sp, cx.hy⟩ (Spec.stripLeft ⟨cx.isSpace, cx.sp, cx.hy⟩
            ((row.getD k []).map cx.upper)) ++
          List.replicate b cx.sp ∧
      (a = b ∨ a = b + 1) ∧
      (((row.getD k []).length : Int) + 2 ≤ cws.getD k 0 → 1 ≤ a ∧ 1 ≤ b) := by
  rw [cellSeg_header_border, alignCenter_triv cx htriv, Spec.alignCenter_eq]
  refine ⟨_, _, rfl, by omega, ?_⟩
  intro h
  have h2 := Spec.stripLeft_length_le ⟨cx.isSpace, cx.sp, cx.hy⟩ ((row.getD k []).map cx.upper)
  have h3 := Spec.stripRight_length_le ⟨cx.isSpace, cx.sp, cx.hy⟩
    (Spec.stripLeft ⟨cx.isSpace, cx.sp, cx.hy⟩ ((row.getD k []).map cx.upper))
  rw [List.length_map] at h2
  omega

/-- 2. the non-whitespace text of a cell (upper-cased in a header) is exactly the non-whitespace
text of its own segment: nothing is lost, nothing leaks in from a neighbour -/
theorem cellSeg_nonws (htriv : ∀ s, cx.ends s = List.range' 1 s.length)
    (hsp : cx.isSpace cx.sp = true)
    (row : List (List α)) (cws : List Int) (isHeader border : Bool) (k : Nat) :
    (cellSeg cx row cws isHeader border k).filter (fun c => !cx.isSpace c) =
      (cellText cx row isHeader k).filter (fun c => !cx.isSpace c) := by
  have e1 := Spec.alignLeft_nonws ⟨cx.isSpace, cx.sp, cx.hy⟩ hsp
  have e2 := Spec.alignCenter_nonws ⟨cx.isSpace, cx.sp, cx.hy⟩ hsp
  simp only at e1 e2
  unfold cellSeg cellText
  cases border <;> cases isHeader <;>
    simp only [Bool.false_eq_true, if_false, if_true, alignLeft_triv cx htriv,
      alignCenter_triv cx htriv, e1, e2, List.filter_append, List.filter_cons, hsp, Bool.not_true,
      List.filter_nil, List.nil_append]

/-- 2. a MISSING cell (`k ≥ row.length`) gives a segment of `colWidths[k]` spaces (a bordered body
cell needs `1 ≤ colWidths[k]` for its leading space) -/
theorem cellSeg_missing (htriv : ∀ s, cx.ends s = List.range' 1 s.length)
    (row : List (List α)) (cws : List Int) (isHeader border : Bool) (k : Nat)
    (hk : row.length ≤ k)
    (hw : border = true → isHeader = false → 1 ≤ cws.getD k 0) :
    cellSeg cx row cws isHeader border k = List.replicate (cws.getD k 0).toNat cx.sp := by
  have hnil : row.getD k [] = [] := by
    rw [List.getD_eq_getElem?_getD, List.getElem?_eq_none hk]; rfl
  have hs : Spec.stripLeft ⟨cx.isSpace, cx.sp, cx.hy⟩ ([] : List α) = [] := rfl
  have hr : Spec.stripRight ⟨cx.isSpace, cx.sp, cx.hy⟩ ([] : List α) = [] := rfl
  unfold cellSeg
  rw [hnil]
  cases border <;> cases isHeader <;>
    simp only [Bool.false_eq_true, if_false, if_true, alignLeft_triv cx htriv,
      alignCenter_triv cx htriv, Spec.alignLeft_eq, Spec.alignCenter_eq, List.map_nil, hs, hr,
      List.length_nil, List.nil_append, List.append_nil, Int.natCast_zero, Int.sub_zero]
  · have h1 := hw rfl rfl
    rw [show [cx.sp] = List.replicate 1 cx.sp from rfl, List.replicate_append_replicate]
    congr 1
    omega
  · rw [List.replicate_append_replicate]
    congr 1
    omega

end

/-! ## 2./4. which atoms a row is made of -/
section
variable {α : Type} [DecidableEq α] (cx : Ctx α)

/-- every atom of a cell segment is a space or an atom of the cell's own text -/
theorem mem_cellSeg (htriv : ∀ s, cx.ends s = List.range' 1 s.length)
    (row : List (List α)) (cws : List Int) (isHeader border : Bool) (k : Nat) (a : α)
    (h : a ∈ cellSeg cx row cws isHeader border k) :
    a = cx.sp ∨ a ∈ cellText cx row isHeader k := by
  have hl : ∀ (t : List α), a ∈ Spec.stripLeft ⟨cx.isSpace, cx.sp, cx.hy⟩ t → a ∈ t :=
    fun t h => (Spec.stripLeft_suffix _ t).subset h
  have hr : ∀ (t : List α), a ∈ Spec.stripRight ⟨cx.isSpace, cx.sp, cx.hy⟩ t → a ∈ t :=
    fun t h => (Spec.stripRight_prefix _ t).subset h
  unfold cellSeg at h
  unfold cellText
  cases border <;> cases isHeader <;>
    simp only [Bool.false_eq_true, if_false, if_true, alignLeft_triv cx htriv,
      alignCenter_triv cx htriv, Spec.alignLeft_eq, Spec.alignCenter_eq, List.mem_append,
      List.mem_replicate, List.mem_singleton] at h ⊢
  · rcases h with h | h
    · exact .inr (hl _ h)
    · exact .inl h.2
  · rcases h with h | h
    · exact .inr (hl _ h)
    · exact .inl h.2
  · rcases h with h | h | h
    · exact .inl h
    · exact .inr (hl _ h)
    · exact .inl h.2
  · rcases h with (h | h) | h
    · exact .inl h.2
    · exact .inr (hl _ (hr _ h))
    · exact .inl h.2

/-- every atom of a row is the vertical bar (bordered only), a space, or an atom of a cell -/
theorem mem_tableRow (htriv : ∀ s, cx.ends s = List.range' 1 s.length)
    (row : List (List α)) (cws : List Int) (isHeader border : Bool) (chars : TableChars α) (a : α)
    (h : a ∈ tableRow cx row cws isHeader border chars) :
    (border = true ∧ a ∈ chars.vert) ∨ a = cx.sp ∨
      ∃ k, k < cws.length ∧ a ∈ cellText cx row isHeader k := by
  rw [tableRow_eq_segs] at h
  have hsep : a ∈ rowSep border chars → border = true ∧ a ∈ chars.vert := by
    intro h
    unfold rowSep at h
    split at h
    · exact ⟨‹_›, h⟩
    · cases h
  rcases TableShape.mem_segLine _ _ _ _ a h with h | h | ⟨k, hk, h⟩
  · exact .inl (hsep h)
  · exact .inl (hsep h)
  · rcases mem_cellSeg cx htriv row cws isHeader border k a h with h | h
    · exact .inr (.inl h)
    · exact .inr (.inr ⟨k, hk, h⟩)

/-- 4. a borderless row does not depend on the character set at all -/
theorem tableRow_noBorder_chars (row : List (List α)) (cws : List Int) (isHeader : Bool)
    (chars chars' : TableChars α) :
    tableRow cx row cws isHeader false chars = tableRow cx row cws isHeader false chars' := by
  rw [tableRow_eq_segs, tableRow_eq_segs]
  rfl

end

/-! ## 3./4. the horizontal bar -/
section
variable {α : Type} [DecidableEq α] (cx : Ctx α)

omit [DecidableEq α] in
/-- `horzBar = corner ++ horz^{w_0} ++ corner ++ horz^{w_1} ++ corner …` -/
theorem tableHorzBar_eq_segs (cws : List Int) (chars : TableChars α) :
    tableHorzBar cws chars =
      segLine chars.corner chars.corner cws.length (fun k => gRepeat chars.horz (cws.getD k 0)) := by
  unfold tableHorzBar segLine
  simp only [List.append_assoc]
  conv => lhs; rw [← map_range_getD cws 0]
  rw [List.foldl_map, foldl_append_eq]

omit [DecidableEq α] in
theorem gRepeat_length_one (s : List α) (hs : s.length = 1) (w : Int) (hw : 0 ≤ w) :
    ((gRepeat s w).length : Int) = w := by
  match s, hs with
  | [h], _ =>
    rw [gRepeat_single_c, List.length_replicate]
    omega

omit [DecidableEq α] in
theorem mem_gRepeat (s : List α) (w : Int) (a : α) (h : a ∈ gRepeat s w) : a ∈ s := by
  unfold gRepeat at h
  obtain ⟨l, hl, ha⟩ := List.mem_flatten.1 h
  rw [(List.mem_replicate.1 hl).2] at ha
  exact ha

omit [DecidableEq α] in
/-- 4. every atom of the horizontal bar is a corner or a horizontal atom -/
theorem mem_tableHorzBar (cws : List Int) (chars : TableChars α) (a : α)
    (h : a ∈ tableHorzBar cws chars) : a ∈ chars.corner ∨ a ∈ chars.horz := by
  rw [tableHorzBar_eq_segs] at h
  rcases TableShape.mem_segLine _ _ _ _ a h with h | h | ⟨k, _, h⟩
  · exact .inl h
  · exact .inl h
  · exact .inr (mem_gRepeat _ _ _ h)

omit [DecidableEq α] in
/-- 3. the bar starts with a corner … -/
theorem tableHorzBar_corner_start (cws : List Int) (chars : TableChars α) :
    (tableHorzBar cws chars).take chars.corner.length = chars.corner := by
  rw [tableHorzBar_eq_segs]
  exact TableShape.segLine_start _ _ _ _

omit [DecidableEq α] in
/-- 3. … has `w_k` horizontal atoms under column `k` (same offset as the cell segments of the
rows when the corner is as long as the vertical bar) … -/
theorem tableHorzBar_seg_at (cws : List Int) (chars : TableChars α) (hh : chars.horz.length = 1)
    (k : Nat) (hk : k < cws.length) (hpos : ∀ i, i ≤ k → 0 ≤ cws.getD i 0) :
    ((tableHorzBar cws chars).drop (colOffset cws true chars.corner.length k).toNat).take
      (cws.getD k 0).toNat = gRepeat chars.horz (cws.getD k 0) := by
  rw [tableHorzBar_eq_segs]
  exact TableShape.segLine_seg_at chars.corner chars.corner cws.length
    (fun k => gRepeat chars.horz (cws.getD k 0)) (fun i => cws.getD i 0) k hk
    (fun i hi => gRepeat_length_one _ hh _ (hpos i hi))

omit [DecidableEq α] in
/-- 3. … and a corner at every column boundary (where the rows have their vertical bar) -/
theorem tableHorzBar_corner_at (cws : List Int) (chars : TableChars α) (hh : chars.horz.length = 1)
    (k : Nat) (hk : k < cws.length) (hpos : ∀ i, i ≤ k → 0 ≤ cws.getD i 0) :
    ((tableHorzBar cws chars).drop
      (colOffset cws true chars.corner.length k + cws.getD k 0).toNat).take chars.corner.length =
      chars.corner := by
  rw [tableHorzBar_eq_segs]
  exact TableShape.segLine_sep_at chars.corner chars.corner cws.length
    (fun k => gRepeat chars.horz (cws.getD k 0)) (fun i => cws.getD i 0) k hk
    (fun i hi => gRepeat_length_one _ hh _ (hpos i hi))

end

/-! ## 3./4./5. the lines of `buildTable` -/
section
variable {α : Type} [DecidableEq α] (cx : Ctx α)

/-- 5. the line number of data row `i`: after the top border (if any) and, for the rows below a
header row, after the rule under the header -/
def rowLine (header border : Bool) (i : Nat) : Nat :=
  (if border = true then 1 else 0) + i + (if header = true ∧ 0 < i then 1 else 0)

theorem rowLine_lt (header border : Bool) (i j : Nat) (h : i < j) :
    rowLine header border i < rowLine header border j := by
  unfold rowLine
  cases header <;> cases border <;> simp <;> (try split) <;> (try split) <;> omega

theorem TableShape.tableRowLines_length (data : List (List (List α))) (cws : List Int) (width : Int)
    (header border : Bool) (chars : TableChars α) (i j : Nat) (hi : i < data.length) (hj : j < i) :
    (((tableRowLines cx data cws width header border chars j).length : Nat) : Int) =
      1 + (if (j : Int) < 1 then (if header = true then 1 else 0) else 0) := by
  have hd : data.length > 1 := by omega
  unfold tableRowLines
  by_cases h0 : j = 0 <;> cases header <;> cases border <;> simp [h0, hd] <;> omega

/-- 5. rows appear in order: line `rowLine i` of the table is the laid-out row `i` (a header row
iff `i = 0` and `header`) -/
theorem buildTable_rowLine (data : List (List (List α))) (cws : List Int) (width : Int)
    (header border : Bool) (chars : TableChars α) (i : Nat) (hi : i < data.length) :
    (buildTable cx data cws width header border chars)[rowLine header border i]? =
      some (tableRow cx data[i] cws (i == 0 && header) border chars) := by
  have hrow : data.getD i [] = data[i] := by
    rw [List.getD_eq_getElem?_getD, List.getElem?_eq_getElem hi, Option.getD_some]
  rw [buildTable_eq,
    TableShape.flatten_map_range_split (tableRowLines cx data cws width header border chars)
      data.length i hi]
  have htrl : ∀ X : List (List α),
      tableRowLines cx data cws width header border chars i ++ X =
        tableRow cx data[i] cws (i == 0 && header) border chars ::
          ((if (i == 0 && header) = true then
            (if border = true then (if data.length > 1 then [tableHorzBar cws chars] else [])
             else [gRepeat chars.horz width])
           else []) ++ X) := by
    intro X
    unfold tableRowLines
    rw [hrow]
    rfl
  rw [htrl, List.append_assoc, List.append_assoc, List.cons_append, ← List.append_assoc]
  apply TableShape.getElem?_of_split
  have hlen : ((((List.range i).map
      (tableRowLines cx data cws width header border chars)).flatten.length : Nat) : Int) =
      i + (if header = true ∧ 0 < i then 1 else 0 : Nat) := by
    rw [length_flatten_map_range,
      sumTo_congr i (fun j hj =>
        TableShape.tableRowLines_length cx data cws width header border chars i j hi hj),
      sumTo_add, sumTo_const, sumTo_lt _ _ (by omega)]
    by_cases h0 : 0 < i
    · have : min (1 : Int) (i : Int) = 1 := by omega
      rw [this]
      cases header <;> simp [h0]
    · have h0 : i = 0 := by omega
      subst h0
      have : min (1 : Int) ((0 : Nat) : Int) = 0 := by omega
      rw [this]
      simp
  unfold rowLine
  rw [List.length_append]
  cases border <;> simp only [Bool.false_eq_true, if_false, if_true, List.length_nil,
    List.length_cons] <;> omega

/-- 4. with borders the first line is the horizontal bar … -/
theorem buildTable_first_border (data : List (List (List α))) (cws : List Int) (width : Int)
    (header : Bool) (chars : TableChars α) :
    (buildTable cx data cws width header true chars)[0]? = some (tableHorzBar cws chars) := by
  rw [buildTable_eq]
  simp

/-- 4. … and so is the last one -/
theorem buildTable_last_border (data : List (List (List α))) (cws : List Int) (width : Int)
    (header : Bool) (chars : TableChars α) :
    (buildTable cx data cws width header true chars).getLast? = some (tableHorzBar cws chars) := by
  rw [buildTable_eq]
  simp only [if_true]
  exact List.getLast?_concat

/-- 3. borderless table with a header: line 1 (right under the header row, line 0) is the rule
`horz^width` -/
theorem buildTable_header_rule_noBorder (data : List (List (List α))) (cws : List Int)
    (width : Int) (chars : TableChars α) (hd : 0 < data.length) :
    (buildTable cx data cws width true false chars)[1]? = some (gRepeat chars.horz width) := by
  rw [buildTable_eq,
    TableShape.flatten_map_range_split (tableRowLines cx data cws width true false chars)
      data.length 0 hd]
  simp [tableRowLines]

/-- 3. bordered table with a header and at least one more row: line 2 (right under the header
row, line 1) is the horizontal bar -/
theorem buildTable_header_rule_border (data : List (List (List α))) (cws : List Int)
    (width : Int) (chars : TableChars α) (hd : 1 < data.length) :
    (buildTable cx data cws width true true chars)[2]? = some (tableHorzBar cws chars) := by
  rw [buildTable_eq,
    TableShape.flatten_map_range_split (tableRowLines cx data cws width true true chars)
      data.length 0 (by omega)]
  simp [tableRowLines, hd]

/-- 4. a borderless table uses the character set only for the header rule: it depends on `horz`
alone, and not even on that without a header -/
theorem buildTable_noBorder_chars (data : List (List (List α))) (cws : List Int) (width : Int)
    (header : Bool) (chars chars' : TableChars α) (hh : header = true → chars.horz = chars'.horz) :
    buildTable cx data cws width header false chars =
      buildTable cx data cws width header false chars' := by
  rw [buildTable_eq, buildTable_eq]
  simp only [Bool.false_eq_true, if_false, List.nil_append, List.append_nil]
  congr 1
  apply List.map_congr_left
  intro i _
  unfold tableRowLines
  rw [tableRow_noBorder_chars cx _ _ _ chars chars']
  cases hc : (i == 0 && header)
  · rfl
  · have : header = true := by simp at hc; exact hc.2
    rw [hh this]
    simp only [Bool.false_eq_true, if_false]

/-- 4. every line of a borderless table is a borderless row, or the header rule (line 1) -/
theorem mem_buildTable_noBorder (data : List (List (List α))) (cws : List Int) (width : Int)
    (header : Bool) (chars : TableChars α) (line : List α)
    (h : line ∈ buildTable cx data cws width header false chars) :
    (header = true ∧ line = gRepeat chars.horz width) ∨
    ∃ i, i < data.length ∧
      line = tableRow cx (data.getD i []) cws (i == 0 && header) false chars := by
  rcases mem_buildTable cx data cws width header false chars line h with ⟨hb, _⟩ | ⟨hh, _, hl⟩ | h
  · cases hb
  · exact .inl ⟨hh, hl⟩
  · exact .inr h

end

/-! ## 6. everything together for `makeTable` -/
section
variable {α : Type} [DecidableEq α] (cx : Ctx α) (data : List (List (List α))) (width : Int)
  (header border : Bool) (c v h : α)

/-- the lines of the table -/
local notation "𝐓" => makeTable cx data width header border [c, v, h]
/-- the column widths `makeTable` computes; `𝐖[k] = colW data width border k` -/
local notation "𝐖" => tableColWidths data width border
/-- corner, vertical, horizontal -/
local notation "𝐂" => (TableChars.mk [c] [v] [h] : TableChars α)
/-- the number of columns -/
local notation "𝐊" => tableColCount data
/-- the horizontal bar -/
local notation "𝐁" => tableHorzBar (tableColWidths data width border) (TableChars.mk [c] [v] [h])
local notation "𝐭𝐤" => (Spec.Toks.mk cx.isSpace cx.sp cx.hy : Spec.Toks α)

/-- C16, the shape of `makeTable cx data width header border [c, v, h]` (cluster level) -/
structure MakeTableShape : Prop where
  /-- 5. rows in order: line `rowLine i` is data row `i`, laid out as a header row iff `i = 0`
  and `header` -/
  rows : ∀ (i : Nat) (hi : i < data.length),
    𝐓[rowLine header border i]? = some (tableRow cx data[i] 𝐖 (i == 0 && header) border 𝐂)
  /-- the number of lines -/
  count : (𝐓).length = data.length + (if border = true then 2 else 0) +
    (if header = true then (if border = true then (if data.length > 1 then 1 else 0) else 1) else 0)
  /-- all lines are equally long -/
  rect : ∀ line ∈ 𝐓, (line.length : Int) = max width (tableMinWidth data border)
  /-- 1. every row is `v ++ cell_0 ++ v ++ cell_1 ++ v …` resp. `cell_0 ++ cell_1 ++ …` -/
  row_segs : ∀ (row : List (List α)) (isHeader : Bool),
    tableRow cx row 𝐖 isHeader border 𝐂 =
      segLine (if border = true then [v] else []) (if border = true then [v] else []) 𝐊
        (cellSeg cx row 𝐖 isHeader border)
  /-- 1. in every row of `data` the segment of column `k` is exactly as long as the column -/
  seg_length : ∀ row ∈ data, ∀ (isHeader : Bool) (k : Nat), k < 𝐊 →
    ((cellSeg cx row 𝐖 isHeader border k).length : Int) = colW data width border k
  /-- 1. … and starts at the same offset `colOffset 𝐖 border 1 k` in every row -/
  seg_at : ∀ row ∈ data, ∀ (isHeader : Bool) (k : Nat), k < 𝐊 →
    ((tableRow cx row 𝐖 isHeader border 𝐂).drop (colOffset 𝐖 border 1 k).toNat).take
      (colW data width border k).toNat = cellSeg cx row 𝐖 isHeader border k
  /-- 1. the offsets: `1 + Σ_{i<k} (w_i + 1)` resp. `Σ_{i<k} w_i` -/
  offsets : ∀ (k : Nat), k ≤ 𝐊 → colOffset 𝐖 border 1 k =
    (if border = true then 1 else 0) +
      sumTo (fun i => colW data width border i + (if border = true then 1 else 0)) k
  /-- 2. a body cell: (a space, if bordered,) the cell without its leading whitespace, padding -/
  body_cell : ∀ (row : List (List α)) (k : Nat), k < 𝐊 →
    cellSeg cx row 𝐖 false border k =
      (if border = true then [cx.sp] else []) ++ Spec.stripLeft 𝐭𝐤 (row.getD k []) ++
        List.replicate (colW data width border k - (if border = true then 1 else 0) -
          ((Spec.stripLeft 𝐭𝐤 (row.getD k [])).length : Int)).toNat cx.sp
  /-- 3. a header cell without borders: upper-cased, left-aligned -/
  header_cell_noBorder : border = false → ∀ (row : List (List α)) (k : Nat), k < 𝐊 →
    cellSeg cx row 𝐖 true border k =
      Spec.stripLeft 𝐭𝐤 ((row.getD k []).map cx.upper) ++
        List.replicate (colW data width border k -
          ((Spec.stripLeft 𝐭𝐤 ((row.getD k []).map cx.upper)).length : Int)).toNat cx.sp
  /-- 3. a header cell with borders: upper-cased, centred, at least one space on either side -/
  header_cell_border : border = true → ∀ row ∈ data, ∀ (k : Nat), k < 𝐊 →
    ∃ a b, cellSeg cx row 𝐖 true border k =
        List.replicate a cx.sp ++
          Spec.stripRight 𝐭𝐤 (Spec.stripLeft 𝐭𝐤 ((row.getD k []).map cx.upper)) ++
          List.replicate b cx.sp ∧
      (a = b ∨ a = b + 1) ∧ 1 ≤ a ∧ 1 ≤ b
  /-- 2. a missing cell is blank -/
  missing : ∀ (row : List (List α)) (isHeader : Bool) (k : Nat), k < 𝐊 → row.length ≤ k →
    cellSeg cx row 𝐖 isHeader border k = List.replicate (colW data width border k).toNat cx.sp
  /-- 2. the non-whitespace text of a cell is that of its own segment -/
  nonws : cx.isSpace cx.sp = true → ∀ (row : List (List α)) (isHeader : Bool) (k : Nat),
    (cellSeg cx row 𝐖 isHeader border k).filter (fun a => !cx.isSpace a) =
      (cellText cx row isHeader k).filter (fun a => !cx.isSpace a)
  /-- 2./4. the atoms of a row: `v` (bordered only), spaces, cell text -/
  row_atoms : ∀ (row : List (List α)) (isHeader : Bool) (a : α),
    a ∈ tableRow cx row 𝐖 isHeader border 𝐂 →
      (border = true ∧ a = v) ∨ a = cx.sp ∨ ∃ k, k < 𝐊 ∧ a ∈ cellText cx row isHeader k
  /-- 3. the rule under a borderless header: line 1, `h` repeated over the whole width -/
  rule_noBorder : header = true → border = false →
    𝐓[1]? = some (List.replicate (max width (tableMinWidth data border)).toNat h)
  /-- 3. the rule under a bordered header (if there is another row): line 2, the bar -/
  rule_border : header = true → border = true → 1 < data.length → 𝐓[2]? = some 𝐁
  /-- 4. the first line of a bordered table is the bar -/
  first_border : border = true → 𝐓[0]? = some 𝐁
  /-- 4. the last line of a bordered table is the bar -/
  last_border : border = true → (𝐓).getLast? = some 𝐁
  /-- 3./4. the bar is `c ++ h^{w_0} ++ c ++ h^{w_1} ++ c …` -/
  bar_segs : 𝐁 = segLine [c] [c] 𝐊 (fun k => List.replicate (colW data width border k).toNat h)
  /-- 3. under column `k` (same offset as in the rows) the bar has `w_k` atoms `h` -/
  bar_seg_at : ∀ (k : Nat), k < 𝐊 →
    ((𝐁).drop (colOffset 𝐖 true 1 k).toNat).take (colW data width border k).toNat =
      List.replicate (colW data width border k).toNat h
  /-- 3. the bar starts with `c` … -/
  bar_corner_start : (𝐁).take 1 = [c]
  /-- 3. … and has `c` at every column boundary -/
  bar_corner_at : ∀ (k : Nat), k < 𝐊 →
    ((𝐁).drop (colOffset 𝐖 true 1 k + colW data width border k).toNat).take 1 = [c]
  /-- 4. the bar consists of `c` and `h` only -/
  bar_atoms : ∀ a ∈ 𝐁, a = c ∨ a = h
  /-- 4. a bordered row starts with `v` … -/
  row_vert_start : border = true → ∀ (row : List (List α)) (isHeader : Bool),
    (tableRow cx row 𝐖 isHeader border 𝐂).take 1 = [v]
  /-- 4. … and has `v` after every column segment (where the bar has `c`) -/
  row_vert_at : border = true → ∀ row ∈ data, ∀ (isHeader : Bool) (k : Nat), k < 𝐊 →
    ((tableRow cx row 𝐖 isHeader border 𝐂).drop
      (colOffset 𝐖 border 1 k + colW data width border k).toNat).take 1 = [v]
  /-- 4. without borders the character set is used for the header rule only: the table depends
  on `h` alone, and on nothing without a header -/
  noBorder_charset : border = false → ∀ (c' v' h' : α), (header = true → h' = h) →
    𝐓 = makeTable cx data width header border [c', v', h']

end

section
variable {α : Type} [DecidableEq α] (cx : Ctx α)

omit [DecidableEq α] in
theorem TableShape.colWidths_getD (data : List (List (List α))) (width : Int) (border : Bool)
    (k : Nat) (hk : k < tableColCount data) :
    (tableColWidths data width border).getD k 0 = colW data width border k :=
  getD_map_range _ _ _ _ hk

omit [DecidableEq α] in
theorem TableShape.colWidths_length (data : List (List (List α))) (width : Int) (border : Bool) :
    (tableColWidths data width border).length = tableColCount data := by
  simp [tableColWidths]

omit [DecidableEq α] in
/-- `makeTable`'s widths leave room for every cell of `data` (unstripped), plus 2 with borders -/
theorem TableShape.row_le_colW (data : List (List (List α))) (width : Int) (border : Bool)
    (hk : tableColCount data ≠ 0) (row : List (List α)) (hrow : row ∈ data) (k : Nat) :
    ((row.getD k []).length : Int) + (if border = true then 2 else 0) ≤ colW data width border k := by
  obtain ⟨i, hi, rfl⟩ := List.getElem_of_mem hrow
  have hr : data.getD i [] = data[i] := by
    rw [List.getD_eq_getElem?_getD, List.getElem?_eq_getElem hi, Option.getD_some]
  have := cell_le_colW data width border i k hi hk
  rwa [hr] at this

/-- `makeTable`'s own widths satisfy the side condition of the segment lemmas: every cell of
every row of `data` fits its column, header or not -/
theorem makeTable_cellFits (data : List (List (List α))) (width : Int) (border : Bool)
    (hk : tableColCount data ≠ 0) (row : List (List α)) (hrow : row ∈ data) (isHeader : Bool)
    (k : Nat) (hkK : k < tableColCount data) :
    cellFits cx row (tableColWidths data width border) isHeader border k := by
  apply cellFits_of_le
  rw [TableShape.colWidths_getD data width border k hkK]
  have := TableShape.row_le_colW data width border hk row hrow k
  cases border <;> simp only [Bool.false_eq_true, if_false, if_true] at this ⊢ <;> omega

end

section
variable {α : Type} [DecidableEq α] (cx : Ctx α)

/-- at cluster level `makeTable` with a three-atom character set is `buildTable` with the widths
`tableColWidths` -/
theorem makeTable_eq_buildTable (htriv : ∀ s, cx.ends s = List.range' 1 s.length)
    (data : List (List (List α))) (width : Int) (header border : Bool) (c v h : α)
    (hd : data ≠ []) (hk : tableColCount data ≠ 0) :
    makeTable cx data width header border [c, v, h] =
      buildTable cx data (tableColWidths data width border) (max width (tableMinWidth data border))
        header border ⟨[c], [v], [h]⟩ := by
  have hpc := parseTableCharSet_triv cx htriv c v h
  rw [makeTable_eq cx htriv data width header border [c, v, h] (by rw [hpc]; rfl) hd hk, hpc]

/-- **C16, shape.**  For arbitrary ragged `data` (not empty, not only empty rows), any `width`,
`header`, `border` and any three atoms `c v h`, the table has the shape `MakeTableShape`. -/
theorem makeTable_shape (htriv : ∀ s, cx.ends s = List.range' 1 s.length)
    (data : List (List (List α))) (width : Int) (header border : Bool) (c v h : α)
    (hd : data ≠ []) (hk : tableColCount data ≠ 0) :
    MakeTableShape cx data width header border c v h := by
  have hT := fun (c v h : α) => makeTable_eq_buildTable cx htriv data width header border c v h hd hk
  have hlen := TableShape.colWidths_length data width border
  have hget := TableShape.colWidths_getD data width border
  have hfit := makeTable_cellFits cx data width border hk
  have hpos : ∀ k, (if border = true then 2 else 0) ≤ colW data width border k := by
    intro k
    obtain ⟨row, hrow⟩ := List.exists_mem_of_ne_nil data hd
    have := TableShape.row_le_colW data width border hk row hrow k
    omega
  have hpos0 : ∀ k, 0 ≤ colW data width border k := by
    intro k
    have := hpos k
    split at this <;> omega
  have hposW : ∀ k i, k < tableColCount data → i ≤ k →
      0 ≤ (tableColWidths data width border).getD i 0 := by
    intro k i hkK hi
    rw [hget i (by omega)]
    exact hpos0 i
  refine
    { rows := ?rows, count := ?count, rect := ?rect, row_segs := ?row_segs,
      seg_length := ?seg_length, seg_at := ?seg_at, offsets := ?offsets, body_cell := ?body_cell,
      header_cell_noBorder := ?hcn, header_cell_border := ?hcb, missing := ?missing,
      nonws := ?nonws, row_atoms := ?row_atoms, rule_noBorder := ?rule_noBorder,
      rule_border := ?rule_border, first_border := ?first_border, last_border := ?last_border,
      bar_segs := ?bar_segs, bar_seg_at := ?bar_seg_at, bar_corner_start := ?bar_corner_start,
      bar_corner_at := ?bar_corner_at, bar_atoms := ?bar_atoms, row_vert_start := ?row_vert_start,
      row_vert_at := ?row_vert_at, noBorder_charset := ?noBorder_charset }
  case rows =>
    intro i hi
    rw [hT]
    exact buildTable_rowLine cx data _ _ header border _ i hi
  case count => exact makeTable_length cx data width header border [c, v, h] hd hk
  case rect => exact makeTable_rect cx htriv data width header border [c, v, h] rfl
  case row_segs =>
    intro row isHeader
    rw [tableRow_eq_segs, hlen]
    cases border <;> rfl
  case seg_length =>
    intro row hrow isHeader k hkK
    rw [← hget k hkK]
    exact (cellSeg_length_iff cx htriv _ _ _ _ _).2 (hfit row hrow isHeader k hkK)
  case seg_at =>
    intro row hrow isHeader k hkK
    have := tableRow_seg_at cx htriv row (tableColWidths data width border) isHeader border
      ⟨[c], [v], [h]⟩ k (by rw [hlen]; exact hkK)
      (fun i hi => hfit row hrow isHeader i (by omega))
    rw [hget k hkK] at this
    exact this
  case offsets =>
    intro k hkK
    unfold colOffset segOffset
    cases border <;> simp only [Bool.false_eq_true, if_false, if_true, Int.natCast_zero,
      Int.natCast_one] <;> congr 1 <;> apply sumTo_congr <;> intro i hi <;>
      rw [hget i (by omega)]
  case body_cell =>
    intro row k hkK
    cases border
    · rw [cellSeg_body_noBorder_shape cx htriv, hget k hkK]
      simp only [Bool.false_eq_true, if_false, List.nil_append, Int.sub_zero]
    · rw [cellSeg_body_border_shape cx htriv, hget k hkK]
      simp only [if_true]
  case hcn =>
    intro hb row k hkK
    subst hb
    rw [cellSeg_header_noBorder_shape cx htriv, hget k hkK]
  case hcb =>
    intro hb row hrow k hkK
    subst hb
    obtain ⟨a, b, h1, h2, h3⟩ := cellSeg_header_border_shape cx htriv row
      (tableColWidths data width true) k
    refine ⟨a, b, h1, h2, h3 ?_⟩
    rw [hget k hkK]
    have := TableShape.row_le_colW data width true hk row hrow k
    simpa using this
  case missing =>
    intro row isHeader k hkK hrl
    rw [← hget k hkK]
    apply cellSeg_missing cx htriv _ _ _ _ _ hrl
    intro hb _
    rw [hget k hkK]
    have := hpos k
    rw [if_pos hb] at this
    omega
  case nonws =>
    intro hsp row isHeader k
    exact cellSeg_nonws cx htriv hsp row _ isHeader border k
  case row_atoms =>
    intro row isHeader a ha
    rcases mem_tableRow cx htriv row _ isHeader border _ a ha with ⟨hb, hv⟩ | h | ⟨k, hk', h⟩
    · exact .inl ⟨hb, List.mem_singleton.1 hv⟩
    · exact .inr (.inl h)
    · exact .inr (.inr ⟨k, by rwa [hlen] at hk', h⟩)
  case rule_noBorder =>
    intro hh hb
    subst hh hb
    rw [hT, buildTable_header_rule_noBorder cx data _ _ _ (List.length_pos_iff.2 hd)]
    exact congrArg some (gRepeat_single_c h _)
  case rule_border =>
    intro hh hb hdl
    subst hh hb
    rw [hT]
    exact buildTable_header_rule_border cx data _ _ _ hdl
  case first_border =>
    intro hb
    subst hb
    rw [hT]
    exact buildTable_first_border cx data _ _ header _
  case last_border =>
    intro hb
    subst hb
    rw [hT]
    exact buildTable_last_border cx data _ _ header _
  case bar_segs =>
    rw [tableHorzBar_eq_segs, hlen]
    unfold segLine
    congr 2
    apply List.map_congr_left
    intro k hk'
    show gRepeat [h] ((tableColWidths data width border).getD k 0) ++ [c] = _
    rw [hget k (List.mem_range.1 hk'), gRepeat_single_c]
  case bar_seg_at =>
    intro k hkK
    have := tableHorzBar_seg_at (tableColWidths data width border) ⟨[c], [v], [h]⟩ rfl k
      (by rw [hlen]; exact hkK) (hposW k · hkK)
    rw [hget k hkK] at this
    exact this.trans (gRepeat_single_c h _)
  case bar_corner_start =>
    exact tableHorzBar_corner_start (tableColWidths data width border) ⟨[c], [v], [h]⟩
  case bar_corner_at =>
    intro k hkK
    have := tableHorzBar_corner_at (tableColWidths data width border) ⟨[c], [v], [h]⟩ rfl k
      (by rw [hlen]; exact hkK) (hposW k · hkK)
    rw [hget k hkK] at this
    exact this
  case bar_atoms =>
    intro a ha
    rcases mem_tableHorzBar _ _ a ha with h | h
    · exact .inl (List.mem_singleton.1 h)
    · exact .inr (List.mem_singleton.1 h)
  case row_vert_start =>
    intro hb row isHeader
    subst hb
    exact tableRow_vert_start cx row _ isHeader ⟨[c], [v], [h]⟩
  case row_vert_at =>
    intro hb row hrow isHeader k hkK
    subst hb
    have := tableRow_vert_at cx htriv row (tableColWidths data width true) isHeader
      ⟨[c], [v], [h]⟩ k (by rw [hlen]; exact hkK) (fun i hi => hfit row hrow isHeader i (by omega))
    rw [hget k hkK] at this
    exact this
  case noBorder_charset =>
    intro hb c' v' h' hh'
    subst hb
    rw [hT, hT]
    exact buildTable_noBorder_chars cx data _ _ header _ _ (fun hh => by rw [hh' hh])

end

/-! ## an arbitrary character set, and the operation -/
section
variable {α : Type} [DecidableEq α] (cx : Ctx α)

/-- at cluster level, as soon as the default character set has (at least) three atoms,
`parseTableCharSet` of an ARBITRARY character set (too short: completed from the default; too
long: cut) is three single atoms -/
theorem parseTableCharSet_triv_exists (htriv : ∀ s, cx.ends s = List.range' 1 s.length)
    (h3 : 3 ≤ cx.dCharset.length) (charSet : List α) :
    ∃ c v h, parseTableCharSet cx charSet = ⟨[c], [v], [h]⟩ := by
  have key : ∀ cs : List α, cs.length = 3 →
      ∃ c v h, (⟨gSub cx cs 0 1, gSub cx cs 1 2, gSub cx cs 2 3⟩ : TableChars α) =
        ⟨[c], [v], [h]⟩ := by
    intro cs hcs
    match cs, hcs with
    | [a, b, c], _ =>
      have h1 := gSub_triv_int cx htriv [a, b, c] 0 1 (by omega) (by omega) (by simp)
      have h2 := gSub_triv_int cx htriv [a, b, c] 1 2 (by omega) (by omega) (by simp)
      have h3 := gSub_triv_int cx htriv [a, b, c] 2 3 (by omega) (by omega) (by simp)
      exact ⟨a, b, c, by rw [h1, h2, h3]; rfl⟩
  unfold parseTableCharSet
  simp only [gLen_triv cx htriv]
  apply key
  split
  · rename_i hlt
    rw [gSub_triv_int cx htriv cx.dCharset 0 (3 - (charSet.length : Int)) (by omega) (by omega)
      (by omega)]
    simp only [List.length_append, List.length_take, List.length_drop]
    omega
  · split
    · rename_i hgt
      rw [gSub_triv_int cx htriv charSet 0 3 (by omega) (by omega) (by omega)]
      simp only [List.length_take, List.length_drop]
      omega
    · omega

/-- `makeTable` sees the character set only through `parseTableCharSet` -/
theorem makeTable_charSet_congr (data : List (List (List α))) (width : Int) (header border : Bool)
    (cs cs' : List α) (h : parseTableCharSet cx cs = parseTableCharSet cx cs') :
    makeTable cx data width header border cs = makeTable cx data width header border cs' := by
  simp only [makeTable_eq_core]
  unfold makeTableCore
  rw [h]

/-- **C16, shape, any character set**: `charSet` is replaced by the three atoms
`parseTableCharSet` extracts from it -/
theorem makeTable_shape_charSet (htriv : ∀ s, cx.ends s = List.range' 1 s.length)
    (h3 : 3 ≤ cx.dCharset.length)
    (data : List (List (List α))) (width : Int) (header border : Bool) (charSet : List α)
    (hd : data ≠ []) (hk : tableColCount data ≠ 0) :
    ∃ c v h, parseTableCharSet cx charSet = ⟨[c], [v], [h]⟩ ∧
      makeTable cx data width header border charSet =
        makeTable cx data width header border [c, v, h] ∧
      MakeTableShape cx data width header border c v h := by
  obtain ⟨c, v, h, hp⟩ := parseTableCharSet_triv_exists cx htriv h3 charSet
  refine ⟨c, v, h, hp, ?_, makeTable_shape cx htriv data width header border c v h hd hk⟩
  apply makeTable_charSet_congr
  rw [hp, parseTableCharSet_triv cx htriv]

/-- **C16, shape, for the operation**: `InsertTableOpts` inserts the joined lines of a table of
shape `MakeTableShape`, drawn with the three atoms of the (defaulted) character set -/
theorem insertTableOpts_tableShape (htriv : ∀ s, cx.ends s = List.range' 1 s.length)
    (h3 : cx.dCharset.length = 3) (ed : Editor α) (pos : Int)
    (data : List (List (List α))) (width : Int) (o : Options α)
    (hd : data ≠ []) (hk : tableColCount data ≠ 0) :
    ∃ c v h ls, (o.withDefaults cx).charset = [c, v, h] ∧
      ls = makeTable cx data width o.headers o.borders [c, v, h] ∧
      MakeTableShape cx data width o.headers o.borders c v h ∧
      ed.insertTableOpts cx pos data width o =
        ed.insert cx pos
          (if (!(o.withDefaults cx).noTrailing) = true ∧
              (!(Block.mk ls (o.withDefaults cx).lineSep false).join.isEmpty) = true then
            (Block.mk ls (o.withDefaults cx).lineSep false).join ++ (o.withDefaults cx).lineSep
          else (Block.mk ls (o.withDefaults cx).lineSep false).join) := by
  have hb : (o.withDefaults cx).borders = o.borders := (withDefaults_fields cx o).2.2.2.2.2.2.1
  have hh : (o.withDefaults cx).headers = o.headers := (withDefaults_fields cx o).2.2.2.2.2.2.2
  have hl := withDefaults_charset_length_triv cx htriv h3 o
  match hcs : (o.withDefaults cx).charset, hl with
  | [c, v, h], _ =>
    refine ⟨c, v, h, _, rfl, rfl, makeTable_shape cx htriv data width _ _ c v h hd hk, ?_⟩
    unfold Editor.insertTableOpts
    simp only [hb, hh, hcs]

end

/-! ## concrete checks: a ragged table (rows of 2, 1 and 3 cells) in the context `cxEx`
(`0` and `5` are whitespace, `upper 7 = 0`), character set `+|-` = `[43, 124, 45]` -/
section examples

/-- rows of 2, 1, 3 cells; the header cell `7 1 2` upper-cases to ` 1 2`; `0 6` has a leading
space -/
def exData : List (List (List Nat)) := [[[7, 1, 2], [3]], [[4]], [[0, 6], [8, 8, 8], [9]]]

/-- header + borders: bar, centred upper-cased header, bar, the body rows with blank missing
cells, bar -/
example : makeTable cxEx exData 0 true true [43, 124, 45] =
    [[43, 45, 45, 45, 45, 45, 43, 45, 45, 45, 45, 45, 43, 45, 45, 45, 43],
     [124, 0, 0, 1, 2, 0, 124, 0, 0, 3, 0, 0, 124, 0, 0, 0, 124],
     [43, 45, 45, 45, 45, 45, 43, 45, 45, 45, 45, 45, 43, 45, 45, 45, 43],
     [124, 0, 4, 0, 0, 0, 124, 0, 0, 0, 0, 0, 124, 0, 0, 0, 124],
     [124, 0, 6, 0, 0, 0, 124, 0, 8, 8, 8, 0, 124, 0, 9, 0, 124],
     [43, 45, 45, 45, 45, 45, 43, 45, 45, 45, 45, 45, 43, 45, 45, 45, 43]] := by decide

/-- header, no borders: the rule of `-` on line 1; neither `+` nor `|` anywhere -/
example : makeTable cxEx exData 0 true false [43, 124, 45] =
    [[1, 2, 0, 0, 0, 3, 0, 0, 0, 0, 0],
     [45, 45, 45, 45, 45, 45, 45, 45, 45, 45, 45],
     [4, 0, 0, 0, 0, 0, 0, 0, 0, 0, 0],
     [6, 0, 0, 0, 0, 8, 8, 8, 0, 0, 9]] := by decide

/-- borders, no header: row 0 is an ordinary (not upper-cased, left-aligned) row -/
example : makeTable cxEx exData 0 false true [43, 124, 45] =
    [[43, 45, 45, 45, 45, 45, 43, 45, 45, 45, 45, 45, 43, 45, 45, 45, 43],
     [124, 0, 7, 1, 2, 0, 124, 0, 3, 0, 0, 0, 124, 0, 0, 0, 124],
     [124, 0, 4, 0, 0, 0, 124, 0, 0, 0, 0, 0, 124, 0, 0, 0, 124],
     [124, 0, 6, 0, 0, 0, 124, 0, 8, 8, 8, 0, 124, 0, 9, 0, 124],
     [43, 45, 45, 45, 45, 45, 43, 45, 45, 45, 45, 45, 43, 45, 45, 45, 43]] := by decide

/-- neither: the character set is not used at all -/
example : makeTable cxEx exData 0 false false [43, 124, 45] =
    [[7, 1, 2, 0, 0, 3, 0, 0, 0, 0, 0], [4, 0, 0, 0, 0, 0, 0, 0, 0, 0, 0],
     [6, 0, 0, 0, 0, 8, 8, 8, 0, 0, 9]] := by decide
example : makeTable cxEx exData 0 false false [43, 124, 45] =
    makeTable cxEx exData 0 false false [1, 2, 3] := by decide

/-- widths and column offsets (bordered / borderless), also when the table is stretched to 24 -/
example : tableColWidths exData 0 true = [5, 5, 3] ∧
    colOffsets (tableColWidths exData 0 true) true 1 = [1, 7, 13] ∧
    tableColWidths exData 0 false = [5, 5, 1] ∧
    colOffsets (tableColWidths exData 0 false) false 1 = [0, 5, 10] ∧
    tableColWidths exData 24 true = [8, 7, 5] ∧
    colOffsets (tableColWidths exData 24 true) true 1 = [1, 10, 18] := by decide

/-- line numbers of the three data rows in the four modes -/
example : (List.range 3).map (rowLine true true) = [1, 3, 4] ∧
    (List.range 3).map (rowLine true false) = [0, 2, 3] ∧
    (List.range 3).map (rowLine false true) = [1, 2, 3] ∧
    (List.range 3).map (rowLine false false) = [0, 1, 2] := by decide

/-- cutting column 1 (offset 7, width 5) out of every row line gives the cell segments; out of
the bar it gives `-----` -/
example : ((makeTable cxEx exData 0 true true [43, 124, 45]).map fun l => (l.drop 7).take 5) =
    [[45, 45, 45, 45, 45], [0, 0, 3, 0, 0], [45, 45, 45, 45, 45], [0, 0, 0, 0, 0],
     [0, 8, 8, 8, 0], [45, 45, 45, 45, 45]] := by decide

/-- the side condition of `cellSeg_length_iff` is needed: in a column that is too narrow (which
`makeTable` never produces) the segment is longer than the column and everything after it
shifts -/
example : (cellSeg cxEx [[1, 2, 3], [4]] [2, 3] false true 0).length = 4 ∧
    tableRow cxEx [[1, 2, 3], [4]] [2, 3] false true ⟨[43], [124], [45]⟩ =
      [124, 0, 1, 2, 3, 124, 0, 4, 0, 124] ∧
    tableRow cxEx [[1], [4]] [2, 3] false true ⟨[43], [124], [45]⟩ =
      [124, 0, 1, 124, 0, 4, 0, 124] := by decide

/-- a bordered body cell in a column of width `0` still gets its leading space: `cellSeg_missing`
needs `1 ≤ colWidths[k]` there -/
example : cellSeg cxEx [] [0] false true 0 = [0] := by decide

end examples
end RosedVerif
