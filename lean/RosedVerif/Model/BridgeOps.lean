/-
The A→B bridge for CollapseSpace / Wrap (RosedVerif/Model/BridgeWrap.lean: manip level, EMPTY line
separator) lifted to
  (a) a NON-EMPTY line separator, and
  (b) the Editor-level operations `Editor.collapseSpaceOpts` / `Editor.wrapOpts` (non-paragraph
      mode), which is what the public operations run (Options.withDefaults always fills the line
      separator in).

Separators covered (`V` a stable vocabulary, the text a list of tokens of `V`):
  * a single-rune token `[n]` whose rune occurs in no other cluster of `V`  (e.g. "\n") — the
    statements requested, `…_bridge_sep`, `collapseSpaceOpts_bridge`, `wrapOpts_bridge`;
  * a single TOKEN `a :: s'` (one cluster of several code points, e.g. CR LF) whose first rune
    occurs nowhere else in `V`                                        — `goodSep_tok`;
  * a LIST of such "marker" tokens (e.g. "\n\n", "\r\n\r\n")          — `goodSep_markers`.
Everything after the string helpers is proved once, for an abstract `GoodSep V S`.
-/
import RosedVerif.Model.BridgeWrap
import RosedVerif.Model.StringsLemmas
namespace RosedVerif
namespace BridgeOps
open BridgeWrap

/-! ## 0. generic facts about `splitOn` / `joinWith` -/

section generic
variable {α : Type} [DecidableEq α]

theorem splitOnAux_single_cons (x c : α) (t cur : List α) :
    splitOnAux [x] (c :: t) 0 cur =
      if c = x then cur.reverse :: splitOnAux [x] t 0 [] else splitOnAux [x] t 0 (c :: cur) := by
  rw [splitOnAux]
  by_cases h : c = x
  · subst h; simp
  · have : ¬ x = c := fun e => h e.symm
    simp [h, this]

theorem splitOnAux_single_append (x : α) (t : List α) (hx : x ∉ t) (rest cur : List α) :
    splitOnAux [x] (t ++ rest) 0 cur = splitOnAux [x] rest 0 (t.reverse ++ cur) := by
  induction t generalizing cur with
  | nil => rfl
  | cons c t ih =>
    rw [List.cons_append, splitOnAux_single_cons, if_neg (fun e => hx (by simp [e])),
      ih (fun e => hx (List.mem_cons_of_mem _ e))]
    simp

theorem splitOn_single (s : List α) (x : α) : splitOn s [x] = splitOnAux [x] s 0 [] := rfl

/-- every atom of a piece comes from the text (or from the accumulator) -/
theorem splitOnAux_mem (sep : List α) : ∀ (s : List α) (skip : Nat) (cur : List α),
    ∀ l ∈ splitOnAux sep s skip cur, ∀ c ∈ l, c ∈ s ∨ c ∈ cur
  | [], _, cur, l, hl, c, hc => by
    rw [splitOnAux, List.mem_singleton] at hl
    subst hl
    exact Or.inr (List.mem_reverse.1 hc)
  | a :: t, skip + 1, cur, l, hl, c, hc => by
    rw [splitOnAux] at hl
    rcases splitOnAux_mem sep t skip cur l hl c hc with h | h
    · exact Or.inl (List.mem_cons_of_mem _ h)
    · exact Or.inr h
  | a :: t, 0, cur, l, hl, c, hc => by
    rw [splitOnAux] at hl
    split at hl
    · rcases List.mem_cons.1 hl with hl | hl
      · subst hl; exact Or.inr (List.mem_reverse.1 hc)
      · rcases splitOnAux_mem sep t _ [] l hl c hc with h | h
        · exact Or.inl (List.mem_cons_of_mem _ h)
        · cases h
    · rcases splitOnAux_mem sep t 0 (a :: cur) l hl c hc with h | h
      · exact Or.inl (List.mem_cons_of_mem _ h)
      · rcases List.mem_cons.1 h with h | h
        · subst h; exact Or.inl List.mem_cons_self
        · exact Or.inr h

theorem splitOn_mem (s sep : List α) : ∀ l ∈ splitOn s sep, ∀ c ∈ l, c ∈ s := by
  intro l hl c hc
  unfold splitOn at hl
  split at hl
  · obtain ⟨d, hd, rfl⟩ := List.mem_map.1 hl
    rw [List.mem_singleton] at hc; subst hc; exact hd
  · rcases splitOnAux_mem sep s 0 [] l hl c hc with h | h
    · exact h
    · cases h

omit [DecidableEq α] in
theorem joinWith_mem (sep : List α) : ∀ (ls : List (List α)) (c : α),
    c ∈ joinWith sep ls → c ∈ sep ∨ ∃ l ∈ ls, c ∈ l
  | [], c, h => by cases h
  | [x], c, h => by
    rw [joinWith_singleton] at h
    exact Or.inr ⟨x, List.mem_cons_self, h⟩
  | x :: y :: t, c, h => by
    rw [joinWith_cons_cons, List.mem_append, List.mem_append] at h
    rcases h with (h | h) | h
    · exact Or.inr ⟨x, List.mem_cons_self, h⟩
    · exact Or.inl h
    · rcases joinWith_mem sep (y :: t) c h with h | ⟨l, hl, h⟩
      · exact Or.inl h
      · exact Or.inr ⟨l, List.mem_cons_of_mem _ hl, h⟩

omit [DecidableEq α] in
theorem mem_joinWith (sep : List α) : ∀ (ls : List (List α)) (l : List α) (c : α),
    l ∈ ls → c ∈ l → c ∈ joinWith sep ls
  | [x], l, c, hl, hc => by
    rw [List.mem_singleton] at hl; subst hl
    rw [joinWith_singleton]; exact hc
  | x :: y :: t, l, c, hl, hc => by
    rw [joinWith_cons_cons, List.mem_append, List.mem_append]
    rcases List.mem_cons.1 hl with hl | hl
    · subst hl; exact Or.inl (Or.inl hc)
    · exact Or.inr (mem_joinWith sep (y :: t) l c hl hc)

/-- every atom of `replaceAll s old new` is an atom of `s` or of `new` -/
theorem replaceAll_mem (s old new : List α) (c : α) (h : c ∈ replaceAll s old new) :
    c ∈ s ∨ c ∈ new := by
  unfold replaceAll at h
  rcases joinWith_mem new _ c h with h | ⟨l, hl, h⟩
  · exact Or.inr h
  · exact Or.inl (splitOn_mem s old l hl c h)

omit [DecidableEq α] in
/-- `strings.Join` commutes with flattening -/
theorem joinWith_flatten (sep : List (List α)) : ∀ (ls : List (List (List α))),
    joinWith sep.flatten (ls.map List.flatten) = (joinWith sep ls).flatten
  | [] => rfl
  | [x] => by simp only [List.map_cons, List.map_nil, joinWith_singleton]
  | x :: y :: t => by
    have ih := joinWith_flatten sep (y :: t)
    rw [List.map_cons] at ih
    rw [List.map_cons, List.map_cons, joinWith_cons_cons, joinWith_cons_cons, ih]
    simp only [List.flatten_append]

omit [DecidableEq α] in
theorem joinWith_append_nil (sep : List α) : ∀ (ls : List (List α)), ls ≠ [] →
    joinWith sep (ls ++ [[]]) = joinWith sep ls ++ sep
  | [], h => absurd rfl h
  | [a], _ => by
    rw [List.singleton_append, joinWith_cons_cons, joinWith_singleton, joinWith_singleton,
      List.append_nil]
  | a :: b :: t, _ => by
    rw [List.cons_append, joinWith_cons_of_ne_nil sep a (by simp),
      joinWith_append_nil sep (b :: t) (by simp), joinWith_cons_cons]
    simp only [List.append_assoc]

/-- `HasSuffix` with the `BEq` instance the generic model uses -/
theorem isSuffixOf_dec_iff (a b : List α) : a.isSuffixOf b = true ↔ a <:+ b :=
  List.isSuffixOf_iff_suffix

theorem isPrefixOf_dec_iff (a b : List α) : a.isPrefixOf b = true ↔ a <+: b :=
  List.isPrefixOf_iff_prefix

theorem splitOnAux_cons_ne (a : α) (s' : List α) (c : α) (t cur : List α) (h : c ≠ a) :
    splitOnAux (a :: s') (c :: t) 0 cur = splitOnAux (a :: s') t 0 (c :: cur) := by
  have : ¬ a = c := fun e => h e.symm
  rw [splitOnAux, if_neg]
  simp [this]

/-- a stretch of text without the first atom of the separator contains no match -/
theorem splitOnAux_nohead_append (a : α) (s' t : List α) (ha : a ∉ t) (rest cur : List α) :
    splitOnAux (a :: s') (t ++ rest) 0 cur = splitOnAux (a :: s') rest 0 (t.reverse ++ cur) := by
  induction t generalizing cur with
  | nil => rfl
  | cons c t ih =>
    rw [List.cons_append, splitOnAux_cons_ne _ _ _ _ _ (fun e => ha (by simp [e])),
      ih (fun e => ha (List.mem_cons_of_mem _ e))]
    simp

theorem splitOnAux_skip (sep : List α) : ∀ (pre rest cur : List α),
    splitOnAux sep (pre ++ rest) pre.length cur = splitOnAux sep rest 0 cur
  | [], _, _ => rfl
  | c :: pre, rest, cur => by
    rw [List.cons_append, List.length_cons, splitOnAux]
    exact splitOnAux_skip sep pre rest cur

/-- at an occurrence of the separator the current piece is closed and the separator skipped -/
theorem splitOnAux_match (a : α) (s' rest cur : List α) :
    splitOnAux (a :: s') ((a :: s') ++ rest) 0 cur =
      cur.reverse :: splitOnAux (a :: s') rest 0 [] := by
  have hp : (a :: s').isPrefixOf (a :: (s' ++ rest)) = true := by
    rw [List.isPrefixOf_iff_prefix]
    exact List.prefix_append (a :: s') rest
  rw [List.cons_append, splitOnAux, if_pos hp]
  have := splitOnAux_skip (a :: s') s' rest []
  rw [List.length_cons, Nat.add_sub_cancel, this]

/-- one step of `splitOnAux` at a position where the separator does not match -/
theorem splitOnAux_cons_nomatch (sep : List α) (c : α) (t cur : List α)
    (h : ¬ sep <+: c :: t) :
    splitOnAux sep (c :: t) 0 cur = splitOnAux sep t 0 (c :: cur) := by
  rw [splitOnAux, if_neg]
  rw [isPrefixOf_dec_iff]; exact h

/-- one step of `splitOnAux` at a match -/
theorem splitOnAux_prefix (sep rest cur : List α) (hne : sep ≠ []) :
    splitOnAux sep (sep ++ rest) 0 cur = cur.reverse :: splitOnAux sep rest 0 [] := by
  cases sep with
  | nil => exact absurd rfl hne
  | cons a s' => exact splitOnAux_match a s' rest cur

omit [DecidableEq α] in
theorem suffix_skip (a : α) (q : List α) : ∀ (t R : List α), a ∉ t →
    (a :: q) <:+ t ++ R → (a :: q) <:+ R
  | [], _, _, h => h
  | c :: t, R, ha, h => by
    rw [List.cons_append, List.suffix_cons_iff] at h
    rcases h with h | h
    · exact absurd (List.cons.inj h).1 (fun e => ha (by simp [e]))
    · exact suffix_skip a q t R (fun e => ha (List.mem_cons_of_mem _ e)) h

/-- a piece of a split at a single atom does not contain that atom -/
theorem splitOnAux_single_not_mem (x : α) : ∀ (s cur : List α), x ∉ cur →
    ∀ l ∈ splitOnAux [x] s 0 cur, x ∉ l
  | [], cur, hc, l, hl => by
    rw [splitOnAux, List.mem_singleton] at hl
    subst hl
    exact fun h => hc (List.mem_reverse.1 h)
  | c :: t, cur, hc, l, hl => by
    rw [splitOnAux_single_cons] at hl
    split at hl
    · rcases List.mem_cons.1 hl with hl | hl
      · subst hl
        exact fun h => hc (List.mem_reverse.1 h)
      · exact splitOnAux_single_not_mem x t [] (by simp) l hl
    · rename_i hne
      refine splitOnAux_single_not_mem x t (c :: cur) ?_ l hl
      intro h
      rcases List.mem_cons.1 h with h | h
      · exact hne h.symm
      · exact hc h

/-- `strings.ReplaceAll(s, x, new)` removes every `x` (when `new` has none) -/
theorem replaceAll_single_not_mem (s : List α) (x : α) (new : List α) (hn : x ∉ new) :
    x ∉ replaceAll s [x] new := by
  intro h
  unfold replaceAll at h
  rcases joinWith_mem new _ x h with h | ⟨l, hl, h⟩
  · exact hn h
  · exact splitOnAux_single_not_mem x s [] (by simp) l hl h

/-- `strings.ReplaceAll(s, x, new)` keeps every atom other than `x` -/
theorem mem_replaceAll_single (s : List α) (x : α) (new : List α) (c : α) (hc : c ∈ s)
    (hne : c ≠ x) : c ∈ replaceAll s [x] new := by
  rw [← joinWith_splitOn s [x] (by simp)] at hc
  rcases joinWith_mem [x] _ c hc with h | ⟨l, hl, h⟩
  · rw [List.mem_singleton] at h; exact absurd h hne
  · exact mem_joinWith new _ l c hl h

theorem splitOnAux_joinWith_single (x : α) : ∀ (ls : List (List α)) (l cur : List α),
    (∀ l' ∈ l :: ls, x ∉ l') →
    splitOnAux [x] (joinWith [x] (l :: ls)) 0 cur = (cur.reverse ++ l) :: ls
  | [], l, cur, h => by
    have := splitOnAux_single_append x l (h l List.mem_cons_self) [] cur
    rw [List.append_nil] at this
    rw [joinWith_singleton, this, splitOnAux]
    simp
  | l' :: ls, l, cur, h => by
    rw [joinWith_cons_cons, List.append_assoc,
      splitOnAux_single_append x l (h l List.mem_cons_self), List.singleton_append,
      splitOnAux_single_cons, if_pos rfl,
      splitOnAux_joinWith_single x ls l' [] (fun a ha => h a (List.mem_cons_of_mem _ ha))]
    simp

/-- `strings.Split(strings.Join(ls, x), x) = ls` when no part contains the atom `x` -/
theorem splitOn_joinWith_single (x : α) (ls : List (List α)) (hne : ls ≠ [])
    (h : ∀ l ∈ ls, x ∉ l) : splitOn (joinWith [x] ls) [x] = ls := by
  cases ls with
  | nil => exact absurd rfl hne
  | cons l ls =>
    rw [splitOn_single, splitOnAux_joinWith_single x ls l [] h]
    rfl

theorem flatten_single {β : Type} (s : List β) : [s].flatten = s := by simp

theorem flatten_prefix {β : Type} {S toks : List (List β)} (h : S <+: toks) :
    S.flatten <+: toks.flatten := by
  obtain ⟨r, rfl⟩ := h
  rw [List.flatten_append]
  exact List.prefix_append _ _

end generic

/-! ## 1. token / rune agreement of the string helpers -/

/-- what the bridge needs from a (non-empty) line separator `S`, a list of cluster tokens (on code
points the separator is `S.flatten`): splitting and the suffix test agree on the two levels for
every text over `V`.  The `BEq` instances of `isSuffixOf` are spelled out: the model (generic in
`[DecidableEq α]`) compares atoms with `instBEqOfDecidableEq`, which at `α = List Int` is not
syntactically the instance `List.instBEq` that plain `S.isSuffixOf toks` elaborates to. -/
structure GoodSep (V : List (List Int)) (S : List (List Int)) : Prop where
  ne : S ≠ []
  tok_ne : ∀ t ∈ S, t ≠ []
  split : ∀ toks : List (List Int), (∀ t ∈ toks, t ∈ V) →
    splitOn toks.flatten S.flatten = (splitOn toks S).map List.flatten
  suffix : ∀ toks : List (List Int), (∀ t ∈ toks, t ∈ V) →
    @List.isSuffixOf Int instBEqOfDecidableEq S.flatten toks.flatten =
      @List.isSuffixOf (List Int) instBEqOfDecidableEq S toks

/-! ### 1.1 a single separator token `a :: s'` -/

/-- a token that is either the separator token `a :: s'` or does not contain its first rune -/
def SepTokOK (a : Int) (s' : List Int) (t : List Int) : Prop := t = a :: s' ∨ a ∉ t

theorem sepTokOK_of_only {V : List (List Int)} {a : Int} {s' : List Int}
    (haOnly : ∀ t ∈ V, a ∈ t → t = a :: s')
    {toks : List (List Int)} (ht : ∀ t ∈ toks, t ∈ V) : ∀ t ∈ toks, SepTokOK a s' t := by
  intro t h
  by_cases hm : a ∈ t
  · exact Or.inl (haOnly t (ht t h) hm)
  · exact Or.inr hm

theorem splitOnAux_bridge_tok (a : Int) (s' : List Int) : ∀ (toks : List (List Int)),
    (∀ t ∈ toks, SepTokOK a s' t) →
    ∀ (curR : List Int) (curT : List (List Int)), curR.reverse = curT.reverse.flatten →
      splitOnAux (a :: s') toks.flatten 0 curR =
        (splitOnAux [a :: s'] toks 0 curT).map List.flatten
  | [], _, curR, curT, hc => by
    simp only [List.flatten_nil, splitOnAux, List.map_cons, List.map_nil, hc]
  | t :: rest, h, curR, curT, hc => by
    have hr : ∀ t ∈ rest, SepTokOK a s' t := fun x hx => h x (List.mem_cons_of_mem _ hx)
    rcases h t List.mem_cons_self with ht | ht
    · subst ht
      rw [splitOnAux_single_cons, if_pos rfl, List.flatten_cons, splitOnAux_match,
        List.map_cons, hc, splitOnAux_bridge_tok a s' rest hr [] [] rfl]
    · have hne : t ≠ a :: s' := by
        intro e; rw [e] at ht; exact ht List.mem_cons_self
      rw [splitOnAux_single_cons, if_neg hne, List.flatten_cons,
        splitOnAux_nohead_append a s' t ht]
      refine splitOnAux_bridge_tok a s' rest hr _ _ ?_
      simp only [List.reverse_append, List.reverse_reverse, hc, List.reverse_cons,
        List.flatten_append, List.flatten_cons, List.flatten_nil, List.append_nil]

/-- `strings.Split` -/
theorem splitOn_bridge_tokOK (a : Int) (s' : List Int) (toks : List (List Int))
    (h : ∀ t ∈ toks, SepTokOK a s' t) :
    splitOn toks.flatten (a :: s') = (splitOn toks [a :: s']).map List.flatten :=
  splitOnAux_bridge_tok a s' toks h [] [] rfl

/-- `strings.ReplaceAll` -/
theorem replaceAll_bridge_tokOK (a : Int) (s' : List Int) (new : List (List Int))
    (toks : List (List Int)) (h : ∀ t ∈ toks, SepTokOK a s' t) :
    replaceAll toks.flatten (a :: s') new.flatten = (replaceAll toks [a :: s'] new).flatten := by
  unfold replaceAll
  rw [splitOn_bridge_tokOK a s' toks h, joinWith_flatten]

/-- an occurrence of the first separator rune at the start of a suffix of the text is the start
of a separator token -/
theorem suffix_aligned (a : Int) (s' : List Int) (has : a ∉ s') : ∀ (toks : List (List Int)),
    (∀ t ∈ toks, SepTokOK a s' t) → ∀ q, (a :: q) <:+ toks.flatten →
    ∃ init rest, toks = init ++ (a :: s') :: rest ∧ a :: q = (a :: s') ++ rest.flatten
  | [], _, q, h => by
    rw [List.flatten_nil, List.suffix_nil] at h
    cases h
  | t :: r, h, q, hs => by
    have hr : ∀ t ∈ r, SepTokOK a s' t := fun x hx => h x (List.mem_cons_of_mem _ hx)
    have fromIH : (a :: q) <:+ r.flatten →
        ∃ init rest, t :: r = init ++ (a :: s') :: rest ∧ a :: q = (a :: s') ++ rest.flatten := by
      intro hq
      obtain ⟨init, rest, e1, e2⟩ := suffix_aligned a s' has r hr q hq
      exact ⟨t :: init, rest, by rw [e1]; rfl, e2⟩
    rw [List.flatten_cons] at hs
    rcases h t List.mem_cons_self with ht | ht
    · subst ht
      rw [List.cons_append, List.suffix_cons_iff] at hs
      rcases hs with hs | hs
      · exact ⟨[], r, rfl, hs⟩
      · exact fromIH (suffix_skip a q s' _ has hs)
    · exact fromIH (suffix_skip a q t _ ht hs)

/-- `strings.HasSuffix` -/
theorem isSuffixOf_bridge_tokOK (a : Int) (s' : List Int) (has : a ∉ s')
    (toks : List (List Int)) (hne : ∀ t ∈ toks, t ≠ []) (h : ∀ t ∈ toks, SepTokOK a s' t) :
    @List.isSuffixOf Int instBEqOfDecidableEq (a :: s') toks.flatten =
      @List.isSuffixOf (List Int) instBEqOfDecidableEq [a :: s'] toks := by
  rw [Bool.eq_iff_iff, isSuffixOf_dec_iff, isSuffixOf_dec_iff]
  constructor
  · intro hs
    obtain ⟨init, rest, e1, e2⟩ := suffix_aligned a s' has toks h s' hs
    have hrest : rest.flatten = [] := by
      have := List.self_eq_append_right.1 e2
      exact this
    have : rest = [] :=
      (flatten_eq_nil rest (fun t ht => hne t (by rw [e1]; simp [ht]))).1 hrest
    subst this
    exact ⟨init, e1.symm⟩
  · rintro ⟨p, hp⟩
    rw [← hp, List.flatten_append, flatten_single]
    exact List.suffix_append _ _

/-- the two `BEq` instances on `List Int` give the same suffix test -/
theorem isSuffixOf_inst (a b : List (List Int)) :
    @List.isSuffixOf (List Int) instBEqOfDecidableEq a b = a.isSuffixOf b := by
  rw [Bool.eq_iff_iff, isSuffixOf_dec_iff, List.isSuffixOf_iff_suffix]

/-! ### 1.2 the single-rune separator `[n]`: the requested statements -/

section vocab
variable {V : List (List Int)} {n : Int}

/-- **1a.** `strings.Split` -/
theorem splitOn_bridge (hnOnly : ∀ t ∈ V, n ∈ t → t = [n]) (toks : List (List Int))
    (ht : ∀ t ∈ toks, t ∈ V) :
    splitOn toks.flatten [n] = (splitOn toks [[n]]).map List.flatten :=
  splitOn_bridge_tokOK n [] toks (sepTokOK_of_only hnOnly ht)

/-- **1b.** `strings.ReplaceAll` -/
theorem replaceAll_bridge (hnOnly : ∀ t ∈ V, n ∈ t → t = [n]) (toks : List (List Int))
    (ht : ∀ t ∈ toks, t ∈ V) :
    replaceAll toks.flatten [n] [0x20] = (replaceAll toks [[n]] [[0x20]]).flatten :=
  replaceAll_bridge_tokOK n [] [[0x20]] toks (sepTokOK_of_only hnOnly ht)

/-- 1b: the result is again over `V` -/
theorem replaceAll_over (hsp : [0x20] ∈ V) (toks : List (List Int)) (ht : ∀ t ∈ toks, t ∈ V)
    (sep : List (List Int)) : ∀ t ∈ replaceAll toks sep [[0x20]], t ∈ V := by
  intro t h
  rcases replaceAll_mem toks sep [[0x20]] t h with h | h
  · exact ht t h
  · rw [List.mem_singleton] at h; rw [h]; exact hsp

/-- **1c.** `strings.Join` -/
theorem joinWith_bridge (n : Int) (ls : List (List (List Int))) :
    joinWith [n] (ls.map List.flatten) = (joinWith [[n]] ls).flatten :=
  joinWith_flatten [[n]] ls

/-- **1d.** `strings.HasSuffix`, with the `BEq` instances of the model (see `GoodSep`) -/
theorem isSuffixOf_bridge (hV : VocabStable V = true) (hnOnly : ∀ t ∈ V, n ∈ t → t = [n])
    (toks : List (List Int)) (ht : ∀ t ∈ toks, t ∈ V) :
    @List.isSuffixOf Int instBEqOfDecidableEq [n] toks.flatten =
      @List.isSuffixOf (List Int) instBEqOfDecidableEq [[n]] toks :=
  isSuffixOf_bridge_tokOK n [] List.not_mem_nil toks (over_ne_nil hV ht)
    (sepTokOK_of_only hnOnly ht)

/-- 1d with the instances that plain `isSuffixOf` notation elaborates to -/
theorem isSuffixOf_bridge' (hV : VocabStable V = true) (hnOnly : ∀ t ∈ V, n ∈ t → t = [n])
    (toks : List (List Int)) (ht : ∀ t ∈ toks, t ∈ V) :
    ([n] : List Int).isSuffixOf toks.flatten = ([[n]] : List (List Int)).isSuffixOf toks := by
  rw [← isSuffixOf_inst]
  exact isSuffixOf_bridge hV hnOnly toks ht

end vocab

/-! ### 1.3 a list of marker tokens -/

/-- a MARKER token of the vocabulary: its first rune occurs nowhere else in the vocabulary (not in
another token, not further inside the token itself).  Examples: `[0x0A]`, `[0x0D, 0x0A]`. -/
def Marker (V : List (List Int)) (s : List Int) : Prop :=
  ∃ a s', s = a :: s' ∧ a ∉ s' ∧ ∀ t ∈ V, a ∈ t → t = s

theorem Marker.ne_nil {V : List (List Int)} {s : List Int} (h : Marker V s) : s ≠ [] := by
  obtain ⟨a, s', rfl, _⟩ := h
  simp

section markers
variable {V : List (List Int)}

/-- a rune-level match of a list of markers against a text over `V` is a token-level match -/
theorem prefix_aligned : ∀ (S toks : List (List Int)), (∀ s ∈ S, Marker V s) →
    (∀ t ∈ toks, t ∈ V) → (∀ t ∈ toks, t ≠ []) → S.flatten <+: toks.flatten → S <+: toks
  | [], _, _, _, _, _ => List.nil_prefix
  | s :: S', toks, hS, hV', hne, hp => by
    obtain ⟨a, s', rfl, has, honly⟩ := hS s List.mem_cons_self
    cases toks with
    | nil =>
      rw [List.flatten_nil, List.prefix_nil] at hp
      simp at hp
    | cons t r =>
      cases t with
      | nil => exact absurd rfl (hne [] List.mem_cons_self)
      | cons c t' =>
        have hc : a = c := by
          rw [List.flatten_cons, List.flatten_cons, List.cons_append, List.cons_append] at hp
          exact (List.cons_prefix_cons.1 hp).1
        subst hc
        have ht : a :: t' = a :: s' := honly _ (hV' _ List.mem_cons_self) List.mem_cons_self
        rw [ht] at hp ⊢
        rw [List.flatten_cons, List.flatten_cons, List.prefix_append_right_inj] at hp
        have ih := prefix_aligned S' r (fun x hx => hS x (List.mem_cons_of_mem _ hx))
          (fun x hx => hV' x (List.mem_cons_of_mem _ hx))
          (fun x hx => hne x (List.mem_cons_of_mem _ hx)) hp
        exact List.cons_prefix_cons.2 ⟨rfl, ih⟩

theorem splitOnAux_bridge_markers (S : List (List Int)) (hS : ∀ s ∈ S, Marker V s)
    (hSne : S ≠ []) : ∀ (n : Nat) (toks : List (List Int)), toks.length ≤ n →
    (∀ t ∈ toks, t ∈ V) → (∀ t ∈ toks, t ≠ []) →
    ∀ (curR : List Int) (curT : List (List Int)), curR.reverse = curT.reverse.flatten →
      splitOnAux S.flatten toks.flatten 0 curR = (splitOnAux S toks 0 curT).map List.flatten := by
  intro n
  induction n with
  | zero =>
    intro toks hlen _ _ curR curT hc
    have : toks = [] := List.length_eq_zero_iff.1 (by omega)
    subst this
    simp only [List.flatten_nil, splitOnAux, List.map_cons, List.map_nil, hc]
  | succ n ih =>
    intro toks hlen hV' hne curR curT hc
    cases toks with
    | nil => simp only [List.flatten_nil, splitOnAux, List.map_cons, List.map_nil, hc]
    | cons t rest =>
      have hVr : ∀ t ∈ rest, t ∈ V := fun x hx => hV' x (List.mem_cons_of_mem _ hx)
      have hner : ∀ t ∈ rest, t ≠ [] := fun x hx => hne x (List.mem_cons_of_mem _ hx)
      have hflatne : S.flatten ≠ [] := by
        cases S with
        | nil => exact absurd rfl hSne
        | cons s S' =>
          have := (hS s List.mem_cons_self).ne_nil
          cases s with
          | nil => exact absurd rfl this
          | cons _ _ => simp
      by_cases hm : S <+: t :: rest
      · -- a match on both levels
        obtain ⟨rest', hr⟩ := hm
        cases S with
        | nil => exact absurd rfl hSne
        | cons s S' =>
          have hrest : rest = S' ++ rest' := by
            rw [List.cons_append] at hr
            exact (List.cons.inj hr).2.symm
          have hlen' : rest'.length ≤ n := by
            rw [hrest] at hlen
            simp only [List.length_cons, List.length_append] at hlen
            omega
          have hVr' : ∀ t ∈ rest', t ∈ V := fun x hx => hVr x (by rw [hrest]; simp [hx])
          have hner' : ∀ t ∈ rest', t ≠ [] := fun x hx => hner x (by rw [hrest]; simp [hx])
          have e1 : splitOnAux (s :: S') (t :: rest) 0 curT =
              curT.reverse :: splitOnAux (s :: S') rest' 0 [] := by
            rw [← hr]
            exact splitOnAux_prefix (s :: S') rest' curT (by simp)
          rw [e1, ← hr, List.flatten_append, splitOnAux_prefix _ _ _ hflatne, List.map_cons, hc,
            ih rest' hlen' hVr' hner' [] [] rfl]
      · -- no match at the head of `t`, and none inside `t`
        have hm' : ¬ S.flatten <+: (t :: rest).flatten :=
          fun h => hm (prefix_aligned S (t :: rest) hS hV' hne h)
        cases S with
        | nil => exact absurd rfl hSne
        | cons s S' =>
          obtain ⟨a, s', rfl, has, honly⟩ := hS s List.mem_cons_self
          cases t with
          | nil => exact absurd rfl (hne [] List.mem_cons_self)
          | cons c t' =>
            have hat' : a ∉ t' := by
              intro h
              have := honly _ (hV' _ List.mem_cons_self) (List.mem_cons_of_mem _ h)
              rw [(List.cons.inj this).2] at h
              exact has h
            have e1 : splitOnAux ((a :: s') :: S') ((c :: t') :: rest) 0 curT =
                splitOnAux ((a :: s') :: S') rest 0 ((c :: t') :: curT) :=
              splitOnAux_cons_nomatch _ _ _ _ hm
            rw [e1]
            have eS : ((a :: s') :: S').flatten = a :: (s' ++ S'.flatten) := rfl
            have eT : ((c :: t') :: rest).flatten = c :: (t' ++ rest.flatten) := rfl
            rw [eS, eT] at hm' ⊢
            rw [splitOnAux_cons_nomatch _ _ _ _ hm', splitOnAux_nohead_append a _ t' hat']
            refine ih rest (by simpa using hlen) hVr hner _ _ ?_
            simp only [List.reverse_append, List.reverse_reverse, hc, List.reverse_cons,
              List.flatten_append, List.flatten_cons, List.flatten_nil, List.append_nil,
              List.append_assoc, List.cons_append, List.nil_append]

/-- two token lists with the same code points, one made of markers, the other over `V`, agree -/
theorem flatten_inj_markers (S T : List (List Int)) (hS : ∀ s ∈ S, Marker V s)
    (hT : ∀ t ∈ T, t ∈ V) (hne : ∀ t ∈ T, t ≠ []) (h : S.flatten = T.flatten) : S = T := by
  obtain ⟨r, hr⟩ := prefix_aligned S T hS hT hne (by rw [h]; exact List.prefix_refl _)
  have hr' : r.flatten = [] := by
    rw [← hr, List.flatten_append] at h
    exact (List.self_eq_append_right.1 h)
  have : r = [] := (flatten_eq_nil r (fun t ht => hne t (by rw [← hr]; simp [ht]))).1 hr'
  rw [← hr, this, List.append_nil]

theorem isSuffixOf_bridge_markers (S : List (List Int)) (hS : ∀ s ∈ S, Marker V s)
    (hSne : S ≠ []) (toks : List (List Int)) (ht : ∀ t ∈ toks, t ∈ V)
    (hne : ∀ t ∈ toks, t ≠ []) :
    @List.isSuffixOf Int instBEqOfDecidableEq S.flatten toks.flatten =
      @List.isSuffixOf (List Int) instBEqOfDecidableEq S toks := by
  rw [Bool.eq_iff_iff, isSuffixOf_dec_iff, isSuffixOf_dec_iff]
  constructor
  · intro hs
    cases S with
    | nil => exact absurd rfl hSne
    | cons s S' =>
      obtain ⟨a, s', rfl, has, honly⟩ := hS s List.mem_cons_self
      have eS : ((a :: s') :: S').flatten = a :: (s' ++ S'.flatten) := rfl
      rw [eS] at hs
      obtain ⟨init, rest, e1, e2⟩ := suffix_aligned a s' has toks
        (sepTokOK_of_only honly ht) _ hs
      have hmem : ∀ t ∈ (a :: s') :: rest, t ∈ toks := fun t h => by
        rw [e1]; exact List.mem_append_right _ h
      have : (a :: s') :: S' = (a :: s') :: rest :=
        flatten_inj_markers _ _ hS (fun t h => ht t (hmem t h)) (fun t h => hne t (hmem t h))
          (by rw [eS, e2]; rfl)
      rw [this]
      exact ⟨init, e1.symm⟩
  · rintro ⟨p, hp⟩
    rw [← hp, List.flatten_append]
    exact List.suffix_append _ _

end markers

/-! ### 1.4 the three kinds of good separators, and what follows from `GoodSep` -/

section vocab
variable {V : List (List Int)}

/-- a single token (one cluster, possibly several code points, e.g. CR LF) whose first rune
occurs nowhere else in the vocabulary -/
theorem goodSep_tok (hV : VocabStable V = true) (a : Int) (s' : List Int) (has : a ∉ s')
    (haOnly : ∀ t ∈ V, a ∈ t → t = a :: s') : GoodSep V [a :: s'] where
  ne := by simp
  tok_ne := by simp
  split := fun toks ht => by
    rw [flatten_single]
    exact splitOn_bridge_tokOK a s' toks (sepTokOK_of_only haOnly ht)
  suffix := fun toks ht => by
    rw [flatten_single]
    exact isSuffixOf_bridge_tokOK a s' has toks (over_ne_nil hV ht) (sepTokOK_of_only haOnly ht)

/-- the single-rune token `[n]` whose rune occurs in no other cluster of the vocabulary -/
theorem goodSep_rune (hV : VocabStable V = true) {n : Int} (hnOnly : ∀ t ∈ V, n ∈ t → t = [n]) :
    GoodSep V [[n]] :=
  goodSep_tok hV n [] List.not_mem_nil hnOnly

/-- a non-empty list of marker tokens -/
theorem goodSep_markers (hV : VocabStable V = true) (S : List (List Int)) (hSne : S ≠ [])
    (hS : ∀ s ∈ S, Marker V s) : GoodSep V S where
  ne := hSne
  tok_ne := fun t ht => (hS t ht).ne_nil
  split := fun toks ht => by
    have hfne : S.flatten ≠ [] := fun e =>
      hSne ((flatten_eq_nil S (fun t ht => (hS t ht).ne_nil)).1 e)
    rw [splitOn_of_ne_nil _ _ hfne, splitOn_of_ne_nil _ _ hSne]
    exact splitOnAux_bridge_markers S hS hSne toks.length toks (Nat.le_refl _) ht
      (over_ne_nil hV ht) [] [] rfl
  suffix := fun toks ht => isSuffixOf_bridge_markers S hS hSne toks ht (over_ne_nil hV ht)

theorem GoodSep.isEmpty {S : List (List Int)} (h : GoodSep V S) : S.isEmpty = false := by
  cases S with
  | nil => exact absurd rfl h.ne
  | cons _ _ => rfl

theorem GoodSep.flatten_isEmpty {S : List (List Int)} (h : GoodSep V S) :
    S.flatten.isEmpty = false := by
  rw [BridgeWrap.flatten_isEmpty S h.tok_ne]; exact h.isEmpty

/-- `strings.ReplaceAll` for a good separator -/
theorem GoodSep.replaceAll {S : List (List Int)} (h : GoodSep V S) (new : List (List Int))
    (toks : List (List Int)) (ht : ∀ t ∈ toks, t ∈ V) :
    replaceAll toks.flatten S.flatten new.flatten = (replaceAll toks S new).flatten := by
  unfold RosedVerif.replaceAll
  rw [h.split toks ht, joinWith_flatten]

/-- the separator pre-pass of CollapseSpace / Wrap on runes = flattening of the one on tokens -/
theorem GoodSep.replaceAll' {S : List (List Int)} (h : GoodSep V S)
    (toks : List (List Int)) (ht : ∀ t ∈ toks, t ∈ V) :
    replaceAll' cxA toks.flatten S.flatten = (replaceAll' cxB toks S).flatten := by
  unfold RosedVerif.replaceAll'
  rw [h.isEmpty, h.flatten_isEmpty]
  exact h.replaceAll [[0x20]] toks ht

theorem replaceAll'_over (hsp : [0x20] ∈ V) (toks : List (List Int)) (ht : ∀ t ∈ toks, t ∈ V)
    (sep : List (List Int)) : ∀ t ∈ replaceAll' cxB toks sep, t ∈ V := by
  unfold replaceAll'
  split
  · exact ht
  · exact replaceAll_over hsp toks ht sep

/-- the pre-pass for the single-rune separator -/
theorem replaceAll'_bridge {n : Int} (hnOnly : ∀ t ∈ V, n ∈ t → t = [n])
    (toks : List (List Int)) (ht : ∀ t ∈ toks, t ∈ V) :
    replaceAll' cxA toks.flatten [n] = (replaceAll' cxB toks [[n]]).flatten :=
  replaceAll_bridge hnOnly toks ht

end vocab

/-! ## 2. CollapseSpace / Wrap with a non-empty separator -/

section
variable {α : Type} [DecidableEq α] (cx : Ctx α)

/-- the separator only enters through the pre-pass -/
theorem collapseSpace_sep (text sep : List α) :
    collapseSpace cx text sep = collapseSpace cx (replaceAll' cx text sep) [] := rfl

theorem wrapLines_sep (text : List α) (w : Int) (sep : List α) :
    wrapLines cx text w sep = wrapLines cx (replaceAll' cx text sep) w [] := rfl

end

section vocab
variable {V : List (List Int)} {S : List (List Int)}

/-- CollapseSpace with a good separator, with the invariants of the result -/
theorem collapseSpace_bridge_good_full (hV : VocabStable V = true) (hsp : [0x20] ∈ V)
    (hspTail : ∀ t ∈ V, (0x20 : Int) ∉ t.tail) (hS : GoodSep V S)
    (toks : List (List Int)) (ht : ∀ t ∈ toks, t ∈ V) :
    ∃ r, collapseSpace cxB toks S = .ok r ∧
      collapseSpace cxA toks.flatten S.flatten = .ok r.flatten ∧
      r = Spec.collapse ⟨cxB.isSpace, cxB.sp, cxB.hy⟩ (replaceAll' cxB toks S) ∧
      (∀ t ∈ r, t ∈ V) ∧ (∀ t ∈ r, SpOK t) := by
  rw [collapseSpace_sep cxA, collapseSpace_sep cxB toks, hS.replaceAll' toks ht]
  exact collapseSpace_bridge_full hV hsp hspTail _ (replaceAll'_over hsp toks ht _)

/-- CollapseSpace with a good separator: code points = flattening of cluster tokens -/
theorem collapseSpace_bridge_good (hV : VocabStable V = true) (hsp : [0x20] ∈ V)
    (hspTail : ∀ t ∈ V, (0x20 : Int) ∉ t.tail) (hS : GoodSep V S)
    (toks : List (List Int)) (ht : ∀ t ∈ toks, t ∈ V) :
    collapseSpace cxA toks.flatten S.flatten = (collapseSpace cxB toks S).map List.flatten := by
  rw [collapseSpace_sep cxA, collapseSpace_sep cxB toks, hS.replaceAll' toks ht]
  exact collapseSpace_bridge_map hV hsp hspTail _ (replaceAll'_over hsp toks ht _)

/-- … closed form -/
theorem collapseSpace_bridge_good_spec (hV : VocabStable V = true) (hsp : [0x20] ∈ V)
    (hspTail : ∀ t ∈ V, (0x20 : Int) ∉ t.tail) (hS : GoodSep V S)
    (toks : List (List Int)) (ht : ∀ t ∈ toks, t ∈ V) :
    collapseSpace cxA toks.flatten S.flatten =
      .ok (Spec.collapse ⟨cxB.isSpace, cxB.sp, cxB.hy⟩ (replaceAll' cxB toks S)).flatten := by
  rw [collapseSpace_bridge_good hV hsp hspTail hS toks ht,
    collapseSpace_triv_all cxB cxB_triv cxB_sp_space]
  rfl

/-- Wrap with a good separator -/
theorem wrapLines_bridge_good (hV : VocabStable V = true) (hsp : [0x20] ∈ V)
    (hspTail : ∀ t ∈ V, (0x20 : Int) ∉ t.tail) (hS : GoodSep V S)
    (toks : List (List Int)) (ht : ∀ t ∈ toks, t ∈ V) (w : Int) :
    wrapLines cxA toks.flatten w S.flatten =
      (wrapLines cxB toks w S).map (List.map List.flatten) := by
  rw [wrapLines_sep cxA, wrapLines_sep cxB toks, hS.replaceAll' toks ht]
  exact wrapLines_bridge_map hV hsp hspTail _ (replaceAll'_over hsp toks ht _) w

/-- … closed form -/
theorem wrapLines_bridge_good_spec (hV : VocabStable V = true) (hsp : [0x20] ∈ V)
    (hspTail : ∀ t ∈ V, (0x20 : Int) ∉ t.tail) (hS : GoodSep V S)
    (toks : List (List Int)) (ht : ∀ t ∈ toks, t ∈ V) (w : Int) :
    wrapLines cxA toks.flatten w S.flatten =
      .ok ((Spec.wrapLines ⟨cxB.isSpace, cxB.sp, cxB.hy⟩ (max w 2).toNat
        (replaceAll' cxB toks S)).map List.flatten) := by
  rw [wrapLines_bridge_good hV hsp hspTail hS toks ht, wrapLines_triv cxB cxB_triv cxB_sp_space]
  rfl

end vocab

/-! ### the requested statements: separator `[n]` -/

section vocab
variable {V : List (List Int)} {n : Int}

/-- **2a.** CollapseSpace with the separator `[n]`: code points = flattening of cluster tokens -/
theorem _root_.RosedVerif.collapseSpace_bridge_sep (hV : VocabStable V = true) (hsp : [0x20] ∈ V)
    (hspTail : ∀ t ∈ V, (0x20 : Int) ∉ t.tail) (hnOnly : ∀ t ∈ V, n ∈ t → t = [n])
    (toks : List (List Int)) (ht : ∀ t ∈ toks, t ∈ V) :
    collapseSpace cxA toks.flatten [n] = (collapseSpace cxB toks [[n]]).map List.flatten :=
  collapseSpace_bridge_good hV hsp hspTail (goodSep_rune hV hnOnly) toks ht

/-- 2a, closed form -/
theorem _root_.RosedVerif.collapseSpace_bridge_sep_spec (hV : VocabStable V = true)
    (hsp : [0x20] ∈ V) (hspTail : ∀ t ∈ V, (0x20 : Int) ∉ t.tail)
    (hnOnly : ∀ t ∈ V, n ∈ t → t = [n]) (toks : List (List Int)) (ht : ∀ t ∈ toks, t ∈ V) :
    collapseSpace cxA toks.flatten [n] =
      .ok (Spec.collapse ⟨cxB.isSpace, cxB.sp, cxB.hy⟩ (replaceAll' cxB toks [[n]])).flatten :=
  collapseSpace_bridge_good_spec hV hsp hspTail (goodSep_rune hV hnOnly) toks ht

/-- 2a, with the invariants of the result -/
theorem collapseSpace_bridge_sep_full (hV : VocabStable V = true) (hsp : [0x20] ∈ V)
    (hspTail : ∀ t ∈ V, (0x20 : Int) ∉ t.tail) (hnOnly : ∀ t ∈ V, n ∈ t → t = [n])
    (toks : List (List Int)) (ht : ∀ t ∈ toks, t ∈ V) :
    ∃ r, collapseSpace cxB toks [[n]] = .ok r ∧
      collapseSpace cxA toks.flatten [n] = .ok r.flatten ∧
      r = Spec.collapse ⟨cxB.isSpace, cxB.sp, cxB.hy⟩ (replaceAll' cxB toks [[n]]) ∧
      (∀ t ∈ r, t ∈ V) ∧ (∀ t ∈ r, SpOK t) :=
  collapseSpace_bridge_good_full hV hsp hspTail (goodSep_rune hV hnOnly) toks ht

/-- **2b.** Wrap with the separator `[n]` -/
theorem _root_.RosedVerif.wrapLines_bridge_sep (hV : VocabStable V = true) (hsp : [0x20] ∈ V)
    (hspTail : ∀ t ∈ V, (0x20 : Int) ∉ t.tail) (hnOnly : ∀ t ∈ V, n ∈ t → t = [n])
    (toks : List (List Int)) (ht : ∀ t ∈ toks, t ∈ V) (w : Int) :
    wrapLines cxA toks.flatten w [n] =
      (wrapLines cxB toks w [[n]]).map (List.map List.flatten) :=
  wrapLines_bridge_good hV hsp hspTail (goodSep_rune hV hnOnly) toks ht w

/-- 2b, closed form: Wrap on code points is the line-wise flattening of the greedy specification
run on the cluster tokens after the separator pre-pass -/
theorem _root_.RosedVerif.wrapLines_bridge_sep_spec (hV : VocabStable V = true)
    (hsp : [0x20] ∈ V) (hspTail : ∀ t ∈ V, (0x20 : Int) ∉ t.tail)
    (hnOnly : ∀ t ∈ V, n ∈ t → t = [n]) (toks : List (List Int)) (ht : ∀ t ∈ toks, t ∈ V)
    (w : Int) :
    wrapLines cxA toks.flatten w [n] =
      .ok ((Spec.wrapLines ⟨cxB.isSpace, cxB.sp, cxB.hy⟩ (max w 2).toNat
        (replaceAll' cxB toks [[n]])).map List.flatten) :=
  wrapLines_bridge_good_spec hV hsp hspTail (goodSep_rune hV hnOnly) toks ht w

end vocab

end BridgeOps

/-! ## 3. options and editors -/

/-- flatten every list field of the options (cluster tokens → code points) -/
def Options.flat (o : Options (List Int)) : Options Int where
  indentStr := o.indentStr.flatten
  lineSep := o.lineSep.flatten
  noTrailing := o.noTrailing
  paraSep := o.paraSep.flatten
  preservePara := o.preservePara
  justifyLast := o.justifyLast
  borders := o.borders
  headers := o.headers
  charset := o.charset.flatten

/-- flatten the text and the options of an editor (byte ranges of sub-editors are unchanged: the
byte length of a token is the sum of the byte lengths of its code points) -/
def Editor.flat : Editor (List Int) → Editor Int
  | .root t o => .root t.flatten o.flat
  | .sub t o p a b => .sub t.flatten o.flat p.flat a b

namespace BridgeOps
open BridgeWrap

@[simp] theorem flat_root (t : List (List Int)) (o : Options (List Int)) :
    (Editor.root t o).flat = .root t.flatten o.flat := rfl

theorem flat_withText (ed : Editor (List Int)) (t : List (List Int)) :
    (ed.withText t).flat = ed.flat.withText t.flatten := by
  cases ed <;> rfl

theorem flat_text (ed : Editor (List Int)) : ed.flat.text = ed.text.flatten := by
  cases ed <;> rfl

theorem flat_opts (ed : Editor (List Int)) : ed.flat.opts = ed.opts.flat := by
  cases ed <;> rfl

theorem flat_default : ({} : Options (List Int)).flat = {} := rfl

theorem dLineSep_B : cxB.dLineSep = [[0x0A]] := by decide +kernel
theorem dParaSep_B : cxB.dParaSep = [[0x0A], [0x0A]] := by decide +kernel
theorem dIndent_B : cxB.dIndent = [[0x09]] := by decide +kernel
theorem dCharset_B : cxB.dCharset = [[0x2B], [0x7C], [0x2D]] := by decide +kernel
theorem gLen_dCharset_A : gLen cxA cxA.dCharset = 3 := by decide +kernel
theorem gLen_dCharset_B : gLen cxB cxB.dCharset = 3 := by decide +kernel

theorem dLineSep_flat : cxB.dLineSep.flatten = cxA.dLineSep := clusters_flatten cxA_WF _
theorem dParaSep_flat : cxB.dParaSep.flatten = cxA.dParaSep := clusters_flatten cxA_WF _
theorem dIndent_flat : cxB.dIndent.flatten = cxA.dIndent := clusters_flatten cxA_WF _
theorem dCharset_flat : cxB.dCharset.flatten = cxA.dCharset := clusters_flatten cxA_WF _

theorem ite_flatten (l d : List (List Int)) (h : ∀ t ∈ l, t ≠ []) :
    (if l.isEmpty then d else l).flatten = if l.flatten.isEmpty then d.flatten else l.flatten := by
  rw [flatten_isEmpty l h]
  split <;> rfl

/-- the separator / indent part of the defaults commutes with flattening -/
theorem sepDefaults_flat (o : Options (List Int)) (hl : ∀ t ∈ o.lineSep, t ≠ [])
    (hi : ∀ t ∈ o.indentStr, t ≠ []) (hp : ∀ t ∈ o.paraSep, t ≠ []) :
    (o.sepDefaults cxB).flat = o.flat.sepDefaults cxA := by
  cases o with
  | mk i l nt p pp jl b h c =>
    simp only [Options.sepDefaults, Options.flat, ite_flatten _ _ hl, ite_flatten _ _ hi,
      ite_flatten _ _ hp, dLineSep_flat, dParaSep_flat, dIndent_flat]
    rfl

/-- **3.** `Options.WithDefaults` commutes with flattening -/
theorem withDefaults_flat {V : List (List Int)} (hV : VocabStable V = true)
    (o : Options (List Int)) (hl : ∀ t ∈ o.lineSep, t ≠ [])
    (hi : ∀ t ∈ o.indentStr, t ≠ []) (hp : ∀ t ∈ o.paraSep, t ≠ [])
    (hc : ∀ t ∈ o.charset, t ∈ V) :
    (o.withDefaults cxB).flat = o.flat.withDefaults cxA := by
  have hst := stableRunes_of_vocab V hV o.charset hc
  have hs := sepDefaults_flat o hl hi hp
  rw [withDefaults_eq, withDefaults_eq, gLen_dCharset_A, gLen_dCharset_B,
    gLen_triv cxB cxB_triv]
  have e1 : gLen cxA o.flat.charset = o.charset.length := gLen_flatten_stable _ hst
  rw [e1]
  split
  · split
    · rename_i hlt
      have hB := gSub_triv cxB cxB_triv cxB.dCharset o.charset.length 3 (by omega)
        (by rw [dCharset_B]; simp)
      have hA := gSub_eq_clusters cxA_WF cxA.dCharset o.charset.length 3 (by omega)
        (by rw [← gLen_eq_clusters_length, gLen_dCharset_A]; omega)
      have e : ((3 : Nat) : Int) - (((3 : Nat) : Int) - (o.charset.length : Int)) =
          (o.charset.length : Int) := by omega
      rw [e, hB, hA, ← hs]
      cases o with
      | mk i l nt p pp jl b h c =>
        simp only [Options.sepDefaults, Options.flat, List.flatten_append]
        rfl
    · rename_i hne hlt
      have hgt : 3 ≤ o.charset.length := by omega
      have hB := gSub_triv cxB cxB_triv o.charset 0 3 (by omega) hgt
      have hA := gSub_flatten_stable o.charset hst 0 3 (by omega) hgt
      have hB' : gSub cxB o.charset 0 ((3 : Nat) : Int) = _ := hB
      have hA' : gSub cxA o.flat.charset 0 ((3 : Nat) : Int) = _ := hA
      rw [hB', hA', ← hs]
      cases o with
      | mk i l nt p pp jl b h c => rfl
  · exact hs

/-- 3, with everything over the vocabulary -/
theorem withDefaults_flat_over {V : List (List Int)} (hV : VocabStable V = true)
    (o : Options (List Int)) (hl : ∀ t ∈ o.lineSep, t ∈ V) (hi : ∀ t ∈ o.indentStr, t ∈ V)
    (hp : ∀ t ∈ o.paraSep, t ∈ V) (hc : ∀ t ∈ o.charset, t ∈ V) :
    (o.withDefaults cxB).flat = o.flat.withDefaults cxA :=
  withDefaults_flat hV o (over_ne_nil hV hl) (over_ne_nil hV hi) (over_ne_nil hV hp) hc

/-- the non-emptiness of the separator tokens is needed: an (ill-formed) empty token makes the
token-level separator non-empty while its flattening is empty and gets replaced by the default -/
theorem withDefaults_flat_needs_ne :
    (({ lineSep := [[]] } : Options (List Int)).withDefaults cxB).flat ≠
      ({ lineSep := [[]] } : Options (List Int)).flat.withDefaults cxA := by
  decide +kernel

/-! ## 4. Editor level -/

/-- the defaulted line separator on the rune side is the flattening of the one on the token side
(only the line-separator tokens need to be non-empty; compare `withDefaults_flat`) -/
theorem lineSep_flat_gen (o' : Options (List Int))
    (hne : ∀ t ∈ (o'.withDefaults cxB).lineSep, t ≠ []) :
    (o'.flat.withDefaults cxA).lineSep = (o'.withDefaults cxB).lineSep.flatten := by
  rw [(withDefaults_fields cxB o').1] at hne ⊢
  rw [(withDefaults_fields cxA o'.flat).1]
  show (if o'.lineSep.flatten.isEmpty then cxA.dLineSep else o'.lineSep.flatten) = _
  by_cases he : o'.lineSep.isEmpty = true
  · have h0 : o'.lineSep = [] := List.isEmpty_iff.1 he
    rw [h0, ← dLineSep_flat]
    rfl
  · rw [if_neg he] at hne ⊢
    rw [BridgeWrap.flatten_isEmpty _ hne, if_neg he]

/-- the defaulted line separator on the rune side, when the token side is the single token `[n]` -/
theorem lineSep_flat {n : Int} (o' : Options (List Int))
    (hls : (o'.withDefaults cxB).lineSep = [[n]]) : (o'.flat.withDefaults cxA).lineSep = [n] := by
  rw [(withDefaults_fields cxB o').1] at hls
  rw [(withDefaults_fields cxA o'.flat).1]
  show (if o'.lineSep.flatten.isEmpty then cxA.dLineSep else o'.lineSep.flatten) = [n]
  split at hls
  · rename_i he
    rw [List.isEmpty_iff] at he
    rw [he, ← dLineSep_flat, hls]
    rfl
  · rw [hls]; rfl

theorem preservePara_flat (o' : Options (List Int)) :
    (o'.flat.withDefaults cxA).preservePara = (o'.withDefaults cxB).preservePara := by
  rw [withDefaults_preservePara, withDefaults_preservePara]; rfl

theorem join_flatten_gen (S : List (List Int)) (ls : List (List (List Int))) :
    (Block.mk (ls.map List.flatten) S.flatten false).join = (Block.mk ls S false).join.flatten := by
  unfold Block.join
  cases ls with
  | nil => rfl
  | cons l ls =>
    simp only [List.map_cons, List.isEmpty_cons, Bool.false_eq_true, ↓reduceIte, List.append_nil]
    exact joinWith_flatten S (l :: ls)

section vocab
variable {V : List (List Int)}

/-- `Editor.CollapseSpaceOpts` for a good line separator (any editor whose text is over `V`) -/
theorem collapseSpaceOpts_bridge_good (hV : VocabStable V = true) (hsp : [0x20] ∈ V)
    (hspTail : ∀ t ∈ V, (0x20 : Int) ∉ t.tail)
    (ed : Editor (List Int)) (ht : ∀ t ∈ ed.text, t ∈ V) (o' : Options (List Int))
    (hS : GoodSep V (o'.withDefaults cxB).lineSep) :
    Editor.collapseSpaceOpts cxA ed.flat o'.flat =
      (Editor.collapseSpaceOpts cxB ed o').map Editor.flat := by
  unfold Editor.collapseSpaceOpts
  simp only [lineSep_flat_gen o' hS.tok_ne, flat_text,
    collapseSpace_bridge_good hV hsp hspTail hS ed.text ht]
  cases collapseSpace cxB ed.text (o'.withDefaults cxB).lineSep with
  | error e => rfl
  | ok r => exact congrArg Except.ok (flat_withText ed r).symm

/-- `Editor.WrapOpts`, non-paragraph mode, for a good line separator (any editor whose text is
over `V`) -/
theorem wrapOpts_bridge_good (hV : VocabStable V = true) (hsp : [0x20] ∈ V)
    (hspTail : ∀ t ∈ V, (0x20 : Int) ∉ t.tail)
    (ed : Editor (List Int)) (ht : ∀ t ∈ ed.text, t ∈ V) (w : Int) (o' : Options (List Int))
    (hpp : o'.preservePara = false) (hS : GoodSep V (o'.withDefaults cxB).lineSep) :
    Editor.wrapOpts cxA ed.flat w o'.flat = (Editor.wrapOpts cxB ed w o').map Editor.flat := by
  have hppB : (o'.withDefaults cxB).preservePara = false := by
    rw [withDefaults_preservePara]; exact hpp
  have hppA : (o'.flat.withDefaults cxA).preservePara = false := by
    rw [preservePara_flat]; exact hppB
  unfold Editor.wrapOpts
  simp only [hppA, hppB, Bool.false_eq_true, ↓reduceIte, lineSep_flat_gen o' hS.tok_ne, flat_text,
    wrapLines_bridge_good hV hsp hspTail hS ed.text ht, bind, Except.bind,
    hS.suffix ed.text ht]
  cases wrapLines cxB ed.text (if w < 2 then 2 else w) (o'.withDefaults cxB).lineSep with
  | error e => rfl
  | ok r =>
    simp only [Except.map, pure, Except.pure, join_flatten_gen]
    rw [flat_withText]
    congr 2
    split
    · simp only [List.flatten_append]
    · rfl

variable {n : Int}

/-- **4a.** `Editor.CollapseSpaceOpts`, separator `[n]` (any editor whose text is over `V`) -/
theorem collapseSpaceOpts_bridge_gen (hV : VocabStable V = true) (hsp : [0x20] ∈ V)
    (hspTail : ∀ t ∈ V, (0x20 : Int) ∉ t.tail) (hnOnly : ∀ t ∈ V, n ∈ t → t = [n])
    (ed : Editor (List Int)) (ht : ∀ t ∈ ed.text, t ∈ V) (o' : Options (List Int))
    (hls : (o'.withDefaults cxB).lineSep = [[n]]) :
    Editor.collapseSpaceOpts cxA ed.flat o'.flat =
      (Editor.collapseSpaceOpts cxB ed o').map Editor.flat :=
  collapseSpaceOpts_bridge_good hV hsp hspTail ed ht o' (hls ▸ goodSep_rune hV hnOnly)

/-- **4a.** `Editor.CollapseSpaceOpts` on a root editor -/
theorem _root_.RosedVerif.collapseSpaceOpts_bridge (hV : VocabStable V = true) (hsp : [0x20] ∈ V)
    (hspTail : ∀ t ∈ V, (0x20 : Int) ∉ t.tail) (hnOnly : ∀ t ∈ V, n ∈ t → t = [n])
    (toks : List (List Int)) (ht : ∀ t ∈ toks, t ∈ V) (o o' : Options (List Int))
    (hls : (o'.withDefaults cxB).lineSep = [[n]]) :
    Editor.collapseSpaceOpts cxA (.root toks.flatten o.flat) o'.flat =
      (Editor.collapseSpaceOpts cxB (.root toks o) o').map Editor.flat :=
  collapseSpaceOpts_bridge_gen hV hsp hspTail hnOnly (.root toks o) ht o' hls

/-- **4b.** `Editor.WrapOpts`, non-paragraph mode, separator `[n]` (any editor whose text is over
`V`) -/
theorem wrapOpts_bridge_gen (hV : VocabStable V = true) (hsp : [0x20] ∈ V)
    (hspTail : ∀ t ∈ V, (0x20 : Int) ∉ t.tail) (hnOnly : ∀ t ∈ V, n ∈ t → t = [n])
    (ed : Editor (List Int)) (ht : ∀ t ∈ ed.text, t ∈ V) (w : Int) (o' : Options (List Int))
    (hpp : o'.preservePara = false) (hls : (o'.withDefaults cxB).lineSep = [[n]]) :
    Editor.wrapOpts cxA ed.flat w o'.flat = (Editor.wrapOpts cxB ed w o').map Editor.flat :=
  wrapOpts_bridge_good hV hsp hspTail ed ht w o' hpp (hls ▸ goodSep_rune hV hnOnly)

/-- **4b.** `Editor.WrapOpts` on a root editor, non-paragraph mode -/
theorem _root_.RosedVerif.wrapOpts_bridge (hV : VocabStable V = true) (hsp : [0x20] ∈ V)
    (hspTail : ∀ t ∈ V, (0x20 : Int) ∉ t.tail) (hnOnly : ∀ t ∈ V, n ∈ t → t = [n])
    (toks : List (List Int)) (ht : ∀ t ∈ toks, t ∈ V) (w : Int) (o o' : Options (List Int))
    (hpp : o'.preservePara = false) (hls : (o'.withDefaults cxB).lineSep = [[n]]) :
    Editor.wrapOpts cxA (.root toks.flatten o.flat) w o'.flat =
      (Editor.wrapOpts cxB (.root toks o) w o').map Editor.flat :=
  wrapOpts_bridge_gen hV hsp hspTail hnOnly (.root toks o) ht w o' hpp hls

end vocab

/-! ## 5. the default options -/

theorem default_lineSep_B : (({} : Options (List Int)).withDefaults cxB).lineSep = [[0x0A]] := by
  rw [(withDefaults_fields cxB _).1]
  exact dLineSep_B

theorem join_mk_false {α : Type} (ls : List (List α)) (sep : List α) :
    (Block.mk ls sep false).join = joinWith sep ls := by
  unfold Block.join
  cases ls with
  | nil => rfl
  | cons l ls => simp

theorem clamp_max (w : Int) : max (if w < 2 then 2 else w) 2 = max w 2 := by
  split <;> omega

/-- `Editor.WrapOpts` on cluster tokens, non-paragraph mode, in closed form -/
theorem wrapOpts_B_closed (ed : Editor (List Int)) (w : Int) (o' : Options (List Int))
    (hpp : o'.preservePara = false) :
    Editor.wrapOpts cxB ed w o' =
      .ok (ed.withText
        (joinWith (o'.withDefaults cxB).lineSep
            (Spec.wrapLines ⟨cxB.isSpace, cxB.sp, cxB.hy⟩ (max w 2).toNat
              (replaceAll' cxB ed.text (o'.withDefaults cxB).lineSep)) ++
          (if @List.isSuffixOf (List Int) instBEqOfDecidableEq (o'.withDefaults cxB).lineSep ed.text
            then (o'.withDefaults cxB).lineSep else []))) := by
  have hppB : (o'.withDefaults cxB).preservePara = false := by
    rw [withDefaults_preservePara]; exact hpp
  unfold Editor.wrapOpts
  simp only [hppB, Bool.false_eq_true, ↓reduceIte, wrapLines_triv cxB cxB_triv cxB_sp_space,
    bind, Except.bind, join_mk_false, clamp_max, pure, Except.pure]
  congr 2
  split
  · rfl
  · simp

/-! ### when does the specification have at least one line? -/

section specne
variable {α : Type} (tk : Spec.Toks α)
open Spec

theorem fill_ne_nil_of_cur (w : Nat) : ∀ (us : List (List α)) (cur : List α), cur ≠ [] →
    fill tk w us cur ≠ []
  | [], cur, hc => by
    have he : cur.isEmpty = false := by simpa [List.isEmpty_iff] using hc
    simp [fill, he]
  | u :: us, cur, hc => by
    have he : cur.isEmpty = false := by simpa [List.isEmpty_iff] using hc
    rw [fill, if_neg (by simp [he])]
    split
    · exact fill_ne_nil_of_cur w us _ (by simp)
    · simp

/-- a text that is empty or has a non-whitespace token wraps to at least one line -/
theorem spec_wrapLines_ne_nil {w : Nat} (hw : 2 ≤ w) (l : List α)
    (h : l = [] ∨ ∃ c ∈ l, tk.ws c = false) : Spec.wrapLines tk w l ≠ [] := by
  rcases h with rfl | ⟨c, hc, hws⟩
  · simp [Spec.wrapLines]
  · have hl : l ≠ [] := by intro e; rw [e] at hc; cases hc
    rw [wrapLines_eq_fill_units tk w l hl]
    have hmem : c ∈ (words tk l).flatten := by
      rw [words_flatten]
      exact List.mem_filter.2 ⟨hc, by simp [hws]⟩
    obtain ⟨wd, hwd, _⟩ := List.mem_flatten.1 hmem
    have hu : units tk w l ≠ [] := by
      intro e
      have hp := pieces_ne_nil tk w wd.length wd
      cases hpw : pieces tk w wd.length wd with
      | nil => exact hp hpw
      | cons p ps =>
        have : p ∈ units tk w l :=
          List.mem_flatMap.2 ⟨wd, hwd, by rw [hpw]; exact List.mem_cons_self⟩
        rw [e] at this; cases this
    cases hU : units tk w l with
    | nil => exact absurd hU hu
    | cons u us =>
      have hune : u ≠ [] := units_nonempty tk hw l u (by rw [hU]; exact List.mem_cons_self)
      rw [WrapRefine.fill_nil_cons]
      exact fill_ne_nil_of_cur tk w us u hune

end specne

section vocab
variable {V : List (List Int)}

/-- **5.** `Editor.WrapOpts` with all options unset (line separator U+000A), on code points: it
succeeds and the new text is the flattening of the specification's lines joined by the line-feed
token, plus a trailing line feed when the text ended with one. -/
theorem _root_.RosedVerif.wrapOpts_default_bridge (hV : VocabStable V = true) (hsp : [0x20] ∈ V)
    (hspTail : ∀ t ∈ V, (0x20 : Int) ∉ t.tail) (hnl : ∀ t ∈ V, (0x0A : Int) ∈ t → t = [0x0A])
    (toks : List (List Int)) (ht : ∀ t ∈ toks, t ∈ V) (w : Int) :
    ∃ e, Editor.wrapOpts cxA (.root toks.flatten {}) w {} = .ok e ∧
      e.opts = {} ∧
      e.text =
        (joinWith [[0x0A]]
            (Spec.wrapLines ⟨cxB.isSpace, cxB.sp, cxB.hy⟩ (max w 2).toNat
              (replaceAll' cxB toks [[0x0A]])) ++
          (if ([[0x0A]] : List (List Int)).isSuffixOf toks then [[0x0A]] else [])).flatten := by
  have h := wrapOpts_bridge hV hsp hspTail hnl toks ht w {} {} rfl default_lineSep_B
  rw [flat_default, wrapOpts_B_closed _ _ _ rfl, default_lineSep_B] at h
  refine ⟨_, h, rfl, ?_⟩
  rw [← isSuffixOf_inst]
  rfl

theorem wrapLines_spec_over (hsp : [0x20] ∈ V) (hhy : [0x2D] ∈ V) (W : Nat)
    (l : List (List Int)) (hl : ∀ t ∈ l, t ∈ V) :
    ∀ line ∈ Spec.wrapLines ⟨cxB.isSpace, cxB.sp, cxB.hy⟩ W l, ∀ c ∈ line, c ∈ V := by
  intro line hline c hc
  rcases wrapLines_mem_tokens _ _ l line hline c hc with h | h | h
  · exact hl c h
  · rw [h]; exact hsp
  · rw [h]; exact hhy

/-- **5'.** The lines of the result: splitting the new text at U+000A and segmenting every piece
(real UAX #29 segmentation) gives back exactly the specification's lines, plus the trailing empty
line when the text ended with the separator — PROVIDED the specification has at least one line
(i.e. the text is empty or contains a non-whitespace cluster; see
`wrapOpts_default_lines_needs_ne`). -/
theorem _root_.RosedVerif.wrapOpts_default_bridge_lines (hV : VocabStable V = true)
    (hsp : [0x20] ∈ V) (hhy : [0x2D] ∈ V)
    (hspTail : ∀ t ∈ V, (0x20 : Int) ∉ t.tail) (hnl : ∀ t ∈ V, (0x0A : Int) ∈ t → t = [0x0A])
    (toks : List (List Int)) (ht : ∀ t ∈ toks, t ∈ V) (w : Int)
    (hne : Spec.wrapLines ⟨cxB.isSpace, cxB.sp, cxB.hy⟩ (max w 2).toNat
      (replaceAll' cxB toks [[0x0A]]) ≠ []) :
    ∃ e, Editor.wrapOpts cxA (.root toks.flatten {}) w {} = .ok e ∧
      (splitOn e.text [0x0A]).map (clusters cxA) =
        Spec.wrapLines ⟨cxB.isSpace, cxB.sp, cxB.hy⟩ (max w 2).toNat
            (replaceAll' cxB toks [[0x0A]]) ++
          (if ([[0x0A]] : List (List Int)).isSuffixOf toks then [[]] else []) := by
  obtain ⟨e, he, -, htext⟩ := wrapOpts_default_bridge hV hsp hspTail hnl toks ht w
  refine ⟨e, he, ?_⟩
  generalize hL : Spec.wrapLines ⟨cxB.isSpace, cxB.sp, cxB.hy⟩ (max w 2).toNat
      (replaceAll' cxB toks [[0x0A]]) = L at hne htext ⊢
  have hover : ∀ line ∈ L, ∀ c ∈ line, c ∈ V := by
    rw [← hL]
    exact wrapLines_spec_over hsp hhy _ _ (replaceAll'_over hsp toks ht _)
  have hno : ∀ line ∈ L, ([0x0A] : List Int) ∉ line := by
    intro line hline hm
    rw [← hL] at hline
    rcases wrapLines_mem_tokens _ _ _ line hline _ hm with h | h | h
    · exact replaceAll_single_not_mem toks [0x0A] [[0x20]] (by decide) h
    · revert h; decide
    · revert h; decide
  generalize hX : (if ([[0x0A]] : List (List Int)).isSuffixOf toks then
      ([[]] : List (List (List Int))) else []) = X
  have hXo : ∀ line ∈ L ++ X, (∀ c ∈ line, c ∈ V) ∧ ([0x0A] : List Int) ∉ line := by
    intro line h
    rcases List.mem_append.1 h with h | h
    · exact ⟨hover line h, hno line h⟩
    · rw [← hX] at h
      split at h
      · rw [List.mem_singleton] at h; subst h; exact ⟨fun c hc => (by cases hc), List.not_mem_nil⟩
      · cases h
  have hT : joinWith [[0x0A]] L ++
      (if ([[0x0A]] : List (List Int)).isSuffixOf toks then [[0x0A]] else []) =
      joinWith [[0x0A]] (L ++ X) := by
    rw [← hX]
    split
    · rw [joinWith_append_nil _ L hne]
    · simp
  rw [htext, hT, splitOn_bridge_tokOK 0x0A []]
  · rw [splitOn_joinWith_single _ _ (by simp [hne]) (fun l hl => (hXo l hl).2), List.map_map]
    conv => rhs; rw [← List.map_id (L ++ X)]
    apply List.map_congr_left
    intro line hl
    exact clusters_flatten_stable line (stableRunes_of_vocab V hV line (hXo line hl).1)
  · intro t h
    rcases joinWith_mem _ _ t h with h | ⟨l, hl, h⟩
    · rw [List.mem_singleton] at h; exact Or.inl h
    · exact sepTokOK_of_only hnl (hXo l hl).1 t h

/-- 5' with a hypothesis on the text itself: it is empty or contains a non-whitespace cluster -/
theorem _root_.RosedVerif.wrapOpts_default_bridge_lines' (hV : VocabStable V = true)
    (hsp : [0x20] ∈ V) (hhy : [0x2D] ∈ V)
    (hspTail : ∀ t ∈ V, (0x20 : Int) ∉ t.tail) (hnl : ∀ t ∈ V, (0x0A : Int) ∈ t → t = [0x0A])
    (toks : List (List Int)) (ht : ∀ t ∈ toks, t ∈ V) (w : Int)
    (hne : toks = [] ∨ ∃ t ∈ toks, cxB.isSpace t = false) :
    ∃ e, Editor.wrapOpts cxA (.root toks.flatten {}) w {} = .ok e ∧
      (splitOn e.text [0x0A]).map (clusters cxA) =
        Spec.wrapLines ⟨cxB.isSpace, cxB.sp, cxB.hy⟩ (max w 2).toNat
            (replaceAll' cxB toks [[0x0A]]) ++
          (if ([[0x0A]] : List (List Int)).isSuffixOf toks then [[]] else []) := by
  refine wrapOpts_default_bridge_lines hV hsp hhy hspTail hnl toks ht w ?_
  refine spec_wrapLines_ne_nil _ (by omega) _ ?_
  rcases hne with rfl | ⟨t, htm, hws⟩
  · exact Or.inl rfl
  · refine Or.inr ⟨t, ?_, hws⟩
    refine mem_replaceAll_single toks [0x0A] [[0x20]] t htm ?_
    intro e
    rw [e] at hws
    revert hws
    decide

end vocab

/-! ## 6. a concrete instance, and necessity of the hypotheses -/

/-- `demoVocab2` plus the line feed -/
def demoVocab3 : List (List Int) := demoVocab2 ++ [[0x0A]]

theorem demoVocab3_stable : VocabStable demoVocab3 = true := by decide +kernel

theorem demoVocab3_sp : [0x20] ∈ demoVocab3 := by decide
theorem demoVocab3_hy : [0x2D] ∈ demoVocab3 := by decide
theorem demoVocab3_nl : [0x0A] ∈ demoVocab3 := by decide

theorem demoVocab3_spTail : ∀ t ∈ demoVocab3, (0x20 : Int) ∉ t.tail :=
  spTail_of_spOnly (by decide)

theorem demoVocab3_nlOnly : ∀ t ∈ demoVocab3, (0x0A : Int) ∈ t → t = [0x0A] := by decide

/-- all hypotheses of the Editor-level bridge hold for the vocabulary `demoVocab3` and the
separator U+000A: for every text over the vocabulary, every width, every editor options `o` and
every call options `o'` that leave the line separator unset (or set it to "\n") and do not ask
for paragraph mode, `WrapOpts` / `CollapseSpaceOpts` on code points are the flattening of the
same operations on cluster tokens -/
example (toks : List (List Int)) (ht : ∀ t ∈ toks, t ∈ demoVocab3) (w : Int)
    (o o' : Options (List Int)) (hpp : o'.preservePara = false)
    (hls : o'.lineSep = [] ∨ o'.lineSep = [[0x0A]]) :
    Editor.wrapOpts cxA (.root toks.flatten o.flat) w o'.flat =
        (Editor.wrapOpts cxB (.root toks o) w o').map Editor.flat ∧
    Editor.collapseSpaceOpts cxA (.root toks.flatten o.flat) o'.flat =
        (Editor.collapseSpaceOpts cxB (.root toks o) o').map Editor.flat := by
  have h : (o'.withDefaults cxB).lineSep = [[0x0A]] := by
    rw [(withDefaults_fields cxB o').1]
    rcases hls with h | h <;> rw [h]
    · exact dLineSep_B
    · rfl
  exact ⟨wrapOpts_bridge demoVocab3_stable demoVocab3_sp demoVocab3_spTail demoVocab3_nlOnly
      toks ht w o o' hpp h,
    collapseSpaceOpts_bridge demoVocab3_stable demoVocab3_sp demoVocab3_spTail demoVocab3_nlOnly
      toks ht o o' h⟩

/-- the string helpers on the same vocabulary -/
example (toks : List (List Int)) (ht : ∀ t ∈ toks, t ∈ demoVocab3) :
    splitOn toks.flatten [0x0A] = (splitOn toks [[0x0A]]).map List.flatten ∧
    replaceAll toks.flatten [0x0A] [0x20] = (replaceAll toks [[0x0A]] [[0x20]]).flatten ∧
    (∀ t ∈ replaceAll toks [[0x0A]] [[0x20]], t ∈ demoVocab3) ∧
    ([0x0A] : List Int).isSuffixOf toks.flatten = ([[0x0A]] : List (List Int)).isSuffixOf toks :=
  ⟨splitOn_bridge demoVocab3_nlOnly toks ht, replaceAll_bridge demoVocab3_nlOnly toks ht,
    replaceAll_over demoVocab3_sp toks ht _,
    isSuffixOf_bridge' demoVocab3_stable demoVocab3_nlOnly toks ht⟩

/-- "a é<TAB>\n🇩🇪🇩🇪b ab\n" with the default options, any width: `WrapOpts` on code points
succeeds and its lines, re-segmented, are the lines of the greedy specification on clusters plus
the trailing empty line -/
example (w : Int) :
    ∃ e, Editor.wrapOpts cxA (.root ([[0x61], [0x20], [0x65, 0x301], [0x9], [0x0A],
        [0x1F1E9, 0x1F1EA], [0x1F1E9, 0x1F1EA], [0x62], [0x20], [0x61], [0x62], [0x0A]] :
          List (List Int)).flatten {}) w {} = .ok e ∧
      (splitOn e.text [0x0A]).map (clusters cxA) =
        Spec.wrapLines ⟨cxB.isSpace, cxB.sp, cxB.hy⟩ (max w 2).toNat
          [[0x61], [0x20], [0x65, 0x301], [0x9], [0x20],
            [0x1F1E9, 0x1F1EA], [0x1F1E9, 0x1F1EA], [0x62], [0x20], [0x61], [0x62], [0x20]] ++
          [[]] := by
  have h := wrapOpts_default_bridge_lines' demoVocab3_stable demoVocab3_sp demoVocab3_hy
    demoVocab3_spTail demoVocab3_nlOnly
    [[0x61], [0x20], [0x65, 0x301], [0x9], [0x0A], [0x1F1E9, 0x1F1EA], [0x1F1E9, 0x1F1EA],
      [0x62], [0x20], [0x61], [0x62], [0x0A]] (by decide) w
    (Or.inr ⟨[0x61], by decide, by decide⟩)
  have e1 : replaceAll' cxB ([[0x61], [0x20], [0x65, 0x301], [0x9], [0x0A], [0x1F1E9, 0x1F1EA],
      [0x1F1E9, 0x1F1EA], [0x62], [0x20], [0x61], [0x62], [0x0A]] : List (List Int)) [[0x0A]] =
      [[0x61], [0x20], [0x65, 0x301], [0x9], [0x20],
        [0x1F1E9, 0x1F1EA], [0x1F1E9, 0x1F1EA], [0x62], [0x20], [0x61], [0x62], [0x20]] := by
    decide +kernel
  have e2 : ([[0x0A]] : List (List Int)).isSuffixOf ([[0x61], [0x20], [0x65, 0x301], [0x9],
      [0x0A], [0x1F1E9, 0x1F1EA], [0x1F1E9, 0x1F1EA], [0x62], [0x20], [0x61], [0x62], [0x0A]] :
      List (List Int)) = true := by decide +kernel
  rw [e1, e2, if_pos rfl] at h
  exact h

/-- the side condition of 5' is needed: for the text "\n" (whitespace only, ending with the
separator) the specification has NO line, the new text is "\n" again, and splitting it gives two
empty lines, not one -/
theorem wrapOpts_default_lines_needs_ne (w : Int) :
    ∃ e, Editor.wrapOpts cxA (.root ([[0x0A]] : List (List Int)).flatten {}) w {} = .ok e ∧
      e.text = [0x0A] ∧
      (splitOn e.text [0x0A]).map (clusters cxA) = [[], []] ∧
      Spec.wrapLines ⟨cxB.isSpace, cxB.sp, cxB.hy⟩ (max w 2).toNat
          (replaceAll' cxB [[0x0A]] [[0x0A]]) ++
        (if ([[0x0A]] : List (List Int)).isSuffixOf [[0x0A]] then [[]] else []) = [[]] := by
  obtain ⟨e, he, -, htext⟩ := wrapOpts_default_bridge demoVocab3_stable demoVocab3_sp
    demoVocab3_spTail demoVocab3_nlOnly [[0x0A]] (by decide) w
  have e1 : replaceAll' cxB ([[0x0A]] : List (List Int)) [[0x0A]] = [[0x20]] := by decide +kernel
  have e2 : Spec.wrapLines ⟨cxB.isSpace, cxB.sp, cxB.hy⟩ (max w 2).toNat [[0x20]] = [] := by
    simp [Spec.wrapLines, Spec.words, Spec.wordsAux, Spec.fill, cxB, isSpaceRune_sp]
  rw [e1, e2] at htext
  have e3 : e.text = [0x0A] := by rw [htext]; decide +kernel
  refine ⟨e, he, e3, ?_, ?_⟩
  · rw [e3]; decide +kernel
  · rw [e1, e2]; decide +kernel

/-- the hypothesis `hnOnly` is needed for the string helpers: CR LF is a single cluster, the
vocabulary below is stable, but splitting the code points at U+000A cuts that cluster in two -/
theorem nlOnly_needed_split :
    VocabStable [[0x61], [0x20], [0x0A], [0x0D, 0x0A]] = true ∧
    splitOn ([[0x61], [0x0D, 0x0A], [0x61]] : List (List Int)).flatten [0x0A] ≠
      (splitOn ([[0x61], [0x0D, 0x0A], [0x61]] : List (List Int)) [[0x0A]]).map List.flatten := by
  decide +kernel

/-- the hypothesis `hnOnly` is needed for CollapseSpace: with the combining acute accent U+0301 as
"separator", the code-point level turns the accent inside the cluster `e + U+0301` into a space,
the token level leaves the cluster alone -/
theorem sepOnly_needed :
    VocabStable [[0x61], [0x20], [0x65, 0x301]] = true ∧
    collapseSpace cxA ([[0x65, 0x301]] : List (List Int)).flatten [0x301] = .ok [0x65, 0x20] ∧
    collapseSpace cxB [[0x65, 0x301]] [[0x301]] = .ok [[0x65, 0x301]] :=
  ⟨by decide +kernel, of_okEq (by decide +kernel), of_okEq (by decide +kernel)⟩

/-! ### other separators: CR LF (one cluster of two code points), "\n\n" (two tokens) -/

/-- `demoVocab2` plus the CR LF cluster -/
def demoVocabCRLF : List (List Int) := demoVocab2 ++ [[0x0D, 0x0A]]

theorem demoVocabCRLF_stable : VocabStable demoVocabCRLF = true := by decide +kernel

theorem demoVocabCRLF_good : GoodSep demoVocabCRLF [[0x0D, 0x0A]] :=
  goodSep_tok demoVocabCRLF_stable 0x0D [0x0A] (by decide) (by decide)

/-- `WrapOpts` / `CollapseSpaceOpts` with the Windows line separator "\r\n" -/
example (toks : List (List Int)) (ht : ∀ t ∈ toks, t ∈ demoVocabCRLF) (w : Int)
    (o o' : Options (List Int)) (hpp : o'.preservePara = false)
    (hls : o'.lineSep = [[0x0D, 0x0A]]) :
    Editor.wrapOpts cxA (.root toks.flatten o.flat) w o'.flat =
        (Editor.wrapOpts cxB (.root toks o) w o').map Editor.flat ∧
    Editor.collapseSpaceOpts cxA (.root toks.flatten o.flat) o'.flat =
        (Editor.collapseSpaceOpts cxB (.root toks o) o').map Editor.flat ∧
    o'.flat.lineSep = [0x0D, 0x0A] := by
  have h : GoodSep demoVocabCRLF (o'.withDefaults cxB).lineSep := by
    rw [(withDefaults_fields cxB o').1, hls, if_neg (by decide)]
    exact demoVocabCRLF_good
  refine ⟨wrapOpts_bridge_good demoVocabCRLF_stable (by decide)
      (spTail_of_spOnly (by decide)) (.root toks o) ht w o' hpp h,
    collapseSpaceOpts_bridge_good demoVocabCRLF_stable (by decide)
      (spTail_of_spOnly (by decide)) (.root toks o) ht o' h, ?_⟩
  show o'.lineSep.flatten = _
  rw [hls]; rfl

theorem demoVocab3_marker_nl : Marker demoVocab3 [0x0A] :=
  ⟨0x0A, [], rfl, List.not_mem_nil, demoVocab3_nlOnly⟩

/-- a two-token separator: "\n\n" -/
theorem demoVocab3_good_nlnl : GoodSep demoVocab3 [[0x0A], [0x0A]] :=
  goodSep_markers demoVocab3_stable _ (by simp) (by
    intro s hs
    simp only [List.mem_cons, List.not_mem_nil, or_false, or_self] at hs
    rw [hs]; exact demoVocab3_marker_nl)

example (toks : List (List Int)) (ht : ∀ t ∈ toks, t ∈ demoVocab3) (w : Int) :
    wrapLines cxA toks.flatten w [0x0A, 0x0A] =
      .ok ((Spec.wrapLines ⟨cxB.isSpace, cxB.sp, cxB.hy⟩ (max w 2).toNat
        (replaceAll' cxB toks [[0x0A], [0x0A]])).map List.flatten) :=
  wrapLines_bridge_good_spec demoVocab3_stable demoVocab3_sp demoVocab3_spTail
    demoVocab3_good_nlnl toks ht w

end BridgeOps
end RosedVerif
