/-
C17, receiver side: the Options stored on the RECEIVER of an `XOpts` operation play no role.
`(ed.withOpts o').XOpts args o` is `ed.XOpts args o` with the stored Options replaced by `o'`;
hence `WithOptions(o).X(args)` (= `(ed.withOpts o).XOpts args o`) and `XOpts(args, o)` return the
same text and differ only in the Options stored on the result (`o` vs. the receiver's).
-/
import RosedVerif.Model.OptionsLemmas
import RosedVerif.Model.LinesLemmas
namespace RosedVerif

namespace ReceiverOptions
section
variable {α : Type}

theorem map_eq {ε β γ : Type} (f : β → γ) (x : Except ε β) : x.map f = f <$> x := rfl

theorem withText_withOpts (ed : Editor α) (o : Options α) (t : List α) :
    (ed.withOpts o).withText t = (ed.withText t).withOpts o := by
  cases ed <;> rfl

theorem withOpts_withOpts (ed : Editor α) (o o' : Options α) :
    (ed.withOpts o).withOpts o' = ed.withOpts o' := by
  cases ed <;> rfl

theorem withOpts_self (ed : Editor α) : ed.withOpts ed.opts = ed := by
  cases ed <;> rfl

theorem map_text_of_eq {x y : R (Editor α)} {o : Options α}
    (h : x = y.map (fun r => r.withOpts o)) : x.map Editor.text = y.map Editor.text := by
  subst h
  cases y <;> simp only [Except.map, Editor.withOpts_text]

variable (cx : Ctx α)

/-- a sub-editor cut from the receiver: same text, whatever the receiver's options -/
theorem subEd_withOpts_bind {β : Type} (ed : Editor α) (o' : Options α) (a b : Int)
    (g : List α → R β) :
    ((ed.withOpts o').subEd cx a b >>= fun x => g x.text) =
      (ed.subEd cx a b >>= fun x => g x.text) := by
  unfold Editor.subEd
  simp only [Editor.withOpts_text, bind_assoc, pure_bind]
  rfl

theorem ite_bind_congr {β γ : Type} {c : Prop} [Decidable c] {x x' y y' : R β} {f : β → R γ}
    (h1 : x >>= f = x' >>= f) (h2 : y >>= f = y' >>= f) :
    (if c then x else y) >>= f = (if c then x' else y') >>= f := by
  split <;> assumption

/-- `Chars`: same text, whatever the receiver's options -/
theorem chars_withOpts_bind {β : Type} (ed : Editor α) (o' : Options α) (s e : Int)
    (g : List α → R β) :
    ((ed.withOpts o').chars cx s e >>= fun x => g x.text) =
      (ed.chars cx s e >>= fun x => g x.text) := by
  unfold Editor.chars
  simp only [Editor.withOpts_text]
  exact ite_bind_congr (subEd_withOpts_bind cx ed o' _ _ g) (subEd_withOpts_bind cx ed o' _ _ g)

theorem insert_eq (ed : Editor α) (pos : Int) (t : List α) :
    ed.insert cx pos t =
      (ed.chars cx 0 pos >>= fun x =>
        (fun before => ed.chars cx pos (byteLen cx ed.text) >>= fun y =>
          (fun after => (pure (ed.withText (before ++ t ++ after)) : R (Editor α))) y.text) x.text) :=
  rfl

/-- `Insert` (not an `XOpts` operation itself, but the tail of the three table operations) -/
theorem insert_withOpts (ed : Editor α) (o' : Options α) (pos : Int) (t : List α) :
    (ed.withOpts o').insert cx pos t = (fun r => r.withOpts o') <$> ed.insert cx pos t := by
  rw [insert_eq, insert_eq]
  refine (chars_withOpts_bind cx ed o' 0 pos (fun before =>
    (ed.withOpts o').chars cx pos (byteLen cx (ed.withOpts o').text) >>= fun y =>
      (fun after => (pure ((ed.withOpts o').withText (before ++ t ++ after)) : R (Editor α)))
        y.text)).trans ?_
  simp only [map_bind, Editor.withOpts_text]
  congr 1
  funext x
  rw [chars_withOpts_bind cx ed o' pos (byteLen cx ed.text)
    (fun after => (pure ((ed.withOpts o').withText (x.text ++ t ++ after)) : R (Editor α)))]
  simp only [map_pure, withText_withOpts]

end
end ReceiverOptions

open ReceiverOptions

section
variable {α : Type} [DecidableEq α] (cx : Ctx α)

/-! ## The receiver's Options only end up on the result -/

theorem applyOptsM_withOpts (ed : Editor α) (o' : Options α)
    (op : Nat → List α → R (List (List α))) (o : Options α) :
    (ed.withOpts o').applyOptsM cx op o =
      (ed.applyOptsM cx op o).map (fun r => r.withOpts o') := by
  rw [map_eq]
  unfold Editor.applyOptsM
  simp only [withOpts_withOpts, Editor.withOpts_text, map_bind, map_pure, withText_withOpts]

theorem applyOpts_withOpts (ed : Editor α) (o' : Options α)
    (op : Nat → List α → List (List α)) (o : Options α) :
    (ed.withOpts o').applyOpts cx op o =
      (ed.applyOpts cx op o).map (fun r => r.withOpts o') :=
  applyOptsM_withOpts cx ed o' _ o

theorem applyParasM_withOpts (ed : Editor α) (o' : Options α)
    (op : Nat → List α → List α → List α → R (List (List α))) (o : Options α) :
    (ed.withOpts o').applyParasM cx op o =
      (ed.applyParasM cx op o).map (fun r => r.withOpts o') := by
  rw [map_eq]
  unfold Editor.applyParasM
  simp only [Editor.withOpts_text]
  split
  · simp only [map_pure, withText_withOpts]
  · simp only [map_bind, map_pure, withText_withOpts]

theorem alignOpts_withOpts (ed : Editor α) (o' : Options α) (align width : Int) (o : Options α) :
    (ed.withOpts o').alignOpts cx align width o =
      (ed.alignOpts cx align width o).map (fun r => r.withOpts o') := by
  unfold Editor.alignOpts
  split
  · rfl
  · dsimp only
    split
    · exact applyParasM_withOpts cx ed o' _ _
    · exact applyOpts_withOpts cx ed o' _ _

theorem collapseSpaceOpts_withOpts (ed : Editor α) (o' : Options α) (o : Options α) :
    (ed.withOpts o').collapseSpaceOpts cx o =
      (ed.collapseSpaceOpts cx o).map (fun r => r.withOpts o') := by
  rw [map_eq]
  unfold Editor.collapseSpaceOpts
  simp only [Editor.withOpts_text, map_bind, map_pure, withText_withOpts]

theorem indentOpts_withOpts (ed : Editor α) (o' : Options α) (level : Int) (o : Options α) :
    (ed.withOpts o').indentOpts cx level o =
      (ed.indentOpts cx level o).map (fun r => r.withOpts o') := by
  unfold Editor.indentOpts
  split
  · rfl
  · rw [map_eq]
    simp only [map_bind]
    congr 1
    funext indent
    split
    · exact applyParasM_withOpts cx ed o' _ _
    · exact applyOpts_withOpts cx ed o' _ _

theorem wrapOpts_withOpts (ed : Editor α) (o' : Options α) (width : Int) (o : Options α) :
    (ed.withOpts o').wrapOpts cx width o =
      (ed.wrapOpts cx width o).map (fun r => r.withOpts o') := by
  unfold Editor.wrapOpts
  dsimp only
  split
  · exact applyParasM_withOpts cx ed o' _ _
  · rw [map_eq]
    simp only [Editor.withOpts_text, map_bind, map_pure, withText_withOpts]

theorem justifyOpts_withOpts (ed : Editor α) (o' : Options α) (width : Int) (o : Options α) :
    (ed.withOpts o').justifyOpts cx width o =
      (ed.justifyOpts cx width o).map (fun r => r.withOpts o') := by
  unfold Editor.justifyOpts
  dsimp only
  split
  · exact applyParasM_withOpts cx ed o' _ _
  · rw [map_eq]
    by_cases hj : (!(o.withDefaults cx).justifyLast) = true
    · -- the receiver's options are overwritten before the lines are selected, and restored
      -- (`originalOpts`) after the commit
      simp only [hj, if_true, withOpts_withOpts, Editor.withOpts_opts, map_bind, map_pure]
    · simp only [hj, if_false, Bool.false_eq_true, pure_bind, map_bind, map_pure]
      have h := applyOptsM_withOpts cx ed o'
        (fun _ line => do pure [← justifyLine cx line width]) (o.withDefaults cx)
      rw [map_eq] at h
      rw [h]
      simp only [bind_map_left, bind_pure_comp]

theorem insertDefTableOpts_withOpts (ed : Editor α) (o' : Options α) (pos : Int)
    (defs : List (List α × List α)) (width : Int) (o : Options α) :
    (ed.withOpts o').insertDefTableOpts cx pos defs width o =
      (ed.insertDefTableOpts cx pos defs width o).map (fun r => r.withOpts o') := by
  rw [map_eq]
  simp only [Editor.insertDefTableOpts_eq_core]
  unfold Editor.insertDefTableOptsCore
  dsimp only
  simp only [map_bind]
  congr 1
  funext full
  split
  · exact insert_withOpts cx ed o' _ _
  · rfl

omit [DecidableEq α] in
theorem insertTableOpts_withOpts (ed : Editor α) (o' : Options α) (pos : Int)
    (data : List (List (List α))) (width : Int) (o : Options α) :
    (ed.withOpts o').insertTableOpts cx pos data width o =
      (ed.insertTableOpts cx pos data width o).map (fun r => r.withOpts o') := by
  rw [map_eq]
  unfold Editor.insertTableOpts
  exact insert_withOpts cx ed o' _ _

theorem insertTwoColumnsOpts_withOpts (ed : Editor α) (o' : Options α) (pos : Int)
    (leftText rightText : List α) (minSpaceBetween width : Int) (pct : Pct) (o : Options α) :
    (ed.withOpts o').insertTwoColumnsOpts cx pos leftText rightText minSpaceBetween width pct o =
      (ed.insertTwoColumnsOpts cx pos leftText rightText minSpaceBetween width pct o).map
        (fun r => r.withOpts o') := by
  rw [map_eq]
  unfold Editor.insertTwoColumnsOpts
  split
  · rfl
  · dsimp only
    rw [apply_ite (Functor.map (fun r : Editor α => r.withOpts o'))]
    refine ite_congr rfl (fun _ => rfl) (fun _ => ?_)
    · simp only [map_bind]
      congr 1; funext lb
      congr 1; funext rb
      congr 1; funext combined
      exact insert_withOpts cx ed o' _ _

end
section
variable {α : Type} [DecidableEq α] (cx : Ctx α)

/-! ## C17: `XOpts(args, o)` and `WithOptions(o).X(args)`

`X(args)` is `XOpts(args, ed.Options)`, so `WithOptions(o).X(args)` is
`(ed.withOpts o).XOpts cx args (ed.withOpts o).opts`, which is `(ed.withOpts o).XOpts cx args o`
(`Editor.withOpts_opts`).  For every operation:
* `X_withOptions`: `WithOptions(o).X(args)` is `XOpts(args, o)` with `o` stored on the result;
* `X_text`: both return the same text (and fail in the same cases, with the same error);
* `X_restore`: putting the receiver's Options back on the result of `WithOptions(o).X(args)` gives
  exactly `XOpts(args, o)`: the two results differ in nothing but the stored Options. -/

theorem applyOptsM_withOptions (ed : Editor α) (op : Nat → List α → R (List (List α))) (o : Options α) :
    (ed.withOpts o).applyOptsM cx op (ed.withOpts o).opts =
      (ed.applyOptsM cx op o).map (fun r => r.withOpts o) := by
  rw [Editor.withOpts_opts]
  exact applyOptsM_withOpts cx ed o op o

theorem applyOptsM_text (ed : Editor α) (op : Nat → List α → R (List (List α))) (o : Options α) :
    ((ed.withOpts o).applyOptsM cx op o).map Editor.text = (ed.applyOptsM cx op o).map Editor.text :=
  map_text_of_eq (applyOptsM_withOpts cx ed o op o)

theorem applyOptsM_restore (ed : Editor α) (op : Nat → List α → R (List (List α))) (o : Options α) :
    ((ed.withOpts o).applyOptsM cx op o).map (fun r => r.withOpts ed.opts) = ed.applyOptsM cx op o := by
  rw [← applyOptsM_withOpts cx (ed.withOpts o) ed.opts op o, withOpts_withOpts, withOpts_self]

theorem applyOpts_withOptions (ed : Editor α) (op : Nat → List α → List (List α)) (o : Options α) :
    (ed.withOpts o).applyOpts cx op (ed.withOpts o).opts =
      (ed.applyOpts cx op o).map (fun r => r.withOpts o) := by
  rw [Editor.withOpts_opts]
  exact applyOpts_withOpts cx ed o op o

theorem applyOpts_text (ed : Editor α) (op : Nat → List α → List (List α)) (o : Options α) :
    ((ed.withOpts o).applyOpts cx op o).map Editor.text = (ed.applyOpts cx op o).map Editor.text :=
  map_text_of_eq (applyOpts_withOpts cx ed o op o)

theorem applyOpts_restore (ed : Editor α) (op : Nat → List α → List (List α)) (o : Options α) :
    ((ed.withOpts o).applyOpts cx op o).map (fun r => r.withOpts ed.opts) = ed.applyOpts cx op o := by
  rw [← applyOpts_withOpts cx (ed.withOpts o) ed.opts op o, withOpts_withOpts, withOpts_self]

theorem applyParasM_withOptions (ed : Editor α) (op : Nat → List α → List α → List α → R (List (List α))) (o : Options α) :
    (ed.withOpts o).applyParasM cx op (ed.withOpts o).opts =
      (ed.applyParasM cx op o).map (fun r => r.withOpts o) := by
  rw [Editor.withOpts_opts]
  exact applyParasM_withOpts cx ed o op o

theorem applyParasM_text (ed : Editor α) (op : Nat → List α → List α → List α → R (List (List α))) (o : Options α) :
    ((ed.withOpts o).applyParasM cx op o).map Editor.text = (ed.applyParasM cx op o).map Editor.text :=
  map_text_of_eq (applyParasM_withOpts cx ed o op o)

theorem applyParasM_restore (ed : Editor α) (op : Nat → List α → List α → List α → R (List (List α))) (o : Options α) :
    ((ed.withOpts o).applyParasM cx op o).map (fun r => r.withOpts ed.opts) = ed.applyParasM cx op o := by
  rw [← applyParasM_withOpts cx (ed.withOpts o) ed.opts op o, withOpts_withOpts, withOpts_self]

theorem alignOpts_withOptions (ed : Editor α) (align width : Int) (o : Options α) :
    (ed.withOpts o).alignOpts cx align width (ed.withOpts o).opts =
      (ed.alignOpts cx align width o).map (fun r => r.withOpts o) := by
  rw [Editor.withOpts_opts]
  exact alignOpts_withOpts cx ed o align width o

theorem alignOpts_text (ed : Editor α) (align width : Int) (o : Options α) :
    ((ed.withOpts o).alignOpts cx align width o).map Editor.text = (ed.alignOpts cx align width o).map Editor.text :=
  map_text_of_eq (alignOpts_withOpts cx ed o align width o)

theorem alignOpts_restore (ed : Editor α) (align width : Int) (o : Options α) :
    ((ed.withOpts o).alignOpts cx align width o).map (fun r => r.withOpts ed.opts) = ed.alignOpts cx align width o := by
  rw [← alignOpts_withOpts cx (ed.withOpts o) ed.opts align width o, withOpts_withOpts, withOpts_self]

theorem collapseSpaceOpts_withOptions (ed : Editor α) (o : Options α) :
    (ed.withOpts o).collapseSpaceOpts cx (ed.withOpts o).opts =
      (ed.collapseSpaceOpts cx o).map (fun r => r.withOpts o) := by
  rw [Editor.withOpts_opts]
  exact collapseSpaceOpts_withOpts cx ed o o

theorem collapseSpaceOpts_text (ed : Editor α) (o : Options α) :
    ((ed.withOpts o).collapseSpaceOpts cx o).map Editor.text = (ed.collapseSpaceOpts cx o).map Editor.text :=
  map_text_of_eq (collapseSpaceOpts_withOpts cx ed o o)

theorem collapseSpaceOpts_restore (ed : Editor α) (o : Options α) :
    ((ed.withOpts o).collapseSpaceOpts cx o).map (fun r => r.withOpts ed.opts) = ed.collapseSpaceOpts cx o := by
  rw [← collapseSpaceOpts_withOpts cx (ed.withOpts o) ed.opts o, withOpts_withOpts, withOpts_self]

theorem indentOpts_withOptions (ed : Editor α) (level : Int) (o : Options α) :
    (ed.withOpts o).indentOpts cx level (ed.withOpts o).opts =
      (ed.indentOpts cx level o).map (fun r => r.withOpts o) := by
  rw [Editor.withOpts_opts]
  exact indentOpts_withOpts cx ed o level o

theorem indentOpts_text (ed : Editor α) (level : Int) (o : Options α) :
    ((ed.withOpts o).indentOpts cx level o).map Editor.text = (ed.indentOpts cx level o).map Editor.text :=
  map_text_of_eq (indentOpts_withOpts cx ed o level o)

theorem indentOpts_restore (ed : Editor α) (level : Int) (o : Options α) :
    ((ed.withOpts o).indentOpts cx level o).map (fun r => r.withOpts ed.opts) = ed.indentOpts cx level o := by
  rw [← indentOpts_withOpts cx (ed.withOpts o) ed.opts level o, withOpts_withOpts, withOpts_self]

theorem wrapOpts_withOptions (ed : Editor α) (width : Int) (o : Options α) :
    (ed.withOpts o).wrapOpts cx width (ed.withOpts o).opts =
      (ed.wrapOpts cx width o).map (fun r => r.withOpts o) := by
  rw [Editor.withOpts_opts]
  exact wrapOpts_withOpts cx ed o width o

theorem wrapOpts_text (ed : Editor α) (width : Int) (o : Options α) :
    ((ed.withOpts o).wrapOpts cx width o).map Editor.text = (ed.wrapOpts cx width o).map Editor.text :=
  map_text_of_eq (wrapOpts_withOpts cx ed o width o)

theorem wrapOpts_restore (ed : Editor α) (width : Int) (o : Options α) :
    ((ed.withOpts o).wrapOpts cx width o).map (fun r => r.withOpts ed.opts) = ed.wrapOpts cx width o := by
  rw [← wrapOpts_withOpts cx (ed.withOpts o) ed.opts width o, withOpts_withOpts, withOpts_self]

theorem justifyOpts_withOptions (ed : Editor α) (width : Int) (o : Options α) :
    (ed.withOpts o).justifyOpts cx width (ed.withOpts o).opts =
      (ed.justifyOpts cx width o).map (fun r => r.withOpts o) := by
  rw [Editor.withOpts_opts]
  exact justifyOpts_withOpts cx ed o width o

theorem justifyOpts_text (ed : Editor α) (width : Int) (o : Options α) :
    ((ed.withOpts o).justifyOpts cx width o).map Editor.text = (ed.justifyOpts cx width o).map Editor.text :=
  map_text_of_eq (justifyOpts_withOpts cx ed o width o)

theorem justifyOpts_restore (ed : Editor α) (width : Int) (o : Options α) :
    ((ed.withOpts o).justifyOpts cx width o).map (fun r => r.withOpts ed.opts) = ed.justifyOpts cx width o := by
  rw [← justifyOpts_withOpts cx (ed.withOpts o) ed.opts width o, withOpts_withOpts, withOpts_self]

theorem insertDefTableOpts_withOptions (ed : Editor α) (pos : Int) (defs : List (List α × List α)) (width : Int) (o : Options α) :
    (ed.withOpts o).insertDefTableOpts cx pos defs width (ed.withOpts o).opts =
      (ed.insertDefTableOpts cx pos defs width o).map (fun r => r.withOpts o) := by
  rw [Editor.withOpts_opts]
  exact insertDefTableOpts_withOpts cx ed o pos defs width o

theorem insertDefTableOpts_text (ed : Editor α) (pos : Int) (defs : List (List α × List α)) (width : Int) (o : Options α) :
    ((ed.withOpts o).insertDefTableOpts cx pos defs width o).map Editor.text = (ed.insertDefTableOpts cx pos defs width o).map Editor.text :=
  map_text_of_eq (insertDefTableOpts_withOpts cx ed o pos defs width o)

theorem insertDefTableOpts_restore (ed : Editor α) (pos : Int) (defs : List (List α × List α)) (width : Int) (o : Options α) :
    ((ed.withOpts o).insertDefTableOpts cx pos defs width o).map (fun r => r.withOpts ed.opts) = ed.insertDefTableOpts cx pos defs width o := by
  rw [← insertDefTableOpts_withOpts cx (ed.withOpts o) ed.opts pos defs width o, withOpts_withOpts, withOpts_self]

omit [DecidableEq α] in
theorem insertTableOpts_withOptions (ed : Editor α) (pos : Int) (data : List (List (List α))) (width : Int) (o : Options α) :
    (ed.withOpts o).insertTableOpts cx pos data width (ed.withOpts o).opts =
      (ed.insertTableOpts cx pos data width o).map (fun r => r.withOpts o) := by
  rw [Editor.withOpts_opts]
  exact insertTableOpts_withOpts cx ed o pos data width o

omit [DecidableEq α] in
theorem insertTableOpts_text (ed : Editor α) (pos : Int) (data : List (List (List α))) (width : Int) (o : Options α) :
    ((ed.withOpts o).insertTableOpts cx pos data width o).map Editor.text = (ed.insertTableOpts cx pos data width o).map Editor.text :=
  map_text_of_eq (insertTableOpts_withOpts cx ed o pos data width o)

omit [DecidableEq α] in
theorem insertTableOpts_restore (ed : Editor α) (pos : Int) (data : List (List (List α))) (width : Int) (o : Options α) :
    ((ed.withOpts o).insertTableOpts cx pos data width o).map (fun r => r.withOpts ed.opts) = ed.insertTableOpts cx pos data width o := by
  rw [← insertTableOpts_withOpts cx (ed.withOpts o) ed.opts pos data width o, withOpts_withOpts, withOpts_self]

theorem insertTwoColumnsOpts_withOptions (ed : Editor α) (pos : Int) (leftText rightText : List α) (minSpaceBetween width : Int) (pct : Pct) (o : Options α) :
    (ed.withOpts o).insertTwoColumnsOpts cx pos leftText rightText minSpaceBetween width pct (ed.withOpts o).opts =
      (ed.insertTwoColumnsOpts cx pos leftText rightText minSpaceBetween width pct o).map (fun r => r.withOpts o) := by
  rw [Editor.withOpts_opts]
  exact insertTwoColumnsOpts_withOpts cx ed o pos leftText rightText minSpaceBetween width pct o

theorem insertTwoColumnsOpts_text (ed : Editor α) (pos : Int) (leftText rightText : List α) (minSpaceBetween width : Int) (pct : Pct) (o : Options α) :
    ((ed.withOpts o).insertTwoColumnsOpts cx pos leftText rightText minSpaceBetween width pct o).map Editor.text = (ed.insertTwoColumnsOpts cx pos leftText rightText minSpaceBetween width pct o).map Editor.text :=
  map_text_of_eq (insertTwoColumnsOpts_withOpts cx ed o pos leftText rightText minSpaceBetween width pct o)

theorem insertTwoColumnsOpts_restore (ed : Editor α) (pos : Int) (leftText rightText : List α) (minSpaceBetween width : Int) (pct : Pct) (o : Options α) :
    ((ed.withOpts o).insertTwoColumnsOpts cx pos leftText rightText minSpaceBetween width pct o).map (fun r => r.withOpts ed.opts) = ed.insertTwoColumnsOpts cx pos leftText rightText minSpaceBetween width pct o := by
  rw [← insertTwoColumnsOpts_withOpts cx (ed.withOpts o) ed.opts pos leftText rightText minSpaceBetween width pct o, withOpts_withOpts, withOpts_self]

end

/-! ## Concrete instances (context `testCtx`: "\n" is `0`, " " is `32`)

The receiver stores `rcv` (line separator `0`, no trailing separators, justify the last line);
`WithOptions(oth)` stores other options; the argument is `arg` / `argP` (line separator `7`).
Each example: the two results have the same text, the text an `XOpts` call with the receiver's own
options would give is a different one, and the stored options are `oth` resp. `rcv`. -/
namespace ReceiverOptions

/-- options stored on the receiver -/
def rcv : Options Nat := { lineSep := [0], noTrailing := true, justifyLast := true }
/-- other options to store on the receiver (`WithOptions`) -/
def oth : Options Nat := { lineSep := [8], paraSep := [9], preservePara := true, indentStr := [5] }
/-- the options argument -/
def arg : Options Nat := { lineSep := [7], indentStr := [6] }
/-- the options argument, paragraph mode (paragraph separator `0`) -/
def argP : Options Nat := { lineSep := [7], paraSep := [0], preservePara := true, indentStr := [6] }
/-- text and stored options of a result -/
def view (r : R (Editor Nat)) : Option (List Nat × Options Nat) :=
  r.toOption.map fun e => (e.text, e.opts)

def sample : List Nat := [1, 32, 2, 32, 3, 7, 4, 32, 32, 5, 0, 6, 7]
def rootEd : Editor Nat := .root sample rcv
/-- a sub-editor (bytes 1–14 of its parent) -/
def subEd1 : Editor Nat := .sub sample rcv (.root (99 :: sample) oth) 1 14

-- Wrap
example :
    view ((rootEd.withOpts oth).wrapOpts testCtx 3 arg) = some ([1, 32, 2, 7, 3, 32, 4, 7, 5, 0, 6, 7], oth) ∧
    view (rootEd.wrapOpts testCtx 3 arg) = some ([1, 32, 2, 7, 3, 32, 4, 7, 5, 0, 6, 7], rcv) ∧
    view (rootEd.wrapOpts testCtx 3 rcv) = some ([1, 32, 2, 0, 3, 7, 4, 0, 5, 0, 6, 7], rcv) := by decide
example :
    view ((subEd1.withOpts oth).wrapOpts testCtx 3 argP) = some ([1, 32, 2, 7, 3, 32, 4, 7, 5, 0, 6, 7], oth) ∧
    view (subEd1.wrapOpts testCtx 3 argP) = some ([1, 32, 2, 7, 3, 32, 4, 7, 5, 0, 6, 7], rcv) := by decide

-- Justify: `arg.justifyLast = false`, the path through `linesTo (-1)`, `commit` and `originalOpts`
example :
    view ((rootEd.withOpts oth).justifyOpts testCtx 7 arg) =
      some ([1, 32, 32, 2, 32, 32, 3, 7, 4, 32, 32, 5, 0, 6, 7], oth) ∧
    view (rootEd.justifyOpts testCtx 7 arg) =
      some ([1, 32, 32, 2, 32, 32, 3, 7, 4, 32, 32, 5, 0, 6, 7], rcv) ∧
    view (rootEd.justifyOpts testCtx 7 rcv) = some ([1, 32, 2, 32, 3, 7, 4, 32, 5, 0, 6, 7], rcv) := by decide
example :
    view ((subEd1.withOpts oth).justifyOpts testCtx 7 arg) =
      some ([1, 32, 32, 2, 32, 32, 3, 7, 4, 32, 32, 5, 0, 6, 7], oth) ∧
    view (subEd1.justifyOpts testCtx 7 arg) =
      some ([1, 32, 32, 2, 32, 32, 3, 7, 4, 32, 32, 5, 0, 6, 7], rcv) := by decide
example :
    view ((rootEd.withOpts oth).justifyOpts testCtx 7 argP) =
      some ([1, 32, 32, 2, 32, 32, 3, 7, 4, 32, 32, 5, 0, 6, 7], oth) ∧
    view (rootEd.justifyOpts testCtx 7 argP) =
      some ([1, 32, 32, 2, 32, 32, 3, 7, 4, 32, 32, 5, 0, 6, 7], rcv) := by decide

-- Align
example :
    view ((rootEd.withOpts oth).alignOpts testCtx Gen.alignRight 7 arg) =
      some ([32, 32, 1, 32, 2, 32, 3, 7, 32, 4, 32, 32, 5, 0, 6, 7], oth) ∧
    view (rootEd.alignOpts testCtx Gen.alignRight 7 arg) =
      some ([32, 32, 1, 32, 2, 32, 3, 7, 32, 4, 32, 32, 5, 0, 6, 7], rcv) ∧
    view (rootEd.alignOpts testCtx Gen.alignRight 7 rcv) =
      some ([1, 32, 2, 32, 3, 7, 4, 32, 32, 5, 0, 32, 32, 32, 32, 32, 6, 7], rcv) := by decide
example :
    view ((rootEd.withOpts oth).alignOpts testCtx Gen.alignRight 7 argP) =
      some ([32, 32, 1, 32, 2, 32, 3, 7, 32, 32, 4, 32, 32, 5, 0, 32, 32, 32, 32, 32, 32, 6, 7], oth) ∧
    view (rootEd.alignOpts testCtx Gen.alignRight 7 argP) =
      some ([32, 32, 1, 32, 2, 32, 3, 7, 32, 32, 4, 32, 32, 5, 0, 32, 32, 32, 32, 32, 32, 6, 7], rcv) := by
  decide

-- Indent
example :
    view ((rootEd.withOpts oth).indentOpts testCtx 1 arg) =
      some ([6, 1, 32, 2, 32, 3, 7, 6, 4, 32, 32, 5, 0, 6, 7], oth) ∧
    view (rootEd.indentOpts testCtx 1 arg) = some ([6, 1, 32, 2, 32, 3, 7, 6, 4, 32, 32, 5, 0, 6, 7], rcv) ∧
    view (rootEd.indentOpts testCtx 1 rcv) = some ([9, 1, 32, 2, 32, 3, 7, 4, 32, 32, 5, 0, 9, 6, 7], rcv) := by
  decide
example :
    view ((rootEd.withOpts oth).indentOpts testCtx 1 argP) =
      some ([6, 1, 32, 2, 32, 3, 7, 6, 4, 32, 32, 5, 0, 6, 6, 7], oth) ∧
    view (rootEd.indentOpts testCtx 1 argP) =
      some ([6, 1, 32, 2, 32, 3, 7, 6, 4, 32, 32, 5, 0, 6, 6, 7], rcv) := by decide

-- CollapseSpace
example :
    view ((rootEd.withOpts oth).collapseSpaceOpts testCtx arg) =
      some ([1, 32, 2, 32, 3, 32, 4, 32, 5, 0, 6, 32], oth) ∧
    view (rootEd.collapseSpaceOpts testCtx arg) = some ([1, 32, 2, 32, 3, 32, 4, 32, 5, 0, 6, 32], rcv) ∧
    view (rootEd.collapseSpaceOpts testCtx rcv) = some ([1, 32, 2, 32, 3, 7, 4, 32, 5, 32, 6, 7], rcv) := by
  decide

-- Apply / applyGParagraphs
example :
    view ((rootEd.withOpts oth).applyOpts testCtx (fun i l => [i :: l]) arg) =
      some ([0, 1, 32, 2, 32, 3, 7, 1, 4, 32, 32, 5, 0, 6, 7], oth) ∧
    view (rootEd.applyOpts testCtx (fun i l => [i :: l]) arg) =
      some ([0, 1, 32, 2, 32, 3, 7, 1, 4, 32, 32, 5, 0, 6, 7], rcv) ∧
    view (rootEd.applyOpts testCtx (fun i l => [i :: l]) rcv) =
      some ([0, 1, 32, 2, 32, 3, 7, 4, 32, 32, 5, 0, 1, 6, 7], rcv) := by decide
example :
    view ((rootEd.withOpts oth).applyParasM testCtx (fun i p _ _ => pure [i :: p]) argP) =
      some ([0, 1, 32, 2, 32, 3, 7, 4, 32, 32, 5, 0, 1, 6, 7], oth) ∧
    view (rootEd.applyParasM testCtx (fun i p _ _ => pure [i :: p]) argP) =
      some ([0, 1, 32, 2, 32, 3, 7, 4, 32, 32, 5, 0, 1, 6, 7], rcv) := by decide

-- the three table operations (all end in `Insert`, which builds sub-editors of the receiver)
example :
    view ((subEd1.withOpts oth).insertTableOpts testCtx 1 [[[5], [6]]] 6 arg) =
      some ([1, 5, 32, 32, 32, 32, 6, 7, 32, 2, 32, 3, 7, 4, 32, 32, 5, 0, 6, 7], oth) ∧
    view (subEd1.insertTableOpts testCtx 1 [[[5], [6]]] 6 arg) =
      some ([1, 5, 32, 32, 32, 32, 6, 7, 32, 2, 32, 3, 7, 4, 32, 32, 5, 0, 6, 7], rcv) ∧
    view (subEd1.insertTableOpts testCtx 1 [[[5], [6]]] 6 rcv) =
      some ([1, 5, 32, 32, 32, 32, 6, 32, 2, 32, 3, 7, 4, 32, 32, 5, 0, 6, 7], rcv) := by decide
example :
    view ((rootEd.withOpts oth).insertDefTableOpts testCtx 1 [([5], [6, 32, 7])] 12 arg) =
      some ([1, 32, 32, 5, 32, 32, 45, 32, 6, 7, 32, 2, 32, 3, 7, 4, 32, 32, 5, 0, 6, 7], oth) ∧
    view (rootEd.insertDefTableOpts testCtx 1 [([5], [6, 32, 7])] 12 arg) =
      some ([1, 32, 32, 5, 32, 32, 45, 32, 6, 7, 32, 2, 32, 3, 7, 4, 32, 32, 5, 0, 6, 7], rcv) := by decide
example :
    view ((rootEd.withOpts oth).insertTwoColumnsOpts testCtx 1 [5, 32, 6] [7] 1 8 ⟨false, 1, 1⟩ arg) =
      some ([1, 5, 32, 6, 32, 7, 32, 2, 32, 3, 7, 4, 32, 32, 5, 0, 6, 7], oth) ∧
    view (rootEd.insertTwoColumnsOpts testCtx 1 [5, 32, 6] [7] 1 8 ⟨false, 1, 1⟩ arg) =
      some ([1, 5, 32, 6, 32, 7, 32, 2, 32, 3, 7, 4, 32, 32, 5, 0, 6, 7], rcv) := by decide

end ReceiverOptions
end RosedVerif
