/-
Theory of the string splitting functions (`splitOn`, `joinWith`) and of the line
decomposition built on them (`Spec.linePieces`, `Spec.bareLines`, `Spec.selectLines`,
`Spec.apply`).  Core Lean only.
-/
import RosedVerif.Spec.Pos
namespace RosedVerif

variable {α : Type}

/-! ### joinWith -/

@[simp] theorem joinWith_nil (sep : List α) : joinWith sep [] = [] := rfl

@[simp] theorem joinWith_singleton (sep x : List α) : joinWith sep [x] = x := by
  simp [joinWith, List.intercalate]

theorem joinWith_cons_cons (sep x y : List α) (t : List (List α)) :
    joinWith sep (x :: y :: t) = x ++ sep ++ joinWith sep (y :: t) := by
  simp only [joinWith, List.intercalate, List.intersperse_cons_cons, List.flatten_cons,
    List.append_assoc]

theorem joinWith_cons_of_ne_nil (sep x : List α) {l : List (List α)} (h : l ≠ []) :
    joinWith sep (x :: l) = x ++ sep ++ joinWith sep l := by
  cases l with
  | nil => exact absurd rfl h
  | cons y t => exact joinWith_cons_cons sep x y t

/-- joining `l ++ [x]`: every element of `l` is followed by a separator -/
theorem joinWith_append_singleton (sep : List α) (l : List (List α)) (x : List α) :
    joinWith sep (l ++ [x]) = (l.map (· ++ sep)).flatten ++ x := by
  induction l with
  | nil => simp
  | cons y t ih =>
    rw [List.cons_append, joinWith_cons_of_ne_nil sep y (by simp), ih]
    simp only [List.map_cons, List.flatten_cons, List.append_assoc]

/-- a non-empty list is its `dropLast` followed by its last element -/
theorem eq_dropLast_append_getLastD {β : Type} (l : List β) (d : β) (h : l ≠ []) :
    l = l.dropLast ++ [l.getLastD d] := by
  induction l with
  | nil => exact absurd rfl h
  | cons a t ih =>
    cases t with
    | nil => simp
    | cons b u =>
      have := ih (by simp)
      simp only [List.dropLast_cons_cons, List.cons_append, List.getLastD_cons] at this ⊢
      rw [← this]

/-! ### splitOnAux / splitOn -/

variable [DecidableEq α]

theorem splitOnAux_ne_nil (sep s : List α) (skip : Nat) (cur : List α) :
    splitOnAux sep s skip cur ≠ [] := by
  induction s generalizing skip cur with
  | nil => simp [splitOnAux]
  | cons c t ih =>
    cases skip with
    | succ k => simpa [splitOnAux] using ih k cur
    | zero =>
      rw [splitOnAux]
      split
      · simp
      · exact ih 0 (c :: cur)

/-- `splitOn s sep` is empty only in Go's special case `strings.Split("", "") = []`. -/
theorem splitOn_eq_nil_iff (s sep : List α) : splitOn s sep = [] ↔ s = [] ∧ sep = [] := by
  unfold splitOn
  cases sep with
  | nil => simp
  | cons a t => simpa using splitOnAux_ne_nil (a :: t) s 0 []

/-- Statement 1 as requested is FALSE for `s = sep = []` (see `splitOn_nil_nil`); this is the
version with the smallest hypothesis. -/
theorem splitOn_ne_nil (s sep : List α) (h : s ≠ [] ∨ sep ≠ []) : splitOn s sep ≠ [] := by
  rw [Ne, splitOn_eq_nil_iff]
  rintro ⟨h1, h2⟩
  cases h with
  | inl h => exact h h1
  | inr h => exact h h2

theorem splitOn_ne_nil' (s sep : List α) (h : sep ≠ []) : splitOn s sep ≠ [] :=
  splitOn_ne_nil s sep (Or.inr h)

/-- counterexample to the unconditional `splitOn_ne_nil` -/
theorem splitOn_nil_nil : splitOn ([] : List α) [] = [] := rfl

theorem not_forall_splitOn_ne_nil : ¬ ∀ s sep : List Nat, splitOn s sep ≠ [] :=
  fun h => h [] [] rfl

theorem splitOn_of_ne_nil (s sep : List α) (h : sep ≠ []) :
    splitOn s sep = splitOnAux sep s 0 [] := by
  cases sep with
  | nil => exact absurd rfl h
  | cons a t => rfl

/-- a matched separator followed by the rest (after skipping the separator's tail) is the input -/
theorem append_drop_of_isPrefixOf (sep : List α) (c : α) (t : List α) (h : sep ≠ [])
    (hp : sep.isPrefixOf (c :: t) = true) : sep ++ t.drop (sep.length - 1) = c :: t := by
  have hp' := List.prefix_iff_eq_append.mp (List.isPrefixOf_iff_prefix.mp hp)
  cases sep with
  | nil => exact absurd rfl h
  | cons a u => simpa using hp'

/-- the invariant of the scanning loop -/
theorem joinWith_splitOnAux (sep s : List α) (skip : Nat) (cur : List α) (h : sep ≠ []) :
    joinWith sep (splitOnAux sep s skip cur) = cur.reverse ++ s.drop skip := by
  induction s generalizing skip cur with
  | nil => simp [splitOnAux]
  | cons c t ih =>
    cases skip with
    | succ k => simpa [splitOnAux] using ih k cur
    | zero =>
      rw [splitOnAux]
      split
      · rename_i hp
        rw [joinWith_cons_of_ne_nil sep _ (splitOnAux_ne_nil _ _ _ _), ih, List.drop_zero,
          List.reverse_nil, List.nil_append, List.append_assoc,
          append_drop_of_isPrefixOf sep c t h hp]
      · rw [ih]
        simp

/-- Statement 2. -/
theorem joinWith_splitOn (s sep : List α) (h : sep ≠ []) : joinWith sep (splitOn s sep) = s := by
  rw [splitOn_of_ne_nil s sep h, joinWith_splitOnAux sep s 0 [] h]
  simp

/-- Statement 2 also holds for the empty separator (explode into atoms, join with nothing). -/
theorem joinWith_splitOn_all (s sep : List α) : joinWith sep (splitOn s sep) = s := by
  cases sep with
  | cons a u => exact joinWith_splitOn s (a :: u) (by simp)
  | nil =>
    show joinWith [] (s.map fun c => [c]) = s
    induction s with
    | nil => rfl
    | cons c t ih =>
      cases t with
      | nil => rfl
      | cons d v =>
        rw [List.map_cons] at ih
        rw [List.map_cons, List.map_cons, joinWith_cons_cons, ih]
        rfl

/-- Statement 3. -/
theorem splitOn_nil (sep : List α) (h : sep ≠ []) : splitOn ([] : List α) sep = [[]] := by
  rw [splitOn_of_ne_nil _ sep h]
  rfl

/-! ### line decomposition -/

/-- Statement 4. -/
theorem Spec.linePieces_flatten (text sep : List α) (nt : Bool) (h : sep ≠ []) :
    (Spec.linePieces text sep nt).flatten = text := by
  have hne := splitOn_ne_nil' text sep h
  have hj := joinWith_splitOn text sep h
  unfold Spec.linePieces
  generalize splitOn text sep = parts at *
  have hd := eq_dropLast_append_getLastD parts [] hne
  rw [hd, joinWith_append_singleton] at hj
  simp only [← List.dropLast_eq_take]
  split
  · rename_i hc
    simp only [Bool.and_eq_true, List.isEmpty_iff] at hc
    rw [hc.2, List.append_nil] at hj
    exact hj
  · rw [List.flatten_append, List.flatten_singleton]
    exact hj

/-- Statement 5 as requested is FALSE for `text = sep = []`, `nt = true`
(see `Spec.linePieces_length_counterexample`); this is the version with the smallest hypothesis. -/
theorem Spec.linePieces_length (text sep : List α) (nt : Bool)
    (h : text ≠ [] ∨ sep ≠ [] ∨ nt = false) :
    (Spec.linePieces text sep nt).length = (Spec.bareLines text sep nt).length := by
  unfold Spec.linePieces Spec.bareLines
  by_cases hne : splitOn text sep = []
  · have hnt : nt = false := by
      rw [splitOn_eq_nil_iff] at hne
      rcases h with h | h | h
      · exact absurd hne.1 h
      · exact absurd hne.2 h
      · exact h
    simp [hne, hnt]
  · generalize splitOn text sep = parts at *
    have hpos : 0 < parts.length := List.length_pos_iff.mpr hne
    simp only
    split
    · simp only [List.length_map, List.length_take, List.length_dropLast]
      omega
    · simp only [List.length_append, List.length_map, List.length_take, List.length_singleton]
      omega

theorem Spec.linePieces_length' (text sep : List α) (nt : Bool) (h : sep ≠ []) :
    (Spec.linePieces text sep nt).length = (Spec.bareLines text sep nt).length :=
  Spec.linePieces_length text sep nt (Or.inr (Or.inl h))

/-- counterexample to the unconditional `Spec.linePieces_length` -/
theorem Spec.linePieces_length_counterexample :
    (Spec.linePieces ([] : List Nat) [] true).length = 1 ∧
    (Spec.bareLines ([] : List Nat) [] true).length = 0 := by decide

theorem Spec.normPosRaw_nonneg (n p : Int) (hn : 0 ≤ n) : 0 ≤ Spec.normPosRaw n p := by
  unfold Spec.normPosRaw
  simp only
  split <;> split <;> (try split) <;> omega

theorem Spec.normPosRaw_le (n p : Int) (hn : 0 ≤ n) : Spec.normPosRaw n p ≤ n := by
  unfold Spec.normPosRaw
  simp only
  split <;> split <;> (try split) <;> omega

theorem Spec.normRange_bounds (n s e : Int) (hn : 0 ≤ n) :
    0 ≤ (Spec.normRange n s e).1 ∧ (Spec.normRange n s e).1 ≤ (Spec.normRange n s e).2 ∧
      (Spec.normRange n s e).2 ≤ n := by
  unfold Spec.normRange Spec.normPos
  simp only
  have h1 := Spec.normPosRaw_nonneg n (if (s == Gen.endSentinel) = true then n else s) hn
  have h2 := Spec.normPosRaw_le n (if (s == Gen.endSentinel) = true then n else s) hn
  have h3 := Spec.normPosRaw_le n (if (e == Gen.endSentinel) = true then n else e) hn
  generalize Spec.normPosRaw n (if (s == Gen.endSentinel) = true then n else s) = a at *
  generalize Spec.normPosRaw n (if (e == Gen.endSentinel) = true then n else e) = b at *
  split <;> omega

theorem take_append_take_drop_append_drop {β : Type} (l : List β) (a b : Nat) (hab : a ≤ b) :
    l.take a ++ (l.drop a).take (b - a) ++ l.drop b = l := by
  have : l.drop b = (l.drop a).drop (b - a) := by
    rw [List.drop_drop]; congr 1; omega
  rw [this, List.append_assoc, List.take_append_drop, List.take_append_drop]

/-- Statement 6. -/
theorem Spec.selectLines_concat (text sep : List α) (nt : Bool) (s e : Int) (h : sep ≠ []) :
    let r := Spec.selectLines text sep nt s e
    r.1 ++ r.2.1 ++ r.2.2 = text := by
  intro r
  have hfl := Spec.linePieces_flatten text sep nt h
  show (Spec.selectLines text sep nt s e).1 ++ (Spec.selectLines text sep nt s e).2.1 ++
    (Spec.selectLines text sep nt s e).2.2 = text
  unfold Spec.selectLines
  generalize Spec.linePieces text sep nt = ps at *
  obtain ⟨h0, h1, -⟩ := Spec.normRange_bounds ps.length s e (Int.natCast_nonneg _)
  simp only
  generalize Spec.normRange ps.length s e = se at *
  obtain ⟨s', e'⟩ := se
  simp only at h0 h1 ⊢
  have hsub : (e' - s').toNat = e'.toNat - s'.toNat := by omega
  have hle : s'.toNat ≤ e'.toNat := by omega
  simp only [Spec.joinL, hsub, ← List.flatten_append,
    take_append_take_drop_append_drop ps _ _ hle, hfl]

theorem flatten_map_range_getD {β : Type} (l : List β) (d : β) :
    ((List.range l.length).map fun i => [l.getD i d]).flatten = l := by
  have hfm : ∀ (r : List Nat) (f : Nat → β), (r.map fun i => [f i]).flatten = r.map f := by
    intro r f
    induction r with
    | nil => rfl
    | cons a t ih => simp only [List.map_cons, List.flatten_cons, ih, List.singleton_append]
  rw [hfm]
  apply List.ext_getElem
  · simp only [List.length_map, List.length_range]
  · intro i h1 h2
    simp only [List.getElem_map, List.getElem_range, List.getD_eq_getElem?_getD,
      List.getElem?_eq_getElem h2, Option.getD_some]

omit [DecidableEq α] in
/-- if the last piece is empty and there are at least two pieces, the joined text ends in `sep` -/
theorem suffix_joinWith_of_getLastD_nil (sep : List α) (parts : List (List α))
    (hl : parts.getLastD [] = []) (h2 : parts.dropLast ≠ []) :
    sep <:+ joinWith sep parts := by
  have hne : parts ≠ [] := by
    intro h; rw [h] at h2; exact h2 rfl
  have hd := eq_dropLast_append_getLastD parts [] hne
  have hd2 := eq_dropLast_append_getLastD parts.dropLast [] h2
  rw [hd, joinWith_append_singleton, hl, List.append_nil, hd2, List.map_append,
    List.flatten_append]
  simp only [List.map_cons, List.map_nil, List.flatten_cons, List.flatten_nil, List.append_nil]
  rw [← List.append_assoc]
  exact List.suffix_append _ _

/-- Statement 7.  With `Spec.apply`'s trailing rule "the last piece of the split is empty" the
identity callback reproduces the text for EVERY non-empty separator (no side condition on the
separator's self-overlap is needed any more). -/
theorem Spec.apply_id (text sep : List α) (nt : Bool) (h : sep ≠ []) :
    Spec.apply text sep nt (fun _ l => [l]) = text := by
  have hne := splitOn_ne_nil' text sep h
  have hj := joinWith_splitOn text sep h
  unfold Spec.apply Spec.bareLines
  simp only [flatten_map_range_getD]
  generalize splitOn text sep = parts at *
  have hd := eq_dropLast_append_getLastD parts [] hne
  cases nt with
  | true => simpa using hj
  | false =>
    simp only [Bool.not_false, Bool.true_and, List.isEmpty_iff]
    by_cases hl : parts.getLastD [] = []
    · rw [if_pos hl, if_pos hl]
      rw [hl] at hd
      rw [← hd]
      exact hj
    · rw [if_neg hl, if_neg hl]
      exact hj

/-! ### the final occurrence is found for an unbordered separator -/

/-- `sep` has no proper border: no proper non-empty prefix of `sep` is also a suffix of `sep`.
Then two occurrences of `sep` cannot overlap. -/
def Unbordered (sep : List α) : Prop :=
  ∀ k, 0 < k → k < sep.length → sep.take k ≠ sep.drop (sep.length - k)

omit [DecidableEq α] in
/-- occurrences of an unbordered separator do not overlap -/
theorem Unbordered.suffix_of_suffix_append {sep : List α} (hu : Unbordered sep) (r : List α)
    (hs : sep <:+ sep ++ r) : r = [] ∨ sep <:+ r := by
  by_cases hlen : sep.length ≤ r.length
  · exact Or.inr (List.suffix_of_suffix_length_le hs (List.suffix_append sep r) hlen)
  · by_cases hr : r.length = 0
    · exact Or.inl (List.length_eq_zero_iff.mp hr)
    · exfalso
      obtain ⟨y, hy⟩ := hs
      have hl : y.length = r.length := by
        have := congrArg List.length hy
        simp only [List.length_append] at this
        omega
      have h1 := congrArg (List.take sep.length) hy
      rw [List.take_append, List.take_append, List.take_of_length_le (Nat.le_refl _),
        Nat.sub_self, List.take_zero, List.append_nil,
        List.take_of_length_le (by omega : y.length ≤ sep.length)] at h1
      have h2 := congrArg (List.drop y.length) h1
      rw [List.drop_left] at h2
      apply hu (sep.length - y.length) (by omega) (by omega)
      rw [h2]
      congr 1
      omega

theorem getLast?_splitOnAux_of_suffix (sep : List α) (h : sep ≠ []) (hu : Unbordered sep)
    (s : List α) (skip : Nat) (cur : List α)
    (hs : sep <:+ s.drop skip ∨ (skip = s.length ∧ cur = [])) :
    (splitOnAux sep s skip cur).getLast? = some [] := by
  induction s generalizing skip cur with
  | nil =>
    rcases hs with hs | ⟨-, hc⟩
    · rw [List.drop_nil, List.suffix_nil] at hs
      exact absurd hs h
    · rw [hc]; rfl
  | cons c t ih =>
    cases skip with
    | succ k =>
      rw [splitOnAux]
      apply ih
      rcases hs with hs | ⟨hk, hc⟩
      · exact Or.inl (by simpa using hs)
      · exact Or.inr ⟨by simpa using hk, hc⟩
    | zero =>
      have hs' : sep <:+ c :: t := by
        rcases hs with hs | ⟨hk, -⟩
        · simpa using hs
        · simp at hk
      rw [splitOnAux]
      split
      · rename_i hp
        have hne := splitOnAux_ne_nil sep t (sep.length - 1) []
        have hcons : ∀ (x : List α) (l : List (List α)), l ≠ [] →
            (x :: l).getLast? = l.getLast? := by
          intro x l hl
          cases l with
          | nil => exact absurd rfl hl
          | cons y u => exact List.getLast?_cons_cons
        rw [hcons _ _ hne]
        apply ih
        have happ := append_drop_of_isPrefixOf sep c t h hp
        rw [← happ] at hs'
        rcases hu.suffix_of_suffix_append _ hs' with hr | hr
        · right
          refine ⟨?_, rfl⟩
          have := congrArg List.length happ
          rw [hr] at this
          simp only [List.append_nil, List.length_cons] at this
          omega
        · exact Or.inl hr
      · rename_i hp
        apply ih
        left
        rw [List.drop_zero]
        rcases List.suffix_cons_iff.mp hs' with heq | hsuf
        · exfalso
          apply hp
          rw [List.isPrefixOf_iff_prefix, heq]
          exact List.prefix_refl _
        · exact hsuf

/-- Statement 8 (stretch): for a separator without a proper border, the leftmost scan also finds
the final occurrence. -/
theorem splitOn_last_of_suffix (s sep : List α) (h : sep ≠ []) (hu : Unbordered sep)
    (hs : sep.isSuffixOf s = true) : (splitOn s sep).getLast? = some [] := by
  rw [splitOn_of_ne_nil s sep h]
  apply getLast?_splitOnAux_of_suffix sep h hu
  left
  rw [List.drop_zero]
  exact List.isSuffixOf_iff_suffix.mp hs

omit [DecidableEq α] in
theorem unbordered_singleton (a : α) : Unbordered [a] := by
  intro k h0 h1
  simp only [List.length_singleton] at h1
  omega

omit [DecidableEq α] in
theorem unbordered_pair (a b : α) (hab : a ≠ b) : Unbordered [a, b] := by
  intro k h0 h1
  simp only [List.length_cons, List.length_nil] at h1
  have hk : k = 1 := by omega
  subst hk
  intro heq
  simp only [List.length_cons, List.length_nil, List.take_succ_cons, List.take_zero,
    List.drop_succ_cons, List.drop_zero, List.cons.injEq, and_true] at heq
  exact hab heq

instance (sep : List α) : Decidable (Unbordered sep) :=
  decidable_of_iff (∀ k, k < sep.length → 0 < k → sep.take k ≠ sep.drop (sep.length - k))
    ⟨fun h k h0 h1 => h k h1 h0, fun h k h1 h0 => h k h0 h1⟩

/-- Statement 7 for separators without a proper border: now a special case of `Spec.apply_id`
(kept for compatibility; the `Unbordered` hypothesis is no longer used). -/
theorem Spec.apply_id_of_unbordered (text sep : List α) (nt : Bool) (h : sep ≠ [])
    (_hu : Unbordered sep) : Spec.apply text sep nt (fun _ l => [l]) = text :=
  Spec.apply_id text sep nt h

/-! ### the trailing rule of `Apply`: `bareLines` dropped a final empty piece -/

/-- `bareLines` is shorter than the split exactly when it dropped a final empty piece -/
theorem Spec.bareLines_length_lt_iff (text sep : List α) (nt : Bool) :
    (Spec.bareLines text sep nt).length < (splitOn text sep).length ↔
      (nt = false ∧ (splitOn text sep).getLastD [] = [] ∧ splitOn text sep ≠ []) := by
  unfold Spec.bareLines
  generalize splitOn text sep = parts
  cases nt with
  | true => simp
  | false =>
    simp only [Bool.not_false, Bool.true_and, List.isEmpty_iff, true_and]
    by_cases hl : parts.getLastD [] = []
    · rw [if_pos hl, List.length_dropLast]
      constructor
      · intro h
        refine ⟨hl, ?_⟩
        intro h0; rw [h0] at h; simp at h
      · intro h
        have := List.length_pos_iff.mpr h.2
        omega
    · rw [if_neg hl]
      constructor
      · intro h; omega
      · intro h; exact absurd h.1 hl

theorem Spec.bareLines_length_lt_iff' (text sep : List α) (nt : Bool) (h : sep ≠ []) :
    (Spec.bareLines text sep nt).length < (splitOn text sep).length ↔
      (nt = false ∧ (splitOn text sep).getLastD [] = []) := by
  rw [Spec.bareLines_length_lt_iff]
  have := splitOn_ne_nil' text sep h
  constructor
  · intro h; exact ⟨h.1, h.2.1⟩
  · intro h; exact ⟨h.1, h.2, this⟩

/-- the lines a callback sees plus the trailing empty piece that the default policy hides are
exactly the pieces of the split (no hypothesis on the separator) -/
theorem Spec.bareLines_append_trailing (t sep : List α) (nt : Bool) :
    Spec.bareLines t sep nt ++
      (if !nt ∧ (Spec.bareLines t sep nt).length < (splitOn t sep).length then [[]] else []) =
      splitOn t sep := by
  by_cases hc : (Spec.bareLines t sep nt).length < (splitOn t sep).length
  · have hc' := (Spec.bareLines_length_lt_iff t sep nt).1 hc
    obtain ⟨hnt, hl, hne⟩ := hc'
    subst hnt
    rw [if_pos ⟨rfl, hc⟩]
    unfold Spec.bareLines
    simp only [Bool.not_false, Bool.true_and, List.isEmpty_iff, if_pos hl]
    have := eq_dropLast_append_getLastD (splitOn t sep) [] hne
    rw [hl] at this
    exact this.symm
  · rw [if_neg (fun h => hc h.2), List.append_nil]
    have hc' := fun h => hc ((Spec.bareLines_length_lt_iff t sep nt).2 h)
    unfold Spec.bareLines
    simp only
    split
    · rename_i h
      simp only [Bool.and_eq_true, Bool.not_eq_true', List.isEmpty_iff] at h
      by_cases hne : splitOn t sep = []
      · rw [hne]; rfl
      · exact absurd ⟨h.1, h.2, hne⟩ hc'
    · rfl
/-! ### "the text ends with the separator" versus "the last piece of the split is empty" -/

/-- if the last piece is empty (and the text is not), the text ends with the separator: any
non-empty separator -/
theorem isSuffixOf_of_getLastD_nil (text sep : List α) (h : sep ≠ []) (ht : text ≠ [])
    (hl : (splitOn text sep).getLastD [] = []) : sep.isSuffixOf text = true := by
  have hj := joinWith_splitOn text sep h
  have hne := splitOn_ne_nil' text sep h
  rw [List.isSuffixOf_iff_suffix]
  by_cases h2 : (splitOn text sep).dropLast = []
  · exfalso
    have hd := eq_dropLast_append_getLastD (splitOn text sep) [] hne
    rw [h2, hl, List.nil_append] at hd
    rw [hd] at hj
    exact ht hj.symm
  · have := suffix_joinWith_of_getLastD_nil sep (splitOn text sep) hl h2
    rwa [hj] at this

/-- for a separator without a proper border the old and the new trailing condition coincide (on a
non-empty text; the empty text has the single empty piece and does not end with the separator) -/
theorem isSuffixOf_iff_getLastD_nil (text sep : List α) (h : sep ≠ []) (hu : Unbordered sep)
    (ht : text ≠ []) :
    sep.isSuffixOf text = true ↔ (splitOn text sep).getLastD [] = [] := by
  constructor
  · intro hs
    rw [List.getLastD_eq_getLast?, splitOn_last_of_suffix text sep h hu hs]
    rfl
  · exact isSuffixOf_of_getLastD_nil text sep h ht

/-! ### non-vacuity on concrete lists -/

example : splitOn [1, 2, 0, 3, 0] [0] = [[1, 2], [3], []] := by decide
example : splitOn [1, 2, 0, 3] [0] = [[1, 2], [3]] := by decide
example : splitOn [1, 9, 8, 2, 9, 8] [9, 8] = [[1], [2], []] := by decide
example : splitOn [1, 2, 3] ([] : List Nat) = [[1], [2], [3]] := by decide
example : joinWith [0] (splitOn [1, 2, 0, 3, 0] [0]) = [1, 2, 0, 3, 0] := by decide
example : Spec.linePieces [1, 2, 0, 3, 0] [0] false = [[1, 2, 0], [3, 0]] := by decide
example : Spec.linePieces [1, 2, 0, 3, 0] [0] true = [[1, 2, 0], [3, 0], []] := by decide
example : Spec.bareLines [1, 2, 0, 3, 0] [0] false = [[1, 2], [3]] := by decide
example : Spec.selectLines [1, 0, 2, 0, 3, 0] [0] false 1 2 = ([1, 0], [2, 0], [3, 0]) := by decide
example : Spec.selectLines [1, 0, 2, 0, 3, 0] [0] false (-1) Gen.endSentinel
    = ([1, 0, 2, 0], [3, 0], []) := by decide
example : Spec.apply [1, 2, 0, 3, 0] [0] false (fun _ l => [l]) = [1, 2, 0, 3, 0] := by decide
example : Unbordered [9, 8] := by decide
example : ¬ Unbordered [7, 7] := by decide
example : ¬ Unbordered [1, 2, 1] := by decide

/-- The former counterexample (trailing rule "the text ends with the separator"): with the bordered
separator `[7,7]` the leftmost scan of `[7,7,7]` misses the final occurrence, so the last line `[7]`
is unterminated; with the rule "the last piece is empty" the identity callback now gives the text
back. -/
example : ([7, 7] : List Nat).isSuffixOf [7, 7, 7] = true ∧
    (splitOn [7, 7, 7] [7, 7]).getLast? = some [7] ∧
    Spec.apply [7, 7, 7] [7, 7] false (fun _ l => [l]) = [7, 7, 7] := by decide

example : joinWith ([] : List Nat) (splitOn [1, 2, 3] []) = [1, 2, 3] := by decide

end RosedVerif
